#!/bin/bash
# Build the framework from files on disk only (offline). Run once after a fresh restore.
set -e
cd "$(dirname "$0")"
export GOFLAGS=-mod=mod GOPROXY=off GOSUMDB=off GOTOOLCHAIN=local CGO_ENABLED=0
mkdir -p .work evidence replays
python3 - <<'PY'
import os, sys; sys.path.insert(0, "lib")
import vlib
names = sorted(os.listdir("translator/cmd"))
st = vlib.run_translator(names)
bad = {k: v for k, v in st["files"].items() if v["status"] != "ok"}
print("translators:", names, "->", len(st["files"]), "generated files; unrecognised:", bad)
vlib.coq_makefile()
for n in sorted(os.listdir("harness/cmd")):
    exe, err = vlib.build_harness(n)
    print("harness", n, "ok" if exe else "FAILED\n" + err)
    if not exe: sys.exit(1)
PY
(cd coq && timeout 3000 make -j16 2>&1 | tail -5)
echo setup done
