#!/bin/bash
# Build the framework from files on disk only (offline). Run once after a fresh restore.
set -e
cd "$(dirname "$0")"
export GOFLAGS=-mod=mod GOPROXY=off GOSUMDB=off GOTOOLCHAIN=local CGO_ENABLED=0
mkdir -p .work evidence replays
(cd translator && go build -o bin/gmqtr .)
python3 - <<'PY'
import sys; sys.path.insert(0, "lib")
import vlib
st = vlib.run_translator()
bad = {k: v for k, v in st["files"].items() if v["status"] != "ok"}
print("translator:", len(st["files"]), "generated files;", "unrecognised:", bad)
PY
(cd coq && coq_makefile -f _CoqProject -o Makefile >/dev/null && timeout 3000 make -j16 2>&1 | tail -5)
cp /repo/go.sum harness/go.sum
(cd harness && go build -tags verif -o bin/gmqh ./cmd/gmqh)
echo setup done
