module gmqverif/harness

go 1.19

require (
	github.com/sasha-s/go-deadlock v0.3.1
	github.com/sirupsen/logrus v1.9.0
	github.com/valinurovam/garagemq v0.0.0
)

require (
	github.com/AndreasBriese/bbloom v0.0.0-20190825152654-46b345b51c96 // indirect
	github.com/cespare/xxhash/v2 v2.2.0 // indirect
	github.com/coreos/go-systemd v0.0.0-20191104093116-d3cd4ed1dbcf // indirect
	github.com/dgraph-io/badger v1.6.2 // indirect
	github.com/dgraph-io/ristretto v0.1.1 // indirect
	github.com/dustin/go-humanize v1.0.0 // indirect
	github.com/golang/glog v1.0.0 // indirect
	github.com/golang/protobuf v1.5.2 // indirect
	github.com/petermattis/goid v0.0.0-20230904192822-1876fd5063bc // indirect
	github.com/pkg/errors v0.9.1 // indirect
	github.com/tidwall/btree v1.6.0 // indirect
	github.com/tidwall/buntdb v1.2.10 // indirect
	github.com/tidwall/gjson v1.14.4 // indirect
	github.com/tidwall/grect v0.1.4 // indirect
	github.com/tidwall/match v1.1.1 // indirect
	github.com/tidwall/pretty v1.2.1 // indirect
	github.com/tidwall/rtred v0.1.2 // indirect
	github.com/tidwall/tinyqueue v0.1.1 // indirect
	golang.org/x/crypto v0.17.0 // indirect
	golang.org/x/net v0.17.0 // indirect
	golang.org/x/sys v0.15.0 // indirect
	google.golang.org/protobuf v1.33.0 // indirect
	gopkg.in/yaml.v2 v2.4.0 // indirect
)

replace github.com/valinurovam/garagemq => /repo
