module gmqverif/harness

go 1.19

require github.com/valinurovam/garagemq v0.0.0

require (
	github.com/petermattis/goid v0.0.0-20230904192822-1876fd5063bc // indirect
	github.com/sasha-s/go-deadlock v0.3.1 // indirect
)

replace github.com/valinurovam/garagemq => /repo
