// routing: API-level differential driver for property C08.  It drives binding.NewBinding and
// exchange.Exchange directly (no sockets) and prints one line per case:
//
//	X|<i>|<pattern hex>|<E | P | hex bit set>    bounded-exhaustive topic row (bit k = key number k matches)
//	T|<pattern hex>|<key hex>|<0|1|2|P>          one (pattern, key) pair; 2 = NewBinding error, P = panic
//	R|<json>                                     binding operations on one exchange + GetMatchedQueues
//
// All strings are hex so that any byte can occur.  Everything that can panic runs under recover().
package main

import (
	"bufio"
	"encoding/hex"
	"encoding/json"
	"flag"
	"fmt"
	"math"
	"math/big"
	"os"
	"sort"
	"strconv"
	"strings"
	"time"

	"gmqverif/harness/hx"

	"github.com/valinurovam/garagemq/amqp"
	"github.com/valinurovam/garagemq/binding"
	"github.com/valinurovam/garagemq/exchange"
)

func main() {
	if len(os.Args) < 2 {
		fmt.Fprintln(os.Stderr, "usage: routing topic-exh|topic-rand|route|replay-topic|replay-route ...")
		os.Exit(2)
	}
	var err error
	w := bufio.NewWriter(os.Stdout)
	defer w.Flush()
	switch os.Args[1] {
	case "topic-exh":
		err = cmdTopicExh(w, os.Args[2:])
	case "topic-rand":
		err = cmdTopicRand(w, os.Args[2:])
	case "route":
		err = cmdRoute(w, os.Args[2:])
	case "replay-topic":
		if len(os.Args) != 4 {
			err = fmt.Errorf("usage: replay-topic <pattern hex> <key hex>")
			break
		}
		p, _ := hex.DecodeString(os.Args[2])
		k, _ := hex.DecodeString(os.Args[3])
		fmt.Fprintf(w, "T|%s|%s|%s\n", os.Args[2], os.Args[3], topicPair(string(p), string(k)))
	case "replay-route":
		// cases (json, without or with "out") on stdin, one per line
		sc := bufio.NewScanner(os.Stdin)
		sc.Buffer(make([]byte, 1<<20), 1<<26)
		for sc.Scan() {
			line := strings.TrimSpace(sc.Text())
			if line == "" {
				continue
			}
			line = strings.TrimPrefix(line, "R|")
			var c routeCase
			if e := json.Unmarshal([]byte(line), &c); e != nil {
				err = e
				break
			}
			emitRoute(w, &c)
		}
	default:
		err = fmt.Errorf("unknown sub-command %s", os.Args[1])
	}
	if err != nil {
		w.Flush()
		fmt.Fprintln(os.Stderr, "error:", err)
		os.Exit(2)
	}
}

// ---------------------------------------------------------------- topic pairs

func topicPair(pattern, key string) (res string) {
	defer func() {
		if r := recover(); r != nil {
			res = "P"
		}
	}()
	b, err := binding.NewBinding("q", "e", pattern, nil, true)
	if err != nil {
		return "2"
	}
	if b.MatchTopic("e", key) {
		return "1"
	}
	return "0"
}

// all token lists of length 0..n, shorter first, base-|alpha| counting order
func listsUpto(alpha []string, n int) [][]string {
	out := [][]string{{}}
	prev := [][]string{{}}
	for l := 1; l <= n; l++ {
		var cur [][]string
		for _, a := range alpha {
			for _, p := range prevLists(alpha, l-1) {
				cur = append(cur, append([]string{a}, p...))
			}
		}
		out = append(out, cur...)
		prev = cur
	}
	_ = prev
	return out
}

func prevLists(alpha []string, n int) [][]string {
	if n == 0 {
		return [][]string{{}}
	}
	var cur [][]string
	for _, a := range alpha {
		for _, p := range prevLists(alpha, n-1) {
			cur = append(cur, append([]string{a}, p...))
		}
	}
	return cur
}

func cmdTopicExh(w *bufio.Writer, args []string) error {
	fs := flag.NewFlagSet("topic-exh", flag.ExitOnError)
	pn := fs.Int("pn", 4, "max pattern tokens")
	kn := fs.Int("kn", 4, "max key tokens")
	palpha := fs.String("palpha", "a,b,ab,*,#", "pattern tokens")
	kalpha := fs.String("kalpha", "a,b,ab,*,#", "key tokens")
	fs.Parse(args)
	pats := listsUpto(strings.Split(*palpha, ","), *pn)
	keyl := listsUpto(strings.Split(*kalpha, ","), *kn)
	keys := make([]string, len(keyl))
	for i, k := range keyl {
		keys[i] = strings.Join(k, ".")
	}
	for i, p := range pats {
		pat := strings.Join(p, ".")
		fmt.Fprintf(w, "X|%d|%s|%s\n", i, hex.EncodeToString([]byte(pat)), topicRow(pat, keys))
	}
	return nil
}

func topicRow(pat string, keys []string) (res string) {
	defer func() {
		if r := recover(); r != nil {
			res = "P"
		}
	}()
	b, err := binding.NewBinding("q", "e", pat, nil, true)
	if err != nil {
		return "E"
	}
	bits := new(big.Int)
	for i, k := range keys {
		if b.MatchTopic("e", k) {
			bits.SetBit(bits, i, 1)
		}
	}
	return bits.Text(16)
}

var topicPieces = []string{"a", "b", "ab", "*", "#", "", "a", "b", "*", "#", "c", "a*", "#b", "**", "##", " ", " a", "a ", "\xff", "A", "0", "a#b", "\n", "\\", "[", "(", "+", "$", "^"}

func genTopicString(r *hx.Rng, pattern bool) string {
	n := r.Intn(9)
	if r.Chance(1, 12) {
		n = 9 + r.Intn(40)
	}
	parts := make([]string, n)
	for i := range parts {
		k := r.Intn(100)
		switch {
		case k < 55:
			parts[i] = topicPieces[r.Intn(3)]
		case k < 80 && pattern:
			parts[i] = topicPieces[3+r.Intn(2)]
		case k < 86:
			parts[i] = ""
		default:
			parts[i] = topicPieces[r.Intn(len(topicPieces))]
		}
	}
	s := strings.Join(parts, ".")
	switch r.Intn(14) {
	case 0:
		s = "." + s
	case 1:
		s = s + "."
	case 2:
		s = strings.Replace(s, ".", "", 1) // glue two words
	}
	return s
}

func cmdTopicRand(w *bufio.Writer, args []string) error {
	fs := flag.NewFlagSet("topic-rand", flag.ExitOnError)
	seed := fs.Uint64("seed", 1, "seed")
	n := fs.Int("n", 1000, "pairs")
	fs.Parse(args)
	r := hx.NewRng(*seed)
	for i := 0; i < *n; i++ {
		p := genTopicString(r, true)
		var k string
		if r.Chance(1, 3) {
			// a key derived from the pattern: wildcards replaced by 0..2 words, so that matches are frequent
			var ws []string
			if p != "" {
				for _, t := range strings.Split(p, ".") {
					switch t {
					case "*":
						ws = append(ws, topicPieces[r.Intn(3)])
						if r.Chance(1, 8) {
							ws = append(ws, "a")
						}
					case "#":
						for j := r.Intn(3); j > 0; j-- {
							ws = append(ws, topicPieces[r.Intn(3)])
						}
					default:
						ws = append(ws, t)
					}
				}
			}
			k = strings.Join(ws, ".")
		} else {
			k = genTopicString(r, false)
		}
		fmt.Fprintf(w, "T|%s|%s|%s\n", hex.EncodeToString([]byte(p)), hex.EncodeToString([]byte(k)), topicPair(p, k))
	}
	return nil
}

// ---------------------------------------------------------------- route cases

// value: ["nil"] ["bool",b] ["i8",n] .. ["u32",n] ["i64","n"] ["u64","n"] ["f32",bits] ["f64","bits"]
// ["dec",scale,val] ["str",hex] ["bytes",hex] ["time",sec]; not modelled: ["arr",[v..]] ["tab",{..}]
type jval []interface{}

// table: list of [keyhex, value] sorted by key; nil = nil *Table
type jtable [][2]interface{}

type jop struct {
	Op    string  `json:"op"` // "+" bind, "-" unbind, "!" delete queue
	Q     string  `json:"q"`
	Key   string  `json:"key,omitempty"`
	Args  *jtable `json:"args"`
	Topic bool    `json:"topic,omitempty"`
}

type jmsg struct {
	Ex  string  `json:"ex"`
	Key string  `json:"key"`
	Hdr *jtable `json:"hdr"`
}

type jout struct {
	Errs     []int       `json:"errs"`
	Bindings [][2]string `json:"bindings"`
	Matched  []string    `json:"matched"`
	Panic    string      `json:"panic,omitempty"`
}

type routeCase struct {
	Ty  int    `json:"ty"`
	Ex  string `json:"ex"`
	Ops []jop  `json:"ops"`
	Msg jmsg   `json:"msg"`
	Out *jout  `json:"out,omitempty"`
}

func unhex(s string) string { b, _ := hex.DecodeString(s); return string(b) }
func hexs(s string) string  { return hex.EncodeToString([]byte(s)) }

func num(x interface{}) float64 {
	switch v := x.(type) {
	case float64:
		return v
	case int:
		return float64(v)
	case string:
		f, _ := strconv.ParseFloat(v, 64)
		return f
	}
	return 0
}

func goValue(v []interface{}) interface{} {
	switch v[0].(string) {
	case "nil":
		return nil
	case "bool":
		return v[1].(bool)
	case "i8":
		return int8(num(v[1]))
	case "u8":
		return uint8(num(v[1]))
	case "i16":
		return int16(num(v[1]))
	case "u16":
		return uint16(num(v[1]))
	case "i32":
		return int32(num(v[1]))
	case "u32":
		return uint32(num(v[1]))
	case "i64":
		n, _ := strconv.ParseInt(fmt.Sprint(v[1]), 10, 64)
		return n
	case "u64":
		n, _ := strconv.ParseUint(fmt.Sprint(v[1]), 10, 64)
		return n
	case "f32":
		n, _ := strconv.ParseUint(fmt.Sprint(v[1]), 10, 32)
		return math.Float32frombits(uint32(n))
	case "f64":
		n, _ := strconv.ParseUint(fmt.Sprint(v[1]), 10, 64)
		return math.Float64frombits(n)
	case "dec":
		return amqp.Decimal{Scale: uint8(num(v[1])), Value: int32(num(v[2]))}
	case "str":
		return unhex(v[1].(string))
	case "bytes":
		return []byte(unhex(v[1].(string)))
	case "time":
		return time.Unix(int64(num(v[1])), 0)
	case "arr":
		out := []interface{}{}
		for _, e := range v[1].([]interface{}) {
			out = append(out, goValue(e.([]interface{})))
		}
		return out
	case "tab":
		t := amqp.Table{}
		for _, e := range v[1].([]interface{}) {
			kv := e.([]interface{})
			t[unhex(kv[0].(string))] = goValue(kv[1].([]interface{}))
		}
		return &t
	}
	panic("bad value tag " + fmt.Sprint(v[0]))
}

func goTable(t *jtable) *amqp.Table {
	if t == nil {
		return nil
	}
	out := amqp.Table{}
	for _, kv := range *t {
		out[unhex(kv[0].(string))] = goValue(kv[1].([]interface{}))
	}
	return &out
}

func runRoute(c *routeCase) (out *jout) {
	out = &jout{Errs: []int{}, Bindings: [][2]string{}, Matched: []string{}}
	defer func() {
		if r := recover(); r != nil {
			out.Panic = strings.ReplaceAll(fmt.Sprint(r), "\n", " ")
			out.Matched = nil
		}
	}()
	exn := unhex(c.Ex)
	ex := exchange.NewExchange(exn, byte(c.Ty), false, false, false, false)
	for i, op := range c.Ops {
		switch op.Op {
		case "+", "-":
			b, err := binding.NewBinding(unhex(op.Q), exn, unhex(op.Key), goTable(op.Args), op.Topic)
			if err != nil {
				out.Errs = append(out.Errs, i)
				continue
			}
			if op.Op == "+" {
				ex.AppendBinding(b)
			} else {
				ex.RemoveBinding(b)
			}
		case "!":
			ex.RemoveQueueBindings(unhex(op.Q))
		}
	}
	for _, b := range ex.GetBindings() {
		out.Bindings = append(out.Bindings, [2]string{hexs(b.GetQueue()), hexs(b.GetRoutingKey())})
	}
	msg := &amqp.Message{Exchange: unhex(c.Msg.Ex), RoutingKey: unhex(c.Msg.Key),
		Header: &amqp.ContentHeader{PropertyList: &amqp.BasicPropertyList{Headers: goTable(c.Msg.Hdr)}}}
	m := ex.GetMatchedQueues(msg)
	for q := range m {
		out.Matched = append(out.Matched, hexs(q))
	}
	sort.Strings(out.Matched)
	return out
}

func emitRoute(w *bufio.Writer, c *routeCase) {
	c.Out = runRoute(c)
	b, _ := json.Marshal(c)
	fmt.Fprintf(w, "R|%s\n", b)
}

var queuePool = []string{"q1", "q2", "q3", "q1", "q2", "q"}
var litKeys = []string{"", "a", "b", "a.b", "k", "a.b.c", "ab"}
var topicKeys = []string{"#", "*", "a.*", "*.b", "a.#", "#.b", "a.#.b", "*.*", "#.#", "a.b", "a", "", "a*", "*.#", "a..b", "b.#.#", "#.a.#"}
var msgKeys = []string{"", "a", "b", "a.b", "k", "a.b.c", "ab", "a.a.b", "b.a", "a..b", ".", "a.", "x.y.z.w"}
var hdrKeys = []string{"h1", "h2", "h3", "x-foo", "x", "x-"}

func valuePool(r *hx.Rng) jval {
	switch r.Intn(26) {
	case 0:
		return jval{"nil"}
	case 1:
		return jval{"bool", true}
	case 2:
		return jval{"bool", false}
	case 3:
		return jval{"i8", 1}
	case 4:
		return jval{"u8", 1}
	case 5:
		return jval{"i16", 1}
	case 6:
		return jval{"u16", 1}
	case 7:
		return jval{"i32", 1}
	case 8:
		return jval{"i32", 2}
	case 9:
		return jval{"u32", 1}
	case 10:
		return jval{"i64", "1"}
	case 11:
		return jval{"u64", "1"}
	case 12:
		return jval{"f32", int(math.Float32bits(1.0))}
	case 13:
		return jval{"f64", strconv.FormatUint(math.Float64bits(1.0), 10)}
	case 14:
		return jval{"f64", strconv.FormatUint(math.Float64bits(math.NaN()), 10)}
	case 15:
		return jval{"f64", "0"}
	case 16:
		return jval{"f64", strconv.FormatUint(1<<63, 10)} // -0
	case 17:
		return jval{"dec", 2, 100}
	case 18:
		return jval{"str", hexs("v")}
	case 19:
		return jval{"bytes", hexs("v")}
	case 20:
		return jval{"str", hexs("all")}
	case 21:
		return jval{"time", 1000}
	case 22:
		return jval{"i64", strconv.FormatInt(math.MinInt64, 10)}
	case 23:
		return jval{"str", hexs("")}
	case 24:
		return jval{"i32", -1}
	default:
		return jval{"u64", strconv.FormatUint(math.MaxUint64, 10)}
	}
}

func genTable(r *hx.Rng, binding bool) *jtable {
	if r.Chance(1, 12) {
		return nil
	}
	m := map[string]jval{}
	n := r.Intn(4)
	for i := 0; i < n; i++ {
		k := hdrKeys[r.Intn(len(hdrKeys))]
		v := valuePool(r)
		if r.Chance(1, 2) {
			v = []jval{{"i32", 1}, {"str", hexs("v")}, {"nil"}, {"bytes", hexs("v")}}[r.Intn(4)]
		}
		m[k] = v
	}
	if binding {
		switch r.Intn(10) {
		case 0, 1, 2:
			m["x-match"] = jval{"str", hexs("all")}
		case 3, 4, 5, 6:
			m["x-match"] = jval{"str", hexs("any")}
		case 7:
			if r.Chance(1, 3) {
				m["x-match"] = []jval{{"str", hexs("some")}, {"bytes", hexs("all")}, {"i32", 1}}[r.Intn(3)]
			}
		}
	} else if r.Chance(1, 10) {
		m["x-match"] = jval{"str", hexs("any")}
	}
	keys := make([]string, 0, len(m))
	for k := range m {
		keys = append(keys, k)
	}
	sort.Strings(keys)
	t := jtable{}
	for _, k := range keys {
		t = append(t, [2]interface{}{hexs(k), []interface{}(m[k])})
	}
	return &t
}

func genRoute(r *hx.Rng) *routeCase {
	ty := 1 + r.Intn(4)
	if r.Chance(1, 40) {
		ty = []int{0, 5, 255}[r.Intn(3)]
	}
	c := &routeCase{Ty: ty, Ex: hexs("e")}
	nops := 1 + r.Intn(7)
	var made []jop
	for i := 0; i < nops; i++ {
		k := r.Intn(100)
		switch {
		case k < 62 || len(made) == 0:
			op := jop{Op: "+", Q: hexs(queuePool[r.Intn(len(queuePool))])}
			switch ty {
			case 3:
				op.Key = hexs(topicKeys[r.Intn(len(topicKeys))])
				op.Topic = !r.Chance(1, 30)
			case 4:
				op.Key = hexs("")
				op.Args = genTable(r, true)
			default:
				op.Key = hexs(litKeys[r.Intn(len(litKeys))])
				if r.Chance(1, 6) {
					op.Args = genTable(r, true)
				}
				op.Topic = r.Chance(1, 40)
			}
			if ty != 4 && op.Args == nil && r.Chance(2, 3) {
				op.Args = &jtable{}
			}
			made = append(made, op)
			c.Ops = append(c.Ops, op)
		case k < 72:
			// bind the same thing again (duplicate)
			c.Ops = append(c.Ops, made[r.Intn(len(made))])
		case k < 90:
			op := made[r.Intn(len(made))]
			op.Op = "-"
			if r.Chance(1, 5) {
				op.Q = hexs(queuePool[r.Intn(len(queuePool))])
			}
			if r.Chance(1, 8) {
				op.Args = genTable(r, true)
			}
			c.Ops = append(c.Ops, op)
		default:
			c.Ops = append(c.Ops, jop{Op: "!", Q: hexs(queuePool[r.Intn(len(queuePool))])})
		}
	}
	c.Msg = jmsg{Ex: c.Ex, Key: hexs(msgKeys[r.Intn(len(msgKeys))])}
	if r.Chance(1, 25) {
		c.Msg.Ex = hexs("other")
	}
	if ty == 4 || r.Chance(1, 10) {
		c.Msg.Hdr = genTable(r, false)
	}
	return c
}

func cmdRoute(w *bufio.Writer, args []string) error {
	fs := flag.NewFlagSet("route", flag.ExitOnError)
	seed := fs.Uint64("seed", 1, "seed")
	n := fs.Int("n", 500, "cases")
	fs.Parse(args)
	r := hx.NewRng(*seed)
	for i := 0; i < *n; i++ {
		emitRoute(w, genRoute(r))
	}
	return nil
}
