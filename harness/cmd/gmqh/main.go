// gmqh: the implementation side of the correspondence checks. One sub-command
// per modelled component; every sub-command prints one canonical line per case.
package main

import (
	"fmt"
	"os"
)

type cmdFn func(args []string) error

var cmds = map[string]cmdFn{}

func main() {
	if len(os.Args) < 2 {
		fmt.Fprintln(os.Stderr, "usage: gmqh <cmd> [args]")
		os.Exit(2)
	}
	fn, ok := cmds[os.Args[1]]
	if !ok {
		fmt.Fprintln(os.Stderr, "unknown command", os.Args[1])
		os.Exit(2)
	}
	if err := fn(os.Args[2:]); err != nil {
		fmt.Fprintln(os.Stderr, "error:", err)
		os.Exit(2)
	}
}
