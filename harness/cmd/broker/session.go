package main

import (
	"encoding/json"
	"fmt"
	"github.com/valinurovam/garagemq/admin"
	"io"
	"log"
	"net/http"
	"net/http/httptest"
	"os"
	"regexp"
	"runtime"
	"runtime/pprof"
	"sort"
	"strconv"
	"strings"
	"sync/atomic"
	"time"

	"github.com/sasha-s/go-deadlock"
	"github.com/sirupsen/logrus"

	"github.com/valinurovam/garagemq/auth"
	"github.com/valinurovam/garagemq/config"
	"github.com/valinurovam/garagemq/metrics"
	"github.com/valinurovam/garagemq/server"
	"github.com/valinurovam/garagemq/verifhook"
)

type sessionCfg struct {
	MaxRAM int `json:"maxram,omitempty"` // queue.max_messages_in_ram of the broker under test (0: far above anything a session reaches)
	Rabbit bool   `json:"rabbit"`
	Engine string `json:"engine"`         // buntdb (in memory) | badger
	Auth   string `json:"auth,omitempty"` // password check mode: md5 (default) | bcrypt | plain
	Disk   bool   `json:"disk,omitempty"` // buntdb on disk (sessions that restart the broker)
	Dir    string `json:"-"`
}

// the configured users of every session (user -> clear password)
var sessionUsers = [][2]string{{"guest", "guest"}, {"alice", "wonder"}}

type stepResult struct {
	Op     string         `json:"op"`
	Frames []string       `json:"frames"`
	Snap   []string       `json:"snap"`
	Note   string         `json:"note,omitempty"`  // WEDGED / TIMEOUT / client-side errors
	Admin  map[string]int `json:"admin,omitempty"` // counters of the admin overview at quiescence (ADMIN steps)
	Alloc  uint64         `json:"alloc,omitempty"` // bytes the process allocated during the step (hostile steps only)
	Sent   int            `json:"sent,omitempty"`  // bytes the hostile op wrote
}

type session struct {
	gateParked                <-chan struct{} // ARM: a yield point of the broker is armed; the goroutine that reaches it parks there
	gateRelease               func()
	gateInflight, gatePending int64             // what the parked goroutine keeps counted while it is parked
	beforeStop                bool              // see quiesce
	genTags                   map[string]string // server-made consumer tag ("<unix time>_<id>") -> canonical name, in order of appearance
	genReal                   map[string]string // canonical name -> real tag
	connBase                  uint64            // connections opened before the last restart: the new server numbers its connections from 1 again
	rawSent                   int
	rawCount                  int
	cfg                       sessionCfg
	srv                       *server.Server
	addr                      string
	clients                   map[int]*client
	gone                      map[int]bool // connections the harness expects the broker to have forgotten
	nconn                     int
	settle                    time.Duration
}

func init() {
	deadlock.Opts.Disable = true
	logrus.SetOutput(io.Discard)
	logrus.SetLevel(logrus.PanicLevel)
	log.SetOutput(io.Discard)
}

func serverConfig(cfg sessionCfg) (*config.Config, string, error) {
	proto := "amqp-0-9-1"
	if cfg.Rabbit {
		proto = "amqp-rabbit"
	}
	mode := cfg.Auth
	if mode == "" {
		mode = "md5"
	}
	var users []config.User
	for _, u := range sessionUsers {
		hash, err := auth.HashPassword(u[1], mode)
		if err != nil {
			return nil, "", err
		}
		users = append(users, config.User{Username: u[0], Password: hash})
	}
	sc := &config.Config{
		Proto:      proto,
		Users:      users,
		TCP:        config.TCPConfig{Nodelay: true},
		Queue:      config.Queue{ShardSize: 4, MaxMessagesInRAM: 1 << 20},
		Db:         config.Db{DefaultPath: config.DbPathMemory, Engine: config.DbEngineTypeBuntDb},
		Vhost:      config.Vhost{DefaultPath: "/"},
		Security:   config.Security{PasswordCheck: mode},
		Connection: config.Connection{ChannelsMax: 4096, FrameMaxSize: 65536},
	}
	if cfg.MaxRAM > 0 {
		sc.Queue.MaxMessagesInRAM = uint64(cfg.MaxRAM)
	}
	if cfg.Engine == "badger" {
		sc.Db = config.Db{DefaultPath: cfg.Dir, Engine: config.DbEngineTypeBadger}
	} else if cfg.Disk {
		sc.Db = config.Db{DefaultPath: cfg.Dir, Engine: config.DbEngineTypeBuntDb}
	}
	return sc, proto, nil
}

func newSession(cfg sessionCfg, settle time.Duration) (*session, error) {
	sc, proto, err := serverConfig(cfg)
	if err != nil {
		return nil, err
	}
	verifhook.Reset()
	metrics.NewTrackRegistry(15, time.Hour, false)
	srv := server.NewServer("127.0.0.1", "0", proto, sc)
	if err := srv.VerifBoot(); err != nil {
		return nil, err
	}
	return &session{cfg: cfg, srv: srv, addr: srv.VerifAddr(), clients: map[int]*client{}, gone: map[int]bool{}, settle: settle}, nil
}

var adminPanics int64
var pollPaused int32

var genTagRe = regexp.MustCompile(`\b[0-9]{9,11}_[0-9]+\b`)

// canon renames the consumer tags the server made up (they contain the wall clock) by order of first appearance,
// which is how the model numbers them
func (s *session) canon(text string) string {
	return genTagRe.ReplaceAllStringFunc(text, func(t string) string {
		if s.genTags == nil {
			s.genTags, s.genReal = map[string]string{}, map[string]string{}
		}
		if c, ok := s.genTags[t]; ok {
			return c
		}
		c := fmt.Sprintf("amq.gen-%d", len(s.genTags)+1)
		s.genTags[t], s.genReal[c] = c, t
		return c
	})
}

// realTag is the inverse, for ops that name a consumer
func (s *session) realTag(t string) string {
	if r, ok := s.genReal[t]; ok {
		return r
	}
	return t
}

// adminPoll serves every admin endpoint once, in-process (the handlers read the same server object an admin HTTP
// client would reach); returns the overview counters
func (s *session) adminPoll() map[string]int {
	var counters map[string]int
	for i, h := range []http.Handler{admin.NewOverviewHandler(s.srv), admin.NewQueuesHandler(s.srv), admin.NewExchangesHandler(s.srv),
		admin.NewConnectionsHandler(s.srv), admin.NewChannelsHandler(s.srv), admin.NewBindingsHandler(s.srv)} {
		rec := httptest.NewRecorder()
		req := httptest.NewRequest("GET", "/?vhost=%2F", nil)
		func() {
			// net/http recovers a panicking handler (the request fails, the process lives): so does the poller, and
			// counts it; a fatal runtime error (concurrent map access) is not recoverable and ends the process
			defer func() {
				if r := recover(); r != nil {
					atomic.AddInt64(&adminPanics, 1)
				}
			}()
			h.ServeHTTP(rec, req)
		}()
		if i == 0 {
			var ov struct {
				Counters map[string]int `json:"counters"`
			}
			if json.Unmarshal(rec.Body.Bytes(), &ov) == nil {
				counters = ov.Counters
			}
		}
	}
	return counters
}

// startAdminPoller polls the admin endpoints continuously until stop is closed (read-only polling "meanwhile")
func (s *session) startAdminPoller(stop chan struct{}) {
	go func() {
		for {
			select {
			case <-stop:
				return
			default:
			}
			if atomic.LoadInt32(&pollPaused) == 0 {
				s.adminPoll()
			}
			time.Sleep(200 * time.Microsecond)
		}
	}()
}

// restart stops the broker gracefully (every client connection has been dropped before) and boots a new server on
// the same storage
func (s *session) restart() string {
	for id, c := range s.clients {
		if !s.gone[id] {
			c.close()
			s.gone[id] = true
		}
	}
	dl := time.Now().Add(5 * time.Second)
	for time.Now().Before(dl) {
		sn, ok := s.snapshot(false)
		// the store is not waited for: stopping the broker must write out what is still pending
		if !ok || (len(sn.Connections) == 0 && sn.Inflight == 0 && sn.Pending == 0) {
			break
		}
		time.Sleep(200 * time.Microsecond)
	}
	done := make(chan struct{})
	go func() { s.srv.Stop(); close(done) }()
	select {
	case <-done:
	case <-time.After(20 * time.Second):
		return "WEDGED(server stop)"
	}
	sc, proto, err := serverConfig(s.cfg)
	if err != nil {
		return err.Error()
	}
	verifhook.Reset()
	metrics.NewTrackRegistry(15, time.Hour, false)
	srv := server.NewServer("127.0.0.1", "0", proto, sc)
	if err := srv.VerifBoot(); err != nil {
		return "boot: " + err.Error()
	}
	s.srv = srv
	s.addr = srv.VerifAddr()
	s.connBase = uint64(s.nconn)
	return ""
}

func (s *session) stop() {
	for _, c := range s.clients {
		c.close()
	}
	// let the broker finish tearing the connections down before stopping it (Server.Stop racing a
	// connection teardown stops a queue twice: panic, close of closed channel)
	dl := time.Now().Add(3 * time.Second)
	for time.Now().Before(dl) {
		sn, ok := s.snapshot(false)
		if !ok || (len(sn.Connections) == 0 && sn.Inflight == 0 && sn.Pending == 0) {
			break
		}
		time.Sleep(200 * time.Microsecond)
	}
	done := make(chan struct{})
	go func() { s.srv.Stop(); close(done) }()
	select {
	case <-done:
	case <-time.After(15 * time.Second):
	}
	if (s.cfg.Engine == "badger" || s.cfg.Disk) && s.cfg.Dir != "" {
		_ = os.RemoveAll(s.cfg.Dir)
	}
}

func (s *session) snapshot(deep bool) (snap server.VerifSnapshot, ok bool) {
	ch := make(chan server.VerifSnapshot, 1)
	go func() { ch <- s.srv.VerifSnapshot(deep) }()
	select {
	case v := <-ch:
		return v, true
	case <-time.After(2 * time.Second):
		return server.VerifSnapshot{}, false
	}
}

// quiesce waits until the broker has handled everything the clients sent, has nothing in flight,
// and the clients have received everything the broker wrote. Returns "" or WEDGED/TIMEOUT.
// beforeStop: the step about to be executed is followed at once by a graceful stop (RESTART): the harness then does
// not wait for the store's tick, so that the stop finds additions and deletions still pending and has to write them out
func (s *session) quiesce() string {
	deadline := time.Now().Add(12 * time.Second)
	for _, c := range s.clients {
		if atomic.LoadInt32(&c.deaf) != 0 {
			// a client that does not read keeps its consumer's goroutine in a send for ever: the broker will not go
			// quiet, and the step is over when the other connections had time to be answered
			deadline = time.Now().Add(1500 * time.Millisecond)
		}
	}
	stable := 0
	for {
		snap, ok := s.snapshot(false)
		if !ok {
			if os.Getenv("VERIF_DUMP_ON_WEDGE") != "" {
				_ = pprof.Lookup("goroutine").WriteTo(os.Stderr, 2)
			}
			return "WEDGED(snapshot blocked)"
		}
		inflight, pending := snap.Inflight, snap.Pending
		if s.gateParked != nil {
			select {
			case <-s.gateParked: // a goroutine waits at the armed point: what it holds is not going to change
				inflight -= s.gateInflight
				pending -= s.gatePending
			default:
			}
		}
		q := inflight == 0 && pending == 0 && (snap.StorePend == 0 || s.beforeStop)
		byID := map[uint64]server.VerifConnSnap{}
		for _, cs := range snap.Connections {
			byID[cs.ID+s.connBase] = cs
		}
		for id, c := range s.clients {
			cs, present := byID[uint64(id)]
			if s.gone[id] {
				if present {
					q = false
				}
				continue
			}
			if !present {
				// broker dropped it on its own: wait for EOF on the client side
				if !c.isEOF() {
					q = false
				}
				continue
			}
			if !c.poisoned && cs.Handled+0 < c.nsent-0 && cs.Read >= 0 {
				// frames not yet handled; frames the reader itself consumes (dropped before dispatch) make the broker close
				if cs.Handled < c.nsent {
					q = false
				}
			}
			if cs.Outgoing != 0 || c.received() < cs.Written {
				q = false
			}
			for _, ch := range cs.Channels {
				if ch.Incoming != 0 {
					q = false
				}
				if ch.ConfirmQueued != 0 && ch.Status != 3 && ch.ConfirmMode {
					q = false
				}
			}
		}
		for _, qu := range snap.Queues {
			if qu.CallToken || qu.LoadToken {
				q = false
			}
		}
		if q {
			stable++
			if stable >= 3 {
				if s.settle > 0 && !s.beforeStop {
					time.Sleep(s.settle)
				}
				return ""
			}
		} else {
			stable = 0
		}
		if time.Now().After(deadline) {
			return fmt.Sprintf("TIMEOUT(inflight=%d pending=%d store=%d)", snap.Inflight, snap.Pending, snap.StorePend)
		}
		time.Sleep(150 * time.Microsecond)
	}
}

// stageOf renders connection.status as the model's handshake stage (Broker/Model.v: cstage); the transient
// values (start-ok / open being handled) are never seen at quiescence and are rendered as numbers
func stageOf(st int) string {
	switch st {
	case server.ConnStart:
		return "s"
	case server.ConnTune:
		return "t"
	case server.ConnTuneOK:
		return "k"
	case server.ConnOpenOK:
		return "o"
	}
	return strconv.Itoa(st)
}

func ownerID(id, base uint64) uint64 {
	if id == 0 {
		return 0
	}
	return id + base
}

func qos4(q [4]uint64) string { return fmt.Sprintf("%d/%d/%d/%d", q[0], q[1], q[2], q[3]) }

func uidOf(mid string) string {
	if len(mid) > 1 && mid[0] == 'm' {
		return mid[1:]
	}
	return "?"
}

// render the deep snapshot as the canonical lines of Run/BrokerRun.v: s_state
func (s *session) render() []string {
	snap, ok := s.snapshot(true)
	if !ok {
		return []string{"WEDGED"}
	}
	var out []string
	for _, cs := range snap.Connections {
		cs.ID += s.connBase
		out = append(out, fmt.Sprintf("conn %d st=%s qos=%s", cs.ID, stageOf(cs.Status), qos4(cs.Qos)))
		for _, ch := range cs.Channels {
			if ch.Status > 3 {
				continue
			}
			var cons []string
			sort.Slice(ch.Consumers, func(i, j int) bool { return ch.Consumers[i].Tag < ch.Consumers[j].Tag })
			for _, cm := range ch.Consumers {
				c := fmt.Sprintf("%s:%s:%s:%d", cm.Tag, cm.Queue, b2s(cm.NoAck), cm.Status)
				if s.cfg.Rabbit && len(cm.Qos) == 2 {
					c += ":" + qos4(cm.Qos[1])
				}
				cons = append(cons, c)
			}
			var un []string
			for _, u := range ch.Unacked {
				un = append(un, fmt.Sprintf("%d:%s:%s:%s", u.Tag, u.CTag, u.Queue, uidOf(u.MID)))
			}
			out = append(out, fmt.Sprintf("ch %d.%d st=%d flow=%s dtag=%d ctag=%d confirm=%s cur=%s qos=%s cqos=%s consumers=[%s] unacked=[%s]",
				cs.ID, ch.ID, ch.Status, b2s(ch.Flow), ch.DeliveryTag, ch.ConfirmTag, b2s(ch.ConfirmMode), b2s(ch.HasCurrentMsg),
				qos4(ch.Qos), qos4(ch.ConsumerQos), strings.Join(cons, " "), strings.Join(un, " ")))
		}
	}
	owner := map[uint64]string{} // consumer id -> "conn.chan"
	for _, cs := range snap.Connections {
		for _, ch := range cs.Channels {
			for _, cm := range ch.Consumers {
				owner[cm.ID] = fmt.Sprintf("%d.%d", cs.ID+s.connBase, ch.ID)
			}
		}
	}
	for _, q := range snap.Queues {
		var ready []string
		for _, m := range q.Ready {
			ready = append(ready, uidOf(m.MessageID))
		}
		out = append(out, fmt.Sprintf("queue %s ready=[%s] len=%d consumers=[%s] active=%s excl=%s ad=%s dur=%s owner=%d cexcl=%s m=%d/%d/%d",
			q.Name, strings.Join(ready, " "), q.Length, strings.Join(qcons(q.Consumers, q.ConsumerIDs, owner), " "), b2s(q.Active), b2s(q.Exclusive), b2s(q.AutoDelete),
			b2s(q.Durable), ownerID(q.ConnID, s.connBase), b2s(q.ConsumeExcl), q.MReady, q.MUnacked, q.MTotal))
	}
	for _, e := range snap.Exchanges {
		var bs []string
		for _, b := range e.Bindings {
			bs = append(bs, fmt.Sprintf("%s<-%s#%d", b.Queue, b.Key, b.NArgs))
		}
		sort.Strings(bs) // after a restart the bindings come back in storage order: compared as a set
		out = append(out, fmt.Sprintf("exchange %s type=%d dur=%s ad=%s int=%s bindings=[%s]", e.Name, e.Type, b2s(e.Durable), b2s(e.AutoDelete),
			b2s(e.Internal), strings.Join(bs, " ")))
	}
	out = append(out, fmt.Sprintf("server m=%d/%d/%d", snap.SrvReady, snap.SrvUnacked, snap.SrvTotal))
	return out
}

// qcons renders a queue's consumer list as conn.chan:tag ('?' when the consumer is registered on no live channel)
func qcons(tags []string, ids []uint64, owner map[uint64]string) []string {
	out := make([]string, len(tags))
	for i, t := range tags {
		o := "?"
		if i < len(ids) {
			if v, ok := owner[ids[i]]; ok {
				o = v
			}
		}
		out[i] = o + ":" + t
	}
	return out
}

func atoi(s string) int  { n, _ := strconv.Atoi(s); return n }
func atob(s string) bool { return s == "1" }
func deq(s string) string {
	if s == "-" {
		return ""
	}
	return s
}

// parse "k=v,k=v" into pairs ("-" = empty)
func parseArgs(s string) [][2]string {
	if s == "-" || s == "" {
		return nil
	}
	var out [][2]string
	for _, kv := range strings.Split(s, ",") {
		p := strings.SplitN(kv, "=", 2)
		if len(p) == 2 {
			out = append(out, [2]string{p[0], p[1]})
		}
	}
	return out
}

// exec runs one script op (see DESIGN.md Appendix C for the alphabet) and returns a client-side note.
func (s *session) exec(op string) string {
	f := strings.Fields(op)
	if len(f) == 0 {
		return "empty op"
	}
	if f[0] == "MULTI" {
		// several requests back to back, then settle
		note := ""
		for _, sub := range strings.Split(strings.TrimPrefix(op, "MULTI "), "|") {
			if n := s.exec(strings.TrimSpace(sub)); n != "" {
				note += n + "; "
			}
		}
		return note
	}
	need := func(n int) bool { return len(f) >= n }
	if f[0] == "OPEN" {
		return s.open(atoi(f[1]))
	}
	if f[0] == "RESTART" {
		return s.restart()
	}
	if f[0] == "ARM" { // ARM <yield point> <regions held> <tokens held>: the next goroutine to reach the point waits there
		if s.gateRelease != nil {
			s.gateRelease()
		}
		s.gateParked, s.gateRelease = verifhook.Arm(f[1])
		s.gateInflight, s.gatePending = 0, 0
		if len(f) > 2 {
			s.gateInflight = int64(atoi(f[2]))
		}
		if len(f) > 3 {
			s.gatePending = int64(atoi(f[3]))
		}
		return ""
	}
	if f[0] == "SLEEP" { // SLEEP <ms>: inside a MULTI, lets the requests sent so far reach the point where they block
		time.Sleep(time.Duration(atoi(f[1])) * time.Millisecond)
		return ""
	}
	if f[0] == "RELEASE" { // let the parked goroutine go on
		if s.gateRelease != nil {
			s.gateRelease()
			s.gateRelease, s.gateParked = nil, nil
		}
		return ""
	}
	if f[0] == "ADMIN" { // read the admin endpoints (no frame is sent): the result is attached to the step
		return ""
	}
	if f[0] == "ACCEPT" { // socket + protocol header only: the handshake is driven by STARTOK / TUNEOK / COPEN
		s.nconn++
		id := atoi(f[1])
		c, err := dial(s.addr, id)
		if err != nil {
			return "dial: " + err.Error()
		}
		s.clients[id] = c
		if _, err := c.nc.Write([]byte{'A', 'M', 'Q', 'P', 0, 0, 9, 1}); err != nil {
			return "header: " + err.Error()
		}
		c.startReader()
		dl := time.Now().Add(3 * time.Second)
		for c.received() < 1 && !c.isEOF() && time.Now().Before(dl) {
			time.Sleep(100 * time.Microsecond)
		}
		return ""
	}
	if !need(2) {
		return "bad op"
	}
	c := s.clients[atoi(f[1])]
	if c == nil {
		return "no such connection"
	}
	h := uint16(0)
	if need(3) {
		h = uint16(atoi(f[2]))
	}
	var err error
	switch f[0] {
	case "DEAF": // DEAF c 1|0: the client stops (resumes) reading its socket
		if atob(f[2]) {
			atomic.StoreInt32(&c.deaf, 1)
			c.poisoned = true // frames written to it are no longer counted as received
		} else {
			atomic.StoreInt32(&c.deaf, 0)
		}
	case "DROP":
		c.close()
		s.gone[c.id] = true
	case "CLOSE": // connection.close from the client
		w := method(10, 50)
		w.short(200)
		w.shortstr("bye")
		w.short(0)
		w.short(0)
		err = c.sendMethod(0, w)
		s.gone[c.id] = true
	case "CLOSEOK": // connection.close-ok (answer to a server-initiated close)
		err = c.sendMethod(0, method(10, 51))
		s.gone[c.id] = true
	case "BADM": // BADM c h kind : a well-framed method frame that does not decode
		var p []byte
		switch atoi(f[3]) % 5 {
		case 0:
			p = []byte{0x03, 0xe7, 0x00, 0x01} // class 999
		case 1:
			p = []byte{0x00, 0x32, 0x03, 0xe7} // queue.<999>
		case 2:
			p = []byte{0x00, 0x32, 0x00, 0x0a, 0x00, 0x00, 0x05, 'q'} // queue.declare cut inside the name
		case 3:
			p = []byte{0x00, 0x32} // not even a method id
		default:
			p = []byte{0x00, 0x00, 0x00, 0x00}
		}
		err = c.send(frame{typ: frameMethod, channel: h, payload: p})
	case "IDLE": // IDLE c <dead> ms : the client sends nothing for ms milliseconds (<dead> is for the model: the
		// negotiated heartbeat timeout passes and the broker must drop the connection)
		time.Sleep(time.Duration(atoi(f[3])) * time.Millisecond)
	case "HB": // HB c h : heartbeat frame
		err = c.send(frame{typ: 8, channel: h, payload: nil})
	case "RAW": // RAW c kind seed : hostile bytes (built deterministically from kind and seed)
		b := hostileBytes(atoi(f[2]), uint64(atoi(f[3])))
		s.rawSent += len(b)
		_ = c.nc.SetWriteDeadline(time.Now().Add(2 * time.Second))
		_, err = c.nc.Write(b)
		// framing is lost from here on: the frame counters of this connection mean nothing any more
		c.poisoned = true
		time.Sleep(30 * time.Millisecond)
	case "STARTOK": // STARTOK c <good> mech user pass [raw]   (<good> is for the model; raw: response without NULs)
		w := method(10, 11)
		w.table(nil)
		w.shortstr(deq(f[3]))
		if len(f) > 6 && f[6] == "1" {
			w.longstr([]byte(deq(f[4]) + deq(f[5])))
		} else {
			w.longstr([]byte("\x00" + deq(f[4]) + "\x00" + deq(f[5])))
		}
		w.shortstr("en_US")
		err = c.sendMethod(0, w)
	case "TUNEOK": // TUNEOK c <within> channel-max frame-max
		w := method(10, 31)
		w.short(uint16(atoi(f[3])))
		w.long(uint32(atoi(f[4])))
		hb := 0
		if len(f) > 5 {
			hb = atoi(f[5]) // TUNEOK c <within> channel-max frame-max heartbeat
		}
		w.short(uint16(hb))
		err = c.sendMethod(0, w)
	case "COPEN": // COPEN c <ok> vhost
		w := method(10, 40)
		w.shortstr(deq(f[3]))
		w.shortstr("")
		w.bit(false)
		err = c.sendMethod(0, w)
	case "CH":
		w := method(20, 10)
		w.shortstr("")
		err = c.sendMethod(h, w)
	case "CHCLOSE":
		w := method(20, 40)
		w.short(200)
		w.shortstr("bye")
		w.short(0)
		w.short(0)
		err = c.sendMethod(h, w)
	case "CHCLOSEOK":
		err = c.sendMethod(h, method(20, 41))
	case "FLOW":
		w := method(20, 20)
		w.bit(atob(f[3]))
		err = c.sendMethod(h, w)
	case "XD": // XD c h name type dur ad int pas nw
		w := method(40, 10)
		w.short(0)
		w.shortstr(deq(f[3]))
		w.shortstr(f[4])
		w.bit(atob(f[8]))
		w.bit(atob(f[5]))
		w.bit(atob(f[6]))
		w.bit(atob(f[7]))
		w.bit(atob(f[9]))
		w.table(nil)
		err = c.sendMethod(h, w)
	case "XDEL": // XDEL c h name ifunused nw
		w := method(40, 20)
		w.short(0)
		w.shortstr(deq(f[3]))
		w.bit(atob(f[4]))
		w.bit(atob(f[5]))
		err = c.sendMethod(h, w)
	case "QD": // QD c h name dur excl ad pas nw
		w := method(50, 10)
		w.short(0)
		w.shortstr(deq(f[3]))
		w.bit(atob(f[7]))
		w.bit(atob(f[4]))
		w.bit(atob(f[5]))
		w.bit(atob(f[6]))
		w.bit(atob(f[8]))
		w.table(nil)
		err = c.sendMethod(h, w)
	case "QB": // QB c h q ex key args nw
		w := method(50, 20)
		w.short(0)
		w.shortstr(deq(f[3]))
		w.shortstr(deq(f[4]))
		w.shortstr(deq(f[5]))
		w.bit(atob(f[7]))
		w.table(parseArgs(f[6]))
		err = c.sendMethod(h, w)
	case "QU": // QU c h q ex key args
		w := method(50, 50)
		w.short(0)
		w.shortstr(deq(f[3]))
		w.shortstr(deq(f[4]))
		w.shortstr(deq(f[5]))
		w.table(parseArgs(f[6]))
		err = c.sendMethod(h, w)
	case "QP": // QP c h q nw
		w := method(50, 30)
		w.short(0)
		w.shortstr(deq(f[3]))
		w.bit(atob(f[4]))
		err = c.sendMethod(h, w)
	case "QDEL": // QDEL c h q ifunused ifempty nw
		w := method(50, 40)
		w.short(0)
		w.shortstr(deq(f[3]))
		w.bit(atob(f[4]))
		w.bit(atob(f[5]))
		w.bit(atob(f[6]))
		err = c.sendMethod(h, w)
	case "QOS": // QOS c h count size global
		w := method(60, 10)
		w.long(uint32(atoi(f[4])))
		w.short(uint16(atoi(f[3])))
		w.bit(atob(f[5]))
		err = c.sendMethod(h, w)
	case "CONS": // CONS c h q tag noack excl nw
		w := method(60, 20)
		w.short(0)
		w.shortstr(deq(f[3]))
		// "-" = empty: the server makes the tag up; a tag the server made up earlier is named by its canonical form in
		// the script and sent as the real one (a client knows it from consume-ok)
		w.shortstr(s.realTag(deq(f[4])))
		w.bit(false)
		w.bit(atob(f[5]))
		w.bit(atob(f[6]))
		w.bit(atob(f[7]))
		w.table(nil)
		err = c.sendMethod(h, w)
	case "CANCEL": // CANCEL c h tag nw
		w := method(60, 30)
		w.shortstr(s.realTag(f[3]))
		w.bit(atob(f[4]))
		err = c.sendMethod(h, w)
	case "PUB": // PUB c h ex key mand imm pers uid len+len+..
		err = s.pubMethod(c, h, deq(f[3]), deq(f[4]), atob(f[5]), atob(f[6]))
		if err == nil {
			err = s.pubContent(c, h, atob(f[7]), f[8], f[9])
		}
	case "PUBM": // only the method frame: PUBM c h ex key mand imm
		err = s.pubMethod(c, h, deq(f[3]), deq(f[4]), atob(f[5]), atob(f[6]))
	case "HDR": // only a header frame: HDR c h size pers uid
		err = c.send(frame{typ: frameHeader, channel: h, payload: contentHeader(uint64(atoi(f[3])), atob(f[4]), "m"+f[5])})
	case "BODY": // only a body frame: BODY c h uid off len
		err = c.send(frame{typ: frameBody, channel: h, payload: makeBody(f[3], atoi(f[4]), atoi(f[5]))})
	case "GET": // GET c h q noack
		w := method(60, 70)
		w.short(0)
		w.shortstr(deq(f[3]))
		w.bit(atob(f[4]))
		err = c.sendMethod(h, w)
	case "ACK": // ACK c h tag mult
		w := method(60, 80)
		w.longlong(uint64(atoi(f[3])))
		w.bit(atob(f[4]))
		err = c.sendMethod(h, w)
	case "REJ": // REJ c h tag requeue
		w := method(60, 90)
		w.longlong(uint64(atoi(f[3])))
		w.bit(atob(f[4]))
		err = c.sendMethod(h, w)
	case "NACK": // NACK c h tag mult requeue
		w := method(60, 120)
		w.longlong(uint64(atoi(f[3])))
		w.bit(atob(f[4]))
		w.bit(atob(f[5]))
		err = c.sendMethod(h, w)
	case "RECOVER": // RECOVER c h requeue
		w := method(60, 110)
		w.bit(atob(f[3]))
		err = c.sendMethod(h, w)
	case "CONFIRM": // CONFIRM c h nw
		w := method(85, 10)
		w.bit(atob(f[3]))
		err = c.sendMethod(h, w)
	case "TXSELECT":
		err = c.sendMethod(h, method(90, 10))
	default:
		return "unknown op " + f[0]
	}
	if err != nil {
		return "send error: " + err.Error()
	}
	return ""
}

func (s *session) pubMethod(c *client, h uint16, ex, key string, mand, imm bool) error {
	w := method(60, 40)
	w.short(0)
	w.shortstr(ex)
	w.shortstr(key)
	w.bit(mand)
	w.bit(imm)
	return c.sendMethod(h, w)
}

func (s *session) pubContent(c *client, h uint16, pers bool, uid string, lens string) error {
	total := 0
	var parts []int
	if lens != "0" && lens != "-" {
		for _, p := range strings.Split(lens, "+") {
			n := atoi(p)
			parts = append(parts, n)
			total += n
		}
	}
	if err := c.send(frame{typ: frameHeader, channel: h, payload: contentHeader(uint64(total), pers, "m"+uid)}); err != nil {
		return err
	}
	off := 0
	for _, n := range parts {
		if err := c.send(frame{typ: frameBody, channel: h, payload: makeBody(uid, off, n)}); err != nil {
			return err
		}
		off += n
	}
	return nil
}

// open performs the whole handshake as one step (the model's LConnect)
func (s *session) open(id int) string {
	s.nconn++
	c, err := dial(s.addr, id)
	if err != nil {
		return "dial: " + err.Error()
	}
	s.clients[id] = c
	if _, err := c.nc.Write([]byte{'A', 'M', 'Q', 'P', 0, 0, 9, 1}); err != nil {
		return "header: " + err.Error()
	}
	c.startReader()
	wait := func(n int64) bool {
		dl := time.Now().Add(10 * time.Second)
		for c.received() < n {
			if time.Now().After(dl) || c.isEOF() {
				return false
			}
			time.Sleep(100 * time.Microsecond)
		}
		return true
	}
	if !wait(1) {
		return "no connection.start"
	}
	w := method(10, 11)
	w.table(nil)
	w.shortstr("PLAIN")
	w.longstr([]byte("\x00guest\x00guest"))
	w.shortstr("en_US")
	if err := c.sendMethod(0, w); err != nil {
		return err.Error()
	}
	if !wait(2) {
		return "no connection.tune"
	}
	w = method(10, 31)
	w.short(2047)
	w.long(65536)
	w.short(0)
	if err := c.sendMethod(0, w); err != nil {
		return err.Error()
	}
	w = method(10, 40)
	w.shortstr("/")
	w.shortstr("")
	w.bit(false)
	if err := c.sendMethod(0, w); err != nil {
		return err.Error()
	}
	if !wait(3) {
		return "no connection.open-ok"
	}
	c.collect() // handshake frames are not part of the observation
	return ""
}

// step = exec + quiesce + observation
func (s *session) step(op string) stepResult {
	r := stepResult{Op: op}
	hostile := strings.HasPrefix(op, "RAW ")
	if hostile {
		// every other hostile input is measured (the admin poller, which allocates on its own, pauses meanwhile);
		// the others are processed with the poller running
		s.rawCount++
		hostile = s.rawCount%2 == 1
	}
	var m0, m1 runtime.MemStats
	if hostile {
		atomic.StoreInt32(&pollPaused, 1)
		time.Sleep(300 * time.Microsecond)
		runtime.GC()
		runtime.ReadMemStats(&m0)
		s.rawSent = 0
	}
	r.Note = s.exec(op)
	if q := s.quiesce(); q != "" {
		if r.Note != "" {
			r.Note += "; "
		}
		r.Note += q
	}
	if op == "ADMIN" {
		r.Admin = s.adminPoll()
	}
	if n := atomic.SwapInt64(&adminPanics, 0); n > 0 {
		if r.Note != "" {
			r.Note += "; "
		}
		r.Note += fmt.Sprintf("ADMIN-PANIC(%d)", n)
	}
	if hostile {
		atomic.StoreInt32(&pollPaused, 0)
		runtime.ReadMemStats(&m1)
		r.Alloc = m1.TotalAlloc - m0.TotalAlloc
		r.Sent = s.rawSent
	}
	ids := make([]int, 0, len(s.clients))
	for id := range s.clients {
		ids = append(ids, id)
	}
	sort.Ints(ids)
	for _, id := range ids {
		c := s.clients[id]
		r.Frames = append(r.Frames, c.collect()...)
		if c.isEOF() && !c.reportedGone {
			c.reportedGone = true
			r.Frames = append(r.Frames, fmt.Sprintf("%d.0:GONE", id))
		}
	}
	if strings.HasPrefix(r.Note, "WEDGED") || strings.Contains(r.Note, "WEDGED") {
		r.Snap = []string{"WEDGED"}
	} else {
		r.Snap = s.render()
	}
	if r.Frames == nil {
		r.Frames = []string{}
	}
	for i := range r.Frames {
		r.Frames[i] = s.canon(r.Frames[i])
	}
	for i := range r.Snap {
		r.Snap[i] = s.canon(r.Snap[i])
	}
	return r
}
