package main

// A minimal AMQP 0-9-1 codec for the CLIENT side, written from the protocol
// specification and sharing no code with /repo/amqp.

import (
	"bufio"
	"encoding/binary"
	"fmt"
	"io"
)

type frame struct {
	typ     byte
	channel uint16
	payload []byte
}

const (
	frameMethod    = 1
	frameHeader    = 2
	frameBody      = 3
	frameHeartbeat = 8
	frameEnd       = 0xCE
)

func writeFrame(w io.Writer, f frame) error {
	buf := make([]byte, 0, len(f.payload)+8)
	buf = append(buf, f.typ)
	buf = binary.BigEndian.AppendUint16(buf, f.channel)
	buf = binary.BigEndian.AppendUint32(buf, uint32(len(f.payload)))
	buf = append(buf, f.payload...)
	buf = append(buf, frameEnd)
	_, err := w.Write(buf)
	return err
}

func readFrame(r *bufio.Reader) (frame, error) {
	var hdr [7]byte
	if _, err := io.ReadFull(r, hdr[:]); err != nil {
		return frame{}, err
	}
	size := binary.BigEndian.Uint32(hdr[3:7])
	if size > 1<<24 {
		return frame{}, fmt.Errorf("frame too large: %d", size)
	}
	payload := make([]byte, size+1)
	if _, err := io.ReadFull(r, payload); err != nil {
		return frame{}, err
	}
	if payload[size] != frameEnd {
		return frame{}, fmt.Errorf("bad frame end %x", payload[size])
	}
	return frame{typ: hdr[0], channel: binary.BigEndian.Uint16(hdr[1:3]), payload: payload[:size]}, nil
}

// ---- argument writer ----
type wbuf struct {
	b     []byte
	bits  byte
	nbits uint
}

func (w *wbuf) flushBits() {
	if w.nbits > 0 {
		w.b = append(w.b, w.bits)
		w.bits, w.nbits = 0, 0
	}
}
func (w *wbuf) octet(v byte)      { w.flushBits(); w.b = append(w.b, v) }
func (w *wbuf) short(v uint16)    { w.flushBits(); w.b = binary.BigEndian.AppendUint16(w.b, v) }
func (w *wbuf) long(v uint32)     { w.flushBits(); w.b = binary.BigEndian.AppendUint32(w.b, v) }
func (w *wbuf) longlong(v uint64) { w.flushBits(); w.b = binary.BigEndian.AppendUint64(w.b, v) }
func (w *wbuf) shortstr(s string) {
	w.flushBits()
	w.b = append(w.b, byte(len(s)))
	w.b = append(w.b, s...)
}
func (w *wbuf) longstr(s []byte) {
	w.flushBits()
	w.b = binary.BigEndian.AppendUint32(w.b, uint32(len(s)))
	w.b = append(w.b, s...)
}
func (w *wbuf) bit(v bool) {
	if w.nbits == 8 {
		w.flushBits()
	}
	if v {
		w.bits |= 1 << w.nbits
	}
	w.nbits++
}

// table of string -> string (long string values, tag 'S'), enough for the sessions
func (w *wbuf) table(kv [][2]string) {
	var t wbuf
	for _, p := range kv {
		t.shortstr(p[0])
		t.octet('S')
		t.longstr([]byte(p[1]))
	}
	w.longstr(t.b)
}
func (w *wbuf) bytes() []byte { w.flushBits(); return w.b }

func method(class, meth uint16) *wbuf {
	w := &wbuf{}
	w.short(class)
	w.short(meth)
	return w
}

// ---- argument reader ----
type rbuf struct {
	b     []byte
	pos   int
	bits  byte
	nbits uint
	err   error
}

func (r *rbuf) need(n int) bool {
	r.nbits = 0
	if r.err != nil || r.pos+n > len(r.b) {
		if r.err == nil {
			r.err = fmt.Errorf("short payload")
		}
		return false
	}
	return true
}
func (r *rbuf) octet() byte {
	if !r.need(1) {
		return 0
	}
	v := r.b[r.pos]
	r.pos++
	return v
}
func (r *rbuf) short() uint16 {
	if !r.need(2) {
		return 0
	}
	v := binary.BigEndian.Uint16(r.b[r.pos:])
	r.pos += 2
	return v
}
func (r *rbuf) long() uint32 {
	if !r.need(4) {
		return 0
	}
	v := binary.BigEndian.Uint32(r.b[r.pos:])
	r.pos += 4
	return v
}
func (r *rbuf) longlong() uint64 {
	if !r.need(8) {
		return 0
	}
	v := binary.BigEndian.Uint64(r.b[r.pos:])
	r.pos += 8
	return v
}
func (r *rbuf) shortstr() string {
	n := int(r.octet())
	if !r.need(n) {
		return ""
	}
	v := string(r.b[r.pos : r.pos+n])
	r.pos += n
	return v
}
func (r *rbuf) longstr() []byte {
	n := int(r.long())
	if !r.need(n) {
		return nil
	}
	v := r.b[r.pos : r.pos+n]
	r.pos += n
	return v
}
func (r *rbuf) bit() bool {
	if r.nbits == 0 || r.nbits == 8 {
		if r.err != nil || r.pos+1 > len(r.b) {
			if r.err == nil {
				r.err = fmt.Errorf("short payload")
			}
			return false
		}
		r.bits = r.b[r.pos]
		r.pos++
		r.nbits = 0
	}
	v := r.bits&(1<<r.nbits) != 0
	r.nbits++
	return v
}

func b2s(b bool) string {
	if b {
		return "1"
	}
	return "0"
}

// decodeMethod renders a server method canonically (the same text the Coq runner prints).
func decodeMethod(p []byte) string {
	r := &rbuf{b: p}
	class, meth := r.short(), r.short()
	id := fmt.Sprintf("%d.%d", class, meth)
	var s string
	switch id {
	case "10.10":
		s = "connection.start"
	case "10.30":
		cm, fm, hb := r.short(), r.long(), r.short()
		if cm == 4096 && fm == 65536 && hb == 60 {
			s = "connection.tune" // the limits every session is configured with
		} else {
			s = fmt.Sprintf("connection.tune(%d,%d,%d)", cm, fm, hb)
		}
	case "10.41":
		s = "connection.open-ok"
	case "10.50":
		code := r.short()
		_ = r.shortstr()
		c, m := r.short(), r.short()
		s = fmt.Sprintf("connection.close(%d,%d,%d)", code, c, m)
	case "10.51":
		s = "connection.close-ok"
	case "20.11":
		s = "channel.open-ok"
	case "20.21":
		s = "channel.flow-ok(" + b2s(r.bit()) + ")"
	case "20.40":
		code := r.short()
		_ = r.shortstr()
		c, m := r.short(), r.short()
		s = fmt.Sprintf("channel.close(%d,%d,%d)", code, c, m)
	case "20.41":
		s = "channel.close-ok"
	case "40.11":
		s = "exchange.declare-ok"
	case "40.21":
		s = "exchange.delete-ok"
	case "50.11":
		q := r.shortstr()
		mc, cc := r.long(), r.long()
		s = fmt.Sprintf("queue.declare-ok(%s,%d,%d)", q, mc, cc)
	case "50.21":
		s = "queue.bind-ok"
	case "50.51":
		s = "queue.unbind-ok"
	case "50.31":
		s = fmt.Sprintf("queue.purge-ok(%d)", r.long())
	case "50.41":
		s = fmt.Sprintf("queue.delete-ok(%d)", r.long())
	case "60.11":
		s = "basic.qos-ok"
	case "60.21":
		s = "basic.consume-ok(" + r.shortstr() + ")"
	case "60.31":
		s = "basic.cancel-ok(" + r.shortstr() + ")"
	case "60.30":
		s = "basic.cancel(" + r.shortstr() + ")"
	case "60.50":
		code := r.short()
		_ = r.shortstr()
		ex, key := r.shortstr(), r.shortstr()
		s = fmt.Sprintf("basic.return(%d,%s,%s)", code, ex, key)
	case "60.60":
		ctag := r.shortstr()
		dtag := r.longlong()
		red := r.bit()
		ex, key := r.shortstr(), r.shortstr()
		s = fmt.Sprintf("basic.deliver(%s,%d,%s,%s,%s)", ctag, dtag, b2s(red), ex, key)
	case "60.71":
		dtag := r.longlong()
		red := r.bit()
		ex, key := r.shortstr(), r.shortstr()
		mc := r.long()
		s = fmt.Sprintf("basic.get-ok(%d,%s,%s,%s,%d)", dtag, b2s(red), ex, key, mc)
	case "60.72":
		s = "basic.get-empty"
	case "60.80":
		dtag := r.longlong()
		s = fmt.Sprintf("basic.ack(%d,%s)", dtag, b2s(r.bit()))
	case "85.11":
		s = "confirm.select-ok"
	default:
		s = "method(" + id + ")"
	}
	if r.err != nil {
		s += "!TRUNCATED"
	}
	return s
}

// content header the client sends: delivery-mode (bit 12) and message-id (bit 7) = "m<uid>"
func contentHeader(bodySize uint64, persistent bool, msgID string) []byte {
	var w wbuf
	w.short(60)
	w.short(0)
	w.longlong(bodySize)
	w.short(0x1000 | 0x0080)
	if persistent {
		w.octet(2)
	} else {
		w.octet(1)
	}
	w.shortstr(msgID)
	return w.bytes()
}

// decodeHeader renders a received content header: header(uid,size,pers)
func decodeHeader(p []byte) string {
	r := &rbuf{b: p}
	_ = r.short()
	_ = r.short()
	size := r.longlong()
	flags := r.short()
	if flags&0x8000 != 0 {
		_ = r.shortstr()
	}
	if flags&0x4000 != 0 {
		_ = r.shortstr()
	}
	if flags&0x2000 != 0 {
		_ = r.longstr()
	}
	pers := false
	if flags&0x1000 != 0 {
		pers = r.octet() == 2
	}
	if flags&0x0800 != 0 {
		_ = r.octet()
	}
	if flags&0x0400 != 0 {
		_ = r.shortstr()
	}
	if flags&0x0200 != 0 {
		_ = r.shortstr()
	}
	if flags&0x0100 != 0 {
		_ = r.shortstr()
	}
	uid := "?"
	if flags&0x0080 != 0 {
		id := r.shortstr()
		if len(id) > 1 && id[0] == 'm' {
			uid = id[1:]
		}
	}
	s := fmt.Sprintf("header(%s,%d,%s)", uid, size, b2s(pers))
	if r.err != nil {
		s += "!TRUNCATED"
	}
	return s
}
