package main

import (
	"bufio"
	"fmt"
	"net"
	"strconv"
	"sync"
	"sync/atomic"
	"time"
)

// client is one raw AMQP connection of the harness.
type client struct {
	poisoned     bool  // hostile bytes were written: frame accounting is off
	deaf         int32 // DEAF: the reader goroutine pauses (the socket's receive buffer fills up)
	id           int   // = the broker's connection id (connections are opened one at a time on a fresh broker)
	nc           net.Conn
	mu           sync.Mutex
	frames       []frame // received, not yet collected
	nrecv        int64   // frames received in total
	nsent        int64   // frames sent in total
	eof          bool
	readErr      error
	reportedGone bool
	// per channel: uid announced by the last content header, and the running offset within its body
	curUID map[uint16]string
	curOff map[uint16]int
}

func dial(addr string, id int) (*client, error) {
	nc, err := net.DialTimeout("tcp", addr, 2*time.Second)
	if err != nil {
		return nil, err
	}
	c := &client{id: id, nc: nc, curUID: map[uint16]string{}, curOff: map[uint16]int{}}
	return c, nil
}

func (c *client) startReader() {
	go func() {
		r := bufio.NewReaderSize(c.nc, 1<<16)
		for {
			for atomic.LoadInt32(&c.deaf) != 0 { // DEAF: the client stops reading its socket
				time.Sleep(5 * time.Millisecond)
			}
			f, err := readFrame(r)
			c.mu.Lock()
			if err != nil {
				c.eof = true
				c.readErr = err
				c.mu.Unlock()
				return
			}
			c.frames = append(c.frames, f)
			c.nrecv++
			c.mu.Unlock()
		}
	}()
}

func (c *client) send(f frame) error {
	c.nsent++
	_ = c.nc.SetWriteDeadline(time.Now().Add(2 * time.Second))
	return writeFrame(c.nc, f)
}

func (c *client) sendMethod(ch uint16, w *wbuf) error {
	return c.send(frame{typ: frameMethod, channel: ch, payload: w.bytes()})
}

func (c *client) received() int64 {
	c.mu.Lock()
	defer c.mu.Unlock()
	return c.nrecv
}

func (c *client) isEOF() bool {
	c.mu.Lock()
	defer c.mu.Unlock()
	return c.eof
}

func bodyByte(uid string, off int) byte {
	n, _ := strconv.Atoi(uid)
	return byte('a' + (n+off)%26)
}

func makeBody(uid string, off, n int) []byte {
	b := make([]byte, n)
	for i := range b {
		b[i] = bodyByte(uid, off+i)
	}
	return b
}

// collect returns the canonical rendering of the frames received since the last call.
func (c *client) collect() []string {
	c.mu.Lock()
	fs := c.frames
	c.frames = nil
	c.mu.Unlock()
	out := make([]string, 0, len(fs))
	for _, f := range fs {
		var s string
		switch f.typ {
		case frameMethod:
			s = decodeMethod(f.payload)
		case frameHeader:
			s = decodeHeader(f.payload)
			// remember uid for the body frames
			uid := "?"
			if i := len("header("); len(s) > i {
				j := i
				for j < len(s) && s[j] != ',' {
					j++
				}
				uid = s[i:j]
			}
			c.curUID[f.channel] = uid
			c.curOff[f.channel] = 0
		case frameBody:
			uid := c.curUID[f.channel]
			off := c.curOff[f.channel]
			s = fmt.Sprintf("body(%s,%d)", uid, len(f.payload))
			for i, b := range f.payload {
				if uid == "" || uid == "?" || b != bodyByte(uid, off+i) {
					s += "!CORRUPT"
					break
				}
			}
			c.curOff[f.channel] = off + len(f.payload)
		case frameHeartbeat:
			continue // the broker's own heartbeats come when its ticker says: not part of the observation
		default:
			s = fmt.Sprintf("frame(type=%d)", f.typ)
		}
		out = append(out, fmt.Sprintf("%d.%d:%s", c.id, f.channel, s))
	}
	return out
}

func (c *client) close() { _ = c.nc.Close() }
