// broker: the implementation side of the broker-level correspondence (tier T1)
// and of the failing-input search. It boots the real server in-process, drives it
// with a raw frame client one step at a time, waits for quiescence after each
// step and prints, per step, the frames received and the projected snapshot.
package main

import (
	"bufio"
	"encoding/json"
	"flag"
	"fmt"
	"os"
	"path/filepath"
	"strings"
	"time"
)

type sessionOut struct {
	ID    string       `json:"id"`
	Cfg   sessionCfg   `json:"cfg"`
	Kind  string       `json:"kind"`
	Steps []stepResult `json:"steps"`
}

func runScript(id string, cfg sessionCfg, kind string, ops []string, settle time.Duration) (sessionOut, error) {
	out := sessionOut{ID: id, Cfg: cfg, Kind: kind}
	s, err := newSession(cfg, settle)
	if err != nil {
		return out, err
	}
	defer s.stop()
	for i, op := range ops {
		s.beforeStop = beforeStop(ops[i+1:])
		r := s.step(op)
		out.Steps = append(out.Steps, r)
		if strings.Contains(r.Note, "WEDGED") {
			break
		}
	}
	return out, nil
}

func main() {
	if len(os.Args) < 2 {
		fmt.Fprintln(os.Stderr, "usage: broker gen|replay ...")
		os.Exit(2)
	}
	switch os.Args[1] {
	case "gen":
		fs := flag.NewFlagSet("gen", flag.ExitOnError)
		seed := fs.Uint64("seed", 1, "seed")
		n := fs.Int("n", 20, "sessions")
		steps := fs.Int("steps", 30, "steps per session")
		kind := fs.String("kind", "exact", "generator: exact | racy")
		work := fs.String("work", "", "scratch directory (badger)")
		settle := fs.Int("settle", 0, "extra settle time per step in ms")
		first := fs.Int("first", 0, "index of the first session")
		rabbit := fs.Int("rabbit", -1, "force dialect: 1 rabbit, 0 0-9-1, -1 random")
		engine := fs.String("engine", "", "force engine: buntdb | badger | empty = random")
		fs.StringVar(&focus, "focus", "", "bias the op mix: flow | confirm | empty = general")
		fs.Parse(os.Args[2:])
		for i := 0; i < *n; i++ {
			if err := genSession(*seed, *first+i, *steps, *kind, *work, time.Duration(*settle)*time.Millisecond, *rabbit, *engine); err != nil {
				fmt.Fprintln(os.Stderr, "error:", err)
				os.Exit(2)
			}
		}
	case "replay":
		// replay <rabbit 0|1> <engine> <settle ms> < ops on stdin, one per line
		fs := flag.NewFlagSet("replay", flag.ExitOnError)
		rabbit := fs.Bool("rabbit", true, "dialect")
		engine := fs.String("engine", "buntdb", "engine")
		authMode := fs.String("auth", "", "password check mode: md5 (default) | bcrypt | plain")
		work := fs.String("work", "", "scratch directory (badger)")
		settle := fs.Int("settle", 0, "extra settle time per step in ms")
		maxram := fs.Int("maxram", 0, "queue.max_messages_in_ram (0: default, never reached)")
		fs.Parse(os.Args[2:])
		var ops []string
		sc := bufio.NewScanner(os.Stdin)
		for sc.Scan() {
			l := strings.TrimSpace(sc.Text())
			if l != "" && !strings.HasPrefix(l, "#") {
				ops = append(ops, l)
			}
		}
		disk := false
		for _, o := range ops {
			if o == "RESTART" {
				disk = true
			}
		}
		cfg := sessionCfg{Rabbit: *rabbit, Engine: *engine, Auth: *authMode, Disk: disk, MaxRAM: *maxram}
		if disk && *engine != "badger" {
			cfg.Dir = filepath.Join(*work, fmt.Sprintf("replay-disk-%d", os.Getpid()))
		}
		if *engine == "badger" {
			cfg.Dir = filepath.Join(*work, fmt.Sprintf("replay-%d", os.Getpid()))
		}
		out, err := runScript("replay", cfg, "replay", ops, time.Duration(*settle)*time.Millisecond)
		if err != nil {
			fmt.Fprintln(os.Stderr, "error:", err)
			os.Exit(2)
		}
		b, _ := json.Marshal(out)
		fmt.Println(string(b))
	default:
		fmt.Fprintln(os.Stderr, "unknown sub-command")
		os.Exit(2)
	}
}
