package main

import (
	"encoding/binary"

	"gmqverif/harness/hx"
)

// hostileBytes builds one hostile byte string. kind selects the family, seed the variation; everything is derived
// from one PRNG state so that a session replays exactly.
func hostileBytes(kind int, seed uint64) []byte {
	r := hx.NewRng(seed*2654435761 + uint64(kind)*97 + 5)
	fr := func(typ byte, ch uint16, payload []byte, end byte) []byte {
		b := []byte{typ}
		b = binary.BigEndian.AppendUint16(b, ch)
		b = binary.BigEndian.AppendUint32(b, uint32(len(payload)))
		b = append(b, payload...)
		return append(b, end)
	}
	rnd := func(n int) []byte {
		b := make([]byte, n)
		for i := range b {
			b[i] = byte(r.Intn(256))
		}
		return b
	}
	switch kind % 13 {
	case 0: // wrong frame-end octet
		return fr(1, uint16(r.Intn(3)), []byte{0, 20, 0, 10, 0}, byte(r.Intn(200)))
	case 1: // a frame header announcing a huge payload, then a few bytes
		b := []byte{byte(1 + r.Intn(3))}
		b = binary.BigEndian.AppendUint16(b, uint16(r.Intn(3)))
		b = binary.BigEndian.AppendUint32(b, []uint32{0xffffffff, 0x7fffffff, 100 << 20, 0x80000000}[r.Intn(4)])
		return append(b, rnd(r.Intn(40))...)
	case 2: // unknown frame type
		return fr(byte([]int{0, 4, 5, 9, 66, 255}[r.Intn(6)]), uint16(r.Intn(3)), rnd(r.Intn(20)), 0xce)
	case 3: // a long-string length field far beyond the frame (start-ok response / queue.declare arguments)
		p := []byte{0, 10, 0, 11, 0, 0, 0, 0, 5, 'P', 'L', 'A', 'I', 'N'}
		p = binary.BigEndian.AppendUint32(p, []uint32{0xffffffff, 0x7ffffff0, 200 << 20}[r.Intn(3)])
		p = append(p, rnd(r.Intn(16))...)
		return fr(1, 0, p, 0xce)
	case 4: // a table whose length field lies / with unknown value types, nested
		p := []byte{0, 50, 0, 10, 0, 0, 1, 'q', 0}
		t := []byte{}
		depth := 1 + r.Intn(40)
		for i := 0; i < depth; i++ {
			t = append(t, 1, 'k', 'F')
			t = binary.BigEndian.AppendUint32(t, uint32(r.Intn(1<<16)))
		}
		t = append(t, 1, 'z', byte(r.Intn(256)))
		t = append(t, rnd(r.Intn(12))...)
		p = binary.BigEndian.AppendUint32(p, uint32(len(t)))
		p = append(p, t...)
		return fr(1, uint16(1+r.Intn(2)), p, 0xce)
	case 5: // plain noise
		return rnd(1 + r.Intn(300))
	case 6: // content header announcing 2^63 bytes, and a class id that is not basic
		p := []byte{}
		p = binary.BigEndian.AppendUint16(p, uint16([]int{60, 0, 999}[r.Intn(3)]))
		p = binary.BigEndian.AppendUint16(p, 0)
		p = binary.BigEndian.AppendUint64(p, []uint64{1 << 63, 0xffffffffffffffff, 1 << 40}[r.Intn(3)])
		p = binary.BigEndian.AppendUint16(p, uint16(r.Intn(1<<16)))
		p = append(p, rnd(r.Intn(10))...)
		return fr(2, uint16(1+r.Intn(2)), p, 0xce)
	case 7: // a body frame out of the blue
		return fr(3, uint16(r.Intn(3)), rnd(r.Intn(64)), 0xce)
	case 8: // tune-ok within the limits but with odd values (heartbeat 1 or 2, limits 0 / 1)
		p := []byte{0, 10, 0, 31}
		p = binary.BigEndian.AppendUint16(p, uint16([]int{0, 1, 2047}[r.Intn(3)]))
		p = binary.BigEndian.AppendUint32(p, []uint32{0, 1, 4096, 65536}[r.Intn(4)])
		p = binary.BigEndian.AppendUint16(p, uint16([]int{1, 1, 2, 3, 65535}[r.Intn(5)]))
		return fr(1, 0, p, 0xce)
	case 9: // a valid-looking method with its arguments cut at a random point
		full := []byte{0, 60, 0, 40, 0, 0, 3, 'a', 'm', 'q', 2, 'k', '1', 0}
		return fr(1, uint16(1+r.Intn(2)), full[:4+r.Intn(len(full)-4)], 0xce)
	case 10: // bit flips in a valid queue.bind with a headers table
		p := []byte{0, 50, 0, 20, 0, 0, 1, 'q', 10, 'a', 'm', 'q', '.', 'h', 'e', 'a', 'd', 'e', 'r', 0, 0}
		t := []byte{7, 'x', '-', 'm', 'a', 't', 'c', 'h', 'S', 0, 0, 0, 3, 'a', 'l', 'l', 1, 'a', 'x', 0, 0, 0, 2, 1, 2}
		p = binary.BigEndian.AppendUint32(p, uint32(len(t)))
		p = append(p, t...)
		b := fr(1, 1, p, 0xce)
		for i := 0; i < 1+r.Intn(4); i++ {
			j := r.Intn(len(b))
			b[j] ^= byte(1 << uint(r.Intn(8)))
		}
		return b
	case 12: // type confusion: a headers binding and a message header holding the same uncomparable value (array, table, bytes)
		val := [][]byte{
			{'x', 0, 0, 0, 2, 1, 2},
			{'A', 0, 0, 0, 5, 'I', 0, 0, 0, 7},
			{'F', 0, 0, 0, 7, 1, 'n', 'I', 0, 0, 0, 1},
			{'T', 0, 0, 0, 0, 0, 0, 0, 9},
			{'D', 2, 0, 0, 0, 5},
		}[r.Intn(5)]
		t := []byte{7, 'x', '-', 'm', 'a', 't', 'c', 'h', 'S', 0, 0, 0, 3, 'a', 'l', 'l', 1, 'k'}
		t = append(t, val...)
		bind := []byte{0, 50, 0, 20, 0, 0, 2, 'h', 'q', 2, 'h', 'x', 0, 0}
		bind = binary.BigEndian.AppendUint32(bind, uint32(len(t)))
		bind = append(bind, t...)
		pub := []byte{0, 60, 0, 40, 0, 0, 2, 'h', 'x', 0, 0}
		ht := append([]byte{1, 'k'}, val...)
		hdr := []byte{0, 60, 0, 0, 0, 0, 0, 0, 0, 0, 0, 1, 0x20, 0x00}
		hdr = binary.BigEndian.AppendUint32(hdr, uint32(len(ht)))
		hdr = append(hdr, ht...)
		b := fr(1, 1, bind, 0xce)
		b = append(b, fr(1, 1, pub, 0xce)...)
		b = append(b, fr(2, 1, hdr, 0xce)...)
		return append(b, fr(3, 1, []byte{'z'}, 0xce)...)
	default: // a protocol header in the middle of a session, or a wrong one
		return [][]byte{{'A', 'M', 'Q', 'P', 0, 0, 9, 1}, {'A', 'M', 'Q', 'P', 1, 1, 0, 9}, {'H', 'T', 'T', 'P', '/', '1', '.', '1'}}[r.Intn(3)]
	}
}
