package main

import (
	"encoding/json"
	"fmt"
	"os"
	"path/filepath"
	"strings"
	"time"

	"gmqverif/harness/hx"

	"github.com/valinurovam/garagemq/server"
)

// genSession generates one session ONLINE against the implementation: every
// choice comes from the seeded PRNG and from what the broker answered so far,
// so the recorded script replays exactly.
//
// kind "exact": the session stays inside the schedules whose quiescent outcome
// does not depend on goroutine timing (at most one started consumer per queue
// and per shared prefetch window; batch returns only to queues nobody can pop
// concurrently), so frames and snapshots are compared verbatim with the model.
// kind "racy": no such restriction (several consumers per queue, shared
// windows); judged by the property monitors only.
type gen struct {
	r      *hx.Rng
	s      *session
	kind   string
	uid    int
	ntag   int
	conns  []int
	nconn  int
	out    *json.Encoder
	nsteps int
	// what the client has seen
	outstanding map[[2]int][]int // (conn,ch) -> delivery tags seen and not yet settled by us
	chans       map[int][]int    // conn -> channels we opened
	pendClose   [][2]int         // channels the broker asked to close (awaiting close-ok)
	pendConn    []int            // connections the broker asked to close
	confirm     map[[2]int]bool
	wedged      bool
	dist        map[string]int
	canary      int
	raw         map[int]string // connections still in the handshake: id -> stage (s, t, k), "x" = the broker should have dropped it
	rawOrder    []int
}

// focus biases the op mix towards one mechanism (empty: the general mix)
var focus string

var qnames = []string{"q1", "q2", "q3", "qa.b", "q_x"}
var xnames = []string{"x1", "x2", "x3"}
var keys = []string{"k1", "k2", "a.b", "a.b.c", "a", "b"}
var patterns = []string{"k1", "a.*", "a.#", "#", "*.b", "#.c", "a.b", "*"}

// corners of topic routing, used now and then: the empty routing key (no words at all), the empty pattern, wildcards
// inside a word (refused by queue.bind / queue.unbind on a topic exchange, ordinary characters elsewhere)
var cornerKeys = []string{"-", "-", "a*", "a."}
var cornerPatterns = []string{"-", "a*", "a.b#", "#x.b", "*.", ".#"}

func (g *gen) pick(xs []string) string {
	if g.r.Chance(1, 14) {
		// same random stream whatever the list: the corner lists are picked by identity of the caller's list
		if len(xs) == len(keys) && xs[0] == keys[0] {
			return cornerKeys[g.r.Intn(len(cornerKeys))]
		}
		if len(xs) == len(patterns) && xs[0] == patterns[0] && xs[1] == patterns[1] {
			return cornerPatterns[g.r.Intn(len(cornerPatterns))]
		}
	}
	return xs[g.r.Intn(len(xs))]
}
func (g *gen) b(num, den int) string {
	if g.r.Chance(num, den) {
		return "1"
	}
	return "0"
}

func (g *gen) do(op string) stepResult {
	f := strings.Fields(op)
	g.dist[f[0]]++
	_ = g.out.Encode(map[string]interface{}{"about": op})
	r := g.s.step(op)
	_ = g.out.Encode(map[string]interface{}{"step": r})
	g.nsteps++
	g.observe(op, r)
	return r
}

// observe updates the client-side view from the frames of a step
func (g *gen) observe(op string, r stepResult) {
	if strings.Contains(r.Note, "WEDGED") || strings.Contains(r.Note, "TIMEOUT") {
		g.wedged = true
	}
	for _, fr := range r.Frames {
		// "c.h:name(args)"
		colon := strings.Index(fr, ":")
		if colon < 0 {
			continue
		}
		var c, h int
		fmt.Sscanf(fr[:colon], "%d.%d", &c, &h)
		body := fr[colon+1:]
		key := [2]int{c, h}
		switch {
		case strings.HasPrefix(body, "basic.deliver("):
			parts := strings.Split(body[len("basic.deliver("):], ",")
			if len(parts) > 1 {
				g.outstanding[key] = append(g.outstanding[key], atoi(parts[1]))
			}
		case strings.HasPrefix(body, "basic.get-ok("):
			parts := strings.Split(body[len("basic.get-ok("):], ",")
			g.outstanding[key] = append(g.outstanding[key], atoi(parts[0]))
		case strings.HasPrefix(body, "channel.close("):
			g.pendClose = append(g.pendClose, key)
		case strings.HasPrefix(body, "connection.close("):
			g.pendConn = append(g.pendConn, c)
		case body == "GONE":
			g.dropConn(c)
		}
	}
}

func (g *gen) dropConn(c int) {
	for i, x := range g.conns {
		if x == c {
			g.conns = append(g.conns[:i], g.conns[i+1:]...)
			break
		}
	}
	delete(g.chans, c)
	for k := range g.outstanding {
		if k[0] == c {
			delete(g.outstanding, k)
		}
	}
}

func (g *gen) removeTag(key [2]int, tag int, mult bool) {
	var keep []int
	for _, t := range g.outstanding[key] {
		if t == tag || (mult && (tag == 0 || t <= tag)) {
			continue
		}
		keep = append(keep, t)
	}
	g.outstanding[key] = keep
}

// beforeStop: the steps that follow are connection drops and then the graceful stop
func beforeStop(rest []string) bool {
	for _, o := range rest {
		if o == "RESTART" {
			return true
		}
		if !strings.HasPrefix(o, "DROP ") {
			return false
		}
	}
	return false
}

func (g *gen) snap() server.VerifSnapshot {
	sn, _ := g.s.snapshot(true)
	return sn
}

func (g *gen) anyChan() (int, int, bool) {
	if len(g.conns) == 0 {
		return 0, 0, false
	}
	c := g.conns[g.r.Intn(len(g.conns))]
	hs := g.chans[c]
	if len(hs) == 0 {
		return c, 0, false
	}
	return c, hs[g.r.Intn(len(hs))], true
}

type qinfo struct {
	name      string
	consumers int
	started   int
	excl      bool
	owner     uint64
	ready     int
}

func (g *gen) queues(sn server.VerifSnapshot) []qinfo {
	var out []qinfo
	started := map[string]int{}
	for _, cs := range sn.Connections {
		for _, ch := range cs.Channels {
			for _, cm := range ch.Consumers {
				if cm.Status == 0 {
					started[cm.Queue]++
				}
			}
		}
	}
	for _, q := range sn.Queues {
		if !q.Active {
			continue
		}
		out = append(out, qinfo{name: q.Name, consumers: len(q.Consumers), started: started[q.Name], excl: q.Exclusive, owner: q.ConnID, ready: len(q.Ready)})
	}
	return out
}

func (g *gen) existingQueue(sn server.VerifSnapshot) string {
	qs := g.queues(sn)
	if len(qs) == 0 || g.r.Chance(1, 30) {
		return g.pick(qnames)
	}
	return qs[g.r.Intn(len(qs))].name
}

func (g *gen) existingExchange(sn server.VerifSnapshot, allowDefault bool) string {
	var xs []string
	for _, e := range sn.Exchanges {
		if e.Name == "" && !allowDefault {
			continue
		}
		xs = append(xs, e.Name)
	}
	if len(xs) == 0 || g.r.Chance(1, 40) {
		return "nox"
	}
	x := xs[g.r.Intn(len(xs))]
	if x == "" {
		return "-"
	}
	return x
}

// channel snapshot lookup
func chanSnap(sn server.VerifSnapshot, c, h int) *server.VerifChannelSnap {
	for i := range sn.Connections {
		if int(sn.Connections[i].ID) == c {
			for j := range sn.Connections[i].Channels {
				if int(sn.Connections[i].Channels[j].ID) == h {
					return &sn.Connections[i].Channels[j]
				}
			}
		}
	}
	return nil
}

func connSnap(sn server.VerifSnapshot, c int) *server.VerifConnSnap {
	for i := range sn.Connections {
		if int(sn.Connections[i].ID) == c {
			return &sn.Connections[i]
		}
	}
	return nil
}

// exact-mode guards -------------------------------------------------------

// batchReturnSafe: returning all unacked deliveries of (c,h) [or of the tags <= upTo] is schedule-independent:
// every queue that gets two or more messages back has no started consumer outside the closing scope.
func (g *gen) batchReturnSafe(sn server.VerifSnapshot, c int, hs []int, upTo int, closing bool) bool {
	if g.kind != "exact" {
		return true
	}
	count := map[string]int{}
	inScope := map[[2]int]bool{}
	for _, h := range hs {
		inScope[[2]int{c, h}] = true
		if ch := chanSnap(sn, c, h); ch != nil {
			for _, u := range ch.Unacked {
				if upTo == 0 || int(u.Tag) <= upTo {
					count[u.Queue]++
				}
			}
		}
	}
	for _, cs := range sn.Connections {
		for _, ch := range cs.Channels {
			for _, cm := range ch.Consumers {
				if cm.Status != 0 || count[cm.Queue] == 0 {
					continue
				}
				if closing && inScope[[2]int{int(cs.ID), int(ch.ID)}] {
					continue
				}
				// any message returned to a queue that has a started consumer elsewhere can be popped while
				// the handler is still returning the next one
				if count[cm.Queue] >= 2 {
					return false
				}
				// one message back, but the same handler also releases windows/other queues: fine
			}
		}
	}
	return true
}

// sharedWindowSafe: adding a consumer on (c,h) keeps at most one started consumer per active shared window
func (g *gen) sharedWindowSafe(sn server.VerifSnapshot, c, h int) bool {
	if g.kind != "exact" {
		return true
	}
	ch := chanSnap(sn, c, h)
	cn := connSnap(sn, c)
	if ch == nil || cn == nil {
		return true
	}
	active := func(q [4]uint64) bool { return q[0] != 0 || q[1] != 0 }
	if active(ch.Qos) {
		for _, cm := range ch.Consumers {
			if cm.Status != 1 {
				return false
			}
		}
	}
	if !g.s.cfg.Rabbit && active(cn.Qos) {
		for _, x := range cn.Channels {
			for _, cm := range x.Consumers {
				if cm.Status != 1 {
					return false
				}
			}
		}
	}
	return true
}

func countConsumers(ch *server.VerifChannelSnap) int {
	n := 0
	for _, cm := range ch.Consumers {
		if cm.Status != 1 {
			n++
		}
	}
	return n
}

// ------------------------------------------------------------------------

// stepHandshake drives a connection through the handshake one frame at a time: mostly the right next step,
// otherwise one of the wrong ones the property lists (wrong credentials, order, limits, vhost, any other frame)
func (g *gen) stepHandshake() bool {
	if g.raw == nil {
		g.raw = map[int]string{}
	}
	live := []int{}
	for _, c := range g.rawOrder {
		if g.raw[c] != "" {
			live = append(live, c)
		}
	}
	if len(live) == 0 || (len(live) < 2 && g.r.Chance(1, 5)) {
		g.nconn++
		c := g.nconn
		g.do(fmt.Sprintf("ACCEPT %d", c))
		g.raw[c] = "s"
		g.rawOrder = append(g.rawOrder, c)
		return true
	}
	c := live[g.r.Intn(len(live))]
	st := g.raw[c]
	startok := func(mech, user, pass string, raw bool) string {
		good := mech == "PLAIN" && !raw
		if good {
			good = false
			for _, u := range sessionUsers {
				if u[0] == user && u[1] == pass {
					good = true
				}
			}
		}
		enc := func(x string) string {
			if x == "" {
				return "-"
			}
			return x
		}
		rs := "0"
		if raw {
			rs = "1"
		}
		return fmt.Sprintf("STARTOK %d %s %s %s %s %s", c, g.bs(good), enc(mech), enc(user), enc(pass), rs)
	}
	tuneok := func(cm, fm int) string {
		return fmt.Sprintf("TUNEOK %d %s %d %d", c, g.bs(cm <= 4096 && fm <= 65536), cm, fm)
	}
	copen := func(vh string) string {
		v := vh
		if v == "" {
			v = "-"
		}
		return fmt.Sprintf("COPEN %d %s %s", c, g.bs(vh == "/"), v)
	}
	if st == "x" {
		// the broker must have dropped this connection: whatever is sent now must stay without effect
		var op string
		switch g.r.Intn(5) {
		case 0:
			op = startok("PLAIN", "guest", "guest", false)
		case 1:
			op = tuneok(2047, 65536)
		case 2:
			op = copen("/")
		case 3:
			op = fmt.Sprintf("CH %d 1", c)
		default:
			op = fmt.Sprintf("QD %d 1 %s 0 0 0 0 0", c, g.pick(qnames))
		}
		g.do(op)
		g.raw[c] = ""
		return true
	}
	if g.r.Chance(3, 5) {
		// the right next step
		switch st {
		case "s":
			u := sessionUsers[g.r.Intn(len(sessionUsers))]
			g.do(startok("PLAIN", u[0], u[1], false))
			g.raw[c] = "t"
		case "t":
			g.do(tuneok([]int{0, 1, 2047, 4096}[g.r.Intn(4)], []int{0, 4096, 65536}[g.r.Intn(3)]))
			g.raw[c] = "k"
		case "k":
			r := g.do(copen("/"))
			g.raw[c] = ""
			if r.Note == "" {
				g.conns = append(g.conns, c)
				g.openChan(c)
			}
		}
		return true
	}
	// a wrong step: afterwards the connection must be gone
	var op string
	switch g.r.Intn(12) {
	case 0:
		op = startok("PLAIN", "guest", "wrong", false)
	case 1:
		op = startok("PLAIN", "nobody", "", false)
	case 2:
		op = startok("PLAIN", "nobody", "guest", false)
	case 3:
		op = startok("AMQPLAIN", "guest", "guest", false)
	case 4:
		op = startok("PLAIN", "guest", "guest", true)
	case 5:
		op = tuneok([]int{4097, 65535, 2047}[g.r.Intn(3)], []int{65537, 1 << 20, 65536}[g.r.Intn(3)])
	case 6:
		op = copen([]string{"", "nope", "/x", "//"}[g.r.Intn(4)])
	case 7:
		op = fmt.Sprintf("CH %d %d", c, g.r.Intn(2))
	case 8:
		op = fmt.Sprintf("QD %d %d %s 0 0 0 0 0", c, g.r.Intn(2), g.pick(qnames))
	case 9:
		g.uid++
		op = fmt.Sprintf("PUB %d %d - %s 0 0 0 %d 3", c, g.r.Intn(2), g.pick(qnames), g.uid)
	case 10:
		op = fmt.Sprintf("GET %d %d %s 1", c, g.r.Intn(2), g.pick(qnames))
	default:
		op = fmt.Sprintf("QP %d %d %s 0", c, g.r.Intn(2), g.pick(qnames))
	}
	// a handshake frame that happens to be the right one for this stage is not a wrong step
	f := strings.Fields(op)
	right := (st == "s" && f[0] == "STARTOK" && f[2] == "1") || (st == "t" && f[0] == "TUNEOK" && f[2] == "1") || (st == "k" && f[0] == "COPEN" && f[2] == "1")
	g.do(op)
	switch {
	case right && st == "s":
		g.raw[c] = "t"
	case right && st == "t":
		g.raw[c] = "k"
	case right && st == "k":
		g.raw[c] = ""
		g.conns = append(g.conns, c)
		g.openChan(c)
	case g.r.Chance(1, 2):
		g.raw[c] = "x"
	default:
		g.raw[c] = ""
	}
	return true
}

// stepHostile: one attack, then the canary. Attacks: a malformed-but-framed method or a heartbeat on a live connection
// (the model knows these), or hostile bytes (kinds of hostileBytes) on a connection in any stage.
func (g *gen) stepHostile() {
	if g.canary == 0 {
		g.nconn++
		g.canary = g.nconn
		g.do(fmt.Sprintf("OPEN %d", g.canary))
		g.do(fmt.Sprintf("CH %d 1", g.canary))
		g.do(fmt.Sprintf("QD %d 1 canary 0 0 0 0 0", g.canary))
		return
	}
	// a victim connection: fresh socket in some stage of the handshake, or fully opened with a channel
	g.nconn++
	c := g.nconn
	stage := g.r.Intn(5)
	first := g.r.Intn(13)
	if first == 8 {
		stage = 1 // a tune-ok is looked at after start-ok only
	}
	if first == 12 {
		stage = 4
	}
	if stage == 4 {
		g.do(fmt.Sprintf("OPEN %d", c))
		g.do(fmt.Sprintf("CH %d 1", c))
		if first == 12 || g.r.Chance(1, 2) {
			g.do(fmt.Sprintf("XD %d 1 hx headers 0 0 0 0 0", c))
			g.do(fmt.Sprintf("QD %d 1 hq 0 0 0 0 0", c))
		}
	} else {
		g.do(fmt.Sprintf("ACCEPT %d", c))
		if stage >= 1 {
			g.do(fmt.Sprintf("STARTOK %d 1 PLAIN guest guest 0", c))
		}
		if stage >= 2 {
			g.do(fmt.Sprintf("TUNEOK %d 1 2047 65536", c))
		}
		if stage >= 3 {
			g.do(fmt.Sprintf("COPEN %d 1 /", c))
		}
	}
	n := 1 + g.r.Intn(3)
	for i := 0; i < n; i++ {
		k := g.r.Intn(13)
		if i == 0 {
			k = first
		}
		g.do(fmt.Sprintf("RAW %d %d %d", c, k, g.r.Intn(1<<20)))
	}
	g.uid++
	g.do(fmt.Sprintf("PUB %d 1 - canary 0 0 0 %d 4", g.canary, g.uid))
	g.do(fmt.Sprintf("GET %d 1 canary 1", g.canary))
	if g.r.Chance(1, 2) {
		g.do(fmt.Sprintf("DROP %d", c))
	}
}

// bindArgs: mostly none; sometimes a headers-style table, rarely one with an invalid x-match
// Where the session restarts the broker the table is a function of the routing key: two bindings that differ only in
// their arguments share one key of the store (known finding F21, decided at the level of the store by C09's own check),
// and a session here would only meet that finding again.
func (g *gen) bindArgs(key string) string {
	n := g.r.Intn(12)
	if focus == "restart" || focus == "routing" {
		n = 0
		for _, b := range []byte(key) {
			n = (n*31 + int(b)) % 12
		}
	}
	switch n {
	case 0, 1:
		return "x-match=any,a=1"
	case 2:
		return "x-match=all,a=1,b=2"
	case 3:
		return "x-match=bogus,a=1"
	}
	return "-"
}

func (g *gen) bs(b bool) string {
	if b {
		return "1"
	}
	return "0"
}

// stepSplitPublish sends a publish frame by frame - method, header, body parts - with something else in between: the
// cut points "during content" of a channel or connection that ends (C14), a second publish, an unrelated request
func (g *gen) stepSplitPublish(sn server.VerifSnapshot) bool {
	c, h, ok := g.anyChan()
	if !ok {
		return false
	}
	g.uid++
	uid := g.uid
	size := 2 + g.r.Intn(12)
	first := 1 + g.r.Intn(size-1)
	pers := g.b(1, 3)
	g.do(fmt.Sprintf("PUBM %d %d - %s 0 0", c, h, g.existingQueue(sn)))
	between := func() bool { // true: the channel or connection is gone, the rest of the content goes to a dead channel
		switch g.r.Intn(8) {
		case 0:
			g.do(fmt.Sprintf("CHCLOSE %d %d", c, h))
			delete(g.outstanding, [2]int{c, h})
			return true
		case 1:
			g.do(fmt.Sprintf("QD %d %d %s 0 0 0 0 0", c, h, g.pick(qnames)))
		case 2:
			g.do(fmt.Sprintf("PUBM %d %d - %s 0 0", c, h, g.existingQueue(sn)))
		case 3:
			g.do(fmt.Sprintf("QP %d %d nosuchqueue 0", c, h)) // a channel error in the middle of the content
			return true
		}
		return false
	}
	dead := between()
	g.do(fmt.Sprintf("HDR %d %d %d %s %d", c, h, size, pers, uid))
	if len(g.pendConn) > 0 || g.s.gone[c] {
		return true
	}
	if !dead && g.r.Chance(1, 3) {
		dead = between()
	}
	g.do(fmt.Sprintf("BODY %d %d %d 0 %d", c, h, uid, first))
	if len(g.pendConn) > 0 || g.s.gone[c] {
		return true
	}
	if g.r.Chance(4, 5) {
		g.do(fmt.Sprintf("BODY %d %d %d %d %d", c, h, uid, first, size-first))
	}
	if dead && g.chans[c] != nil {
		g.forgetChan(c, h)
	}
	return true
}

func (g *gen) stepRandom() {
	sn := g.snap()
	// answer broker-initiated closes first (most of the time)
	if len(g.pendConn) > 0 {
		c := g.pendConn[0]
		g.pendConn = g.pendConn[1:]
		if g.s.clients[c] != nil && !g.s.gone[c] {
			g.do(fmt.Sprintf("CLOSEOK %d", c))
			g.dropConn(c)
			return
		}
	}
	if len(g.pendClose) > 0 && g.r.Chance(9, 10) {
		k := g.pendClose[0]
		g.pendClose = g.pendClose[1:]
		if g.s.clients[k[0]] != nil && !g.s.gone[k[0]] {
			if g.batchReturnSafe(sn, k[0], []int{k[1]}, 0, true) {
				if g.r.Chance(1, 7) {
					// the client's own close crosses the broker's: it must be answered with close-ok
					g.do(fmt.Sprintf("CHCLOSE %d %d", k[0], k[1]))
				} else {
					g.do(fmt.Sprintf("CHCLOSEOK %d %d", k[0], k[1]))
				}
				delete(g.outstanding, k)
				if g.r.Chance(2, 3) {
					g.do(fmt.Sprintf("CH %d %d", k[0], k[1]))
				} else {
					g.forgetChan(k[0], k[1])
				}
			}
			return
		}
	}
	if focus == "handshake" && g.r.Chance(3, 5) && g.stepHandshake() {
		return
	}
	if focus == "counts" && g.r.Chance(1, 8) {
		g.do("ADMIN")
		return
	}
	if focus == "split" && g.r.Chance(1, 4) && g.stepSplitPublish(sn) {
		return
	}
	if (focus == "restart" || focus == "routing") && g.nsteps > 8 && g.r.Chance(1, 14) {
		// graceful restart: drop every connection first, restart, connect again and look at what came back
		conns := append([]int{}, g.conns...)
		last, lastConn := "", -1
		if g.r.Chance(1, 2) {
			// the last request before the stop is handled but not yet flushed by the store: an acknowledgement, or a
			// publish on a channel that is not in confirm mode (the stop has to write out what is pending)
			sn := g.snap()
			for _, c := range conns {
				for _, h := range g.chans[c] {
					key := [2]int{c, h}
					if last == "" && len(g.outstanding[key]) > 0 && g.r.Chance(2, 3) {
						tag := g.outstanding[key][g.r.Intn(len(g.outstanding[key]))]
						last, lastConn = fmt.Sprintf("ACK %d %d %d 0", c, h, tag), c
					}
					if last == "" && !g.confirm[key] && g.r.Chance(1, 2) {
						g.uid++
						last, lastConn = fmt.Sprintf("PUB %d %d - %s 0 0 1 %d %d", c, h, g.existingQueue(sn), g.uid, 1+g.r.Intn(20)), c
					}
				}
			}
		}
		// the step before the stop does not wait for the store (the replay applies the same rule by looking ahead)
		var pre []string
		for _, c := range conns {
			if c != lastConn {
				pre = append(pre, fmt.Sprintf("DROP %d", c))
			}
		}
		if last != "" {
			pre = append(pre, last, fmt.Sprintf("DROP %d", lastConn))
		}
		for i, op := range pre {
			g.s.beforeStop = beforeStop(append(pre[i+1:], "RESTART"))
			g.do(op)
			g.s.beforeStop = false
		}
		for _, c := range conns {
			g.dropConn(c)
		}
		g.do("RESTART")
		g.outstanding = map[[2]int][]int{}
		g.pendClose, g.pendConn = nil, nil
		g.openConn()
		// probe: every queue name, passively, then drain two of them; publish through every exchange
		if len(g.conns) > 0 && len(g.chans[g.conns[0]]) > 0 {
			c0, h0 := g.conns[0], g.chans[g.conns[0]][0]
			for _, qn := range qnames {
				g.do(fmt.Sprintf("QD %d %d %s 0 0 0 1 0", c0, h0, qn))
				if len(g.pendClose) > 0 {
					g.pendClose = nil
					g.do(fmt.Sprintf("CHCLOSEOK %d %d", c0, h0))
					g.do(fmt.Sprintf("CH %d %d", c0, h0))
				}
			}
			// routing through what came back: publish through every exchange that exists now, then drain
			sn2 := g.snap()
			for _, e := range sn2.Exchanges {
				if e.Name == "" {
					continue
				}
				g.uid++
				g.do(fmt.Sprintf("PUB %d %d %s %s 0 0 1 %d 2", c0, h0, e.Name, g.pick(keys), g.uid))
			}
			for _, q := range sn2.Queues {
				g.do(fmt.Sprintf("GET %d %d %s 1", c0, h0, q.Name))
				g.do(fmt.Sprintf("GET %d %d %s 1", c0, h0, q.Name))
			}
		}
		return
	}
	if focus == "exclusive" && len(g.conns) < 2 && len(g.conns) > 0 && g.r.Chance(1, 2) {
		g.openConn()
		return
	}
	if len(g.conns) == 0 || (len(g.conns) < 3 && g.r.Chance(1, 25)) {
		g.openConn()
		return
	}
	c, h, ok := g.anyChan()
	if !ok {
		g.openChan(c)
		return
	}
	key := [2]int{c, h}
	k := g.r.Intn(1000)
	if focus == "flow" && g.r.Chance(3, 5) {
		// the delivery loop: publish, consume, settle, windows, flow, cancel
		k = []int{200, 200, 200, 480, 480, 700, 700, 700, 810, 845, 570, 600}[g.r.Intn(12)]
	}
	if focus == "hostile" && g.r.Chance(1, 6) {
		// frames the decoder or the dispatcher must refuse: undecodable method, heartbeat on a channel
		hh := h
		if g.r.Chance(1, 3) {
			hh = 0
		}
		if g.r.Chance(2, 3) {
			g.do(fmt.Sprintf("BADM %d %d %d", c, hh, g.r.Intn(5)))
		} else {
			g.do(fmt.Sprintf("HB %d %d", c, hh))
		}
		return
	}
	if focus == "restart" && g.r.Chance(3, 5) {
		// durable and transient queues and exchanges, bindings, persistent and transient publishes, deletes, purges
		k = []int{10, 10, 100, 100, 130, 130, 180, 200, 200, 200, 200, 600, 700, 890, 920}[g.r.Intn(15)]
	}
	if focus == "routing" && g.r.Chance(3, 4) {
		// the topology and its use: declare, bind, unbind, delete, publish through every kind of exchange, get
		k = []int{10, 100, 100, 130, 130, 130, 180, 180, 200, 200, 200, 200, 600, 600, 920}[g.r.Intn(15)]
	}
	if focus == "exclusive" && g.r.Chance(3, 5) {
		// everything that names a queue: declare (also passive), bind, unbind, purge, delete, consume, get, publish
		k = []int{10, 10, 10, 130, 180, 200, 200, 480, 480, 600, 600, 890, 920}[g.r.Intn(13)]
	}
	if focus == "confirm" && g.r.Chance(3, 5) {
		// publishes on confirm channels, durable queues, channel reuse
		k = []int{200, 200, 200, 200, 870, 870, 10, 130, 945, 945, 480, 700}[g.r.Intn(12)]
	}
	if len(g.queues(sn)) == 0 && g.r.Chance(4, 5) {
		k = 0 // nothing to work with yet: declare a queue
	}
	if len(g.queues(sn)) > 0 && g.r.Chance(1, 22) { // a pipelined burst on one channel
		var subs []string
		n := 2 + g.r.Intn(3)
		for j := 0; j < n; j++ {
			switch g.r.Intn(7) {
			case 6:
				subs = append(subs, fmt.Sprintf("QDEL %d %d %s 0 0 0", c, h, g.existingQueue(sn)))
			case 0:
				subs = append(subs, fmt.Sprintf("QD %d %d %s 0 0 0 %s 0", c, h, g.pick(qnames), g.b(1, 3)))
			case 1:
				subs = append(subs, fmt.Sprintf("QOS %d %d %d 0 0", c, h, g.r.Intn(4)))
			case 2:
				subs = append(subs, fmt.Sprintf("GET %d %d %s 1", c, h, g.existingQueue(sn)))
			case 3:
				q := g.existingQueue(sn)
				if g.kind == "exact" {
					// a delivery racing the replies of the burst would make the frame order timing dependent
					busy := false
					for _, qq := range sn.Queues {
						if qq.Name == q && len(qq.Consumers) > 0 {
							busy = true
						}
					}
					if busy {
						continue
					}
				}
				g.uid++
				subs = append(subs, fmt.Sprintf("PUB %d %d - %s 0 0 0 %d %d", c, h, q, g.uid, 1+g.r.Intn(9)))
			case 4:
				subs = append(subs, fmt.Sprintf("QP %d %d %s %s", c, h, g.existingQueue(sn), g.b(1, 4)))
			default:
				subs = append(subs, fmt.Sprintf("XD %d %d %s direct 0 0 0 %s 0", c, h, g.pick(xnames), g.b(1, 2)))
			}
		}
		if len(subs) == 0 {
			return
		}
		g.do("MULTI " + strings.Join(subs, " | "))
		return
	}
	switch {
	case k < 90: // queue.declare
		name := g.pick(qnames)
		pas := g.b(1, 12)
		excl := g.b(1, 8)
		if focus == "exclusive" {
			excl = g.b(1, 2)
			pas = g.b(1, 5)
		}
		dur := g.b(1, 3)
		if focus == "restart" || focus == "routing" {
			dur = g.b(1, 2)
		}
		g.do(fmt.Sprintf("QD %d %d %s %s %s %s %s %s", c, h, name, dur, excl, g.b(1, 7), pas, g.b(1, 12)))
	case k < 120: // exchange.declare
		ty := []string{"direct", "fanout", "topic", "headers", "direct", "fanout", "topic", "direct", "fanout", "topic", "bogus"}[g.r.Intn(11)]
		name := g.pick(xnames)
		if g.r.Chance(1, 25) {
			name = "amq.x"
		}
		xdur := g.b(1, 3)
		if focus == "restart" || focus == "routing" {
			xdur = g.b(1, 2)
		}
		g.do(fmt.Sprintf("XD %d %d %s %s %s %s %s %s %s", c, h, name, ty, xdur, g.b(1, 8), g.b(1, 8), g.b(1, 8), g.b(1, 10)))
	case k < 175: // bind
		q := g.existingQueue(sn)
		x := g.existingExchange(sn, g.r.Chance(1, 10))
		key := g.pick(patterns)
		if g.r.Chance(1, 2) {
			key = g.pick(keys)
		}
		g.do(fmt.Sprintf("QB %d %d %s %s %s %s %s", c, h, q, x, key, g.bindArgs(key), g.b(1, 10)))
	case k < 195: // unbind
		q := g.existingQueue(sn)
		x := g.existingExchange(sn, false)
		key := g.pick(patterns)
		if g.r.Chance(1, 2) {
			key = g.pick(keys)
		}
		g.do(fmt.Sprintf("QU %d %d %s %s %s %s", c, h, q, x, key, g.bindArgs(key)))
	case k < 470: // publish
		g.uid++
		var ex, key string
		if g.r.Chance(3, 5) {
			ex, key = "-", g.existingQueue(sn)
		} else {
			ex, key = g.existingExchange(sn, false), g.pick(keys)
		}
		lens := fmt.Sprint(1 + g.r.Intn(30))
		if g.r.Chance(1, 12) {
			lens = fmt.Sprintf("%d+%d", 1+g.r.Intn(5), 1+g.r.Intn(5))
		}
		pers := g.b(1, 3)
		if focus == "restart" || focus == "routing" {
			pers = g.b(1, 2)
		}
		g.do(fmt.Sprintf("PUB %d %d %s %s %s %s %s %d %s", c, h, ex, key, g.b(1, 3), g.b(1, 40), pers, g.uid, lens))
	case k < 560: // consume
		q := g.existingQueue(sn)
		if g.kind == "exact" {
			for _, qi := range g.queues(sn) {
				if qi.name == q && qi.started > 0 {
					return
				}
			}
			if !g.sharedWindowSafe(sn, c, h) {
				return
			}
			// a paused channel's consumer counts as a consumer too
			if ch := chanSnap(sn, c, h); ch != nil {
				for _, cm := range ch.Consumers {
					if cm.Queue == q {
						return
					}
				}
			}
			for _, qq := range sn.Queues {
				if qq.Name == q && len(qq.Consumers) > 0 {
					return
				}
			}
		}
		g.ntag++
		tag := fmt.Sprintf("t%d", g.ntag)
		if g.kind != "exact" && g.r.Chance(1, 2) {
			// consumer tags are unique per channel only: different channels may use the same tag on one queue.
			// Prefer a queue another channel already consumes from, with that consumer's tag.
			var cands [][2]string
			for _, cs := range sn.Connections {
				for _, ch := range cs.Channels {
					if int(cs.ID) == c && int(ch.ID) == h {
						continue
					}
					for _, cm := range ch.Consumers {
						if cm.Status != 1 {
							cands = append(cands, [2]string{cm.Queue, g.s.canon(cm.Tag)})
						}
					}
				}
			}
			if len(cands) > 0 {
				x := cands[g.r.Intn(len(cands))]
				q, tag = x[0], x[1]
			} else {
				tag = []string{"ta", "tb"}[g.r.Intn(2)]
			}
		}
		if g.r.Chance(1, 9) {
			tag = "-" // let the server name the consumer
		}
		g.do(fmt.Sprintf("CONS %d %d %s %s %s %s %s", c, h, q, tag, g.b(1, 4), g.b(1, 10), g.b(1, 10)))
	case k < 590: // cancel
		ch := chanSnap(sn, c, h)
		tag := "tx"
		if ch != nil && len(ch.Consumers) > 0 && g.r.Chance(14, 15) {
			tag = g.s.canon(ch.Consumers[g.r.Intn(len(ch.Consumers))].Tag)
		} else if g.r.Chance(4, 5) {
			return
		}
		g.do(fmt.Sprintf("CANCEL %d %d %s %s", c, h, tag, g.b(1, 10)))
	case k < 660: // get
		g.do(fmt.Sprintf("GET %d %d %s %s", c, h, g.existingQueue(sn), g.b(2, 5)))
	case k < 800: // ack / nack / reject
		tags := g.outstanding[key]
		tag := 0
		if len(tags) > 0 && g.r.Chance(14, 15) {
			tag = tags[g.r.Intn(len(tags))]
		} else if len(tags) == 0 && g.r.Chance(5, 6) {
			return
		} else if g.r.Chance(1, 2) {
			tag = 1 + g.r.Intn(6)
		} else {
			tag = 90
		}
		mult := g.r.Chance(1, 4)
		if tag == 0 {
			mult = true
		}
		which := g.r.Intn(10)
		switch {
		case which < 5:
			g.do(fmt.Sprintf("ACK %d %d %d %s", c, h, tag, b2s(mult)))
			g.removeTag(key, tag, mult)
		case which < 8:
			requeue := g.r.Chance(2, 3)
			if mult && requeue {
				up := tag
				if !g.batchReturnSafe(sn, c, []int{h}, up, false) {
					return
				}
			}
			g.do(fmt.Sprintf("NACK %d %d %d %s %s", c, h, tag, b2s(mult), b2s(requeue)))
			g.removeTag(key, tag, mult)
		default:
			g.do(fmt.Sprintf("REJ %d %d %d %s", c, h, tag, g.b(2, 3)))
			g.removeTag(key, tag, false)
		}
	case k < 840: // qos
		if g.kind == "exact" {
			// a shared window may only become active while at most one consumer is in its scope
			ch := chanSnap(sn, c, h)
			cn := connSnap(sn, c)
			if ch != nil && countConsumers(ch) > 1 {
				return
			}
			if !g.s.cfg.Rabbit && cn != nil {
				n := 0
				for i := range cn.Channels {
					n += countConsumers(&cn.Channels[i])
				}
				if n > 1 {
					return
				}
			}
		}
		size := 0
		if g.r.Chance(1, 4) {
			size = 20 + g.r.Intn(40)
		}
		g.do(fmt.Sprintf("QOS %d %d %d %d %s", c, h, g.r.Intn(4), size, g.b(1, 2)))
	case k < 865: // flow
		g.do(fmt.Sprintf("FLOW %d %d %s", c, h, g.b(1, 2)))
	case k < 885: // confirm.select
		g.do(fmt.Sprintf("CONFIRM %d %d %s", c, h, g.b(1, 8)))
	case k < 905: // purge
		g.do(fmt.Sprintf("QP %d %d %s %s", c, h, g.existingQueue(sn), g.b(1, 8)))
	case k < 935: // queue.delete
		g.do(fmt.Sprintf("QDEL %d %d %s %s %s %s", c, h, g.existingQueue(sn), g.b(1, 3), g.b(1, 3), g.b(1, 10)))
	case k < 955: // channel close (+ reopen)
		if !g.batchReturnSafe(sn, c, []int{h}, 0, true) {
			return
		}
		g.do(fmt.Sprintf("CHCLOSE %d %d", c, h))
		delete(g.outstanding, key)
		if g.r.Chance(1, 2) && !g.confirm[key] {
			g.do(fmt.Sprintf("CH %d %d", c, h))
		} else {
			g.forgetChan(c, h)
		}
	case k < 965: // new channel
		g.openChan(c)
	case k < 980: // connection drop / close
		if !g.batchReturnSafe(sn, c, g.chans[c], 0, true) {
			return
		}
		if g.r.Chance(1, 2) {
			g.do(fmt.Sprintf("DROP %d", c))
		} else {
			g.do(fmt.Sprintf("CLOSE %d", c))
		}
		g.dropConn(c)
	case k < 985: // unsupported methods
		switch g.r.Intn(3) {
		case 0:
			g.do(fmt.Sprintf("TXSELECT %d %d", c, h))
		case 1:
			g.do(fmt.Sprintf("XDEL %d %d %s 0 0", c, h, g.pick(xnames)))
		default:
			g.do(fmt.Sprintf("RECOVER %d %d 1", c, h))
		}
	default:
		g.openChan(c)
	}
}

func (g *gen) forgetChan(c, h int) {
	var keep []int
	for _, x := range g.chans[c] {
		if x != h {
			keep = append(keep, x)
		}
	}
	g.chans[c] = keep
}

func (g *gen) openConn() {
	g.nconn++
	c := g.nconn
	r := g.do(fmt.Sprintf("OPEN %d", c))
	if r.Note != "" {
		return
	}
	g.conns = append(g.conns, c)
	g.openChan(c)
}

func (g *gen) openChan(c int) {
	if len(g.chans[c]) >= 3 {
		return
	}
	h := 1
	used := map[int]bool{}
	for _, x := range g.chans[c] {
		used[x] = true
	}
	for used[h] {
		h++
	}
	g.do(fmt.Sprintf("CH %d %d", c, h))
	g.chans[c] = append(g.chans[c], h)
}

func genSession(seed uint64, idx int, steps int, kind string, work string, settle time.Duration, rabbit int, engine string) error {
	r := hx.NewRng(seed*1000003 + uint64(idx)*7919 + 17)
	cfg := sessionCfg{Rabbit: r.Chance(3, 4), Engine: "buntdb"}
	if rabbit == 0 {
		cfg.Rabbit = false
	} else if rabbit == 1 {
		cfg.Rabbit = true
	}
	if engine == "badger" || (engine == "" && r.Chance(1, 6)) {
		cfg.Engine = "badger"
		cfg.Dir = filepath.Join(work, fmt.Sprintf("badger-%d-%d-%d", os.Getpid(), seed, idx))
	}
	if focus == "handshake" {
		cfg.Auth = []string{"md5", "bcrypt", "plain"}[r.Intn(3)]
	}
	if focus == "exclusive" {
		qnames = []string{"a", "a.b", "a.b.c", "ab", "a_b"}
	}
	if focus == "restart" || focus == "routing" {
		// the buntdb wrapper cannot reload messages at all (finding F23): restart sessions run on badger
		cfg.Engine = "badger"
		cfg.Dir = filepath.Join(work, fmt.Sprintf("badger-%d-%d-%d", os.Getpid(), seed, idx))
	}
	enc := json.NewEncoder(os.Stdout)
	id := fmt.Sprintf("%s-%d-%d", kind, seed, idx)
	_ = enc.Encode(map[string]interface{}{"session": id, "cfg": cfg, "kind": kind})
	s, err := newSession(cfg, settle)
	if err != nil {
		return err
	}
	defer s.stop()
	g := &gen{r: r, s: s, kind: kind, out: enc, outstanding: map[[2]int][]int{}, chans: map[int][]int{}, confirm: map[[2]int]bool{}, dist: map[string]int{}}
	g.openConn()
	if r.Chance(2, 3) {
		g.openConn()
	}
	guard := 0
	if focus == "hostile" && kind == "racy" {
		stopPoll := make(chan struct{})
		defer close(stopPoll)
		s.startAdminPoller(stopPoll)
	}
	for g.nsteps < steps && !g.wedged && guard < steps*20 {
		guard++
		if focus == "hostile" && kind == "racy" {
			g.stepHostile()
		} else {
			g.stepRandom()
		}
	}
	_ = enc.Encode(map[string]interface{}{"end": id, "dist": g.dist})
	return nil
}
