package main

import "time"

func genSession(seed uint64, idx int, steps int, kind string, work string, settle time.Duration) (sessionOut, error) {
	return sessionOut{}, nil
}
