// queueswap harness: drives the REAL queue.Queue from one goroutine with two real
// msgstorage.MsgStorage over in-memory recording engines (ordered map, badger iteration
// semantics), with EXPLICIT loader turns and persist ticks instead of the background
// goroutines and tickers (hooks: queue.VerifActivate / VerifLoaderTurn / VerifSwapState,
// msgstorage.VerifNewMsgStorage / VerifPersist / VerifPending, safequeue.VerifItems).
//
// One canonical line per case:
//
//	<durable 0|1>|<shardSize>|<maxMessagesInRAM>|<labels>|<obs>|<final>
//
//	labels  P<n><p|t> push message n (ordinal in push order; p persistent, t transient)   O pop
//	        Q<n><p|t> requeue message n   A<n><p|t> ack message n   X purge   L loader turn
//	        Kp / Kt persist tick of the persistent / transient store
//	        Li loader turn under the schedule in which the data race on lastIteratedMsgID fires: the transient iteration runs
//	        after the persistent iteration's last callback and before the persistent goroutine compares the variable
//	        R<n><p|t> loader turn with the push of message n (flushed at once) landing inside it: after the loader's two
//	        iterations, before it pushes what it loaded and writes swappedToDisk (the loader holds no lock)
//	        Z restart: graceful stop at quiescence (both stores write out what is pending), the queue object is dropped,
//	        the transient store is wiped, a fresh queue runs LoadFromMsgStorage over the same persistent store
//	        script-only: o = "ready pop": while the ring is empty and the queue is swapped (at most 3 times)
//	        run Kp Kt L, then O (printed expanded);  q / a = requeue / ack the oldest outstanding delivery
//	obs     one per label: <out>:<swapped 0|1>,<lastStored>,<lastMem>,<queueLength>,<ringLength>
//	        out: _ none, - pop returned nil, <n> popped message n, x<count> purge result
//	        (message ids are printed as push ordinals; 0 = none; ?<id> = an id the harness never pushed)
//	final   m=<ring>;pa=<persistent pending adds>;pf=<persistent flushed keys>;ta=..;tf=..   (ordinals, ascending)
//
// Sub-commands: run -seed S -n N -groups G -len L   |   replay '<d>|<shard>|<max>|<labels or script>'
//
//	| replay-bunt '<case>' (same, both stores on the real buntdb wrapper: finding F23)
//
// In "friendly" mode one client script is run under several (shardSize, maxMessagesInRAM) pairs with
// ready pops, so the lines of one group must show the same delivery sequence (group id is appended as
// a 7th field "g<k>").
package main

import (
	"bufio"
	"bytes"
	"flag"
	"fmt"
	"os"
	"sort"
	"strconv"
	"strings"
	"sync"
	"time"

	"github.com/sasha-s/go-deadlock"

	"gmqverif/harness/hx"

	"github.com/valinurovam/garagemq/amqp"
	"github.com/valinurovam/garagemq/config"
	"github.com/valinurovam/garagemq/interfaces"
	"github.com/valinurovam/garagemq/msgstorage"
	"github.com/valinurovam/garagemq/queue"
	"github.com/valinurovam/garagemq/storage"
)

// engine: "mem" (the recording in-memory engine, default) or "bunt" (the real buntdb wrapper, in-memory path)
var engine = "mem"

// ---- in-memory engine with badger's iteration semantics ------------------------------------

type loaderSync struct {
	mu     sync.Mutex
	active bool
	pDone  chan struct{}
	inject func() // run once, on the loader's transient-iteration goroutine, right after that iteration returned
	// iterRace: the schedule in which the data race on lastIteratedMsgID fires: the transient iteration runs after the
	// persistent iteration's last callback and before the persistent goroutine's test (label Li)
	iterRace  bool
	pIterated chan struct{}
	tDone     chan struct{}
}

type memDB struct {
	mu sync.Mutex
	m  map[string][]byte
}

func newMemDB() *memDB { return &memDB{m: map[string][]byte{}} }

func (d *memDB) keys() []string {
	ks := make([]string, 0, len(d.m))
	for k := range d.m {
		ks = append(ks, k)
	}
	sort.Strings(ks) // byte order, as badger
	return ks
}

func (d *memDB) Set(key string, value []byte) error {
	d.mu.Lock()
	defer d.mu.Unlock()
	d.m[key] = append([]byte{}, value...)
	return nil
}
func (d *memDB) Del(key string) error {
	d.mu.Lock()
	defer d.mu.Unlock()
	delete(d.m, key)
	return nil
}
func (d *memDB) Get(key string) ([]byte, error) {
	d.mu.Lock()
	defer d.mu.Unlock()
	v, ok := d.m[key]
	if !ok {
		return nil, fmt.Errorf("key not found")
	}
	return v, nil
}
func (d *memDB) Iterate(fn func(key []byte, value []byte)) {
	d.mu.Lock()
	ks := d.keys()
	vals := make([][]byte, len(ks))
	for i, k := range ks {
		vals[i] = d.m[k]
	}
	d.mu.Unlock()
	for i, k := range ks {
		fn([]byte(k), vals[i])
	}
}

// Seek(from) then Next while ValidForPrefix(prefix) and the limit allows (limit 0 = none)
func (d *memDB) iterFrom(prefix, from []byte, limit uint64, fn func(key []byte, value []byte)) uint64 {
	d.mu.Lock()
	ks := d.keys()
	type kv struct {
		k string
		v []byte
	}
	var sel []kv
	for _, k := range ks {
		if bytes.Compare([]byte(k), from) < 0 {
			continue
		}
		if !bytes.HasPrefix([]byte(k), prefix) {
			break
		}
		if limit > 0 && uint64(len(sel)) >= limit {
			break
		}
		sel = append(sel, kv{k, d.m[k]})
	}
	d.mu.Unlock()
	for _, e := range sel {
		fn([]byte(e.k), e.v)
	}
	return uint64(len(sel))
}

func (d *memDB) IterateByPrefix(prefix []byte, limit uint64, fn func(key []byte, value []byte)) uint64 {
	return d.iterFrom(prefix, prefix, limit, fn)
}

func (d *memDB) IterateByPrefixFrom(prefix []byte, from []byte, limit uint64, fn func(key []byte, value []byte)) uint64 {
	return d.iterFrom(prefix, from, limit, fn)
}

// orderedDB wraps an engine (the in-memory one or the real storage.Badger): every call is delegated; inside a
// loader turn the two IterateByPrefixFrom calls (two goroutines that share a variable in the code) are ordered
// persistent-then-transient, which is the order the model assumes, and an injected push (label R) runs right
// after the transient iteration returned.
type orderedDB struct {
	interfaces.DbStorage
	sync *loaderSync
	isP  bool
}

func (d *orderedDB) IterateByPrefixFrom(prefix []byte, from []byte, limit uint64, fn func(key []byte, value []byte)) uint64 {
	s := d.sync
	s.mu.Lock()
	race, pIt, tDone := s.active && s.iterRace, s.pIterated, s.tDone
	s.mu.Unlock()
	if race {
		if d.isP {
			n := d.DbStorage.IterateByPrefixFrom(prefix, from, limit, fn) // all callbacks of the persistent iteration
			close(pIt)
			select { // ... then the whole transient iteration, then the persistent goroutine goes on to its test
			case <-tDone:
			case <-time.After(500 * time.Millisecond):
			}
			return n
		}
		select {
		case <-pIt:
		case <-time.After(500 * time.Millisecond):
		}
		n := d.DbStorage.IterateByPrefixFrom(prefix, from, limit, fn)
		close(tDone)
		return n
	}
	return d.iterOrdered(prefix, from, limit, fn)
}

func (d *orderedDB) iterOrdered(prefix []byte, from []byte, limit uint64, fn func(key []byte, value []byte)) uint64 {
	s := d.sync
	s.mu.Lock()
	active, ch := s.active, s.pDone
	s.mu.Unlock()
	if active && d.isP {
		defer func() {
			s.mu.Lock()
			if s.pDone == ch && ch != nil {
				select {
				case <-ch:
				default:
					close(ch)
				}
			}
			s.mu.Unlock()
		}()
	}
	if active && !d.isP && ch != nil {
		select {
		case <-ch:
		case <-time.After(300 * time.Millisecond):
		}
		time.Sleep(300 * time.Microsecond)
	}
	n := d.DbStorage.IterateByPrefixFrom(prefix, from, limit, fn)
	if active && !d.isP {
		s.mu.Lock()
		inj := s.inject
		s.inject = nil
		s.mu.Unlock()
		if inj != nil {
			inj()
		}
	}
	return n
}

func (d *memDB) DeleteByPrefix(prefix []byte) {
	d.mu.Lock()
	defer d.mu.Unlock()
	for k := range d.m {
		if strings.HasPrefix(k, string(prefix)) {
			delete(d.m, k)
		}
	}
}
func (d *memDB) KeysByPrefixCount(prefix []byte) uint64 {
	d.mu.Lock()
	defer d.mu.Unlock()
	var n uint64
	for k := range d.m {
		if strings.HasPrefix(k, string(prefix)) {
			n++
		}
	}
	return n
}
func (d *memDB) ProcessBatch(batch []*interfaces.Operation) error {
	d.mu.Lock()
	defer d.mu.Unlock()
	for _, op := range batch {
		if op.Op == interfaces.OpSet {
			d.m[op.Key] = append([]byte{}, op.Value...)
		}
		if op.Op == interfaces.OpDel {
			delete(d.m, op.Key)
		}
	}
	return nil
}
func (d *memDB) Close() error { return nil }

// ---- the driver ---------------------------------------------------------------------------------

const qname = "q"

type rig struct {
	q        *queue.Queue
	pe, te   interfaces.DbStorage
	durable  bool
	shard    int
	maxram   uint64
	dir      string
	pst, tst *msgstorage.MsgStorage
	sync     *loaderSync
	ord      map[uint64]int // real id -> push ordinal
	msgs     map[int]*amqp.Message
	pers     map[int]bool
	next     int
	outst    []int // delivered, unsettled (ordinals, oldest first)
	pkeys    func() []string
	tkeys    func() []string
}

func engineKeys(e interfaces.DbStorage) []string {
	var ks []string
	e.Iterate(func(key []byte, value []byte) { ks = append(ks, string(key)) })
	sort.Strings(ks)
	return ks
}

var badgerDir = ""     // -dir: where the real badger engines of a case live (removed after the case)
var neighbours = false // -neighbours: queues "p" and "q2" (names sorting just before / after "q") hold messages in the same stores
var caseSeq = 0

func (r *rig) openEngine(persistent bool) interfaces.DbStorage {
	switch engine {
	case "bunt":
		return storage.NewBuntDB(config.DbPathMemory)
	case "badger":
		sub := "t"
		if persistent {
			sub = "p"
		}
		path := fmt.Sprintf("%s/%s", r.dir, sub)
		if !persistent {
			os.RemoveAll(path) // server.go getStorageInstance: the transient store is wiped at boot
		}
		if err := os.MkdirAll(path, 0o777); err != nil {
			panic(err)
		}
		return storage.NewBadger(path)
	}
	return newMemDB()
}

func queueKeys(e interfaces.DbStorage) []string {
	var ks []string
	for _, k := range engineKeys(e) {
		if strings.HasPrefix(k, "msg."+qname+".") { // the neighbours' keys are not this queue's
			ks = append(ks, k)
		}
	}
	return ks
}

// (re)build the queue object and the two message stores over the engines; boot = a restart: LoadFromMsgStorage
func (r *rig) build(boot bool) {
	r.pst = msgstorage.VerifNewMsgStorage(&orderedDB{r.pe, r.sync, true}, amqp.ProtoRabbit)
	r.tst = msgstorage.VerifNewMsgStorage(&orderedDB{r.te, r.sync, false}, amqp.ProtoRabbit)
	r.q = queue.NewQueue(qname, 0, false, false, r.durable, config.Queue{ShardSize: r.shard, MaxMessagesInRAM: r.maxram}, r.pst, r.tst, make(chan string, 16))
	if boot && r.durable {
		r.q.LoadFromMsgStorage()
	}
	r.q.VerifActivate()
}

func newRig(durable bool, shard int, maxram uint64) *rig {
	r := &rig{sync: &loaderSync{}, ord: map[uint64]int{}, msgs: map[int]*amqp.Message{}, pers: map[int]bool{}, next: 1,
		durable: durable, shard: shard, maxram: maxram}
	if engine == "badger" {
		caseSeq++
		r.dir = fmt.Sprintf("%s/case-%d-%d", badgerDir, os.Getpid(), caseSeq)
	}
	r.pe, r.te = r.openEngine(true), r.openEngine(false)
	r.pkeys = func() []string { return queueKeys(r.pe) }
	r.tkeys = func() []string { return queueKeys(r.te) }
	r.build(false)
	if neighbours {
		// two durable queues whose names sort just before and just after ours share the stores and keep two
		// persistent messages each for the whole case
		for _, name := range []string{"p", qname + "2"} {
			nq := queue.NewQueue(name, 0, false, false, true, config.Queue{ShardSize: shard, MaxMessagesInRAM: 1000}, r.pst, r.tst, make(chan string, 16))
			nq.VerifActivate()
			nq.Push(newMessage(true, 0))
			nq.Push(newMessage(true, 0))
		}
		r.pst.VerifPersist()
	}
	return r
}

func (r *rig) close() {
	if engine == "badger" {
		r.pe.Close()
		r.te.Close()
		os.RemoveAll(r.dir)
	}
}

// graceful stop at quiescence, then boot
func (r *rig) restart() {
	r.pst.VerifPersist()
	r.tst.VerifPersist()
	if engine == "badger" {
		r.pe.Close()
		r.te.Close()
		r.pe = r.openEngine(true)
	}
	r.te = r.openEngine(false)
	r.outst = nil
	r.build(true)
}

func (r *rig) ordOf(id uint64) string {
	if id == 0 {
		return "0"
	}
	if o, ok := r.ord[id]; ok {
		return strconv.Itoa(o)
	}
	return "?" + strconv.FormatUint(id, 10)
}

func (r *rig) snap() string {
	sw, ls, lm, ql := r.q.VerifSwapState()
	b := "0"
	if sw {
		b = "1"
	}
	return fmt.Sprintf("%s,%s,%s,%d,%d", b, r.ordOf(ls), r.ordOf(lm), ql, r.q.SafeQueue.Length())
}

func newMessage(persistent bool, n int) *amqp.Message {
	mode := byte(1)
	if persistent {
		mode = 2
	}
	body := []byte(fmt.Sprintf("m%d", n))
	return &amqp.Message{
		Exchange: "", RoutingKey: qname, BodySize: uint64(len(body)),
		Header: &amqp.ContentHeader{ClassID: amqp.ClassBasic, BodySize: uint64(len(body)), PropertyList: &amqp.BasicPropertyList{DeliveryMode: &mode}},
		Body:   []*amqp.Frame{{Type: byte(amqp.FrameBody), ChannelID: 1, Payload: body}},
	}
}

func flag2(p bool) string {
	if p {
		return "p"
	}
	return "t"
}

// exec runs one primitive label and returns its printed form and output
func (r *rig) exec(tok string) (label string, out string, err error) {
	switch tok[0] {
	case 'P':
		p := strings.HasSuffix(tok, "p")
		n := r.next
		r.next++
		m := newMessage(p, n)
		r.q.Push(m)
		if m.ID == 0 {
			return "", "", fmt.Errorf("push did not assign an id")
		}
		r.ord[m.ID] = n
		r.msgs[n] = m
		r.pers[n] = p
		return fmt.Sprintf("P%d%s", n, flag2(p)), "_", nil
	case 'O':
		m := r.q.Pop()
		if m == nil {
			return "O", "-", nil
		}
		o, ok := r.ord[m.ID]
		if !ok {
			return "O", "?" + strconv.FormatUint(m.ID, 10), nil
		}
		r.msgs[o] = m // a message loaded from a store is a fresh object
		r.outst = append(r.outst, o)
		return "O", strconv.Itoa(o), nil
	case 'Q', 'A':
		n, e := strconv.Atoi(strings.TrimRight(tok[1:], "pt"))
		if e != nil {
			return "", "", fmt.Errorf("bad label %q", tok)
		}
		m, ok := r.msgs[n]
		if !ok {
			return "", "", fmt.Errorf("label %q names a message that was never pushed", tok)
		}
		for i, o := range r.outst {
			if o == n {
				r.outst = append(r.outst[:i:i], r.outst[i+1:]...)
				break
			}
		}
		if tok[0] == 'Q' {
			r.q.Requeue(m)
		} else {
			r.q.AckMsg(m)
		}
		return fmt.Sprintf("%c%d%s", tok[0], n, flag2(r.pers[n])), "_", nil
	case 'X':
		n := r.q.Purge()
		return "X", "x" + strconv.FormatUint(n, 10), nil
	case 'L':
		race := tok == "Li"
		r.sync.mu.Lock()
		r.sync.active, r.sync.pDone = true, make(chan struct{})
		r.sync.iterRace, r.sync.pIterated, r.sync.tDone = race, make(chan struct{}), make(chan struct{})
		r.sync.mu.Unlock()
		r.q.VerifLoaderTurn()
		r.sync.mu.Lock()
		r.sync.active, r.sync.pDone, r.sync.iterRace = false, nil, false
		r.sync.mu.Unlock()
		if race {
			return "Li", "_", nil
		}
		return "L", "_", nil
	case 'R':
		// loader turn with a push (flushed at once) landing after its iterations, before it writes its results
		p := strings.HasSuffix(tok, "p")
		n := r.next
		r.next++
		m := newMessage(p, n)
		pushAndFlush := func() {
			r.q.Push(m)
			r.pst.VerifPersist()
			r.tst.VerifPersist()
		}
		r.sync.mu.Lock()
		r.sync.active, r.sync.pDone, r.sync.inject = true, make(chan struct{}), pushAndFlush
		r.sync.mu.Unlock()
		r.q.VerifLoaderTurn()
		r.sync.mu.Lock()
		pending := r.sync.inject
		r.sync.active, r.sync.pDone, r.sync.inject = false, nil, nil
		r.sync.mu.Unlock()
		if pending != nil { // the loader did not proceed: nothing was iterated
			pushAndFlush()
		}
		if m.ID == 0 {
			return "", "", fmt.Errorf("push did not assign an id")
		}
		r.ord[m.ID] = n
		r.msgs[n] = m
		r.pers[n] = p
		return fmt.Sprintf("R%d%s", n, flag2(p)), "_", nil
	case 'Z':
		r.restart()
		return "Z", "_", nil
	case 'K':
		if tok == "Kp" {
			r.pst.VerifPersist()
		} else if tok == "Kt" {
			r.tst.VerifPersist()
		} else {
			return "", "", fmt.Errorf("bad label %q", tok)
		}
		return tok, "_", nil
	}
	return "", "", fmt.Errorf("bad label %q", tok)
}

func (r *rig) keyOrds(keys []string) string {
	var os []int
	var unknown []string
	for _, k := range keys {
		i := strings.LastIndex(k, ".")
		id, e := strconv.ParseUint(k[i+1:], 10, 64)
		if o, ok := r.ord[id]; e == nil && ok && k[:i+1] == "msg."+qname+"." {
			os = append(os, o)
		} else {
			unknown = append(unknown, "?"+k)
		}
	}
	sort.Ints(os)
	parts := make([]string, 0, len(os)+len(unknown))
	for _, o := range os {
		parts = append(parts, strconv.Itoa(o))
	}
	return strings.Join(append(parts, unknown...), ",")
}

func (r *rig) final() string {
	var ring []string
	for _, m := range r.q.SafeQueue.VerifItems() {
		ring = append(ring, r.ordOf(m.ID))
	}
	pa, _, _ := r.pst.VerifPending()
	ta, _, _ := r.tst.VerifPending()
	pf, tf := r.pkeys(), r.tkeys()
	return fmt.Sprintf("m=%s;pa=%s;pf=%s;ta=%s;tf=%s", strings.Join(ring, ","), r.keyOrds(pa), r.keyOrds(pf), r.keyOrds(ta), r.keyOrds(tf))
}

func runScript(durable bool, shard int, maxram uint64, script []string) (line string) {
	d := "0"
	if durable {
		d = "1"
	}
	head := fmt.Sprintf("%s|%d|%d", d, shard, maxram)
	var labels, obs []string
	defer func() {
		if rec := recover(); rec != nil {
			line = fmt.Sprintf("%s|%s|PANIC %s|", head, strings.Join(labels, " "), strings.ReplaceAll(fmt.Sprint(rec), "\n", " "))
		}
	}()
	r := newRig(durable, shard, maxram)
	defer r.close()
	do := func(tok string) error {
		l, o, err := r.exec(tok)
		if err != nil {
			return err
		}
		labels = append(labels, l)
		obs = append(obs, o+":"+r.snap())
		return nil
	}
	for _, tok := range script {
		var err error
		switch tok {
		case "o": // ready pop
			for i := 0; i < 3; i++ {
				sw, _, _, _ := r.q.VerifSwapState()
				if r.q.SafeQueue.Length() != 0 || !sw {
					break
				}
				for _, t := range []string{"Kp", "Kt", "L"} {
					if err = do(t); err != nil {
						break
					}
				}
			}
			if err == nil {
				err = do("O")
			}
		case "q", "a":
			if len(r.outst) == 0 {
				continue
			}
			err = do(fmt.Sprintf("%c%d", tok[0]-32, r.outst[0]))
		default:
			err = do(tok)
		}
		if err != nil {
			return fmt.Sprintf("%s|%s|ERROR %s|", head, strings.Join(labels, " "), err)
		}
	}
	return fmt.Sprintf("%s|%s|%s|%s", head, strings.Join(labels, " "), strings.Join(obs, " "), r.final())
}

// tags of a case line: the engine and whether neighbour queues share the stores (needed to replay it)
func tags() string {
	n := 0
	if neighbours {
		n = 1
	}
	return fmt.Sprintf("e=%s,n=%d", engine, n)
}

// ---- generators ------------------------------------------------------------------------------------

// a client script in a random schedule: ticks and loader turns at random positions
var genRestarts = false

func genRandom(r *hx.Rng, n int, durable bool) []string {
	var s []string
	bias := r.Intn(3)
	pushed, popped := 0, 0
	for i := 0; i < n; i++ {
		if r.Chance(1, 10) {
			bias = r.Intn(3)
		}
		pPush, pPop := 40, 25
		switch bias {
		case 1:
			pPush, pPop = 20, 40
		case 2:
			pPush, pPop = 55, 12
		}
		k := r.Intn(100)
		if genRestarts && durable && r.Chance(1, 25) {
			s = append(s, "Z")
			continue
		}
		switch {
		case k < pPush:
			if r.Chance(1, 2) {
				s = append(s, "Pp")
			} else {
				s = append(s, "Pt")
			}
			pushed++
		case k < pPush+pPop:
			s = append(s, "O")
			popped++
		case k < pPush+pPop+5:
			s = append(s, "q")
		case k < pPush+pPop+10:
			s = append(s, "a")
		case k < pPush+pPop+12:
			s = append(s, "X")
		case k < pPush+pPop+13:
			s = append(s, []string{"Rt", "Rp"}[r.Intn(2)])
			pushed++
		case k < pPush+pPop+22:
			if r.Chance(1, 12) {
				s = append(s, "Li")
			} else {
				s = append(s, "L")
			}
		case k < pPush+pPop+28:
			s = append(s, "Kp")
		default:
			s = append(s, "Kt")
		}
	}
	// drain: flush, load and pop what is left
	for i := 0; i < pushed+2; i++ {
		s = append(s, "o")
	}
	return s
}

// a client script only (no internal labels): pops are ready pops
func genClient(r *hx.Rng, n int) []string {
	var s []string
	bias := r.Intn(3)
	pushed := 0
	for i := 0; i < n; i++ {
		if r.Chance(1, 10) {
			bias = r.Intn(3)
		}
		pPush, pPop := 45, 30
		switch bias {
		case 1:
			pPush, pPop = 25, 50
		case 2:
			pPush, pPop = 65, 15
		}
		k := r.Intn(100)
		switch {
		case k < pPush:
			if r.Chance(1, 2) {
				s = append(s, "Pp")
			} else {
				s = append(s, "Pt")
			}
			pushed++
		case k < pPush+pPop:
			s = append(s, "o")
		case k < pPush+pPop+8:
			s = append(s, "q")
		case k < pPush+pPop+16:
			s = append(s, "a")
		default:
			// harmless extra internal turns, or a restart
			if genRestarts && r.Chance(1, 3) {
				s = append(s, "Z")
			} else {
				s = append(s, []string{"Kp", "Kt", "Kp", "Kt"}[r.Intn(4)])
			}
		}
	}
	for i := 0; i < pushed+2; i++ {
		s = append(s, "o")
	}
	return s
}

var friendlyConfigs = [][2]int{{1, 2}, {2, 2}, {2, 3}, {3, 4}, {1, 5}, {4, 7}, {8, 16}, {64, 100000}}

func cmdRun(args []string) error {
	fs := flag.NewFlagSet("run", flag.ExitOnError)
	seed := fs.Uint64("seed", 1, "seed")
	n := fs.Int("n", 300, "random-schedule cases")
	g := fs.Int("groups", 40, "friendly groups (one client script under every configuration pair)")
	maxLen := fs.Int("len", 40, "max client ops per case")
	fs.StringVar(&engine, "engine", "mem", "mem (in-memory engine) | badger (the real storage.Badger wrapper, needs -dir)")
	fs.StringVar(&badgerDir, "dir", "", "directory for the badger engines")
	fs.BoolVar(&neighbours, "neighbours", false, "queues p and q2 keep messages in the same stores")
	restarts := fs.Bool("restarts", false, "durable random cases contain restarts (label Z)")
	exh := fs.Int("exhaustive", 0, "after 'Pt Pt Pt' under limit 2 (the next push overflows): every label sequence up to this length over {Pt,Pp,O,L,Kp,Kt,q,X}, then a drain; durable and not")
	fs.Parse(args)
	genRestarts = *restarts
	w := bufio.NewWriter(os.Stdout)
	defer w.Flush()
	if *exh > 0 {
		alpha := []string{"Pt", "Pp", "O", "L", "Kp", "Kt", "q", "X"}
		var rec func(prefix []string)
		rec = func(prefix []string) {
			if len(prefix) > 0 {
				script := append([]string{"Pt", "Pt", "Pt"}, prefix...)
				script = append(script, "o", "o", "o", "o", "o", "o", "o", "o", "o")
				for _, d := range []bool{false, true} {
					fmt.Fprintln(w, runScript(d, 2, 2, script))
				}
			}
			if len(prefix) == *exh {
				return
			}
			for _, a := range alpha {
				rec(append(append([]string{}, prefix...), a))
			}
		}
		rec(nil)
	}
	r := hx.NewRng(*seed)
	limits := []uint64{1, 2, 3, 4, 5, 8, 1000}
	for i := 0; i < *n; i++ {
		durable := r.Chance(1, 2)
		shard := 1 + r.Intn(4)
		maxram := limits[r.Intn(len(limits))]
		if r.Chance(3, 5) {
			maxram = uint64(2 + r.Intn(3))
		}
		fmt.Fprintf(w, "%s|-|%s\n", runScript(durable, shard, maxram, genRandom(r, 5+r.Intn(*maxLen), durable)), tags())
	}
	for k := 0; k < *g; k++ {
		durable := r.Chance(1, 2)
		script := genClient(r, 8+r.Intn(*maxLen))
		for _, c := range friendlyConfigs {
			fmt.Fprintf(w, "%s|g%d|%s\n", runScript(durable, c[0], uint64(c[1]), script), k, tags())
		}
		// the limit 1 as well (open finding F40: judged separately)
		fmt.Fprintf(w, "%s|g%d|%s\n", runScript(durable, 1, 1, script), k, tags())
	}
	return nil
}

// realtime: NO hooks in the schedule - the real Queue.Start() goroutines (queue loop, loader) and the real
// msgstorage.NewMsgStorage 20 ms tickers.  One scenario, two timings: limit 2, push 1-4 (4 overflows), pop 3
// times, [pause], push 5, drain with pauses.  With a pause shorter than the store tick between the overflow and
// the pops the loader runs inside the flush window (finding F24); with a longer pause it does not.
func realtimeOnce(step time.Duration) (string, error) {
	s := &loaderSync{}
	pdb, tdb := &orderedDB{newMemDB(), s, true}, &orderedDB{newMemDB(), s, false}
	pst := msgstorage.NewMsgStorage(pdb, amqp.ProtoRabbit)
	tst := msgstorage.NewMsgStorage(tdb, amqp.ProtoRabbit)
	q := queue.NewQueue(qname, 0, false, false, false, config.Queue{ShardSize: 2, MaxMessagesInRAM: 2}, pst, tst, make(chan string, 16))
	if err := q.Start(); err != nil {
		return "", err
	}
	ord := map[uint64]int{}
	push := func(n int) {
		m := newMessage(false, n)
		q.Push(m)
		ord[m.ID] = n
		time.Sleep(step)
	}
	var got []string
	pop := func() bool {
		m := q.Pop()
		time.Sleep(step)
		if m == nil {
			return false
		}
		got = append(got, strconv.Itoa(ord[m.ID]))
		return true
	}
	for n := 1; n <= 4; n++ {
		push(n)
	}
	for i := 0; i < 3; i++ {
		pop()
	}
	time.Sleep(60 * time.Millisecond) // loader goroutine and store ticker have had their turns
	push(5)
	for i := 0; i < 8; i++ {
		if !pop() {
			time.Sleep(60 * time.Millisecond)
		}
	}
	sw, _, _, ql := q.VerifSwapState()
	q.Stop()
	return fmt.Sprintf("step=%s deliveries=%s queueLength=%d swapped=%v", step, strings.Join(got, ","), ql, sw), nil
}

// every operation followed by a pause of 0 (publisher and consumer faster than the 20 ms store tick) or 45 ms (slower)
func cmdRealtime(args []string) error {
	for _, p := range []time.Duration{0, 45 * time.Millisecond} {
		for i := 0; i < 3; i++ {
			l, err := realtimeOnce(p)
			if err != nil {
				return err
			}
			fmt.Println(l)
		}
	}
	return nil
}

func cmdReplay(args []string) error {
	fs := flag.NewFlagSet("replay", flag.ExitOnError)
	if engine != "bunt" {
		fs.StringVar(&engine, "engine", "mem", "mem | badger")
	}
	fs.StringVar(&badgerDir, "dir", "", "directory for the badger engines")
	fs.BoolVar(&neighbours, "neighbours", false, "queues p and q2 keep messages in the same stores")
	fs.Parse(args)
	args = fs.Args()
	if len(args) != 1 {
		return fmt.Errorf("usage: replay [-engine badger -dir D] [-neighbours] '<durable>|<shard>|<maxram>|<labels or script>'")
	}
	p := strings.Split(args[0], "|")
	if len(p) < 4 {
		return fmt.Errorf("bad case %q", args[0])
	}
	shard, e1 := strconv.Atoi(p[1])
	maxram, e2 := strconv.ParseUint(p[2], 10, 64)
	if e1 != nil || e2 != nil {
		return fmt.Errorf("bad case %q", args[0])
	}
	// labels of a printed case carry ordinals (P3p); the driver numbers pushes itself
	var script []string
	for _, t := range strings.Fields(p[3]) {
		if t[0] == 'P' || t[0] == 'R' {
			t = t[:1] + t[len(t)-1:]
		}
		script = append(script, t)
	}
	fmt.Println(runScript(p[0] == "1", shard, maxram, script))
	return nil
}

func main() {
	deadlock.Opts.Disable = true
	if len(os.Args) < 2 {
		fmt.Fprintln(os.Stderr, "usage: queueswap run|replay ...")
		os.Exit(2)
	}
	var err error
	switch os.Args[1] {
	case "run":
		err = cmdRun(os.Args[2:])
	case "replay":
		err = cmdReplay(os.Args[2:])
	case "realtime":
		err = cmdRealtime(os.Args[2:])
	case "replay-bunt":
		engine = "bunt"
		err = cmdReplay(os.Args[2:])
	default:
		err = fmt.Errorf("unknown sub-command %s", os.Args[1])
	}
	if err != nil {
		fmt.Fprintln(os.Stderr, "error:", err)
		os.Exit(2)
	}
}
