package main

// Independent peer: the RabbitMQ Go client (github.com/rabbitmq/amqp091-go, a dependency of /repo's
// own tests) talks over an in-memory pipe to a minimal broker loop that uses ONLY /repo's amqp package
// to read and write frames, methods and content headers.  Every method and content header that crosses
// the pipe is printed with the value the sender was given and the value the receiver decoded:
//
//	P <idx> <c2s|s2c> <method|header> <payload hex> <sender's value> <receiver's value>
//
// c2s: amqp091-go encodes, /repo decodes.   s2c: /repo encodes, amqp091-go decodes.
// The check compares the two values and has the Coq model decode the same bytes (three-way).

import (
	"bytes"
	"context"
	"encoding/hex"
	"fmt"
	"io"
	"math"
	"net"
	"sort"
	"strings"
	"sync"
	"time"

	amqp091 "github.com/rabbitmq/amqp091-go"

	"gmqverif/harness/hx"

	"github.com/valinurovam/garagemq/amqp"
)

// canonical text of a value as the RabbitMQ client represents it
func peerVal(v interface{}) string {
	switch x := v.(type) {
	case nil:
		return "VNil"
	case bool:
		if x {
			return "VNum TBool 1"
		}
		return "VNum TBool 0"
	case byte:
		return fmt.Sprintf("VNum TUint8 %d", x)
	case int8:
		return fmt.Sprintf("VNum TInt8 %d", uint8(x))
	case int16:
		return fmt.Sprintf("VNum TInt16 %d", uint16(x))
	case int:
		return fmt.Sprintf("VNum TInt32 %d", uint32(x)) // the client writes int as a 32-bit 'I'
	case int32:
		return fmt.Sprintf("VNum TInt32 %d", uint32(x))
	case int64:
		return fmt.Sprintf("VNum TInt64 %d", uint64(x))
	case float32:
		return fmt.Sprintf("VNum TFloat32 %d", math.Float32bits(x))
	case float64:
		return fmt.Sprintf("VNum TFloat64 %d", math.Float64bits(x))
	case amqp091.Decimal:
		return fmt.Sprintf("VDec %d %d", x.Scale, uint32(x.Value))
	case string:
		return "VStr TString " + coqH([]byte(x))
	case []byte:
		return "VStr TBytes " + coqH(x)
	case time.Time:
		return fmt.Sprintf("VNum TTime %d", uint64(x.Unix()))
	case []interface{}:
		parts := make([]string, len(x))
		for i, e := range x {
			parts[i] = peerVal(e)
		}
		return "VArr [" + strings.Join(parts, "; ") + "]"
	case amqp091.Table:
		return "VTab TTablePtr " + peerTable(x)
	}
	return fmt.Sprintf("VUnknown_%T", v)
}

func peerTable(t amqp091.Table) string {
	keys := make([]string, 0, len(t))
	for k := range t {
		keys = append(keys, k)
	}
	sort.Strings(keys)
	parts := make([]string, len(keys))
	for i, k := range keys {
		parts[i] = "(" + coqH([]byte(k)) + ", " + peerVal(t[k]) + ")"
	}
	return "[" + strings.Join(parts, "; ") + "]"
}

type peerGen struct{ r *hx.Rng }

func (g *peerGen) str(max int) string {
	n := 1 + g.r.Intn(max)
	b := make([]byte, n)
	for i := range b {
		b[i] = byte('a' + g.r.Intn(26))
	}
	return string(b)
}

func (g *peerGen) value(depth int) interface{} {
	k := g.r.Intn(16)
	if depth >= 3 && k >= 14 {
		k = g.r.Intn(14)
	}
	switch k {
	case 0:
		return g.r.Chance(1, 2)
	case 1:
		return byte(g.r.Next())
	case 2:
		return int8(g.r.Next())
	case 3:
		return int16(g.r.Next())
	case 4:
		return int32(g.r.Next())
	case 5:
		return int64(g.r.Next())
	case 6:
		return int(int32(g.r.Next()))
	case 7:
		return math.Float32frombits(uint32(g.r.Next()))
	case 8:
		return math.Float64frombits(g.r.Next())
	case 9:
		return amqp091.Decimal{Scale: uint8(g.r.Next()), Value: int32(g.r.Next())}
	case 10:
		return g.str(300)
	case 11:
		b := make([]byte, g.r.Intn(40))
		for i := range b {
			b[i] = byte(g.r.Next())
		}
		return b
	case 12:
		return time.Unix(int64(g.r.Next()>>20), 0)
	case 13:
		return nil
	case 14:
		return g.table(depth + 1)
	default:
		n := g.r.Intn(4)
		a := make([]interface{}, n)
		for i := range a {
			a[i] = g.value(depth + 1)
		}
		return a
	}
}

func (g *peerGen) table(depth int) amqp091.Table {
	t := amqp091.Table{}
	n := g.r.Intn(5)
	for i := 0; i < n; i++ {
		t[g.str(20)] = g.value(depth)
	}
	return t
}

// the same kind of values as /repo's types, for the broker -> client direction
func (g *peerGen) repoValue(depth int) interface{} {
	k := g.r.Intn(15)
	if depth >= 3 && k >= 13 {
		k = g.r.Intn(13)
	}
	switch k {
	case 0:
		return g.r.Chance(1, 2)
	case 1:
		return uint8(g.r.Next())
	case 2:
		return int8(g.r.Next())
	case 3:
		return int16(g.r.Next())
	case 4:
		return int32(g.r.Next())
	case 5:
		return int64(g.r.Next())
	case 6:
		return math.Float32frombits(uint32(g.r.Next()))
	case 7:
		return math.Float64frombits(g.r.Next())
	case 8:
		return amqp.Decimal{Scale: uint8(g.r.Next()), Value: int32(g.r.Next())}
	case 9:
		return g.str(300)
	case 10:
		b := make([]byte, g.r.Intn(40))
		for i := range b {
			b[i] = byte(g.r.Next())
		}
		return b
	case 11:
		return time.Unix(int64(g.r.Next()>>20), 0)
	case 12:
		return nil
	case 13:
		t := g.repoTable(depth + 1)
		return &t
	default:
		n := g.r.Intn(4)
		a := make([]interface{}, n)
		for i := range a {
			a[i] = g.repoValue(depth + 1)
		}
		return a
	}
}

func (g *peerGen) repoTable(depth int) amqp.Table {
	t := amqp.Table{}
	n := g.r.Intn(5)
	for i := 0; i < n; i++ {
		t[g.str(20)] = g.repoValue(depth)
	}
	return t
}

type peerLog struct {
	mu    sync.Mutex
	lines []string
	c2s   []string // sender-side values, in the order the client issued them
}

// ---- the broker side: /repo's amqp package only ----
type fakeBroker struct {
	conn   net.Conn
	log    *peerLog
	got    []string // "<kind>\t<hex>\t<decoded>" for every method/header received, in order
	send   []string // "<kind>\t<hex>\t<value>" for everything sent that the client hands to the application
	g      *peerGen
	nDeliv int
	errs   []string
}

func (b *fakeBroker) sendMethod(ch uint16, m amqp.Method) []byte {
	buf := &bytes.Buffer{}
	if err := amqp.WriteMethod(buf, m, amqp.ProtoRabbit); err != nil {
		b.errs = append(b.errs, "WriteMethod "+m.Name()+": "+err.Error())
	}
	payload := append([]byte{}, buf.Bytes()...)
	out := &bytes.Buffer{}
	amqp.WriteFrame(out, &amqp.Frame{Type: amqp.FrameMethod, ChannelID: ch, Payload: payload})
	b.conn.Write(out.Bytes())
	return payload
}

func (b *fakeBroker) deliver(ch uint16, tag string, n uint64) {
	s := func() *string { v := b.g.str(40); return &v }
	hdrs := b.g.repoTable(1)
	mode, prio := byte(1+b.g.r.Intn(2)), byte(b.g.r.Intn(10))
	ts := time.Unix(int64(b.g.r.Next()>>24), 0)
	pl := &amqp.BasicPropertyList{ContentType: s(), ContentEncoding: s(), Headers: &hdrs, DeliveryMode: &mode, Priority: &prio,
		CorrelationID: s(), ReplyTo: s(), Expiration: s(), MessageID: s(), Timestamp: &ts, Type: s(), UserID: s(), AppID: s()}
	if b.g.r.Chance(1, 3) {
		pl.ContentEncoding, pl.ReplyTo, pl.Type = nil, nil, nil
	}
	body := []byte(b.g.str(50))
	h := &amqp.ContentHeader{ClassID: amqp.ClassBasic, Weight: 0, BodySize: uint64(len(body)), PropertyList: pl}
	m := &amqp.BasicDeliver{ConsumerTag: tag, DeliveryTag: n, Redelivered: b.g.r.Chance(1, 2), Exchange: b.g.str(20), RoutingKey: b.g.str(20)}
	mp := b.sendMethod(ch, m)
	b.send = append(b.send, "method\t"+hex.EncodeToString(mp)+"\t"+coqMethod(m))
	hb := &bytes.Buffer{}
	if err := amqp.WriteContentHeader(hb, h, amqp.ProtoRabbit); err != nil {
		b.errs = append(b.errs, "WriteContentHeader: "+err.Error())
	}
	hp := append([]byte{}, hb.Bytes()...)
	out := &bytes.Buffer{}
	amqp.WriteFrame(out, &amqp.Frame{Type: amqp.FrameHeader, ChannelID: ch, Payload: hp})
	amqp.WriteFrame(out, &amqp.Frame{Type: amqp.FrameBody, ChannelID: ch, Payload: body})
	b.conn.Write(out.Bytes())
	b.send = append(b.send, "header\t"+hex.EncodeToString(hp)+"\tCH "+coqHeaderInner(h))
}

func (b *fakeBroker) run(deliveries int) {
	defer b.conn.Close()
	hdr := make([]byte, 8)
	if _, err := io.ReadFull(b.conn, hdr); err != nil {
		return
	}
	caps := amqp.Table{"publisher_confirms": true, "basic.nack": true, "consumer_cancel_notify": true}
	props := amqp.Table{"product": "garagemq", "version": "0.1", "capabilities": caps}
	b.sendMethod(0, &amqp.ConnectionStart{VersionMajor: 0, VersionMinor: 9, ServerProperties: &props, Mechanisms: []byte("PLAIN"), Locales: []byte("en_US")})
	for {
		f, err := amqp.ReadFrame(b.conn)
		if err != nil {
			return
		}
		switch f.Type {
		case amqp.FrameMethod:
			m, err := amqp.ReadMethod(bytes.NewReader(f.Payload), amqp.ProtoRabbit)
			if err != nil {
				b.got = append(b.got, "method\t"+hex.EncodeToString(f.Payload)+"\tERR "+err.Error())
				return
			}
			b.got = append(b.got, "method\t"+hex.EncodeToString(f.Payload)+"\t"+coqMethod(m))
			switch x := m.(type) {
			case *amqp.ConnectionStartOk:
				b.sendMethod(0, &amqp.ConnectionTune{ChannelMax: 0, FrameMax: 131072, Heartbeat: 0})
			case *amqp.ConnectionOpen:
				b.sendMethod(0, &amqp.ConnectionOpenOk{})
			case *amqp.ChannelOpen:
				b.sendMethod(f.ChannelID, &amqp.ChannelOpenOk{})
			case *amqp.QueueDeclare:
				b.sendMethod(f.ChannelID, &amqp.QueueDeclareOk{Queue: x.Queue, MessageCount: 0, ConsumerCount: 0})
			case *amqp.ExchangeDeclare:
				b.sendMethod(f.ChannelID, &amqp.ExchangeDeclareOk{})
			case *amqp.QueueBind:
				b.sendMethod(f.ChannelID, &amqp.QueueBindOk{})
			case *amqp.BasicConsume:
				b.sendMethod(f.ChannelID, &amqp.BasicConsumeOk{ConsumerTag: x.ConsumerTag})
				for i := 0; i < deliveries; i++ {
					b.deliver(f.ChannelID, x.ConsumerTag, uint64(i+1))
				}
			case *amqp.ChannelClose:
				b.sendMethod(f.ChannelID, &amqp.ChannelCloseOk{})
			case *amqp.ConnectionClose:
				b.sendMethod(0, &amqp.ConnectionCloseOk{})
				return
			}
		case amqp.FrameHeader:
			h, err := amqp.ReadContentHeader(bytes.NewReader(f.Payload), amqp.ProtoRabbit)
			if err != nil {
				b.got = append(b.got, "header\t"+hex.EncodeToString(f.Payload)+"\tERR "+err.Error())
				return
			}
			b.got = append(b.got, "header\t"+hex.EncodeToString(f.Payload)+"\tCH "+coqHeaderInner(h))
		}
	}
}

func optS(s string) string {
	if s == "" {
		return "None"
	}
	return "Some (MStr " + coqH([]byte(s)) + ")"
}

func boolS(b bool) string { return "MBool " + coqBool(b) }

func cmdPeer(seed uint64, rounds int) {
	r := hx.NewRng(seed*7919 + 13)
	g := &peerGen{r: r}
	cs, ss := net.Pipe()
	br := &fakeBroker{conn: ss, g: &peerGen{r: hx.NewRng(seed*104729 + 7)}}
	done := make(chan struct{})
	go func() { br.run(rounds); close(done) }()
	var want []string // what the client was asked to send, canonical, in order (methods the client library adds itself: "*")
	fail := func(what string, err error) {
		fmt.Printf("P\t0\tc2s\tsetup\t-\t%s\tERR %v\n", what, err)
	}
	conn, err := amqp091.Open(cs, amqp091.Config{SASL: []amqp091.Authentication{&amqp091.PlainAuth{Username: "guest", Password: "guest"}}, Vhost: "/", Locale: "en_US"})
	if err != nil {
		fail("open", err)
		return
	}
	want = append(want, "*", "*", "*") // start-ok, tune-ok, open: built by the client library
	ch, err := conn.Channel()
	if err != nil {
		fail("channel", err)
		return
	}
	want = append(want, "*")
	for i := 0; i < rounds; i++ {
		qn, args := g.str(30), g.table(1)
		dur, ad, ex := r.Chance(1, 2), r.Chance(1, 2), r.Chance(1, 2)
		if _, err := ch.QueueDeclare(qn, dur, ad, ex, false, args); err != nil {
			fail("queue.declare", err)
			return
		}
		want = append(want, fmt.Sprintf(`CM "QueueDeclare" [MNum 0; MStr %s; %s; %s; %s; %s; %s; MTab %s]`, coqH([]byte(qn)), boolS(false), boolS(dur), boolS(ex), boolS(ad), boolS(false), peerTable(args)))
		en, eargs := g.str(30), g.table(1)
		if err := ch.ExchangeDeclare(en, "topic", dur, ad, ex, false, eargs); err != nil {
			fail("exchange.declare", err)
			return
		}
		want = append(want, fmt.Sprintf(`CM "ExchangeDeclare" [MNum 0; MStr %s; MStr %s; %s; %s; %s; %s; %s; MTab %s]`, coqH([]byte(en)), coqH([]byte("topic")), boolS(false), boolS(dur), boolS(ad), boolS(ex), boolS(false), peerTable(eargs)))
		key, bargs := g.str(30), g.table(1)
		if err := ch.QueueBind(qn, key, en, false, bargs); err != nil {
			fail("queue.bind", err)
			return
		}
		want = append(want, fmt.Sprintf(`CM "QueueBind" [MNum 0; MStr %s; MStr %s; MStr %s; %s; MTab %s]`, coqH([]byte(qn)), coqH([]byte(en)), coqH([]byte(key)), boolS(false), peerTable(bargs)))
		// publish
		p := amqp091.Publishing{Headers: g.table(1), Body: []byte(g.str(60))}
		if r.Chance(2, 3) {
			p.ContentType, p.CorrelationId, p.MessageId, p.AppId = g.str(20), g.str(20), g.str(20), g.str(20)
		}
		if r.Chance(1, 2) {
			p.ContentEncoding, p.ReplyTo, p.Expiration, p.Type, p.UserId = g.str(20), g.str(20), g.str(20), g.str(20), g.str(20)
			p.DeliveryMode, p.Priority = uint8(1+r.Intn(2)), uint8(1+r.Intn(9))
			p.Timestamp = time.Unix(int64(r.Next()>>24)+1, 0)
		}
		if r.Chance(1, 5) {
			p.Headers = nil
		}
		mand, imm := r.Chance(1, 2), false
		if err := ch.PublishWithContext(context.Background(), en, key, mand, imm, p); err != nil {
			fail("publish", err)
			return
		}
		want = append(want, fmt.Sprintf(`CM "BasicPublish" [MNum 0; MStr %s; MStr %s; %s; %s]`, coqH([]byte(en)), coqH([]byte(key)), boolS(mand), boolS(imm)))
		hdrs := "None"
		if len(p.Headers) > 0 {
			hdrs = "Some (MTab " + peerTable(p.Headers) + ")"
		}
		num := func(v uint8) string {
			if v == 0 {
				return "None"
			}
			return fmt.Sprintf("Some (MNum %d)", v)
		}
		ts := "None"
		if !p.Timestamp.IsZero() {
			ts = fmt.Sprintf("Some (MNum %d)", uint64(p.Timestamp.Unix()))
		}
		want = append(want, fmt.Sprintf("CH (mkH 60 0 %d [%s; %s; %s; %s; %s; %s; %s; %s; %s; %s; %s; %s; %s; None])", len(p.Body),
			optS(p.ContentType), optS(p.ContentEncoding), hdrs, num(p.DeliveryMode), num(p.Priority), optS(p.CorrelationId), optS(p.ReplyTo),
			optS(p.Expiration), optS(p.MessageId), ts, optS(p.Type), optS(p.UserId), optS(p.AppId)))
	}
	// consume: the broker side sends `rounds` deliveries
	dch, err := ch.Consume("q", "ctag-1", true, false, false, false, g.table(1))
	if err != nil {
		fail("consume", err)
		return
	}
	want = append(want, "*")
	var recv []string
	for i := 0; i < rounds; i++ {
		select {
		case d, ok := <-dch:
			if !ok {
				i = rounds
				break
			}
			recv = append(recv, fmt.Sprintf(`CM "BasicDeliver" [MStr %s; MNum %d; %s; MStr %s; MStr %s]`, coqH([]byte(d.ConsumerTag)), d.DeliveryTag, boolS(d.Redelivered), coqH([]byte(d.Exchange)), coqH([]byte(d.RoutingKey))))
			hdrs := "None"
			if d.Headers != nil {
				hdrs = "Some (MTab " + peerTable(d.Headers) + ")"
			}
			num := func(v uint8) string { return fmt.Sprintf("Some (MNum %d)", v) }
			recv = append(recv, fmt.Sprintf("CH (mkH 60 0 %d [%s; %s; %s; %s; %s; %s; %s; %s; %s; %s; %s; %s; %s; None])", len(d.Body),
				optS(d.ContentType), optS(d.ContentEncoding), hdrs, num(d.DeliveryMode), num(d.Priority), optS(d.CorrelationId), optS(d.ReplyTo),
				optS(d.Expiration), optS(d.MessageId), fmt.Sprintf("Some (MNum %d)", uint64(d.Timestamp.Unix())), optS(d.Type), optS(d.UserId), optS(d.AppId)))
		case <-time.After(5 * time.Second):
			fail("delivery", fmt.Errorf("timeout after %d deliveries", i))
			i = rounds
		}
	}
	conn.Close()
	select {
	case <-done:
	case <-time.After(3 * time.Second):
	}
	idx := 0
	for i, gline := range br.got {
		f := strings.SplitN(gline, "\t", 3)
		w := "?"
		if i < len(want) {
			w = want[i]
		}
		if w == "*" || strings.HasPrefix(f[2], `CM "ChannelClose"`) || strings.HasPrefix(f[2], `CM "ConnectionClose"`) {
			w = f[2] // built by the client library itself: only the model is compared
		}
		fmt.Printf("P\t%d\tc2s\t%s\t%s\t%s\t%s\n", idx, f[0], f[1], w, f[2])
		idx++
	}
	for i, sline := range br.send {
		f := strings.SplitN(sline, "\t", 3)
		got := "MISSING"
		if i < len(recv) {
			got = recv[i]
		}
		fmt.Printf("P\t%d\ts2c\t%s\t%s\t%s\t%s\n", idx, f[0], f[1], f[2], got)
		idx++
	}
	for _, e := range br.errs {
		fmt.Printf("P\t%d\ts2c\tsetup\t-\tbroker side\tERR %s\n", idx, e)
		idx++
	}
}
