package main

import (
	"encoding/hex"
	"fmt"
	"math"
	"reflect"
	"sort"
	"strings"
	"time"

	"github.com/valinurovam/garagemq/amqp"
)

// Canonical text = Coq term syntax of the model's value types (Codec/Value.v,
// MethodCodec.v, Header.v, Frame.v, Records.v; constructors of Run/CodecRun.v).
// Tables are printed sorted by key (a Go map has no order).

func coqH(b []byte) string { return `(H "` + hex.EncodeToString(b) + `")` }

func coqTable(t amqp.Table) string {
	keys := make([]string, 0, len(t))
	for k := range t {
		keys = append(keys, k)
	}
	sort.Strings(keys)
	parts := make([]string, len(keys))
	for i, k := range keys {
		parts[i] = "(" + coqH([]byte(k)) + ", " + coqVal(t[k]) + ")"
	}
	return "[" + strings.Join(parts, "; ") + "]"
}

func coqVal(v interface{}) string {
	switch x := v.(type) {
	case nil:
		return "VNil"
	case bool:
		if x {
			return "VNum TBool 1"
		}
		return "VNum TBool 0"
	case int8:
		return fmt.Sprintf("VNum TInt8 %d", uint8(x))
	case uint8:
		return fmt.Sprintf("VNum TUint8 %d", x)
	case int16:
		return fmt.Sprintf("VNum TInt16 %d", uint16(x))
	case uint16:
		return fmt.Sprintf("VNum TUint16 %d", x)
	case int32:
		return fmt.Sprintf("VNum TInt32 %d", uint32(x))
	case uint32:
		return fmt.Sprintf("VNum TUint32 %d", x)
	case int64:
		return fmt.Sprintf("VNum TInt64 %d", uint64(x))
	case uint64:
		return fmt.Sprintf("VNum TUint64 %d", x)
	case float32:
		return fmt.Sprintf("VNum TFloat32 %d", math.Float32bits(x))
	case float64:
		return fmt.Sprintf("VNum TFloat64 %d", math.Float64bits(x))
	case amqp.Decimal:
		return fmt.Sprintf("VDec %d %d", x.Scale, uint32(x.Value))
	case string:
		return "VStr TString " + coqH([]byte(x))
	case []byte:
		return "VStr TBytes " + coqH(x)
	case time.Time:
		return fmt.Sprintf("VNum TTime %d", uint64(x.Unix()))
	case []interface{}:
		parts := make([]string, len(x))
		for i, e := range x {
			parts[i] = coqVal(e)
		}
		return "VArr [" + strings.Join(parts, "; ") + "]"
	case *amqp.Table:
		if x == nil {
			return "VNilTablePtr"
		}
		return "VTab TTablePtr " + coqTable(*x)
	case amqp.Table:
		return "VTab TTableVal " + coqTable(x)
	}
	return fmt.Sprintf("VUnknown_%T", v)
}

func coqTablePtr(t *amqp.Table) string {
	if t == nil {
		return "NILTABLE"
	}
	return coqTable(*t)
}

// mval of one struct field
func coqField(f reflect.Value) string {
	switch x := f.Interface().(type) {
	case byte:
		return fmt.Sprintf("MNum %d", x)
	case uint16:
		return fmt.Sprintf("MNum %d", x)
	case uint32:
		return fmt.Sprintf("MNum %d", x)
	case uint64:
		return fmt.Sprintf("MNum %d", x)
	case bool:
		if x {
			return "MBool true"
		}
		return "MBool false"
	case string:
		return "MStr " + coqH([]byte(x))
	case []byte:
		return "MStr " + coqH(x)
	case *amqp.Table:
		return "MTab " + coqTablePtr(x)
	case time.Time:
		return fmt.Sprintf("MNum %d", uint64(x.Unix()))
	}
	return "MUnknown"
}

func coqMethod(m amqp.Method) string {
	v := reflect.ValueOf(m).Elem()
	parts := make([]string, v.NumField())
	for i := 0; i < v.NumField(); i++ {
		parts[i] = coqField(v.Field(i))
	}
	return fmt.Sprintf(`CM "%s" [%s]`, v.Type().Name(), strings.Join(parts, "; "))
}

func coqHeaderInner(h *amqp.ContentHeader) string {
	props := "[]"
	if h.PropertyList != nil {
		v := reflect.ValueOf(h.PropertyList).Elem()
		parts := make([]string, v.NumField())
		for i := 0; i < v.NumField(); i++ {
			f := v.Field(i)
			if f.IsNil() {
				parts[i] = "None"
			} else if t, ok := f.Interface().(*amqp.Table); ok {
				parts[i] = "Some (MTab " + coqTablePtr(t) + ")"
			} else {
				parts[i] = "Some (" + coqField(f.Elem()) + ")"
			}
		}
		props = "[" + strings.Join(parts, "; ") + "]"
	}
	return fmt.Sprintf("(mkH %d %d %d %s)", h.ClassID, h.Weight, h.BodySize, props)
}

func coqFrameInner(f *amqp.Frame) string {
	return fmt.Sprintf("(mkF %d %d %s)", f.Type, f.ChannelID, coqH(f.Payload))
}

func coqMessage(m *amqp.Message) string {
	fs := make([]string, len(m.Body))
	for i, f := range m.Body {
		fs[i] = coqFrameInner(f)
	}
	hdr := "(mkH 0 0 0 [])"
	if m.Header != nil {
		hdr = coqHeaderInner(m.Header)
	}
	return fmt.Sprintf("CMsg (mkMsg %d %s %s %s [%s] %d)", m.ID, hdr, coqH([]byte(m.Exchange)), coqH([]byte(m.RoutingKey)), strings.Join(fs, "; "), m.DeliveryCount)
}

func coqBool(b bool) string {
	if b {
		return "true"
	}
	return "false"
}
