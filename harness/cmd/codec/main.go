// codec harness: runs the real encoders / decoders of /repo (amqp, queue,
// exchange, binding packages) on generated values and on arbitrary / mutated
// byte strings and prints one canonical line per case.
//
//	codec gen  -seed S -n N -mal M [-maxlen L]   N typed round-trip cases (E lines), M malformed-input cases (D lines)
//	codec case -seed S -idx I [-mal] [-maxlen L] regenerate exactly one case of such a run
//	codec dec  <kind> <dialect> <hex>            decode one byte string (D line)
//
// E line: E <idx> <kind> <dialect> <producible 0/1> <exact 0/1> <value> <go bytes hex | ERR | PANIC:..> <go decode of those bytes> <behaviour original/restored | ->
// D line: D <idx> <kind> <dialect> <hex> <class> <value|-> <rest> <alloc bytes> <mutation>
// class: Ok | Err | Panic | ErrPattern (wire decoding fine, topic pattern refused)
package main

import (
	"bytes"
	"encoding/hex"
	"flag"
	"fmt"
	"math"
	"os"
	"reflect"
	"runtime"
	"strings"
	"time"

	"gmqverif/harness/hx"

	"github.com/valinurovam/garagemq/amqp"
	"github.com/valinurovam/garagemq/binding"
	"github.com/valinurovam/garagemq/config"
	"github.com/valinurovam/garagemq/exchange"
	"github.com/valinurovam/garagemq/queue"
)

var kinds = []string{"table", "method", "header", "frame", "message", "queue", "exchange", "binding", "shortstr", "longstr", "closeerr"}

func proto(d string) string {
	if d == "091" {
		return amqp.Proto091
	}
	return amqp.ProtoRabbit
}

// ---------------------------------------------------------------- generators
type gen struct {
	r          *hx.Rng
	d          string
	producible bool // only values the reader of the dialect can produce
	maxEntries int  // largest table seen (order of a map with > 1 entries is not deterministic)
}

func (g *gen) bytes(max int) []byte {
	n := 0
	switch g.r.Intn(10) {
	case 0:
		n = 0
	case 1:
		n = 1
	case 2:
		n = max
	default:
		n = g.r.Intn(max + 1)
		if n > 24 && g.r.Chance(3, 4) {
			n = g.r.Intn(24)
		}
	}
	b := make([]byte, n)
	for i := range b {
		if g.r.Chance(3, 4) {
			b[i] = byte('a' + g.r.Intn(26))
		} else {
			b[i] = byte(g.r.Intn(256))
		}
	}
	return b
}

func (g *gen) u64(bits uint) uint64 {
	var max uint64 = math.MaxUint64
	if bits < 64 {
		max = (uint64(1) << bits) - 1
	}
	switch g.r.Intn(8) {
	case 0:
		return 0
	case 1:
		return max
	case 2:
		return max/2 + 1 // sign bit only
	case 3:
		return uint64(g.r.Intn(256)) & max
	default:
		return g.r.Next() & max
	}
}

func (g *gen) key() string { return string(g.bytes(40)) }

func (g *gen) value(depth int) interface{} {
	type mk func() interface{}
	scalars091 := []mk{
		func() interface{} { return g.r.Chance(1, 2) },
		func() interface{} { return int8(g.u64(8)) },
		func() interface{} { return uint8(g.u64(8)) },
		func() interface{} { return int16(g.u64(16)) },
		func() interface{} { return uint16(g.u64(16)) },
		func() interface{} { return int32(g.u64(32)) },
		func() interface{} { return uint32(g.u64(32)) },
		func() interface{} { return int64(g.u64(64)) },
		func() interface{} { return g.u64(64) },
		func() interface{} { return math.Float32frombits(uint32(g.u64(32))) },
		func() interface{} { return math.Float64frombits(g.u64(64)) },
		func() interface{} { return amqp.Decimal{Scale: uint8(g.u64(8)), Value: int32(g.u64(32))} },
		func() interface{} { return string(g.bytes(255)) },
		func() interface{} { return g.bytes(300) },
		func() interface{} { return time.Unix(int64(g.u64(64)), 0) },
		func() interface{} { return nil },
	}
	scalarsRabbit := []mk{
		func() interface{} { return g.r.Chance(1, 2) },
		func() interface{} { return int8(g.u64(8)) },
		func() interface{} { return uint8(g.u64(8)) },
		func() interface{} { return g.bytes(300) },
		func() interface{} { return int16(g.u64(16)) },
		func() interface{} { return int32(g.u64(32)) },
		func() interface{} { return int64(g.u64(64)) },
		func() interface{} { return math.Float32frombits(uint32(g.u64(32))) },
		func() interface{} { return math.Float64frombits(g.u64(64)) },
		func() interface{} { return amqp.Decimal{Scale: uint8(g.u64(8)), Value: int32(g.u64(32))} },
		func() interface{} { return string(g.bytes(300)) },
		func() interface{} { return time.Unix(int64(g.u64(64)), 0) },
		func() interface{} { return nil },
	}
	// writable, but not what the reader gives back
	lossy := []mk{
		func() interface{} { return uint8(g.u64(8)) },
		func() interface{} { return uint16(g.u64(16)) },
		func() interface{} { return uint32(g.u64(32)) },
		func() interface{} { return g.u64(64) },
		func() interface{} { return g.bytes(300) },
		func() interface{} { return g.table(depth + 1) },           // Table by value
		func() interface{} { return string(g.bytes(255)) + "0123456789" }, // may exceed a shortstr
	}
	if depth < 3 && g.r.Chance(1, 6) {
		t := g.table(depth + 1)
		return &t
	}
	if depth < 3 && g.r.Chance(1, 8) {
		n := g.r.Intn(4)
		a := make([]interface{}, n)
		for i := range a {
			a[i] = g.value(depth + 1)
		}
		return a
	}
	if !g.producible && g.r.Chance(1, 3) {
		return lossy[g.r.Intn(len(lossy))]()
	}
	if g.d == "091" {
		return scalars091[g.r.Intn(len(scalars091))]()
	}
	return scalarsRabbit[g.r.Intn(len(scalarsRabbit))]()
}

func (g *gen) table(depth int) amqp.Table {
	n := 0
	switch g.r.Intn(6) {
	case 0:
		n = 0
	case 1, 2, 3:
		n = 1
	default:
		n = 2 + g.r.Intn(4)
	}
	t := amqp.Table{}
	for i := 0; i < n; i++ {
		t[g.key()] = g.value(depth)
	}
	if len(t) > g.maxEntries {
		g.maxEntries = len(t)
	}
	return t
}

func (g *gen) fillStruct(v reflect.Value) {
	for i := 0; i < v.NumField(); i++ {
		f := v.Field(i)
		switch f.Interface().(type) {
		case byte:
			f.SetUint(g.u64(8))
		case uint16:
			f.SetUint(g.u64(16))
		case uint32:
			f.SetUint(g.u64(32))
		case uint64:
			f.SetUint(g.u64(64))
		case bool:
			f.SetBool(g.r.Chance(1, 2))
		case string:
			f.SetString(string(g.bytes(255)))
		case []byte:
			f.SetBytes(g.bytes(400))
		case *amqp.Table:
			t := g.table(1)
			f.Set(reflect.ValueOf(&t))
		case time.Time:
			f.Set(reflect.ValueOf(time.Unix(int64(g.u64(64)), 0)))
		}
	}
}

func (g *gen) method() amqp.Method {
	m := registry[g.r.Intn(len(registry))]()
	g.fillStruct(reflect.ValueOf(m).Elem())
	return m
}

func (g *gen) header() *amqp.ContentHeader {
	pl := &amqp.BasicPropertyList{}
	v := reflect.ValueOf(pl).Elem()
	mode := g.r.Intn(4) // 0: none, 1: all, else random subset
	for i := 0; i < v.NumField(); i++ {
		f := v.Field(i)
		if mode == 0 || (mode >= 2 && g.r.Chance(1, 2)) {
			continue
		}
		switch f.Interface().(type) {
		case *string:
			s := string(g.bytes(255))
			f.Set(reflect.ValueOf(&s))
		case *byte:
			b := byte(g.u64(8))
			f.Set(reflect.ValueOf(&b))
		case *amqp.Table:
			t := g.table(1)
			f.Set(reflect.ValueOf(&t))
		case *time.Time:
			t := time.Unix(int64(g.u64(64)), 0)
			f.Set(reflect.ValueOf(&t))
		}
	}
	cls := uint16(60)
	if g.r.Chance(1, 4) {
		cls = uint16(g.u64(16))
	}
	return &amqp.ContentHeader{ClassID: cls, Weight: uint16(g.u64(16)), BodySize: g.u64(64), PropertyList: pl}
}

func (g *gen) frame() *amqp.Frame {
	ty := []byte{1, 2, 3, 8, byte(g.u64(8))}[g.r.Intn(5)]
	return &amqp.Frame{Type: ty, ChannelID: uint16(g.u64(16)), Payload: g.bytes(600)}
}

func (g *gen) message() *amqp.Message {
	h := g.header()
	m := &amqp.Message{ID: g.u64(64), Header: h, Exchange: string(g.bytes(255)), RoutingKey: string(g.bytes(255)), DeliveryCount: uint32(g.u64(32))}
	n := g.r.Intn(4)
	var total uint64
	for i := 0; i < n; i++ {
		p := g.bytes(200)
		if i == n-1 && len(p) == 0 {
			p = []byte{byte(g.u64(8))}
		}
		m.Body = append(m.Body, &amqp.Frame{Type: amqp.FrameBody, ChannelID: uint16(g.u64(16)), Payload: p})
		total += uint64(len(p))
	}
	h.BodySize = total
	return m
}

func (g *gen) topicKey() string {
	words := []string{"a", "bb", "*", "#", "stock", "x1", ""}
	n := g.r.Intn(5)
	parts := make([]string, n)
	for i := range parts {
		parts[i] = words[g.r.Intn(len(words))]
	}
	return strings.Join(parts, ".")
}

// ---------------------------------------------------------------- decode under recover
type decoded struct {
	class string
	value string
	rest  int
	late  func() string // canonical text, built only after the allocation has been measured
}

func (d *decoded) text() string {
	if d.late != nil {
		d.value = d.late()
		d.late = nil
	}
	return d.value
}

func decodeKind(kind, d string, data []byte) (res decoded) {
	res.rest = -1
	defer func() {
		if r := recover(); r != nil {
			res = decoded{class: "Panic", value: "-", rest: -1}
			msg := strings.ReplaceAll(fmt.Sprint(r), "\t", " ")
			res.value = "-:" + strings.ReplaceAll(msg, "\n", " ")
		}
	}()
	rd := bytes.NewReader(data)
	fail := func(err error) decoded {
		if strings.HasPrefix(err.Error(), "wildcard inside") || strings.HasPrefix(err.Error(), "error parsing regexp") || strings.HasPrefix(err.Error(), "bad topic") {
			return decoded{class: "ErrPattern", value: "-", rest: -1}
		}
		return decoded{class: "Err", value: "-", rest: -1}
	}
	switch kind {
	case "table":
		t, err := amqp.ReadTable(rd, proto(d))
		if err != nil {
			return fail(err)
		}
		return decoded{class: "Ok", rest: rd.Len(), late: func() string { return "CT " + coqTablePtr(t) }}
	case "method", "closeerr":
		m, err := amqp.ReadMethod(rd, proto(d))
		if err != nil {
			return fail(err)
		}
		return decoded{class: "Ok", rest: rd.Len(), late: func() string { return coqMethod(m) }}
	case "header":
		h, err := amqp.ReadContentHeader(rd, proto(d))
		if err != nil {
			return fail(err)
		}
		return decoded{class: "Ok", rest: rd.Len(), late: func() string { return "CH " + coqHeaderInner(h) }}
	case "frame":
		f, err := amqp.ReadFrame(rd)
		if err != nil {
			return fail(err)
		}
		return decoded{class: "Ok", rest: rd.Len(), late: func() string { return "CF " + coqFrameInner(f) }}
	case "message":
		m := &amqp.Message{}
		if err := m.Unmarshal(data, proto(d)); err != nil {
			return fail(err)
		}
		return decoded{class: "Ok", rest: -1, late: func() string { return coqMessage(m) }}
	case "queue":
		q := &queue.Queue{}
		if err := q.Unmarshal(data, proto(d)); err != nil {
			return fail(err)
		}
		return decoded{class: "Ok", value: fmt.Sprintf("CQ (mkQ %s %s)", coqH([]byte(q.GetName())), coqBool(q.IsAutoDelete())), rest: -1}
	case "exchange":
		e := &exchange.Exchange{}
		if err := e.Unmarshal(data); err != nil {
			return fail(err)
		}
		return decoded{class: "Ok", value: fmt.Sprintf("CE (mkE %s %d)", coqH([]byte(e.GetName())), e.ExType()), rest: -1}
	case "binding":
		b := &binding.Binding{}
		err := b.Unmarshal(data, proto(d))
		if err != nil {
			return fail(err)
		}
		topic := reflect.ValueOf(b).Elem().FieldByName("topic").Bool()
		return decoded{class: "Ok", rest: -1, late: func() string {
			return fmt.Sprintf("CB (mkB %s %s %s %s %s)", coqH([]byte(b.Queue)), coqH([]byte(b.Exchange)), coqH([]byte(b.RoutingKey)),
				coqTablePtr(b.Arguments), coqBool(topic))
		}}
	case "shortstr":
		s, err := amqp.ReadShortstr(rd)
		if err != nil {
			return fail(err)
		}
		return decoded{class: "Ok", value: "CS " + coqH([]byte(s)), rest: rd.Len()}
	case "longstr":
		s, err := amqp.ReadLongstr(rd)
		if err != nil {
			return fail(err)
		}
		return decoded{class: "Ok", value: "CS " + coqH(s), rest: rd.Len()}
	}
	return decoded{class: "Err", value: "-:unknown kind", rest: -1}
}

func decodeMeasured(kind, d string, data []byte) (decoded, uint64) {
	var m0, m1 runtime.MemStats
	runtime.ReadMemStats(&m0)
	res := decodeKind(kind, d, data)
	runtime.ReadMemStats(&m1)
	return res, m1.TotalAlloc - m0.TotalAlloc
}

// ---------------------------------------------------------------- encode
// returns the canonical value, the Go encoding ("ERR", "PANIC:..." on failure)
func encodeCase(g *gen, kind string) (value string, enc string, raw []byte) {
	defer func() {
		if r := recover(); r != nil {
			enc = "PANIC:" + strings.ReplaceAll(strings.ReplaceAll(fmt.Sprint(r), "\t", " "), "\n", " ")
			raw = nil
		}
	}()
	buf := &bytes.Buffer{}
	var err error
	p := proto(g.d)
	switch kind {
	case "table":
		t := g.table(0)
		value = "CT " + coqTable(t)
		err = amqp.WriteTable(buf, &t, p)
	case "method":
		m := g.method()
		value = coqMethod(m)
		err = amqp.WriteMethod(buf, m, p)
	case "header":
		h := g.header()
		value = "CH " + coqHeaderInner(h)
		err = amqp.WriteContentHeader(buf, h, p)
	case "frame":
		f := g.frame()
		value = "CF " + coqFrameInner(f)
		err = amqp.WriteFrame(buf, f)
	case "message":
		m := g.message()
		value = coqMessage(m)
		var data []byte
		data, err = m.Marshal(p)
		buf.Write(data)
	case "queue":
		name, ad := string(g.bytes(255)), g.r.Chance(1, 2)
		q := queue.NewQueue(name, 0, g.r.Chance(1, 2), ad, true, config.Queue{ShardSize: 8, MaxMessagesInRAM: 8}, nil, nil, nil)
		value = fmt.Sprintf("CQ (mkQ %s %s)", coqH([]byte(name)), coqBool(ad))
		var data []byte
		data, err = q.Marshal(p)
		buf.Write(data)
	case "exchange":
		name, ty := string(g.bytes(255)), byte(g.u64(8))
		if g.r.Chance(3, 4) {
			ty = byte(g.r.Intn(5))
		}
		e := exchange.NewExchange(name, ty, true, g.r.Chance(1, 2), false, false)
		value = fmt.Sprintf("CE (mkE %s %d)", coqH([]byte(name)), ty)
		var data []byte
		data, err = e.Marshal(p)
		buf.Write(data)
	case "binding":
		topic := g.r.Chance(1, 2)
		rk := string(g.bytes(255))
		if topic {
			rk = g.topicKey()
		}
		t := g.table(1)
		qn, en := string(g.bytes(255)), string(g.bytes(255))
		value = fmt.Sprintf("CB (mkB %s %s %s %s %s)", coqH([]byte(qn)), coqH([]byte(en)), coqH([]byte(rk)), coqTable(t), coqBool(topic))
		b, e2 := binding.NewBinding(qn, en, rk, &t, topic)
		if e2 != nil {
			return value, "ERRNEW", nil
		}
		lastBinding, lastBindingArgs = b, &t
		var data []byte
		data, err = b.Marshal(p)
		buf.Write(data)
	case "closeerr":
		// the close methods the broker builds from its own error values (reply text embeds client-chosen names)
		text := "queue '" + string(g.bytes(255)) + "' in vhost '" + string(g.bytes(60)) + "'"
		code := []uint16{amqp.NotFound, amqp.PreconditionFailed, amqp.AccessRefused, amqp.ResourceLocked, amqp.ChannelError, amqp.NotImplemented}[g.r.Intn(6)]
		var m amqp.Method
		if g.r.Chance(1, 2) {
			e := amqp.NewChannelError(code, text, uint16(g.u64(16)), uint16(g.u64(16)))
			m = &amqp.ChannelClose{ReplyCode: e.ReplyCode, ReplyText: e.ReplyText, ClassID: e.ClassID, MethodID: e.MethodID}
		} else {
			e := amqp.NewConnectionError(code, text, uint16(g.u64(16)), uint16(g.u64(16)))
			m = &amqp.ConnectionClose{ReplyCode: e.ReplyCode, ReplyText: e.ReplyText, ClassID: e.ClassID, MethodID: e.MethodID}
		}
		value = coqMethod(m)
		err = amqp.WriteMethod(buf, m, p)
	case "shortstr":
		s := g.bytes(255)
		value = "CS " + coqH(s)
		err = amqp.WriteShortstr(buf, string(s))
	case "longstr":
		s := g.bytes(700)
		value = "CS " + coqH(s)
		err = amqp.WriteLongstr(buf, s)
	}
	if err != nil {
		return value, "ERR", nil
	}
	out := make([]byte, buf.Len())
	copy(out, buf.Bytes())
	return value, hex.EncodeToString(out), out
}

// ---------------------------------------------------------------- behaviour of a stored binding
var lastBinding *binding.Binding
var lastBindingArgs *amqp.Table

// bindingBehaviour: what the binding routes, as a bit string over fixed probes (topic / direct / fanout keys derived
// from its own routing key, and header tables derived from its own arguments). A binding restored from its stored
// form must answer every probe like the binding it was made from.
func bindingBehaviour(b *binding.Binding, args *amqp.Table) (out string) {
	defer func() {
		if r := recover(); r != nil {
			out += "!PANIC:" + strings.ReplaceAll(strings.ReplaceAll(fmt.Sprint(r), "\t", " "), "\n", " ")
		}
	}()
	rk, ex := b.RoutingKey, b.Exchange
	keys := []string{rk, "", "a", "bb", "a.bb", "stock", "a.stock.x1", "bb.a.a", "x1",
		strings.ReplaceAll(strings.ReplaceAll(rk, "*", "a"), "#", "x1.bb"),
		strings.ReplaceAll(strings.ReplaceAll(rk, "*", "stock"), "#", "a"),
		strings.Trim(strings.ReplaceAll(strings.ReplaceAll(strings.ReplaceAll(rk, "#.", ""), ".#", ""), "*", "x1"), "#")}
	bit := func(v bool) string {
		if v {
			return "1"
		}
		return "0"
	}
	for _, k := range keys {
		out += bit(b.MatchTopic(ex, k)) + bit(b.MatchDirect(ex, k))
	}
	out += bit(b.MatchFanout(ex)) + bit(b.MatchFanout(ex+"x")) + bit(b.MatchTopic(ex+"x", rk))
	// header probes: the arguments themselves, nothing, the arguments with one value changed, with one key missing
	full := amqp.Table{}
	for k, v := range *args {
		full[k] = v
	}
	changed, missing := amqp.Table{}, amqp.Table{}
	first := true
	ks := make([]string, 0, len(full))
	for k := range full {
		ks = append(ks, k)
	}
	sortStrings(ks)
	for _, k := range ks {
		if first {
			changed[k] = "changed by the probe"
			first = false
			continue
		}
		changed[k], missing[k] = full[k], full[k]
	}
	for _, h := range []*amqp.Table{&full, {}, &changed, &missing, nil} {
		out += bit(b.MatchHeader(ex, h))
	}
	return out
}

func sortStrings(a []string) {
	for i := 1; i < len(a); i++ {
		for j := i; j > 0 && a[j] < a[j-1]; j-- {
			a[j], a[j-1] = a[j-1], a[j]
		}
	}
}

// ---------------------------------------------------------------- mutation
var tagLetters = []byte("tbBUuIiLlfdDsSATFVxz")

func mutate(r *hx.Rng, b []byte, maxlen uint32) ([]byte, string) {
	out := append([]byte{}, b...)
	var names []string
	n := 1 + r.Intn(3)
	for i := 0; i < n; i++ {
		switch k := r.Intn(8); {
		case k == 0 && len(out) > 0:
			p := r.Intn(len(out))
			out[p] ^= 1 << uint(r.Intn(8))
			names = append(names, "bitflip")
		case k == 1 && len(out) > 0:
			out = out[:r.Intn(len(out))]
			names = append(names, "truncate")
		case k == 2 || k == 3:
			// overwrite 4 bytes with a length-like value
			if len(out) >= 4 {
				p := r.Intn(len(out) - 3)
				remaining := uint32(len(out) - p - 4)
				less := remaining
				if less > 0 {
					less--
				}
				cands := []uint32{0, 1, remaining, remaining + 1, less, remaining / 2, 0xFFFF & maxlen, 0x10000 & maxlen, maxlen, maxlen - 1, 0x80000000 & maxlen}
				v := cands[r.Intn(len(cands))]
				out[p], out[p+1], out[p+2], out[p+3] = byte(v>>24), byte(v>>16), byte(v>>8), byte(v)
				names = append(names, "length")
			}
		case k == 4 && len(out) > 0:
			// type confusion: put a tag letter somewhere (preferably where one is now)
			p := r.Intn(len(out))
			for j := 0; j < len(out); j++ {
				q := (p + j) % len(out)
				if bytes.IndexByte(tagLetters, out[q]) >= 0 {
					p = q
					break
				}
			}
			out[p] = tagLetters[r.Intn(len(tagLetters))]
			names = append(names, "tag")
		case k == 5:
			extra := make([]byte, 1+r.Intn(12))
			for j := range extra {
				extra[j] = byte(r.Intn(256))
			}
			out = append(out, extra...)
			names = append(names, "append")
		case k == 6 && len(out) > 0:
			// one length octet
			p := r.Intn(len(out))
			out[p] = []byte{0, 1, 255, byte(len(out) - p - 1), byte(len(out) - p)}[r.Intn(5)]
			names = append(names, "octet")
		default:
			if len(out) > 0 {
				p := r.Intn(len(out))
				tail := make([]byte, r.Intn(16))
				for j := range tail {
					tail[j] = byte(r.Intn(256))
				}
				out = append(out[:p], tail...)
				names = append(names, "splice")
			}
		}
	}
	return out, strings.Join(names, "+")
}

// ---------------------------------------------------------------- cases
func pickKind(r *hx.Rng) string {
	w := []int{30, 25, 12, 6, 8, 3, 3, 7, 3, 3, 3}
	t := 0
	for _, x := range w {
		t += x
	}
	k := r.Intn(t)
	for i, x := range w {
		if k < x {
			return kinds[i]
		}
		k -= x
	}
	return kinds[0]
}

func caseRng(seed uint64, idx int, mal bool) *hx.Rng {
	s := seed*1000003 + uint64(idx)*2 + 1
	if mal {
		s += 0x5bd1e995
	}
	return hx.NewRng(s)
}

func eCase(seed uint64, idx int) string {
	r := caseRng(seed, idx, false)
	d := []string{"091", "rabbit"}[r.Intn(2)]
	kind := pickKind(r)
	g := &gen{r: r, d: d, producible: !r.Chance(1, 5)}
	value, enc, raw := encodeCase(g, kind)
	exact := g.maxEntries <= 1
	godec := "-"
	if raw != nil {
		res := decodeKind(kind, d, raw)
		godec = res.class + " " + res.text() + fmt.Sprintf(" rest=%d", res.rest)
	}
	p, e := 0, 0
	if g.producible {
		p = 1
	}
	if exact {
		e = 1
	}
	beh := "-"
	if kind == "binding" && raw != nil && lastBinding != nil {
		// behaviour of the original binding / of the binding restored from the stored bytes
		restored := &binding.Binding{}
		// the probe headers are a separate copy of the arguments (a table compared with itself short-cuts NaN != NaN)
		hb := &bytes.Buffer{}
		if amqp.WriteTable(hb, lastBindingArgs, proto(d)) == nil {
			if h, e := amqp.ReadTable(bytes.NewReader(hb.Bytes()), proto(d)); e == nil {
				lastBindingArgs = h
			}
		}
		if err := restored.Unmarshal(raw, proto(d)); err == nil {
			beh = bindingBehaviour(lastBinding, lastBindingArgs) + "/" + bindingBehaviour(restored, lastBindingArgs)
		} else {
			beh = bindingBehaviour(lastBinding, lastBindingArgs) + "/ERR"
		}
	}
	return fmt.Sprintf("E\t%d\t%s\t%s\t%d\t%d\t%s\t%s\t%s\t%s", idx, kind, d, p, e, value, enc, godec, beh)
}

func dLine(idx int, kind, d string, data []byte, mut string) string {
	res, alloc := decodeMeasured(kind, d, data)
	return fmt.Sprintf("D\t%d\t%s\t%s\t%s\t%s\t%s\t%d\t%d\t%s", idx, kind, d, hex.EncodeToString(data), res.class, res.text(), res.rest, alloc, mut)
}

func dCase(seed uint64, idx int, maxlen uint32) string {
	r := caseRng(seed, idx, true)
	d := []string{"091", "rabbit"}[r.Intn(2)]
	kind := pickKind(r)
	g := &gen{r: r, d: d, producible: true}
	var data []byte
	mut := ""
	switch r.Intn(10) {
	case 0:
		// raw garbage, for methods behind a valid class/method id
		data = make([]byte, r.Intn(40))
		for i := range data {
			data[i] = byte(r.Intn(256))
		}
		mut = "garbage"
		if kind == "method" {
			m := registry[r.Intn(len(registry))]()
			data = append([]byte{byte(m.ClassIdentifier() >> 8), byte(m.ClassIdentifier()), byte(m.MethodIdentifier() >> 8), byte(m.MethodIdentifier())}, data...)
			mut = "garbage-args"
		}
	case 1:
		// unmodified valid encoding followed by nothing: decoders on well-formed input
		_, _, raw := encodeCase(g, kind)
		data, mut = raw, "valid"
	default:
		_, _, raw := encodeCase(g, kind)
		data, mut = mutate(r, raw, maxlen)
	}
	return dLine(idx, kind, d, data, mut)
}

func main() {
	if len(os.Args) < 2 {
		fmt.Fprintln(os.Stderr, "usage: codec gen|case|dec|peer ...")
		os.Exit(2)
	}
	fs := flag.NewFlagSet(os.Args[1], flag.ExitOnError)
	seed := fs.Uint64("seed", 1, "seed")
	n := fs.Int("n", 100, "round-trip cases")
	mal := fs.Int("mal", 100, "malformed-input cases")
	idx := fs.Int("idx", 0, "case index")
	isMal := fs.Bool("malcase", false, "case: the index refers to the malformed stream")
	maxlen := fs.Uint64("maxlen", 0x04000000, "largest forged length field")
	w := os.Stdout
	switch os.Args[1] {
	case "gen":
		fs.Parse(os.Args[2:])
		var sb strings.Builder
		for i := 0; i < *n; i++ {
			sb.WriteString(eCase(*seed, i))
			sb.WriteByte('\n')
		}
		for i := 0; i < *mal; i++ {
			sb.WriteString(dCase(*seed, i, uint32(*maxlen)))
			sb.WriteByte('\n')
		}
		w.WriteString(sb.String())
	case "case":
		fs.Parse(os.Args[2:])
		if *isMal {
			fmt.Fprintln(w, dCase(*seed, *idx, uint32(*maxlen)))
		} else {
			fmt.Fprintln(w, eCase(*seed, *idx))
		}
	case "peer":
		fs.Parse(os.Args[2:])
		cmdPeer(*seed, *n)
	case "dec":
		if len(os.Args) != 5 {
			fmt.Fprintln(os.Stderr, "usage: codec dec <kind> <dialect> <hex>")
			os.Exit(2)
		}
		data, err := hex.DecodeString(os.Args[4])
		if err != nil {
			fmt.Fprintln(os.Stderr, "bad hex")
			os.Exit(2)
		}
		fmt.Fprintln(w, dLine(0, os.Args[2], os.Args[3], data, "given"))
	default:
		fmt.Fprintln(os.Stderr, "unknown sub-command")
		os.Exit(2)
	}
}
