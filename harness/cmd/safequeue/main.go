package main

import (
	"bufio"
	"flag"
	"fmt"
	"os"
	"strconv"
	"strings"

	"gmqverif/harness/hx"

	"github.com/valinurovam/garagemq/amqp"
	"github.com/valinurovam/garagemq/safequeue"
)

func main() {
	if len(os.Args) < 2 {
		fmt.Fprintln(os.Stderr, "usage: safequeue run|replay ...")
		os.Exit(2)
	}
	var err error
	switch os.Args[1] {
	case "run":
		err = cmdSafeQueue(os.Args[2:])
	case "replay":
		err = cmdSafeQueueReplay(os.Args[2:])
	default:
		err = fmt.Errorf("unknown sub-command %s", os.Args[1])
	}
	if err != nil {
		fmt.Fprintln(os.Stderr, "error:", err)
		os.Exit(2)
	}
}

// op syntax: P<n> push, H<n> push-head, O pop, I head-item, L length, X purge
// out syntax: '_' no output, '-' nil item, <n> item id, 'l<n>' length

func runSafeQueueOps(sz int, ops []string) []string {
	q := safequeue.NewSafeQueue(sz)
	outs := make([]string, 0, len(ops))
	item := func(m *amqp.Message) string {
		if m == nil {
			return "-"
		}
		return strconv.FormatUint(m.ID, 10)
	}
	for _, op := range ops {
		switch op[0] {
		case 'P':
			n, _ := strconv.ParseUint(op[1:], 10, 64)
			q.Push(&amqp.Message{ID: n})
			outs = append(outs, "_")
		case 'H':
			n, _ := strconv.ParseUint(op[1:], 10, 64)
			q.PushHead(&amqp.Message{ID: n})
			outs = append(outs, "_")
		case 'O':
			outs = append(outs, item(q.Pop()))
		case 'I':
			outs = append(outs, item(q.HeadItem()))
		case 'L':
			outs = append(outs, "l"+strconv.FormatUint(q.Length(), 10))
		case 'X':
			q.Purge()
			outs = append(outs, "_")
		}
	}
	return outs
}

func safeRun(sz int, ops []string) (outs []string, panicked string) {
	defer func() {
		if r := recover(); r != nil {
			panicked = fmt.Sprint(r)
		}
	}()
	return runSafeQueueOps(sz, ops), ""
}

func genSafeQueueOps(r *hx.Rng, sz int, n int) []string {
	ops := make([]string, 0, n)
	next := uint64(1)
	// phases bias the mix so that depth grows over several shards and shrinks again
	bias := r.Intn(4)
	for i := 0; i < n; i++ {
		if r.Chance(1, 12) {
			bias = r.Intn(4)
		}
		k := r.Intn(100)
		var pPush, pHead, pPop int
		switch bias {
		case 0:
			pPush, pHead, pPop = 55, 10, 20
		case 1:
			pPush, pHead, pPop = 15, 10, 60
		case 2:
			pPush, pHead, pPop = 30, 35, 25
		default:
			pPush, pHead, pPop = 35, 15, 35
		}
		switch {
		case k < pPush:
			ops = append(ops, "P"+strconv.FormatUint(next, 10))
			next++
		case k < pPush+pHead:
			ops = append(ops, "H"+strconv.FormatUint(next, 10))
			next++
		case k < pPush+pHead+pPop:
			ops = append(ops, "O")
		case k < pPush+pHead+pPop+5:
			ops = append(ops, "I")
		case k < pPush+pHead+pPop+9:
			ops = append(ops, "L")
		default:
			if r.Chance(1, 3) {
				ops = append(ops, "X")
			} else {
				ops = append(ops, "I")
			}
		}
	}
	// always finish with a drain so stranded items are visible
	for i := 0; i < 6; i++ {
		ops = append(ops, "O")
	}
	ops = append(ops, "L")
	return ops
}

// enumerate all sequences over a small alphabet up to length n
func enumSafeQueue(n int, emit func(ops []string)) {
	alpha := []string{"P", "H", "O", "X"}
	var rec func(prefix []string, next int)
	rec = func(prefix []string, next int) {
		if len(prefix) > 0 {
			full := append(append([]string{}, prefix...), "I", "L", "O", "O", "O", "L")
			emit(full)
		}
		if len(prefix) == n {
			return
		}
		for _, a := range alpha {
			op := a
			nn := next
			if a == "P" || a == "H" {
				op = a + strconv.Itoa(next)
				nn = next + 1
			}
			rec(append(prefix, op), nn)
		}
	}
	rec(nil, 1)
}

func cmdSafeQueue(args []string) error {
	fs := flag.NewFlagSet("safequeue", flag.ExitOnError)
	seed := fs.Uint64("seed", 1, "seed")
	n := fs.Int("n", 300, "random cases")
	maxLen := fs.Int("len", 60, "max ops per random case")
	exh := fs.Int("exhaustive", 0, "enumerate all sequences up to this length for shard sizes 1..3")
	fs.Parse(args)
	w := bufio.NewWriter(os.Stdout)
	defer w.Flush()
	emit := func(sz int, ops []string) {
		outs, p := safeRun(sz, ops)
		if p != "" {
			fmt.Fprintf(w, "%d|%s|PANIC %s\n", sz, strings.Join(ops, " "), strings.ReplaceAll(p, "\n", " "))
			return
		}
		fmt.Fprintf(w, "%d|%s|%s\n", sz, strings.Join(ops, " "), strings.Join(outs, " "))
	}
	if *exh > 0 {
		for sz := 1; sz <= 3; sz++ {
			enumSafeQueue(*exh, func(ops []string) { emit(sz, ops) })
		}
	}
	r := hx.NewRng(*seed)
	for i := 0; i < *n; i++ {
		sz := 1 + r.Intn(5)
		if r.Chance(1, 10) {
			sz = 6 + r.Intn(10)
		}
		l := 5 + r.Intn(*maxLen)
		emit(sz, genSafeQueueOps(r, sz, l))
	}
	return nil
}

// safequeue-replay <sz> <ops...>
func cmdSafeQueueReplay(args []string) error {
	if len(args) < 1 {
		return fmt.Errorf("usage: safequeue-replay <sz> op op ...")
	}
	sz, _ := strconv.Atoi(args[0])
	outs, p := safeRun(sz, args[1:])
	if p != "" {
		fmt.Printf("%d|%s|PANIC %s\n", sz, strings.Join(args[1:], " "), p)
		return nil
	}
	fmt.Printf("%d|%s|%s\n", sz, strings.Join(args[1:], " "), strings.Join(outs, " "))
	return nil
}
