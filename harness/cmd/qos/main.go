// qos harness: API-level runs of the real qos.AmqpQos and of the window loop of
// the real queue.PopQos.  One canonical line per case:
//
//	W|pc,ps|ops|outs      one window.  ops: I<c>,<s> Inc  D<c>,<s> Dec  U<pc>,<ps> Update  R Release
//	                      C Copy (the run continues on the copy)  A IsActive
//	                      outs (one per op): <b>:<pc>,<cc>,<ps>,<cs>   b = t/f for Inc and IsActive, _ otherwise
//	R|w;w;..|ops|outs     a window list (w = pc,cc,ps,cs).  ops: P<bodysize> = a fresh real queue.Queue holding
//	                      one message of that body size, PopQos(windows); S<bodysize> = settle:
//	                      Dec(1, uint32(bodysize)) on every window (channel.decQosAndConsumeNext).
//	                      outs: <b>:<w>;<w>;..   b = t (message popped) / f (refused) / _
//
// Sub-commands: run -seed S -n N -len L   |   replay <W or R case without outs>
package main

import (
	"bufio"
	"flag"
	"fmt"
	"os"
	"runtime"
	"strconv"
	"strings"
	"sync"
	"sync/atomic"

	"github.com/sasha-s/go-deadlock"

	"gmqverif/harness/hx"

	"github.com/valinurovam/garagemq/amqp"
	"github.com/valinurovam/garagemq/config"
	"github.com/valinurovam/garagemq/qos"
	"github.com/valinurovam/garagemq/queue"
)

func main() {
	deadlock.Opts.Disable = true
	if len(os.Args) < 2 {
		fmt.Fprintln(os.Stderr, "usage: qos run|replay ...")
		os.Exit(2)
	}
	var err error
	switch os.Args[1] {
	case "run":
		err = cmdRun(os.Args[2:])
	case "replay":
		err = cmdReplay(os.Args[2:])
	case "concurrent":
		err = cmdConcurrent(os.Args[2:])
	default:
		err = fmt.Errorf("unknown sub-command %s", os.Args[1])
	}
	if err != nil {
		fmt.Fprintln(os.Stderr, "error:", err)
		os.Exit(2)
	}
}

func wstate(q *qos.AmqpQos) string {
	s := q.VerifState() // prefetchCount, prefetchSize, currentCount, currentSize
	return fmt.Sprintf("%d,%d,%d,%d", s[0], s[2], s[1], s[3])
}

func two(s string) (uint64, uint64, error) {
	p := strings.Split(s, ",")
	if len(p) != 2 {
		return 0, 0, fmt.Errorf("bad pair %q", s)
	}
	a, e1 := strconv.ParseUint(p[0], 10, 64)
	b, e2 := strconv.ParseUint(p[1], 10, 64)
	if e1 != nil || e2 != nil {
		return 0, 0, fmt.Errorf("bad pair %q", s)
	}
	return a, b, nil
}

func bs(b bool) string {
	if b {
		return "t"
	}
	return "f"
}

func runWindow(init string, ops []string) (outs []string, err error) {
	pc, ps, err := two(init)
	if err != nil {
		return nil, err
	}
	q := qos.NewAmqpQos(uint16(pc), uint32(ps))
	for _, op := range ops {
		b := "_"
		switch op[0] {
		case 'I':
			c, s, e := two(op[1:])
			if e != nil {
				return nil, e
			}
			b = bs(q.Inc(uint16(c), uint32(s)))
		case 'D':
			c, s, e := two(op[1:])
			if e != nil {
				return nil, e
			}
			q.Dec(uint16(c), uint32(s))
		case 'U':
			c, s, e := two(op[1:])
			if e != nil {
				return nil, e
			}
			q.Update(uint16(c), uint32(s))
		case 'R':
			q.Release()
		case 'C':
			q = q.Copy()
		case 'A':
			b = bs(q.IsActive())
		default:
			return nil, fmt.Errorf("bad op %q", op)
		}
		outs = append(outs, b+":"+wstate(q))
	}
	return outs, nil
}

func mkWindow(spec string) (*qos.AmqpQos, error) {
	p := strings.Split(spec, ",")
	if len(p) != 4 {
		return nil, fmt.Errorf("bad window %q", spec)
	}
	v := make([]uint64, 4)
	for i := range p {
		x, e := strconv.ParseUint(p[i], 10, 64)
		if e != nil {
			return nil, e
		}
		v[i] = x
	}
	q := qos.NewAmqpQos(0, 0)
	if !q.Inc(uint16(v[1]), uint32(v[3])) { // no limits: always admitted
		return nil, fmt.Errorf("cannot preset window %q", spec)
	}
	q.Update(uint16(v[0]), uint32(v[2]))
	if got := wstate(q); got != spec {
		return nil, fmt.Errorf("preset window %q came out as %q", spec, got)
	}
	return q, nil
}

func wlist(ws []*qos.AmqpQos) string {
	p := make([]string, len(ws))
	for i, w := range ws {
		p[i] = wstate(w)
	}
	return strings.Join(p, ";")
}

// one attempt of the real PopQos on a fresh queue that holds one message of the given body size
func popAttempt(ws []*qos.AmqpQos, bodySize uint64) (bool, error) {
	qu := queue.NewQueue("q", 0, false, false, false, config.Queue{ShardSize: 8, MaxMessagesInRAM: 1000}, nil, nil, nil)
	if err := qu.Start(); err != nil {
		return false, err
	}
	defer qu.Stop()
	qu.Push(&amqp.Message{ID: 1, BodySize: bodySize})
	if qu.Length() != 1 {
		return false, fmt.Errorf("push did not queue the message")
	}
	m := qu.PopQos(ws)
	if m == nil {
		if qu.Length() != 1 {
			return false, fmt.Errorf("refused pop changed the queue length to %d", qu.Length())
		}
		return false, nil
	}
	if m.ID != 1 || qu.Length() != 0 {
		return false, fmt.Errorf("pop returned message %d, length %d", m.ID, qu.Length())
	}
	return true, nil
}

func runReserve(winit string, ops []string) (outs []string, err error) {
	var ws []*qos.AmqpQos
	if winit != "" {
		for _, spec := range strings.Split(winit, ";") {
			w, e := mkWindow(spec)
			if e != nil {
				return nil, e
			}
			ws = append(ws, w)
		}
	}
	for _, op := range ops {
		n, e := strconv.ParseUint(op[1:], 10, 64)
		if e != nil {
			return nil, e
		}
		b := "_"
		switch op[0] {
		case 'P':
			ok, e := popAttempt(ws, n)
			if e != nil {
				return nil, e
			}
			b = bs(ok)
		case 'S':
			for _, w := range ws {
				w.Dec(1, uint32(n))
			}
		default:
			return nil, fmt.Errorf("bad op %q", op)
		}
		outs = append(outs, b+":"+wlist(ws))
	}
	return outs, nil
}

func runCase(kind, init string, ops []string) (line string) {
	defer func() {
		if r := recover(); r != nil {
			line = fmt.Sprintf("%s|%s|%s|PANIC %s", kind, init, strings.Join(ops, " "), strings.ReplaceAll(fmt.Sprint(r), "\n", " "))
		}
	}()
	var outs []string
	var err error
	if kind == "W" {
		outs, err = runWindow(init, ops)
	} else {
		outs, err = runReserve(init, ops)
	}
	if err != nil {
		return fmt.Sprintf("%s|%s|%s|ERROR %s", kind, init, strings.Join(ops, " "), err)
	}
	return fmt.Sprintf("%s|%s|%s|%s", kind, init, strings.Join(ops, " "), strings.Join(outs, " "))
}

// ---- generators --------------------------------------------------------------

var countBoundary = []uint64{0, 1, 2, 3, 65534, 65535}
var sizeBoundary = []uint64{0, 1, 2, 100, 1 << 31, 4294967294, 4294967295}

func pickCount(r *hx.Rng) uint64 {
	switch r.Intn(10) {
	case 0, 1, 2:
		return countBoundary[r.Intn(len(countBoundary))]
	case 3:
		return uint64(r.Intn(65536))
	default:
		return uint64(r.Intn(6))
	}
}

func pickSize(r *hx.Rng) uint64 {
	switch r.Intn(10) {
	case 0, 1, 2:
		return sizeBoundary[r.Intn(len(sizeBoundary))]
	case 3:
		return r.Next() % (1 << 32)
	default:
		return uint64(r.Intn(40))
	}
}

// the limits of a window: mostly small so that they are reached, sometimes boundary values
func pickLimitC(r *hx.Rng) uint64 {
	switch r.Intn(8) {
	case 0:
		return 0
	case 1:
		return countBoundary[r.Intn(len(countBoundary))]
	default:
		return uint64(r.Intn(5))
	}
}

func pickLimitS(r *hx.Rng) uint64 {
	switch r.Intn(8) {
	case 0, 1:
		return 0
	case 2:
		return sizeBoundary[r.Intn(len(sizeBoundary))]
	default:
		return uint64(r.Intn(120))
	}
}

func genWindowCase(r *hx.Rng, n int) (string, []string) {
	init := fmt.Sprintf("%d,%d", pickLimitC(r), pickLimitS(r))
	ops := make([]string, 0, n)
	// mode 0: deliveries (count 1) and settlements as the broker does; mode 1: arbitrary arguments
	mode := r.Intn(3)
	var charged []uint64
	for i := 0; i < n; i++ {
		k := r.Intn(100)
		switch {
		case k < 45:
			if mode != 1 {
				s := pickSize(r)
				ops = append(ops, fmt.Sprintf("I1,%d", s))
				charged = append(charged, s)
			} else {
				ops = append(ops, fmt.Sprintf("I%d,%d", pickCount(r), pickSize(r)))
			}
		case k < 80:
			if mode != 1 && len(charged) > 0 && !r.Chance(1, 8) {
				j := r.Intn(len(charged))
				ops = append(ops, fmt.Sprintf("D1,%d", charged[j]))
				charged = append(charged[:j], charged[j+1:]...)
			} else {
				ops = append(ops, fmt.Sprintf("D%d,%d", pickCount(r), pickSize(r)))
			}
		case k < 88:
			ops = append(ops, fmt.Sprintf("U%d,%d", pickLimitC(r), pickLimitS(r)))
		case k < 92:
			ops = append(ops, "R")
			charged = nil
		case k < 95:
			ops = append(ops, "C")
		default:
			ops = append(ops, "A")
		}
	}
	return init, ops
}

func genReserveCase(r *hx.Rng, n int) (string, []string) {
	nw := r.Intn(4) // 0..3 windows (the broker uses 2)
	if r.Chance(2, 3) {
		nw = 2
	}
	ws := make([]string, nw)
	for i := range ws {
		pc, ps := pickLimitC(r), pickLimitS(r)
		var cc, cs uint64
		if r.Chance(1, 2) {
			cc, cs = uint64(r.Intn(4)), uint64(r.Intn(60))
		}
		if r.Chance(1, 12) {
			cc = countBoundary[r.Intn(len(countBoundary))]
		}
		if r.Chance(1, 12) {
			cs = sizeBoundary[r.Intn(len(sizeBoundary))]
		}
		ws[i] = fmt.Sprintf("%d,%d,%d,%d", pc, cc, ps, cs)
	}
	ops := make([]string, 0, n)
	var charged []uint64
	for i := 0; i < n; i++ {
		if r.Chance(3, 5) || len(charged) == 0 {
			s := pickSize(r)
			if r.Chance(1, 25) {
				s += 1 << 32 // a body of 4 GiB and more: uint32() truncates it
			}
			ops = append(ops, fmt.Sprintf("P%d", s))
			charged = append(charged, s)
		} else {
			j := r.Intn(len(charged))
			ops = append(ops, fmt.Sprintf("S%d", charged[j]))
			charged = append(charged[:j], charged[j+1:]...)
		}
	}
	return strings.Join(ws, ";"), ops
}

func cmdRun(args []string) error {
	fs := flag.NewFlagSet("run", flag.ExitOnError)
	seed := fs.Uint64("seed", 1, "seed")
	n := fs.Int("n", 2000, "cases (two thirds single-window op lists, one third PopQos window lists)")
	maxLen := fs.Int("len", 24, "max ops per case")
	fs.Parse(args)
	w := bufio.NewWriter(os.Stdout)
	defer w.Flush()
	r := hx.NewRng(*seed)
	for i := 0; i < *n; i++ {
		l := 1 + r.Intn(*maxLen)
		if i%3 == 2 {
			if l > 10 {
				l = 1 + l%10
			}
			init, ops := genReserveCase(r, l)
			fmt.Fprintln(w, runCase("R", init, ops))
		} else {
			init, ops := genWindowCase(r, l)
			fmt.Fprintln(w, runCase("W", init, ops))
		}
	}
	return nil
}

// concurrent -limit N -workers G -rounds M: G goroutines share ONE real window with prefetchCount N and each
// repeats { if Inc(1,1) { read the window; Dec(1,1) } }.  Between a successful Inc and its Dec the charge is
// outstanding, so the count read there must never exceed N.  Prints the largest count seen (search-only probe of
// the atomicity the model assumes; a sequential run cannot see a check-then-charge Inc).
func cmdConcurrent(args []string) error {
	fs := flag.NewFlagSet("concurrent", flag.ExitOnError)
	limit := fs.Int("limit", 1, "prefetchCount of the shared window")
	workers := fs.Int("workers", 8, "goroutines")
	rounds := fs.Int("rounds", 20000, "attempts per goroutine")
	fs.Parse(args)
	q := qos.NewAmqpQos(uint16(*limit), 0)
	var wg sync.WaitGroup
	var maxSeen, admitted uint64
	for g := 0; g < *workers; g++ {
		wg.Add(1)
		go func() {
			defer wg.Done()
			for i := 0; i < *rounds; i++ {
				if q.Inc(1, 1) {
					atomic.AddUint64(&admitted, 1)
					c := q.VerifState()[2]
					for {
						m := atomic.LoadUint64(&maxSeen)
						if c <= m || atomic.CompareAndSwapUint64(&maxSeen, m, c) {
							break
						}
					}
					runtime.Gosched()
					q.Dec(1, 1)
				}
			}
		}()
	}
	wg.Wait()
	fmt.Printf("concurrent limit=%d workers=%d rounds=%d admitted=%d max_count_seen=%d final=%s\n", *limit, *workers, *rounds, admitted, maxSeen, wstate(q))
	return nil
}

// replay 'W|pc,ps|ops'  or  replay 'R|w;w|ops'
func cmdReplay(args []string) error {
	if len(args) != 1 {
		return fmt.Errorf("usage: replay '<kind>|<init>|<ops>'")
	}
	p := strings.Split(args[0], "|")
	if len(p) < 3 || (p[0] != "W" && p[0] != "R") {
		return fmt.Errorf("bad case %q", args[0])
	}
	fmt.Println(runCase(p[0], p[1], strings.Fields(p[2])))
	return nil
}
