package main

import (
	"bytes"
	"encoding/hex"
	"fmt"
	"sort"
	"strconv"
	"strings"

	"github.com/valinurovam/garagemq/amqp"
	"github.com/valinurovam/garagemq/binding"
	"github.com/valinurovam/garagemq/config"
	"github.com/valinurovam/garagemq/exchange"
	"github.com/valinurovam/garagemq/queue"
	"github.com/valinurovam/garagemq/srvstorage"
)

const proto = amqp.ProtoRabbit

func hexs(s string) string { return hex.EncodeToString([]byte(s)) }

func unhex(s string) (string, bool) {
	b, err := hex.DecodeString(s)
	if err != nil {
		return "", false
	}
	return string(b), true
}

func b01(b bool) string {
	if b {
		return "1"
	}
	return "0"
}

func atoms(a []string) string {
	if len(a) == 0 {
		return "_"
	}
	return strings.Join(a, ",")
}

func errOut(err error) string {
	if err != nil {
		return "ERR"
	}
	return "_"
}

// bits parses a string of exactly n 0/1 digits.
func bits(s string, n int) ([]bool, bool) {
	if len(s) != n {
		return nil, false
	}
	out := make([]bool, n)
	for i := 0; i < n; i++ {
		switch s[i] {
		case '0':
		case '1':
			out[i] = true
		default:
			return nil, false
		}
	}
	return out, true
}

func argsTable(id int) (*amqp.Table, bool) {
	switch id {
	case 0:
		return &amqp.Table{}, true
	case 1:
		return &amqp.Table{"x-match": "any"}, true
	case 2:
		return &amqp.Table{"x-match": "all"}, true
	case 3:
		return &amqp.Table{"h": "v"}, true
	case 4:
		return &amqp.Table{"k": "w"}, true
	}
	return nil, false
}

// tableHex is the wire form of a table without its four byte length prefix.
func tableHex(t *amqp.Table) string {
	if t == nil {
		return ""
	}
	buf := bytes.NewBuffer(nil)
	if err := amqp.WriteTable(buf, t, proto); err != nil || buf.Len() < 4 {
		return ""
	}
	return hex.EncodeToString(buf.Bytes()[4:])
}

// bindingTopic reads the unexported topic flag: it is the last byte of Marshal.
func bindingTopic(b *binding.Binding) string {
	cp := *b
	if cp.Arguments == nil {
		cp.Arguments = &amqp.Table{}
	}
	data, err := cp.Marshal(proto)
	if err != nil || len(data) == 0 {
		return "0"
	}
	return strconv.Itoa(int(data[len(data)-1]))
}

var queueCfg = config.Queue{ShardSize: 16, MaxMessagesInRAM: 16}

// badInput is raised on an op token that does not parse; its output is BAD.
type badInput struct{}

type srvCase struct {
	eng engine
	st  *srvstorage.SrvStorage
}

// runSrvCase runs one case on a fresh state; it returns the op tokens as they
// are to be printed (AB carries its two computed fields) and one output per op.
func runSrvCase(kind string, dir string, ops []string) (toks []string, outs []string, err error) {
	eng, err := newEngine(kind, dir)
	if err != nil {
		return nil, nil, err
	}
	defer eng.destroy()
	c := &srvCase{eng: eng}
	c.st = srvstorage.NewSrvStorage(eng, proto)
	for _, op := range ops {
		tok, out := c.safeExec(op)
		toks = append(toks, tok)
		outs = append(outs, out)
	}
	return toks, outs, nil
}

func (c *srvCase) safeExec(op string) (tok string, out string) {
	tok = op
	if f := strings.Split(op, ":"); f[0] == "AB" && len(f) >= 7 {
		// the computed fields are printed whatever happens to the op itself
		tok = abToken(f)
	}
	defer func() {
		if r := recover(); r != nil {
			if _, bad := r.(badInput); bad {
				out = "BAD"
			} else {
				out = "PANIC"
			}
		}
	}()
	return tok, c.exec(op)
}

func abToken(f []string) string {
	argsid, _ := strconv.Atoi(f[5])
	tbl, ok := argsTable(argsid)
	if !ok {
		return strings.Join(f[:7], ":") + "::0"
	}
	anyFlag := "0"
	func() {
		defer func() { recover() }()
		q, _ := unhex(f[2])
		e, _ := unhex(f[3])
		k, _ := unhex(f[4])
		if b, err := binding.NewBinding(q, e, k, tbl, f[6] == "1"); err == nil && b.MatchType == binding.MatchAny {
			anyFlag = "1"
		}
	}()
	return strings.Join(f[:7], ":") + ":" + tableHex(tbl) + ":" + anyFlag
}

func (c *srvCase) exec(op string) string {
	f := strings.Split(op, ":")
	// decoded hex fields, by position
	h := func(i int) string {
		s, ok := unhex(f[i])
		if !ok {
			panic(badInput{})
		}
		return s
	}
	need := func(n int) bool { return len(f) == n }
	switch f[0] {
	case "AV":
		if !need(3) {
			return "BAD"
		}
		return errOut(c.st.AddVhost(h(1), f[2] == "1"))
	case "AE":
		if !need(5) {
			return "BAD"
		}
		typ, err := strconv.ParseUint(f[3], 10, 8)
		fl, ok := bits(f[4], 4)
		if err != nil || !ok {
			return "BAD"
		}
		ex := exchange.NewExchange(h(2), byte(typ), fl[0], fl[1], fl[2], fl[3])
		return errOut(c.st.AddExchange(h(1), ex))
	case "DE":
		if !need(3) {
			return "BAD"
		}
		ex := exchange.NewExchange(h(2), exchange.ExTypeDirect, true, false, false, false)
		return errOut(c.st.DelExchange(h(1), ex))
	case "AQ":
		if !need(5) {
			return "BAD"
		}
		conn, err := strconv.ParseUint(f[3], 10, 64)
		fl, ok := bits(f[4], 3)
		if err != nil || !ok {
			return "BAD"
		}
		q := queue.NewQueue(h(2), conn, fl[0], fl[1], fl[2], queueCfg, nil, nil, nil)
		return errOut(c.st.AddQueue(h(1), q))
	case "DQ":
		if !need(3) {
			return "BAD"
		}
		q := queue.NewQueue(h(2), 0, false, false, true, queueCfg, nil, nil, nil)
		return errOut(c.st.DelQueue(h(1), q))
	case "AB":
		if len(f) != 7 && len(f) != 9 {
			return "BAD"
		}
		argsid, err := strconv.Atoi(f[5])
		tbl, ok := argsTable(argsid)
		if err != nil || !ok {
			return "BAD"
		}
		b, err := binding.NewBinding(h(2), h(3), h(4), tbl, f[6] == "1")
		if err != nil {
			return "ERR"
		}
		return errOut(c.st.AddBinding(h(1), b))
	case "DB":
		if !need(5) {
			return "BAD"
		}
		b, err := binding.NewBinding(h(2), h(3), h(4), &amqp.Table{}, false)
		if err != nil {
			return "ERR"
		}
		return errOut(c.st.DelBinding(h(1), b))
	case "K":
		c.eng.restart()
		c.st = srvstorage.NewSrvStorage(c.eng, proto)
		return "_"
	case "GV":
		vh := c.st.GetVhosts()
		names := make([]string, 0, len(vh))
		for n := range vh {
			names = append(names, n)
		}
		sort.Strings(names)
		var a []string
		for _, n := range names {
			a = append(a, "v:"+hexs(n)+":"+b01(vh[n]))
		}
		return atoms(a)
	case "GQ":
		if !need(2) {
			return "BAD"
		}
		var a []string
		for _, q := range c.st.GetVhostQueues(h(1)) {
			a = append(a, fmt.Sprintf("q:%s:%s:%s:%s:%d", hexs(q.GetName()), b01(q.IsAutoDelete()), b01(q.IsDurable()), b01(q.IsExclusive()), q.ConnID()))
		}
		return atoms(a)
	case "GE":
		if !need(2) {
			return "BAD"
		}
		var a []string
		for _, e := range c.st.GetVhostExchanges(h(1)) {
			a = append(a, fmt.Sprintf("e:%s:%d:%s:%s:%s:%s", hexs(e.GetName()), e.ExType(), b01(e.IsDurable()), b01(e.IsAutoDelete()), b01(e.IsInternal()), b01(e.IsSystem())))
		}
		return atoms(a)
	case "GB":
		if !need(2) {
			return "BAD"
		}
		var a []string
		for _, b := range c.st.GetVhostBindings(h(1)) {
			a = append(a, fmt.Sprintf("b:%s:%s:%s:%s:%s:%s", hexs(b.Queue), hexs(b.Exchange), hexs(b.RoutingKey), tableHex(b.Arguments), bindingTopic(b), b01(b.MatchType == binding.MatchAny)))
		}
		return atoms(a)
	case "DUMP":
		var a []string
		c.eng.Iterate(func(k []byte, v []byte) {
			a = append(a, "kv:"+hex.EncodeToString(k)+":"+hex.EncodeToString(v))
		})
		return atoms(a)
	}
	return "BAD"
}
