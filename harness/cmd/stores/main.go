// Command stores is the differential-test harness of the two stores of the
// broker: it drives the real srvstorage.SrvStorage and msgstorage.MsgStorage
// over an in-memory engine (rec) or the real badger / buntdb wrappers and
// prints one canonical line per case.
//
//	stores srv-batch -engine E [-work DIR]          stdin: ops            -> engine|ops|outs
//	stores msg-batch -engine E [-work DIR]          stdin: confirm|ops    -> engine|confirm|ops|outs
//	stores srv-run   -engine E -seed N -n CASES -len L [-safe] [-work DIR]
//	stores msg-run   -engine E -seed N -n CASES -len L [-safe] [-iso] [-work DIR]
//
// Common: -chunk N (cases per child process; default 1 for badger, else 0 = in
// process), -v (keep the engines' log lines on stderr).
//
// The op and output grammar is described next to runSrvCase and runMsgCase.
package main

import (
	"bufio"
	"flag"
	"fmt"
	"os"
	"os/exec"
	"path/filepath"
	"strings"

	"gmqverif/harness/hx"

	"github.com/sasha-s/go-deadlock"
)

type opts struct {
	engine string
	work   string
	seed   uint64
	n      int
	length int
	safe   bool
	iso    bool
	chunk  int
}

func parseFlags(name string, args []string, run bool, msg bool) *opts {
	o := &opts{}
	fs := flag.NewFlagSet(name, flag.ExitOnError)
	fs.StringVar(&o.engine, "engine", "rec", "rec|badger|bunt")
	fs.StringVar(&o.work, "work", "", "scratch directory (required for badger and bunt)")
	fs.BoolVar(&verbose, "v", false, "keep the log lines of the engines on stderr")
	fs.IntVar(&o.chunk, "chunk", -1, "cases per child process, 0 = all in this process (default: 1 for badger, else 0)")
	if run {
		fs.Uint64Var(&o.seed, "seed", 1, "seed")
		fs.IntVar(&o.n, "n", 100, "number of cases")
		fs.IntVar(&o.length, "len", 20, "generated ops per case before the fixed suffix")
		fs.BoolVar(&o.safe, "safe", false, "names without separators, no ambiguous keys")
		if msg {
			fs.BoolVar(&o.iso, "iso", false, "observe the whole state after every op that is not a query")
		}
	}
	fs.Parse(args)
	if o.chunk < 0 {
		o.chunk = 0
		if o.engine == "badger" {
			o.chunk = 1
		}
	}
	return o
}

func (o *opts) check() error {
	switch o.engine {
	case "rec":
	case "badger", "bunt":
		if o.work == "" {
			return fmt.Errorf("-work DIR is required for engine %s", o.engine)
		}
		if err := os.MkdirAll(o.work, 0o755); err != nil {
			return err
		}
	default:
		return fmt.Errorf("unknown engine %q (rec|badger|bunt)", o.engine)
	}
	return nil
}

var caseSeq int

// caseDir names the scratch directory of the next case.
func (o *opts) caseDir() string {
	if o.engine == "rec" {
		return ""
	}
	caseSeq++
	return filepath.Join(o.work, fmt.Sprintf("c%d-%d", os.Getpid(), caseSeq))
}

// runner turns input lines ("ops" for srv, "confirm|ops" for msg, or whole
// output lines) into output lines, in process or through child processes.
//
// badger keeps tens of megabytes per opened database reachable from the
// garbage-collection goroutine that storage.NewBadger starts and never stops,
// so a process must not open thousands of them: with -chunk N > 0 every N
// cases run in a child process (same binary, *-batch -chunk 0).
type runner struct {
	o       *opts
	msg     bool
	w       *bufio.Writer
	pending []string
}

func (r *runner) feed(line string) error {
	if r.o.chunk <= 0 {
		return r.runLine(line)
	}
	r.pending = append(r.pending, line)
	if len(r.pending) >= r.o.chunk {
		return r.flush()
	}
	return nil
}

func (r *runner) flush() error {
	if len(r.pending) == 0 {
		return nil
	}
	lines := r.pending
	r.pending = nil
	exe, err := os.Executable()
	if err != nil {
		return err
	}
	sub := "srv-batch"
	if r.msg {
		sub = "msg-batch"
	}
	args := []string{sub, "-engine", r.o.engine, "-work", r.o.work, "-chunk", "0"}
	if verbose {
		args = append(args, "-v")
	}
	cmd := exec.Command(exe, args...)
	cmd.Stdin = strings.NewReader(strings.Join(lines, "\n") + "\n")
	cmd.Stderr = os.Stderr
	out, err := cmd.Output()
	if err != nil {
		return fmt.Errorf("child %s: %v", sub, err)
	}
	if n := strings.Count(string(out), "\n"); n != len(lines) {
		return fmt.Errorf("child %s: %d lines for %d cases", sub, n, len(lines))
	}
	_, err = r.w.Write(out)
	return err
}

func (r *runner) runLine(line string) error {
	f := strings.Split(line, "|")
	if r.msg {
		// "confirm|ops", or a whole output line "engine|confirm|ops|outs"
		confirm, ops := "0", f[0]
		switch {
		case len(f) >= 4:
			confirm, ops = f[1], f[2]
		case len(f) >= 2:
			confirm, ops = f[0], f[1]
		}
		opl := strings.Fields(ops)
		outs, err := runMsgCase(r.o.engine, r.o.caseDir(), strings.TrimSpace(confirm) == "1", opl)
		if err != nil {
			return err
		}
		fmt.Fprintln(r.w, r.o.engine+"|"+b01(strings.TrimSpace(confirm) == "1")+"|"+joinOps(opl)+"|"+joinOps(outs))
		return nil
	}
	// "ops", or a whole output line "engine|ops|outs"
	ops := f[0]
	if len(f) >= 3 {
		ops = f[1]
	}
	toks, outs, err := runSrvCase(r.o.engine, r.o.caseDir(), strings.Fields(ops))
	if err != nil {
		return err
	}
	fmt.Fprintln(r.w, r.o.engine+"|"+joinOps(toks)+"|"+joinOps(outs))
	return nil
}

func cmdBatch(name string, msg bool, args []string, w *bufio.Writer) error {
	o := parseFlags(name, args, false, msg)
	if err := o.check(); err != nil {
		return err
	}
	r := &runner{o: o, msg: msg, w: w}
	sc := bufio.NewScanner(os.Stdin)
	sc.Buffer(make([]byte, 1<<20), 1<<26)
	for sc.Scan() {
		line := strings.TrimRight(sc.Text(), "\r\n")
		if strings.TrimSpace(line) == "" {
			continue
		}
		if err := r.feed(line); err != nil {
			return err
		}
	}
	if err := sc.Err(); err != nil {
		return err
	}
	return r.flush()
}

func cmdRun(name string, msg bool, args []string, w *bufio.Writer) error {
	o := parseFlags(name, args, true, msg)
	if err := o.check(); err != nil {
		return err
	}
	r := &runner{o: o, msg: msg, w: w}
	rng := hx.NewRng(o.seed)
	for i := 0; i < o.n; i++ {
		var line string
		if msg {
			confirm, ops := genMsgCase(rng, o.engine, o.safe, o.iso, o.length)
			line = b01(confirm) + "|" + joinOps(ops)
		} else {
			line = joinOps(genSrvCase(rng, o.engine, o.safe, o.length))
		}
		if err := r.feed(line); err != nil {
			return err
		}
	}
	return r.flush()
}

func main() {
	deadlock.Opts.Disable = true
	if len(os.Args) < 2 {
		fmt.Fprintln(os.Stderr, "usage: stores srv-batch|msg-batch|srv-run|msg-run ...")
		os.Exit(2)
	}
	w := bufio.NewWriter(os.Stdout)
	var err error
	switch os.Args[1] {
	case "srv-batch", "msg-batch":
		err = cmdBatch(os.Args[1], os.Args[1] == "msg-batch", os.Args[2:], w)
	case "srv-run", "msg-run":
		err = cmdRun(os.Args[1], os.Args[1] == "msg-run", os.Args[2:], w)
	default:
		err = fmt.Errorf("unknown sub-command %s", os.Args[1])
	}
	w.Flush()
	if err != nil {
		fmt.Fprintln(os.Stderr, "error:", err)
		os.Exit(2)
	}
}
