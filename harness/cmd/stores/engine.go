package main

import (
	"bytes"
	"errors"
	"fmt"
	"os"
	"sort"
	"syscall"

	"github.com/valinurovam/garagemq/interfaces"
	"github.com/valinurovam/garagemq/storage"
)

// hooks is what every engine of the harness adds on top of interfaces.DbStorage:
// two callbacks around the application of a batch, the last batch that entered
// ProcessBatch and the last value IterateByPrefix returned.
type hooks struct {
	beforeApply func()
	afterApply  func()
	lastBatch   []interfaces.Operation
	haveBatch   bool
	lastPrefix  uint64
}

func (h *hooks) record(batch []*interfaces.Operation) {
	h.lastBatch = make([]interfaces.Operation, 0, len(batch))
	for _, op := range batch {
		cp := *op
		cp.Value = append([]byte(nil), op.Value...)
		h.lastBatch = append(h.lastBatch, cp)
	}
	h.haveBatch = true
}

func (h *hooks) clear() {
	h.beforeApply = nil
	h.afterApply = nil
	h.lastBatch = nil
	h.haveBatch = false
}

type engine interface {
	interfaces.DbStorage
	hk() *hooks
	// restart models a process restart: real engines are closed and reopened on
	// the same directory, the in-memory one keeps its map.
	restart()
	// reopen opens the engine again after the code under test has closed it (MsgStorage.Close).
	reopen()
	// destroy closes the engine and removes its directory.
	destroy()
}

func newEngine(kind string, dir string) (engine, error) {
	switch kind {
	case "rec":
		return &recEngine{vals: map[string][]byte{}}, nil
	case "badger", "bunt":
		if dir == "" {
			return nil, errors.New("-work DIR is required for engine " + kind)
		}
		if err := os.MkdirAll(dir, 0o755); err != nil {
			return nil, err
		}
		e := &fwdEngine{kind: kind, dir: dir}
		e.open()
		return e, nil
	}
	return nil, fmt.Errorf("unknown engine %q (rec|badger|bunt)", kind)
}

// ---------------------------------------------------------------------------
// rec: ordered in-memory map with the semantics of the badger wrapper.
// Single threaded by construction, so there is no mutex that a callback could
// run under; iterations work on a snapshot like a badger read transaction.

type recEngine struct {
	h    hooks
	keys []string // sorted, byte-wise
	vals map[string][]byte
}

type kv struct {
	k string
	v []byte
}

func (e *recEngine) hk() *hooks { return &e.h }
func (e *recEngine) restart()   {}
func (e *recEngine) reopen()    {}
func (e *recEngine) destroy()   {}

func (e *recEngine) Close() error { return nil }

func (e *recEngine) set(key string, value []byte) {
	if _, ok := e.vals[key]; !ok {
		i := sort.SearchStrings(e.keys, key)
		e.keys = append(e.keys, "")
		copy(e.keys[i+1:], e.keys[i:])
		e.keys[i] = key
	}
	e.vals[key] = append([]byte(nil), value...)
}

func (e *recEngine) del(key string) {
	if _, ok := e.vals[key]; !ok {
		return
	}
	i := sort.SearchStrings(e.keys, key)
	e.keys = append(e.keys[:i], e.keys[i+1:]...)
	delete(e.vals, key)
}

func (e *recEngine) Set(key string, value []byte) error {
	e.set(key, value)
	return nil
}

func (e *recEngine) Del(key string) error {
	e.del(key)
	return nil
}

func (e *recEngine) Get(key string) ([]byte, error) {
	v, ok := e.vals[key]
	if !ok {
		return nil, errors.New("Key not found")
	}
	return append([]byte(nil), v...), nil
}

// scan returns the snapshot of the pairs with key >= from that carry prefix,
// cut at limit when limit > 0.
func (e *recEngine) scan(prefix []byte, from []byte, limit uint64) []kv {
	var out []kv
	for i := sort.SearchStrings(e.keys, string(from)); i < len(e.keys); i++ {
		k := e.keys[i]
		if !bytes.HasPrefix([]byte(k), prefix) {
			break
		}
		if limit > 0 && uint64(len(out)) >= limit {
			break
		}
		out = append(out, kv{k, append([]byte(nil), e.vals[k]...)})
	}
	return out
}

func (e *recEngine) Iterate(fn func(key []byte, value []byte)) {
	for _, p := range e.scan(nil, nil, 0) {
		fn([]byte(p.k), p.v)
	}
}

func (e *recEngine) IterateByPrefix(prefix []byte, limit uint64, fn func(key []byte, value []byte)) uint64 {
	ps := e.scan(prefix, prefix, limit)
	for _, p := range ps {
		fn([]byte(p.k), p.v)
	}
	e.h.lastPrefix = uint64(len(ps))
	return uint64(len(ps))
}

func (e *recEngine) IterateByPrefixFrom(prefix []byte, from []byte, limit uint64, fn func(key []byte, value []byte)) uint64 {
	ps := e.scan(prefix, from, limit)
	for _, p := range ps {
		fn([]byte(p.k), p.v)
	}
	return uint64(len(ps))
}

func (e *recEngine) DeleteByPrefix(prefix []byte) {
	for _, p := range e.scan(prefix, prefix, 0) {
		e.del(p.k)
	}
}

func (e *recEngine) KeysByPrefixCount(prefix []byte) uint64 {
	return uint64(len(e.scan(prefix, prefix, 0)))
}

func (e *recEngine) ProcessBatch(batch []*interfaces.Operation) error {
	e.h.record(batch)
	if e.h.beforeApply != nil {
		e.h.beforeApply()
	}
	// no operation can fail, so applying in order is atomic
	for _, op := range batch {
		switch op.Op {
		case interfaces.OpSet:
			e.set(op.Key, op.Value)
		case interfaces.OpDel:
			e.del(op.Key)
		}
	}
	if e.h.afterApply != nil {
		e.h.afterApply()
	}
	return nil
}

// ---------------------------------------------------------------------------
// badger / bunt: the real wrappers of /repo/storage behind a forwarding layer.

type fwdEngine struct {
	h     hooks
	kind  string
	dir   string
	inner interfaces.DbStorage
}

func (e *fwdEngine) hk() *hooks { return &e.h }

func (e *fwdEngine) open() {
	quiet(func() {
		if e.kind == "badger" {
			e.inner = storage.NewBadger(e.dir)
		} else {
			e.inner = storage.NewBuntDB(e.dir)
		}
	})
}

func (e *fwdEngine) Close() error {
	var err error
	quiet(func() { err = e.inner.Close() })
	return err
}

func (e *fwdEngine) restart() {
	if err := e.Close(); err != nil {
		panic(fmt.Sprintf("harness: closing %s engine: %v", e.kind, err))
	}
	e.open()
}

func (e *fwdEngine) reopen() { e.open() }

func (e *fwdEngine) destroy() {
	e.Close()
	os.RemoveAll(e.dir)
}

func (e *fwdEngine) Set(key string, value []byte) error { return e.inner.Set(key, value) }
func (e *fwdEngine) Del(key string) error               { return e.inner.Del(key) }
func (e *fwdEngine) Get(key string) ([]byte, error)     { return e.inner.Get(key) }

func (e *fwdEngine) Iterate(fn func(key []byte, value []byte)) { e.inner.Iterate(fn) }

func (e *fwdEngine) IterateByPrefix(prefix []byte, limit uint64, fn func(key []byte, value []byte)) uint64 {
	n := e.inner.IterateByPrefix(prefix, limit, fn)
	e.h.lastPrefix = n
	return n
}

func (e *fwdEngine) IterateByPrefixFrom(prefix []byte, from []byte, limit uint64, fn func(key []byte, value []byte)) uint64 {
	return e.inner.IterateByPrefixFrom(prefix, from, limit, fn)
}

func (e *fwdEngine) DeleteByPrefix(prefix []byte) { e.inner.DeleteByPrefix(prefix) }

func (e *fwdEngine) KeysByPrefixCount(prefix []byte) uint64 { return e.inner.KeysByPrefixCount(prefix) }

func (e *fwdEngine) ProcessBatch(batch []*interfaces.Operation) error {
	e.h.record(batch)
	if e.h.beforeApply != nil {
		e.h.beforeApply()
	}
	if err := e.inner.ProcessBatch(batch); err != nil {
		return err
	}
	if e.h.afterApply != nil {
		e.h.afterApply()
	}
	return nil
}

// ---------------------------------------------------------------------------

var verbose bool

// quiet runs fn with file descriptor 2 pointing at /dev/null: badger reports
// every open and close on a private logger bound to os.Stderr. The descriptor
// is restored before a panic of fn travels on.
func quiet(fn func()) {
	if verbose {
		fn()
		return
	}
	null, err := os.OpenFile(os.DevNull, os.O_WRONLY, 0)
	if err != nil {
		fn()
		return
	}
	defer null.Close()
	saved, err := syscall.Dup(2)
	if err != nil {
		fn()
		return
	}
	if err := syscall.Dup3(int(null.Fd()), 2, 0); err != nil {
		syscall.Close(saved)
		fn()
		return
	}
	defer func() {
		syscall.Dup3(saved, 2, 0)
		syscall.Close(saved)
	}()
	fn()
}
