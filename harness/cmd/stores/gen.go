package main

import (
	"sort"
	"strconv"
	"strings"

	"gmqverif/harness/hx"
)

var hostilePool = []string{"", "a", "b", "a.b", "a.b.c", "a_b", "b_c", "a/b", "/", ".", "_", "a.", ".a", "ab", "q1", "a.1", "a.0", "1", "b.c", "a_b_c"}

var safePool = []string{"a", "b", "ab", "q1", "/", "x-y", "Q"}

// names that are prefixes or separator-variants of one another
var hostileGroups = [][]string{
	{"a", "a.b", "a.b.c"},
	{"a", "a_b", "a_b_c"},
	{"a", "a.", "a.b"},
	{"b", "b.c", "b_c"},
	{"a", "a.0", "a.1"},
	{"", ".", ".a"},
	{"a", "ab", "a.b"},
	{"a", "a/b", "/"},
	{"a_b", "b_c", "_"},
	{"a.b", "b.c", "a.b.c"},
	{"1", "a.1", "q1"},
}

// names of which one is a plain string prefix of the other, with NO separator in between: outside the
// dotted-prefix trigger (F21), so the store must keep them apart (scan prefix msg.<q>. with its trailing dot)
var plainPrefixGroups = [][]string{
	{"a", "ab"},
	{"jobs", "jobs2"},
	{"q1", "q12"},
	{"b", "b0"},
	{"x-y", "x-y-z"},
}

func pick(r *hx.Rng, a []string) string { return a[r.Intn(len(a))] }

// caseNames picks the 2..4 distinct names of one case.
func caseNames(r *hx.Rng, safe bool) []string {
	n := 2 + r.Intn(3)
	var out []string
	seen := map[string]bool{}
	add := func(s string) {
		if !seen[s] && len(out) < n {
			seen[s] = true
			out = append(out, s)
		}
	}
	pool := hostilePool
	if r.Chance(1, 3) {
		// both modes: a pair that differs by a plain suffix
		g := plainPrefixGroups[r.Intn(len(plainPrefixGroups))]
		add(g[0])
		add(g[1])
	}
	if safe {
		pool = safePool
	} else if r.Chance(3, 4) {
		g := hostileGroups[r.Intn(len(hostileGroups))]
		start := r.Intn(len(g))
		take := 2 + r.Intn(2)
		for i := 0; i < take; i++ {
			add(g[(start+i)%len(g)])
		}
	}
	for len(out) < n {
		add(pick(r, pool))
	}
	return out
}

// weighted draws an index with probability proportional to w[i].
func weighted(r *hx.Rng, w []int) int {
	sum := 0
	for _, x := range w {
		sum += x
	}
	k := r.Intn(sum)
	for i, x := range w {
		if k < x {
			return i
		}
		k -= x
	}
	return len(w) - 1
}

// ---------------------------------------------------------------------------
// srv

func genSrvCase(r *hx.Rng, engineKind string, safe bool, length int) []string {
	names := caseNames(r, safe)
	var ops []string
	var vhosts []string
	usedVhost := map[string]bool{}
	vhost := func() string {
		var v string
		if safe {
			v = "/"
			if r.Chance(1, 5) {
				v = pick(r, names)
			}
		} else {
			v = pick(r, names)
		}
		if !usedVhost[v] {
			usedVhost[v] = true
			vhosts = append(vhosts, v)
		}
		return v
	}
	// shadow of what was stored, only to aim the deletions; exact in safe mode
	type ent struct{ v, a, b, c string }
	var exs, qus, bds []ent
	remove := func(l []ent, e ent) []ent {
		out := l[:0]
		for _, x := range l {
			if x != e {
				out = append(out, x)
			}
		}
		return out
	}
	has := func(l []ent, e ent) bool {
		for _, x := range l {
			if x == e {
				return true
			}
		}
		return false
	}
	// bunt answers the deletion of an absent key with an error: the safe
	// generator never provokes it there
	strict := safe && engineKind == "bunt"
	bit := func() string { return strconv.Itoa(r.Intn(2)) }
	for len(ops) < length {
		switch weighted(r, []int{8, 15, 7, 15, 7, 18, 8, 6, 16}) {
		case 0:
			sys := "0"
			if r.Chance(1, 3) {
				sys = "1"
			}
			ops = append(ops, "AV:"+hexs(vhost())+":"+sys)
		case 1:
			e := ent{v: vhost(), a: pick(r, names)}
			typ, flags := 1+r.Intn(4), "1000"
			if !safe {
				flags = bit() + bit() + bit() + bit()
				if r.Chance(1, 8) {
					typ = []int{0, 5, 200}[r.Intn(3)]
				}
			}
			ops = append(ops, "AE:"+hexs(e.v)+":"+hexs(e.a)+":"+strconv.Itoa(typ)+":"+flags)
			if !has(exs, e) {
				exs = append(exs, e)
			}
		case 2:
			e := ent{v: vhost(), a: pick(r, names)}
			if len(exs) > 0 && (strict || r.Chance(4, 5)) {
				e = exs[r.Intn(len(exs))]
			} else if strict {
				ops = append(ops, "GE:"+hexs(e.v))
				continue
			}
			ops = append(ops, "DE:"+hexs(e.v)+":"+hexs(e.a))
			exs = remove(exs, e)
		case 3:
			e := ent{v: vhost(), a: pick(r, names)}
			conn, flags := "0", "001"
			if !safe {
				flags = bit() + bit() + bit()
				conn = []string{"0", "1", "2", "7", "18446744073709551615"}[r.Intn(5)]
			}
			ops = append(ops, "AQ:"+hexs(e.v)+":"+hexs(e.a)+":"+conn+":"+flags)
			if !has(qus, e) {
				qus = append(qus, e)
			}
		case 4:
			e := ent{v: vhost(), a: pick(r, names)}
			if len(qus) > 0 && (strict || r.Chance(4, 5)) {
				e = qus[r.Intn(len(qus))]
			} else if strict {
				ops = append(ops, "GQ:"+hexs(e.v))
				continue
			}
			ops = append(ops, "DQ:"+hexs(e.v)+":"+hexs(e.a))
			qus = remove(qus, e)
		case 5:
			e := ent{v: vhost(), a: pick(r, names), b: pick(r, names), c: pick(r, names)}
			argsid, topic := r.Intn(5), r.Intn(2)
			if safe {
				sum := 0
				for _, ch := range []byte(e.a + e.b + e.c) {
					sum += int(ch)
				}
				argsid = []int{0, 2, 3}[sum%3]
				topic = sum % 2
			}
			ops = append(ops, "AB:"+hexs(e.v)+":"+hexs(e.a)+":"+hexs(e.b)+":"+hexs(e.c)+":"+strconv.Itoa(argsid)+":"+strconv.Itoa(topic))
			if !has(bds, e) {
				bds = append(bds, e)
			}
		case 6:
			e := ent{v: vhost(), a: pick(r, names), b: pick(r, names), c: pick(r, names)}
			if len(bds) > 0 && (strict || r.Chance(4, 5)) {
				e = bds[r.Intn(len(bds))]
			} else if strict {
				ops = append(ops, "GB:"+hexs(e.v))
				continue
			}
			ops = append(ops, "DB:"+hexs(e.v)+":"+hexs(e.a)+":"+hexs(e.b)+":"+hexs(e.c))
			bds = remove(bds, e)
		case 7:
			ops = append(ops, "K")
		default:
			switch r.Intn(5) {
			case 0:
				ops = append(ops, "GV")
			case 1:
				ops = append(ops, "GQ:"+hexs(vhost()))
			case 2:
				ops = append(ops, "GE:"+hexs(vhost()))
			case 3:
				ops = append(ops, "GB:"+hexs(vhost()))
			default:
				ops = append(ops, "DUMP")
			}
		}
	}
	if len(vhosts) == 0 {
		vhost()
	}
	ops = append(ops, "GV")
	for _, v := range vhosts {
		ops = append(ops, "GQ:"+hexs(v), "GE:"+hexs(v), "GB:"+hexs(v))
	}
	return append(ops, "DUMP")
}

// ---------------------------------------------------------------------------
// msg

var hostileIDs = []uint64{5, 9, 10, 99, 100, 1000,
	1700000000000000001, 1700000000000000002, 1700000000000000003,
	1700000000000000004, 1700000000000000005, 1700000000000000006,
	1700000000000000007, 1700000000000000008, 1700000000000000009,
	18446744073709551615}

type mkey struct {
	id uint64
	q  string
}

type keySet map[mkey]bool

func (s keySet) sorted() []mkey {
	out := make([]mkey, 0, len(s))
	for k := range s {
		out = append(out, k)
	}
	sort.Slice(out, func(i, j int) bool {
		if out[i].q != out[j].q {
			return out[i].q < out[j].q
		}
		return out[i].id < out[j].id
	})
	return out
}

type msgGen struct {
	r      *hx.Rng
	engine string
	safe   bool
	iso    bool
	names  []string
	ops    []string
	count  int // ops emitted, the -iso appendix not counted
	ids    []uint64
	nextID uint64
	added  []mkey
	// shadow of the engine and of the three pending queues
	eng        keySet
	pA, pU, pD keySet
}

func isMsgQuery(op string) bool {
	switch opName(op) {
	case "F", "I", "L", "R", "DUMP", "PEND":
		return true
	}
	return false
}

func (g *msgGen) emit(op string) {
	g.ops = append(g.ops, op)
	g.count++
	if g.iso && !isMsgQuery(op) {
		g.ops = append(g.ops, "DUMP", "PEND")
		for _, n := range g.names {
			g.ops = append(g.ops, "F:"+hexs(n)+":0:0")
		}
	}
}

func (g *msgGen) resetPending() { g.pA, g.pU, g.pD = keySet{}, keySet{}, keySet{} }

// flush mirrors persist: what the batch built from the three queues does.
func (g *msgGen) flush(a, u, d keySet) {
	for k := range d {
		if a[k] {
			delete(a, k)
			delete(d, k)
		}
		delete(u, k)
	}
	for k := range a {
		g.eng[k] = true
	}
	for k := range u {
		g.eng[k] = true
	}
	for k := range d {
		delete(g.eng, k)
	}
}

func (g *msgGen) ctag() string {
	if g.r.Chance(1, 2) {
		return "-"
	}
	return strconv.Itoa(1 + g.r.Intn(9))
}

func (g *msgGen) data() string { return strconv.Itoa(len(g.ops) + 1) }

func (g *msgGen) tok(name string, k mkey) string {
	return name + ":" + strconv.FormatUint(k.id, 10) + ":" + g.data() + ":" + g.ctag() + ":" + hexs(k.q)
}

func (g *msgGen) freshKey() mkey {
	q := pick(g.r, g.names)
	if g.safe {
		id := g.nextID
		if id > 999 {
			id = 999
		}
		g.nextID += uint64(1 + g.r.Intn(3))
		return mkey{id, q}
	}
	return mkey{g.ids[g.r.Intn(len(g.ids))], q}
}

func (g *msgGen) oldKey() (mkey, bool) {
	if len(g.added) == 0 {
		return mkey{}, false
	}
	return g.added[g.r.Intn(len(g.added))], true
}

func (g *msgGen) opA() {
	k := g.freshKey()
	g.emit(g.tok("A", k))
	g.added = append(g.added, k)
	g.pA[k] = true
}

func (g *msgGen) opU() {
	k, ok := g.oldKey()
	if !ok || g.r.Chance(1, 6) {
		k = g.freshKey()
	}
	g.emit(g.tok("U", k))
	g.pU[k] = true
}

func (g *msgGen) opD() {
	if g.safe && g.engine == "bunt" {
		// only a key that is in the engine, has no deletion pending and was
		// not added again in this flush window
		var cand []mkey
		for _, k := range g.eng.sorted() {
			if !g.pD[k] && !g.pA[k] {
				cand = append(cand, k)
			}
		}
		if len(cand) == 0 {
			g.opQuery()
			return
		}
		k := cand[g.r.Intn(len(cand))]
		g.emit(g.tok("D", k))
		g.pD[k] = true
		return
	}
	k, ok := g.oldKey()
	if !ok || g.r.Chance(1, 6) {
		k = g.freshKey()
	}
	g.emit(g.tok("D", k))
	g.pD[k] = true
}

func (g *msgGen) opP() {
	q := pick(g.r, g.names)
	if g.safe && g.r.Chance(1, 2) {
		g.opT()
	}
	g.emit("P:" + hexs(q))
	// PurgeQueue cancels the queue's pending adds and drops its pending updates
	for k := range g.pA {
		if k.q == q {
			delete(g.pA, k)
		}
	}
	for k := range g.pU {
		if k.q == q {
			delete(g.pU, k)
		}
	}
	if g.engine != "bunt" { // the bunt wrapper does not delete anything
		for k := range g.eng {
			if k.q == q {
				delete(g.eng, k)
			}
		}
	}
}

func (g *msgGen) opT() {
	g.emit("T")
	g.flush(g.pA, g.pU, g.pD)
	g.resetPending()
}

// opX is a graceful stop (Close persists once more) followed by a restart.
func (g *msgGen) opX() {
	g.emit("X")
	g.flush(g.pA, g.pU, g.pD)
	g.resetPending()
}

func (g *msgGen) opK() {
	g.emit("K")
	g.resetPending()
}

func (g *msgGen) opQuery() {
	q := hexs(pick(g.r, g.names))
	switch g.r.Intn(4) {
	case 0:
		id := uint64(0)
		if !g.r.Chance(1, 4) {
			if k, ok := g.oldKey(); ok {
				id = k.id
			} else if !g.safe {
				id = g.ids[g.r.Intn(len(g.ids))]
			}
		}
		g.emit("F:" + q + ":" + strconv.FormatUint(id, 10) + ":" + strconv.Itoa(g.r.Intn(4)))
	case 1:
		g.emit("L:" + q)
	case 2:
		g.emit("R:" + q + ":" + strconv.Itoa(g.r.Intn(5)))
	default:
		g.emit("I:" + q + ":" + strconv.Itoa(g.r.Intn(4)))
	}
}

// intruder is one op running inside a window of a split persist.
func (g *msgGen) intruder() {
	if g.safe {
		switch g.r.Intn(6) {
		case 0, 1, 2:
			g.opA()
		case 3:
			g.emit("DUMP")
		case 4:
			g.emit("PEND")
		default:
			g.opQuery()
		}
		return
	}
	switch weighted(g.r, []int{30, 12, 18, 8, 20, 6, 6}) {
	case 0:
		g.opA()
	case 1:
		g.opU()
	case 2:
		g.opD()
	case 3:
		g.opP()
	case 4:
		g.opQuery()
	case 5:
		g.emit("DUMP")
	default:
		g.emit("PEND")
	}
}

func (g *msgGen) opSplit() {
	g.emit("S")
	fa, fu, fd := g.pA, g.pU, g.pD
	g.resetPending()
	for n := g.r.Intn(3); n > 0; n-- {
		g.intruder()
	}
	if g.r.Chance(1, 5) {
		g.opK() // dies before the batch is written
		return
	}
	g.emit("B")
	g.flush(fa, fu, fd)
	for n := g.r.Intn(3); n > 0; n-- {
		g.intruder()
	}
	if g.r.Chance(1, 5) {
		g.opK() // dies after the batch, before the relays
		return
	}
	g.emit("C")
}

func genMsgCase(r *hx.Rng, engineKind string, safe bool, iso bool, length int) (confirm bool, ops []string) {
	g := &msgGen{r: r, engine: engineKind, safe: safe, iso: iso, eng: keySet{}}
	g.resetPending()
	g.names = caseNames(r, safe)
	confirm = !r.Chance(1, 4)
	if safe {
		g.nextID = uint64(100 + r.Intn(50))
	} else {
		// a handful of ids per case so that keys collide
		n := 3 + r.Intn(4)
		for i := 0; i < n; i++ {
			g.ids = append(g.ids, hostileIDs[r.Intn(len(hostileIDs))])
		}
	}
	for g.count < length {
		switch weighted(r, []int{30, 8, 15, 6, 12, 6, 5, 19, 3}) {
		case 0:
			g.opA()
		case 1:
			g.opU()
		case 2:
			g.opD()
		case 3:
			g.opP()
		case 4:
			g.opT()
		case 5:
			g.opSplit()
		case 6:
			g.opK()
		case 8:
			g.opX()
		default:
			g.opQuery()
		}
	}
	// fixed suffix: flush, show everything (listing, length, iteration from a stored id), restart, show again,
	// then purge the first queue and show every queue again, before and after one more restart
	g.ops = append(g.ops, "T", "DUMP", "PEND")
	g.flush(g.pA, g.pU, g.pD)
	g.resetPending()
	for _, n := range g.names {
		g.ops = append(g.ops, "R:"+hexs(n)+":0", "L:"+hexs(n))
		for k := range g.eng {
			if k.q == n && g.engine != "bunt" {
				// the smallest stored id of the queue, for a deterministic op list
				min := k.id
				for k2 := range g.eng {
					if k2.q == n && k2.id < min {
						min = k2.id
					}
				}
				g.ops = append(g.ops, "F:"+hexs(n)+":"+strconv.FormatUint(min, 10)+":0")
				break
			}
		}
	}
	g.ops = append(g.ops, "K", "DUMP")
	for _, n := range g.names {
		g.ops = append(g.ops, "R:"+hexs(n)+":0")
	}
	g.ops = append(g.ops, "PEND")
	for _, n := range g.names {
		g.ops = append(g.ops, "F:"+hexs(n)+":0:0")
	}
	g.ops = append(g.ops, "P:"+hexs(g.names[0]), "DUMP", "PEND")
	for _, n := range g.names {
		g.ops = append(g.ops, "F:"+hexs(n)+":0:0", "L:"+hexs(n))
	}
	g.ops = append(g.ops, "K", "DUMP")
	for _, n := range g.names {
		g.ops = append(g.ops, "R:"+hexs(n)+":0")
	}
	return confirm, g.ops
}

func joinOps(ops []string) string { return strings.Join(ops, " ") }
