package main

import (
	"encoding/binary"
	"encoding/hex"
	"reflect"
	"sort"
	"strconv"
	"strings"
	"unsafe"

	"github.com/valinurovam/garagemq/amqp"
	"github.com/valinurovam/garagemq/interfaces"
	"github.com/valinurovam/garagemq/msgstorage"
)

// killNow is the private panic value that unwinds a persist whose process is
// killed inside one of its two unlocked windows.
type killNow struct{}

type msgCase struct {
	eng     engine
	confirm bool
	st      *msgstorage.MsgStorage
	ch      chan *amqp.Message
	ptrKey  map[*amqp.Message]string
	ops     []string
	outs    []string
	pos     int
}

func runMsgCase(kind string, dir string, confirm bool, ops []string) (outs []string, err error) {
	eng, err := newEngine(kind, dir)
	if err != nil {
		return nil, err
	}
	defer eng.destroy()
	c := &msgCase{eng: eng, confirm: confirm, ops: ops, outs: make([]string, len(ops))}
	c.build()
	for c.pos < len(c.ops) {
		i := c.pos
		switch opName(c.ops[i]) {
		case "S":
			c.split()
		case "T":
			c.pos++
			c.outs[i] = c.whole()
		case "K":
			c.pos++
			c.kill()
			c.outs[i] = "_"
		case "X":
			c.pos++
			c.outs[i] = c.graceful()
		case "B", "C":
			// terminator without a running split persist
			c.pos++
			c.outs[i] = "_"
		default:
			c.pos++
			out, died := c.safeSimple(c.ops[i])
			c.outs[i] = out
			if died {
				c.kill()
			}
		}
	}
	return c.outs, nil
}

func opName(op string) string {
	if i := strings.IndexByte(op, ':'); i >= 0 {
		return op[:i]
	}
	return op
}

func (c *msgCase) build() {
	c.eng.hk().clear()
	c.st = msgstorage.VerifNewMsgStorage(c.eng, proto)
	c.ch = nil
	if c.confirm {
		c.ch = c.st.ReceiveConfirms()
	}
	c.ptrKey = map[*amqp.Message]string{}
}

// kill drops the storage object without persisting, restarts the engine and
// builds a new storage.
func (c *msgCase) kill() {
	c.st = nil
	c.eng.hk().clear()
	c.eng.restart()
	c.build()
}

func mkMessage(id uint64, data uint64, ctag string) *amqp.Message {
	payload := make([]byte, 8)
	binary.BigEndian.PutUint64(payload, data)
	m := &amqp.Message{
		ID: id,
		Header: &amqp.ContentHeader{
			ClassID:      amqp.ClassBasic,
			BodySize:     8,
			PropertyList: &amqp.BasicPropertyList{},
		},
		Body: []*amqp.Frame{{Type: amqp.FrameBody, Payload: payload}},
	}
	if ctag != "-" {
		tag, err := strconv.ParseUint(ctag, 10, 64)
		if err != nil {
			panic(badInput{})
		}
		m.ConfirmMeta = &amqp.ConfirmMeta{DeliveryTag: tag, ExpectedConfirms: 1}
	}
	return m
}

func msgData(m *amqp.Message) uint64 {
	if len(m.Body) == 0 || m.Body[0] == nil {
		return 0
	}
	var b [8]byte
	p := m.Body[0].Payload
	if len(p) > 8 {
		p = p[:8]
	}
	copy(b[8-len(p):], p)
	return binary.BigEndian.Uint64(b[:])
}

// idData decodes a stored value to "<id>:<data>".
func idData(value []byte) string {
	m := &amqp.Message{}
	m.Unmarshal(value, proto)
	return strconv.FormatUint(m.ID, 10) + ":" + strconv.FormatUint(msgData(m), 10)
}

func mAtom(m *amqp.Message) string {
	return "m:" + strconv.FormatUint(m.ID, 10) + ":" + strconv.FormatUint(msgData(m), 10)
}

func contains(a []string, s string) bool {
	i := sort.SearchStrings(a, s)
	return i < len(a) && a[i] == s
}

// addedKey finds the key a message was just added under: the makeKey formula
// when that key is pending, else the one key that appeared in the add queue.
func (c *msgCase) addedKey(before []string, id uint64, q string) string {
	formula := "msg." + q + "." + strconv.FormatInt(int64(id), 10)
	after, _, _ := c.st.VerifPending()
	if contains(after, formula) {
		return formula
	}
	var fresh []string
	for _, k := range after {
		if !contains(before, k) {
			fresh = append(fresh, k)
		}
	}
	if len(fresh) == 1 {
		return fresh[0]
	}
	return formula
}

func (c *msgCase) safeSimple(op string) (out string, died bool) {
	defer func() {
		if r := recover(); r != nil {
			if _, bad := r.(badInput); bad {
				out, died = "BAD", false
				return
			}
			out, died = "PANIC", true
		}
	}()
	return c.simple(op), false
}

// simple runs one op that is neither a persist nor a kill.
func (c *msgCase) simple(op string) string {
	f := strings.Split(op, ":")
	num := func(i int) uint64 {
		n, err := strconv.ParseUint(f[i], 10, 64)
		if err != nil {
			panic(badInput{})
		}
		return n
	}
	h := func(i int) string {
		s, ok := unhex(f[i])
		if !ok {
			panic(badInput{})
		}
		return s
	}
	need := func(n int) {
		if len(f) != n {
			panic(badInput{})
		}
	}
	switch f[0] {
	case "A", "U", "D":
		need(5)
		id, q := num(1), h(4)
		m := mkMessage(id, num(2), f[3])
		switch f[0] {
		case "A":
			before, _, _ := c.st.VerifPending()
			err := c.st.Add(m, q)
			c.ptrKey[m] = c.addedKey(before, id, q)
			return errOut(err)
		case "U":
			return errOut(c.st.Update(m, q))
		default:
			return errOut(c.st.Del(m, q))
		}
	case "P":
		need(2)
		c.st.PurgeQueue(h(1))
		return "_"
	case "F":
		need(4)
		var a []string
		n := c.st.IterateByQueueFromMsgID(h(1), num(2), num(3), func(m *amqp.Message) { a = append(a, mAtom(m)) })
		return atoms(append(a, "n:"+strconv.FormatUint(n, 10)))
	case "I":
		need(3)
		var a []string
		c.eng.hk().lastPrefix = 0
		c.st.IterateByQueue(h(1), num(2), func(m *amqp.Message) { a = append(a, mAtom(m)) })
		return atoms(append(a, "n:"+strconv.FormatUint(c.eng.hk().lastPrefix, 10)))
	case "L":
		need(2)
		return "l:" + strconv.FormatUint(c.st.GetQueueLength(h(1)), 10)
	case "R":
		// what Queue.LoadFromMsgStorage computes, MaxMessagesInRAM = limit
		need(3)
		q, limit := h(1), num(2)
		var a []string
		it := c.st.IterateByQueueFromMsgID(q, 0, limit, func(m *amqp.Message) { a = append(a, mAtom(m)) })
		x := it
		if it >= limit {
			x = c.st.GetQueueLength(q)
		}
		return atoms(append(a, "n:"+strconv.FormatUint(x, 10)))
	case "DUMP":
		need(1)
		var a []string
		c.eng.Iterate(func(k []byte, v []byte) {
			a = append(a, "k:"+hex.EncodeToString(k)+":"+idData(v))
		})
		return atoms(a)
	case "PEND":
		need(1)
		var a []string
		add, upd, del := c.st.VerifPending()
		for i, g := range [][]string{add, upd, del} {
			for _, k := range g {
				a = append(a, "p:"+hexs(k)+":"+strconv.Itoa(i+1))
			}
		}
		return atoms(a)
	}
	return "BAD"
}

// batchAtoms prints the batch that entered ProcessBatch, stable-sorted by key.
func (c *msgCase) batchAtoms() []string {
	h := c.eng.hk()
	if !h.haveBatch {
		return nil
	}
	ops := append([]interfaces.Operation(nil), h.lastBatch...)
	sort.SliceStable(ops, func(i, j int) bool { return ops[i].Key < ops[j].Key })
	var a []string
	for _, op := range ops {
		switch op.Op {
		case interfaces.OpSet:
			a = append(a, "s:"+hexs(op.Key)+":"+idData(op.Value))
		case interfaces.OpDel:
			a = append(a, "d:"+hexs(op.Key))
		default:
			a = append(a, "x:"+hexs(op.Key)+":"+strconv.Itoa(int(op.Op)))
		}
	}
	return a
}

// relayAtoms drains the confirm channel without blocking.
func (c *msgCase) relayAtoms() []string {
	if c.ch == nil {
		return nil
	}
	type rel struct {
		key string
		id  uint64
	}
	var rs []rel
	for {
		select {
		case m := <-c.ch:
			key, ok := c.ptrKey[m]
			if !ok {
				key = "?"
			}
			rs = append(rs, rel{key, m.ID})
			continue
		default:
		}
		break
	}
	sort.SliceStable(rs, func(i, j int) bool { return rs[i].key < rs[j].key })
	var a []string
	for _, r := range rs {
		a = append(a, "r:"+hexs(r.key)+":"+strconv.FormatUint(r.id, 10))
	}
	return a
}

// whole is T: one persist with nothing happening inside its windows.
func (c *msgCase) whole() (out string) {
	h := c.eng.hk()
	h.clear()
	defer func() {
		if r := recover(); r != nil {
			out = "PANIC"
			c.kill()
		}
	}()
	// relays already on the confirm channel when ProcessBatch is entered were sent EARLY
	// (before the batch was written): they are printed before the batch atoms
	var early []string
	h.beforeApply = func() { early = c.relayAtoms() }
	c.st.VerifPersist()
	a := append(append(early, c.batchAtoms()...), c.relayAtoms()...)
	h.clear()
	return atoms(a)
}

// graceful is X: MsgStorage.Close() - which persists once more and closes the engine - then a restart.
// The storage was built without its ticker goroutine, so somebody has to take the value Close sends on the
// unexported closeCh: a one-shot receiver reached through reflection.
func (c *msgCase) graceful() (out string) {
	h := c.eng.hk()
	h.clear()
	defer func() {
		if r := recover(); r != nil {
			out = "PANIC"
			c.kill()
		}
	}()
	f := reflect.ValueOf(c.st).Elem().FieldByName("closeCh")
	ch := reflect.NewAt(f.Type(), unsafe.Pointer(f.UnsafeAddr())).Elem().Interface().(chan bool)
	go func() { <-ch }()
	var early []string
	h.beforeApply = func() { early = c.relayAtoms() }
	if err := c.st.Close(); err != nil {
		panic(err)
	}
	a := append(append(early, c.batchAtoms()...), c.relayAtoms()...)
	h.clear()
	c.st = nil
	c.eng.reopen()
	c.build()
	return atoms(a)
}

// segment runs the ops of one window up to its terminator (B or C) and returns
// the position of the terminator. A K, an op that panics and the end of the op
// list all unwind the running persist with killNow.
func (c *msgCase) segment(term string) int {
	for {
		if c.pos >= len(c.ops) {
			panic(killNow{})
		}
		i := c.pos
		c.pos++
		switch name := opName(c.ops[i]); name {
		case term:
			return i
		case "K":
			c.outs[i] = "_"
			panic(killNow{})
		case "S", "T", "B", "C", "P", "X":
			// not a segment op: no nesting, no foreign terminator; PurgeQueue (and Close) take the flushLock that the
			// running persist holds - in the real code they wait for it to finish, they cannot happen in here
			c.outs[i] = "_"
		default:
			out, died := c.safeSimple(c.ops[i])
			c.outs[i] = out
			if died {
				panic(killNow{})
			}
		}
	}
}

// split is S .. B .. C: one persist cut at its two unlocked windows.
func (c *msgCase) split() {
	sIdx := c.pos
	c.pos++
	c.outs[sIdx] = "_"
	bIdx, cIdx := -1, -1
	h := c.eng.hk()
	h.clear()
	var early []string
	h.beforeApply = func() {
		early = c.relayAtoms() // sent before the batch was written: early
		bIdx = c.segment("B")
	}
	h.afterApply = func() {
		c.outs[bIdx] = atoms(append(early, c.batchAtoms()...))
		cIdx = c.segment("C")
	}
	defer func() {
		if r := recover(); r != nil {
			if _, k := r.(killNow); !k {
				// the persist itself died: blame the step it was in
				switch {
				case cIdx >= 0:
					c.outs[cIdx] = "PANIC"
				case bIdx >= 0:
					c.outs[bIdx] = "PANIC"
				default:
					c.outs[sIdx] = "PANIC"
				}
			}
			c.kill()
		}
	}()
	c.st.VerifPersist()
	if cIdx >= 0 {
		c.outs[cIdx] = atoms(c.relayAtoms())
	}
	h.clear()
}
