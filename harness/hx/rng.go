// Package hx holds what the per-component harness commands share.
package hx

// splitmix64: every random choice of the harness derives from one seed, so a
// disagreement replays exactly.
type Rng struct{ s uint64 }

func NewRng(seed uint64) *Rng { return &Rng{s: seed*0x9E3779B97F4A7C15 + 0x1234567} }

func (r *Rng) Next() uint64 {
	r.s += 0x9E3779B97F4A7C15
	z := r.s
	z = (z ^ (z >> 30)) * 0xBF58476D1CE4E5B9
	z = (z ^ (z >> 27)) * 0x94D049BB133111EB
	return z ^ (z >> 31)
}

func (r *Rng) Intn(n int) int {
	if n <= 0 {
		return 0
	}
	return int(r.Next() % uint64(n))
}

func (r *Rng) Chance(num, den int) bool { return r.Intn(den) < num }
