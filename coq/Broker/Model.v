(* Labelled transition system of the broker core of /repo: server/channel.go,
   server/*Methods.go, server/connection.go (close), server/vhost.go,
   queue/queue.go, consumer/consumer.go.  Definitions only.

   One label = one client frame handled by its channel goroutine, or one turn
   of an internal goroutine (consumer, queue loop, auto-delete, persist tick,
   confirm relay, confirm tick), or a socket loss.  [step] is total: a label
   that is not enabled stutters.  So `forall ls : list label` ranges over all
   client programs and all interleavings at handler granularity.

   Every handler follows the statement order of the Go function named in the
   comment above it, including behaviour that looks wrong (see DESIGN.md
   section 6 for the defects that are faithfully modelled and those repaired).

   Names are Coq strings; message identity is the publish ordinal [uid]
   (the k-th publish accepted by a basic.publish handler is uid k); messages
   live in a heap because one *amqp.Message is shared by every queue it was
   routed to (DeliveryCount and the confirm counters are shared). *)
From Coq Require Import List String NArith ZArith Bool Ascii.
From RecordUpdate Require Import RecordUpdate.
Import ListNotations.
Open Scope N_scope.

(* ------------------------------------------------------------------ *)
(* association lists *)
Section Assoc.
  Context {K V : Type} (keqb : K -> K -> bool).
  Fixpoint alookup (k : K) (l : list (K * V)) : option V :=
    match l with
    | [] => None
    | (k', v) :: t => if keqb k k' then Some v else alookup k t
    end.
  Fixpoint aset (k : K) (v : V) (l : list (K * V)) : list (K * V) :=
    match l with
    | [] => [(k, v)]
    | (k', v') :: t => if keqb k k' then (k, v) :: t else (k', v') :: aset k v t
    end.
  (* removes every entry with key k (keys are unique in every reachable state) *)
  Fixpoint adel (k : K) (l : list (K * V)) : list (K * V) :=
    match l with
    | [] => []
    | (k', v') :: t => if keqb k k' then adel k t else (k', v') :: adel k t
    end.
End Assoc.

Definition seqb := String.eqb.

(* ------------------------------------------------------------------ *)
(* configuration *)
Record config := {
  cfg_rabbit : bool;        (* protoVersion = amqp-rabbit (else amqp-0-9-1) *)
  cfg_rollback : bool;      (* PopQos undoes earlier reservations when a later window refuses (false = defect F02) *)
  cfg_release_first : bool; (* decQosAndConsumeNext releases the windows before waking (false = defect F03; no
                               observable difference at handler granularity) *)
}.

(* ------------------------------------------------------------------ *)
(* qos window (qos/qos.go) *)
Record qosw := { pc : N; ps : N; cc : N; cs : N }.
#[export] Instance eta_qosw : Settable _ := settable! Build_qosw <pc; ps; cc; cs>.
Definition qos0 : qosw := {| pc := 0; ps := 0; cc := 0; cs := 0 |}.
Definition two16 : N := 65536.
Definition two32 : N := 4294967296.
Definition qos_update (w : qosw) (c s : N) : qosw := w <| pc := c |> <| ps := s |>.
Definition qos_active (w : qosw) : bool := negb (pc w =? 0) || negb (ps w =? 0).
Definition qos_inc (w : qosw) (size : N) : option qosw :=
  let nc := (cc w + 1) mod two16 in
  let ns := (cs w + size) mod two32 in
  if ((pc w =? 0) || (nc <=? pc w)) && ((ps w =? 0) || (ns <=? ps w))
  then Some (w <| cc := nc |> <| cs := ns |>) else None.
Definition qos_dec (w : qosw) (size : N) : qosw :=
  w <| cc := if cc w <? 1 then 0 else cc w - 1 |> <| cs := if cs w <? size then 0 else cs w - size |>.

(* ------------------------------------------------------------------ *)
(* entities *)
Inductive cstatus := CStarted | CStopped | CPaused.
Record consumer := { c_id : N; c_tag : string; c_queue : string; c_noack : bool;
                     c_status : cstatus; c_token : bool; c_own : qosw }.
#[export] Instance eta_consumer : Settable _ := settable! Build_consumer <c_id; c_tag; c_queue; c_noack; c_status; c_token; c_own>.

Record unacked := { u_tag : N; u_ctag : string; u_queue : string; u_qid : N; u_msg : N }.
(* u_qid: the queue object the message was delivered from (UnackedMessage.origin) *)

Inductive chstatus := ChNew | ChOpen | ChClosing | ChClosed.
Record channel := { ch_status : chstatus; ch_flow : bool; ch_dtag : N; ch_ctag : N; ch_confirm : bool;
                    ch_ticker : bool; ch_cur : option N; ch_consumers : list consumer;
                    ch_qos : qosw; ch_cqos : qosw; ch_unacked : list unacked; ch_confirmq : list N; ch_inst : N }.
#[export] Instance eta_channel : Settable _ :=
  settable! Build_channel <ch_status; ch_flow; ch_dtag; ch_ctag; ch_confirm; ch_ticker; ch_cur; ch_consumers; ch_qos; ch_cqos; ch_unacked; ch_confirmq; ch_inst>.
Definition channel0 : channel :=
  {| ch_status := ChNew; ch_flow := true; ch_dtag := 0; ch_ctag := 0; ch_confirm := false; ch_ticker := false;
     ch_cur := None; ch_consumers := []; ch_qos := qos0; ch_cqos := qos0; ch_unacked := []; ch_confirmq := []; ch_inst := 0 |}.

(* handshake stage of a connection (connection.go: status): start sent; tune sent (start-ok accepted); tune-ok accepted;
   open-ok sent *)
Inductive cstage := StStart | StTune | StTuneOk | StOpen.
Definition cstage_eqb (a b : cstage) : bool :=
  match a, b with StStart, StStart | StTune, StTune | StTuneOk, StTuneOk | StOpen, StOpen => true | _, _ => false end.
Record conn := { cn_chans : list (N * channel); cn_qos : qosw; cn_stage : cstage }.
#[export] Instance eta_conn : Settable _ := settable! Build_conn <cn_chans; cn_qos; cn_stage>.

Record msg := { m_mid : N; m_ex : string; m_key : string; m_mand : bool; m_pers : bool; m_has_header : bool;
                m_hsize : N; m_size : N; m_body : list N; m_dc : N;
                m_conf : option (N * N * N); m_inst : N; m_expected : Z; m_actual : Z }.
(* m_conf: ConfirmMeta (connection, channel number, sequence number); m_inst: the use of that channel number it belongs to *)
#[export] Instance eta_msg : Settable _ :=
  settable! Build_msg <m_mid; m_ex; m_key; m_mand; m_pers; m_has_header; m_hsize; m_size; m_body; m_dc; m_conf; m_inst; m_expected; m_actual>.

Record queue := { q_id : N; q_ready : list N; q_owner : N; q_excl : bool; q_autodel : bool; q_durable : bool; q_active : bool;
                  q_consumers : list (N * N * string); q_cexcl : bool; q_wasconsumed : bool; q_rr : nat; q_call : bool;
                  q_len : Z; q_mready : Z; q_munacked : Z; q_mtotal : Z }.
#[export] Instance eta_queue : Settable _ :=
  settable! Build_queue <q_id; q_ready; q_owner; q_excl; q_autodel; q_durable; q_active; q_consumers; q_cexcl; q_wasconsumed; q_rr; q_call; q_len; q_mready; q_munacked; q_mtotal>.

Inductive extype := ExDirect | ExFanout | ExTopic | ExHeaders.
Record binding := { b_queue : string; b_key : string; b_args : list (string * string) }.
Record exchange := { e_type : extype; e_durable : bool; e_autodel : bool; e_internal : bool; e_system : bool;
                     e_bindings : list binding }.
#[export] Instance eta_exchange : Settable _ := settable! Build_exchange <e_type; e_durable; e_autodel; e_internal; e_system; e_bindings>.

Record state := { conns : list (N * conn); queues : list (string * queue); exchanges : list (string * exchange);
                  heap : list (N * msg); next_uid : N; next_cid : N; next_qid : N; next_gen : N;
                  autodel : list string;
                  st_add : list (N * string);   (* persistent store: pending adds (uid, queue) *)
                  st_db : list (N * string);    (* persistent store: flushed keys *)
                  st_del : list (N * string);   (* pending deletes *)
                  relay : list N;               (* confirmSyncCh *)
                  srv_ready : Z; srv_unacked : Z; srv_total : Z }.
#[export] Instance eta_state : Settable _ :=
  settable! Build_state <conns; queues; exchanges; heap; next_uid; next_cid; next_qid; next_gen; autodel; st_add; st_db; st_del; relay; srv_ready; srv_unacked; srv_total>.

(* ------------------------------------------------------------------ *)
(* frames the broker sends *)
Inductive sframe :=
| SChannelOpenOk | SChannelCloseOk | SChannelFlowOk (a : bool)
| SChannelClose (code cls mth : N)
| SConnClose (code cls mth : N) | SConnCloseOk
| SExDeclareOk | SExDeleteOk
| SQDeclareOk (name : string) (mc cc : N) | SQBindOk | SQUnbindOk | SQPurgeOk (n : N) | SQDeleteOk (n : N)
| SQosOk | SConsumeOk (tag : string) | SCancelOk (tag : string) | SCancel (tag : string)
| SDeliver (ctag : string) (dtag : N) (redelivered : bool) (ex key : string)
| SGetOk (dtag : N) (redelivered : bool) (ex key : string) (mcount : N) | SGetEmpty
| SReturn (code : N) (ex key : string)
| SHeader (uid : N) (size : N) (pers : bool)
| SBody (uid : N) (len : N)
| SAck (dtag : N) (multiple : bool)
| SConfirmSelectOk
| SConnStart | SConnTune | SConnOpenOk
| SConnGone.      (* pseudo-frame: the broker closed the socket and forgot the connection *)

Definition event := (N * N * sframe)%type.

(* client methods *)
Inductive meth :=
| MChannelOpen | MChannelClose | MChannelCloseOk | MChannelFlow (a : bool)
| MExDeclare (name type : string) (dur ad internal passive nowait : bool)
| MExDelete (name : string) (ifunused nowait : bool)
| MQDeclare (name : string) (dur excl ad passive nowait : bool)
| MQBind (q ex key : string) (args : list (string * string)) (nowait : bool)
| MQUnbind (q ex key : string) (args : list (string * string))
| MQPurge (q : string) (nowait : bool)
| MQDelete (q : string) (ifunused ifempty nowait : bool)
| MQos (count size : N) (glob : bool)
| MPublish (ex key : string) (mand imm : bool)
| MConsume (q tag : string) (noack excl nowait : bool)
| MCancel (tag : string) (nowait : bool)
| MGet (q : string) (noack : bool)
| MAck (tag : N) (mult : bool)
| MNack (tag : N) (mult requeue : bool)
| MReject (tag : N) (requeue : bool)
| MRecover (requeue : bool)
| MConfirmSelect (nowait : bool)
| MTxSelect
| MConnClose | MConnCloseOk
(* the handshake, with the outcome of the checks the model does not compute abstracted into a bit: start-ok (PLAIN,
   a well-formed response, a configured user's correct password), tune-ok (limits within the server's), open (an
   existing virtual host) *)
| MStartOk (good : bool) | MTuneOk (within : bool) | MConnOpen (vhost_ok : bool).

Inductive label :=
| LConnect (c : N)
| LMethod (c h : N) (m : meth)
| LHeader (c h : N) (mid : N) (size : N) (pers : bool)
| LBody (c h : N) (len : N)
| LConsumerTurn (c h : N) (tag : string)
| LQueueLoop (q : string)
| LAutoDelete
| LPersistTick
| LRelay
| LConfirmTick (c h : N)
| LSocketLoss (c : N)
| LAccept (c : N)    (* a socket is accepted and the protocol header read: connection.start goes out *)
| LBadMethod (c h : N)   (* a well-framed method frame whose payload does not decode (unknown class or method id,
                            truncated arguments): channel.handleIncoming answers with a connection error *)
| LHeartbeat (c h : N)   (* a heartbeat frame: legal on channel 0 at any time, fatal on any other channel *)
| LRestart.              (* the broker is stopped (gracefully, nothing pending in the store) and started again *)

(* reply codes (amqp/constants_generated.go) and class/method ids *)
Definition NoRoute := 312. Definition AccessRefused := 403. Definition NotFound := 404.
Definition ResourceLocked := 405. Definition PreconditionFailed := 406.
Definition FrameError := 501. Definition CommandInvalid := 503. Definition ChannelErr := 504.
Definition NotAllowed := 530. Definition NotImplemented := 540. Definition InvalidPath := 402.

(* an error raised by a handler: scope, code, class, method *)
Inductive aerr := ChanErr (code cls mth : N) | ConnErr (code cls mth : N).

(* ------------------------------------------------------------------ *)
(* accessors *)
Definition get_conn (s : state) (c : N) : option conn := alookup N.eqb c (conns s).
Definition get_chan (s : state) (c h : N) : option channel :=
  match get_conn s c with Some cn => alookup N.eqb h (cn_chans cn) | None => None end.
Definition set_chan (s : state) (c h : N) (ch : channel) : state :=
  match get_conn s c with
  | Some cn => s <| conns := aset N.eqb c (cn <| cn_chans := aset N.eqb h ch (cn_chans cn) |>) (conns s) |>
  | None => s
  end.
Definition upd_chan (s : state) (c h : N) (f : channel -> channel) : state :=
  match get_chan s c h with Some ch => set_chan s c h (f ch) | None => s end.
Definition set_stage (s : state) (c : N) (st : cstage) : state :=
  match get_conn s c with
  | Some cn => s <| conns := aset N.eqb c (cn <| cn_stage := st |>) (conns s) |>
  | None => s
  end.
Definition conn_opened (s : state) (c : N) : bool :=
  match get_conn s c with Some cn => cstage_eqb (cn_stage cn) StOpen | None => false end.
Definition get_queue (s : state) (q : string) : option queue := alookup seqb q (queues s).
Definition set_queue (s : state) (q : string) (qu : queue) : state := s <| queues := aset seqb q qu (queues s) |>.
Definition upd_queue (s : state) (q : string) (f : queue -> queue) : state :=
  match get_queue s q with Some qu => set_queue s q (f qu) | None => s end.
Definition get_msg (s : state) (u : N) : option msg := alookup N.eqb u (heap s).
Definition upd_msg (s : state) (u : N) (f : msg -> msg) : state :=
  match get_msg s u with Some m => s <| heap := aset N.eqb u (f m) (heap s) |> | None => s end.
Definition msg_size (s : state) (u : N) : N := match get_msg s u with Some m => m_size m | None => 0 end.

Definition Zs (n : N) : Z := Z.of_N n.

(* ------------------------------------------------------------------ *)
(* routing (binding/binding.go, exchange/exchange.go: GetMatchedQueues).  Word-wise topic matching. *)
Fixpoint split_dot_aux (s : string) (cur : string) : list string :=
  match s with
  | EmptyString => [cur]
  | String a t => if Ascii.eqb a "."%char then cur :: split_dot_aux t EmptyString else split_dot_aux t (String.append cur (String a EmptyString))
  end.
Definition words (s : string) : list string := split_dot_aux s ""%string.

Fixpoint topic_match (fuel : nat) (pat key : list string) : bool :=
  match fuel with
  | O => false
  | S f =>
    match pat, key with
    | [], [] => true
    | [], _ :: _ => false
    | p :: pt, _ =>
      if seqb p "#"%string then
        topic_match f pt key || (match key with [] => false | _ :: kt => topic_match f pat kt end)
      else match key with
           | [] => false
           | k :: kt => if seqb p "*"%string || seqb p k then topic_match f pt kt else false
           end
    end
  end.
(* binding.go topicWords: the empty routing key has no words at all *)
Definition topic_words (s : string) : list string := match s with EmptyString => [] | _ => words s end.
Definition topic_matches (pat key : string) : bool :=
  let p := topic_words pat in let k := topic_words key in topic_match (S (List.length p + List.length k) * 2) p k.

(* binding.go parseTopicPattern: the wildcards are whole words only *)
Fixpoint str_has_wild (s : string) : bool :=
  match s with EmptyString => false | String a t => Ascii.eqb a "*"%char || Ascii.eqb a "#"%char || str_has_wild t end.
Definition bad_word (w : string) : bool := Nat.ltb 1 (String.length w) && str_has_wild w.
Definition bad_pattern (key : string) : bool := existsb bad_word (topic_words key).

Fixpoint dedup_acc (seen : list string) (l : list string) : list string :=
  match l with
  | [] => []
  | x :: t => if existsb (seqb x) seen then dedup_acc seen t else x :: dedup_acc (x :: seen) t
  end.
Definition dedup (l : list string) : list string := dedup_acc [] l.

(* direct_first_only = the early `return` of the direct case (defect F04) *)
Definition matched_queues (direct_first_only : bool) (e : exchange) (key : string) : list string :=
  match e_type e with
  | ExDirect =>
    let ms := map b_queue (filter (fun b => seqb (b_key b) key) (e_bindings e)) in
    if direct_first_only then firstn 1 ms else dedup ms
  | ExFanout => dedup (map b_queue (e_bindings e))
  | ExTopic => dedup (map b_queue (filter (fun b => topic_matches (b_key b) key) (e_bindings e)))
  | ExHeaders => []  (* the model's messages carry no headers table: MatchHeader returns false for every binding made by queue.bind *)
  end.

Definition args_eqb (a b : list (string * string)) : bool :=
  (Nat.eqb (List.length a) (List.length b)) &&
  forallb (fun kv => match alookup seqb (fst kv) b with Some v => seqb v (snd kv) | None => false end) a.
Definition binding_eqb (x y : binding) : bool :=
  seqb (b_queue x) (b_queue y) && seqb (b_key x) (b_key y) && args_eqb (b_args x) (b_args y).
Definition append_binding (e : exchange) (b : binding) : exchange :=
  if existsb (binding_eqb b) (e_bindings e) then e else e <| e_bindings := e_bindings e ++ [b] |>.
Fixpoint remove_first {A} (p : A -> bool) (l : list A) : list A :=
  match l with [] => [] | x :: t => if p x then t else x :: remove_first p t end.
Definition remove_binding (e : exchange) (b : binding) : exchange :=
  e <| e_bindings := remove_first (binding_eqb b) (e_bindings e) |>.
Definition remove_queue_bindings (e : exchange) (q : string) : exchange :=
  e <| e_bindings := filter (fun b => negb (seqb (b_queue b) q)) (e_bindings e) |>.

(* ------------------------------------------------------------------ *)
(* consumers: token hand-over (consumer.go: consumeMsg / Consume) *)
Definition consume_msg (cm : consumer) : consumer * bool :=
  match c_status cm with
  | CStarted => if c_token cm then (cm, false) else (cm <| c_token := true |>, true)
  | _ => (cm, false)
  end.

Definition upd_consumer (ch : channel) (tag : string) (f : consumer -> consumer) : channel :=
  ch <| ch_consumers := map (fun cm => if seqb (c_tag cm) tag then f cm else cm) (ch_consumers ch) |>.
Definition find_consumer (ch : channel) (tag : string) : option consumer :=
  find (fun cm => seqb (c_tag cm) tag) (ch_consumers ch).

(* cmr.Consume() on the consumer (c,h,tag): returns whether a token was handed over *)
Definition wake_consumer (s : state) (c h : N) (tag : string) : state * bool :=
  match get_chan s c h with
  | Some ch =>
    match find_consumer ch tag with
    | Some cm => let '(cm', ok) := consume_msg cm in (set_chan s c h (upd_consumer ch tag (fun _ => cm')), ok)
    | None => (s, false)
    end
  | None => (s, false)
  end.

(* queue.callConsumers *)
Definition call_consumers (qu : queue) : queue := if q_active qu then qu <| q_call := true |> else qu.

(* Queue.PopQos, success: the head leaves; when another message becomes the head the consumers are called (one that a
   size window kept from the old head may have room for the new one) *)
Definition popped (rest : list N) (qu : queue) : queue :=
  let qu := qu <| q_ready := rest |> <| q_len ::= Z.pred |> <| q_mready ::= Z.pred |> in
  match rest with [] => qu | _ :: _ => call_consumers qu end.

(* ------------------------------------------------------------------ *)
(* output helpers (channel.go: SendMethod / SendContent / sendError) *)
Definition out1 (c h : N) (f : sframe) : list event := [(c, h, f)].
Definition content_frames (s : state) (c h : N) (u : N) : list event :=
  match get_msg s u with
  | Some m => (c, h, SHeader (m_mid m) (m_hsize m) (m_pers m)) :: map (fun l => (c, h, SBody (m_mid m) l)) (m_body m)
  | None => []
  end.

Definition send_error (s : state) (c h : N) (e : aerr) : state * list event :=
  match e with
  | ChanErr code cls mth => (upd_chan s c h (fun ch => ch <| ch_status := ChClosing |>), out1 c h (SChannelClose code cls mth))
  | ConnErr code cls mth => (s, out1 c 0 (SConnClose code cls mth))
  end.

(* ------------------------------------------------------------------ *)
(* queue operations (queue/queue.go) *)

(* Queue.Push, without overflow to disk (the broker-level model runs below maxMessagesInRAM) *)
Definition queue_push (s : state) (qn : string) (u : N) : state :=
  match get_queue s qn, get_msg s u with
  | Some qu, Some m =>
    if negb (q_active qu) then s else
    let s := s <| srv_total ::= Z.succ |> <| srv_ready ::= Z.succ |> in
    let persisted := q_durable qu && m_pers m in
    let s := if persisted then s <| st_add ::= fun l => l ++ [(u, qn)] |>
             else match m_conf m with
                  | Some _ => upd_msg s u (fun m => m <| m_actual ::= Z.succ |>)
                  | None => s
                  end in
    set_queue s qn (call_consumers (qu <| q_len ::= Z.succ |> <| q_mtotal ::= Z.succ |> <| q_mready ::= Z.succ |>
                                       <| q_ready ::= fun l => l ++ [u] |>))
  | _, _ => s
  end.

(* the reservation loop of PopQos over a list of windows, given as getters/setters into a snapshot *)
Fixpoint reserve (rollback : bool) (ws : list qosw) (size : N) : option (list qosw) * list qosw :=
  (* returns (Some ws' on success | None on refusal, windows after the attempt) *)
  match ws with
  | [] => (Some [], [])
  | w :: t =>
    (* every window is charged, also one without a limit (qos_inc never refuses then): F49 repaired *)
    match qos_inc w size with
         | None => (None, w :: t)
         | Some w' =>
           let '(r, t') := reserve rollback t size in
           match r with
           | Some l => (Some (w' :: l), w' :: t')
           | None => (None, (if rollback then qos_dec w' size else w') :: t')
           end
         end
  end.

(* Queue.AckMsg *)
Definition queue_ackmsg (s : state) (qn : string) (u : N) : state :=
  match get_queue s qn, get_msg s u with
  | Some qu, Some m =>
    if negb (q_active qu) then s else
    let s := if q_durable qu && m_pers m then s <| st_del ::= fun l => l ++ [(u, qn)] |> else s in
    let s := s <| srv_total ::= Z.pred |> <| srv_unacked ::= Z.pred |> in
    set_queue s qn (qu <| q_mtotal ::= Z.pred |> <| q_munacked ::= Z.pred |>)
  | _, _ => s
  end.

(* Queue.Requeue *)
(* msgPStorage.Update: a persistent message of a durable queue is written back (with its new delivery count) - also when
   a purge had removed its key while the message was out with a consumer.  While the message's add is still pending the
   update is pending too and the add carries it (a delete of the key before the tick cancels both).  Touches the store only. *)
Definition store_writeback (s : state) (qn : string) (u : N) (dur : bool) : state :=
  let pers := match get_msg s u with Some m => m_pers m | None => false end in
  if dur && pers && negb (existsb (fun k => (fst k =? u) && seqb (snd k) qn) (st_db s))
         && negb (existsb (fun k => (fst k =? u) && seqb (snd k) qn) (st_add s))
  then s <| st_db ::= fun l => l ++ [(u, qn)] |> else s.

(* msgPStorage.PurgeQueue: the flushed keys of the queue are deleted, and what still waits for the next tick is purged
   as well - a pending add is cancelled by a delete of the same key (the tick then confirms it without writing it) *)
Definition store_purge (s : state) (qn : string) : state :=
  s <| st_db ::= filter (fun k => negb (seqb (snd k) qn)) |>
    <| st_del ::= fun l => l ++ filter (fun k => seqb (snd k) qn) (st_add s) |>.

Definition queue_requeue (s : state) (qn : string) (u : N) : state :=
  match get_queue s qn with
  | Some qu =>
    if negb (q_active qu) then s else
    let s := store_writeback s qn u (q_durable qu) in
    let s := upd_msg s u (fun m => m <| m_dc ::= N.succ |>) in
    let s := s <| srv_ready ::= Z.succ |> <| srv_unacked ::= Z.pred |> in
    set_queue s qn (call_consumers (qu <| q_ready ::= cons u |> <| q_mready ::= Z.succ |> <| q_munacked ::= Z.pred |>
                                       <| q_len ::= Z.succ |>))
  | None => s
  end.

(* Queue.RemoveConsumer *)
(* Queue.RemoveConsumerInstance: exactly the consumer of channel (c,h) with that tag *)
Definition queue_remove_consumer (s : state) (qn : string) (c h : N) (tag : string) : state :=
  match get_queue s qn with
  | Some qu =>
    let cs := remove_first (fun x => (fst (fst x) =? c) && (snd (fst x) =? h) && seqb (snd x) tag) (q_consumers qu) in
    let n := List.length cs in
    let qu := qu <| q_consumers := cs |> in
    let qu := if Nat.eqb n 0 then qu <| q_rr := O |> <| q_cexcl := false |>
              else qu <| q_rr := Nat.modulo (S (q_rr qu)) n |> in
    let s := set_queue s qn qu in
    if Nat.eqb n 0 && q_wasconsumed qu && q_autodel qu then s <| autodel ::= fun l => l ++ [qn] |> else s
  | None => s
  end.

(* Consumer.Stop on the consumer (c,h,tag): status, RemoveConsumer, token channel closed *)
Definition consumer_stop (s : state) (c h : N) (tag : string) : state :=
  match get_chan s c h with
  | Some ch =>
    match find_consumer ch tag with
    | Some cm =>
      match c_status cm with
      | CStopped => s
      | _ =>
        let s := set_chan s c h (upd_consumer ch tag (fun cm => cm <| c_status := CStopped |>)) in
        queue_remove_consumer s (c_queue cm) c h tag
      end
    | None => s
    end
  | None => s
  end.

(* channel.wakeOwnConsumers / channel.wakeConsumers: every consumer sharing a prefetch window with the channel is
   signalled (the channel's own consumers; in the 0-9-1 dialect also those of the connection's other channels) *)
Definition wake_all_of_chan (s : state) (c h : N) : state :=
  upd_chan s c h (fun ch => ch <| ch_consumers ::= map (fun cm => fst (consume_msg cm)) |>).
Definition wake_consumers (cfg : config) (s : state) (c h : N) : state :=
  let s := wake_all_of_chan s c h in
  if cfg_rabbit cfg then s
  else match get_conn s c with
       | Some cn => fold_left (fun s hk => if fst hk =? h then s else wake_all_of_chan s c (fst hk)) (cn_chans cn) s
       | None => s
       end.

(* channel.decQosAndConsumeNext: release the windows of the delivery, then wake *)
Definition dec_qos_and_consume_next (cfg : config) (s : state) (c h : N) (u : unacked) : state :=
  let size := msg_size s (u_msg u) mod two32 in
  match get_chan s c h with
  | Some ch =>
    let s :=
      match find_consumer ch (u_ctag u) with
      | Some cm =>
        (* cmr.Qos(): rabbit = [channel.qos; own copy], 0-9-1 = [channel.qos; conn.qos] *)
        let s := upd_chan s c h (fun ch => ch <| ch_qos ::= fun w => qos_dec w size |>) in
        if cfg_rabbit cfg
        then upd_chan s c h (fun ch => upd_consumer ch (u_ctag u) (fun cm => cm <| c_own ::= fun w => qos_dec w size |>))
        else match get_conn s c with
             | Some cn => s <| conns := aset N.eqb c (cn <| cn_qos ::= fun w => qos_dec w size |>) (conns s) |>
             | None => s
             end
      | None =>
        let s := upd_chan s c h (fun ch => ch <| ch_qos ::= fun w => qos_dec w size |>) in
        match get_conn s c with
        | Some cn => s <| conns := aset N.eqb c (cn <| cn_qos ::= fun w => qos_dec w size |>) (conns s) |>
        | None => s
        end
      end in
    wake_consumers cfg s c h
  | None => s
  end.

Definition origin_queue (s : state) (u : unacked) : option queue :=
  match get_queue s (u_queue u) with
  | Some qu => if q_id qu =? u_qid u then Some qu else None
  | None => None
  end.
Definition qid_of (s : state) (qn : string) : N := match get_queue s qn with Some qu => q_id qu | None => 0 end.

(* channel.ackMsg (without the map delete) *)
Definition chan_ackmsg (s : state) (u : unacked) : state :=
  match origin_queue s u with
  | Some _ => queue_ackmsg s (u_queue u) (u_msg u)
  | None => s <| srv_total ::= Z.pred |> <| srv_unacked ::= Z.pred |>
  end.

(* channel.rejectMsg (without the map delete) *)
Definition chan_rejectmsg (s : state) (u : unacked) (requeue : bool) : state :=
  match origin_queue s u with
  | Some _ => if requeue then queue_requeue s (u_queue u) (u_msg u) else queue_ackmsg s (u_queue u) (u_msg u)
  | None => s <| srv_total ::= Z.pred |> <| srv_unacked ::= Z.pred |>
  end.

Definition del_unacked (ch : channel) (tag : N) : channel :=
  ch <| ch_unacked := filter (fun u => negb (u_tag u =? tag)) (ch_unacked ch) |>.

Fixpoint insert_desc (u : unacked) (l : list unacked) : list unacked :=
  match l with
  | [] => [u]
  | x :: t => if u_tag x <? u_tag u then u :: l else x :: insert_desc u t
  end.
Definition sort_desc (l : list unacked) : list unacked := fold_right insert_desc [] l.

(* channel.handleReject *)
Definition handle_reject (cfg : config) (s : state) (c h : N) (tag : N) (mult requeue : bool) (cls mth : N)
  : state * option aerr :=
  match get_chan s c h with
  | None => (s, None)
  | Some ch =>
    if mult then
      let sel := filter (fun u => (tag =? 0) || (u_tag u <=? tag)) (sort_desc (ch_unacked ch)) in
      let s := fold_left (fun s u => chan_rejectmsg (upd_chan s c h (fun ch => del_unacked ch (u_tag u))) u requeue) sel s in
      let s := fold_left (fun s u => dec_qos_and_consume_next cfg s c h u) sel s in
      (s, None)
    else
      match find (fun u => u_tag u =? tag) (ch_unacked ch) with
      | None => (s, Some (ChanErr PreconditionFailed cls mth))
      | Some u =>
        let s := chan_rejectmsg (upd_chan s c h (fun ch => del_unacked ch tag)) u requeue in
        (dec_qos_and_consume_next cfg s c h u, None)
      end
  end.

(* channel.handleAck *)
Definition handle_ack (cfg : config) (s : state) (c h : N) (tag : N) (mult : bool) : state * option aerr :=
  match get_chan s c h with
  | None => (s, None)
  | Some ch =>
    if mult then
      let sel := filter (fun u => (tag =? 0) || (u_tag u <=? tag)) (ch_unacked ch) in
      let s := fold_left (fun s u => chan_ackmsg (upd_chan s c h (fun ch => del_unacked ch (u_tag u))) u) sel s in
      let s := fold_left (fun s u => dec_qos_and_consume_next cfg s c h u) sel s in
      (s, None)
    else
      match find (fun u => u_tag u =? tag) (ch_unacked ch) with
      | None => (s, Some (ChanErr PreconditionFailed 60 80))
      | Some u =>
        let s := chan_ackmsg (upd_chan s c h (fun ch => del_unacked ch tag)) u in
        (dec_qos_and_consume_next cfg s c h u, None)
      end
  end.

(* channel.close *)
Definition channel_close (cfg : config) (s : state) (c h : N) : state :=
  match get_chan s c h with
  | None => s
  | Some ch =>
    let s := fold_left (fun s cm => consumer_stop s c h (c_tag cm)) (ch_consumers ch) s in
    let s := upd_chan s c h (fun ch => ch <| ch_consumers := [] |>) in
    let s := if 0 <? h then fst (handle_reject cfg s c h 0 true true 60 120) else s in
    (* a publish that was being assembled is dropped with the channel: content frames that arrive later find no message *)
    upd_chan s c h (fun ch => ch <| ch_status := ChClosed |> <| ch_cur := None |>)
  end.

(* Queue.Delete + vhost.DeleteQueue.  [None] = refused (if-unused / if-empty). *)
Definition consumer_cancel (s : state) (x : N * N * string) : state * list event :=
  let '(c, h, tag) := x in (consumer_stop s c h tag, out1 c h (SCancel tag)).

Definition vhost_delete_queue (delete_clears_active_first : bool) (s : state) (qn : string) (ifunused ifempty : bool)
  : state * list event * option N :=
  match get_queue s qn with
  | None => (s, [], None)
  | Some qu =>
    let refused := (ifunused && negb (Nat.eqb (List.length (q_consumers qu)) 0)) ||
                   (ifempty && negb (Nat.eqb (List.length (q_ready qu)) 0)) in
    if refused then
      ((if delete_clears_active_first then set_queue s qn (qu <| q_active := false |>) else s), [], None)
    else
      (* Queue.Delete clears `active` here; the queue leaves the table at the end of this same atomic step and
         nothing in between reads the flag, so the model does not write it *)
      let '(s, evs) := fold_left (fun acc x => let '(s, evs) := acc in
                                               let '(s', e) := consumer_cancel s x in (s', evs ++ e))
                                 (q_consumers qu) (s, []) in
      let len := q_len qu in
      let s := if q_durable qu then store_purge s qn else s in
      let s := s <| srv_total ::= fun z => (z - len)%Z |> <| srv_ready ::= fun z => (z - len)%Z |> in
      let s := s <| exchanges ::= map (fun kv => (fst kv, remove_queue_bindings (snd kv) qn)) |> in
      let s := s <| queues := adel seqb qn (queues s) |> in
      (s, evs, Some (Z.to_N len))
  end.

(* ------------------------------------------------------------------ *)
(* consumer turn (consumer.go: retrieveAndSendMessage) *)
Definition window_list (cfg : config) (s : state) (c h : N) (cm : consumer) : list qosw :=
  match get_chan s c h, get_conn s c with
  | Some ch, Some cn => if cfg_rabbit cfg then [ch_qos ch; c_own cm] else [ch_qos ch; cn_qos cn]
  | _, _ => []
  end.
Definition store_windows (cfg : config) (s : state) (c h : N) (tag : string) (ws : list qosw) : state :=
  match ws with
  | [w1; w2] =>
    let s := upd_chan s c h (fun ch => ch <| ch_qos := w1 |>) in
    if cfg_rabbit cfg then upd_chan s c h (fun ch => upd_consumer ch tag (fun cm => cm <| c_own := w2 |>))
    else match get_conn s c with
         | Some cn => s <| conns := aset N.eqb c (cn <| cn_qos := w2 |>) (conns s) |>
         | None => s
         end
  | _ => s
  end.

Definition redelivered_flag (redelivered_from_first_requeue : bool) (dc : N) : bool :=
  if redelivered_from_first_requeue then 0 <? dc else 1 <? dc.

Record fixes := {
  fx_direct_all : bool;         (* F04 repaired: direct exchange delivers to every matching queue *)
  fx_redelivered : bool;        (* F06 repaired: flag set from the first requeue on, also for basic.get *)
  fx_delete_checks_first : bool;(* F26 repaired: Delete tests if-unused/if-empty before clearing active *)
  fx_noack_total_once : bool;   (* F29a repaired: no-ack delivery decrements total once, unacked not at all *)
  fx_get_count : bool;          (* F29b repaired: get-ok carries the remaining message count *)
  fx_closeok_releases : bool;   (* F33 repaired: close-ok after a server-initiated close releases the channel *)
  fx_excl_owner : bool;         (* F20 repaired: consume/get check the exclusive owner *)
  fx_clear_current : bool;      (* F37 repaired: current message cleared once complete *)
  fx_not_impl : bool;           (* F16 repaired: unsupported classes/methods answer NOT_IMPLEMENTED *)
  fx_empty_body : bool;         (* F43 repaired: a message whose header announces 0 bytes is routed at the header *)
  fx_discard_closing : bool;    (* F36 repaired: frames on a channel the broker is closing are discarded *)
  fx_nowait : bool;             (* F16 repaired: no-wait requests are not answered *)
  fx_stage : bool;              (* F14/F15/F48 repaired: class/channel and handshake-order checks *)
  fx_reopen_resets : bool;      (* F17 repaired: channel.open on a closed channel number starts from a fresh state *)
  fx_chan_open : bool;          (* F54 repaired: a channel that is not open accepts channel.open only *)
}.

Definition all_fixed : fixes :=
  {| fx_direct_all := true; fx_redelivered := true; fx_delete_checks_first := true; fx_noack_total_once := true;
     fx_get_count := true; fx_closeok_releases := true; fx_excl_owner := true; fx_clear_current := true; fx_not_impl := true;
     fx_empty_body := true; fx_discard_closing := true; fx_nowait := true; fx_stage := true; fx_reopen_resets := true; fx_chan_open := true |}.

Definition consumer_turn (cfg : config) (fx : fixes) (s : state) (c h : N) (tag : string) : state * list event :=
  match get_chan s c h with
  | None => (s, [])
  | Some ch =>
    match find_consumer ch tag with
    | None => (s, [])
    | Some cm =>
      if negb (c_token cm) then (s, []) else
      let s := set_chan s c h (upd_consumer ch tag (fun cm => cm <| c_token := false |>)) in
      match c_status cm with
      | CStopped => (s, [])
      | _ =>
        match get_queue s (c_queue cm) with
        | None => (s, [])
        | Some qu =>
          if negb (q_active qu) then (s, []) else
          match q_ready qu with
          | [] => (s, [])
          | u :: rest =>
            let size := msg_size s u mod two32 in
            let '(ok, ws) := if c_noack cm then (Some [], []) else reserve (cfg_rollback cfg) (window_list cfg s c h cm) size in
            let s := if c_noack cm then s else store_windows cfg s c h tag ws in
            match ok with
            | None => (s, [])
            | Some _ =>
              (* PopQos + the Ready metric (decremented a few statements later in the same turn) *)
              let s := upd_queue s (c_queue cm) (popped rest) in
              let s := if c_noack cm then queue_ackmsg s (c_queue cm) u else s in
              let dtag := match get_chan s c h with Some ch => ch_dtag ch + 1 | None => 0 end in
              let s := upd_chan s c h (fun ch => ch <| ch_dtag := dtag |>) in
              let s := if c_noack cm then s
                       else upd_chan s c h (fun ch => ch <| ch_unacked ::= fun l => l ++ [{| u_tag := dtag; u_ctag := tag; u_queue := c_queue cm; u_qid := qid_of s (c_queue cm); u_msg := u |}] |>) in
              let s := if c_noack cm
                       then (if fx_noack_total_once fx
                             then upd_queue (s <| srv_unacked ::= Z.succ |>) (c_queue cm) (fun qu => qu <| q_munacked ::= Z.succ |>)
                             else upd_queue (s <| srv_total ::= Z.pred |>) (c_queue cm) (fun qu => qu <| q_mtotal ::= Z.pred |>))
                       else upd_queue (s <| srv_unacked ::= Z.succ |>) (c_queue cm) (fun qu => qu <| q_munacked ::= Z.succ |>) in
              let s := s <| srv_ready ::= Z.pred |> in
              let m := get_msg s u in
              let evs := match m with
                         | Some m => out1 c h (SDeliver tag dtag (redelivered_flag (fx_redelivered fx) (m_dc m)) (m_ex m) (m_key m))
                                     ++ content_frames s c h u
                         | None => []
                         end in
              (* consumeMsg: re-arm *)
              let '(s, _) := wake_consumer s c h tag in
              (s, evs)
            end
          end
        end
      end
    end
  end.

(* queue loop turn (queue.go: Start): every consumer of the queue is signalled; the pointer rotates who goes first *)
Definition queue_loop_turn (s : state) (qn : string) : state :=
  match get_queue s qn with
  | None => s
  | Some qu =>
    if negb (q_call qu) then s else
    let s := set_queue s qn (qu <| q_call := false |>) in
    let cnt := List.length (q_consumers qu) in
    if Nat.eqb cnt 0 then s else
    let s := fold_left (fun s x => let '(c, h, tag) := x in fst (wake_consumer s c h tag)) (q_consumers qu) s in
    upd_queue s qn (fun qu => qu <| q_rr := Nat.modulo (S (q_rr qu)) cnt |>)
  end.

(* ------------------------------------------------------------------ *)
(* confirms *)
Definition add_confirm (s : state) (c h : N) (tagopt : option (N * N * N)) : state :=
  match get_chan s c h with
  | Some ch =>
    if negb (ch_confirm ch) then s else
    match ch_status ch with
    | ChClosed => s
    | _ => match tagopt with
           | Some (_, _, t) => set_chan s c h (ch <| ch_confirmq ::= fun l => l ++ [t] |>)
           | None => s
           end
    end
  | None => s
  end.

(* channel.addConfirm drops a confirmation that belongs to a previous use of the channel number *)
Definition live_conf (s : state) (m : msg) : option (N * N * N) :=
  match m_conf m with
  | Some (c, h, t) => match get_chan s c h with
                      | Some ch => if ch_inst ch =? m_inst m then Some (c, h, t) else None
                      | None => None
                      end
  | None => None
  end.

(* msgstorage.confirm: the store's confirmation of message u; the one completing the message relays it *)
Definition store_confirm (s : state) (u : N) : state :=
  match get_msg s u with
  | Some m => match m_conf m with
              | Some _ => let s := upd_msg s u (fun m => m <| m_actual ::= Z.succ |>) in
                          if (Z.succ (m_actual m) =? m_expected m)%Z then s <| relay ::= fun l => l ++ [u] |> else s
              | None => s
              end
  | None => s
  end.

(* one iteration of the publish loop: Queue.Push reports whether it completed the confirmations - only a push that
   counts itself (active queue, message not handed to the persistent store) can - and the channel then queues the ack *)
Definition push_one (s : state) (c h u : N) (pers has_meta : bool) (qn : string) : state :=
  let counted := match get_queue s qn with
                 | Some qu => q_active qu && negb (q_durable qu && pers)
                 | None => false
                 end in
  let s := queue_push s qn u in
  match get_msg s u with
  | Some m => if has_meta && counted && (m_actual m =? m_expected m)%Z
              then add_confirm s c h (live_conf s m) else s
  | None => s
  end.

(* ------------------------------------------------------------------ *)
(* publish: channel.handleContentBody after the body is complete *)
Definition route_and_push (fx : fixes) (s : state) (c h : N) (u : N) : state * list event :=
  match get_msg s u with
  | None => (s, [])
  | Some m =>
    let ret := out1 c h (SReturn NoRoute (m_ex m) (m_key m)) ++ content_frames s c h u in
    match alookup seqb (m_ex m) (exchanges s) with
    | None => (add_confirm s c h (live_conf s m), ret)
    | Some ex =>
      let qs := matched_queues (negb (fx_direct_all fx)) ex (m_key m) in
      match qs with
      | [] => (add_confirm s c h (live_conf s m), if m_mand m then ret else [])
      | _ =>
        let confirm := match get_chan s c h with Some ch => ch_confirm ch | None => false end in
        let has_meta := match m_conf m with Some _ => true | None => false end in
        let s := if confirm && has_meta then upd_msg s u (fun m => m <| m_expected := Z.of_nat (List.length qs) |>) else s in
        let s := fold_left (fun s qn => push_one s c h u (m_pers m) has_meta qn) qs s in
        (s, [])
      end
    end
  end.

Definition finish_publish (fx : fixes) (s : state) (c h : N) (u : N) : state * list event :=
  let '(s, evs) := route_and_push fx s c h u in
  ((if fx_clear_current fx then upd_chan s c h (fun ch => ch <| ch_cur := None |>) else s), evs).

(* ------------------------------------------------------------------ *)
(* method handlers.  Each returns (state, events, optional error); the caller applies sendError. *)
Definition ok (s : state) (evs : list event) : state * list event * option aerr := (s, evs, None).
Definition refuse (s : state) (e : aerr) : state * list event * option aerr := (s, [], Some e).

(* consumer tags the server makes up (consumer.go: generateTag, "<unix time>_<id>"): the model numbers them in the order
   they are made; the harness renames the real ones the same way *)
Fixpoint dec_digits (fuel : nat) (n : N) (acc : string) : string :=
  match fuel with
  | O => acc
  | S f => let acc' := String (Ascii.ascii_of_N (48 + N.modulo n 10)) acc in
           if n <? 10 then acc' else dec_digits f (N.div n 10) acc'
  end.
Definition gen_tag (n : N) : string := String.append "amq.gen-" (dec_digits 40 n EmptyString).
Definition eff_tag (s : state) (tag : string) : string := if seqb tag ""%string then gen_tag (next_gen s) else tag.

Definition queue_found (s : state) (qn : string) : option queue :=
  match get_queue s qn with Some qu => if q_active qu then Some qu else None | None => None end.
Definition locked (qu : queue) (c : N) : bool := q_excl qu && negb (q_owner qu =? c).

(* binding.NewBinding: an x-match argument other than all / any is refused *)
Definition bad_xmatch (args : list (string * string)) : bool :=
  match alookup seqb "x-match"%string args with
  | Some v => negb (seqb v "all"%string || seqb v "any"%string)
  | None => false
  end.

Definition extype_of (t : string) : option extype :=
  if seqb t "direct"%string then Some ExDirect else if seqb t "fanout"%string then Some ExFanout
  else if seqb t "topic"%string then Some ExTopic else if seqb t "headers"%string then Some ExHeaders else None.
Definition extype_eqb (a b : extype) : bool :=
  match a, b with ExDirect, ExDirect | ExFanout, ExFanout | ExTopic, ExTopic | ExHeaders, ExHeaders => true | _, _ => false end.

Definition has_prefix (p s : string) : bool := String.prefix p s.

Definition new_queue (qid : N) (owner : N) (dur excl ad : bool) : queue :=
  {| q_id := qid; q_ready := []; q_owner := owner; q_excl := excl; q_autodel := ad; q_durable := dur; q_active := true;
     q_consumers := []; q_cexcl := false; q_wasconsumed := false; q_rr := O; q_call := false;
     q_len := 0; q_mready := 0; q_munacked := 0; q_mtotal := 0 |}.

Definition meth_ids (m : meth) : N * N :=
  match m with
  | MChannelOpen => (20, 10) | MChannelClose => (20, 40) | MChannelCloseOk => (20, 41) | MChannelFlow _ => (20, 20)
  | MExDeclare _ _ _ _ _ _ _ => (40, 10) | MExDelete _ _ _ => (40, 20)
  | MQDeclare _ _ _ _ _ _ => (50, 10) | MQBind _ _ _ _ _ => (50, 20) | MQUnbind _ _ _ _ => (50, 50)
  | MQPurge _ _ => (50, 30) | MQDelete _ _ _ _ => (50, 40)
  | MQos _ _ _ => (60, 10) | MPublish _ _ _ _ => (60, 40) | MConsume _ _ _ _ _ => (60, 20) | MCancel _ _ => (60, 30)
  | MGet _ _ => (60, 70) | MAck _ _ => (60, 80) | MNack _ _ _ => (60, 120) | MReject _ _ => (60, 90) | MRecover _ => (60, 110)
  | MConfirmSelect _ => (85, 10) | MTxSelect => (90, 10)
  | MConnClose => (10, 50) | MConnCloseOk => (10, 51)
  | MStartOk _ => (10, 11) | MTuneOk _ => (10, 31) | MConnOpen _ => (10, 40)
  end.
Definition is_conn_class (m : meth) : bool := fst (meth_ids m) =? 10.
Definition is_chan_close (m : meth) : bool := match m with MChannelClose | MChannelCloseOk => true | _ => false end.

Definition orphan (tag : string) (u : unacked) : unacked :=
  if seqb (u_ctag u) tag
  then {| u_tag := u_tag u; u_ctag := ""%string; u_queue := u_queue u; u_qid := u_qid u; u_msg := u_msg u |}
  else u.

Definition handle_method (cfg : config) (fx : fixes) (s : state) (c h : N) (m : meth) : state * list event * option aerr :=
  match get_chan s c h with
  | None => (s, [], None)
  | Some ch =>
  match m with
  (* channelMethods.go *)
  | MChannelOpen =>
    match ch_status ch with
    | ChOpen => refuse s (ConnErr ChannelErr 20 10)
    | ChClosed =>
      let ch := if fx_reopen_resets fx
                then ch <| ch_dtag := 0 |> <| ch_ctag := 0 |> <| ch_flow := true |> <| ch_cur := None |> <| ch_qos := qos0 |>
                        <| ch_cqos := qos0 |> <| ch_confirm := false |> <| ch_confirmq := [] |> <| ch_unacked := [] |>
                        <| ch_inst ::= N.succ |>
                else ch in
      ok (set_chan s c h (ch <| ch_status := ChOpen |>)) (out1 c h SChannelOpenOk)
    | _ => ok (set_chan s c h (ch <| ch_status := ChOpen |>)) (out1 c h SChannelOpenOk)
    end
  (* channelClose / channelCloseOk set the status first and then run channel.close(), which sets it again at its end;
     nothing in between reads it, so the model writes it once *)
  | MChannelClose =>
    ok (channel_close cfg s c h) (out1 c h SChannelCloseOk)
  | MChannelCloseOk =>
    ok (if fx_closeok_releases fx then channel_close cfg s c h else set_chan s c h (ch <| ch_status := ChClosed |>)) []
  | MChannelFlow a =>
    let s :=
      if Bool.eqb (ch_flow ch) a then s else
      let ch := ch <| ch_flow := a |> in
      if a then
        set_chan s c h (ch <| ch_consumers ::= map (fun cm =>
                          match c_status cm with
                          | CStopped => cm
                          | _ => fst (consume_msg (cm <| c_status := CStarted |>))
                          end) |>)
      else set_chan s c h (ch <| ch_consumers ::= map (fun cm =>
                          match c_status cm with CStopped => cm | _ => cm <| c_status := CPaused |> end) |>) in
    ok s (out1 c h (SChannelFlowOk a))
  (* exchangeMethods.go *)
  | MExDeclare name type dur ad internal passive nowait =>
    match extype_of type with
    | None => refuse s (ChanErr NotImplemented 40 10)
    | Some ty =>
      if seqb name ""%string then refuse s (ChanErr CommandInvalid 40 10) else
      let existing := alookup seqb name (exchanges s) in
      if passive then
        if nowait then ok s [] else
        match existing with
        | None => refuse s (ChanErr NotFound 40 10)
        | Some _ => ok s (out1 c h SExDeclareOk)
        end
      else if has_prefix "amq."%string name then refuse s (ChanErr AccessRefused 40 10)
      else match existing with
           | Some e =>
             if extype_eqb (e_type e) ty && Bool.eqb (e_durable e) dur && Bool.eqb (e_autodel e) ad && Bool.eqb (e_internal e) internal
             then ok s (if fx_nowait fx && nowait then [] else out1 c h SExDeclareOk)
             else refuse s (ChanErr PreconditionFailed 40 10)
           | None =>
             let e := {| e_type := ty; e_durable := dur; e_autodel := ad; e_internal := internal; e_system := false; e_bindings := [] |} in
             ok (s <| exchanges := aset seqb name e (exchanges s) |>) (if nowait then [] else out1 c h SExDeclareOk)
           end
    end
  | MExDelete name ifunused nowait =>
    if fx_not_impl fx then refuse s (ChanErr NotImplemented 40 20) else ok s []
  (* queueMethods.go *)
  | MQDeclare name dur excl ad passive nowait =>
    if seqb name ""%string then refuse s (ChanErr CommandInvalid 50 10) else
    let existing := queue_found s name in
    let lockerr := match existing with Some qu => locked qu c | None => false end in
    if passive then
      if nowait then ok s [] else
      match existing with
      | None => refuse s (ChanErr NotFound 50 10)
      | Some qu => if lockerr then refuse s (ChanErr ResourceLocked 50 10)
                   else ok s (out1 c h (SQDeclareOk name (Z.to_N (q_len qu) mod two32) (N.of_nat (List.length (q_consumers qu)))))
      end
    else
      match existing with
      | Some qu =>
        if lockerr then refuse s (ChanErr ResourceLocked 50 10)
        else if Bool.eqb (q_durable qu) dur && Bool.eqb (q_autodel qu) ad && Bool.eqb (q_excl qu) excl
             then ok s (if fx_nowait fx && nowait then [] else out1 c h (SQDeclareOk name (Z.to_N (q_len qu) mod two32) (N.of_nat (List.length (q_consumers qu)))))
             else refuse s (ChanErr PreconditionFailed 50 10)
      | None =>
        let s := set_queue (s <| next_qid ::= N.succ |>) name (new_queue (next_qid s) c dur excl ad) in
        let s := s <| exchanges ::= map (fun kv => if seqb (fst kv) ""%string then (fst kv, append_binding (snd kv) {| b_queue := name; b_key := name; b_args := [] |}) else kv) |> in
        ok s (if fx_nowait fx && nowait then [] else out1 c h (SQDeclareOk name 0 0))
      end
  | MQBind q ex key args nowait =>
    match alookup seqb ex (exchanges s) with
    | None => refuse s (ChanErr NotFound 50 20)
    | Some e =>
      if seqb ex ""%string then refuse s (ChanErr AccessRefused 50 20) else
      match queue_found s q with
      | None => refuse s (ChanErr NotFound 50 20)
      | Some qu =>
        if locked qu c then refuse s (ChanErr ResourceLocked 50 20) else
        if bad_xmatch args then refuse s (ChanErr PreconditionFailed 50 20) else
        if extype_eqb (e_type e) ExTopic && bad_pattern key then refuse s (ChanErr PreconditionFailed 50 20) else
        let e := append_binding e {| b_queue := q; b_key := key; b_args := args |} in
        ok (s <| exchanges := aset seqb ex e (exchanges s) |>) (if nowait then [] else out1 c h SQBindOk)
      end
    end
  | MQUnbind q ex key args =>
    match alookup seqb ex (exchanges s) with
    | None => refuse s (ChanErr NotFound 50 50)
    | Some e =>
      match queue_found s q with
      | None => refuse s (ChanErr NotFound 50 50)
      | Some qu =>
        if locked qu c then refuse s (ChanErr ResourceLocked 50 50) else
        if bad_xmatch args then refuse s (ChanErr PreconditionFailed 50 50) else
        if extype_eqb (e_type e) ExTopic && bad_pattern key then refuse s (ChanErr PreconditionFailed 50 50) else
        let e := remove_binding e {| b_queue := q; b_key := key; b_args := args |} in
        ok (s <| exchanges := aset seqb ex e (exchanges s) |>) (out1 c h SQUnbindOk)
      end
    end
  | MQPurge q nowait =>
    match queue_found s q with
    | None => refuse s (ChanErr NotFound 50 30)
    | Some qu =>
      if locked qu c then refuse s (ChanErr ResourceLocked 50 30) else
      let len := q_len qu in
      let s := if q_durable qu then store_purge s q else s in
      let s := s <| srv_total ::= fun z => (z - len)%Z |> <| srv_ready ::= fun z => (z - len)%Z |> in
      let s := set_queue s q (qu <| q_ready := [] |> <| q_len := 0%Z |> <| q_mtotal ::= fun z => (z - len)%Z |> <| q_mready ::= fun z => (z - len)%Z |>) in
      ok s (if nowait then [] else out1 c h (SQPurgeOk (Z.to_N len mod two32)))
    end
  | MQDelete q ifunused ifempty nowait =>
    match queue_found s q with
    | None => refuse s (ChanErr NotFound 50 40)
    | Some qu =>
      if locked qu c then refuse s (ChanErr ResourceLocked 50 40) else
      let '(s, evs, r) := vhost_delete_queue (negb (fx_delete_checks_first fx)) s q ifunused ifempty in
      match r with
      | None => refuse s (ChanErr PreconditionFailed 50 40)
      | Some n => ok s (evs ++ (if fx_nowait fx && nowait then [] else out1 c h (SQDeleteOk (n mod two32))))
      end
    end
  (* basicMethods.go *)
  | MQos count size glob =>
    let s :=
      if cfg_rabbit cfg then
        if glob then set_chan s c h (ch <| ch_qos ::= fun w => qos_update w count size |>)
        else set_chan s c h (ch <| ch_cqos ::= fun w => qos_update w count size |>)
      else if glob then match get_conn s c with
                        | Some cn => s <| conns := aset N.eqb c (cn <| cn_qos ::= fun w => qos_update w count size |>) (conns s) |>
                        | None => s
                        end
           else set_chan s c h (ch <| ch_qos ::= fun w => qos_update w count size |>) in
    ok (wake_consumers cfg s c h) (out1 c h SQosOk)
  | MPublish ex key mand imm =>
    if imm then refuse s (ChanErr NotImplemented 60 40) else
    match alookup seqb ex (exchanges s) with
    | None => refuse s (ChanErr NotFound 60 40)
    | Some _ =>
      let u := next_uid s in
      let '(conf, ch) := if ch_confirm ch then (Some (c, h, ch_ctag ch + 1), ch <| ch_ctag ::= N.succ |>) else (None, ch) in
      let m := {| m_mid := 0; m_ex := ex; m_key := key; m_mand := mand; m_pers := false; m_has_header := false; m_hsize := 0; m_size := 0;
                  m_body := []; m_dc := 0; m_conf := conf; m_inst := ch_inst ch; m_expected := 0; m_actual := 0 |} in
      let s := s <| heap := aset N.eqb u m (heap s) |> <| next_uid := u + 1 |> in
      ok (set_chan s c h (ch <| ch_cur := Some u |>)) []
    end
  | MConsume q tag0 noack excl nowait =>
    let tag := eff_tag s tag0 in
    match queue_found s q with
    | None => refuse s (ChanErr NotFound 60 20)
    | Some qu =>
      if fx_excl_owner fx && locked qu c then refuse s (ChanErr ResourceLocked 60 20) else
      match find_consumer ch tag with
      | Some _ => refuse s (ChanErr NotAllowed 60 20)
      | None =>
        (* Queue.AddConsumer *)
        let qu := qu <| q_wasconsumed := true |> in
        if negb (Nat.eqb (List.length (q_consumers qu)) 0) && (q_cexcl qu || excl)
        then refuse (set_queue s q qu) (ChanErr AccessRefused 60 20)
        else
          let qu := if excl then qu <| q_cexcl := true |> else qu in
          let qu := call_consumers (qu <| q_consumers ::= fun l => l ++ [(c, h, tag)] |>) in
          let s := set_queue s q qu in
          let cm := {| c_id := next_cid s; c_tag := tag; c_queue := q; c_noack := noack; c_status := CStarted;
                       c_token := true; c_own := ch_cqos ch |} in
          let s := s <| next_cid ::= N.succ |> in
          let s := if seqb tag0 ""%string then s <| next_gen ::= N.succ |> else s in
          let s := set_chan s c h (ch <| ch_consumers ::= fun l => l ++ [cm] |>) in
          ok s (if nowait then [] else out1 c h (SConsumeOk tag))
      end
    end
  | MCancel tag nowait =>
    match find_consumer ch tag with
    | None => refuse s (ChanErr NotFound 60 30)
    | Some _ =>
      let s := consumer_stop s c h tag in
      let s := upd_chan s c h (fun ch => ch <| ch_consumers ::= filter (fun cm => negb (seqb (c_tag cm) tag)) |>) in
      (* the consumer's unsettled deliveries no longer belong to the tag (a consumer started later under the same tag
         has its own window): they are settled like the deliveries of a basic.get *)
      let s := upd_chan s c h (fun ch => ch <| ch_unacked ::= map (orphan tag) |>) in
      ok s (if fx_nowait fx && nowait then [] else out1 c h (SCancelOk tag))
    end
  | MGet q noack =>
    match queue_found s q with
    | None => refuse s (ChanErr NotFound 60 70)
    | Some qu =>
      if fx_excl_owner fx && locked qu c then refuse s (ChanErr ResourceLocked 60 70) else
      match q_ready qu with
      | [] => ok s (out1 c h SGetEmpty)
      | u :: rest =>
        let size := msg_size s u mod two32 in
        let cnq := match get_conn s c with Some cn => cn_qos cn | None => qos0 end in
        let '(okr, ws) := if noack then (Some [], []) else reserve (cfg_rollback cfg) [ch_qos ch; cnq] size in
        let s := match ws with
                 | [w1; w2] => let s := set_chan s c h (ch <| ch_qos := w1 |>) in
                               match get_conn s c with
                               | Some cn => s <| conns := aset N.eqb c (cn <| cn_qos := w2 |>) (conns s) |>
                               | None => s
                               end
                 | _ => s
                 end in
        match okr with
        | None => ok s (out1 c h SGetEmpty)
        | Some _ =>
          let s := upd_queue s q (popped rest) in
          let dtag := match get_chan s c h with Some ch => ch_dtag ch + 1 | None => 0 end in
          let s := upd_chan s c h (fun ch => ch <| ch_dtag := dtag |>) in
          let s := if noack
                   then (if fx_noack_total_once fx
                         then upd_queue (queue_ackmsg s q u <| srv_unacked ::= Z.succ |>) q (fun qu => qu <| q_munacked ::= Z.succ |>)
                         else upd_queue (s <| srv_total ::= Z.pred |>) q (fun qu => qu <| q_mtotal ::= Z.pred |>))
                   else upd_queue (upd_chan s c h (fun ch => ch <| ch_unacked ::= fun l => l ++ [{| u_tag := dtag; u_ctag := ""%string; u_queue := q; u_qid := qid_of s q; u_msg := u |}] |>)
                                    <| srv_unacked ::= Z.succ |>) q (fun qu => qu <| q_munacked ::= Z.succ |>) in
          let s := s <| srv_ready ::= Z.pred |> in
          (* the heap always holds a queued message (the heap is the model's rendering of Go pointers); the None branch
             keeps the reply structure so that theorems about replies need no heap invariant *)
          let evs := match get_msg s u with
                     | Some m => out1 c h (SGetOk dtag (if fx_redelivered fx then 0 <? m_dc m else false) (m_ex m) (m_key m)
                                                  (if fx_get_count fx then Z.to_N (q_len qu - 1) mod two32 else 1))
                                 ++ content_frames s c h u
                     | None => out1 c h (SGetOk dtag false ""%string ""%string 0)
                     end in
          ok s evs
        end
      end
    end
  | MAck tag mult => let '(s, e) := handle_ack cfg s c h tag mult in (s, [], e)
  | MNack tag mult requeue => let '(s, e) := handle_reject cfg s c h tag mult requeue 60 120 in (s, [], e)
  | MReject tag requeue => let '(s, e) := handle_reject cfg s c h tag false requeue 60 90 in (s, [], e)
  | MRecover requeue => refuse s (ConnErr NotImplemented 60 110)
  (* confirmMethods.go *)
  | MConfirmSelect nowait =>
    ok (set_chan s c h (ch <| ch_confirm := true |> <| ch_ticker := true |>)) (if nowait then [] else out1 c h SConfirmSelectOk)
  | MTxSelect => if fx_not_impl fx then refuse s (ConnErr NotImplemented 90 10) else ok s []
  (* connectionMethods.go *)
  | MConnClose => ok s (out1 c h SConnCloseOk)
  | MConnCloseOk => ok s []
  (* the handshake steps (their order is checked by the caller, checkMethodAllowed) *)
  | MStartOk good =>
    if good then ok (set_stage s c StTune) (out1 c h SConnTune) else refuse s (ConnErr NotAllowed 10 11)
  | MTuneOk within =>
    if within then ok (set_stage s c StTuneOk) [] else refuse s (ConnErr NotAllowed 10 31)
  | MConnOpen vhost_ok =>
    if vhost_ok then ok (set_stage s c StOpen) (out1 c h SConnOpenOk) else refuse s (ConnErr InvalidPath 10 40)
  end
  end.

(* ------------------------------------------------------------------ *)
(* connection teardown (connection.go: close) *)
Definition sort_desc_N (l : list N) : list N :=
  fold_right (fun x acc => let fix ins l := match l with [] => [x] | y :: t => if y <? x then x :: l else y :: ins t end in ins acc) [] l.

Definition conn_close (cfg : config) (fx : fixes) (s : state) (c : N) : state * list event :=
  match get_conn s c with
  | None => (s, [])
  | Some cn =>
    let ids := sort_desc_N (map fst (cn_chans cn)) in
    let s := fold_left (fun s h => channel_close cfg s c h) ids s in
    (* clearQueues: exclusive queues owned by the connection *)
    let owned := map fst (filter (fun kv => q_excl (snd kv) && (q_owner (snd kv) =? c)) (queues s)) in
    let '(s, evs) := fold_left (fun acc qn => let '(s, evs) := acc in
                                             let '(s', e, _) := vhost_delete_queue (negb (fx_delete_checks_first fx)) s qn false false in
                                             (s', evs ++ e)) owned (s, []) in
    (s <| conns := adel N.eqb c (conns s) |>, evs ++ out1 c 0 SConnGone)
  end.

(* events addressed to a connection that no longer exists are dropped *)
Definition live_events (s : state) (evs : list event) : list event :=
  filter (fun e => let '(c, _, f) := e in
                   match f with SConnGone => true | _ => match get_conn s c with Some _ => true | None => false end end) evs.

(* ------------------------------------------------------------------ *)
(* restart (server.Stop, then NewServer + Start on the same storage; vhost.go: NewVhost): durable exchanges and queues
   come back with the bindings between them, each durable queue holds exactly its stored messages in message-id
   order, everything else is gone *)
Definition sort_asc_N (l : list N) : list N := rev (sort_desc_N l).
Definition stored_of (s : state) (qn : string) : list N :=
  sort_asc_N (map fst (filter (fun k => seqb (snd k) qn) (st_db s))).
Definition restart (cfg : config) (s : state) : state * list event :=
  let durq := filter (fun kv => q_durable (snd kv)) (queues s) in
  let rq (kv : string * queue) :=
    let l := stored_of s (fst kv) in
    let n := Z.of_nat (List.length l) in
    (fst kv, new_queue (q_id (snd kv)) 0 true false (q_autodel (snd kv))
               <| q_ready := l |> <| q_len := n |> <| q_mready := n |> <| q_mtotal := n |>) in
  let queues' := map rq durq in
  let keepb (b : binding) := existsb (fun kv => seqb (fst kv) (b_queue b)) durq in
  (* the stored form of an exchange is its name and type (exchange.go: Marshal): a durable exchange that was declared
     auto-delete or internal comes back plain (finding F22) *)
  let exs := map (fun kv => (fst kv, (if e_system (snd kv) then snd kv else (snd kv) <| e_autodel := false |> <| e_internal := false |>)
                                        <| e_bindings ::= filter keepb |>))
                 (filter (fun kv => e_system (snd kv) || e_durable (snd kv)) (exchanges s)) in
  let total := fold_left (fun z kv => (z + q_len (snd kv))%Z) queues' 0%Z in
  ({| conns := []; queues := queues'; exchanges := exs;
      heap := map (fun kv => (fst kv, (snd kv) <| m_conf := None |>)) (heap s);
      next_uid := next_uid s; next_cid := next_cid s; next_qid := next_qid s; next_gen := next_gen s; autodel := [];
      st_add := []; st_db := filter (fun k => existsb (fun kv => seqb (fst kv) (snd k)) durq) (st_db s); st_del := []; relay := [];
      srv_ready := total; srv_unacked := 0; srv_total := total |},
   map (fun kv => (fst kv, 0, SConnGone)) (conns s)).

(* ------------------------------------------------------------------ *)
(* the step function *)
Definition ensure_chan (s : state) (c h : N) : state :=
  match get_conn s c with
  | Some cn => match alookup N.eqb h (cn_chans cn) with
               | Some _ => s
               | None => s <| conns := aset N.eqb c (cn <| cn_chans := aset N.eqb h channel0 (cn_chans cn) |>) (conns s) |>
               end
  | None => s
  end.

Definition apply_err (s : state) (c h : N) (r : state * list event * option aerr) : state * list event :=
  let '(s, evs, e) := r in
  match e with
  | None => (s, evs)
  | Some e => let '(s, evs') := send_error s c h e in (s, evs ++ evs')
  end.

(* channel.sendError on a connection that has not completed the handshake: the close frame goes out and the
   connection is dropped with it (no close-ok is awaited) *)
Definition apply_err_st (cfg : config) (fx : fixes) (opened : bool) (s : state) (c h : N) (r : state * list event * option aerr)
  : state * list event :=
  if opened then apply_err s c h r else
  match snd r with
  | Some (ConnErr _ _ _) => let '(s1, e1) := apply_err s c h r in let '(s2, e2) := conn_close cfg fx s1 c in (s2, e1 ++ e2)
  | _ => apply_err s c h r
  end.

(* checkMethodAllowed: the handshake methods are accepted in order only *)
Definition stage_allows (st : cstage) (m : meth) : bool :=
  match m with
  | MStartOk _ => cstage_eqb st StStart
  | MTuneOk _ => cstage_eqb st StTune
  | MConnOpen _ => cstage_eqb st StTuneOk
  | _ => true
  end.

(* the channel was opened and not closed since (or the broker is closing it) *)
Definition chan_usable (s : state) (c h : N) : bool :=
  match get_chan s c h with
  | Some ch => match ch_status ch with ChOpen | ChClosing => true | _ => false end
  | None => false
  end.

Definition step (cfg : config) (fx : fixes) (s : state) (l : label) : state * list event :=
  match l with
  | LConnect c =>
    match get_conn s c with
    | Some _ => (s, [])
    | None => (s <| conns := aset N.eqb c {| cn_chans := [(0, channel0 <| ch_status := ChNew |>)]; cn_qos := qos0; cn_stage := StOpen |} (conns s) |>, [])
    end
  | LBadMethod c h =>
    match get_conn s c with
    | None => (s, [])
    | Some cn0 =>
      let opened := cstage_eqb (cn_stage cn0) StOpen in
      if negb opened && negb (h =? 0) then conn_close cfg fx s c else
      let s := ensure_chan s c h in
      apply_err_st cfg fx opened s c h (refuse s (ConnErr FrameError 0 0))
    end
  | LHeartbeat c h =>
    match get_conn s c with
    | None => (s, [])
    | Some _ => if h =? 0 then (s, []) else conn_close cfg fx s c
    end
  | LRestart => restart cfg s
  | LAccept c =>
    match get_conn s c with
    | Some _ => (s, [])
    | None => (s <| conns := aset N.eqb c {| cn_chans := [(0, channel0 <| ch_status := ChNew |>)]; cn_qos := qos0; cn_stage := StStart |} (conns s) |>,
               out1 c 0 SConnStart)
    end
  | LMethod c h m =>
    match get_conn s c with
    | None => (s, [])
    | Some cn0 =>
      let opened := cstage_eqb (cn_stage cn0) StOpen in
      (* connection.handleIncoming: a frame on a non-zero channel of a connection that has not completed the handshake
         ends the connection without a word *)
      if negb opened && negb (h =? 0) then conn_close cfg fx s c else
      let s := ensure_chan s c h in
      match m with
      | MConnCloseOk => if fx_stage fx && negb (h =? 0) then apply_err s c h (refuse s (ConnErr CommandInvalid 10 51)) else conn_close cfg fx s c
      | MConnClose =>
        if fx_stage fx && negb (h =? 0) then apply_err s c h (refuse s (ConnErr CommandInvalid 10 50)) else
        let '(s', evs) := conn_close cfg fx s c in (s', out1 c h SConnCloseOk ++ evs)
      | _ =>
        let closing := match get_chan s c h with Some ch => match ch_status ch with ChClosing => true | _ => false end | None => false end in
        if fx_discard_closing fx && closing && negb (is_chan_close m) then (s, [])
        else if fx_stage fx && negb (Bool.eqb (is_conn_class m) (h =? 0))
             then apply_err_st cfg fx opened s c h (refuse s (ConnErr CommandInvalid (fst (meth_ids m)) (snd (meth_ids m))))
             else if fx_stage fx && negb (stage_allows (cn_stage cn0) m)
                  then apply_err_st cfg fx opened s c h (refuse s (ConnErr CommandInvalid (fst (meth_ids m)) (snd (meth_ids m))))
                  else if fx_chan_open fx && negb (is_conn_class m) && negb (chan_usable s c h) && negb (match m with MChannelOpen => true | _ => false end)
                       then apply_err s c h (refuse s (ConnErr ChannelErr (fst (meth_ids m)) (snd (meth_ids m))))
                       else apply_err_st cfg fx opened s c h (handle_method cfg fx s c h m)
      end
    end
  | LHeader c h mid size pers =>
    match get_conn s c with
    | None => (s, [])
    | Some cn0 =>
      let opened := cstage_eqb (cn_stage cn0) StOpen in
      if negb opened && negb (h =? 0) then conn_close cfg fx s c else
      let s := ensure_chan s c h in
      match get_chan s c h with
      | None => (s, [])
      | Some ch =>
        if fx_discard_closing fx && (match ch_status ch with ChClosing => true | _ => false end) then (s, []) else
        match ch_cur ch with
        | None => apply_err_st cfg fx opened s c h (refuse s (ConnErr FrameError 0 0))
        | Some u =>
          match get_msg s u with
          | None => (s, [])
          | Some m =>
            if m_has_header m then apply_err_st cfg fx opened s c h (refuse s (ConnErr FrameError 0 0))
            else
              let s := upd_msg s u (fun m => m <| m_has_header := true |> <| m_hsize := size |> <| m_pers := pers |> <| m_mid := mid |>) in
              if fx_empty_body fx && (size =? 0) then finish_publish fx s c h u else (s, [])
          end
        end
      end
    end
  | LBody c h len =>
    match get_conn s c with
    | None => (s, [])
    | Some cn0 =>
      let opened := cstage_eqb (cn_stage cn0) StOpen in
      if negb opened && negb (h =? 0) then conn_close cfg fx s c else
      let s := ensure_chan s c h in
      match get_chan s c h with
      | None => (s, [])
      | Some ch =>
        if fx_discard_closing fx && (match ch_status ch with ChClosing => true | _ => false end) then (s, []) else
        match ch_cur ch with
        | None => apply_err_st cfg fx opened s c h (refuse s (ConnErr FrameError 0 0))
        | Some u =>
          match get_msg s u with
          | None => (s, [])
          | Some m =>
            if negb (m_has_header m) then apply_err_st cfg fx opened s c h (refuse s (ConnErr FrameError 0 0))
            else if m_hsize m <? m_size m + len then
              (* more content than announced (F55 repaired): the message is dropped *)
              apply_err_st cfg fx opened s c h (refuse (upd_chan s c h (fun ch => ch <| ch_cur := None |>)) (ConnErr FrameError 0 0))
            else
              let s := upd_msg s u (fun m => m <| m_body ::= fun b => b ++ [len] |> <| m_size ::= fun z => z + len |>) in
              if (m_size m + len) <? m_hsize m then (s, []) else finish_publish fx s c h u
          end
        end
      end
    end
  | LConsumerTurn c h tag => consumer_turn cfg fx s c h tag
  | LQueueLoop q => (queue_loop_turn s q, [])
  | LAutoDelete =>
    match autodel s with
    | [] => (s, [])
    | qn :: rest =>
      let s := s <| autodel := rest |> in
      (* by now the queue that asked for this may be gone and its name taken by another queue, or it may have
         consumers again: only a queue that is (still) auto-delete and unused is deleted *)
      match get_queue s qn with
      | Some qu =>
        if q_autodel qu
        then let '(s, evs, _) := vhost_delete_queue (negb (fx_delete_checks_first fx)) s qn true false in (s, evs)
        else (s, [])
      | None => (s, [])
      end
    end
  | LPersistTick =>
    (* msgstorage.persist: a delete cancels a pending add of the same key; adds are written; every add - written or
       cancelled - counts one confirmation of its message, and the one completing it relays the message *)
    let add := filter (fun k => negb (existsb (fun d => (fst d =? fst k) && seqb (snd d) (snd k)) (st_del s))) (st_add s) in
    let settled := filter (fun k => existsb (fun d => (fst d =? fst k) && seqb (snd d) (snd k)) (st_del s)) (st_add s) in
    let del := filter (fun d => negb (existsb (fun k => (fst d =? fst k) && seqb (snd d) (snd k)) (st_add s))) (st_del s) in
    (* the store is a map: an add of a key that is already there (written back by a requeue meanwhile) replaces it *)
    let fresh := filter (fun k => negb (existsb (fun d => (fst d =? fst k) && seqb (snd d) (snd k)) (st_db s))) add in
    let db := filter (fun k => negb (existsb (fun d => (fst d =? fst k) && seqb (snd d) (snd k)) del)) (st_db s ++ fresh) in
    let s := s <| st_db := db |> <| st_add := [] |> <| st_del := [] |> in
    (fold_left (fun s k => store_confirm s (fst k)) (add ++ settled) s, [])
  | LRelay =>
    match relay s with
    | [] => (s, [])
    | u :: rest =>
      let s := s <| relay := rest |> in
      match get_msg s u with
      | Some m => match m_conf m with
                  | Some (c, h, t) => (add_confirm s c h (live_conf s m), [])
                  | None => (s, [])
                  end
      | None => (s, [])
      end
    end
  | LConfirmTick c h =>
    match get_chan s c h with
    | None => (s, [])
    | Some ch =>
      if negb (ch_ticker ch) then (s, []) else
      match ch_status ch with
      | ChClosed => (set_chan s c h (ch <| ch_ticker := false |>), [])
      | _ => (set_chan s c h (ch <| ch_confirmq := [] |>), map (fun t => (c, h, SAck t false)) (ch_confirmq ch))
      end
    end
  | LSocketLoss c => let '(s', evs) := conn_close cfg fx s c in (s', evs)
  end.

Definition init_exchanges (cfg : config) : list (string * exchange) :=
  let sys t := {| e_type := t; e_durable := true; e_autodel := false; e_internal := false; e_system := true; e_bindings := [] |} in
  [("amq.direct"%string, sys ExDirect); ("amq.fanout"%string, sys ExFanout); ("amq.topic"%string, sys ExTopic);
   ((if cfg_rabbit cfg then "amq.header"%string else "amq.headers"%string), sys ExHeaders); (""%string, sys ExDirect)].

Definition init (cfg : config) : state :=
  {| conns := []; queues := []; exchanges := init_exchanges cfg; heap := []; next_uid := 1; next_cid := 1; next_qid := 1; next_gen := 1; autodel := [];
     st_add := []; st_db := []; st_del := []; relay := []; srv_ready := 0; srv_unacked := 0; srv_total := 0 |}.

Fixpoint run (cfg : config) (fx : fixes) (s : state) (ls : list label) : state * list event :=
  match ls with
  | [] => (s, [])
  | l :: t => let '(s1, e1) := step cfg fx s l in let '(s2, e2) := run cfg fx s1 t in (s2, e1 ++ e2)
  end.

(* ------------------------------------------------------------------ *)
(* enabled internal labels, in the canonical order used by the T1 correspondence *)
Definition enabled_internal (s : state) : list label :=
  map (fun kv => LQueueLoop (fst kv)) (filter (fun kv => q_call (snd kv)) (queues s)) ++
  flat_map (fun ckv => flat_map (fun hkv =>
     map (fun cm => LConsumerTurn (fst ckv) (fst hkv) (c_tag cm)) (filter c_token (ch_consumers (snd hkv)))) (cn_chans (snd ckv))) (conns s) ++
  (match autodel s with [] => [] | _ => [LAutoDelete] end) ++
  (match st_add s, st_del s with [], [] => [] | _, _ => [LPersistTick] end) ++
  (match relay s with [] => [] | _ => [LRelay] end) ++
  flat_map (fun ckv => flat_map (fun hkv =>
     match ch_confirmq (snd hkv) with [] => [] | _ => if ch_ticker (snd hkv) then [LConfirmTick (fst ckv) (fst hkv)] else [] end)
     (cn_chans (snd ckv))) (conns s).

Definition quiescent (s : state) : bool := match enabled_internal s with [] => true | _ => false end.

Fixpoint drain (cfg : config) (fx : fixes) (fuel : nat) (s : state) : state * list event :=
  match fuel with
  | O => (s, [])
  | S f =>
    match enabled_internal s with
    | [] => (s, [])
    | l :: _ => let '(s1, e1) := step cfg fx s l in let '(s2, e2) := drain cfg fx f s1 in (s2, e1 ++ e2)
    end
  end.
