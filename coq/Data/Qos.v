(* Hand model of /repo/qos/qos.go (the prefetch window) and of the reservation
   loop of queue.PopQos (/repo/queue/queue.go).  Definitions only.

   INTERFACE (what the broker-level development imports)
     qos                       record: prefetchCount currentCount prefetchSize currentSize : N
                               (uint16, uint16, uint32, uint32 in Go; [qos_wf] says "in range")
     qos_new pc ps             NewAmqpQos
     qos_update q pc ps        Update      (keeps the current values)
     qos_is_active q           IsActive    (pc <> 0 || ps <> 0)
     qos_inc q count size      Inc         : bool * qos   (false => state unchanged)
     qos_dec q count size      Dec         : qos          (saturates at 0)
     qos_release q             Release
     qos_copy q                Copy
     body_size32 n             uint32(message.BodySize)   (the callers' conversion: n mod 2^32)
     reserve rb ws size        the window loop of PopQos over the window list [ws] for a head
                               message of body size [size] : bool * list qos.  EVERY window is
                               charged (1, uint32 size), also one without limits (/repo 9fdcd31).
                               [rb] = QosGen.popqos_rolls_back (regenerated from the source):
                               true  = a refusal undoes the charges already made (repaired code),
                               false = it leaves them (defect F02).
     reserve_gen rb skip ws size  the same with [skip] = QosGen.popqos_skips_inactive: true = windows
                               without limits are skipped (the loop before 9fdcd31, defect F49).
     release_all ws size       decQosAndConsumeNext's loop: Dec(1, uint32 size) on every window.
   Arithmetic is Go's: uint16/uint32 wrap is explicit ([mod 65536], [mod 4294967296]).
   Arguments [count]/[size] of inc/dec are the Go parameters (uint16/uint32): callers
   pass values in range.  Every function is pinned to the source: Proofs/QosProofs.v
   proves QosGen.f = Qos.f (QosGen.v is translated from qos.go on every run), and the
   theorems of Props/C06_qos.v are stated over the generated functions.

   Not modelled: the mutex embedded in AmqpQos (every method is one atomic step);
   aliasing (a window list holds distinct windows, as addConsumer/basicGet build it). *)
From Coq Require Import List NArith Bool.
Import ListNotations.
Open Scope N_scope.

Record qos := mkQos { prefetchCount : N; currentCount : N; prefetchSize : N; currentSize : N }.

(* field assignment  q.f = v  *)
Definition set_prefetchCount (q : qos) (v : N) := mkQos v (currentCount q) (prefetchSize q) (currentSize q).
Definition set_currentCount (q : qos) (v : N) := mkQos (prefetchCount q) v (prefetchSize q) (currentSize q).
Definition set_prefetchSize (q : qos) (v : N) := mkQos (prefetchCount q) (currentCount q) v (currentSize q).
Definition set_currentSize (q : qos) (v : N) := mkQos (prefetchCount q) (currentCount q) (prefetchSize q) v.

Definition qos_wf (q : qos) : Prop :=
  prefetchCount q < 65536 /\ currentCount q < 65536 /\ prefetchSize q < 4294967296 /\ currentSize q < 4294967296.

Definition qos_new (prefetchCount : N) (prefetchSize : N) : qos :=
  mkQos prefetchCount 0 prefetchSize 0.

Definition qos_update (q : qos) (prefetchCount : N) (prefetchSize : N) : qos :=
  let q := set_prefetchCount q prefetchCount in
  let q := set_prefetchSize q prefetchSize in
  q.

Definition qos_is_active (q : qos) : bool :=
  negb (prefetchCount q =? 0) || negb (prefetchSize q =? 0).

Definition qos_inc (q : qos) (count : N) (size : N) : bool * qos :=
  let newCount := (currentCount q + count) mod 65536 in
  let newSize := (currentSize q + size) mod 4294967296 in
  if ((prefetchCount q =? 0) || (newCount <=? prefetchCount q)) &&
     ((prefetchSize q =? 0) || (newSize <=? prefetchSize q))
  then
    let q := set_currentCount q newCount in
    let q := set_currentSize q newSize in
    (true, q)
  else (false, q).

Definition qos_dec (q : qos) (count : N) (size : N) : qos :=
  let q := if currentCount q <? count
           then set_currentCount q 0
           else set_currentCount q ((currentCount q + 65536 - count) mod 65536) in
  let q := if currentSize q <? size
           then set_currentSize q 0
           else set_currentSize q ((currentSize q + 4294967296 - size) mod 4294967296) in
  q.

Definition qos_release (q : qos) : qos :=
  let q := set_currentCount q 0 in
  let q := set_currentSize q 0 in
  q.

Definition qos_copy (q : qos) : qos :=
  mkQos (prefetchCount q) (currentCount q) (prefetchSize q) (currentSize q).

(* uint32(message.BodySize) *)
Definition body_size32 (n : N) : N := n mod 4294967296.

(* PopQos, the loop over qosList (the head message exists):
     allowed := true
     for _, q := range qosList {
        [if !q.IsActive() { continue }]                              <- [skip]: gone since /repo 9fdcd31
        if !q.Inc(1, uint32(message.BodySize)) { allowed = false; [undo the charged ones;] break }
     }
   [charged] are the windows already visited (in order), [ws] the ones still to visit.
   The repaired code remembers the windows it charged and calls Dec(1, size) on each of
   them when a later window refuses ([rb]).  Both shapes of the loop are regenerated from the
   source as booleans (QosGen.popqos_rolls_back, QosGen.popqos_skips_inactive). *)
Fixpoint undo_charges (charged : list (bool * qos)) (sz : N) : list qos :=
  match charged with
  | [] => []
  | (true, q) :: t => qos_dec q 1 sz :: undo_charges t sz
  | (false, q) :: t => q :: undo_charges t sz
  end.

Fixpoint reserve_loop (rb skip : bool) (charged : list (bool * qos)) (ws : list qos) (sz : N) : bool * list qos :=
  match ws with
  | [] => (true, map snd charged)
  | q :: t =>
    if skip && negb (qos_is_active q) then reserve_loop rb skip (charged ++ [(false, q)]) t sz
    else
      let '(ok, q') := qos_inc q 1 sz in
      if ok then reserve_loop rb skip (charged ++ [(true, q')]) t sz
      else (false, (if rb then undo_charges charged sz else map snd charged) ++ q' :: t)
  end.

Definition reserve_gen (rb skip : bool) (ws : list qos) (size : N) : bool * list qos :=
  reserve_loop rb skip [] ws (body_size32 size).

(* the loop as the code stands: every window of the list is charged, also one without limits *)
Definition reserve (rb : bool) (ws : list qos) (size : N) : bool * list qos := reserve_gen rb false ws size.

(* decQosAndConsumeNext: every window of the delivery gets Dec(1, uint32(size)) *)
Definition release_all (ws : list qos) (size : N) : list qos :=
  map (fun q => qos_dec q 1 (body_size32 size)) ws.

(* ---- specification side (used by the statements of Props/C06_qos.v) ---------- *)

(* the limits admit a further charge of (c, s): a limit of 0 means "no limit" *)
Definition qos_admits (q : qos) (c s : N) : bool :=
  ((prefetchCount q =? 0) || (currentCount q + c <=? prefetchCount q)) &&
  ((prefetchSize q =? 0) || (currentSize q + s <=? prefetchSize q)).

(* the charge (c, s) does not wrap the uint16 / uint32 counters (defect F32 otherwise) *)
Definition qos_no_wrap (q : qos) (c s : N) : bool :=
  (currentCount q + c <? 65536) && (currentSize q + s <? 4294967296).

(* the window after a charge of exactly (c, s) *)
Definition qos_charged (q : qos) (c s : N) : qos :=
  mkQos (prefetchCount q) (currentCount q + c) (prefetchSize q) (currentSize q + s).

(* the window after releasing exactly (c, s) *)
Definition qos_released (q : qos) (c s : N) : qos :=
  mkQos (prefetchCount q) (currentCount q - c) (prefetchSize q) (currentSize q - s).

(* what a successful PopQos did to a window while it skipped windows without limits (before 9fdcd31) *)
Definition charge_if_active (sz : N) (q : qos) : qos :=
  if qos_is_active q then qos_charged q 1 sz else q.

(* The ledger: a window driven by deliveries (Inc(1, size); a successful one is an
   outstanding charge), settlements of outstanding charges (Dec(1, its size)) and
   basic.qos updates.  [snd] of the state is the list of outstanding charges. *)
Inductive led_op :=
| LDeliver (size : N)     (* delivery attempt of a body of that size *)
| LSettle (k : nat)       (* settle the k-th outstanding charge (no-op if there is none) *)
| LUpdate (pc ps : N).    (* Update(pc, ps) *)

Definition led_state := (qos * list N)%type.

Fixpoint remove_nth {A} (k : nat) (l : list A) : list A :=
  match l, k with
  | [], _ => []
  | _ :: t, O => t
  | h :: t, S k' => h :: remove_nth k' t
  end.

Definition sumN (l : list N) : N := fold_right N.add 0 l.

Definition led_step (inc : qos -> N -> N -> bool * qos) (dec : qos -> N -> N -> qos)
           (upd : qos -> N -> N -> qos) (st : led_state) (o : led_op) : led_state :=
  match o with
  | LDeliver s => let '(ok, q') := inc (fst st) 1 s in if ok then (q', snd st ++ [s]) else (q', snd st)
  | LSettle k => match nth_error (snd st) k with
                 | Some s => (dec (fst st) 1 s, remove_nth k (snd st))
                 | None => st
                 end
  | LUpdate pc ps => (upd (fst st) pc ps, snd st)
  end.

Definition led_run inc dec upd (st : led_state) (ops : list led_op) : led_state :=
  fold_left (led_step inc dec upd) ops st.

(* no-wrap hypothesis on a whole run, as a boolean: every delivery attempt finds fewer than
   65535 outstanding charges and outstanding bytes + its size below 2^32; sizes and limits
   are uint32 / uint16 values *)
Fixpoint led_nowrap inc dec upd (st : led_state) (ops : list led_op) : bool :=
  match ops with
  | [] => true
  | o :: t =>
    (match o with
     | LDeliver s => (N.of_nat (length (snd st)) + 1 <? 65536) && (sumN (snd st) + s <? 4294967296)
     | LSettle _ => true
     | LUpdate pc ps => (pc <? 65536) && (ps <? 4294967296)
     end) && led_nowrap inc dec upd (led_step inc dec upd st o) t
  end.

(* every count limit in force during the run (the initial one and every update) lies in 1..n *)
Definition count_limits_within (n pc0 : N) (ops : list led_op) : bool :=
  (0 <? pc0) && (pc0 <=? n) &&
  forallb (fun o => match o with LUpdate pc _ => (0 <? pc) && (pc <=? n) | _ => true end) ops.

Definition size_limits_within (n ps0 : N) (ops : list led_op) : bool :=
  (0 <? ps0) && (ps0 <=? n) &&
  forallb (fun o => match o with LUpdate _ ps => (0 <? ps) && (ps <=? n) | _ => true end) ops.
