(* Model of /repo/safequeue/safequeue.go: the sharded FIFO used as the in-memory
   part of every queue.  Definitions only (no proofs) so that the runner keeps
   building when a proof breaks.

   Go state                          model
   shards [][]*Message               shards : list (list (option N))   (nil = None)
   headIdx (always 0)                -        (head shard = first shard)
   tailIdx (= len(shards)-1)         -        (tail shard = last shard)
   headPos, tailPos int              headPos, tailPos : nat
   length uint64                     len : nat (no wrap: a queue of 2^64 items
                                     does not fit in memory; stated in DESIGN)
   head/tail slice aliases           recomputed from shards

   Every function follows the statement order of the Go method of the same
   name.  [sz] is shardSize. *)
From Coq Require Import List Arith NArith Bool.
Import ListNotations.

Record sq := { shards : list (list (option N)); headPos : nat; tailPos : nat; len : nat }.

Definition blank (sz : nat) : list (option N) := repeat None sz.

Fixpoint set_nth {A} (l : list A) (n : nat) (x : A) : list A :=
  match l, n with
  | [], _ => []
  | _ :: t, 0 => x :: t
  | h :: t, S n' => h :: set_nth t n' x
  end.

Fixpoint upd_last {A} (ss : list A) (f : A -> A) : list A :=
  match ss with
  | [] => []
  | [l] => [f l]
  | h :: t => h :: upd_last t f
  end.

Definition upd_first {A} (ss : list A) (f : A -> A) : list A :=
  match ss with [] => [] | h :: t => f h :: t end.

(* NewSafeQueue *)
Definition sq_new (sz : nat) : sq :=
  {| shards := [blank sz]; headPos := 0; tailPos := 0; len := 0 |}.

(* Push: tail[tailPos] = item; tailPos++; length++; roll over to a fresh shard *)
Definition sq_push (sz : nat) (q : sq) (x : N) : sq :=
  let ss := upd_last (shards q) (fun t => set_nth t (tailPos q) (Some x)) in
  let tp := S (tailPos q) in
  if Nat.eqb tp sz
  then {| shards := ss ++ [blank sz]; headPos := headPos q; tailPos := 0; len := S (len q) |}
  else {| shards := ss; headPos := headPos q; tailPos := tp; len := S (len q) |}.

(* PushHead: if headPos == 0 prepend a fresh shard and set headPos = shardSize;
   length++; headPos--; head[headPos] = item *)
Definition sq_push_head (sz : nat) (q : sq) (x : N) : sq :=
  let ss := if Nat.eqb (headPos q) 0 then blank sz :: shards q else shards q in
  let hp := if Nat.eqb (headPos q) 0 then sz else headPos q in
  {| shards := upd_first ss (fun h => set_nth h (hp - 1) (Some x));
     headPos := hp - 1; tailPos := tailPos q; len := S (len q) |}.

(* HeadItem: head[headPos] *)
Definition sq_head_item (q : sq) : option N :=
  match shards q with [] => None | h :: _ => nth (headPos q) h None end.

(* DirtyPop / Pop *)
Definition sq_pop (sz : nat) (q : sq) : option N * sq :=
  match sq_head_item q with
  | None => (None, q)
  | Some x =>
    let ss := upd_first (shards q) (fun h => set_nth h (headPos q) None) in
    let hp := S (headPos q) in
    if Nat.eqb hp sz
    then (Some x, {| shards := tl ss; headPos := 0; tailPos := tailPos q; len := len q - 1 |})
    else (Some x, {| shards := ss; headPos := hp; tailPos := tailPos q; len := len q - 1 |})
  end.

(* DirtyPurge / Purge.  PURGE_RESETS_POS is regenerated from the source by the
   translator (Data/gen/SafeQueueGen.v): it says whether DirtyPurge assigns
   headPos and tailPos.  The hand model takes it as a parameter so that the
   un-fixed code (defect F01) has a faithful model too. *)
Definition sq_purge (resets : bool) (sz : nat) (q : sq) : sq :=
  if resets then sq_new sz
  else {| shards := [blank sz]; headPos := headPos q; tailPos := tailPos q; len := 0 |}.

(* Operations and observable outputs of the API-level runner *)
Inductive sq_op := OPush (x : N) | OPushHead (x : N) | OPop | OHead | OLen | OPurge.
Inductive sq_out := RNone | RItem (x : option N) | RLen (n : nat).

Definition sq_step (resets : bool) (sz : nat) (q : sq) (o : sq_op) : sq * sq_out :=
  match o with
  | OPush x => (sq_push sz q x, RNone)
  | OPushHead x => (sq_push_head sz q x, RNone)
  | OPop => let '(r, q') := sq_pop sz q in (q', RItem r)
  | OHead => (q, RItem (sq_head_item q))
  | OLen => (q, RLen (len q))
  | OPurge => (sq_purge resets sz q, RNone)
  end.

Fixpoint sq_run (resets : bool) (sz : nat) (q : sq) (ops : list sq_op) : sq * list sq_out :=
  match ops with
  | [] => (q, [])
  | o :: ops' =>
    let '(q1, r) := sq_step resets sz q o in
    let '(q2, rs) := sq_run resets sz q1 ops' in
    (q2, r :: rs)
  end.

(* The abstract specification: a plain list, oldest first. *)
Definition lq_step (l : list N) (o : sq_op) : list N * sq_out :=
  match o with
  | OPush x => (l ++ [x], RNone)
  | OPushHead x => (x :: l, RNone)
  | OPop => (tl l, RItem (hd_error l))
  | OHead => (l, RItem (hd_error l))
  | OLen => (l, RLen (length l))
  | OPurge => ([], RNone)
  end.

Fixpoint lq_run (l : list N) (ops : list sq_op) : list N * list sq_out :=
  match ops with
  | [] => (l, [])
  | o :: ops' =>
    let '(l1, r) := lq_step l o in
    let '(l2, rs) := lq_run l1 ops' in
    (l2, r :: rs)
  end.

(* Contents of the ring read as the code would drain it: pop until nil. *)
Fixpoint sq_drain (fuel : nat) (sz : nat) (q : sq) : list N :=
  match fuel with
  | 0 => []
  | S f => match sq_pop sz q with
           | (Some x, q') => x :: sq_drain f sz q'
           | (None, _) => []
           end
  end.
