(* Model of the queue object with its overflow-to-disk logic
   (/repo/queue/queue.go: Push, Pop/PopQos with an empty window list, Requeue, AckMsg,
   Purge, mayBeLoadFromStorage, mergeSortedMessageSlices, the queueLength counter,
   swappedToDisk / lastStoredMsgID / lastMemMsgID) over two message stores
   (/repo/msgstorage/msgstorage.go: Add / Update / Del / persist / IterateByQueueFromMsgID /
   PurgeQueue) as the code stands.  Definitions only.

   Go state                                  model
   SafeQueue (sharded ring)                  mem : list N  (ids, head first; the ring refines a list:
                                             Proofs/SafeQueueProofs.ring_refines_list, every shard size)
   msgPStorage / msgTStorage                 pst / tst : store  (this queue's keys only)
     add, update, del maps (pending)           s_add, s_upd, s_del : list N
     the engine's keys "msg.<q>.<id>"          s_flushed : list N, ascending (badger iterates keys in byte
                                               order; ids have equally many decimal digits, so = numeric)
   swappedToDisk lastStoredMsgID lastMemMsgID  swapped lastStored lastMem
   queueLength int64                         qlen : Z
   durable, maxMessagesInRAM                 qcfg
   -                                         allids : ghost, every id pushed so far in push order
   message.ID (amqp.GenerateSeq: global      the id carried by the Push label (strictly increasing, > 0:
   increasing counter, never 0)              [wf_client])
   message.IsPersistent()                    the flag carried by Push / Requeue / AckMsg labels

   Labels: one per atomic step.  Push, Requeue, AckMsg, Purge are the queue methods; Pop is
   PopQos(nil) (the window loop is Data/Qos.reserve); LoaderTurn is one run of
   mayBeLoadFromStorage (the goroutine fed by maybeLoadFromStorageCh); PersistTick b is one run
   of msgstorage.persist of the persistent (b = true) or transient store (the 20 ms ticker).
   Inside a loader turn the two store iterations run in two goroutines that share
   lastIteratedMsgID (a data race in the code); the model gives each its own last id
   (the persistent iteration finishes before the transient one starts). *)
From Coq Require Import List NArith ZArith Bool.
Import ListNotations.
Open Scope N_scope.

(* ---- msgstorage (one queue's keys) ------------------------------------------------- *)

Record store := mkStore { s_add : list N; s_upd : list N; s_del : list N; s_flushed : list N }.

Definition store_empty : store := mkStore [] [] [] [].

Definition inb (k : N) (l : list N) : bool := existsb (N.eqb k) l.
Definition minus (l d : list N) : list N := filter (fun k => negb (inb k d)) l.

(* m[key] = message on a Go map: the key set *)
Definition set_key (l : list N) (k : N) : list N := if inb k l then l else l ++ [k].

Fixpoint insert_sorted (k : N) (l : list N) : list N :=
  match l with
  | [] => [k]
  | h :: t => if k <? h then k :: l else if k =? h then l else h :: insert_sorted k t
  end.

Definition store_add (st : store) (k : N) : store := mkStore (set_key (s_add st) k) (s_upd st) (s_del st) (s_flushed st).
Definition store_update (st : store) (k : N) : store := mkStore (s_add st) (set_key (s_upd st) k) (s_del st) (s_flushed st).
Definition store_del (st : store) (k : N) : store := mkStore (s_add st) (s_upd st) (set_key (s_del st) k) (s_flushed st).

(* persist: a key both added and deleted in the window is dropped from both; deleted keys are dropped
   from the updates; then one batch: Set adds, Set updates, Del deletes *)
Definition store_persist (st : store) : store :=
  let add' := minus (s_add st) (s_del st) in
  let del' := minus (s_del st) (s_add st) in
  let upd' := minus (s_upd st) (s_del st) in
  let fl := fold_left (fun acc k => insert_sorted k acc) (add' ++ upd') (s_flushed st) in
  mkStore [] [] [] (minus fl del').

(* IterateByQueueFromMsgID -> badger Seek(from) (inclusive), at most [limit] keys (0 = no limit);
   only what persist has written is visible *)
Definition store_iter (st : store) (from limit : N) : list N :=
  let ks := filter (fun k => from <=? k) (s_flushed st) in
  if limit =? 0 then ks else firstn (N.to_nat limit) ks.

(* PurgeQueue (since /repo 390cc62): serialised with persist; every pending add of the queue is cancelled by a
   delete of the same key (the next persist confirms it and never writes it), the pending updates are dropped,
   then DeleteByPrefix on the engine *)
Definition store_purge (st : store) : store :=
  mkStore (s_add st) [] (fold_left set_key (s_add st) (s_del st)) [].

(* ---- the queue ----------------------------------------------------------------------- *)

Record qcfg := mkCfg { durable : bool; maxram : N }.

Record qstate := mkQ {
  mem : list N; pst : store; tst : store;
  swapped : bool; lastStored : N; lastMem : N; qlen : Z;
  allids : list N }.

Definition q_init : qstate := mkQ [] store_empty store_empty false 0 0 0%Z [].

Inductive label :=
| Push (id : N) (persistent : bool)
| Pop
| Requeue (id : N) (persistent : bool)
| AckMsg (id : N) (persistent : bool)
| Purge
| LoaderTurn
| PersistTick (persistent_store : bool)
| LoaderRace (id : N) (persistent : bool)    (* a loader turn with a push landing inside it, see q_loader_race *)
| Restart                                    (* graceful stop at quiescence and boot, see q_restart *)
| LoaderIterRace.                            (* a loader turn in which the data race on lastIteratedMsgID fires, see q_loader_iter_race *)

Inductive out := ONone | OPop (r : option N) | OPurge (n : Z).

Definition W64 : N := 18446744073709551616.

(* Queue.Push *)
Definition q_push (c : qcfg) (s : qstate) (id : N) (p : bool) : qstate :=
  let len := N.of_nat (length (mem s)) in
  let over := maxram c <? len in                         (* SafeQueue.Length() > maxMessagesInRAM *)
  let toP := durable c && p in
  let pst1 := if toP then store_add (pst s) id else pst s in
  let tst1 := if toP then tst s else if over || swapped s then store_add (tst s) id else tst s in
  let persisted := toP || over || swapped s in
  let start := persisted && negb (swapped s) && over in  (* the overflow begins with this message *)
  let swapped1 := if start then true else swapped s in
  let lastStored1 := if start then id else lastStored s in
  let tomem := (len <=? maxram c) && negb swapped1 in
  mkQ (if tomem then mem s ++ [id] else mem s) pst1 tst1 swapped1 lastStored1
      (if tomem then id else lastMem s) (qlen s + 1)%Z (allids s ++ [id]).

(* Queue.Pop = PopQos with no windows *)
Definition q_pop (s : qstate) : option N * qstate :=
  match mem s with
  | [] => (None, s)
  | x :: t => (Some x, mkQ t (pst s) (tst s) (swapped s) (lastStored s) (lastMem s) (qlen s - 1)%Z (allids s))
  end.

(* Queue.Requeue *)
Definition q_requeue (c : qcfg) (s : qstate) (id : N) (p : bool) : qstate :=
  mkQ (id :: mem s) (if durable c && p then store_update (pst s) id else pst s) (tst s)
      (swapped s) (lastStored s) (lastMem s) (qlen s + 1)%Z (allids s).

(* Queue.AckMsg *)
Definition q_ack (c : qcfg) (s : qstate) (id : N) (p : bool) : qstate :=
  mkQ (mem s) (if durable c && p then store_del (pst s) id else pst s) (tst s)
      (swapped s) (lastStored s) (lastMem s) (qlen s) (allids s).

(* Queue.Purge: returns queueLength; clears the ring; PurgeQueue on the persistent store of a durable
   queue (flushed keys deleted, pending adds cancelled, pending updates dropped); the transient store,
   swappedToDisk and the last ids are left as they are *)
Definition q_purge (c : qcfg) (s : qstate) : Z * qstate :=
  (qlen s, mkQ [] (if durable c then store_purge (pst s) else pst s) (tst s)
               (swapped s) (lastStored s) (lastMem s) 0%Z (allids s)).

(* mergeSortedMessageSlices *)
Fixpoint merge (a : list N) : list N -> list N :=
  fix merge_aux (b : list N) : list N :=
    match a, b with
    | [], _ => b
    | _, [] => a
    | x :: a', y :: b' => if x <? y then x :: merge a' b else y :: merge_aux b'
    end.

(* the guard of mayBeLoadFromStorage: it proceeds only below half the limit (integer division) *)
Definition loader_needle (c : qcfg) (s : qstate) : N :=
  (maxram c + W64 - N.of_nat (length (mem s))) mod W64.            (* uint64 subtraction *)

Definition loader_proceeds (c : qcfg) (s : qstate) : bool :=
  negb ((maxram c / 2 <=? N.of_nat (length (mem s))) || (loader_needle c s =? 0) || negb (swapped s)).

(* what one turn appends to the ring *)
Definition loader_loaded (c : qcfg) (s : qstate) : list N :=
  let needle := loader_needle c s in
  let pm := store_iter (pst s) (lastStored s) needle in
  let tm := store_iter (tst s) (lastStored s) needle in
  let sorted := merge pm tm in
  let n := N.of_nat (length sorted) in
  let pos := if n <=? needle then n else needle in
  filter (fun k => negb (k =? lastMem s)) (firstn (N.to_nat pos) sorted).

Definition still_swapped (lm : N) (iterated : list N) : bool :=
  negb ((N.of_nat (length iterated) =? 0) || (lm =? last iterated 0)).

Definition q_loader (c : qcfg) (s : qstate) : qstate :=
  if loader_proceeds c s then
    let needle := loader_needle c s in
    let pm := store_iter (pst s) (lastStored s) needle in
    let tm := store_iter (tst s) (lastStored s) needle in
    let ld := loader_loaded c s in
    mkQ (mem s ++ ld) (pst s) (tst s)
        (still_swapped (lastMem s) pm || still_swapped (lastMem s) tm)
        (last ld (lastStored s)) (last ld (lastMem s)) (qlen s) (allids s)
  else s.

(* The two store iterations of a loader turn run in two goroutines that both write the local variable
   lastIteratedMsgID, and each compares it with lastMemMsgID after its own iteration (a data race in the code).
   LoaderTurn gives each goroutine its own last id.  LoaderIterRace is the schedule in which the transient
   iteration runs after the persistent iteration's last callback and before the persistent goroutine's test:
   both tests then see the id the transient iteration ended on (if it iterated anything). *)
Definition q_loader_iter_race (c : qcfg) (s : qstate) : qstate :=
  if loader_proceeds c s then
    let needle := loader_needle c s in
    let pm := store_iter (pst s) (lastStored s) needle in
    let tm := store_iter (tst s) (lastStored s) needle in
    let ld := loader_loaded c s in
    let seen := match tm with [] => last pm 0 | _ => last tm 0 end in
    mkQ (mem s ++ ld) (pst s) (tst s)
        (negb ((N.of_nat (length pm) =? 0) || (lastMem s =? seen)) || still_swapped (lastMem s) tm)
        (last ld (lastStored s)) (last ld (lastMem s)) (qlen s) (allids s)
  else s.

Definition q_tick (s : qstate) (persistent_store : bool) : qstate :=
  if persistent_store
  then mkQ (mem s) (store_persist (pst s)) (tst s) (swapped s) (lastStored s) (lastMem s) (qlen s) (allids s)
  else mkQ (mem s) (pst s) (store_persist (tst s)) (swapped s) (lastStored s) (lastMem s) (qlen s) (allids s).

(* The loader holds no lock while it works.  LoaderRace is the schedule in which a Push (flushed at once by a
   tick of both stores, so that the flush window plays no part) lands after the loader's two iterations and
   before it pushes what it loaded and writes swappedToDisk: the loader's results were computed from the state
   BEFORE the push.  If the loader does not proceed the label is just a loader turn followed by push and ticks. *)
Definition q_loader_race (c : qcfg) (s : qstate) (id : N) (p : bool) : qstate :=
  let s1 := q_tick (q_tick (q_push c s id p) true) false in
  if loader_proceeds c s then
    let needle := loader_needle c s in
    let pm := store_iter (pst s) (lastStored s) needle in
    let tm := store_iter (tst s) (lastStored s) needle in
    let ld := loader_loaded c s in
    mkQ (mem s1 ++ ld) (pst s1) (tst s1)
        (still_swapped (lastMem s) pm || still_swapped (lastMem s) tm)
        (last ld (lastStored s1)) (last ld (lastMem s1)) (qlen s1) (allids s1)
  else s1.

(* Restart: the broker stops gracefully (the persistent store writes out what is pending), the queue object
   with its ring, counters and swap state is gone, the transient store is wiped at boot (server.go removes
   "*.transient"), and a durable queue is rebuilt by Queue.LoadFromMsgStorage on a fresh object over the same
   persistent store:
     iterated := IterateByQueueFromMsgID(name, 0, maxMessagesInRAM, push into the ring; lastStored = lastMem = id)
     if ring length >= maxMessagesInRAM { swappedToDisk = true }
     queueLength = iterated >= maxMessagesInRAM ? GetQueueLength (KeysByPrefixCount) : iterated
   A queue that is not durable does not come back; the model gives it a fresh empty state. *)
Definition q_restart (c : qcfg) (s : qstate) : qstate :=
  if durable c then
    let fl := s_flushed (store_persist (pst s)) in
    let ld := store_iter (mkStore [] [] [] fl) 0 (maxram c) in
    let n := N.of_nat (length ld) in
    mkQ ld (mkStore [] [] [] fl) store_empty (maxram c <=? n) (last ld 0) (last ld 0)
        (if maxram c <=? n then Z.of_nat (length fl) else Z.of_N n) (allids s)
  else mkQ [] store_empty store_empty false 0 0 0%Z (allids s).

Definition q_step (c : qcfg) (s : qstate) (lab : label) : qstate * out :=
  match lab with
  | Push id p => (q_push c s id p, ONone)
  | Pop => let '(r, s') := q_pop s in (s', OPop r)
  | Requeue id p => (q_requeue c s id p, ONone)
  | AckMsg id p => (q_ack c s id p, ONone)
  | Purge => let '(n, s') := q_purge c s in (s', OPurge n)
  | LoaderTurn => (q_loader c s, ONone)
  | PersistTick b => (q_tick s b, ONone)
  | LoaderRace id p => (q_loader_race c s id p, ONone)
  | Restart => (q_restart c s, ONone)
  | LoaderIterRace => (q_loader_iter_race c s, ONone)
  end.

Fixpoint q_run (c : qcfg) (s : qstate) (ls : list label) : qstate * list out :=
  match ls with
  | [] => (s, [])
  | lab :: t =>
    let '(s1, o) := q_step c s lab in
    let '(s2, os) := q_run c s1 t in
    (s2, o :: os)
  end.

(* ---- the specification: a FIFO list without any limit -------------------------------- *)

Definition spec_step (l : list N) (lab : label) : list N * out :=
  match lab with
  | Push id _ => (l ++ [id], ONone)
  | Pop => (tl l, OPop (hd_error l))
  | Requeue id _ => (id :: l, ONone)
  | AckMsg _ _ => (l, ONone)
  | Purge => ([], OPurge (Z.of_nat (length l)))
  | LoaderTurn => (l, ONone)
  | PersistTick _ => (l, ONone)
  | LoaderRace id _ => (l ++ [id], ONone)
  | Restart => (l, ONone)   (* not meaningful on the bare list: see [gspec_run] for label lists with restarts *)
  | LoaderIterRace => (l, ONone)
  end.

Fixpoint spec_run (l : list N) (ls : list label) : list N * list out :=
  match ls with
  | [] => (l, [])
  | lab :: t =>
    let '(l1, o) := spec_step l lab in
    let '(l2, os) := spec_run l1 t in
    (l2, o :: os)
  end.

(* client operations (what the publishers and consumers do) versus internal turns *)
Definition is_client (lab : label) : bool :=
  match lab with LoaderTurn | PersistTick _ | LoaderIterRace => false | _ => true end.

Definition client (ls : list label) : list label := filter is_client ls.

(* the outputs of the client operations of a run *)
Fixpoint client_outs (ls : list label) (os : list out) : list out :=
  match ls, os with
  | lab :: t, o :: ot => if is_client lab then o :: client_outs t ot else client_outs t ot
  | _, _ => []
  end.

(* what the queue still holds, in delivery order: the ring, then what is on disk and not yet
   loaded (pending or flushed, either store, id above lastMemMsgID) in id order *)
Definition on_disk (s : qstate) (k : N) : bool :=
  inb k (s_add (pst s)) || inb k (s_flushed (pst s)) || inb k (s_add (tst s)) || inb k (s_flushed (tst s)).
Definition disk_ahead (s : qstate) (k : N) : bool := (lastMem s <? k) && on_disk s k.
Definition abs_disk (s : qstate) : list N := filter (disk_ahead s) (allids s).
Definition q_abs (s : qstate) : list N := mem s ++ abs_disk s.

(* ---- hypotheses ---------------------------------------------------------------------------
   Well-formed client behaviour (the environment): message ids are positive and strictly
   increasing in push order (GenerateSeq); only delivered, unsettled messages are requeued or
   acknowledged (the channel's unacked map), with the flag they were published with. *)
Fixpoint remove1 (k : N) (l : list N) : list N :=
  match l with
  | [] => []
  | h :: t => if k =? h then t else h :: remove1 k t
  end.

(* ghost bookkeeping of a run: the next free id, the unlimited list, the delivered-unsettled ids, the ids
   published as persistent *)
Record ghost := mkGhost { g_next : N; g_list : list N; g_outst : list N; g_pers : list N }.

Definition ghost_init : ghost := mkGhost 1 [] [] [].

Fixpoint sortN (l : list N) : list N :=
  match l with [] => [] | h :: t => insert_sorted h (sortN t) end.

(* what an unlimited durable queue holds after a restart: the persistent messages that were ready or delivered
   and unsettled (connections are gone, their deliveries return), in id order *)
Definition restart_list (g : ghost) : list N :=
  sortN (filter (fun k => inb k (g_pers g)) (g_list g ++ g_outst g)).

Definition ghost_step (g : ghost) (lab : label) : ghost :=
  match lab with
  | Push id p => mkGhost (id + 1) (g_list g ++ [id]) (g_outst g) (if p then id :: g_pers g else g_pers g)
  | Pop => match g_list g with
           | [] => g
           | x :: l' => mkGhost (g_next g) l' (x :: g_outst g) (g_pers g)
           end
  | Requeue id _ => mkGhost (g_next g) (id :: g_list g) (remove1 id (g_outst g)) (g_pers g)
  | AckMsg id _ => mkGhost (g_next g) (g_list g) (remove1 id (g_outst g)) (g_pers g)
  | Purge => mkGhost (g_next g) [] (g_outst g) (g_pers g)
  | LoaderTurn | PersistTick _ | LoaderIterRace => g
  | LoaderRace id p => mkGhost (id + 1) (g_list g ++ [id]) (g_outst g) (if p then id :: g_pers g else g_pers g)
  | Restart => mkGhost (g_next g) (restart_list g) [] (g_pers g)
  end.

(* a message is settled with the persistence flag it was published with (it is the same message) *)
Definition wf_step (g : ghost) (lab : label) : bool :=
  match lab with
  | Push id _ | LoaderRace id _ => g_next g <=? id
  | Requeue id p | AckMsg id p => inb id (g_outst g) && Bool.eqb p (inb id (g_pers g))
  | _ => true
  end.

Fixpoint wf_client_from (g : ghost) (ls : list label) : bool :=
  match ls with
  | [] => true
  | lab :: t => wf_step g lab && wf_client_from (ghost_step g lab) t
  end.

Definition wf_client (ls : list label) : bool := wf_client_from ghost_init ls.

(* The triggers of the open findings, as decidable predicates on (configuration, label list):
   they are evaluated along the run of the model.
   F40    the limit is 1 (half of it is 0: the loader never proceeds)
   F24a   a loader turn proceeds while an overflowed message is still unflushed (pending add above lastMem)
   F24b   purge while swapped to disk
   F24r   a push lands inside a proceeding loader turn (label LoaderRace: the loader holds no lock)
   F24i   the data race on lastIteratedMsgID fires inside a loader turn (label LoaderIterRace)
   ready  (scheduling, not a defect) a pop finds the ring empty although messages wait on disk: the
          broker's consumers are only woken after a push into the ring, so such a pop is not a delivery
          attempt the clients can see; the hypothesis makes pops comparable across configurations *)
Definition unflushed_ahead (s : qstate) : bool :=
  existsb (fun k => lastMem s <? k) (s_add (pst s) ++ s_add (tst s)).

Definition hyp_step (c : qcfg) (s : qstate) (lab : label) : bool :=
  match lab with
  | LoaderTurn => negb (loader_proceeds c s && unflushed_ahead s)
  | Purge => negb (swapped s)
  | Pop => match mem s with [] => match abs_disk s with [] => true | _ => false end | _ => true end
  | LoaderRace _ _ => false
  | Restart => false        (* label lists with restarts: [hyp_r_step] below *)
  | LoaderIterRace => false
  | _ => true
  end.

Fixpoint hyps_from (c : qcfg) (s : qstate) (ls : list label) : bool :=
  match ls with
  | [] => true
  | lab :: t => hyp_step c s lab && hyps_from c (fst (q_step c s lab)) t
  end.

Definition no_findings (c : qcfg) (ls : list label) : bool :=
  (2 <=? maxram c) && (maxram c <? W64) && hyps_from c q_init ls.

(* ---- the same without the scheduling hypothesis -------------------------------------------------
   A pop that finds the ring empty delivers nothing and changes nothing.  [effective] erases those
   pops from the label list (and [effective_outs] their outputs): the statement "the run IS the
   unlimited list on the effective label list" says order, exactly-once delivery and the counter
   without assuming anything about when loader turns happen relative to pops. *)
Fixpoint effective (ls : list label) (os : list out) : list label :=
  match ls, os with
  | lab :: t, o :: ot =>
    match lab, o with
    | Pop, OPop None => effective t ot
    | _, _ => lab :: effective t ot
    end
  | _, _ => []
  end.

Fixpoint effective_outs (ls : list label) (os : list out) : list out :=
  match ls, os with
  | lab :: t, o :: ot =>
    match lab, o with
    | Pop, OPop None => effective_outs t ot
    | _, _ => o :: effective_outs t ot
    end
  | _, _ => []
  end.

Definition hyp_step_safety (c : qcfg) (s : qstate) (lab : label) : bool :=
  match lab with Pop => true | _ => hyp_step c s lab end.

Fixpoint hyps_safety_from (c : qcfg) (s : qstate) (ls : list label) : bool :=
  match ls with
  | [] => true
  | lab :: t => hyp_step_safety c s lab && hyps_safety_from c (fst (q_step c s lab)) t
  end.

Definition no_findings_safety (c : qcfg) (ls : list label) : bool :=
  (2 <=? maxram c) && (maxram c <? W64) && hyps_safety_from c q_init ls.

(* ---- label lists with restarts ------------------------------------------------------------------
   The specification is the ghost run: the unlimited list with its delivered-unsettled set; a Restart
   replaces the list by [restart_list].  Hypotheses as before, plus, for the store to hold exactly what
   must come back: the queue is durable, and a purge happens only when no persistent message is
   delivered-unsettled (open finding F41-unsettled: Purge deletes the store entries of unsettled deliveries
   too: they do not come back).  What the persistent store holds pending at a purge is cancelled by the
   purge itself (F41, repaired in /repo 390cc62). *)
Definition gspec_step (g : ghost) (lab : label) : ghost * out :=
  (ghost_step g lab, match lab with Restart => ONone | _ => snd (spec_step (g_list g) lab) end).

Fixpoint gspec_run (g : ghost) (ls : list label) : ghost * list out :=
  match ls with
  | [] => (g, [])
  | lab :: t =>
    let '(g1, o) := gspec_step g lab in
    let '(g2, os) := gspec_run g1 t in
    (g2, o :: os)
  end.

Definition isnil {A} (l : list A) : bool := match l with [] => true | _ => false end.

Definition hyp_r_step (c : qcfg) (s : qstate) (g : ghost) (lab : label) : bool :=
  match lab with
  | Restart => durable c
  | Purge => hyp_step c s Purge &&
             (negb (durable c) || forallb (fun k => negb (inb k (g_pers g))) (g_outst g))
  | _ => hyp_step c s lab
  end.

Fixpoint hyps_r_from (c : qcfg) (s : qstate) (g : ghost) (ls : list label) : bool :=
  match ls with
  | [] => true
  | lab :: t => hyp_r_step c s g lab && hyps_r_from c (fst (q_step c s lab)) (ghost_step g lab) t
  end.

Definition no_findings_restart (c : qcfg) (ls : list label) : bool :=
  (2 <=? maxram c) && (maxram c <? W64) && hyps_r_from c q_init ghost_init ls.
