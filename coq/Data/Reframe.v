(* Re-cutting of stored body frames to the receiver's frame-max (server/channel.go SendContent, F79).
   Hand model of the loop

       maxPayload := 0
       if channel.conn.maxFrameSize > GUARD { maxPayload = int(channel.conn.maxFrameSize) - OVERHEAD }
       for _, frame := range message.Body {
           body := frame.Payload
           for maxPayload > 0 && len(body) > maxPayload { send body[:maxPayload]; body = body[maxPayload:] }
           send body
       }

   over payload LENGTHS (the bytes are slices of the stored payload, taken in order: see cut_bytes below for the byte
   level). GUARD and OVERHEAD are read off the source on every run (Broker/gen/BrokerGen.v: reframe_guard,
   reframe_overhead), as is the shape of the loop (body_frames_recut). No proofs in this file. *)
From Coq Require Import List NArith Bool.
Import ListNotations.
From GMQ Require Import Broker.gen.BrokerGen.
Local Open Scope N_scope.

(* payload bytes a body frame may carry on a connection that negotiated frame-max fmax; 0 = no cutting *)
Definition max_payload (fmax : N) : N := if reframe_guard <? fmax then fmax - reframe_overhead else 0.

(* the inner loop on one stored frame of len bytes; fuel bounds the number of turns (the loop of the code needs
   at most len / maxp turns: recut_enough_fuel) *)
Fixpoint recut_loop (fuel : nat) (maxp len : N) : list N :=
  match fuel with
  | O => [len]
  | S f => if (0 <? maxp) && (maxp <? len) then maxp :: recut_loop f maxp (len - maxp) else [len]
  end.

Definition recut (maxp len : N) : list N := recut_loop (N.to_nat (if 0 <? maxp then len / maxp else 0)) maxp len.

(* the body frames a receiver with frame-max fmax gets for a message stored as frames of the given payload lengths *)
Definition reframe (fmax : N) (stored : list N) : list N := flat_map (recut (max_payload fmax)) stored.

(* size on the wire of a frame with n payload bytes: type 1, channel 2, size 4, payload, frame-end 1 *)
Definition wire_size (n : N) : N := n + 8.

(* byte level: the same loop over the payload itself *)
Fixpoint cut_bytes {A} (fuel : nat) (maxp : nat) (body : list A) : list (list A) :=
  match fuel with
  | O => [body]
  | S f => if (Nat.ltb 0 maxp) && (Nat.ltb maxp (length body)) then firstn maxp body :: cut_bytes f maxp (skipn maxp body) else [body]
  end.
