(* C14: closing a channel or ending a connection releases what it held. *)
From Coq Require Import List String NArith ZArith Bool Lia.
From RecordUpdate Require Import RecordUpdate.
Import ListNotations.
From GMQ Require Import Broker.Model Proofs.BrokerFrames Proofs.BrokerTags Proofs.BrokerChanInv Proofs.BrokerReady Proofs.BrokerDeliveryTag.
Open Scope N_scope.

(* "channel (c0,h0) has no consumer" as a channel predicate closed under the settlement primitives *)
Definition emptyat (c0 h0 : N) (c h : N) (ch : channel) : Prop := c = c0 -> h = h0 -> ch_consumers ch = [].
Lemma emptyat_keep c0 h0 : forall c h ch ch',
  ch_unacked ch' = ch_unacked ch -> ch_status ch' = ch_status ch -> ch_dtag ch <= ch_dtag ch' ->
  (ch_consumers ch = [] -> ch_consumers ch' = []) -> emptyat c0 h0 c h ch -> emptyat c0 h0 c h ch'.
Proof. unfold emptyat. intros. auto. Qed.
Lemma emptyat_del c0 h0 : forall c h ch tag, emptyat c0 h0 c h ch -> emptyat c0 h0 c h (del_unacked ch tag).
Proof. unfold emptyat. intros. cbn. auto. Qed.
Definition E_handle_reject c0 h0 := G_handle_reject (emptyat c0 h0) (emptyat_keep c0 h0) (emptyat_del c0 h0).

Lemma filter_false {A} (l : list A) : filter (fun _ => false) l = [].
Proof. induction l; simpl; auto. Qed.

(* after channel.close() the channel is closed, holds no consumer and (for a non-zero channel whose outstanding tags are
   distinct - true in every reachable state) no unsettled delivery *)
Theorem channel_close_releases cfg s c h ch' :
  get_chan (channel_close cfg s c h) c h = Some ch' ->
  ch_status ch' = ChClosed /\ ch_consumers ch' = [] /\
  (0 < h -> NoDup (map u_tag (U s c h)) -> ch_unacked ch' = []).
Proof.
  unfold channel_close. destruct (get_chan s c h) as [ch|] eqn:Ech; [|congruence].
  set (s1 := fold_left _ _ s).
  set (s2 := upd_chan s1 c h _).
  assert (E2 : allch (emptyat c h) s2).
  { subst s2. intros c' h' ch0 Hg Hc Hh. subst. unfold upd_chan in Hg.
    destruct (get_chan s1 c h) as [ch1|] eqn:E1; [|congruence].
    rewrite get_chan_set_chan in Hg. pose proof (get_chan_conn _ _ _ _ E1) as Hcn.
    destruct (get_conn s1 c); [|congruence].
    rewrite !N.eqb_refl in Hg. cbn in Hg. inversion Hg; subst. reflexivity. }
  assert (U2 : U s2 c h = U s c h).
  { subst s2 s1. rewrite U_upd_chan_keep by reflexivity.
    assert (Hg : forall l0 st, U (fold_left (fun s cm => consumer_stop s c h (c_tag cm)) l0 st) c h = U st c h).
    { induction l0 as [|x l1 IH1]; intros st; simpl; auto. rewrite IH1. apply U_consumer_stop. }
    apply Hg. }
  clearbody s2. clear s1.
  set (s3 := if 0 <? h then _ else s2).
  assert (E3 : allch (emptyat c h) s3) by (subst s3; destruct (0 <? h); auto; apply E_handle_reject; auto).
  assert (U3 : 0 < h -> NoDup (map u_tag (U s c h)) -> U s3 c h = []).
  { intros Hh Hnd. subst s3. apply N.ltb_lt in Hh. rewrite Hh.
    destruct (handle_reject cfg s2 c h 0 true true 60 120) as [s' e] eqn:Er. cbn [fst].
    rewrite <- U2 in Hnd. destruct (reject_multiple_exact _ _ _ _ _ _ _ _ _ _ Er Hnd) as (_ & Eq & _). rewrite Eq.
    apply filter_false. }
  clearbody s3.
  intros Hg. unfold upd_chan in Hg. destruct (get_chan s3 c h) as [ch3|] eqn:Ec3; [|congruence].
  rewrite get_chan_set_chan in Hg. pose proof (get_chan_conn _ _ _ _ Ec3) as Hcn. destruct (get_conn s3 c); [|congruence].
  rewrite !N.eqb_refl in Hg. cbn in Hg. inversion Hg; subst ch'. cbn.
  split; auto. split; [exact (E3 _ _ _ Ec3 eq_refl eq_refl)|].
  intros Hh Hnd. specialize (U3 Hh Hnd). unfold U in U3. rewrite Ec3 in U3. exact U3.
Qed.

(* the broker retains no record of a connection that ended *)
Theorem conn_close_forgets cfg fx s c : get_conn (fst (conn_close cfg fx s c)) c = None.
Proof.
  unfold conn_close. destruct (get_conn s c) as [cn|] eqn:Ec; [|exact Ec].
  destruct (fold_left _ _ (_, [])) as [s2 e2]. cbn [fst]. unfold get_conn. cbn.
  rewrite (alookup_adel N.eqb Neqb_spec), N.eqb_refl. reflexivity.
Qed.

Theorem conn_close_forgets_channels cfg fx s c h : get_chan (fst (conn_close cfg fx s c)) c h = None.
Proof. unfold get_chan. rewrite conn_close_forgets. reflexivity. Qed.

(* and it tells the client side model so: the last event is the socket close *)
Theorem conn_close_emits_gone cfg fx s c cn : get_conn s c = Some cn -> In (c, 0, SConnGone) (snd (conn_close cfg fx s c)).
Proof.
  intros Ec. unfold conn_close. rewrite Ec. destruct (fold_left _ _ (_, [])) as [s2 e2]. cbn [snd].
  apply in_or_app. right. left. reflexivity.
Qed.

(* socket loss and connection.close / close-ok all run conn_close *)
Theorem socket_loss_is_conn_close cfg fx s c : step cfg fx s (LSocketLoss c) = conn_close cfg fx s c.
Proof. cbn [step]. destruct (conn_close cfg fx s c); reflexivity. Qed.

(* ------------------------------------------------------------------ *)
(* exclusive queues owned by the connection are deleted *)
Definition EO (s : state) (q : string) : option (bool * N) :=
  match get_queue s q with Some qu => Some (q_excl qu, q_owner qu) | None => None end.

Lemma EO_same_queues s s' q : queues s' = queues s -> EO s' q = EO s q.
Proof. unfold EO. intros E. rewrite (get_queue_same_queues _ _ _ E). reflexivity. Qed.

Lemma EO_consumer_stop s c h tag q : EO (consumer_stop s c h tag) q = EO s q.
Proof.
  unfold consumer_stop. destruct (get_chan s c h) as [ch|]; auto. destruct (find_consumer ch tag) as [cm|]; auto.
  assert (E : forall st, EO (queue_remove_consumer st (c_queue cm) c h tag) q = EO st q).
  { intros st. unfold queue_remove_consumer. destruct (get_queue st (c_queue cm)) as [qu|] eqn:Eq; auto.
    match goal with |- EO (if ?b then ?a <| autodel ::= _ |> else ?a') q = _ => assert (Ea : EO a q = EO st q) end.
    { unfold EO. rewrite get_queue_set_queue. destruct (seqb q (c_queue cm)) eqn:E1; auto.
      apply seqb_spec in E1. subst. rewrite Eq.
      repeat match goal with |- context [if ?b then _ else _] => destruct b end; reflexivity. }
    match goal with |- EO (if ?b then _ else _) q = _ => destruct b end; auto. }
  destruct (c_status cm); auto; rewrite E; apply EO_same_queues; apply queues_set_chan.
Qed.

Lemma EO_cancel_fold l q : forall s evs,
  EO (fst (fold_left (fun acc x => let '(s, evs) := acc in let '(s', e) := consumer_cancel s x in (s', evs ++ e)) l (s, evs))) q = EO s q.
Proof.
  induction l as [|[[c h] tag] t IH]; intros s evs; simpl; auto. rewrite IH. apply EO_consumer_stop.
Qed.

Lemma get_queue_del s qn q : get_queue (s <| queues := adel seqb qn (queues s) |>) q = if seqb q qn then None else get_queue s q.
Proof. unfold get_queue. cbn. apply alookup_adel. apply seqb_spec. Qed.

Lemma EO_vhost_delete s qn q :
  EO (fst (fst (vhost_delete_queue false s qn false false))) q = if seqb q qn then None else EO s q.
Proof.
  unfold vhost_delete_queue. destruct (get_queue s qn) as [qu|] eqn:Eq.
  - cbn [orb andb].
    pose proof (EO_cancel_fold (q_consumers qu) q s []) as Hf.
    destruct (fold_left _ (q_consumers qu) (s, [])) as [s1 e1]. cbn [fst] in *.
    unfold EO at 1. rewrite get_queue_del. destruct (seqb q qn); auto.
    fold (EO (s1 <| exchanges ::= map (fun kv => (fst kv, remove_queue_bindings (snd kv) qn)) |>) q) in *.
    rewrite <- Hf. unfold EO.
    repeat match goal with
           | |- context [get_queue (@set ?a ?b ?cc ?dd ?ee ?st) q] => rewrite (get_queue_same_queues st (@set a b cc dd ee st) q eq_refl)
           | |- context [get_queue (if ?b then _ else _) q] => destruct b
           end; reflexivity.
  - cbn [fst]. destruct (seqb q qn) eqn:E1; auto. apply seqb_spec in E1. subst. unfold EO. rewrite Eq. reflexivity.
Qed.

Lemma EO_delete_fold l q : forall s evs,
  EO (fst (fold_left (fun acc qn => let '(s, evs) := acc in
                                    let '(s', e, _) := vhost_delete_queue false s qn false false in (s', evs ++ e)) l (s, evs))) q
  = if existsb (seqb q) l then None else EO s q.
Proof.
  induction l as [|x t IH]; intros s evs; simpl; auto.
  pose proof (EO_vhost_delete s x q) as Hd.
  destruct (vhost_delete_queue false s x false false) as [[s1 e1] r1]. cbn [fst] in Hd.
  rewrite IH, Hd. destruct (seqb q x); cbn [orb]; auto. destruct (existsb (seqb q) t); reflexivity.
Qed.

Theorem conn_close_deletes_exclusive_queues cfg fx s c q e o :
  fx_delete_checks_first fx = true ->
  EO (fst (conn_close cfg fx s c)) q = Some (e, o) -> get_conn s c <> None -> ~ (e = true /\ o = c).
Proof.
  intros Hfx H Hc. unfold conn_close in H. destruct (get_conn s c) as [cn|]; [|congruence].
  rewrite Hfx in H. cbn [negb] in H.
  set (s1 := fold_left _ _ s) in H.
  pose proof (EO_delete_fold (map fst (filter (fun kv => q_excl (snd kv) && (q_owner (snd kv) =? c)) (queues s1))) q s1 []) as Hd.
  destruct (fold_left _ _ (s1, [])) as [s2 e2]. cbn [fst] in *.
  rewrite (EO_same_queues s2) in H by reflexivity. rewrite Hd in H.
  destruct (existsb _ _) eqn:Ex; [discriminate|].
  intros [-> ->]. unfold EO in H. destruct (get_queue s1 q) as [qu|] eqn:Eq; [|discriminate]. inversion H as [[He Ho]].
  assert (Hin : In q (map fst (filter (fun kv => q_excl (snd kv) && (q_owner (snd kv) =? c)) (queues s1)))).
  { apply in_map_iff. exists (q, qu). split; auto. apply filter_In. split.
    - eapply alookup_in; [apply seqb_spec|exact Eq].
    - cbn. rewrite He, Ho, N.eqb_refl. reflexivity. }
  assert (existsb (seqb q) (map fst (filter (fun kv => q_excl (snd kv) && (q_owner (snd kv) =? c)) (queues s1))) = true).
  { apply existsb_exists. exists q. split; auto. apply seqb_refl. }
  congruence.
Qed.

Theorem channel_close_releases_reachable cfg fx ls c h ch' :
    let s := fst (run cfg fx (init cfg) ls) in
    get_chan (channel_close cfg s c h) c h = Some ch' ->
    ch_status ch' = ChClosed /\ ch_consumers ch' = [] /\ (0 < h -> ch_unacked ch' = []).
Proof.
  intros s Hg. destruct (channel_close_releases cfg s c h ch' Hg) as (A & B & C). split; auto. split; auto.
  intros Hh. apply C; auto. apply U_nodup_reachable.
Qed.
