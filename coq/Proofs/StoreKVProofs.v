(* Lemmas about the ordered key/value map of Store/KV.v and the byte-string helpers of
   Store/KeyFmt.v. *)
From Coq Require Import List NArith Bool Lia ZifyN ZifyNat ZifyBool Sorted.
From GMQ Require Import Store.KeyFmt Store.gen.OptsGen Store.KV.
Import ListNotations.
Open Scope N_scope.

(* ------------------------------------------------------------ bytes *)
Lemma bytes_eqb_eq : forall a b, bytes_eqb a b = true <-> a = b.
Proof.
  induction a as [|x a IH]; destruct b as [|y b]; cbn; split; intro H; try reflexivity; try discriminate.
  - apply andb_true_iff in H as [H1 H2]. apply N.eqb_eq in H1. apply IH in H2. subst. reflexivity.
  - inversion H; subst. rewrite N.eqb_refl. cbn. apply IH. reflexivity.
Qed.

Lemma bytes_eqb_refl : forall a, bytes_eqb a a = true.
Proof. intro a. apply bytes_eqb_eq. reflexivity. Qed.

Lemma bytes_eqb_neq : forall a b, bytes_eqb a b = false <-> a <> b.
Proof.
  intros a b. split; intro H.
  - intro E. apply bytes_eqb_eq in E. congruence.
  - destruct (bytes_eqb a b) eqn:E; [|reflexivity]. apply bytes_eqb_eq in E. contradiction.
Qed.

Lemma is_prefix_spec : forall p k, is_prefix p k = true <-> exists s, k = p ++ s.
Proof.
  induction p as [|x p IH]; intros k; cbn.
  - split; [intros _; exists k; reflexivity | reflexivity].
  - destruct k as [|y k].
    + split; [discriminate | intros [s H]; discriminate].
    + rewrite andb_true_iff, N.eqb_eq, IH. split.
      * intros [-> [s ->]]. exists s. reflexivity.
      * intros [s H]. inversion H; subst. split; [reflexivity | exists s; reflexivity].
Qed.

Lemma is_prefix_app : forall p s, is_prefix p (p ++ s) = true.
Proof. intros. apply is_prefix_spec. exists s. reflexivity. Qed.

Lemma is_prefix_refl : forall p, is_prefix p p = true.
Proof. intro p. apply is_prefix_spec. exists []. rewrite app_nil_r. reflexivity. Qed.

Lemma is_prefix_app_l : forall a p k, is_prefix (a ++ p) (a ++ k) = is_prefix p k.
Proof. induction a as [|x a IH]; intros; cbn; [reflexivity|]. rewrite N.eqb_refl. cbn. apply IH. Qed.

Lemma is_prefix_trans : forall a b c, is_prefix a b = true -> is_prefix b c = true -> is_prefix a c = true.
Proof.
  intros a b c H1 H2. apply is_prefix_spec in H1 as [s1 ->]. apply is_prefix_spec in H2 as [s2 ->].
  apply is_prefix_spec. exists (s1 ++ s2). rewrite app_assoc. reflexivity.
Qed.

(* two prefixes of one string are comparable *)
Lemma is_prefix_comparable : forall a b k, is_prefix a k = true -> is_prefix b k = true ->
  is_prefix a b = true \/ is_prefix b a = true.
Proof.
  induction a as [|x a IH]; intros b k Ha Hb; cbn.
  - left. reflexivity.
  - destruct b as [|y b]; [right; reflexivity|].
    destruct k as [|z k]; [discriminate|]. cbn in Ha, Hb.
    apply andb_true_iff in Ha as [Ha1 Ha2]. apply andb_true_iff in Hb as [Hb1 Hb2].
    apply N.eqb_eq in Ha1. apply N.eqb_eq in Hb1. subst. cbn. rewrite N.eqb_refl. cbn.
    eapply IH; eassumption.
Qed.

(* ------------------------------------------------------------ key order *)
Lemma kcmp_eq : forall a b, kcmp a b = Eq <-> a = b.
Proof.
  induction a as [|x a IH]; destruct b as [|y b]; cbn; split; intro H; try reflexivity; try discriminate.
  - destruct (N.compare x y) eqn:E; try discriminate. apply N.compare_eq in E. apply IH in H. subst. reflexivity.
  - inversion H; subst. rewrite N.compare_refl. apply IH. reflexivity.
Qed.

Lemma kcmp_refl : forall a, kcmp a a = Eq.
Proof. intro. apply kcmp_eq. reflexivity. Qed.

Lemma keqb_eq : forall a b, keqb a b = true <-> a = b.
Proof.
  intros a b. unfold keqb. destruct (kcmp a b) eqn:E; split; intro H; try discriminate; try reflexivity.
  - apply kcmp_eq. exact E.
  - apply kcmp_eq in H. congruence.
  - apply kcmp_eq in H. congruence.
Qed.

Lemma keqb_refl : forall a, keqb a a = true.
Proof. intro. apply keqb_eq. reflexivity. Qed.

Lemma keqb_neq : forall a b, keqb a b = false <-> a <> b.
Proof.
  intros a b. split; intro H.
  - intro E. apply keqb_eq in E. congruence.
  - destruct (keqb a b) eqn:E; [|reflexivity]. apply keqb_eq in E. contradiction.
Qed.

Lemma keqb_sym : forall a b, keqb a b = keqb b a.
Proof.
  intros a b. destruct (keqb a b) eqn:E.
  - apply keqb_eq in E. subst. symmetry. apply keqb_refl.
  - symmetry. apply keqb_neq. apply keqb_neq in E. congruence.
Qed.

Lemma kcmp_antisym : forall a b, kcmp b a = CompOpp (kcmp a b).
Proof.
  induction a as [|x a IH]; destruct b as [|y b]; cbn; try reflexivity.
  rewrite (N.compare_antisym x y). destruct (N.compare x y); cbn; try reflexivity. apply IH.
Qed.

Lemma kcmp_lt_trans : forall a b c, kcmp a b = Lt -> kcmp b c = Lt -> kcmp a c = Lt.
Proof.
  induction a as [|x a IH]; destruct b as [|y b]; destruct c as [|z c]; cbn; intros H1 H2; try discriminate; try reflexivity.
  destruct (N.compare x y) eqn:E1; try discriminate.
  - apply N.compare_eq in E1. subst. destruct (N.compare y z) eqn:E2; try discriminate; try reflexivity.
    eapply IH; eassumption.
  - destruct (N.compare y z) eqn:E2; try discriminate.
    + apply N.compare_eq in E2. subst. rewrite E1. reflexivity.
    + pose proof (proj1 (N.compare_lt_iff _ _) E1) as L1. pose proof (proj1 (N.compare_lt_iff _ _) E2) as L2.
      assert (L3 : x < z) by lia. apply N.compare_lt_iff in L3. rewrite L3. reflexivity.
Qed.

Lemma kltb_lt : forall a b, kltb a b = true <-> kcmp a b = Lt.
Proof. intros. unfold kltb. destruct (kcmp a b); split; intro; try discriminate; reflexivity. Qed.

Lemma kcmp_gt_lt : forall a b, kcmp a b = Gt <-> kcmp b a = Lt.
Proof.
  intros. rewrite (kcmp_antisym a b). destruct (kcmp a b); cbn; split; intro; try discriminate; reflexivity.
Qed.

(* a key below the prefix cannot have it; a key at or above it without it ends the range *)
Lemma prefix_not_below : forall p k, is_prefix p k = true -> kcmp k p <> Lt.
Proof.
  induction p as [|x p IH]; intros k H.
  - destruct k; cbn; discriminate.
  - destruct k as [|y k]; [discriminate|]. cbn in H. apply andb_true_iff in H as [H1 H2].
    apply N.eqb_eq in H1. subst. cbn. rewrite N.compare_refl. apply IH. exact H2.
Qed.

Lemma prefix_range_end : forall p k k2, kcmp k p <> Lt -> is_prefix p k = false -> kcmp k k2 = Lt ->
  is_prefix p k2 = false.
Proof.
  induction p as [|x p IH]; intros k k2 Hge Hnp Hlt.
  - discriminate.
  - destruct k as [|y k]; [cbn in Hge; congruence|].
    destruct k2 as [|z k2]; [reflexivity|]. cbn in *.
    destruct (N.compare y x) eqn:E1.
    + apply N.compare_eq in E1. subst. rewrite N.eqb_refl in Hnp. cbn in Hnp.
      destruct (N.compare x z) eqn:E2.
      * apply N.compare_eq in E2. subst. rewrite N.eqb_refl. cbn. eapply IH; eassumption.
      * pose proof (proj1 (N.compare_lt_iff _ _) E2) as L2. destruct (N.eqb_spec x z); [lia | reflexivity].
      * discriminate.
    + congruence.
    + pose proof (proj1 (N.compare_gt_iff _ _) E1) as L1.
      destruct (N.compare y z) eqn:E2; try discriminate.
      * apply N.compare_eq in E2. subst. destruct (N.eqb_spec x z); [lia | reflexivity].
      * pose proof (proj1 (N.compare_lt_iff _ _) E2) as L2. destruct (N.eqb_spec x z); [lia | reflexivity].
Qed.

(* ------------------------------------------------------------ the map *)
Section KVP.
  Variable V : Type.
  Implicit Types m : kv V.

  Definition klt_e (a b : key * V) : Prop := kcmp (fst a) (fst b) = Lt.
  Definition ksorted m : Prop := StronglySorted klt_e m.

  Lemma get_set : forall m k v k', kv_get (kv_set m k v) k' = if keqb k' k then Some v else kv_get m k'.
  Proof.
    induction m as [|[k0 v0] t IH]; intros k v k'; cbn.
    - reflexivity.
    - destruct (kcmp k k0) eqn:E; cbn.
      + apply kcmp_eq in E. subst. destruct (keqb k' k0); reflexivity.
      + reflexivity.
      + rewrite IH. destruct (keqb k' k0) eqn:E0; [|reflexivity].
        apply keqb_eq in E0. subst. destruct (keqb k0 k) eqn:E1; [|reflexivity].
        apply keqb_eq in E1. subst. rewrite kcmp_refl in E. discriminate.
  Qed.

  Lemma get_filter : forall (P : key -> bool) m k,
    kv_get (filter (fun e => P (fst e)) m) k = if P k then kv_get m k else None.
  Proof.
    induction m as [|[k0 v0] t IH]; intros k; cbn.
    - destruct (P k); reflexivity.
    - destruct (P k0) eqn:E0; cbn.
      + destruct (keqb k k0) eqn:E; [apply keqb_eq in E; subst; rewrite E0; reflexivity | apply IH].
      + destruct (keqb k k0) eqn:E; [apply keqb_eq in E; subst; rewrite IH, E0; reflexivity | apply IH].
  Qed.

  Lemma get_del : forall m k k', kv_get (kv_del m k) k' = if keqb k' k then None else kv_get m k'.
  Proof.
    intros. unfold kv_del. rewrite (get_filter (fun x => negb (keqb k x))).
    rewrite (keqb_sym k k'). destruct (keqb k' k); reflexivity.
  Qed.

  Lemma get_del_prefix : forall m p k, kv_get (kv_del_prefix m p) k = if is_prefix p k then None else kv_get m k.
  Proof.
    intros. unfold kv_del_prefix. rewrite (get_filter (fun x => negb (is_prefix p x))).
    destruct (is_prefix p k); reflexivity.
  Qed.

  Lemma get_filter_prefix : forall m p k, kv_get (kv_filter_prefix m p) k = if is_prefix p k then kv_get m k else None.
  Proof. intros. unfold kv_filter_prefix. apply (get_filter (fun x => is_prefix p x)). Qed.

  (* sortedness *)
  Lemma ksorted_nil : ksorted [].
  Proof. constructor. Qed.

  Lemma ksorted_inv : forall e m, ksorted (e :: m) -> ksorted m /\ Forall (klt_e e) m.
  Proof. intros e m H. inversion H; subst. split; assumption. Qed.

  Lemma ksorted_filter : forall (f : key * V -> bool) m, ksorted m -> ksorted (filter f m).
  Proof.
    induction m as [|e t IH]; intro H; cbn; [constructor|].
    apply ksorted_inv in H as [Ht Hf]. destruct (f e).
    - constructor; [apply IH; exact Ht|]. apply Forall_forall. intros x Hx. apply filter_In in Hx as [Hx _].
      eapply Forall_forall in Hf; eassumption.
    - apply IH. exact Ht.
  Qed.

  Lemma Forall_set : forall e m k v, Forall (klt_e e) m -> kcmp (fst e) k = Lt -> Forall (klt_e e) (kv_set m k v).
  Proof.
    induction m as [|[k0 v0] t IH]; intros k v Hf Hk; cbn.
    - constructor; [exact Hk | constructor].
    - inversion Hf; subst. destruct (kcmp k k0).
      + constructor; [exact Hk | assumption].
      + constructor; [exact Hk | exact Hf].
      + constructor; [assumption | apply IH; assumption].
  Qed.

  Lemma ksorted_set : forall m k v, ksorted m -> ksorted (kv_set m k v).
  Proof.
    induction m as [|[k0 v0] t IH]; intros k v H; cbn.
    - constructor; constructor.
    - apply ksorted_inv in H as [Ht Hf]. destruct (kcmp k k0) eqn:E.
      + apply kcmp_eq in E. subst. constructor; assumption.
      + constructor; [constructor; assumption|]. constructor; [exact E|].
        eapply Forall_impl; [|exact Hf]. intros a Ha. unfold klt_e in *. cbn in *. eapply kcmp_lt_trans; eassumption.
      + constructor; [apply IH; exact Ht|]. apply Forall_set; [exact Hf|]. cbn. apply kcmp_gt_lt. exact E.
  Qed.

  Lemma ksorted_del : forall m k, ksorted m -> ksorted (kv_del m k).
  Proof. intros. apply ksorted_filter. assumption. Qed.

  Lemma ksorted_del_prefix : forall m p, ksorted m -> ksorted (kv_del_prefix m p).
  Proof. intros. apply ksorted_filter. assumption. Qed.

  Lemma ksorted_batch : forall ops m, ksorted m -> ksorted (kv_batch m ops).
  Proof.
    induction ops as [|o r IH]; intros m H; cbn; [exact H|]. apply IH.
    destruct o; cbn; [apply ksorted_set | apply ksorted_del]; exact H.
  Qed.

  Lemma batch_strict_eq : forall ops m m', kv_batch_strict m ops = Some m' -> m' = kv_batch m ops.
  Proof.
    induction ops as [|o r IH]; intros m m' H; cbn in *.
    - congruence.
    - destruct o; [apply IH; exact H|]. destruct (kv_mem m k); [apply IH; exact H | discriminate].
  Qed.

  (* membership and lookup *)
  Lemma get_not_in : forall m k, Forall (fun e => kcmp k (fst e) = Lt) m -> kv_get m k = None.
  Proof.
    induction m as [|[k0 v0] t IH]; intros k H; cbn; [reflexivity|]. inversion H; subst. cbn in *.
    unfold keqb. rewrite H2. apply IH. assumption.
  Qed.

  Lemma in_get : forall m k v, ksorted m -> In (k, v) m -> kv_get m k = Some v.
  Proof.
    induction m as [|[k0 v0] t IH]; intros k v Hs Hin; [contradiction|].
    apply ksorted_inv in Hs as [Ht Hf]. cbn. destruct Hin as [E|Hin].
    - inversion E; subst. rewrite keqb_refl. reflexivity.
    - destruct (keqb k k0) eqn:E; [|apply IH; assumption].
      apply keqb_eq in E. subst. eapply Forall_forall in Hf; [|exact Hin]. unfold klt_e in Hf. cbn in Hf.
      rewrite kcmp_refl in Hf. discriminate.
  Qed.

  Lemma get_in : forall m k v, kv_get m k = Some v -> In (k, v) m.
  Proof.
    induction m as [|[k0 v0] t IH]; intros k v H; cbn in *; [discriminate|].
    destruct (keqb k k0) eqn:E.
    - apply keqb_eq in E. inversion H; subst. left. reflexivity.
    - right. apply IH. exact H.
  Qed.

  (* sorted maps with the same lookups are equal *)
  Lemma ksorted_ext : forall m1 m2, ksorted m1 -> ksorted m2 ->
    (forall k, kv_get m1 k = kv_get m2 k) -> m1 = m2.
  Proof.
    induction m1 as [|[k1 v1] t1 IH]; intros m2 H1 H2 Hext.
    - destruct m2 as [|[k2 v2] t2]; [reflexivity|]. specialize (Hext k2). cbn in Hext. rewrite keqb_refl in Hext. discriminate.
    - destruct m2 as [|[k2 v2] t2].
      + specialize (Hext k1). cbn in Hext. rewrite keqb_refl in Hext. discriminate.
      + apply ksorted_inv in H1 as [Ht1 Hf1]. apply ksorted_inv in H2 as [Ht2 Hf2].
        assert (Hk : k1 = k2).
        { destruct (kcmp k1 k2) eqn:E.
          - apply kcmp_eq. exact E.
          - exfalso. pose proof (Hext k1) as Hx. cbn in Hx. rewrite keqb_refl in Hx.
            unfold keqb in Hx. rewrite E in Hx. rewrite get_not_in in Hx; [discriminate|].
            eapply Forall_impl; [|exact Hf2]. intros a Ha. unfold klt_e in Ha. cbn in Ha. eapply kcmp_lt_trans; eassumption.
          - exfalso. apply kcmp_gt_lt in E. pose proof (Hext k2) as Hx. cbn in Hx. rewrite keqb_refl in Hx.
            unfold keqb in Hx. rewrite E in Hx. rewrite get_not_in in Hx; [discriminate|].
            eapply Forall_impl; [|exact Hf1]. intros a Ha. unfold klt_e in Ha. cbn in Ha. eapply kcmp_lt_trans; eassumption. }
        subst k2. pose proof (Hext k1) as Hv. cbn in Hv. rewrite keqb_refl in Hv. inversion Hv; subst v2.
        f_equal. apply IH; try assumption. intro k. specialize (Hext k). cbn in Hext.
        destruct (keqb k k1) eqn:E; [|exact Hext].
        apply keqb_eq in E. subst. rewrite !get_not_in; [reflexivity | |]; assumption.
  Qed.

  (* the seek/valid-for-prefix loop is the prefix filter, on a sorted map *)
  Lemma while_prefix_all_out : forall m p, Forall (fun e => is_prefix p (fst e) = false) m ->
    filter (fun e => is_prefix p (fst e)) m = [].
  Proof.
    induction m as [|[k v] t IH]; intros p H; cbn; [reflexivity|]. inversion H; subst. cbn in *.
    rewrite H2. apply IH. assumption.
  Qed.

  Lemma while_prefix_filter : forall m p, ksorted m -> Forall (fun e => kcmp (fst e) p <> Lt) m ->
    kv_while_prefix m p = filter (fun e => is_prefix p (fst e)) m.
  Proof.
    induction m as [|[k v] t IH]; intros p Hs Hge; cbn; [reflexivity|].
    apply ksorted_inv in Hs as [Ht Hf]. inversion Hge; subst. cbn in *.
    destruct (is_prefix p k) eqn:E.
    - f_equal. apply IH; assumption.
    - symmetry. apply while_prefix_all_out. apply Forall_forall. intros [k2 v2] Hin.
      eapply Forall_forall in Hf; [|exact Hin]. unfold klt_e in Hf. cbn in *.
      eapply prefix_range_end; eassumption.
  Qed.

  Lemma seek_filter : forall m from, ksorted m ->
    kv_seek m from = filter (fun e => negb (kltb (fst e) from)) m /\
    Forall (fun e => kcmp (fst e) from <> Lt) (kv_seek m from).
  Proof.
    induction m as [|[k v] t IH]; intros from Hs; cbn; [split; [reflexivity | constructor]|].
    apply ksorted_inv in Hs as [Ht Hf]. destruct (kltb k from) eqn:E; cbn.
    - apply IH. exact Ht.
    - assert (Hall : Forall (fun e => kcmp (fst e) from <> Lt) ((k, v) :: t)).
      { constructor.
        - cbn. intro H. apply kltb_lt in H. congruence.
        - apply Forall_forall. intros [k2 v2] Hin. eapply Forall_forall in Hf; [|exact Hin]. unfold klt_e in Hf. cbn in *.
          intro H. assert (kcmp k from = Lt) by (eapply kcmp_lt_trans; eassumption). apply kltb_lt in H0. congruence. }
      split; [|exact Hall]. f_equal. inversion Hall; subst.
      clear - H2. induction t as [|[k2 v2] t IH]; cbn; [reflexivity|]. inversion H2; subst. cbn in *.
      destruct (kltb k2 from) eqn:E; [apply kltb_lt in E; contradiction|]. cbn. f_equal. apply IH. assumption.
  Qed.

  Lemma ksorted_seek : forall m from, ksorted m -> ksorted (kv_seek m from).
  Proof. intros. destruct (seek_filter m from H) as [-> _]. apply ksorted_filter. assumption. Qed.

  Lemma filter_filter : forall (A : Type) (f g : A -> bool) (l : list A),
    filter f (filter g l) = filter (fun x => f x && g x) l.
  Proof.
    induction l as [|x t IH]; cbn; [reflexivity|].
    destruct (g x); cbn; destruct (f x); cbn; rewrite IH; reflexivity.
  Qed.

  Lemma not_lt_trans : forall k from p, kcmp k from <> Lt -> kcmp from p <> Lt -> kcmp k p <> Lt.
  Proof.
    intros k from p H1 H2 H3. apply H1. destruct (kcmp from p) eqn:E.
    - apply kcmp_eq in E. subst. exact H3.
    - contradiction.
    - apply kcmp_gt_lt in E. eapply kcmp_lt_trans; eassumption.
  Qed.

  (* Seek(from) then ValidForPrefix(p), for from at or above p, on a sorted map *)
  Lemma iter_from_spec : forall m p from, ksorted m -> kcmp from p <> Lt ->
    kv_while_prefix (kv_seek m from) p =
    filter (fun e => is_prefix p (fst e) && negb (kltb (fst e) from)) m.
  Proof.
    intros m p from Hs Hfp. destruct (seek_filter m from Hs) as [Hseek Hge].
    rewrite while_prefix_filter.
    - rewrite Hseek. apply filter_filter.
    - apply ksorted_seek. exact Hs.
    - eapply Forall_impl; [|exact Hge]. intros a Ha. cbn in Ha. eapply not_lt_trans; eassumption.
  Qed.

  Lemma iter_prefix_spec : forall m p, ksorted m -> kv_iter_prefix m p 0 = kv_filter_prefix m p.
  Proof.
    intros m p Hs. unfold kv_iter_prefix, kv_iter_prefix_from, apply_limit. cbn.
    rewrite iter_from_spec; [|exact Hs | rewrite kcmp_refl; discriminate].
    unfold kv_filter_prefix. apply filter_ext_in. intros [k v] Hin. cbn.
    destruct (is_prefix p k) eqn:E; [|reflexivity]. cbn.
    destruct (kltb k p) eqn:E2; [|reflexivity]. apply kltb_lt in E2. apply prefix_not_below in E. contradiction.
  Qed.
End KVP.

Arguments ksorted {V}. Arguments klt_e {V}.
