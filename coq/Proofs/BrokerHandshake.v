(* C10: nothing is reachable before the handshake is complete.
   The connection stage machine: Start -start-ok(good)-> Tune -tune-ok(within)-> TuneOk -open(vhost)-> Open; every
   other client frame on an unopened connection ends it, and nothing but that connection's own record changes. *)
From Coq Require Import List String NArith ZArith Bool Lia.
From RecordUpdate Require Import RecordUpdate.
Import ListNotations.
From GMQ Require Import Broker.Model Proofs.BrokerFrames Proofs.BrokerTags Proofs.BrokerChanInv Proofs.BrokerRelease.
Open Scope N_scope.

(* a connection in the handshake: only channel 0 exists, untouched *)
Definition fresh0 (ch : channel) : Prop :=
  ch_consumers ch = [] /\ ch_unacked ch = [] /\ ch_cur ch = None /\ ch_status ch = ChNew.
Definition in_handshake (s : state) (c : N) (st : cstage) : Prop :=
  exists cn ch0, get_conn s c = Some cn /\ cn_stage cn = st /\ st <> StOpen /\ cn_chans cn = [(0, ch0)] /\ fresh0 ch0.

(* the client frames of connection c *)
Definition client_label (c : N) (l : label) : Prop :=
  match l with
  | LMethod c' _ _ | LHeader c' _ _ _ _ | LBody c' _ _ | LBadMethod c' _ => c' = c
  | _ => False
  end.

(* everything in the broker except connection c's own record *)
Definition world (s : state) (c : N) :=
  (adel N.eqb c (conns s), queues s, exchanges s, heap s, (next_uid s, next_cid s, next_qid s),
   (autodel s, st_add s, st_db s, st_del s, relay s), (srv_ready s, srv_unacked s, srv_total s)).

Definition owns_nothing (s : state) (c : N) : Prop :=
  filter (fun kv : string * queue => q_excl (snd kv) && (q_owner (snd kv) =? c)) (queues s) = [].

Lemma adel_aset_same {V} (c : N) (v : V) l : adel N.eqb c (aset N.eqb c v l) = adel N.eqb c l.
Proof.
  induction l as [|[k x] t IH]; cbn.
  - rewrite N.eqb_refl. reflexivity.
  - destruct (c =? k) eqn:E; cbn.
    + rewrite N.eqb_refl. reflexivity.
    + rewrite E. rewrite IH. reflexivity.
Qed.

(* accepting a socket starts the handshake *)
Theorem accept_starts_handshake cfg fx s c :
  get_conn s c = None ->
  in_handshake (fst (step cfg fx s (LAccept c))) c StStart /\
  snd (step cfg fx s (LAccept c)) = [(c, 0, SConnStart)] /\
  world (fst (step cfg fx s (LAccept c))) c = world s c.
Proof.
  intros Ec. cbn [step]. rewrite Ec. cbn [fst snd]. split; [|split; auto].
  - unfold in_handshake, get_conn. cbn. rewrite (alookup_aset N.eqb Neqb_spec), N.eqb_refl.
    eexists _, _. repeat split; try reflexivity. discriminate.
  - unfold world. cbn. rewrite adel_aset_same. reflexivity.
Qed.

Lemma adel_idem {V} (c : N) (l : list (N * V)) : adel N.eqb c (adel N.eqb c l) = adel N.eqb c l.
Proof.
  induction l as [|[k x] t IH]; cbn; auto. destruct (c =? k) eqn:E; auto. cbn. rewrite E, IH. reflexivity.
Qed.

Lemma world_upd_chan s c h f : world (upd_chan s c h f) c = world s c.
Proof.
  unfold world, upd_chan. destruct (get_chan s c h); auto. unfold set_chan. destruct (get_conn s c); auto. cbn.
  rewrite adel_aset_same. reflexivity.
Qed.

(* dropping a connection that is still in the handshake removes its record and nothing else *)
Lemma conn_close_in_handshake cfg fx s c st :
  in_handshake s c st -> owns_nothing s c ->
  world (fst (conn_close cfg fx s c)) c = world s c /\ get_conn (fst (conn_close cfg fx s c)) c = None /\
  snd (conn_close cfg fx s c) = [(c, 0, SConnGone)].
Proof.
  intros (cn & ch0 & Ec & Est & Hne & Hch & (Hc & Hu & Hcur & Hs)) Hown.
  split; [|split; [apply conn_close_forgets|]].
  - unfold conn_close. rewrite Ec, Hch. cbn [map fst sort_desc_N fold_left].
    assert (Hg : get_chan s c 0 = Some ch0) by (unfold get_chan; rewrite Ec, Hch; cbn; reflexivity).
    assert (Hcc : sort_desc_N [0] = [0]) by reflexivity.
    rewrite Hcc. cbn [fold_left].
    unfold channel_close. rewrite Hg, Hc. cbn [fold_left]. cbn [N.ltb N.compare].
    set (s2 := upd_chan (upd_chan s c 0 _) c 0 _).
    assert (Hw : world s2 c = world s c) by (unfold s2; rewrite !world_upd_chan; reflexivity).
    assert (Hq : queues s2 = queues s) by (unfold s2; rewrite !queues_upd_chan; reflexivity).
    rewrite Hq. unfold owns_nothing in Hown. rewrite Hown. cbn [map fold_left fst].
    unfold world in *. cbn. rewrite adel_idem. inversion Hw. repeat f_equal; assumption.
  - unfold conn_close. rewrite Ec, Hch.
    assert (Hcc : sort_desc_N (map fst [(0, ch0)]) = [0]) by reflexivity.
    rewrite Hcc. cbn [fold_left].
    assert (Hg : get_chan s c 0 = Some ch0) by (unfold get_chan; rewrite Ec, Hch; cbn; reflexivity).
    unfold channel_close. rewrite Hg, Hc. cbn [fold_left]. cbn [N.ltb N.compare].
    set (s2 := upd_chan (upd_chan s c 0 _) c 0 _).
    assert (Hq : queues s2 = queues s) by (unfold s2; rewrite !queues_upd_chan; reflexivity).
    rewrite Hq. unfold owns_nothing in Hown. rewrite Hown. cbn. reflexivity.
Qed.

Lemma ensure_chan_0 s c cn ch0 : get_conn s c = Some cn -> cn_chans cn = [(0, ch0)] -> ensure_chan s c 0 = s.
Proof. intros Ec Hch. unfold ensure_chan. rewrite Ec, Hch. cbn. reflexivity. Qed.

(* a connection error on a connection in the handshake: the close frame goes out and the connection is dropped *)
Lemma conn_error_drops cfg fx s c st code cls mth :
  in_handshake s c st -> owns_nothing s c ->
  let r := apply_err_st cfg fx false s c 0 (refuse s (ConnErr code cls mth)) in
  world (fst r) c = world s c /\ get_conn (fst r) c = None /\ snd r = [(c, 0, SConnClose code cls mth); (c, 0, SConnGone)].
Proof.
  intros Hh Hown. cbv zeta. unfold apply_err_st, refuse. cbn [snd apply_err send_error out1 app].
  destruct (conn_close_in_handshake cfg fx s c st Hh Hown) as (A & B & C).
  destruct (conn_close cfg fx s c) as [s2 e2]. cbn [fst snd] in *. subst e2. auto.
Qed.

(* the handshake stage machine: the only frames that advance a connection *)
Definition advance (st : cstage) (l : label) : option cstage :=
  match l with
  | LMethod _ h m =>
    if h =? 0 then
      match m with
      | MStartOk true => if cstage_eqb st StStart then Some StTune else None
      | MTuneOk true => if cstage_eqb st StTune then Some StTuneOk else None
      | MConnOpen true => if cstage_eqb st StTuneOk then Some StOpen else None
      | _ => None
      end
    else None
  | _ => None
  end.

(* what one client frame does to a connection in the handshake: dropped (with at most close frames), advanced within
   the handshake, or - by connection.open from stage tune-ok only - opened *)
Definition only_close_frames (c : N) (evs : list event) : Prop :=
  forall h f, In (c, h, f) evs -> f = SConnGone \/ f = SConnCloseOk \/ exists code cls mth, f = SConnClose code cls mth.
Definition hs_post (c : N) (o : option cstage) (s' : state) (evs : list event) : Prop :=
  match o with
  | None => get_conn s' c = None /\ In (c, 0, SConnGone) evs /\ only_close_frames c evs
  | Some StOpen => conn_opened s' c = true /\ evs = [(c, 0, SConnOpenOk)]
  | Some st' => in_handshake s' c st' /\ evs = (match st' with StTune => [(c, 0, SConnTune)] | _ => [] end)
  end.

Lemma in_handshake_set_stage s c st st' : in_handshake s c st -> st' <> StOpen -> in_handshake (set_stage s c st') c st'.
Proof.
  intros (cn & ch0 & Ec & Est & Hne & Hch & Hf) Hn. unfold in_handshake, set_stage. rewrite Ec.
  exists (cn <| cn_stage := st' |>), ch0. split.
  - unfold get_conn. cbn. rewrite (alookup_aset N.eqb Neqb_spec), N.eqb_refl. reflexivity.
  - destruct Hf as (A & B & C & D). cbn. repeat split; auto.
Qed.

Lemma world_set_stage s c st : world (set_stage s c st) c = world s c.
Proof. unfold world, set_stage. destruct (get_conn s c); auto. cbn. rewrite adel_aset_same. reflexivity. Qed.

Ltac drop_err cfg fx s c Hh Hown :=
  match type of Hh with in_handshake _ _ ?st =>
  match goal with |- context [refuse s (ConnErr ?a ?b ?d)] =>
    let H := fresh in let A := fresh in let B := fresh in let C := fresh in
    pose proof (conn_error_drops cfg fx s c st a b d Hh Hown) as H; cbv zeta in H;
    destruct H as (A & B & C); split; [exact A|]; unfold hs_post; split; [exact B | split; [rewrite C; cbn; auto |
      intros h0 f0 Hin; rewrite C in Hin; cbn in Hin; destruct Hin as [Hin|[Hin|[]]]; inversion Hin; subst; eauto 6 ]]
  end end.

Theorem handshake_step cfg fx s c st l :
  fx_stage fx = true -> in_handshake s c st -> owns_nothing s c -> client_label c l ->
  world (fst (step cfg fx s l)) c = world s c /\ hs_post c (advance st l) (fst (step cfg fx s l)) (snd (step cfg fx s l)).
Proof.
  intros Hfx Hh Hown Hl.
  pose proof Hh as (cn & ch0 & Ec & Est & Hne & Hch & (Hc & Hu & Hcur & Hs)).
  assert (Hop : cstage_eqb (cn_stage cn) StOpen = false) by (rewrite Est; destruct st; auto; congruence).
  assert (Hg : get_chan s c 0 = Some ch0) by (unfold get_chan; rewrite Ec, Hch; cbn; reflexivity).
  pose proof (conn_close_in_handshake cfg fx s c st Hh Hown) as Hdrop.
  assert (Hgone : forall e0, world (fst (conn_close cfg fx s c)) c = world s c /\
                             hs_post c None (fst (conn_close cfg fx s c)) (e0 ++ snd (conn_close cfg fx s c)) \/ True) by (intros; right; exact I).
  clear Hgone.
  destruct l; cbn in Hl; try contradiction; subst c0; cbn [step]; rewrite Ec, Hop; cbn [negb andb]; unfold advance.
  - (* LMethod *)
    destruct (h =? 0) eqn:Eh; cbn [negb].
    2:{ destruct Hdrop as (A & B & C). split; [exact A|]. cbn. split; [exact B|]. rewrite C. split; [cbn; auto|].
        intros h0 f0 Hin. cbn in Hin. destruct Hin as [Hin|[]]. inversion Hin. auto. }
    apply N.eqb_eq in Eh. subst h. rewrite (ensure_chan_0 s c cn ch0 Ec Hch). rewrite Hfx. cbn [andb negb N.eqb].
    rewrite Hg, Hs. cbn [andb].
    destruct m; cbn [is_conn_class meth_ids fst snd N.eqb Pos.eqb Bool.eqb negb andb is_chan_close stage_allows].
    all: rewrite ?Bool.andb_false_r; cbn [andb negb].
    all: try (drop_err cfg fx s c Hh Hown).
    + (* MConnClose *)
      destruct Hdrop as (A & B & C). destruct (conn_close cfg fx s c) as [s2 e2]. cbn [fst snd] in *. subst e2.
      split; [exact A|]. cbn. split; [exact B|]. split; [auto|].
      intros h0 f0 Hin. cbn in Hin. destruct Hin as [Hin|[Hin|[]]]; inversion Hin; auto.
    + (* MConnCloseOk *)
      destruct Hdrop as (A & B & C). split; [exact A|]. cbn. split; [exact B|]. rewrite C. split; [cbn; auto|].
      intros h0 f0 Hin. cbn in Hin. destruct Hin as [Hin|[]]. inversion Hin. auto.
    + (* MStartOk *)
      rewrite Est. destruct st; cbn [cstage_eqb negb]; try congruence.
      all: try (destruct good; drop_err cfg fx s c Hh Hown).
      unfold handle_method. rewrite Hg. destruct good.
      * unfold apply_err_st, ok. cbn [snd apply_err fst]. split; [apply world_set_stage|].
        cbn. split; auto. apply (in_handshake_set_stage _ _ StStart); auto. discriminate.
      * drop_err cfg fx s c Hh Hown.
    + (* MTuneOk *)
      rewrite Est. destruct st; cbn [cstage_eqb negb]; try congruence.
      all: try (destruct within; drop_err cfg fx s c Hh Hown).
      unfold handle_method. rewrite Hg. destruct within.
      * unfold apply_err_st, ok. cbn [snd apply_err fst]. split; [apply world_set_stage|].
        cbn. split; auto. apply (in_handshake_set_stage _ _ StTune); auto. discriminate.
      * drop_err cfg fx s c Hh Hown.
    + (* MConnOpen *)
      rewrite Est. destruct st; cbn [cstage_eqb negb]; try congruence.
      all: try (destruct vhost_ok; drop_err cfg fx s c Hh Hown).
      unfold handle_method. rewrite Hg. destruct vhost_ok.
      * unfold apply_err_st, ok. cbn [snd apply_err fst]. split; [apply world_set_stage|].
        cbn. split; auto. unfold conn_opened, set_stage, get_conn. unfold get_conn in Ec. rewrite Ec. cbn.
        rewrite (alookup_aset N.eqb Neqb_spec), N.eqb_refl. reflexivity.
      * drop_err cfg fx s c Hh Hown.
  - (* LHeader *)
    destruct (h =? 0) eqn:Eh; cbn [negb].
    2:{ destruct Hdrop as (A & B & C). split; [exact A|]. cbn. split; [exact B|]. rewrite C. split; [cbn; auto|].
        intros h0 f0 Hin. cbn in Hin. destruct Hin as [Hin|[]]. inversion Hin. auto. }
    apply N.eqb_eq in Eh. subst h. rewrite (ensure_chan_0 s c cn ch0 Ec Hch). rewrite Hg, Hs, Hcur.
    rewrite Bool.andb_false_r.
    drop_err cfg fx s c Hh Hown.
  - (* LBody *)
    destruct (h =? 0) eqn:Eh; cbn [negb].
    2:{ destruct Hdrop as (A & B & C). split; [exact A|]. cbn. split; [exact B|]. rewrite C. split; [cbn; auto|].
        intros h0 f0 Hin. cbn in Hin. destruct Hin as [Hin|[]]. inversion Hin. auto. }
    apply N.eqb_eq in Eh. subst h. rewrite (ensure_chan_0 s c cn ch0 Ec Hch). rewrite Hg, Hs, Hcur.
    rewrite Bool.andb_false_r.
    drop_err cfg fx s c Hh Hown.
  - (* LBadMethod *)
    destruct (h =? 0) eqn:Eh; cbn [negb].
    2:{ destruct Hdrop as (A & B & C). split; [exact A|]. cbn. split; [exact B|]. rewrite C. split; [cbn; auto|].
        intros h0 f0 Hin. cbn in Hin. destruct Hin as [Hin|[]]. inversion Hin. auto. }
    apply N.eqb_eq in Eh. subst h. rewrite (ensure_chan_0 s c cn ch0 Ec Hch).
    drop_err cfg fx s c Hh Hown.
Qed.

(* frames addressed to a connection the broker no longer knows do nothing *)
Lemma client_label_on_gone cfg fx s c l : get_conn s c = None -> client_label c l -> step cfg fx s l = (s, []).
Proof. intros Ec Hl. destruct l; cbn in Hl; try contradiction; subst; cbn [step]; rewrite Ec; reflexivity. Qed.

(* a heartbeat on channel 0 is legal at any time and does nothing *)
Lemma heartbeat_is_noop cfg fx s c : step cfg fx s (LHeartbeat c 0) = (s, []).
Proof. cbn [step]. destruct (get_conn s c); reflexivity. Qed.

Lemma run_on_gone cfg fx c ls : forall s, get_conn s c = None -> Forall (client_label c) ls -> run cfg fx s ls = (s, []).
Proof.
  induction ls as [|l t IH]; intros s Ec Hf; cbn [run]; auto.
  inversion Hf; subst. rewrite (client_label_on_gone cfg fx s c l Ec); auto. rewrite (IH s Ec); auto.
Qed.

(* the stage a connection is in after a sequence of its own frames: None = dropped *)
Fixpoint stage_after (st : option cstage) (ls : list label) : option cstage :=
  match ls with
  | [] => st
  | l :: t => stage_after (match st with Some x => advance x l | None => None end) t
  end.

Lemma stage_after_none ls : stage_after None ls = None.
Proof. induction ls; cbn; auto. Qed.

Lemma owns_nothing_world s s' c : world s' c = world s c -> owns_nothing s c -> owns_nothing s' c.
Proof. unfold world, owns_nothing. intros H. inversion H. congruence. Qed.

(* the handshake phase of a connection, whatever the client sends: as long as the three steps have not been completed
   in order, nothing but the connection's own record changes, the connection is either still in the stage the stage
   machine says or gone, and all it has been sent are tune and close frames *)
Theorem handshake_run cfg fx c ls : forall s st,
  fx_stage fx = true -> Forall (client_label c) ls -> in_handshake s c st -> owns_nothing s c ->
  (forall pre l post, ls = pre ++ l :: post -> stage_after (Some st) (pre ++ [l]) <> Some StOpen) ->
  world (fst (run cfg fx s ls)) c = world s c /\
  match stage_after (Some st) ls with
  | Some st' => in_handshake (fst (run cfg fx s ls)) c st'
  | None => get_conn (fst (run cfg fx s ls)) c = None
  end /\
  (forall h f, In (c, h, f) (snd (run cfg fx s ls)) ->
     f = SConnTune \/ f = SConnGone \/ f = SConnCloseOk \/ exists code cls mth, f = SConnClose code cls mth).
Proof.
  induction ls as [|l t IH]; intros s st Hfx Hf Hh Hown Hno.
  - cbn. repeat split; auto. intros h f [].
  - inversion Hf as [|? ? Hl Hf']; subst. cbn [run stage_after].
    destruct (handshake_step cfg fx s c st l Hfx Hh Hown Hl) as [Hw Hp].
    destruct (step cfg fx s l) as [s1 e1] eqn:Es. cbn [fst snd] in *.
    destruct (advance st l) as [st1|] eqn:Ea.
    + (* advanced *)
      assert (Hst1 : st1 <> StOpen).
      { intros ->. apply (Hno [] l t eq_refl). cbn. rewrite Ea. reflexivity. }
      assert (Hh1 : in_handshake s1 c st1 /\ e1 = match st1 with StTune => [(c, 0, SConnTune)] | _ => [] end).
      { unfold hs_post in Hp. destruct st1; try congruence; exact Hp. }
      destruct Hh1 as [Hh1 He1].
      assert (Hown1 : owns_nothing s1 c) by (eapply owns_nothing_world; eauto).
      assert (Hno1 : forall pre l0 post, t = pre ++ l0 :: post -> stage_after (Some st1) (pre ++ [l0]) <> Some StOpen).
      { intros pre l0 post Et. specialize (Hno (l :: pre) l0 post). cbn in Hno. rewrite Ea in Hno. apply Hno. rewrite Et. reflexivity. }
      destruct (IH s1 st1 Hfx Hf' Hh1 Hown1 Hno1) as (A & B & C).
      destruct (run cfg fx s1 t) as [s2 e2]. cbn [fst snd] in *.
      split; [congruence|]. split; [exact B|].
      intros h f Hin. apply in_app_or in Hin. destruct Hin as [Hin|Hin]; [|eauto].
      rewrite He1 in Hin. destruct st1; cbn in Hin; try contradiction. destruct Hin as [Hin|[]]. inversion Hin. auto.
    + (* dropped *)
      destruct Hp as (Hg & Hgone & Hoc).
      rewrite (run_on_gone cfg fx c t s1 Hg Hf'). cbn [fst snd]. rewrite stage_after_none.
      split; [exact Hw|]. split; [exact Hg|].
      intros h f Hin. rewrite app_nil_r in Hin. destruct (Hoc h f Hin) as [?|[?|?]]; auto.
Qed.

Lemma classic_prefix ls : forall o,
  (exists pre l post, ls = pre ++ l :: post /\ stage_after o (pre ++ [l]) = Some StOpen) \/
  (forall pre l post, ls = pre ++ l :: post -> stage_after o (pre ++ [l]) <> Some StOpen).
Proof.
  induction ls as [|l t IH]; intros o.
  - right. intros pre l post E. destruct pre; discriminate.
  - set (o' := match o with Some x => advance x l | None => None end).
    assert (Hd : o' = Some StOpen \/ o' <> Some StOpen) by (destruct o' as [[]|]; auto; right; discriminate).
    destruct Hd as [Hd|Hd].
    + left. exists [], l, t. split; auto.
    + destruct (IH o') as [(pre & l0 & post & E & Hs)|Hno].
      * left. exists (l :: pre), l0, post. split; [rewrite E; reflexivity|exact Hs].
      * right. intros pre l0 post E. destruct pre as [|x pre'].
        -- cbn in E. inversion E; subst. cbn. exact Hd.
        -- cbn in E. inversion E; subst. cbn. fold o'. apply (Hno pre' l0 post eq_refl).
Qed.

(* a connection opens only by the three steps in order: if after a sequence of its own frames the connection is open,
   the sequence has a prefix that the stage machine takes from start to open *)
Theorem opened_only_in_order cfg fx c ls : forall s st,
  fx_stage fx = true -> Forall (client_label c) ls -> in_handshake s c st -> owns_nothing s c ->
  conn_opened (fst (run cfg fx s ls)) c = true ->
  exists pre l post, ls = pre ++ l :: post /\ stage_after (Some st) (pre ++ [l]) = Some StOpen.
Proof.
  intros s st Hfx Hf Hh Hown Hopen.
  destruct (classic_prefix ls (Some st)) as [Hex|Hno]; [exact Hex|].
  exfalso. destruct (handshake_run cfg fx c ls s st Hfx Hf Hh Hown Hno) as (_ & B & _).
  unfold conn_opened in Hopen. destruct (stage_after (Some st) ls) as [st'|].
  - destruct B as (cn & ch0 & Ec & Est & Hne & _). rewrite Ec, Est in Hopen. destruct st'; cbn in Hopen; congruence.
  - rewrite B in Hopen. discriminate.
Qed.
