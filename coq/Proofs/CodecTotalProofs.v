(* Decoder part of C11: on EVERY byte list the decoders neither panic nor commit more than a constant
   number of bytes to a length field whose data has not arrived - provided the length readers are of
   the chunked shape (which the translator re-derives from the source on every run). *)
From Coq Require Import List String Arith NArith Bool Lia ZifyN ZifyNat ZifyBool.
Import ListNotations.
From GMQ Require Import Base.Bytes Codec.Desc Codec.Prim Codec.Value Codec.MethodCodec Codec.Header Codec.Frame Codec.Records.
From GMQ Require Import Proofs.CodecPrimProofs.
Open Scope N_scope.
Open Scope list_scope.

(* no panic; an allocation ahead of the data is at most c *)
Definition safe {A} (c : N) (r : result A) : Prop :=
  match r with
  | Panic => False
  | Alloc n => n <= c
  | _ => True
  end.

Lemma safe_bind : forall {A B} c (r : result A) (f : A -> result B),
  safe c r -> (forall a, safe c (f a)) -> safe c (bind r f).
Proof. intros A B c r f Hr Hf. destruct r; cbn [bind safe] in *; auto. Qed.

Lemma safe_ok : forall {A} c (a : A), safe c (Ok a).
Proof. intros. exact I. Qed.
Lemma safe_err : forall {A} c, safe c (@Err A).
Proof. intros. exact I. Qed.

Lemma safe_fixed : forall c k bs, safe c (dec_fixed k bs).
Proof. intros. unfold dec_fixed. destruct (take k bs) as [[h r]|]; exact I. Qed.

Lemma safe_shortstr : forall c bs, safe c (dec_shortstr bs).
Proof.
  intros. unfold dec_shortstr. apply safe_bind; [apply safe_fixed|].
  intros x. destruct (takeN (fst x) (snd x)) as [[s r]|]; exact I.
Qed.

Lemma safe_longstr : forall cap bs, safe cap (dec_longstr (AllocChunked cap) bs).
Proof.
  intros. unfold dec_longstr. apply safe_bind; [apply safe_fixed|].
  intros x. destruct (takeN (fst x) (snd x)) as [[s r]|]; [exact I|].
  cbn [safe committed]. lia.
Qed.

Lemma safe_inverted : forall {A B} c (res : result (A * B)) (z1 z2 : A) (r2 : B),
  safe c res ->
  safe c (match res with
          | Ok (_, r') => Ok (z1, r')
          | Err => Ok (z2, r2)
          | other => other
          end).
Proof. intros A B c res z1 z2 r2 H. destruct res as [[? ?]| | | |]; cbn [safe] in *; auto. Qed.

Section Total.
  Variable cap : N.
  Variable rd : dialect -> list reader_row.
  Let st := AllocChunked cap.

  Lemma safe_values : forall f,
    (forall d bs, safe cap (dec_value st rd f d bs)) /\
    (forall d bs, safe cap (dec_arr st rd f d bs)) /\
    (forall d bs, safe cap (dec_titems st rd f d bs)).
  Proof.
    induction f as [|f [IHv [IHa IHt]]]; [repeat split; intros; exact I|].
    repeat split; intros d bs.
    - cbn [dec_value]. apply safe_bind; [apply safe_fixed|]. intros x. cbv zeta.
      destruct (lookup_reader (rd d) (fst x)) as [row|]; [|exact I].
      destruct (rr_inverted row); [apply safe_inverted|];
        (destruct (rr_wire row);
         [ apply safe_bind; [apply safe_fixed | intros; exact I]
         | apply safe_bind; [apply safe_fixed | intros; exact I]
         | apply safe_bind; [apply safe_fixed | intros]; apply safe_bind; [apply safe_fixed | intros; exact I]
         | apply safe_bind; [apply safe_shortstr | intros; exact I]
         | apply safe_bind; [apply safe_longstr | intros; exact I]
         | apply safe_bind; [apply safe_fixed | intros; exact I]
         | apply safe_bind; [apply safe_longstr | intros]; apply safe_bind; [apply IHa | intros; exact I]
         | apply safe_bind; [apply safe_longstr | intros]; apply safe_bind; [apply IHt | intros; exact I]
         | exact I ]).
    - cbn [dec_arr]. destruct bs; [exact I|].
      apply safe_bind; [apply IHv | intros]. apply safe_bind; [apply IHa | intros; exact I].
    - cbn [dec_titems]. destruct bs; [exact I|].
      apply safe_bind; [apply safe_shortstr | intros]. apply safe_bind; [apply IHv | intros].
      apply safe_bind; [apply IHt | intros; exact I].
  Qed.

  Lemma safe_value_top : forall d bs, safe cap (dec_value_top st rd d bs).
  Proof. intros. unfold dec_value_top. apply (proj1 (safe_values _)). Qed.

  Lemma safe_table : forall d bs, safe cap (dec_table st rd d bs).
  Proof.
    intros. unfold dec_table, dec_table_fuel. apply safe_bind; [apply safe_longstr | intros].
    apply safe_bind; [apply (proj2 (proj2 (safe_values _))) | intros; exact I].
  Qed.

  Lemma safe_field : forall d k bs, safe cap (dec_field st rd d k bs).
  Proof.
    intros d k bs. destruct k; cbn [dec_field]; try exact I;
      (apply safe_bind; [| intros; exact I]);
      try apply safe_fixed; try apply safe_shortstr; try apply safe_longstr; apply safe_table.
  Qed.

  Lemma safe_steps : forall d steps bits e bs, safe cap (dec_steps st rd d steps bits e bs).
  Proof.
    intros d. induction steps as [|s steps IH]; intros bits e bs; cbn [dec_steps]; [exact I|].
    destruct s.
    - apply safe_bind; [apply safe_field | intros; apply IH].
    - apply safe_bind; [apply safe_fixed | intros; apply IH].
    - apply IH.
  Qed.

  Lemma safe_method : forall d m bs, safe cap (dec_method st rd d m bs).
  Proof. intros. unfold dec_method. apply safe_bind; [apply safe_steps | intros; exact I]. Qed.

  Lemma safe_method_frame : forall d methods dispatch bs, safe cap (dec_method_frame st rd d methods dispatch bs).
  Proof.
    intros. unfold dec_method_frame. apply safe_bind; [apply safe_fixed | intros c].
    apply safe_bind; [apply safe_fixed | intros i].
    destruct (dispatch_lookup dispatch (fst c) (fst i)); [|exact I].
    destruct (find_method methods s); [|exact I].
    apply safe_bind; [apply safe_method | intros; exact I].
  Qed.

  Lemma safe_props : forall d rows flags e bs, safe cap (dec_props st rd d rows flags e bs).
  Proof.
    intros d. induction rows as [|r rows IH]; intros flags e bs; cbn [dec_props]; [exact I|].
    destruct (N.testbit flags (pr_bit r)); [|apply IH].
    apply safe_bind; [apply safe_field | intros; apply IH].
  Qed.

  Lemma safe_header : forall d pf pr bs, safe cap (dec_header st rd d pf pr bs).
  Proof.
    intros. unfold dec_header. destruct (take 14 bs) as [[fixed r]|]; [|exact I].
    apply safe_bind; [apply safe_fixed | intros].
    apply safe_bind; [apply safe_fixed | intros].
    apply safe_bind; [apply safe_fixed | intros].
    apply safe_bind; [apply safe_fixed | intros].
    apply safe_bind; [apply safe_props | intros; exact I].
  Qed.

  Lemma safe_queue : forall bs, safe cap (dec_queue bs).
  Proof. intros. unfold dec_queue. apply safe_bind; [apply safe_shortstr | intros]. apply safe_bind; [apply safe_fixed | intros; exact I]. Qed.
  Lemma safe_exchange : forall bs, safe cap (dec_exchange bs).
  Proof. intros. unfold dec_exchange. apply safe_bind; [apply safe_shortstr | intros]. apply safe_bind; [apply safe_fixed | intros; exact I]. Qed.
  Lemma safe_binding : forall d bs, safe cap (dec_binding st rd d bs).
  Proof.
    intros. unfold dec_binding. apply safe_bind; [apply safe_shortstr | intros].
    apply safe_bind; [apply safe_shortstr | intros]. apply safe_bind; [apply safe_shortstr | intros].
    apply safe_bind; [apply safe_table | intros]. apply safe_bind; [apply safe_fixed | intros; exact I].
  Qed.
End Total.

Lemma safe_mono : forall {A} c c' (r : result A), c <= c' -> safe c r -> safe c' r.
Proof. intros A c c' r H S. destruct r; cbn [safe] in *; auto. lia. Qed.

Lemma safe_frame : forall fcap fe bs, safe fcap (dec_frame (FrameChunked fcap) fe bs).
Proof.
  intros. unfold dec_frame. apply safe_bind; [apply safe_fixed | intros t].
  apply safe_bind; [apply safe_fixed | intros c].
  apply safe_bind; [apply safe_fixed | intros s].
  destruct (blen (snd s) <? fst s + 1); [cbn [safe]; lia|].
  destruct (takeN (fst s) (snd s)) as [[p [|e r']]|]; try exact I.
  destruct (e =? fe); exact I.
Qed.

Lemma safe_body : forall fcap fe fuel have want bs, safe fcap (dec_body (FrameChunked fcap) fe fuel have want bs).
Proof.
  intros fcap fe. induction fuel as [|f IH]; intros have want bs; cbn [dec_body]; [exact I|].
  destruct (have <? want); [|exact I].
  apply safe_bind; [apply safe_frame | intros x]. apply safe_bind; [apply IH | intros; exact I].
Qed.

Lemma safe_message : forall cap fcap c rd fe d pf pr tr bs, cap <= c -> fcap <= c ->
  safe c (dec_message (AllocChunked cap) (FrameChunked fcap) fe rd d pf pr tr bs).
Proof.
  intros cap fcap c rd fe d pf pr tr bs H1 H2. unfold dec_message. apply safe_bind.
  - unfold dec_message_core. apply safe_bind; [apply safe_fixed | intros].
    apply safe_bind; [apply (safe_mono cap c _ H1); apply safe_header | intros].
    apply safe_bind; [apply safe_shortstr | intros].
    apply safe_bind; [apply safe_shortstr | intros].
    apply safe_bind; [apply (safe_mono fcap c _ H2); apply safe_body | intros; exact I].
  - intros x. destruct (tr && (4 <=? blen (snd x))); [|exact I].
    apply safe_bind; [apply safe_fixed | intros; exact I].
Qed.

(* ---------- the unrepaired shapes are refuted by witnesses (defect F12) ---------- *)
Lemma frame_wire_alloc_panics : exists bs, dec_frame FrameWirePlus1Wrap32 206 bs = Panic.
Proof. exists [1; 0; 0; 255; 255; 255; 255]. vm_compute. reflexivity. Qed.

Lemma frame_wire_alloc_unbounded : forall c, c < 2 ^ 32 - 8 ->
  exists bs n, dec_frame FrameWirePlus1Wrap32 206 bs = Alloc n /\ blen bs + c < n.
Proof.
  intros c Hc. exists [1; 0; 0; 255; 255; 255; 254], (2 ^ 32 - 1). split; [vm_compute; reflexivity|].
  change (blen [1; 0; 0; 255; 255; 255; 254]) with 7. lia.
Qed.

Lemma longstr_wire_alloc_unbounded : forall c, c < 2 ^ 32 - 8 ->
  exists bs n, dec_longstr AllocWire bs = Alloc n /\ blen bs + c < n.
Proof.
  intros c Hc. exists [255; 255; 255; 255], (2 ^ 32 - 1). split; [vm_compute; reflexivity|].
  change (blen [255; 255; 255; 255]) with 4. lia.
Qed.
