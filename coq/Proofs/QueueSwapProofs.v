(* Proofs about the queue with overflow to disk (C19, queue-level C20). *)
From Coq Require Import List NArith ZArith Bool Lia.
Import ListNotations.
From GMQ Require Import Data.QueueSwap.
Open Scope N_scope.

(* ---- the full-strength statement and its refutations ----------------------------------------

   C19 at full strength: for every two configurations (same durability, any limits >= 1) and every two
   schedules of the same client operations, the client-visible outputs (deliveries, purge counts) and
   the final contents agree.  The faithful model refutes it; each witness below was replayed against the
   real queue.Queue (checks/C19.py re-confirms them on every run). *)
Definition config_independent_statement : Prop :=
  forall d m1 m2 ls1 ls2,
    1 <= m1 -> 1 <= m2 -> m1 < W64 -> m2 < W64 ->
    wf_client ls1 = true -> client ls1 = client ls2 ->
    let r1 := q_run (mkCfg d m1) q_init ls1 in
    let r2 := q_run (mkCfg d m2) q_init ls2 in
    client_outs ls1 (snd r1) = client_outs ls2 (snd r2) /\ q_abs (fst r1) = q_abs (fst r2).

(* F24a: a loader turn inside the flush window sees nothing, clears swappedToDisk; the next push overtakes
   the unflushed message, which is never loaded. *)
Definition f24_witness : list label :=
  [Push 1 false; Push 2 false; Push 3 false; Push 4 false; Pop; Pop; Pop; LoaderTurn; PersistTick false;
   Push 5 false; Pop; LoaderTurn; Pop].

Lemma config_independent_refuted_F24 : ~ config_independent_statement.
Proof.
  intro H. specialize (H false 2 100 f24_witness f24_witness).
  assert (E : client_outs f24_witness (snd (q_run (mkCfg false 2) q_init f24_witness)) =
              client_outs f24_witness (snd (q_run (mkCfg false 100) q_init f24_witness))).
  { apply H; try reflexivity; vm_compute; congruence. }
  vm_compute in E. discriminate.
Qed.

(* F24b: purge while swapped leaves the transient store and the flag: the purged message comes back,
   and the length counter goes negative. *)
Definition f24_purge_witness : list label :=
  [Push 1 false; Push 2 false; Push 3 false; Push 4 false; PersistTick false; Purge; LoaderTurn; Pop].

Lemma config_independent_refuted_purge : ~ config_independent_statement.
Proof.
  intro H. specialize (H false 2 100 f24_purge_witness f24_purge_witness).
  assert (E : client_outs f24_purge_witness (snd (q_run (mkCfg false 2) q_init f24_purge_witness)) =
              client_outs f24_purge_witness (snd (q_run (mkCfg false 100) q_init f24_purge_witness))).
  { apply H; try reflexivity; vm_compute; congruence. }
  vm_compute in E. discriminate.
Qed.

(* F40: with a limit of 1 the threshold (1/2) is 0: the loader never proceeds, what overflowed stays on disk. *)
Definition f40_witness : list label :=
  [Push 1 false; Push 2 false; Push 3 false; PersistTick false; Pop; Pop; LoaderTurn; Pop;
   PersistTick true; PersistTick false; LoaderTurn; Pop].

Lemma config_independent_refuted_F40 : ~ config_independent_statement.
Proof.
  intro H. specialize (H false 1 100 f40_witness f40_witness).
  assert (E : client_outs f40_witness (snd (q_run (mkCfg false 1) q_init f40_witness)) =
              client_outs f40_witness (snd (q_run (mkCfg false 100) q_init f40_witness))).
  { apply H; try reflexivity; vm_compute; congruence. }
  vm_compute in E. discriminate.
Qed.

(* queue-level C20 at full strength: queueLength = what the queue holds.  Refuted by the purge witness:
   after purge-while-swapped, load and pop the counter is -1. *)
Lemma queue_length_refuted : exists d m ls, wf_client ls = true /\ 2 <= m /\
  qlen (fst (q_run (mkCfg d m) q_init ls)) <> Z.of_nat (length (q_abs (fst (q_run (mkCfg d m) q_init ls)))).
Proof.
  exists false, 2, f24_purge_witness. split; [reflexivity|]. split; [vm_compute; congruence|].
  vm_compute. discriminate.
Qed.
