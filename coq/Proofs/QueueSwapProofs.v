(* Proofs about the queue with overflow to disk (C19, queue-level C20):
   - general lemmas on strictly sorted lists, mergeSortedMessageSlices, the store;
   - the invariant [Inv] relating the model state to the unlimited list (ghost state of the run);
   - one preservation lemma per label (push, pop, requeue, ack, purge, loader turn, persist tick);
   - refinement of the unlimited FIFO list under the hypotheses [wf_client] and [no_findings],
     hence configuration independence and queueLength = contents (partial theorems);
   - the same over label lists with restarts ([Inv2]: the persistent store holds exactly what must come back);
   - the refutations of the full-strength statements (open findings F24, F40). *)
From Coq Require Import List NArith ZArith Bool Lia Sorted Permutation.
Import ListNotations.
From GMQ Require Import Data.QueueSwap.
Open Scope N_scope.

(* ---- general list lemmas ---------------------------------------------------------------------- *)
Notation ssorted := (StronglySorted N.lt).

Lemma inb_In : forall k l, inb k l = true <-> In k l.
Proof.
  intros k l. unfold inb. rewrite existsb_exists. split.
  - intros (x & Hx & E). apply N.eqb_eq in E. subst. exact Hx.
  - intros H. exists k. split; [exact H | apply N.eqb_refl].
Qed.

Lemma inb_false : forall k l, inb k l = false <-> ~ In k l.
Proof. intros. rewrite <- inb_In. destruct (inb k l); split; congruence. Qed.

Lemma inb_app : forall k a b, inb k (a ++ b) = inb k a || inb k b.
Proof. intros. unfold inb. apply existsb_app. Qed.

Lemma set_key_In : forall l k x, In x (set_key l k) <-> In x l \/ x = k.
Proof.
  intros l k x. unfold set_key. destruct (inb k l) eqn:E.
  - apply inb_In in E. split; [auto | intros [H | H]; subst; auto].
  - rewrite in_app_iff. cbn. intuition.
Qed.

Lemma inb_set_key : forall l k x, inb x (set_key l k) = inb x l || (x =? k).
Proof.
  intros. apply eq_true_iff_eq. rewrite orb_true_iff, !inb_In, set_key_In, N.eqb_eq. tauto.
Qed.

Lemma minus_In : forall l d x, In x (minus l d) <-> In x l /\ ~ In x d.
Proof. intros. unfold minus. rewrite filter_In, negb_true_iff, inb_false. tauto. Qed.

Lemma ssorted_app_last : forall l x, ssorted l -> Forall (fun k => k < x) l -> ssorted (l ++ [x]).
Proof.
  induction l; intros x Hs Hf; cbn.
  - constructor; constructor.
  - inversion Hs; subst. inversion Hf; subst. constructor.
    + apply IHl; assumption.
    + apply Forall_app. split; [assumption | constructor; [assumption | constructor]].
Qed.

Lemma ssorted_filter : forall f l, ssorted l -> ssorted (filter f l).
Proof.
  induction l; intros Hs; cbn; [constructor|]. inversion Hs; subst. destruct (f a).
  - constructor; [auto|]. rewrite Forall_forall in *. intros x Hx. apply filter_In in Hx. apply H2. tauto.
  - auto.
Qed.

Lemma In_firstn : forall {A} n (l : list A) x, In x (firstn n l) -> In x l.
Proof. induction n; intros l x H; cbn in H; [contradiction|]. destruct l; [contradiction|]. destruct H; [left; auto | right; auto]. Qed.

Lemma ssorted_firstn : forall n l, ssorted l -> ssorted (firstn n l).
Proof.
  induction n; intros l Hs; cbn; [constructor|]. destruct l; [constructor|]. inversion Hs; subst. constructor; [auto|].
  rewrite Forall_forall in *. intros x Hx. apply H2. eapply In_firstn; eauto.
Qed.

Lemma ssorted_head_lt : forall a l x, ssorted (a :: l) -> In x l -> a < x.
Proof. intros a l x H Hx. inversion H; subst. rewrite Forall_forall in H3. auto. Qed.

(* two strictly sorted lists with the same elements are equal *)
Lemma ssorted_unique : forall l1 l2, ssorted l1 -> ssorted l2 -> (forall x, In x l1 <-> In x l2) -> l1 = l2.
Proof.
  induction l1 as [| a l1 IH]; intros l2 H1 H2 E.
  - destruct l2; [reflexivity|]. exfalso. apply (E n). left; reflexivity.
  - destruct l2 as [| b l2]; [exfalso; apply (E a); left; reflexivity|].
    assert (a = b).
    { destruct (proj1 (E a) (or_introl eq_refl)) as [Hb | Hb]; [auto|].
      destruct (proj2 (E b) (or_introl eq_refl)) as [Ha | Ha]; [auto|].
      pose proof (ssorted_head_lt _ _ _ H2 Hb). pose proof (ssorted_head_lt _ _ _ H1 Ha). lia. }
    subst b. f_equal. inversion H1; subst. inversion H2; subst. apply IH; auto.
    intros x. split; intros Hx.
    + destruct (proj1 (E x) (or_intror Hx)) as [Hb | Hb]; [|exact Hb].
      subst x. rewrite Forall_forall in H4. specialize (H4 _ Hx). lia.
    + destruct (proj2 (E x) (or_intror Hx)) as [Hb | Hb]; [|exact Hb].
      subst x. rewrite Forall_forall in H6. specialize (H6 _ Hx). lia.
Qed.

Lemma ssorted_last_max : forall l d x, ssorted l -> In x l -> x <= last l d.
Proof.
  induction l as [| a l IH]; intros d x Hs Hx; [contradiction|].
  inversion Hs; subst. destruct l as [| b l].
  - destruct Hx as [Hx | []]. subst. cbn. lia.
  - change (last (a :: b :: l) d) with (last (b :: l) d). destruct Hx as [Hx | Hx].
    + subst. specialize (IH d b H1 (or_introl eq_refl)). rewrite Forall_forall in H2. specialize (H2 b (or_introl eq_refl)). lia.
    + apply IH; auto.
Qed.

Lemma last_In : forall (l : list N) d, l <> [] -> In (last l d) l.
Proof.
  induction l as [| a l IH]; intros d H; [congruence|]. destruct l as [| b l]; [left; reflexivity|].
  right. change (last (a :: b :: l) d) with (last (b :: l) d). apply IH. discriminate.
Qed.

Lemma filter_nil : forall {A} (f : A -> bool) l, (forall x, In x l -> f x = false) -> filter f l = [].
Proof. induction l; intros H; cbn; [reflexivity|]. rewrite (H a (or_introl eq_refl)). apply IHl. intros; apply H; right; assumption. Qed.

Lemma filter_all : forall {A} (f : A -> bool) l, (forall x, In x l -> f x = true) -> filter f l = l.
Proof. induction l; intros H; cbn; [reflexivity|]. rewrite (H a (or_introl eq_refl)). f_equal. apply IHl. intros; apply H; right; assumption. Qed.

Lemma ssorted_app_inv : forall a b, ssorted (a ++ b) -> ssorted a /\ ssorted b /\ (forall x y, In x a -> In y b -> x < y).
Proof.
  induction a as [| h a IH]; intros b H; cbn in *.
  - repeat split; [constructor | assumption | intros; contradiction].
  - inversion H; subst. destruct (IH _ H2) as (Sa & Sb & Hlt). rewrite Forall_forall in H3. repeat split.
    + constructor; [assumption|]. rewrite Forall_forall. intros x Hx. apply H3. apply in_or_app; left; assumption.
    + assumption.
    + intros x y [Hx | Hx] Hy; [subst; apply H3; apply in_or_app; right; assumption | auto].
Qed.

Lemma In_skipn : forall {A} n (l : list A) x, In x (skipn n l) -> In x l.
Proof. induction n; intros l x H; cbn in H; [assumption|]. destruct l; [contradiction|]. right; auto. Qed.

(* loading a prefix of what is ahead on disk: what remains ahead is the rest *)
Lemma prefix_split : forall (on : N -> bool) lm ids j D L,
  ssorted ids ->
  D = filter (fun k => (lm <? k) && on k) ids ->
  L = firstn j D ->
  filter (fun k => (last L lm <? k) && on k) ids = skipn j D.
Proof.
  intros on lm ids j D L Hs ED EL0.
  assert (SD : ssorted D) by (subst D; apply ssorted_filter; assumption).
  pose proof (firstn_skipn j D) as E. rewrite <- EL0 in E.
  destruct L as [| l0 L'].
  - (* nothing loaded *)
    cbn [last]. cbn [app] in E. rewrite E. symmetry. exact ED.
  - set (m := last (l0 :: L') lm).
    assert (Hm : In m (l0 :: L')) by (apply last_In; discriminate).
    rewrite <- E in SD. destruct (ssorted_app_inv _ _ SD) as (SL & SK & Hlt).
    assert (HmD : In m D) by (rewrite <- E; apply in_or_app; left; assumption).
    rewrite ED in HmD. apply filter_In in HmD. destruct HmD as [_ HmD]. apply andb_true_iff in HmD. destruct HmD as [Hlm _]. apply N.ltb_lt in Hlm.
    apply ssorted_unique; [apply ssorted_filter; assumption | assumption |].
    intros x. rewrite filter_In, andb_true_iff, N.ltb_lt. split.
    + intros (Hi & Hx & Ho).
      assert (HxD : In x D).
      { rewrite ED. apply filter_In. split; [assumption|]. apply andb_true_iff. split; [apply N.ltb_lt; lia | assumption]. }
      rewrite <- E in HxD. apply in_app_or in HxD. destruct HxD as [HxL | HxK]; [| assumption].
      exfalso. pose proof (ssorted_last_max _ lm _ SL HxL). fold m in H. lia.
    + intros Hx. assert (HxD : In x D) by (rewrite <- E; apply in_or_app; right; assumption).
      rewrite ED in HxD. apply filter_In in HxD. destruct HxD as [Hi Hc]. apply andb_true_iff in Hc. destruct Hc as [_ Ho].
      repeat split; try assumption. apply Hlt; assumption.
Qed.

(* dropping the one element that may sit below everything else commutes with taking a prefix *)
Lemma filter_ne_firstn : forall lm n M, ssorted M -> Forall (fun k => lm <= k) M ->
  exists j, filter (fun k => negb (k =? lm)) (firstn n M) = firstn j (filter (fun k => negb (k =? lm)) M).
Proof.
  intros lm n M Hs Hge. destruct M as [| a M']; [exists 0%nat; destruct n; reflexivity|].
  inversion Hs; subst. inversion Hge; subst.
  assert (Hrest : forall x, In x M' -> negb (x =? lm) = true).
  { intros x Hx. rewrite Forall_forall in H2. specialize (H2 _ Hx). apply negb_true_iff. apply N.eqb_neq. lia. }
  destruct (N.eqb_spec a lm) as [Ea | Ea].
  - subst a. destruct n as [| n]; [exists 0%nat; reflexivity|]. exists n. cbn [firstn filter].
    rewrite N.eqb_refl. cbn [negb]. rewrite (filter_all _ M' Hrest).
    apply filter_all. intros x Hx. apply Hrest. eapply In_firstn; eauto.
  - exists n. assert (Hall : forall x, In x (a :: M') -> negb (x =? lm) = true).
    { intros x [Hx | Hx]; [subst; apply negb_true_iff; apply N.eqb_neq; assumption | auto]. }
    rewrite (filter_all _ (a :: M') Hall). apply filter_all. intros x Hx. apply Hall. eapply In_firstn; eauto.
Qed.

(* ---- mergeSortedMessageSlices --------------------------------------------------------------------- *)
Lemma merge_nil_l : forall b, merge [] b = b.
Proof. destruct b; reflexivity. Qed.
Lemma merge_nil_r : forall a, merge a [] = a.
Proof. destruct a; reflexivity. Qed.
Lemma merge_cons : forall x a y b, merge (x :: a) (y :: b) = if x <? y then x :: merge a (y :: b) else y :: merge (x :: a) b.
Proof. reflexivity. Qed.

Lemma merge_In : forall a b x, In x (merge a b) <-> In x a \/ In x b.
Proof.
  induction a as [| h a IHa]; intros b x.
  - rewrite merge_nil_l. cbn. tauto.
  - induction b as [| y b IHb].
    + rewrite merge_nil_r. cbn. tauto.
    + rewrite merge_cons. destruct (h <? y).
      * cbn [In]. rewrite IHa. cbn [In]. tauto.
      * cbn [In]. rewrite IHb. cbn [In]. tauto.
Qed.

Lemma merge_sorted : forall a b, ssorted a -> ssorted b -> (forall x, In x a -> In x b -> False) -> ssorted (merge a b).
Proof.
  induction a as [| h a IHa]; intros b Sa Sb Hd.
  - rewrite merge_nil_l. assumption.
  - induction b as [| y b IHb].
    + rewrite merge_nil_r. assumption.
    + rewrite merge_cons. destruct (StronglySorted_inv Sa) as [Sa' Fa]. destruct (StronglySorted_inv Sb) as [Sb' Fb].
      rewrite Forall_forall in Fa, Fb.
      destruct (N.ltb_spec h y).
      * constructor.
        -- apply IHa; try assumption. intros x Hx Hy. apply (Hd x); [right; assumption | assumption].
        -- rewrite Forall_forall. intros x Hx. apply merge_In in Hx. destruct Hx as [Hx | [Hx | Hx]]; [auto | subst; assumption |].
           specialize (Fb _ Hx). lia.
      * assert (h <> y) by (intro; subst; apply (Hd y); left; reflexivity).
        constructor.
        -- apply IHb; try assumption. intros x Hx Hy. apply (Hd x); [assumption | right; assumption].
        -- rewrite Forall_forall. intros x Hx. apply merge_In in Hx. destruct Hx as [[Hx | Hx] | Hx]; [subst; lia | | auto].
           specialize (Fa _ Hx). lia.
Qed.

Lemma firstn_merge : forall n p q a b, (n <= p)%nat -> (n <= q)%nat ->
  firstn n (merge (firstn p a) (firstn q b)) = firstn n (merge a b).
Proof.
  induction n as [| n IH]; intros p q a b Hp Hq; [reflexivity|].
  destruct p as [| p]; [lia|]. destruct q as [| q]; [lia|].
  destruct a as [| x a].
  - rewrite firstn_nil, !merge_nil_l. rewrite firstn_firstn. f_equal. lia.
  - destruct b as [| y b].
    + rewrite firstn_nil, !merge_nil_r. rewrite firstn_firstn. f_equal. lia.
    + cbn [firstn]. rewrite !merge_cons. destruct (x <? y).
      * cbn [firstn]. f_equal. change (y :: firstn q b) with (firstn (S q) (y :: b)). apply IH; lia.
      * cbn [firstn]. f_equal. change (x :: firstn p a) with (firstn (S p) (x :: a)). apply IH; lia.
Qed.

(* ---- msgstorage ------------------------------------------------------------------------------------ *)
Lemma insert_sorted_In : forall k l x, In x (insert_sorted k l) <-> x = k \/ In x l.
Proof.
  induction l as [| h l IH]; intros x; cbn [insert_sorted].
  - cbn. intuition.
  - destruct (k <? h); [cbn; intuition|]. destruct (N.eqb_spec k h).
    + subst. cbn. intuition.
    + cbn [In]. rewrite IH. intuition.
Qed.

Lemma insert_sorted_ss : forall k l, ssorted l -> ssorted (insert_sorted k l).
Proof.
  induction l as [| h l IH]; intros Hs; cbn [insert_sorted].
  - constructor; constructor.
  - inversion Hs; subst. rewrite Forall_forall in H2. destruct (N.ltb_spec k h).
    + constructor; [assumption|]. rewrite Forall_forall. intros x [Hx | Hx]; [subst; assumption | specialize (H2 _ Hx); lia].
    + destruct (N.eqb_spec k h); [assumption|]. constructor; [auto|].
      rewrite Forall_forall. intros x Hx. apply insert_sorted_In in Hx. destruct Hx; [subst; lia | auto].
Qed.

Lemma fold_insert_In : forall ks fl x, In x (fold_left (fun acc k => insert_sorted k acc) ks fl) <-> In x ks \/ In x fl.
Proof.
  induction ks as [| k ks IH]; intros fl x; cbn [fold_left]; [cbn; tauto|].
  rewrite IH, insert_sorted_In. cbn. intuition.
Qed.

Lemma fold_insert_ss : forall ks fl, ssorted fl -> ssorted (fold_left (fun acc k => insert_sorted k acc) ks fl).
Proof. induction ks; intros; cbn [fold_left]; [assumption|]. apply IHks. apply insert_sorted_ss. assumption. Qed.

Lemma persist_flushed_ss : forall st, ssorted (s_flushed st) -> ssorted (s_flushed (store_persist st)).
Proof. intros. unfold store_persist. cbn [s_flushed]. unfold minus. apply ssorted_filter. apply fold_insert_ss. assumption. Qed.

Lemma persist_flushed_In : forall st x, In x (s_flushed (store_persist st)) <->
  (In x (s_flushed st) \/ (In x (s_add st) /\ ~ In x (s_del st)) \/ (In x (s_upd st) /\ ~ In x (s_del st))) /\
  ~ (In x (s_del st) /\ ~ In x (s_add st)).
Proof.
  intros. unfold store_persist. cbn [s_flushed]. rewrite minus_In, fold_insert_In, in_app_iff, !minus_In. tauto.
Qed.

Lemma store_iter_eq : forall st from n, n <> 0 ->
  store_iter st from n = firstn (N.to_nat n) (filter (fun k => from <=? k) (s_flushed st)).
Proof. intros. unfold store_iter. destruct (N.eqb_spec n 0); [contradiction | reflexivity]. Qed.

(* ---- the invariant --------------------------------------------------------------------------------- *)
Definition st_all (st : store) : list N := s_add st ++ s_upd st ++ s_del st ++ s_flushed st.

Record Inv (c : qcfg) (s : qstate) (g : ghost) : Prop := mkInv {
  inv_abs : q_abs s = g_list g;
  inv_len : qlen s = Z.of_nat (length (g_list g));
  inv_ids_sorted : ssorted (allids s);
  inv_ids_range : Forall (fun k => 0 < k < g_next g) (allids s);
  inv_lm : lastMem s < g_next g;
  inv_ls : lastStored s < g_next g;
  inv_next : 0 < g_next g;
  inv_mem : Forall (fun k => k <= lastMem s /\ In k (allids s)) (mem s);
  inv_outst : Forall (fun k => k <= lastMem s /\ In k (allids s)) (g_outst g);
  inv_disk_ids : Forall (fun k => In k (allids s)) (st_all (pst s) ++ st_all (tst s));
  inv_settle : Forall (fun k => k <= lastMem s) (s_upd (pst s) ++ s_del (pst s));
  inv_tsettle : s_upd (tst s) = [] /\ s_del (tst s) = [];
  inv_notsw : swapped s = false -> Forall (fun k => disk_ahead s k = false) (allids s);
  inv_sw : swapped s = true -> lastMem s <= lastStored s /\ Forall (fun k => disk_ahead s k = true -> lastStored s <= k) (allids s);
  inv_fl : ssorted (s_flushed (pst s)) /\ ssorted (s_flushed (tst s));
  inv_pkeys : Forall (fun k => durable c = true /\ In k (g_pers g)) (s_add (pst s) ++ s_upd (pst s) ++ s_flushed (pst s));
  inv_tkeys : Forall (fun k => ~ (durable c = true /\ In k (g_pers g))) (s_add (tst s) ++ s_flushed (tst s));
  inv_pers : Forall (fun k => In k (allids s)) (g_pers g)
}.

Lemma inv_init : forall c, Inv c q_init ghost_init.
Proof.
  intros c. constructor; cbn; try reflexivity; try lia; try (constructor; fail); auto.
  all: try (intros; discriminate).
  all: try (split; constructor).

Qed.

(* the keys that put a message "on disk" after a persist are the same, for a key that is in neither the
   delete nor the update map *)
Lemma persist_on_disk : forall st k, ~ In k (s_del st) ->
  inb k (s_add (store_persist st)) || inb k (s_flushed (store_persist st)) =
  inb k (s_add st) || inb k (s_flushed st) || inb k (s_upd st).
Proof.
  intros st k Hd. apply eq_true_iff_eq. rewrite !orb_true_iff, !inb_In, persist_flushed_In.
  unfold store_persist. cbn [s_add In]. tauto.
Qed.

Lemma Forall_app_l : forall {A} (P : A -> Prop) a b, Forall P (a ++ b) -> Forall P a.
Proof. intros. apply Forall_app in H. tauto. Qed.
Lemma Forall_app_r : forall {A} (P : A -> Prop) a b, Forall P (a ++ b) -> Forall P b.
Proof. intros. apply Forall_app in H. tauto. Qed.

Lemma step_tick : forall c s g b, Inv c s g -> Inv c (q_tick s b) g.
Proof.
  intros c s g b I. destruct I.
  destruct inv_tsettle0 as [Tu Td]. destruct inv_fl0 as [Fp Ft].
  assert (Hsettle : forall k, lastMem s < k -> ~ In k (s_upd (pst s)) /\ ~ In k (s_del (pst s))).
  { intros k Hk. rewrite Forall_forall in inv_settle0. split; intro Hin;
      specialize (inv_settle0 k); rewrite in_app_iff in inv_settle0; specialize (inv_settle0 (ltac:(tauto))); lia. }
  assert (Hon : forall k, disk_ahead (q_tick s b) k = disk_ahead s k).
  { intros k. unfold disk_ahead, q_tick. destruct b; cbn [lastMem];
      destruct (N.ltb_spec (lastMem s) k) as [Hk | Hk]; cbn [andb]; try reflexivity; unfold on_disk; cbn [pst tst].
    - destruct (Hsettle k Hk) as [Hu Hd].
      rewrite <- !orb_assoc. rewrite (orb_assoc (inb k (s_add (store_persist (pst s))))). rewrite (persist_on_disk _ _ Hd).
      apply inb_false in Hu. rewrite Hu. rewrite orb_false_r. rewrite <- !orb_assoc. reflexivity.
    - assert (Hd : ~ In k (s_del (tst s))) by (rewrite Td; auto).
      rewrite <- !orb_assoc. f_equal. f_equal. rewrite (persist_on_disk _ _ Hd). rewrite Tu. cbn. rewrite orb_false_r. reflexivity. }
  assert (Hmem : mem (q_tick s b) = mem s) by (destruct b; reflexivity).
  assert (Hlm : lastMem (q_tick s b) = lastMem s) by (destruct b; reflexivity).
  assert (Hls : lastStored (q_tick s b) = lastStored s) by (destruct b; reflexivity).
  assert (Hids : allids (q_tick s b) = allids s) by (destruct b; reflexivity).
  assert (Hsw : swapped (q_tick s b) = swapped s) by (destruct b; reflexivity).
  assert (Hql : qlen (q_tick s b) = qlen s) by (destruct b; reflexivity).
  constructor; rewrite ?Hmem, ?Hlm, ?Hls, ?Hids, ?Hsw, ?Hql; try assumption.
  - unfold q_abs, abs_disk. rewrite Hmem, Hids. rewrite (filter_ext _ _ Hon). exact inv_abs0.
  - (* disk ids *)
    rewrite Forall_forall in *. intros k Hk. apply inv_disk_ids0. unfold st_all in *. rewrite !in_app_iff in *.
    destruct b; unfold q_tick in Hk; cbn [pst tst] in Hk.
    + unfold store_persist in Hk at 1 2 3. cbn [s_add s_upd s_del In] in Hk.
      destruct Hk as [[[] | [[] | [[] | Hk]]] | Hk]; [| tauto]. apply persist_flushed_In in Hk. tauto.
    + unfold store_persist in Hk at 1 2 3. cbn [s_add s_upd s_del In] in Hk.
      destruct Hk as [Hk | [[] | [[] | [[] | Hk]]]]; [tauto |]. apply persist_flushed_In in Hk. tauto.
  - destruct b; unfold q_tick; cbn [pst]; [constructor | assumption].
  - destruct b; unfold q_tick; cbn [tst]; [split; assumption | split; reflexivity].
  - intros Hs. specialize (inv_notsw0 Hs). rewrite Forall_forall in *. intros k Hk. rewrite Hon. auto.
  - intros Hs. specialize (inv_sw0 Hs). destruct inv_sw0 as [A B]. split; [assumption|].
    rewrite Forall_forall in *. intros k Hk. rewrite Hon. auto.
  - destruct b; unfold q_tick; cbn [pst tst]; split; try assumption; apply persist_flushed_ss; assumption.
  - destruct b; unfold q_tick; cbn [pst]; [| assumption].
    rewrite Forall_forall in *. intros k Hk. apply inv_pkeys0. rewrite !in_app_iff in *.
    unfold store_persist in Hk at 1 2. cbn [s_add s_upd In] in Hk. destruct Hk as [[] | [[] | Hk]].
    apply persist_flushed_In in Hk. tauto.
  - destruct b; unfold q_tick; cbn [tst]; [assumption |].
    rewrite Forall_forall in *. intros k Hk. apply inv_tkeys0. rewrite !in_app_iff in *.
    unfold store_persist in Hk at 1. cbn [s_add In] in Hk. destruct Hk as [[] | Hk].
    apply persist_flushed_In in Hk. rewrite Tu in Hk. cbn in Hk. tauto.
Qed.

Lemma remove1_In : forall k l x, In x (remove1 k l) -> In x l.
Proof.
  induction l as [| h l IH]; intros x H; cbn in H; [contradiction|].
  destruct (k =? h); [right; assumption|]. destruct H; [left; assumption | right; auto].
Qed.

Lemma abs_disk_nil : forall s, Forall (fun k => disk_ahead s k = false) (allids s) -> abs_disk s = [].
Proof. intros s H. unfold abs_disk. apply filter_nil. rewrite Forall_forall in H. exact H. Qed.

Lemma step_pop : forall c s g, Inv c s g -> hyp_step c s Pop = true ->
  Inv c (snd (q_pop s)) (ghost_step g Pop) /\ fst (q_pop s) = hd_error (g_list g).
Proof.
  intros c s g I Hh. pose proof I as I0. destruct I. unfold q_pop. cbn [hyp_step] in Hh. cbn [ghost_step].
  destruct (mem s) as [| x t] eqn:Em.
  - destruct (abs_disk s) eqn:Ed; [| discriminate].
    assert (El : g_list g = []) by (rewrite <- inv_abs0; unfold q_abs; rewrite Em, Ed; reflexivity).
    rewrite El. cbn [snd fst hd_error]. split; [| reflexivity].
    exact I0.
  - assert (El : g_list g = x :: (t ++ abs_disk s)) by (rewrite <- inv_abs0; unfold q_abs; rewrite Em; reflexivity).
    rewrite El. cbn [snd fst hd_error]. split; [| reflexivity].
    apply Forall_cons_iff in inv_mem0. destruct inv_mem0 as [Hx Ht].
    constructor; cbn [mem pst tst swapped lastStored lastMem qlen allids g_list g_next g_outst g_pers]; try assumption.
    + reflexivity.
    + rewrite inv_len0, El. cbn [length]. lia.
    + constructor; assumption.
Qed.

Lemma step_requeue : forall c s g id p, Inv c s g -> wf_step g (Requeue id p) = true ->
  Inv c (q_requeue c s id p) (ghost_step g (Requeue id p)).
Proof.
  intros c s g id p I Hw. destruct I. cbn [wf_step] in Hw. apply andb_true_iff in Hw. destruct Hw as [Ho Hp].
  apply inb_In in Ho. apply eqb_prop in Hp.
  assert (Hid : id <= lastMem s /\ In id (allids s)) by (rewrite Forall_forall in inv_outst0; auto).
  assert (Hon : forall k, disk_ahead (q_requeue c s id p) k = disk_ahead s k).
  { intros k. unfold disk_ahead, on_disk, q_requeue. cbn [lastMem pst tst]. destruct (durable c && p); reflexivity. }
  unfold ghost_step. unfold q_requeue in *.
  constructor; cbn [mem swapped lastStored lastMem qlen allids tst g_list g_next g_outst g_pers]; try assumption.
  - unfold q_abs, abs_disk. rewrite (filter_ext _ _ Hon). cbn [mem allids app]. f_equal. exact inv_abs0.
  - rewrite inv_len0. cbn [length]. lia.
  - constructor; assumption.
  - rewrite Forall_forall in *. intros k Hk. apply inv_outst0. eapply remove1_In; eauto.
  - cbn [pst]. destruct (durable c && p); [| assumption].
    rewrite Forall_forall in *. intros k Hk. unfold st_all in *. cbn [store_update s_add s_upd s_del s_flushed] in Hk.
    rewrite !in_app_iff, set_key_In in Hk. destruct Hid as [_ Hid].
    destruct Hk as [[Hk | [[Hk | Hk] | Hk]] | Hk]; try (subst; assumption); apply inv_disk_ids0; rewrite !in_app_iff; tauto.
  - cbn [pst]. destruct (durable c && p); [| assumption].
    rewrite Forall_forall in *. intros k Hk. cbn [store_update s_upd s_del] in Hk. rewrite in_app_iff, set_key_In in Hk.
    destruct Hk as [[Hk | Hk] | Hk]; [| subst; tauto |]; apply inv_settle0; rewrite in_app_iff; tauto.
  - intros Hs. specialize (inv_notsw0 Hs). rewrite Forall_forall in *. intros k Hk. rewrite Hon. auto.
  - intros Hs. specialize (inv_sw0 Hs). destruct inv_sw0 as [A B]. split; [assumption|].
    rewrite Forall_forall in *. intros k Hk. rewrite Hon. auto.
  - cbn [pst]. destruct (durable c && p); assumption.
  - cbn [pst]. destruct (durable c && p) eqn:Edp; [| assumption].
    apply andb_true_iff in Edp. destruct Edp as [Ed Ep]. subst p.
    rewrite Forall_forall in *. intros k Hk. cbn [store_update s_add s_upd s_flushed] in Hk. rewrite !in_app_iff, set_key_In in Hk.
    destruct Hk as [Hk | [[Hk | Hk] | Hk]]; try (apply inv_pkeys0; rewrite !in_app_iff; tauto).
    subst k. split; [assumption|]. apply inb_In. congruence.
Qed.

Lemma step_ack : forall c s g id p, Inv c s g -> wf_step g (AckMsg id p) = true ->
  Inv c (q_ack c s id p) (ghost_step g (AckMsg id p)).
Proof.
  intros c s g id p I Hw. destruct I. cbn [wf_step] in Hw. apply andb_true_iff in Hw. destruct Hw as [Ho Hp].
  apply inb_In in Ho.
  assert (Hid : id <= lastMem s /\ In id (allids s)) by (rewrite Forall_forall in inv_outst0; auto).
  assert (Hon : forall k, disk_ahead (q_ack c s id p) k = disk_ahead s k).
  { intros k. unfold disk_ahead, on_disk, q_ack. cbn [lastMem pst tst]. destruct (durable c && p); reflexivity. }
  unfold ghost_step. unfold q_ack in *.
  constructor; cbn [mem swapped lastStored lastMem qlen allids tst g_list g_next g_outst g_pers]; try assumption.
  - unfold q_abs, abs_disk. rewrite (filter_ext _ _ Hon). cbn [mem allids]. exact inv_abs0.
  - rewrite Forall_forall in *. intros k Hk. apply inv_outst0. eapply remove1_In; eauto.
  - cbn [pst]. destruct (durable c && p); [| assumption].
    rewrite Forall_forall in *. intros k Hk. unfold st_all in *. cbn [store_del s_add s_upd s_del s_flushed] in Hk.
    rewrite !in_app_iff, set_key_In in Hk. destruct Hid as [_ Hid].
    destruct Hk as [[Hk | [Hk | [[Hk | Hk] | Hk]]] | Hk]; try (subst; assumption); apply inv_disk_ids0; rewrite !in_app_iff; tauto.
  - cbn [pst]. destruct (durable c && p); [| assumption].
    rewrite Forall_forall in *. intros k Hk. cbn [store_del s_upd s_del] in Hk. rewrite in_app_iff, set_key_In in Hk.
    destruct Hk as [Hk | [Hk | Hk]]; [| | subst; tauto]; apply inv_settle0; rewrite in_app_iff; tauto.
  - intros Hs. specialize (inv_notsw0 Hs). rewrite Forall_forall in *. intros k Hk. rewrite Hon. auto.
  - intros Hs. specialize (inv_sw0 Hs). destruct inv_sw0 as [A B]. split; [assumption|].
    rewrite Forall_forall in *. intros k Hk. rewrite Hon. auto.
  - cbn [pst]. destruct (durable c && p); assumption.
  - cbn [pst]. destruct (durable c && p); assumption.
Qed.

Lemma fold_set_key_In : forall ks d x, In x (fold_left set_key ks d) <-> In x ks \/ In x d.
Proof.
  induction ks as [| k ks IH]; intros d x; cbn [fold_left]; [cbn; tauto|].
  rewrite IH, set_key_In. cbn. intuition.
Qed.

Lemma step_purge : forall c s g, Inv c s g -> hyp_step c s Purge = true ->
  Inv c (snd (q_purge c s)) (ghost_step g Purge) /\ fst (q_purge c s) = Z.of_nat (length (g_list g)).
Proof.
  intros c s g I Hh. destruct I. cbn [hyp_step] in Hh. apply negb_true_iff in Hh.
  specialize (inv_notsw0 Hh).
  assert (Hd : abs_disk s = []) by (apply abs_disk_nil; assumption).
  unfold q_purge. cbn [fst snd]. split; [| assumption].
  assert (Hon : forall k, In k (allids s) ->
            disk_ahead (mkQ [] (if durable c then store_purge (pst s) else pst s) (tst s) (swapped s) (lastStored s) (lastMem s) 0%Z (allids s)) k = false).
  { intros k Hk. rewrite Forall_forall in inv_notsw0. specialize (inv_notsw0 k Hk).
    unfold disk_ahead, on_disk in *. cbn [lastMem pst tst]. destruct (lastMem s <? k); [| reflexivity]. cbn [andb] in *.
    apply orb_false_iff in inv_notsw0. destruct inv_notsw0 as [A T2]. apply orb_false_iff in A. destruct A as [A T1].
    apply orb_false_iff in A. destruct A as [A1 A2].
    destruct (durable c); cbn [store_purge s_add s_flushed]; rewrite ?A1, ?A2, ?T1, ?T2; reflexivity. }
  unfold ghost_step.
  constructor; cbn [mem swapped lastStored lastMem qlen allids tst pst g_list g_next g_outst g_pers]; try assumption.
  - unfold q_abs. cbn [mem app]. apply abs_disk_nil. cbn [allids]. rewrite Forall_forall. exact Hon.
  - reflexivity.
  - constructor.
  - rewrite Forall_forall in *. intros k Hk. apply inv_disk_ids0. unfold st_all in *. rewrite !in_app_iff in *.
    destruct (durable c); [| tauto]. cbn [store_purge s_add s_upd s_del s_flushed In] in Hk. rewrite fold_set_key_In in Hk. tauto.
  - destruct (durable c); [| assumption]. cbn [store_purge s_upd s_del app].
    rewrite Forall_forall in *. intros k Hk. apply fold_set_key_In in Hk. destruct Hk as [Hk | Hk].
    + (* a pending add that the purge cancels: the queue is not swapped, so nothing on disk is ahead of lastMem *)
      assert (Hi : In k (allids s)) by (apply inv_disk_ids0; unfold st_all; rewrite !in_app_iff; tauto).
      specialize (inv_notsw0 k Hi). unfold disk_ahead, on_disk in inv_notsw0.
      apply inb_In in Hk. rewrite Hk in inv_notsw0. cbn [orb] in inv_notsw0. rewrite andb_true_r in inv_notsw0.
      apply N.ltb_ge in inv_notsw0. exact inv_notsw0.
    + apply inv_settle0. apply in_or_app. right. exact Hk.
  - intros _. rewrite Forall_forall. exact Hon.
  - intros Hs. congruence.
  - destruct inv_fl0. destruct (durable c); split; try assumption. cbn. constructor.
  - rewrite Forall_forall in *. intros k Hk. apply inv_pkeys0. rewrite !in_app_iff in *.
    destruct (durable c); [| tauto]. cbn [store_purge s_add s_upd s_flushed In] in Hk. tauto.
Qed.

(* ---- Push -------------------------------------------------------------------------------------------- *)
Lemma inb_set_key_other : forall l id k, k <> id -> inb k (set_key l id) = inb k l.
Proof. intros. rewrite inb_set_key. destruct (N.eqb_spec k id); [contradiction|]. apply orb_false_r. Qed.

Lemma inb_set_key_same : forall l id, inb id (set_key l id) = true.
Proof. intros. rewrite inb_set_key, N.eqb_refl. apply orb_true_r. Qed.

Lemma filter_app_single : forall (f : N -> bool) l x, filter f (l ++ [x]) = filter f l ++ (if f x then [x] else []).
Proof. intros. rewrite filter_app. reflexivity. Qed.

Section PushFacts.
  Variables (c : qcfg) (s : qstate) (g : ghost) (id : N) (p : bool).
  Hypothesis I : Inv c s g.
  Hypothesis Hw : g_next g <= id.

  Let pers' := if p then id :: g_pers g else g_pers g.
  Let g' := mkGhost (id + 1) (g_list g ++ [id]) (g_outst g) pers'.

  Lemma push_old_lt : forall k, In k (allids s) -> k < id.
  Proof. intros k Hk. destruct I. rewrite Forall_forall in inv_ids_range0. specialize (inv_ids_range0 k Hk). lia. Qed.

  Lemma push_ids_sorted : ssorted (allids s ++ [id]).
  Proof. destruct I. apply ssorted_app_last; [assumption|]. rewrite Forall_forall. apply push_old_lt. Qed.

  Lemma push_ids_range : Forall (fun k => 0 < k < id + 1) (allids s ++ [id]).
  Proof.
    destruct I. apply Forall_app. split.
    - rewrite Forall_forall in *. intros k Hk. specialize (inv_ids_range0 k Hk). lia.
    - constructor; [lia | constructor].
  Qed.

  Lemma push_pers_in : Forall (fun k => In k (allids s ++ [id])) pers'.
  Proof.
    destruct I. unfold pers'. assert (A : Forall (fun k => In k (allids s ++ [id])) (g_pers g)).
    { rewrite Forall_forall in *. intros k Hk. apply in_or_app. left. auto. }
    destruct p; [constructor; [apply in_or_app; right; left; reflexivity | assumption] | assumption].
  Qed.

  Lemma push_pers_old : forall k, In k (allids s) -> (In k pers' <-> In k (g_pers g)).
  Proof.
    intros k Hk. pose proof (push_old_lt k Hk). unfold pers'. destruct p; [| tauto]. cbn [In]. split; [intros [E | E]; [lia | assumption] | auto].
  Qed.

  Lemma push_id_not_pers : ~ In id (g_pers g).
  Proof. destruct I. intro H. rewrite Forall_forall in inv_pers0. specialize (inv_pers0 id H). pose proof (push_old_lt id inv_pers0). lia. Qed.
End PushFacts.

Lemma q_push_mem : forall c s id p,
  swapped s = false -> (maxram c <? N.of_nat (length (mem s))) = false ->
  q_push c s id p = mkQ (mem s ++ [id]) (if durable c && p then store_add (pst s) id else pst s) (tst s) false
                        (lastStored s) id (qlen s + 1)%Z (allids s ++ [id]).
Proof.
  intros c s id p Hs Ho. unfold q_push. rewrite Hs, Ho.
  assert (E : (N.of_nat (length (mem s)) <=? maxram c) = true) by (apply N.leb_le; apply N.ltb_ge; assumption).
  rewrite E. destruct (durable c && p); reflexivity.
Qed.

Lemma q_push_disk : forall c s id p,
  swapped s = true \/ (maxram c <? N.of_nat (length (mem s))) = true ->
  q_push c s id p = mkQ (mem s) (if durable c && p then store_add (pst s) id else pst s)
                        (if durable c && p then tst s else store_add (tst s) id) true
                        (if swapped s then lastStored s else id) (lastMem s) (qlen s + 1)%Z (allids s ++ [id]).
Proof.
  intros c s id p H. unfold q_push.
  destruct (swapped s) eqn:Hs.
  - destruct (durable c && p); destruct (maxram c <? N.of_nat (length (mem s))); cbn [negb andb orb]; rewrite ?andb_false_r; reflexivity.
  - destruct H as [H | H]; [discriminate|]. rewrite H. destruct (durable c && p); cbn [negb andb orb]; rewrite ?andb_false_r; reflexivity.
Qed.

Lemma step_push : forall c s g id p, Inv c s g -> wf_step g (Push id p) = true ->
  Inv c (q_push c s id p) (ghost_step g (Push id p)).
Proof.
  intros c s g id p I Hw. cbn [wf_step] in Hw. apply N.leb_le in Hw.
  pose proof (push_old_lt c s g id I Hw) as Hold.
  pose proof (push_ids_sorted c s g id I Hw) as Hsorted.
  pose proof (push_ids_range c s g id I Hw) as Hrange.
  pose proof (push_pers_in c s g id p I) as Hpers.
  pose proof (push_pers_old c s g id p I Hw) as Hpold.
  pose proof (push_id_not_pers c s g id I Hw) as Hnp.
  destruct I. cbn [ghost_step].
  set (pers' := if p then id :: g_pers g else g_pers g) in *.
  assert (Hdisk_old : forall k, In k (st_all (pst s) ++ st_all (tst s)) -> k <> id).
  { intros k Hk. rewrite Forall_forall in inv_disk_ids0. specialize (Hold k (inv_disk_ids0 k Hk)). lia. }
  (* the stores after the push: P keys stay persistent, T keys stay non-persistent-durable, ids known *)
  assert (Hpk : Forall (fun k => durable c = true /\ In k pers')
                  (s_add (if durable c && p then store_add (pst s) id else pst s) ++
                   s_upd (if durable c && p then store_add (pst s) id else pst s) ++
                   s_flushed (if durable c && p then store_add (pst s) id else pst s))).
  { rewrite Forall_forall in *. intros k Hk.
    assert (Old : In k (s_add (pst s) ++ s_upd (pst s) ++ s_flushed (pst s)) -> durable c = true /\ In k pers').
    { intros Hk'. destruct (inv_pkeys0 k Hk') as [A B]. split; [assumption|]. apply Hpold; [| assumption].
      apply inv_disk_ids0. unfold st_all. rewrite !in_app_iff in *. tauto. }
    destruct (durable c && p) eqn:Edp; [| auto].
    cbn [store_add s_add s_upd s_flushed] in Hk. rewrite !in_app_iff, set_key_In in Hk. rewrite !in_app_iff in Old.
    destruct Hk as [[Hk | Hk] | Hk]; [tauto | | tauto].
    subst k. apply andb_true_iff in Edp. destruct Edp as [Ed Ep]. split; [assumption|]. unfold pers'. rewrite Ep. left; reflexivity. }
  assert (Hdi : forall pst1 tst1,
            (forall k, In k (st_all pst1 ++ st_all tst1) -> In k (st_all (pst s) ++ st_all (tst s)) \/ k = id) ->
            Forall (fun k => In k (allids s ++ [id])) (st_all pst1 ++ st_all tst1)).
  { intros pst1 tst1 H. rewrite Forall_forall in *. intros k Hk. apply in_or_app. destruct (H k Hk) as [A | A]; [left; auto | right; left; auto]. }
  assert (Hmem_old : Forall (fun k => k <= id /\ In k (allids s ++ [id])) (mem s)).
  { rewrite Forall_forall in *. intros k Hk. destruct (inv_mem0 k Hk). split; [lia | apply in_or_app; tauto]. }
  destruct (swapped s) eqn:Hs; [| destruct (maxram c <? N.of_nat (length (mem s))) eqn:Ho].
  - (* already swapped: the message goes to disk only *)
    rewrite (q_push_disk c s id p (or_introl Hs)). rewrite Hs.
    destruct (inv_sw0 eq_refl) as [Hle Hahead].
    set (s' := mkQ (mem s) (if durable c && p then store_add (pst s) id else pst s)
                   (if durable c && p then tst s else store_add (tst s) id) true (lastStored s) (lastMem s) (qlen s + 1)%Z (allids s ++ [id])).
    assert (Hon_old : forall k, k <> id -> disk_ahead s' k = disk_ahead s k).
    { intros k Hk. unfold disk_ahead, on_disk, s'. cbn [lastMem pst tst].
      destruct (durable c && p); cbn [store_add s_add s_flushed]; rewrite (inb_set_key_other _ _ _ Hk); reflexivity. }
    assert (Hon_id : disk_ahead s' id = true).
    { unfold disk_ahead, on_disk, s'. cbn [lastMem pst tst]. apply andb_true_iff. split; [apply N.ltb_lt; lia|].
      destruct (durable c && p); cbn [store_add s_add s_flushed]; rewrite inb_set_key_same; rewrite ?orb_true_r; reflexivity. }
    unfold s' in *. clear s'.
    constructor; cbn [mem swapped lastStored lastMem qlen allids tst pst g_list g_next g_outst g_pers]; try assumption; try lia.
    + unfold q_abs, abs_disk. cbn [mem allids]. rewrite filter_app_single, Hon_id.
      rewrite (filter_ext_in _ (disk_ahead s)); [rewrite app_assoc; f_equal; exact inv_abs0|].
      intros k Hk. apply Hon_old. specialize (Hold k Hk). lia.
    + rewrite inv_len0, app_length. cbn [length]. lia.
    + rewrite Forall_forall in *. intros k Hk. destruct (inv_mem0 k Hk). split; [assumption | apply in_or_app; tauto].
    + rewrite Forall_forall in *. intros k Hk. destruct (inv_outst0 k Hk). split; [assumption | apply in_or_app; tauto].
    + apply Hdi. intros k Hk. unfold st_all in *. rewrite !in_app_iff in *.
      destruct (durable c && p); cbn [store_add s_add s_upd s_del s_flushed] in Hk; rewrite set_key_In in Hk; tauto.
    + destruct (durable c && p); assumption.
    + destruct (durable c && p); assumption.
    + intros _. split; [assumption|]. apply Forall_app. split.
      * rewrite Forall_forall in *. intros k Hk. rewrite Hon_old; [auto | specialize (Hold k Hk); lia].
      * constructor; [intros _; lia | constructor].
    + destruct inv_fl0. destruct (durable c && p); split; assumption.
    + rewrite Forall_forall in *. intros k Hk.
      assert (Old : In k (s_add (tst s) ++ s_flushed (tst s)) -> ~ (durable c = true /\ In k pers')).
      { intros Hk' [A B]. apply (inv_tkeys0 k Hk'). split; [assumption|]. apply Hpold; [| assumption].
        apply inv_disk_ids0. unfold st_all. rewrite !in_app_iff in *. tauto. }
      destruct (durable c && p) eqn:Edp; [auto|].
      cbn [store_add s_add s_flushed] in Hk. rewrite !in_app_iff, set_key_In in Hk. rewrite in_app_iff in Old.
      destruct Hk as [[Hk | Hk] | Hk]; [tauto | | tauto]. subst k. intros [A B].
      unfold pers' in B. destruct p; [rewrite A in Edp; discriminate | contradiction].
  - (* the overflow starts with this message *)
    rewrite (q_push_disk c s id p (or_intror Ho)). rewrite Hs.
    specialize (inv_notsw0 eq_refl).
    set (s' := mkQ (mem s) (if durable c && p then store_add (pst s) id else pst s)
                   (if durable c && p then tst s else store_add (tst s) id) true id (lastMem s) (qlen s + 1)%Z (allids s ++ [id])).
    assert (Hon_old : forall k, k <> id -> disk_ahead s' k = disk_ahead s k).
    { intros k Hk. unfold disk_ahead, on_disk, s'. cbn [lastMem pst tst].
      destruct (durable c && p); cbn [store_add s_add s_flushed]; rewrite (inb_set_key_other _ _ _ Hk); reflexivity. }
    assert (Hon_id : disk_ahead s' id = true).
    { unfold disk_ahead, on_disk, s'. cbn [lastMem pst tst]. apply andb_true_iff. split; [apply N.ltb_lt; lia|].
      destruct (durable c && p); cbn [store_add s_add s_flushed]; rewrite inb_set_key_same; rewrite ?orb_true_r; reflexivity. }
    unfold s' in *. clear s'.
    constructor; cbn [mem swapped lastStored lastMem qlen allids tst pst g_list g_next g_outst g_pers]; try assumption; try lia.
    + unfold q_abs, abs_disk. cbn [mem allids]. rewrite filter_app_single, Hon_id.
      rewrite (filter_ext_in _ (disk_ahead s)); [rewrite app_assoc; f_equal; exact inv_abs0|].
      intros k Hk. apply Hon_old. specialize (Hold k Hk). lia.
    + rewrite inv_len0, app_length. cbn [length]. lia.
    + rewrite Forall_forall in *. intros k Hk. destruct (inv_mem0 k Hk). split; [assumption | apply in_or_app; tauto].
    + rewrite Forall_forall in *. intros k Hk. destruct (inv_outst0 k Hk). split; [assumption | apply in_or_app; tauto].
    + apply Hdi. intros k Hk. unfold st_all in *. rewrite !in_app_iff in *.
      destruct (durable c && p); cbn [store_add s_add s_upd s_del s_flushed] in Hk; rewrite set_key_In in Hk; tauto.
    + destruct (durable c && p); assumption.
    + destruct (durable c && p); assumption.
    + intros _. split; [lia|]. apply Forall_app. split.
      * rewrite Forall_forall in *. intros k Hk. rewrite Hon_old; [| specialize (Hold k Hk); lia]. rewrite (inv_notsw0 k Hk). discriminate.
      * constructor; [intros _; lia | constructor].
    + destruct inv_fl0. destruct (durable c && p); split; assumption.
    + rewrite Forall_forall in *. intros k Hk.
      assert (Old : In k (s_add (tst s) ++ s_flushed (tst s)) -> ~ (durable c = true /\ In k pers')).
      { intros Hk' [A B]. apply (inv_tkeys0 k Hk'). split; [assumption|]. apply Hpold; [| assumption].
        apply inv_disk_ids0. unfold st_all. rewrite !in_app_iff in *. tauto. }
      destruct (durable c && p) eqn:Edp; [auto|].
      cbn [store_add s_add s_flushed] in Hk. rewrite !in_app_iff, set_key_In in Hk. rewrite in_app_iff in Old.
      destruct Hk as [[Hk | Hk] | Hk]; [tauto | | tauto]. subst k. intros [A B].
      unfold pers' in B. destruct p; [rewrite A in Edp; discriminate | contradiction].
  - (* into the ring *)
    rewrite (q_push_mem c s id p Hs Ho).
    specialize (inv_notsw0 eq_refl).
    set (s' := mkQ (mem s ++ [id]) (if durable c && p then store_add (pst s) id else pst s) (tst s) false (lastStored s) id (qlen s + 1)%Z (allids s ++ [id])).
    assert (Hnone : forall k, In k (allids s ++ [id]) -> disk_ahead s' k = false).
    { intros k Hk. unfold disk_ahead, s'. cbn [lastMem]. apply andb_false_iff. left. apply N.ltb_ge.
      apply in_app_or in Hk. destruct Hk as [Hk | [Hk | []]]; [specialize (Hold k Hk); lia | lia]. }
    assert (Hd0 : abs_disk s = []) by (apply abs_disk_nil; assumption).
    unfold s' in *. clear s'.
    constructor; cbn [mem swapped lastStored lastMem qlen allids tst pst g_list g_next g_outst g_pers]; try assumption; try lia.
    + unfold q_abs. rewrite abs_disk_nil; [| cbn [allids]; rewrite Forall_forall; exact Hnone].
      cbn [mem]. rewrite app_nil_r. f_equal. rewrite <- inv_abs0. unfold q_abs. rewrite Hd0, app_nil_r. reflexivity.
    + rewrite inv_len0, app_length. cbn [length]. lia.
    + apply Forall_app. split; [assumption|]. constructor; [| constructor]. split; [lia | apply in_or_app; right; left; reflexivity].
    + rewrite Forall_forall in *. intros k Hk. destruct (inv_outst0 k Hk). split; [lia | apply in_or_app; tauto].
    + apply Hdi. intros k Hk. unfold st_all in *. rewrite !in_app_iff in *.
      destruct (durable c && p); cbn [store_add s_add s_upd s_del s_flushed] in Hk; rewrite ?set_key_In in Hk; tauto.
    + destruct (durable c && p); cbn [store_add s_upd s_del]; rewrite Forall_forall in *; intros k Hk; specialize (inv_settle0 k Hk); lia.
    + intros _. rewrite Forall_forall. exact Hnone.
    + destruct inv_fl0. destruct (durable c && p); split; assumption.
    + rewrite Forall_forall in *. intros k Hk [A B]. apply (inv_tkeys0 k Hk). split; [assumption|]. apply Hpold; [| assumption].
      apply inv_disk_ids0. unfold st_all. rewrite !in_app_iff in *. tauto.
Qed.

(* ---- the loader ------------------------------------------------------------------------------------------ *)
Lemma firstn_nil_inv : forall {A} n (l : list A), firstn n l = [] -> (1 <= n)%nat -> l = [].
Proof. intros A n l H Hn. destruct n; [lia|]. destruct l; [reflexivity | discriminate]. Qed.

Lemma firstn_single_inv : forall {A} n (l : list A) a, firstn n l = [a] -> (2 <= n)%nat -> l = [a].
Proof.
  intros A n l a H Hn. destruct n as [| [| n]]; try lia. destruct l as [| x [| y l]]; cbn in H; try discriminate; assumption.
Qed.

Lemma last_default_irrel : forall (l : list N) d1 d2, l <> [] -> last l d1 = last l d2.
Proof.
  induction l as [| a l IH]; intros d1 d2 H; [congruence|]. destruct l as [| b l]; [reflexivity|].
  change (last (b :: l) d1 = last (b :: l) d2). apply IH. discriminate.
Qed.

Lemma filter_nil_inv : forall {A} (f : A -> bool) l, filter f l = [] -> forall x, In x l -> f x = false.
Proof.
  induction l as [| a l IH]; intros H x Hx; [contradiction|]. cbn in H. destruct (f a) eqn:E; [discriminate|].
  destruct Hx; [subst; assumption | auto].
Qed.

(* if the iteration of a store neither came back empty nor ended on something other than lastMem,
   the store holds nothing at or beyond lastStored except possibly lastMem itself *)
Lemma not_still_swapped : forall lm ls n fl,
  ssorted fl -> lm <= ls -> (2 <= n)%nat ->
  still_swapped lm (firstn n (filter (fun k => ls <=? k) fl)) = false ->
  forall x, In x (filter (fun k => ls <=? k) fl) -> x = lm.
Proof.
  intros lm ls n fl Hs Hle Hn H x Hx.
  set (P' := filter (fun k => ls <=? k) fl) in *.
  assert (SP : ssorted P') by (apply ssorted_filter; assumption).
  assert (Hge : forall y, In y P' -> lm <= y).
  { intros y Hy. unfold P' in Hy. apply filter_In in Hy. destruct Hy as [_ Hy]. apply N.leb_le in Hy. lia. }
  unfold still_swapped in H. apply negb_false_iff in H. apply orb_true_iff in H.
  destruct (firstn n P') as [| a [| b r]] eqn:Ef.
  - apply firstn_nil_inv in Ef; [| lia]. rewrite Ef in Hx. contradiction.
  - destruct H as [H | H]; [cbn in H; discriminate|]. cbn [last] in H. apply N.eqb_eq in H.
    apply firstn_single_inv in Ef; [| assumption]. rewrite Ef in Hx. destruct Hx as [Hx | []]. congruence.
  - exfalso. destruct H as [H | H]; [cbn in H; discriminate|]. apply N.eqb_eq in H.
    assert (Sf : ssorted (a :: b :: r)) by (rewrite <- Ef; apply ssorted_firstn; assumption).
    assert (Ha : In a P') by (apply (In_firstn n); rewrite Ef; left; reflexivity).
    assert (Hb : In b (a :: b :: r)) by (right; left; reflexivity).
    pose proof (ssorted_last_max _ 0 _ Sf Hb) as Hmax. rewrite <- H in Hmax.
    pose proof (ssorted_head_lt _ _ _ Sf (or_introl eq_refl)) as Hab.
    specialize (Hge a Ha). lia.
Qed.

Lemma loader_needle_facts : forall c s, 2 <= maxram c -> maxram c < W64 ->
  (maxram c / 2 <=? N.of_nat (length (mem s))) = false ->
  loader_needle c s = maxram c - N.of_nat (length (mem s)) /\ 2 <= loader_needle c s.
Proof.
  intros c s H2 HW Hc. apply N.leb_gt in Hc. unfold loader_needle, W64 in *.
  assert (Hcur : N.of_nat (length (mem s)) < maxram c).
  { assert (maxram c / 2 <= maxram c) by (apply N.div_le_upper_bound; lia). lia. }
  assert (E : (maxram c + 18446744073709551616 - N.of_nat (length (mem s))) mod 18446744073709551616 = maxram c - N.of_nat (length (mem s))).
  { replace (maxram c + 18446744073709551616 - N.of_nat (length (mem s)))
      with (maxram c - N.of_nat (length (mem s)) + 1 * 18446744073709551616) by lia.
    rewrite N.mod_add by discriminate. apply N.mod_small. lia. }
  rewrite E. split; [reflexivity|].
  assert (2 * (maxram c / 2) <= maxram c) by (apply N.mul_div_le; discriminate).
  assert (maxram c < 2 * (maxram c / 2) + 2).
  { pose proof (N.div_mod (maxram c) 2 ltac:(discriminate)). pose proof (N.mod_lt (maxram c) 2 ltac:(discriminate)). lia. }
  lia.
Qed.

Lemma nil_no_elem : forall {A} (l : list A), (forall x, In x l -> False) -> l = [].
Proof. intros A [| a l] H; [reflexivity|]. exfalso. apply (H a). left; reflexivity. Qed.

Lemma loaded_is_prefix : forall c s g, Inv c s g -> 2 <= maxram c -> maxram c < W64 ->
  loader_proceeds c s = true -> unflushed_ahead s = false ->
  exists j, loader_loaded c s = firstn j (abs_disk s).
Proof.
  intros c s g I H2 HW Hp Hu. destruct I.
  unfold loader_proceeds in Hp. apply negb_true_iff in Hp. apply orb_false_iff in Hp. destruct Hp as [Hp Hsw].
  apply orb_false_iff in Hp. destruct Hp as [Hc Hn0]. apply negb_false_iff in Hsw.
  destruct (loader_needle_facts c s H2 HW Hc) as [En Hn2].
  destruct (inv_sw0 Hsw) as [Hle Hahead]. destruct inv_fl0 as [Fp Ft].
  unfold loader_loaded.
  set (needle := loader_needle c s) in *. set (n := N.to_nat needle).
  assert (Hnn : (2 <= n)%nat) by (unfold n; lia).
  assert (Hne : needle <> 0) by lia.
  rewrite !(store_iter_eq _ _ _ Hne). fold n.
  set (P' := filter (fun k => lastStored s <=? k) (s_flushed (pst s))).
  set (T' := filter (fun k => lastStored s <=? k) (s_flushed (tst s))).
  set (sorted := merge (firstn n P') (firstn n T')).
  (* the cut at pos is the cut at needle *)
  assert (Ecut : firstn (N.to_nat (if N.of_nat (length sorted) <=? needle then N.of_nat (length sorted) else needle)) sorted = firstn n sorted).
  { destruct (N.leb_spec (N.of_nat (length sorted)) needle).
    - rewrite Nnat.Nat2N.id. rewrite firstn_all. symmetry. apply firstn_all2. unfold n. lia.
    - reflexivity. }
  rewrite Ecut. unfold sorted. rewrite (firstn_merge n n n P' T') by lia.
  set (M := merge P' T').
  assert (SP : ssorted P') by (apply ssorted_filter; assumption).
  assert (ST : ssorted T') by (apply ssorted_filter; assumption).
  assert (Hdisj : forall x, In x P' -> In x T' -> False).
  { intros x Hx Hy. unfold P', T' in *. apply filter_In in Hx. apply filter_In in Hy. destruct Hx as [Hx _]. destruct Hy as [Hy _].
    rewrite Forall_forall in inv_pkeys0, inv_tkeys0.
    apply (inv_tkeys0 x); [apply in_or_app; right; assumption|]. apply inv_pkeys0. rewrite !in_app_iff. tauto. }
  assert (SM : ssorted M) by (apply merge_sorted; assumption).
  assert (HM : forall x, In x M <-> (In x (s_flushed (pst s)) \/ In x (s_flushed (tst s))) /\ lastStored s <= x).
  { intros x. unfold M. rewrite merge_In. unfold P', T'. rewrite !filter_In, N.leb_le. tauto. }
  assert (Hge : Forall (fun k => lastMem s <= k) M).
  { rewrite Forall_forall. intros x Hx. apply HM in Hx. lia. }
  destruct (filter_ne_firstn (lastMem s) n M SM Hge) as [j Ej].
  exists j. rewrite Ej. f_equal.
  (* what the stores hold at or beyond lastStored, lastMem excepted, is what is ahead on disk *)
  apply ssorted_unique; [apply ssorted_filter; assumption | unfold abs_disk; apply ssorted_filter; assumption |].
  intros x. unfold abs_disk. rewrite !filter_In, negb_true_iff, N.eqb_neq, HM. unfold disk_ahead, on_disk.
  rewrite andb_true_iff, N.ltb_lt, !orb_true_iff, !inb_In.
  rewrite Forall_forall in inv_disk_ids0, Hahead.
  split.
  - intros ((Hfl & Hls) & Hne'). split; [| split; [lia | tauto]].
    apply inv_disk_ids0. unfold st_all. rewrite !in_app_iff. tauto.
  - intros (Hin & Hlt & Hon).
    assert (Ha : disk_ahead s x = true).
    { unfold disk_ahead, on_disk. rewrite andb_true_iff, N.ltb_lt, !orb_true_iff, !inb_In. tauto. }
    specialize (Hahead x Hin Ha).
    unfold unflushed_ahead in Hu. rewrite <- not_true_iff_false, existsb_exists in Hu.
    assert (Hna : ~ In x (s_add (pst s) ++ s_add (tst s))).
    { intro Hx. apply Hu. exists x. split; [assumption | apply N.ltb_lt; assumption]. }
    rewrite in_app_iff in Hna. split; [split; [tauto | assumption] | lia].
Qed.

Lemma step_loader : forall c s g, Inv c s g -> 2 <= maxram c -> maxram c < W64 ->
  hyp_step c s LoaderTurn = true -> Inv c (q_loader c s) g.
Proof.
  intros c s g I H2 HW Hh. cbn [hyp_step] in Hh. unfold q_loader.
  destruct (loader_proceeds c s) eqn:Hp; [| exact I].
  cbn [andb] in Hh. apply negb_true_iff in Hh.
  destruct (loaded_is_prefix c s g I H2 HW Hp Hh) as [j Ej].
  pose proof I as I0. destruct I.
  unfold loader_proceeds in Hp. apply negb_true_iff in Hp. apply orb_false_iff in Hp. destruct Hp as [Hp Hsw].
  apply orb_false_iff in Hp. destruct Hp as [Hc Hn0]. apply negb_false_iff in Hsw.
  destruct (loader_needle_facts c s H2 HW Hc) as [En Hn2].
  destruct (inv_sw0 Hsw) as [Hle Hahead]. destruct inv_fl0 as [Fp Ft].
  set (needle := loader_needle c s) in *.
  assert (Hne : needle <> 0) by lia.
  set (L := loader_loaded c s) in *.
  set (D := abs_disk s) in *.
  assert (SD : ssorted D) by (unfold D, abs_disk; apply ssorted_filter; assumption).
  assert (SL : ssorted L) by (rewrite Ej; apply ssorted_firstn; assumption).
  assert (HLD : forall x, In x L -> In x D) by (intros x Hx; rewrite Ej in Hx; eapply In_firstn; eauto).
  assert (HDin : forall x, In x D -> In x (allids s) /\ lastMem s < x).
  { intros x Hx. unfold D, abs_disk in Hx. apply filter_In in Hx. destruct Hx as [A B]. unfold disk_ahead in B.
    apply andb_true_iff in B. destruct B as [B _]. apply N.ltb_lt in B. tauto. }
  assert (Hlast_ge : forall d, lastMem s <= d -> lastMem s <= last L d).
  { intros d Hd. destruct L as [| a L'] eqn:EL; [exact Hd|].
    assert (In (last (a :: L') d) (a :: L')) by (apply last_In; discriminate).
    destruct (HDin _ (HLD _ H)). lia. }
  assert (Hlast_lt : forall d, d < g_next g -> last L d < g_next g).
  { intros d Hd. destruct L as [| a L'] eqn:EL; [exact Hd|].
    assert (In (last (a :: L') d) (a :: L')) by (apply last_In; discriminate).
    destruct (HDin _ (HLD _ H)) as [A _]. rewrite Forall_forall in inv_ids_range0. specialize (inv_ids_range0 _ A). lia. }
  (* what stays ahead *)
  assert (Erest : filter (fun k => (last L (lastMem s) <? k) && on_disk s k) (allids s) = skipn j D).
  { apply (prefix_split (on_disk s) (lastMem s) (allids s) j D L); [assumption | reflexivity | exact Ej]. }
  set (pm := store_iter (pst s) (lastStored s) needle) in *.
  set (tm := store_iter (tst s) (lastStored s) needle) in *.
  set (s' := mkQ (mem s ++ L) (pst s) (tst s) (still_swapped (lastMem s) pm || still_swapped (lastMem s) tm)
                 (last L (lastStored s)) (last L (lastMem s)) (qlen s) (allids s)).
  assert (Eabs' : abs_disk s' = skipn j D) by exact Erest.
  constructor; unfold s'; cbn [mem swapped lastStored lastMem qlen allids tst pst]; try assumption; try (apply Hlast_lt; assumption).
  - unfold q_abs. fold s'. change (mem s') with (mem s ++ L). rewrite Eabs', <- app_assoc. rewrite Ej at 1. rewrite firstn_skipn. exact inv_abs0.
  - apply Forall_app. split.
    + rewrite Forall_forall in *. intros k Hk. destruct (inv_mem0 k Hk) as [A B]. split; [| assumption].
      specialize (Hlast_ge (lastMem s) (N.le_refl _)). lia.
    + rewrite Forall_forall. intros k Hk. split; [apply ssorted_last_max; assumption | apply HDin; apply HLD; assumption].
  - rewrite Forall_forall in *. intros k Hk. destruct (inv_outst0 k Hk) as [A B]. split; [| assumption].
    specialize (Hlast_ge (lastMem s) (N.le_refl _)). lia.
  - rewrite Forall_forall in *. intros k Hk. specialize (inv_settle0 k Hk).
    specialize (Hlast_ge (lastMem s) (N.le_refl _)). lia.
  - (* not swapped any more: nothing is ahead *)
    intros Hns. apply orb_false_iff in Hns. destruct Hns as [HnP HnT].
    assert (Hn : (2 <= N.to_nat needle)%nat) by lia.
    unfold pm in HnP. unfold tm in HnT. rewrite (store_iter_eq _ _ _ Hne) in HnP. rewrite (store_iter_eq _ _ _ Hne) in HnT.
    pose proof (not_still_swapped _ _ _ _ Fp Hle Hn HnP) as AllP.
    pose proof (not_still_swapped _ _ _ _ Ft Hle Hn HnT) as AllT.
    (* then D is empty *)
    assert (ED : D = []).
    { apply nil_no_elem. intros x Hx.
      destruct (HDin x Hx) as [Hin Hlt].
      unfold D, abs_disk in Hx. apply filter_In in Hx. destruct Hx as [_ Hx].
      pose proof Hx as Ha. rewrite Forall_forall in Hahead. specialize (Hahead x Hin Ha).
      unfold disk_ahead, on_disk in Hx. rewrite andb_true_iff, !orb_true_iff, !inb_In in Hx. destruct Hx as [_ Hx].
      unfold unflushed_ahead in Hh. rewrite <- not_true_iff_false, existsb_exists in Hh.
      assert (Hna : ~ In x (s_add (pst s) ++ s_add (tst s))).
      { intro Hx'. apply Hh. exists x. split; [assumption | apply N.ltb_lt; assumption]. }
      rewrite in_app_iff in Hna.
      destruct Hx as [[[Hx | Hx] | Hx] | Hx]; try tauto.
      - assert (x = lastMem s) by (apply AllP; apply filter_In; split; [assumption | apply N.leb_le; assumption]). lia.
      - assert (x = lastMem s) by (apply AllT; apply filter_In; split; [assumption | apply N.leb_le; assumption]). lia. }
    rewrite ED in Eabs'. rewrite skipn_nil in Eabs'. rewrite Forall_forall. intros k Hk.
    exact (filter_nil_inv _ _ Eabs' k Hk).
  - intros _. destruct L as [| a L'] eqn:EL.
    + cbn [last]. split; [assumption|]. rewrite Forall_forall in *. intros k Hk Ha. apply Hahead; assumption.
    + rewrite (last_default_irrel (a :: L') (lastMem s) (lastStored s)) by discriminate. split; [lia|].
      rewrite Forall_forall. intros k Hk Ha. unfold disk_ahead in Ha. cbn [lastMem] in Ha. apply andb_true_iff in Ha. destruct Ha as [Ha _].
      apply N.ltb_lt in Ha. lia.
  - split; assumption.
Qed.

(* ---- every label ------------------------------------------------------------------------------------------ *)
Definition cfg_ok (c : qcfg) : Prop := 2 <= maxram c /\ maxram c < W64.

Lemma step_all : forall c s g lab, Inv c s g -> cfg_ok c -> wf_step g lab = true -> hyp_step c s lab = true ->
  Inv c (fst (q_step c s lab)) (ghost_step g lab) /\
  snd (q_step c s lab) = snd (spec_step (g_list g) lab) /\
  g_list (ghost_step g lab) = fst (spec_step (g_list g) lab).
Proof.
  intros c s g lab I [H2 HW] Hw Hh. destruct lab as [id p | | id p | id p | | | b | id p | |]; cbn [q_step spec_step fst snd].
  - split; [apply step_push; assumption | split; reflexivity].
  - destruct (step_pop c s g I Hh) as [A B]. destruct (q_pop s) as [r s'] eqn:E. cbn [fst snd] in *.
    split; [assumption|]. split; [congruence|]. cbn [ghost_step]. destruct (g_list g) eqn:El; cbn [g_list tl]; rewrite ?El; reflexivity.
  - split; [apply step_requeue; assumption | split; reflexivity].
  - split; [apply step_ack; assumption | split; reflexivity].
  - destruct (step_purge c s g I Hh) as [A B]. destruct (q_purge c s) as [n s'] eqn:E. cbn [fst snd] in *.
    split; [assumption|]. split; [congruence | reflexivity].
  - split; [apply step_loader; assumption | split; reflexivity].
  - split; [apply step_tick; assumption | split; reflexivity].
  - cbn [hyp_step] in Hh. discriminate.
  - cbn [hyp_step] in Hh. discriminate.
  - cbn [hyp_step] in Hh. discriminate.
Qed.

Lemma run_refines : forall c ls s g, Inv c s g -> cfg_ok c -> wf_client_from g ls = true -> hyps_from c s ls = true ->
  snd (q_run c s ls) = snd (spec_run (g_list g) ls) /\
  q_abs (fst (q_run c s ls)) = fst (spec_run (g_list g) ls) /\
  qlen (fst (q_run c s ls)) = Z.of_nat (length (fst (spec_run (g_list g) ls))).
Proof.
  intros c. induction ls as [| lab t IH]; intros s g I Hc Hw Hh.
  - cbn. destruct I. repeat split; try reflexivity; assumption.
  - cbn [wf_client_from hyps_from] in Hw, Hh. apply andb_true_iff in Hw, Hh. destruct Hw as [Hw1 Hw2]. destruct Hh as [Hh1 Hh2].
    destruct (step_all c s g lab I Hc Hw1 Hh1) as (I' & Eo & El).
    cbn [q_run spec_run].
    destruct (q_step c s lab) as [s1 o] eqn:E1. destruct (spec_step (g_list g) lab) as [l1 o'] eqn:E2. cbn [fst snd] in *.
    specialize (IH s1 (ghost_step g lab) I' Hc Hw2 Hh2). rewrite El in IH.
    destruct (q_run c s1 t) as [s2 os]. destruct (spec_run l1 t) as [l2 os']. cbn [fst snd] in *.
    destruct IH as (A & B & C). subst. repeat split; assumption.
Qed.

Lemma no_findings_cfg : forall c ls, no_findings c ls = true -> cfg_ok c /\ hyps_from c q_init ls = true.
Proof.
  intros c ls H. unfold no_findings in H. apply andb_true_iff in H. destruct H as [H H3]. apply andb_true_iff in H. destruct H as [H1 H2].
  apply N.leb_le in H1. apply N.ltb_lt in H2. unfold cfg_ok. auto.
Qed.

(* refinement of the unlimited FIFO list *)
Lemma refines_unlimited : forall c ls, wf_client ls = true -> no_findings c ls = true ->
  snd (q_run c q_init ls) = snd (spec_run [] ls) /\
  q_abs (fst (q_run c q_init ls)) = fst (spec_run [] ls) /\
  qlen (fst (q_run c q_init ls)) = Z.of_nat (length (fst (spec_run [] ls))).
Proof.
  intros c ls Hw Hn. destruct (no_findings_cfg c ls Hn) as [Hc Hh].
  exact (run_refines c ls q_init ghost_init (inv_init c) Hc Hw Hh).
Qed.

(* the specification ignores the internal turns *)
Lemma spec_run_client : forall ls l,
  fst (spec_run l ls) = fst (spec_run l (client ls)) /\
  client_outs ls (snd (spec_run l ls)) = snd (spec_run l (client ls)).
Proof.
  induction ls as [| lab t IH]; intros l; [split; reflexivity|].
  unfold client in *. cbn [filter spec_run].
  destruct (is_client lab) eqn:Ec.
  - cbn [spec_run]. destruct (spec_step l lab) as [l1 o]. specialize (IH l1).
    destruct (spec_run l1 t) as [l2 os]. destruct (spec_run l1 (filter is_client t)) as [l2' os'].
    cbn [fst snd client_outs] in *. rewrite Ec. destruct IH as [A B]. subst. split; reflexivity.
  - assert (Hs : spec_step l lab = (l, ONone)) by (destruct lab; try discriminate; reflexivity). rewrite Hs.
    specialize (IH l). destruct (spec_run l t) as [l2 os]. cbn [fst snd client_outs] in *. rewrite Ec. exact IH.
Qed.

Lemma client_outs_len : forall c ls s, length (snd (q_run c s ls)) = length ls.
Proof.
  intros c. induction ls as [| lab t IH]; intros s; [reflexivity|]. cbn [q_run].
  destruct (q_step c s lab) as [s1 o]. specialize (IH s1). destruct (q_run c s1 t). cbn [snd length] in *. congruence.
Qed.

(* C19, partial: under the hypotheses on both runs, the client-visible outputs and the final contents agree *)
Lemma config_independent_partial : forall d m1 m2 ls1 ls2,
  wf_client ls1 = true -> wf_client ls2 = true -> client ls1 = client ls2 ->
  no_findings (mkCfg d m1) ls1 = true -> no_findings (mkCfg d m2) ls2 = true ->
  let r1 := q_run (mkCfg d m1) q_init ls1 in
  let r2 := q_run (mkCfg d m2) q_init ls2 in
  client_outs ls1 (snd r1) = client_outs ls2 (snd r2) /\ q_abs (fst r1) = q_abs (fst r2).
Proof.
  intros d m1 m2 ls1 ls2 W1 W2 Ec N1 N2 r1 r2.
  destruct (refines_unlimited _ _ W1 N1) as (O1 & A1 & _). destruct (refines_unlimited _ _ W2 N2) as (O2 & A2 & _).
  unfold r1, r2. rewrite O1, O2, A1, A2.
  destruct (spec_run_client ls1 []) as [F1 C1]. destruct (spec_run_client ls2 []) as [F2 C2].
  rewrite C1, C2, F1, F2, Ec. split; reflexivity.
Qed.

(* the hypotheses are closed under prefixes *)
Lemma wf_client_from_app : forall a b g, wf_client_from g (a ++ b) = true -> wf_client_from g a = true.
Proof.
  induction a as [| lab a IH]; intros b g H; [reflexivity|]. cbn [app wf_client_from] in *.
  apply andb_true_iff in H. destruct H as [H1 H2]. rewrite H1. cbn [andb]. eapply IH; eauto.
Qed.

Lemma hyps_from_app : forall c a b s, hyps_from c s (a ++ b) = true -> hyps_from c s a = true.
Proof.
  intros c. induction a as [| lab a IH]; intros b s H; [reflexivity|]. cbn [app hyps_from] in *.
  apply andb_true_iff in H. destruct H as [H1 H2]. rewrite H1. cbn [andb]. eapply IH; eauto.
Qed.

(* queue-level C20: at every state of a run that satisfies the hypotheses, queueLength = what the queue holds *)
Lemma queue_length_partial : forall c ls1 ls2,
  wf_client (ls1 ++ ls2) = true -> no_findings c (ls1 ++ ls2) = true ->
  let s := fst (q_run c q_init ls1) in
  qlen s = Z.of_nat (length (q_abs s)) /\ q_abs s = fst (spec_run [] ls1).
Proof.
  intros c ls1 ls2 Hw Hn s. destruct (no_findings_cfg _ _ Hn) as [Hc Hh].
  apply wf_client_from_app in Hw. apply hyps_from_app in Hh.
  destruct (run_refines c ls1 q_init ghost_init (inv_init c) Hc Hw Hh) as (_ & A & B).
  unfold s. rewrite B, A. split; reflexivity.
Qed.

(* ---- the full-strength statement and its refutations ----------------------------------------

   C19 at full strength: for every two configurations (same durability, any limits >= 1) and every two
   schedules of the same client operations, the client-visible outputs (deliveries, purge counts) and
   the final contents agree.  The faithful model refutes it; each witness below was replayed against the
   real queue.Queue (checks/C19.py re-confirms them on every run). *)
Definition config_independent_statement : Prop :=
  forall d m1 m2 ls1 ls2,
    1 <= m1 -> 1 <= m2 -> m1 < W64 -> m2 < W64 ->
    wf_client ls1 = true -> client ls1 = client ls2 ->
    let r1 := q_run (mkCfg d m1) q_init ls1 in
    let r2 := q_run (mkCfg d m2) q_init ls2 in
    client_outs ls1 (snd r1) = client_outs ls2 (snd r2) /\ q_abs (fst r1) = q_abs (fst r2).

(* F24a: a loader turn inside the flush window sees nothing, clears swappedToDisk; the next push overtakes
   the unflushed message, which is never loaded. *)
Definition f24_witness : list label :=
  [Push 1 false; Push 2 false; Push 3 false; Push 4 false; Pop; Pop; Pop; LoaderTurn; PersistTick false;
   Push 5 false; Pop; LoaderTurn; Pop].

Lemma config_independent_refuted_F24 : ~ config_independent_statement.
Proof.
  intro H. specialize (H false 2 100 f24_witness f24_witness).
  assert (E : client_outs f24_witness (snd (q_run (mkCfg false 2) q_init f24_witness)) =
              client_outs f24_witness (snd (q_run (mkCfg false 100) q_init f24_witness))).
  { apply H; try reflexivity; vm_compute; congruence. }
  vm_compute in E. discriminate.
Qed.

(* F24, two stores: the stores flush independently; a younger transient message that is flushed is loaded
   and delivered before an older persistent one that is not, and the older one is then never loaded. *)
Definition f24_two_stores_witness : list label :=
  [Push 1 false; Push 2 false; Push 3 false; Push 4 true; Push 5 false; PersistTick false; Pop; Pop; Pop;
   LoaderTurn; Pop; PersistTick true; LoaderTurn; Pop].

Lemma config_independent_refuted_F24_two_stores : ~ config_independent_statement.
Proof.
  intro H. specialize (H true 2 100 f24_two_stores_witness f24_two_stores_witness).
  assert (E : client_outs f24_two_stores_witness (snd (q_run (mkCfg true 2) q_init f24_two_stores_witness)) =
              client_outs f24_two_stores_witness (snd (q_run (mkCfg true 100) q_init f24_two_stores_witness))).
  { apply H; try reflexivity; vm_compute; congruence. }
  vm_compute in E. discriminate.
Qed.

(* F24, the race: a push that lands inside a proceeding loader turn is lost although it is flushed at once:
   the loader writes swappedToDisk = false from what it saw before the push. *)
Definition f24_race_witness : list label :=
  [Push 1 false; Push 2 false; Push 3 false; Push 4 false; PersistTick false; Pop; Pop; Pop; LoaderTurn; Pop;
   LoaderRace 5 false; LoaderTurn; Pop; PersistTick false; LoaderTurn; Pop].

Lemma config_independent_refuted_F24_race : ~ config_independent_statement.
Proof.
  intro H. specialize (H false 2 100 f24_race_witness f24_race_witness).
  assert (E : client_outs f24_race_witness (snd (q_run (mkCfg false 2) q_init f24_race_witness)) =
              client_outs f24_race_witness (snd (q_run (mkCfg false 100) q_init f24_race_witness))).
  { apply H; try reflexivity; vm_compute; congruence. }
  vm_compute in E. discriminate.
Qed.

(* F24, the race on lastIteratedMsgID: the transient iteration ends on lastMemMsgID after the persistent
   iteration's last callback and before the persistent goroutine's test: swappedToDisk is cleared although the
   persistent store holds more. *)
Definition f24_iter_race_witness : list label :=
  [Push 1 false; Push 2 false; Push 3 false; Push 4 false; PersistTick false; Pop; Pop; Pop; LoaderTurn;
   Push 5 true; Push 6 true; PersistTick true; Pop; LoaderIterRace; Pop; PersistTick true; PersistTick false; LoaderTurn; Pop].

Lemma config_independent_refuted_F24_iter_race : ~ config_independent_statement.
Proof.
  intro H. specialize (H true 2 100 f24_iter_race_witness f24_iter_race_witness).
  assert (E : client_outs f24_iter_race_witness (snd (q_run (mkCfg true 2) q_init f24_iter_race_witness)) =
              client_outs f24_iter_race_witness (snd (q_run (mkCfg true 100) q_init f24_iter_race_witness))).
  { apply H; try reflexivity; vm_compute; congruence. }
  vm_compute in E. discriminate.
Qed.

(* F24b: purge while swapped leaves the transient store and the flag: the purged message comes back,
   and the length counter goes negative. *)
Definition f24_purge_witness : list label :=
  [Push 1 false; Push 2 false; Push 3 false; Push 4 false; PersistTick false; Purge; LoaderTurn; Pop].

Lemma config_independent_refuted_purge : ~ config_independent_statement.
Proof.
  intro H. specialize (H false 2 100 f24_purge_witness f24_purge_witness).
  assert (E : client_outs f24_purge_witness (snd (q_run (mkCfg false 2) q_init f24_purge_witness)) =
              client_outs f24_purge_witness (snd (q_run (mkCfg false 100) q_init f24_purge_witness))).
  { apply H; try reflexivity; vm_compute; congruence. }
  vm_compute in E. discriminate.
Qed.

(* F40: with a limit of 1 the threshold (1/2) is 0: the loader never proceeds, what overflowed stays on disk. *)
Definition f40_witness : list label :=
  [Push 1 false; Push 2 false; Push 3 false; PersistTick false; Pop; Pop; LoaderTurn; Pop;
   PersistTick true; PersistTick false; LoaderTurn; Pop].

Lemma config_independent_refuted_F40 : ~ config_independent_statement.
Proof.
  intro H. specialize (H false 1 100 f40_witness f40_witness).
  assert (E : client_outs f40_witness (snd (q_run (mkCfg false 1) q_init f40_witness)) =
              client_outs f40_witness (snd (q_run (mkCfg false 100) q_init f40_witness))).
  { apply H; try reflexivity; vm_compute; congruence. }
  vm_compute in E. discriminate.
Qed.

(* queue-level C20 at full strength: queueLength = what the queue holds.  Refuted by the purge witness:
   after purge-while-swapped, load and pop the counter is -1. *)
Lemma queue_length_refuted : exists d m ls, wf_client ls = true /\ 2 <= m /\
  qlen (fst (q_run (mkCfg d m) q_init ls)) <> Z.of_nat (length (q_abs (fst (q_run (mkCfg d m) q_init ls)))).
Proof.
  exists false, 2, f24_purge_witness. split; [reflexivity|]. split; [vm_compute; congruence|].
  vm_compute. discriminate.
Qed.

(* ---- without the scheduling hypothesis: the run is the unlimited list on the effective label list ---- *)
Lemma run_refines_effective : forall c ls s g, Inv c s g -> cfg_ok c ->
  wf_client_from g (effective ls (snd (q_run c s ls))) = true -> hyps_safety_from c s ls = true ->
  let ls' := effective ls (snd (q_run c s ls)) in
  effective_outs ls (snd (q_run c s ls)) = snd (spec_run (g_list g) ls') /\
  q_abs (fst (q_run c s ls)) = fst (spec_run (g_list g) ls') /\
  qlen (fst (q_run c s ls)) = Z.of_nat (length (fst (spec_run (g_list g) ls'))).
Proof.
  intros c. induction ls as [| lab t IH]; intros s g I Hc Hw Hh.
  - cbn. destruct I. repeat split; try reflexivity; assumption.
  - cbn [hyps_safety_from] in Hh. apply andb_true_iff in Hh. destruct Hh as [Hh1 Hh2].
    cbn [q_run] in *.
    destruct (q_step c s lab) as [s1 o] eqn:E1. cbn [fst] in Hh2.
    destruct (q_run c s1 t) as [s2 os] eqn:E2. cbn [fst snd] in *.
    assert (Hcases : (lab = Pop /\ o = OPop None /\ s1 = s) \/
                     (effective (lab :: t) (o :: os) = lab :: effective t os /\
                      effective_outs (lab :: t) (o :: os) = o :: effective_outs t os /\ hyp_step c s lab = true)).
    { destruct lab as [id p | | id p | id p | | | b | id p | |]; cbn [q_step] in E1.
      - inversion E1; subst. right. repeat split; reflexivity || exact Hh1.
      - unfold q_pop in E1. destruct (mem s) as [| x m'] eqn:Em.
        + inversion E1; subst. left. repeat split.
        + inversion E1; subst. right. repeat split. cbn [hyp_step]. rewrite Em. reflexivity.
      - inversion E1; subst. right. repeat split; reflexivity || exact Hh1.
      - inversion E1; subst. right. repeat split; reflexivity || exact Hh1.
      - unfold q_purge in E1. inversion E1; subst. right. repeat split; reflexivity || exact Hh1.
      - inversion E1; subst. right. repeat split; reflexivity || exact Hh1.
      - inversion E1; subst. right. repeat split; reflexivity || exact Hh1.
      - cbn [hyp_step_safety hyp_step] in Hh1. discriminate.
      - cbn [hyp_step_safety hyp_step] in Hh1. discriminate.
      - cbn [hyp_step_safety hyp_step] in Hh1. discriminate. }
    destruct Hcases as [(El & Eo & Es) | (Ee & Eeo & Hhs)].
    + subst. cbn [effective effective_outs] in *.
      specialize (IH s g I Hc). rewrite E2 in IH. cbn [fst snd] in IH. apply IH; assumption.
    + rewrite Ee in *. rewrite Eeo. cbn [wf_client_from] in Hw. apply andb_true_iff in Hw. destruct Hw as [Hw1 Hw2].
      destruct (step_all c s g lab I Hc Hw1 Hhs) as (I' & Eout & Elist). rewrite E1 in I', Eout. cbn [fst snd] in I', Eout.
      specialize (IH s1 (ghost_step g lab) I' Hc). rewrite E2 in IH. cbn [fst snd] in IH.
      specialize (IH Hw2 Hh2). rewrite Elist in IH.
      cbn [spec_run]. destruct (spec_step (g_list g) lab) as [l1 o'] eqn:E3. cbn [fst snd] in *.
      destruct (spec_run l1 (effective t os)) as [l2 os']. cbn [fst snd] in *.
      destruct IH as (A & B & C). subst. repeat split; assumption.
Qed.

Lemma order_exactly_once_partial : forall c ls,
  let r := q_run c q_init ls in
  let ls' := effective ls (snd r) in
  wf_client ls' = true -> no_findings_safety c ls = true ->
  effective_outs ls (snd r) = snd (spec_run [] ls') /\
  q_abs (fst r) = fst (spec_run [] ls') /\
  qlen (fst r) = Z.of_nat (length (fst (spec_run [] ls'))).
Proof.
  intros c ls r ls' Hw Hn. unfold no_findings_safety in Hn.
  apply andb_true_iff in Hn. destruct Hn as [Hn H3]. apply andb_true_iff in Hn. destruct Hn as [H1 H2].
  apply N.leb_le in H1. apply N.ltb_lt in H2.
  exact (run_refines_effective c ls q_init ghost_init (inv_init c) (conj H1 H2) Hw H3).
Qed.

(* ---- label lists with restarts ------------------------------------------------------------------------- *)
Lemma ssorted_NoDup : forall l, ssorted l -> NoDup l.
Proof.
  induction l as [| a l IH]; intros H; [constructor|]. destruct (StronglySorted_inv H) as [Hs Hf]. constructor; [| auto].
  intro Hin. rewrite Forall_forall in Hf. specialize (Hf a Hin). lia.
Qed.

Lemma sortN_In : forall l x, In x (sortN l) <-> In x l.
Proof. induction l as [| h l IH]; intros x; cbn [sortN]; [tauto|]. rewrite insert_sorted_In, IH. cbn. intuition. Qed.

Lemma sortN_ss : forall l, ssorted (sortN l).
Proof. induction l; cbn [sortN]; [constructor | apply insert_sorted_ss; assumption]. Qed.

Lemma restart_list_In : forall g k,
  In k (restart_list g) <-> In k (g_pers g) /\ (In k (g_list g) \/ In k (g_outst g)).
Proof. intros. unfold restart_list. rewrite sortN_In, filter_In, in_app_iff, inb_In. tauto. Qed.

Lemma remove1_perm : forall k l, In k l -> Permutation l (k :: remove1 k l).
Proof.
  induction l as [| h l IH]; intros H; [contradiction|]. cbn [remove1]. destruct (N.eqb_spec k h).
  - subst. apply Permutation_refl.
  - destruct H as [H | H]; [congruence|]. eapply Permutation_trans; [apply perm_skip; apply IH; assumption | apply perm_swap].
Qed.

Lemma remove1_In_iff : forall k l x, In k l -> (In x l <-> x = k \/ In x (remove1 k l)).
Proof.
  intros k l x H. pose proof (remove1_perm k l H) as P. split.
  - intros Hx. apply (Permutation_in _ P) in Hx. destruct Hx; [left; congruence | right; assumption].
  - intros [Hx | Hx]; [subst; assumption | eapply remove1_In; eauto].
Qed.

(* the ghost's ready list and delivered-unsettled list never share or repeat an id *)
Lemma ghost_nodup_step : forall g lab,
  NoDup (g_list g ++ g_outst g) -> Forall (fun k => k < g_next g) (g_list g ++ g_outst g) ->
  wf_step g lab = true -> NoDup (g_list (ghost_step g lab) ++ g_outst (ghost_step g lab)).
Proof.
  intros g lab Hn Hb Hw.
  assert (Hpush : forall id, g_next g <=? id = true -> NoDup ((g_list g ++ [id]) ++ g_outst g)).
  { intros id Hid. apply N.leb_le in Hid. rewrite <- app_assoc. cbn [app].
    apply (Permutation_NoDup (Permutation_middle (g_list g) (g_outst g) id)). constructor; [| assumption].
    intro Hin. rewrite Forall_forall in Hb. specialize (Hb id Hin). lia. }
  destruct lab as [id p | | id p | id p | | | b | id p | |]; cbn [ghost_step g_list g_outst wf_step] in *; try assumption.
  - apply Hpush; assumption.
  - destruct (g_list g) as [| x l'] eqn:El; cbn [g_list g_outst]; [rewrite El; assumption|].
    apply (Permutation_NoDup (Permutation_middle l' (g_outst g) x)). exact Hn.
  - apply andb_true_iff in Hw. destruct Hw as [Ho _]. apply inb_In in Ho.
    apply (Permutation_NoDup (l := g_list g ++ g_outst g)); [| assumption].
    cbn [app]. eapply Permutation_trans; [apply Permutation_app_head; apply remove1_perm; exact Ho|].
    apply Permutation_sym. apply Permutation_middle.
  - apply andb_true_iff in Hw. destruct Hw as [Ho _]. apply inb_In in Ho.
    assert (P : Permutation (g_list g ++ g_outst g) (id :: (g_list g ++ remove1 id (g_outst g)))).
    { eapply Permutation_trans; [apply Permutation_app_head; apply remove1_perm; exact Ho|].
      apply Permutation_sym. apply Permutation_middle. }
    pose proof (Permutation_NoDup P Hn) as Hn'. inversion Hn'; assumption.
  - cbn [app]. clear - Hn. induction (g_list g) as [| a l IH]; [exact Hn|]. apply IH. inversion Hn; assumption.
  - apply Hpush; assumption.
  - rewrite app_nil_r. apply ssorted_NoDup. apply sortN_ss.
Qed.

Lemma ack_not_left : forall g id, NoDup (g_list g ++ g_outst g) -> In id (g_outst g) ->
  ~ In id (g_list g) /\ ~ In id (remove1 id (g_outst g)).
Proof.
  intros g id Hn Ho.
  assert (P : Permutation (g_list g ++ g_outst g) (id :: (g_list g ++ remove1 id (g_outst g)))).
  { eapply Permutation_trans; [apply Permutation_app_head; apply remove1_perm; exact Ho|].
    apply Permutation_sym. apply Permutation_middle. }
  pose proof (Permutation_NoDup P Hn) as Hn'. inversion Hn' as [| ? ? Hni _]; subst. rewrite in_app_iff in Hni. tauto.
Qed.

Lemma persist_idem : forall st, s_flushed (store_persist (store_persist st)) = s_flushed (store_persist st).
Proof.
  intros st. unfold store_persist at 1. cbn [s_add s_upd s_del s_flushed]. unfold minus. cbn [filter app fold_left].
  apply filter_all. intros; reflexivity.
Qed.

Definition live (st : store) (k : N) : Prop := In k (s_flushed (store_persist st)).

Lemma live_iff : forall st k, live st k <->
  (In k (s_flushed st) \/ (In k (s_add st) /\ ~ In k (s_del st)) \/ (In k (s_upd st) /\ ~ In k (s_del st))) /\
  ~ (In k (s_del st) /\ ~ In k (s_add st)).
Proof. intros. unfold live. apply persist_flushed_In. Qed.

Record Inv2 (c : qcfg) (s : qstate) (g : ghost) : Prop := mkInv2 {
  i2_inv : Inv c s g;
  i2_nodup : NoDup (g_list g ++ g_outst g);
  i2_pk : durable c = true -> forall k, live (pst s) k <-> In k (g_pers g) /\ (In k (g_list g) \/ In k (g_outst g));
  i2_addfl : forall k, In k (s_add (pst s)) -> ~ In k (s_flushed (pst s))
}.

Lemma inv2_init : forall c, Inv2 c q_init ghost_init.
Proof.
  intros c. constructor; [apply inv_init | constructor | | intros k []].
  intros _ k. rewrite live_iff. cbn. tauto.
Qed.

Lemma abs_in_ids : forall c s g, Inv c s g -> Forall (fun k => In k (allids s)) (g_list g).
Proof.
  intros c s g I. destruct I as [I_abs I_len I_ids_sorted I_ids_range I_lm I_ls I_next I_mem I_outst I_disk_ids I_settle I_tsettle I_notsw I_sw I_fl I_pkeys I_tkeys I_pers]. rewrite <- I_abs. unfold q_abs. apply Forall_app. split.
  - rewrite Forall_forall in *. intros k Hk. apply I_mem; assumption.
  - unfold abs_disk. rewrite Forall_forall. intros k Hk. apply filter_In in Hk. tauto.
Qed.

Lemma ghost_bound : forall c s g, Inv c s g -> Forall (fun k => k < g_next g) (g_list g ++ g_outst g).
Proof.
  intros c s g I. pose proof (abs_in_ids c s g I) as Hl. destruct I as [I_abs I_len I_ids_sorted I_ids_range I_lm I_ls I_next I_mem I_outst I_disk_ids I_settle I_tsettle I_notsw I_sw I_fl I_pkeys I_tkeys I_pers].
  rewrite Forall_forall in *. intros k Hk. apply in_app_or in Hk.
  assert (In k (allids s)) by (destruct Hk as [Hk | Hk]; [auto | apply I_outst; assumption]).
  specialize (I_ids_range k H). lia.
Qed.

Lemma hyp_r_implies : forall c s g lab, lab <> Restart -> hyp_r_step c s g lab = true -> hyp_step c s lab = true.
Proof.
  intros c s g lab Hn H. destruct lab; cbn [hyp_r_step] in H; try exact H; [| congruence].
  apply andb_true_iff in H. tauto.
Qed.

(* the persistent store keeps exactly what must come back: every label but Restart *)
Lemma step2_pk : forall c s g lab, Inv2 c s g -> cfg_ok c -> lab <> Restart ->
  wf_step g lab = true -> hyp_r_step c s g lab = true ->
  let s' := fst (q_step c s lab) in let g' := ghost_step g lab in
  (durable c = true -> forall k, live (pst s') k <-> In k (g_pers g') /\ (In k (g_list g') \/ In k (g_outst g'))) /\
  (forall k, In k (s_add (pst s')) -> ~ In k (s_flushed (pst s'))).
Proof.
  intros c s g lab I2 Hc Hnr Hw Hh. destruct I2 as [I Hnd Hpk Haf]. pose proof I as I0. destruct I as [I_abs I_len I_ids_sorted I_ids_range I_lm I_ls I_next I_mem I_outst I_disk_ids I_settle I_tsettle I_notsw I_sw I_fl I_pkeys I_tkeys I_pers].
  destruct lab as [id p | | id p | id p | | | b | id p | |]; cbn [q_step fst ghost_step g_pers g_list g_outst]; try congruence.
  - (* Push *)
    cbn [wf_step] in Hw. apply N.leb_le in Hw.
    pose proof (push_old_lt c s g id I0 Hw) as Hold. pose proof (push_id_not_pers c s g id I0 Hw) as Hnp.
    assert (Hidl : ~ In id (g_list g) /\ ~ In id (g_outst g)).
    { pose proof (ghost_bound c s g I0) as Hb. rewrite Forall_forall in Hb. split; intro Hin;
        (assert (Hlt : id < g_next g) by (apply Hb; apply in_or_app; tauto)); lia. }
    assert (Epst : pst (q_push c s id p) = if durable c && p then store_add (pst s) id else pst s).
    { unfold q_push. cbn [pst]. reflexivity. }
    rewrite Epst. split.
    + intros Hd k. specialize (Hpk Hd k). rewrite Hd. cbn [andb]. destruct p.
      * rewrite live_iff. cbn [store_add s_add s_upd s_del s_flushed]. rewrite set_key_In. rewrite live_iff in Hpk.
        assert (Hdel : ~ In id (s_del (pst s))).
        { intro Hin. rewrite Forall_forall in I_settle. specialize (I_settle id (ltac:(apply in_or_app; right; exact Hin))). lia. }
        cbn [In]. rewrite in_app_iff. cbn [In].
        destruct (N.eq_dec k id) as [E | E].
        -- subst k. split; [intros _; split; [left; reflexivity | left; right; left; reflexivity] |].
           intros _. split; [right; left; split; [right; reflexivity | exact Hdel] | tauto].
        -- split.
           ++ intros [A B]. assert (HH : In k (g_pers g) /\ (In k (g_list g) \/ In k (g_outst g))) by (apply Hpk; split; [tauto | tauto]).
              destruct HH as [P1 P2]. split; [right; assumption | tauto].
           ++ intros [[A | A] B]; [congruence|]. assert (HH : In k (g_list g) \/ In k (g_outst g)) by (destruct B as [[B | [B | []]] | B]; [tauto | congruence | tauto]).
              destruct (proj2 Hpk (conj A HH)) as [X Y]. split; [tauto | tauto].
      * rewrite Hpk. rewrite in_app_iff. cbn [In]. split; [tauto|]. intros [A [[B | [B | []]] | B]]; try tauto. subst k. contradiction.
    + intros k Hk. destruct (durable c && p); [| apply Haf; assumption].
      cbn [store_add s_add s_flushed] in *. apply set_key_In in Hk. destruct Hk as [Hk | Hk]; [apply Haf; assumption|].
      subst k. intro Hin. rewrite Forall_forall in I_disk_ids.
      assert (In id (allids s)) by (apply I_disk_ids; unfold st_all; rewrite !in_app_iff; tauto).
      specialize (Hold id H). lia.
  - (* Pop *)
    unfold q_pop. destruct (mem s) as [| x t] eqn:Em; cbn [snd fst pst].
    + destruct (g_list g) eqn:El; cbn [g_pers g_list g_outst]; rewrite ?El; [split; assumption|].
      (* the ring is empty and so is the list (hypothesis): contradiction with El *)
      exfalso. cbn [hyp_r_step hyp_step] in Hh. rewrite Em in Hh. destruct (abs_disk s) eqn:Ed; [| discriminate].
      unfold q_abs in I_abs. rewrite Em, Ed in I_abs. discriminate.
    + assert (El : g_list g = x :: (t ++ abs_disk s)) by (rewrite <- I_abs; unfold q_abs; rewrite Em; reflexivity).
      rewrite El. cbn [g_pers g_list g_outst pst]. split; [| assumption].
      intros Hd k. rewrite (Hpk Hd k), El. cbn [In]. tauto.
  - (* Requeue *)
    cbn [wf_step] in Hw. apply andb_true_iff in Hw. destruct Hw as [Ho Hp]. apply inb_In in Ho. apply eqb_prop in Hp.
    unfold q_requeue. cbn [pst]. split.
    + intros Hd k. specialize (Hpk Hd). rewrite Hd. cbn [andb In].
      assert (Hrhs : (In k (g_pers g) /\ ((id = k \/ In k (g_list g)) \/ In k (remove1 id (g_outst g)))) <->
                     (In k (g_pers g) /\ (In k (g_list g) \/ In k (g_outst g)))).
      { rewrite (remove1_In_iff id (g_outst g) k Ho). intuition; subst; auto. }
      rewrite Hrhs, <- (Hpk k). destruct p; [| tauto].
      rewrite !live_iff. cbn [store_update s_add s_upd s_del s_flushed]. rewrite set_key_In.
      destruct (N.eq_dec k id) as [E | E]; [| intuition].
      subst k. assert (Hl : live (pst s) id) by (apply Hpk; split; [apply inb_In; congruence | tauto]).
      rewrite live_iff in Hl. tauto.
    + intros k Hk. destruct (durable c && p); cbn [store_update s_add s_flushed] in *; apply Haf; assumption.
  - (* Ack *)
    cbn [wf_step] in Hw. apply andb_true_iff in Hw. destruct Hw as [Ho Hp]. apply inb_In in Ho. apply eqb_prop in Hp.
    destruct (ack_not_left g id Hnd Ho) as [Hnl Hnr'].
    unfold q_ack. cbn [pst]. split.
    + intros Hd k. specialize (Hpk Hd). rewrite Hd. cbn [andb].
      destruct (N.eq_dec k id) as [E | E].
      * subst k. split; [| intros [_ [A | A]]; contradiction].
        intro Hl. exfalso. destruct p.
        -- rewrite live_iff in Hl. cbn [store_del s_add s_upd s_del s_flushed] in Hl. rewrite !set_key_In in Hl.
           destruct Hl as [[A | [[A B] | [A B]]] C]; try (apply B; right; reflexivity).
           apply C. split; [right; reflexivity|]. intro Hadd. exact (Haf id Hadd A).
        -- apply Hpk in Hl. destruct Hl as [Hpers _]. apply inb_In in Hpers. congruence.
      * assert (Hrhs : (In k (g_pers g) /\ (In k (g_list g) \/ In k (remove1 id (g_outst g)))) <->
                       (In k (g_pers g) /\ (In k (g_list g) \/ In k (g_outst g)))).
        { rewrite (remove1_In_iff id (g_outst g) k Ho). intuition. }
        rewrite Hrhs, <- (Hpk k). destruct p; [| tauto].
        rewrite !live_iff. cbn [store_del s_add s_upd s_del s_flushed]. rewrite set_key_In. intuition.
    + intros k Hk. destruct (durable c && p); cbn [store_del s_add s_flushed] in *; apply Haf; assumption.
  - (* Purge *)
    unfold q_purge. cbn [snd fst pst]. cbn [hyp_r_step] in Hh. apply andb_true_iff in Hh. destruct Hh as [_ Hh]. split.
    + intros Hd k. rewrite Hd in *. cbn [negb orb] in Hh.
      rewrite live_iff. cbn [store_purge s_add s_upd s_del s_flushed In]. rewrite fold_set_key_In.
      rewrite forallb_forall in Hh. split; [tauto|]. intros [A [[] | B]]. specialize (Hh k B).
      apply negb_true_iff in Hh. apply inb_false in Hh. contradiction.
    + intros k Hk. destruct (durable c); cbn [store_purge s_add s_flushed] in *; [tauto | apply Haf; assumption].
  - (* Loader *)
    assert (E : pst (q_loader c s) = pst s) by (unfold q_loader; destruct (loader_proceeds c s); reflexivity).
    rewrite E. split; assumption.
  - (* Tick *)
    destruct b; unfold q_tick; cbn [pst]; [| split; assumption]. split.
    + intros Hd k. unfold live. rewrite persist_idem. apply Hpk; assumption.
    + intros k Hk. cbn in Hk. contradiction.
  - cbn [hyp_r_step hyp_step] in Hh. discriminate.
  - cbn [hyp_r_step hyp_step] in Hh. discriminate.
Qed.

Lemma firstn_short : forall {A} n (l : list A), (length (firstn n l) < n)%nat -> firstn n l = l.
Proof. intros A n l H. rewrite firstn_length in H. apply firstn_all2. lia. Qed.

Lemma last_nil_or_In : forall (l : list N) d, l = [] \/ In (last l d) l.
Proof. intros [| a l] d; [left; reflexivity | right; apply last_In; discriminate]. Qed.

Lemma step_restart : forall c s g, Inv2 c s g -> cfg_ok c -> durable c = true ->
  Inv c (q_restart c s) (ghost_step g Restart).
Proof.
  intros c s g I2 [H2 HW] Hd. destruct I2 as [I Hnd Hpk Haf]. specialize (Hpk Hd). pose proof I as I0.
  destruct I as [I_abs I_len I_ids_sorted I_ids_range I_lm I_ls I_next I_mem I_outst I_disk_ids I_settle I_tsettle I_notsw I_sw I_fl I_pkeys I_tkeys I_pers].
  destruct I_fl as [Fp Ft].
  unfold q_restart. rewrite Hd. cbn [ghost_step].
  set (fl := s_flushed (store_persist (pst s))).
  assert (Sfl : ssorted fl) by (apply persist_flushed_ss; assumption).
  assert (Hfl_ids : forall k, In k fl -> In k (allids s)).
  { intros k Hk. apply persist_flushed_In in Hk. rewrite Forall_forall in I_disk_ids. apply I_disk_ids. unfold st_all. rewrite !in_app_iff. tauto. }
  assert (Efl : fl = restart_list g).
  { apply ssorted_unique; [assumption | apply sortN_ss |]. intros k. rewrite restart_list_In. apply Hpk. }
  assert (Efilter : fl = filter (fun k => (0 <? k) && inb k fl) (allids s)).
  { apply ssorted_unique; [assumption | apply ssorted_filter; assumption |].
    intros k. rewrite filter_In, andb_true_iff, N.ltb_lt, inb_In. split; [| tauto].
    intros Hk. pose proof (Hfl_ids k Hk) as Hi. rewrite Forall_forall in I_ids_range. specialize (I_ids_range k Hi). tauto. }
  assert (Hm : maxram c <> 0) by lia.
  set (n := N.to_nat (maxram c)).
  assert (Eld : store_iter (mkStore [] [] [] fl) 0 (maxram c) = firstn n fl).
  { rewrite (store_iter_eq _ _ _ Hm). cbn [s_flushed]. fold n. f_equal. apply filter_all. intros x _. apply N.leb_le. lia. }
  rewrite Eld. set (ld := firstn n fl).
  assert (Sld : ssorted ld) by (apply ssorted_firstn; assumption).
  assert (Hld_fl : forall k, In k ld -> In k fl) by (intros k Hk; eapply In_firstn; eauto).
  assert (Erest : filter (fun k => (last ld 0 <? k) && inb k fl) (allids s) = skipn n fl).
  { apply (prefix_split (fun k => inb k fl) 0 (allids s) n fl ld); [assumption | exact Efilter | reflexivity]. }
  set (sw := maxram c <=? N.of_nat (length ld)).
  set (ql := if sw then Z.of_nat (length fl) else Z.of_N (N.of_nat (length ld))).
  set (s' := mkQ ld (mkStore [] [] [] fl) store_empty sw (last ld 0) (last ld 0) ql (allids s)).
  assert (Hon : forall k, disk_ahead s' k = (last ld 0 <? k) && inb k fl).
  { intros k. unfold disk_ahead, on_disk, s'. cbn [lastMem pst tst s_add s_flushed store_empty]. unfold inb. cbn [existsb orb]. rewrite !orb_false_r. reflexivity. }
  assert (Eabs' : abs_disk s' = skipn n fl).
  { unfold abs_disk. rewrite (filter_ext _ _ Hon). exact Erest. }
  assert (Hshort : sw = false -> ld = fl).
  { intros Hs. unfold sw in Hs. apply N.leb_gt in Hs. apply firstn_short. unfold ld, n in *. lia. }
  assert (Hlast_lt : last ld 0 < g_next g).
  { destruct (last_nil_or_In ld 0) as [E | Hin]; [rewrite E; exact I_next|].
    pose proof (Hfl_ids _ (Hld_fl _ Hin)) as Hi. rewrite Forall_forall in I_ids_range. specialize (I_ids_range _ Hi). lia. }
  constructor; unfold s'; cbn [mem swapped lastStored lastMem qlen allids tst pst g_list g_next g_outst g_pers]; try assumption.
  - unfold q_abs. fold s'. change (mem s') with ld. rewrite Eabs'. unfold ld. rewrite firstn_skipn. exact Efl.
  - rewrite <- Efl. unfold ql. destruct sw eqn:Esw; [reflexivity|]. rewrite (Hshort eq_refl). lia.
  - rewrite Forall_forall. intros k Hk. split; [apply ssorted_last_max; assumption | apply Hfl_ids; apply Hld_fl; assumption].
  - constructor.
  - unfold st_all. cbn [s_add s_upd s_del s_flushed store_empty app]. rewrite app_nil_r. rewrite Forall_forall. exact Hfl_ids.
  - constructor.
  - split; reflexivity.
  - intros Hs. fold s'. rewrite Forall_forall. intros k Hk.
    assert (E0 : skipn n fl = []).
    { pose proof (firstn_skipn n fl) as E. fold ld in E. rewrite (Hshort Hs) in E. apply (app_inv_head fl). rewrite app_nil_r. exact E. }
    unfold abs_disk in Eabs'. rewrite E0 in Eabs'. exact (filter_nil_inv _ _ Eabs' k Hk).
  - intros _. split; [lia|]. fold s'. rewrite Forall_forall. intros k Hk Ha. rewrite Hon in Ha. apply andb_true_iff in Ha. destruct Ha as [Ha _].
    apply N.ltb_lt in Ha. lia.
  - cbn [s_flushed store_empty]. split; [assumption | constructor].
  - cbn [s_add s_upd s_flushed app]. rewrite Forall_forall. intros k Hk. split; [assumption|]. apply (Hpk k). exact Hk.
  - cbn [s_add s_flushed store_empty app]. constructor.
Qed.

Lemma step2_all : forall c s g lab, Inv2 c s g -> cfg_ok c -> wf_step g lab = true -> hyp_r_step c s g lab = true ->
  Inv2 c (fst (q_step c s lab)) (ghost_step g lab) /\
  snd (q_step c s lab) = snd (gspec_step g lab).
Proof.
  intros c s g lab I2 Hc Hw Hh.
  assert (Hnd' : NoDup (g_list (ghost_step g lab) ++ g_outst (ghost_step g lab))).
  { destruct I2 as [I Hnd _ _]. apply ghost_nodup_step; [assumption | eapply ghost_bound; eauto | assumption]. }
  destruct lab as [id p | | id p | id p | | | b | id p | |] eqn:El.
  9: { (* Restart *)
    cbn [hyp_r_step] in Hh. cbn [q_step fst snd gspec_step].
    split; [| reflexivity].
    pose proof (step_restart c s g I2 Hc Hh) as I'. destruct I2 as [I Hnd Hpk Haf]. specialize (Hpk Hh).
    constructor; [exact I' | exact Hnd' | | ].
    - intros _ k. unfold q_restart. rewrite Hh. cbn [pst ghost_step g_pers g_list g_outst]. unfold live.
      change (store_persist {| s_add := []; s_upd := []; s_del := []; s_flushed := s_flushed (store_persist (pst s)) |})
        with (store_persist (store_persist (pst s))).
      rewrite persist_idem. rewrite restart_list_In. fold (live (pst s) k). rewrite (Hpk k). cbn [In]. tauto.
    - intros k Hk. unfold q_restart in Hk. rewrite Hh in Hk. cbn in Hk. contradiction. }
  all: rewrite <- El in *;
    assert (Hnr : lab <> Restart) by (rewrite El; discriminate);
    pose proof (hyp_r_implies c s g lab Hnr Hh) as Hh0;
    destruct (step_all c s g lab (i2_inv _ _ _ I2) Hc Hw Hh0) as (I' & Eo & _);
    destruct (step2_pk c s g lab I2 Hc Hnr Hw Hh) as [Hpk' Haf'];
    (split; [constructor; assumption |]);
    unfold gspec_step; cbn [snd]; rewrite Eo; rewrite El; reflexivity.
Qed.

Lemma run2_refines : forall c ls s g, Inv2 c s g -> cfg_ok c -> wf_client_from g ls = true -> hyps_r_from c s g ls = true ->
  snd (q_run c s ls) = snd (gspec_run g ls) /\
  q_abs (fst (q_run c s ls)) = g_list (fst (gspec_run g ls)) /\
  qlen (fst (q_run c s ls)) = Z.of_nat (length (g_list (fst (gspec_run g ls)))).
Proof.
  intros c. induction ls as [| lab t IH]; intros s g I2 Hc Hw Hh.
  - cbn [q_run gspec_run fst snd]. destruct I2 as [I _ _ _]. split; [reflexivity|]. split; [apply (inv_abs _ _ _ I) | apply (inv_len _ _ _ I)].
  - cbn [wf_client_from hyps_r_from] in Hw, Hh. apply andb_true_iff in Hw, Hh. destruct Hw as [Hw1 Hw2]. destruct Hh as [Hh1 Hh2].
    destruct (step2_all c s g lab I2 Hc Hw1 Hh1) as (I' & Eo).
    cbn [q_run gspec_run]. unfold gspec_step in *. cbn [snd] in Eo.
    destruct (q_step c s lab) as [s1 o] eqn:E1. cbn [fst snd] in *.
    specialize (IH s1 (ghost_step g lab) I' Hc Hw2 Hh2).
    destruct (q_run c s1 t) as [s2 os]. destruct (gspec_run (ghost_step g lab) t) as [g2 os']. cbn [fst snd] in *.
    destruct IH as (A & B & C). subst. repeat split; try reflexivity; assumption.
Qed.

Lemma no_findings_restart_cfg : forall c ls, no_findings_restart c ls = true -> cfg_ok c /\ hyps_r_from c q_init ghost_init ls = true.
Proof.
  intros c ls H. unfold no_findings_restart in H. apply andb_true_iff in H. destruct H as [H H3]. apply andb_true_iff in H. destruct H as [H1 H2].
  apply N.leb_le in H1. apply N.ltb_lt in H2. unfold cfg_ok. auto.
Qed.

(* refinement of the unlimited list over label lists WITH restarts *)
Lemma refines_unlimited_restarts : forall c ls, wf_client ls = true -> no_findings_restart c ls = true ->
  snd (q_run c q_init ls) = snd (gspec_run ghost_init ls) /\
  q_abs (fst (q_run c q_init ls)) = g_list (fst (gspec_run ghost_init ls)) /\
  qlen (fst (q_run c q_init ls)) = Z.of_nat (length (g_list (fst (gspec_run ghost_init ls)))).
Proof.
  intros c ls Hw Hn. destruct (no_findings_restart_cfg c ls Hn) as [Hc Hh].
  exact (run2_refines c ls q_init ghost_init (inv2_init c) Hc Hw Hh).
Qed.

Lemma gspec_run_client : forall ls g,
  fst (gspec_run g ls) = fst (gspec_run g (client ls)) /\
  client_outs ls (snd (gspec_run g ls)) = snd (gspec_run g (client ls)).
Proof.
  induction ls as [| lab t IH]; intros g; [split; reflexivity|].
  unfold client in *. cbn [filter gspec_run].
  destruct (is_client lab) eqn:Ec.
  - cbn [gspec_run]. destruct (gspec_step g lab) as [g1 o]. specialize (IH g1).
    destruct (gspec_run g1 t) as [g2 os]. destruct (gspec_run g1 (filter is_client t)) as [g2' os'].
    cbn [fst snd client_outs] in *. rewrite Ec. destruct IH as [A B]. subst. split; reflexivity.
  - assert (Hs : gspec_step g lab = (g, ONone)) by (destruct lab; try discriminate; reflexivity). rewrite Hs.
    specialize (IH g). destruct (gspec_run g t) as [g2 os]. cbn [fst snd client_outs] in *. rewrite Ec. exact IH.
Qed.

Lemma config_independent_restarts : forall m1 m2 ls1 ls2,
  wf_client ls1 = true -> wf_client ls2 = true -> client ls1 = client ls2 ->
  no_findings_restart (mkCfg true m1) ls1 = true -> no_findings_restart (mkCfg true m2) ls2 = true ->
  let r1 := q_run (mkCfg true m1) q_init ls1 in
  let r2 := q_run (mkCfg true m2) q_init ls2 in
  client_outs ls1 (snd r1) = client_outs ls2 (snd r2) /\ q_abs (fst r1) = q_abs (fst r2).
Proof.
  intros m1 m2 ls1 ls2 W1 W2 Ec N1 N2 r1 r2.
  destruct (refines_unlimited_restarts _ _ W1 N1) as (O1 & A1 & _). destruct (refines_unlimited_restarts _ _ W2 N2) as (O2 & A2 & _).
  unfold r1, r2. rewrite O1, O2, A1, A2.
  destruct (gspec_run_client ls1 ghost_init) as [F1 C1]. destruct (gspec_run_client ls2 ghost_init) as [F2 C2].
  rewrite C1, C2, F1, F2, Ec. split; reflexivity.
Qed.

Lemma hyps_r_from_app : forall c a b s g, hyps_r_from c s g (a ++ b) = true -> hyps_r_from c s g a = true.
Proof.
  intros c. induction a as [| lab a IH]; intros b s g H; [reflexivity|]. cbn [app hyps_r_from] in *.
  apply andb_true_iff in H. destruct H as [H1 H2]. rewrite H1. cbn [andb]. eapply IH; eauto.
Qed.

Lemma queue_length_restarts : forall c ls1 ls2,
  wf_client (ls1 ++ ls2) = true -> no_findings_restart c (ls1 ++ ls2) = true ->
  let s := fst (q_run c q_init ls1) in
  qlen s = Z.of_nat (length (q_abs s)) /\ q_abs s = g_list (fst (gspec_run ghost_init ls1)).
Proof.
  intros c ls1 ls2 Hw Hn s. destruct (no_findings_restart_cfg _ _ Hn) as [Hc Hh].
  apply wf_client_from_app in Hw. apply hyps_r_from_app in Hh.
  destruct (run2_refines c ls1 q_init ghost_init (inv2_init c) Hc Hw Hh) as (_ & A & B).
  unfold s. rewrite B, A. split; reflexivity.
Qed.
