(* Invariant of every queue record over ALL label sequences (C20 core, and the
   hypothesis of the refusal theorem):
     - the length counter the broker reports (queue.declare-ok / purge-ok /
       delete-ok / get-ok message-count) equals the number of ready messages,
     - so does the `ready` metric,
     - a queue that has consumers has been consumed (auto-delete bookkeeping),
     - every queue in the table is active. *)
From Coq Require Import List String NArith ZArith Bool Lia.
From RecordUpdate Require Import RecordUpdate.
Import ListNotations.
From GMQ Require Import Broker.Model Proofs.BrokerFrames.
Open Scope N_scope.

Definition qinv (qu : queue) : Prop :=
  q_len qu = Z.of_nat (List.length (q_ready qu)) /\
  q_mready qu = Z.of_nat (List.length (q_ready qu)) /\
  (q_consumers qu <> [] -> q_wasconsumed qu = true) /\
  q_active qu = true.

Notation QI := (allq qinv).

Ltac qinv_solve :=
  unfold qinv, call_consumers in *; cbn in *;
  repeat match goal with
         | |- context [if ?b then _ else _] => destruct b eqn:?; cbn in *
         | H : _ /\ _ |- _ => destruct H
         end;
  repeat split; cbn in *; rewrite ?app_length in *; cbn in *; try lia; try congruence; auto.

Ltac same_queues := first
  [ eapply allq_same_queues; [first
      [ apply queues_set_chan | apply queues_upd_chan | apply queues_upd_msg | apply queues_ensure_chan
      | apply queues_add_confirm | apply queues_store_windows | apply queues_wake_consumer | apply queues_wake_consumers ] | ]
  | match goal with |- allq _ (@set _ _ _ _ _ ?s) => apply (allq_same_queues _ s); [reflexivity|] end ].

(* goal: QI (e) where e is built from queue-preserving primitives over a state known to satisfy QI *)
Ltac sq := repeat (first [ assumption
                         | match goal with |- allq _ (if ?b then _ else _) => destruct b end
                         | match goal with |- allq _ (match ?x with _ => _ end) => destruct x end
                         | same_queues ]).

Lemma QI_wake s c h tag : QI s -> QI (fst (wake_consumer s c h tag)).
Proof. intros H. same_queues. exact H. Qed.

Lemma QI_queue_push s qn u : QI s -> QI (queue_push s qn u).
Proof.
  intros H. unfold queue_push. destruct (get_queue s qn) as [qu|] eqn:Eq; auto.
  destruct (get_msg s u) as [m|] eqn:Em; auto.
  destruct (negb (q_active qu)); auto.
  pose proof (allq_get _ _ _ _ H Eq) as Hq.
  apply allq_set_queue; [qinv_solve|]. sq.
Qed.

Lemma QI_queue_ackmsg s qn u : QI s -> QI (queue_ackmsg s qn u).
Proof.
  intros H. unfold queue_ackmsg. destruct (get_queue s qn) as [qu|] eqn:Eq; auto.
  destruct (get_msg s u) as [m|] eqn:Em; auto.
  destruct (negb (q_active qu)); auto.
  pose proof (allq_get _ _ _ _ H Eq) as Hq.
  apply allq_set_queue; [qinv_solve|]. sq.
Qed.

Lemma QI_queue_requeue s qn u : QI s -> QI (queue_requeue s qn u).
Proof.
  intros H. unfold queue_requeue. destruct (get_queue s qn) as [qu|] eqn:Eq; auto.
  destruct (negb (q_active qu)); auto.
  pose proof (allq_get _ _ _ _ H Eq) as Hq.
  apply allq_set_queue; [qinv_solve|]. sq.
  eapply allq_same_queues; [apply store_writeback_frame|exact H].
Qed.
Lemma remove_first_nonempty {A} (p : A -> bool) l : remove_first p l <> [] -> l <> [].
Proof. destruct l; simpl; congruence. Qed.

Lemma QI_queue_remove_consumer s qn c h tag : QI s -> QI (queue_remove_consumer s qn c h tag).
Proof.
  intros H. unfold queue_remove_consumer. destruct (get_queue s qn) as [qu|] eqn:Eq; auto.
  pose proof (allq_get _ _ _ _ H Eq) as Hq.
  set (cs := remove_first _ _).
  assert (Hcs : cs <> [] -> q_consumers qu <> []) by apply remove_first_nonempty.
  destruct (Nat.eqb (List.length cs) 0) eqn:En; cbn [andb].
  - destruct (q_wasconsumed (qu <| q_consumers := cs |> <| q_rr := 0%nat |> <| q_cexcl := false |>) &&
              q_autodel (qu <| q_consumers := cs |> <| q_rr := 0%nat |> <| q_cexcl := false |>)).
    + same_queues. apply allq_set_queue; auto. unfold qinv in *; cbn in *; intuition.
    + apply allq_set_queue; auto. unfold qinv in *; cbn in *; intuition.
  - apply allq_set_queue; auto. unfold qinv in *; cbn in *; intuition.
Qed.

Lemma QI_consumer_stop s c h tag : QI s -> QI (consumer_stop s c h tag).
Proof.
  intros H. unfold consumer_stop. destruct (get_chan s c h) as [ch|]; auto.
  destruct (find_consumer ch tag) as [cm|]; auto.
  destruct (c_status cm); auto; apply QI_queue_remove_consumer; sq.
Qed.

Lemma QI_dec_qos cfg s c h u : QI s -> QI (dec_qos_and_consume_next cfg s c h u).
Proof.
  intros H. unfold dec_qos_and_consume_next. destruct (get_chan s c h) as [ch|]; auto.
  same_queues. sq.
Qed.

Lemma QI_chan_ackmsg s u : QI s -> QI (chan_ackmsg s u).
Proof. intros H. unfold chan_ackmsg. destruct (origin_queue s u); [apply QI_queue_ackmsg; auto|sq]. Qed.

Lemma QI_chan_rejectmsg s u r : QI s -> QI (chan_rejectmsg s u r).
Proof.
  intros H. unfold chan_rejectmsg. destruct (origin_queue s u).
  - destruct r; [apply QI_queue_requeue|apply QI_queue_ackmsg]; auto.
  - sq.
Qed.

Lemma QI_handle_reject cfg s c h tag mult requeue cls mth :
  QI s -> QI (fst (handle_reject cfg s c h tag mult requeue cls mth)).
Proof.
  intros H. unfold handle_reject. destruct (get_chan s c h) as [ch|]; auto.
  destruct mult.
  - cbn [fst]. apply fold_left_preserves; [intros; apply QI_dec_qos; auto|].
    apply fold_left_preserves; auto. intros s0 a H0. apply QI_chan_rejectmsg. sq.
  - destruct (find _ _); cbn [fst]; auto. apply QI_dec_qos. apply QI_chan_rejectmsg. sq.
Qed.

Lemma QI_handle_ack cfg s c h tag mult : QI s -> QI (fst (handle_ack cfg s c h tag mult)).
Proof.
  intros H. unfold handle_ack. destruct (get_chan s c h) as [ch|]; auto.
  destruct mult.
  - cbn [fst]. apply fold_left_preserves; [intros; apply QI_dec_qos; auto|].
    apply fold_left_preserves; auto. intros s0 a H0. apply QI_chan_ackmsg. sq.
  - destruct (find _ _); cbn [fst]; auto. apply QI_dec_qos. apply QI_chan_ackmsg. sq.
Qed.

Lemma QI_channel_close cfg s c h : QI s -> QI (channel_close cfg s c h).
Proof.
  intros H. unfold channel_close. destruct (get_chan s c h) as [ch|]; auto.
  same_queues.
  assert (H1 : QI (upd_chan (fold_left (fun s cm => consumer_stop s c h (c_tag cm)) (ch_consumers ch) s) c h
                     (fun ch => ch <| ch_consumers := [] |>))).
  { same_queues. apply fold_left_preserves; auto. intros; apply QI_consumer_stop; auto. }
  destruct (0 <? h); auto. apply QI_handle_reject; auto.
Qed.

Lemma QI_consumer_cancel s x : QI s -> QI (fst (consumer_cancel s x)).
Proof. destruct x as [[c h] tag]. simpl. apply QI_consumer_stop. Qed.

Lemma QI_cancel_fold l : forall s evs, QI s ->
  QI (fst (fold_left (fun acc x => let '(s, evs) := acc in let '(s', e) := consumer_cancel s x in (s', evs ++ e)) l (s, evs))).
Proof.
  induction l as [|x t IH]; intros s evs H; simpl; auto.
  destruct (consumer_cancel s x) as [s' e] eqn:Ec. apply IH.
  replace s' with (fst (consumer_cancel s x)) by (rewrite Ec; reflexivity). apply QI_consumer_cancel; auto.
Qed.

Lemma QI_vhost_delete_queue s qn iu ie :
  QI s -> QI (fst (fst (vhost_delete_queue false s qn iu ie))).
Proof.
  intros H. unfold vhost_delete_queue. destruct (get_queue s qn) as [qu|] eqn:Eq; auto.
  destruct (_ || _); auto.
  pose proof (QI_cancel_fold (q_consumers qu) s [] H) as Hf.
  destruct (fold_left _ (q_consumers qu) (s, [])) as [s1 e1]. cbn [fst] in *.
  apply allq_del_queue.
  assert (H2 : QI (if q_durable qu then s1 <| st_db ::= filter (fun k => negb (seqb (snd k) qn)) |> else s1)) by sq.
  sq.
Qed.

(* ---- consumer turn, queue loop ---- *)
Lemma fst_pair {A B} (p : A * B) a b : p = (a, b) -> a = fst p.
Proof. intros ->. reflexivity. Qed.

Lemma allq_upd_queue_at (P : queue -> Prop) s qn f qu :
  get_queue s qn = Some qu -> P (f qu) -> allq P s -> allq P (upd_queue s qn f).
Proof. intros Hg Hp H. unfold upd_queue. rewrite Hg. apply allq_set_queue; auto. Qed.

Lemma get_queue_same_queues s s' qn : queues s' = queues s -> get_queue s' qn = get_queue s qn.
Proof. unfold get_queue. intros ->. reflexivity. Qed.

Lemma qinv_pop qu u rest : qinv qu -> q_ready qu = u :: rest -> qinv (popped rest qu).
Proof.
  unfold qinv. intros (A & B & C & D) E. rewrite q_ready_popped, q_len_popped, q_mready_popped.
  destruct (popped_keeps rest qu) as (_ & _ & _ & _ & _ & -> & -> & _ & -> & _). rewrite E in *. cbn in *. repeat split; auto; lia.
Qed.

(* metric-only updates of a queue record keep qinv *)
Ltac metric_upd := apply allq_upd_queue; [intros q0 Hq0; unfold qinv in *; cbn in *; tauto|].

Lemma QI_consumer_turn cfg fx s c h tag : QI s -> QI (fst (consumer_turn cfg fx s c h tag)).
Proof.
  intros H. unfold consumer_turn.
  destruct (get_chan s c h) as [ch|]; auto.
  destruct (find_consumer ch tag) as [cm|]; auto.
  destruct (negb (c_token cm)); auto.
  set (s0 := set_chan s c h _). assert (H0 : QI s0) by (subst s0; sq).
  assert (E0 : queues s0 = queues s) by (subst s0; apply queues_set_chan).
  clearbody s0.
  destruct (c_status cm); auto.
  all: destruct (get_queue s0 (c_queue cm)) as [qu|] eqn:Eq; auto.
  all: destruct (negb (q_active qu)); auto.
  all: destruct (q_ready qu) as [|u rest] eqn:Er; auto.
  all: pose proof (allq_get _ _ _ _ H0 Eq) as Hq.
  all: match goal with |- context [if c_noack ?cm0 then (Some [], []) else ?r] => destruct (if c_noack cm0 then (Some [], []) else r) as [okr ws] end.
  all: set (s1 := if c_noack cm then s0 else store_windows cfg s0 c h tag ws).
  all: assert (H1 : QI s1) by (subst s1; sq).
  all: assert (E1 : get_queue s1 (c_queue cm) = Some qu)
         by (subst s1; destruct (c_noack cm); auto; rewrite (get_queue_same_queues s0); auto; apply queues_store_windows).
  all: clearbody s1.
  all: destruct okr; cbn [fst]; auto.
  all: match goal with |- context [wake_consumer ?st ?c0 ?h0 ?tag0] => destruct (wake_consumer st c0 h0 tag0) as [s9 b9] eqn:Ew;
         apply fst_pair in Ew; cbn [fst]; subst s9; apply QI_wake end.
  all: same_queues.
  all: assert (H2 : QI (upd_queue s1 (c_queue cm) (popped rest)))
         by (eapply allq_upd_queue_at; eauto; eapply qinv_pop; eauto).
  all: destruct (c_noack cm).
  all: repeat (first [ metric_upd | same_queues | apply QI_queue_ackmsg | assumption
                     | match goal with |- allq _ (if ?b then _ else _) => destruct b end ]).
Qed.

Lemma QI_queue_loop_turn s qn : QI s -> QI (queue_loop_turn s qn).
Proof.
  intros H. unfold queue_loop_turn. destruct (get_queue s qn) as [qu|] eqn:Eq; auto.
  destruct (negb (q_call qu)); auto.
  pose proof (allq_get _ _ _ _ H Eq) as Hq.
  assert (H1 : QI (set_queue s qn (qu <| q_call := false |>))) by (apply allq_set_queue; auto; unfold qinv in *; cbn; tauto).
  destruct (Nat.eqb _ 0); auto.
  apply allq_upd_queue; [intros q0 Hq0; unfold qinv in *; cbn; tauto|].
  apply fold_left_preserves; auto. intros s0 [[c h] tag] H0. apply QI_wake; auto.
Qed.

(* ---- publish ---- *)
Lemma QI_route_and_push fx s c h u : QI s -> QI (fst (route_and_push fx s c h u)).
Proof.
  intros H. unfold route_and_push. destruct (get_msg s u) as [m|]; auto.
  destruct (alookup _ _ _) as [ex|]; cbn [fst]; [|sq].
  destruct (matched_queues _ _ _) as [|q1 qs]; cbn [fst]; [sq|].
  apply fold_left_preserves.
  - intros s0 qn H0. assert (H1 : QI (queue_push s0 qn u)) by (apply QI_queue_push; auto). unfold push_one. sq.
  - sq.
Qed.

Lemma QI_finish_publish fx s c h u : QI s -> QI (fst (finish_publish fx s c h u)).
Proof.
  intros H. unfold finish_publish. pose proof (QI_route_and_push fx s c h u H) as H1.
  destruct (route_and_push fx s c h u) as [s1 e1]. cbn [fst] in *. sq.
Qed.

(* ---- method handlers ---- *)
Lemma qinv_new i c d e a : qinv (new_queue i c d e a).
Proof. unfold qinv, new_queue; cbn. repeat split; auto; congruence. Qed.

Lemma queue_found_get s qn qu : queue_found s qn = Some qu -> get_queue s qn = Some qu.
Proof. unfold queue_found. destruct (get_queue s qn) as [q|]; [|discriminate]. destruct (q_active q); congruence. Qed.

Ltac qm_leaf :=
  cbn [fst];
  repeat (first [ assumption
                | match goal with |- allq _ (if ?b then _ else _) => destruct b end
                | match goal with |- allq _ (match ?x with _ => _ end) => destruct x end
                | same_queues ]).

Lemma QI_handle_method cfg fx s c h m :
  fx_delete_checks_first fx = true ->
  QI s -> QI (fst (fst (handle_method cfg fx s c h m))).
Proof.
  intros Hfx H. unfold handle_method.
  destruct (get_chan s c h) as [ch|] eqn:Hch; [|exact H].
  destruct m; unfold ok, refuse.
  - (* MChannelOpen *) destruct (ch_status ch); qm_leaf.
  - (* MChannelClose *) cbn [fst]. apply QI_channel_close. exact H.
  - (* MChannelCloseOk *) cbn [fst]. destruct (fx_closeok_releases fx); [apply QI_channel_close|]; sq.
  - (* MChannelFlow *) cbn [fst]. destruct (Bool.eqb _ _); [exact H|]. destruct a; sq.
  - (* MExDeclare *) destruct (extype_of type); [|exact H].
    repeat match goal with |- context [if ?b then _ else _] => destruct b end; qm_leaf.
    all: repeat match goal with |- context [match ?x with _ => _ end] => destruct x end; qm_leaf.
  - (* MExDelete *) destruct (fx_not_impl fx); exact H.
  - (* MQDeclare *)
    destruct (seqb name ""); [exact H|].
    destruct (queue_found s name) as [qu|] eqn:Ef.
    + repeat match goal with |- context [if ?b then _ else _] => destruct b end; qm_leaf.
    + destruct passive; [destruct nowait; exact H|]. cbn [fst].
      same_queues. apply allq_set_queue; [apply qinv_new|sq].
  - (* MQBind *)
    destruct (alookup _ _ _); [|exact H]. destruct (seqb ex ""); [exact H|].
    destruct (queue_found s q); [|exact H]. destruct (locked _ _); [exact H|]. destruct (bad_xmatch _); [exact H|]. destruct (extype_eqb _ ExTopic && bad_pattern _)%bool; [exact H|]. cbn [fst]. sq.
  - (* MQUnbind *)
    destruct (alookup _ _ _); [|exact H]. destruct (queue_found s q); [|exact H]. destruct (locked _ _); [exact H|]. destruct (bad_xmatch _); [exact H|]. destruct (extype_eqb _ ExTopic && bad_pattern _)%bool; [exact H|]. cbn [fst]. sq.
  - (* MQPurge *)
    destruct (queue_found s q) as [qu|] eqn:Ef; [|exact H]. destruct (locked _ _); [exact H|]. cbn [fst].
    apply queue_found_get in Ef. pose proof (allq_get _ _ _ _ H Ef) as Hq.
    apply allq_set_queue; [|sq].
    unfold qinv in *; cbn. destruct Hq as (A & B & C & D). repeat split; auto; lia.
  - (* MQDelete *)
    destruct (queue_found s q); [|exact H]. destruct (locked _ _); [exact H|].
    rewrite Hfx. cbn [negb].
    pose proof (QI_vhost_delete_queue s q ifunused ifempty H) as Hd.
    destruct (vhost_delete_queue false s q ifunused ifempty) as [[s1 e1] r1]. cbn [fst] in *.
    destruct r1; exact Hd.
  - (* MQos *) cbn [fst]. same_queues. sq.
  - (* MPublish *)
    destruct imm; [exact H|]. destruct (alookup _ _ _); [|exact H].
    destruct (if ch_confirm ch then _ else _) as [conf ch']. cbn [fst]. sq.
  - (* MConsume *)
    destruct (queue_found s q) as [qu|] eqn:Ef; [|exact H].
    apply queue_found_get in Ef. pose proof (allq_get _ _ _ _ H Ef) as Hq.
    destruct (fx_excl_owner fx && locked qu c); [exact H|].
    destruct (find_consumer ch _); [exact H|].
    destruct (_ && _)%bool; cbn [fst].
    + apply allq_set_queue; [|exact H]. unfold qinv in *; cbn. tauto.
    + destruct (seqb tag ""%string); repeat same_queues; (apply allq_set_queue; [|exact H]);
        destruct excl; unfold qinv, call_consumers in *; cbn;
        destruct Hq as (A & B & C & D); rewrite ?D; cbn; repeat split; auto.
  - (* MCancel *)
    destruct (find_consumer ch tag); [|exact H]. cbn [fst]. repeat same_queues. apply QI_consumer_stop. exact H.
  - (* MGet *)
    destruct (queue_found s q) as [qu|] eqn:Ef; [|exact H].
    apply queue_found_get in Ef. pose proof (allq_get _ _ _ _ H Ef) as Hq.
    destruct (fx_excl_owner fx && locked qu c); [exact H|].
    destruct (q_ready qu) as [|u rest] eqn:Er; [exact H|].
    match goal with |- context [if noack then (Some [], []) else ?r] => destruct (if noack then (Some [], []) else r) as [okr ws] end.
    set (s1 := match ws with [w1; w2] => _ | _ => s end).
    assert (H1 : QI s1) by (subst s1; sq).
    assert (E1 : get_queue s1 q = Some qu).
    { subst s1. destruct ws as [|w1 [|w2 [|]]]; auto.
      destruct (get_conn _ _); rewrite (get_queue_same_queues s); auto; cbn; rewrite ?queues_set_chan; auto. }
    clearbody s1.
    destruct okr; cbn [fst]; [|exact H1].
    same_queues.
    assert (H2 : QI (upd_queue s1 q (popped rest)))
      by (eapply allq_upd_queue_at; eauto; eapply qinv_pop; eauto).
    destruct noack.
    all: repeat (first [ metric_upd | same_queues | apply QI_queue_ackmsg | assumption
                       | match goal with |- allq _ (if ?b then _ else _) => destruct b end ]).
  - (* MAck *)
    pose proof (QI_handle_ack cfg s c h tag mult H) as Ha.
    destruct (handle_ack cfg s c h tag mult) as [s1 e1]. exact Ha.
  - (* MNack *)
    pose proof (QI_handle_reject cfg s c h tag mult requeue 60 120 H) as Ha.
    destruct (handle_reject cfg s c h tag mult requeue 60 120) as [s1 e1]. exact Ha.
  - (* MReject *)
    pose proof (QI_handle_reject cfg s c h tag false requeue 60 90 H) as Ha.
    destruct (handle_reject cfg s c h tag false requeue 60 90) as [s1 e1]. exact Ha.
  - (* MRecover *) exact H.
  - (* MConfirmSelect *) cbn [fst]. sq.
  - (* MTxSelect *) destruct (fx_not_impl fx); exact H.
  - (* MConnClose *) exact H.
  - (* MConnCloseOk *) exact H.
  - (* MStartOk *) destruct good; [cbn [fst]; eapply allq_same_queues; [apply queues_set_stage|exact H]|exact H].
  - (* MTuneOk *) destruct within; [cbn [fst]; eapply allq_same_queues; [apply queues_set_stage|exact H]|exact H].
  - (* MConnOpen *) destruct vhost_ok; [cbn [fst]; eapply allq_same_queues; [apply queues_set_stage|exact H]|exact H].
Qed.

(* ---- teardown, step, run ---- *)
Lemma QI_delete_fold l : forall s evs, QI s ->
  QI (fst (fold_left (fun acc qn => let '(s, evs) := acc in
                                    let '(s', e, _) := vhost_delete_queue false s qn false false in (s', evs ++ e)) l (s, evs))).
Proof.
  induction l as [|x t IH]; intros s evs H; simpl; auto.
  pose proof (QI_vhost_delete_queue s x false false H) as Hd.
  destruct (vhost_delete_queue false s x false false) as [[s1 e1] r1]. cbn [fst] in Hd. apply IH. exact Hd.
Qed.

Lemma QI_conn_close cfg fx s c : fx_delete_checks_first fx = true -> QI s -> QI (fst (conn_close cfg fx s c)).
Proof.
  intros Hfx H. unfold conn_close. destruct (get_conn s c) as [cn|]; [|exact H].
  rewrite Hfx. cbn [negb].
  set (s1 := fold_left _ _ s).
  assert (H1 : QI s1) by (subst s1; apply fold_left_preserves; auto; intros; apply QI_channel_close; auto).
  clearbody s1.
  pose proof (QI_delete_fold (map fst (filter (fun kv => q_excl (snd kv) && (q_owner (snd kv) =? c)) (queues s1))) s1 [] H1) as Hd.
  destruct (fold_left _ _ (s1, [])) as [s2 e2]. cbn [fst] in *. sq.
Qed.

Lemma QI_apply_err s c h r : QI (fst (fst r)) -> QI (fst (apply_err s c h r)).
Proof.
  destruct r as [[s1 e1] [e|]]; cbn [fst]; auto.
  intros H. unfold apply_err. destruct (send_error s1 c h e) as [s2 e2] eqn:Es.
  apply fst_pair in Es. subst s2. cbn [fst]. eapply allq_same_queues; [apply queues_send_error|exact H].
Qed.

Lemma QI_apply_err_st cfg fx opened s c h r : fx_delete_checks_first fx = true -> QI (fst (fst r)) -> QI (fst (apply_err_st cfg fx opened s c h r)).
Proof.
  intros Hfx H. unfold apply_err_st. destruct opened; [apply QI_apply_err; auto|].
  destruct (snd r) as [[| ]|]; try (apply QI_apply_err; auto).
  pose proof (QI_apply_err s c h r H) as H1. destruct (apply_err s c h r) as [s1 e1]. cbn [fst] in H1.
  pose proof (QI_conn_close cfg fx s1 c Hfx H1) as H2. destruct (conn_close cfg fx s1 c) as [s2 e2]. exact H2.
Qed.

Theorem QI_step cfg fx s l : fx_delete_checks_first fx = true -> QI s -> QI (fst (step cfg fx s l)).
Proof.
  intros Hfx H. destruct l; cbn [step].
  - (* LConnect *) destruct (get_conn s c); cbn [fst]; sq.
  - (* LMethod *)
    destruct (get_conn s c) as [cn0|]; [|exact H].
    destruct (negb _ && negb _)%bool; [apply QI_conn_close; auto|].
    assert (H0 : QI (ensure_chan s c h)) by sq.
    destruct m.
    all: try (repeat match goal with |- context [if ?b then _ else _] => destruct b end;
              first [ exact H0 | apply QI_apply_err; first [ apply QI_handle_method; auto | exact H0 ] | apply QI_apply_err_st; auto; first [ apply QI_handle_method; auto | exact H0 ] ]).
    + (* MConnClose *)
      destruct (fx_stage fx && negb (h =? 0)); [apply QI_apply_err; exact H0|].
      pose proof (QI_conn_close cfg fx _ c Hfx H0) as Hc.
      destruct (conn_close cfg fx (ensure_chan s c h) c) as [s1 e1]. exact Hc.
    + (* MConnCloseOk *)
      destruct (fx_stage fx && negb (h =? 0)); [apply QI_apply_err; exact H0|].
      apply QI_conn_close; auto.
  - (* LHeader *)
    destruct (get_conn s c) as [cn0|]; [|exact H].
    destruct (negb _ && negb _)%bool; [apply QI_conn_close; auto|].
    assert (H0 : QI (ensure_chan s c h)) by sq.
    destruct (get_chan _ c h) as [ch|]; [|exact H0].
    destruct (_ && _)%bool; [exact H0|].
    destruct (ch_cur ch) as [u|]; [|apply QI_apply_err_st; auto].
    destruct (get_msg _ u) as [m|]; [|exact H0].
    destruct (m_has_header m); [apply QI_apply_err_st; auto|].
    destruct (_ && _)%bool; [apply QI_finish_publish|]; sq.
  - (* LBody *)
    destruct (get_conn s c) as [cn0|]; [|exact H].
    destruct (negb _ && negb _)%bool; [apply QI_conn_close; auto|].
    assert (H0 : QI (ensure_chan s c h)) by sq.
    destruct (get_chan _ c h) as [ch|]; [|exact H0].
    destruct (_ && _)%bool; [exact H0|].
    destruct (ch_cur ch) as [u|]; [|apply QI_apply_err_st; auto].
    destruct (get_msg _ u) as [m|]; [|exact H0].
    destruct (negb (m_has_header m)); [apply QI_apply_err_st; auto|].
    destruct (_ <? _); [apply QI_apply_err_st; auto; cbn [fst]; sq|].
    destruct (_ <? _); [|apply QI_finish_publish]; sq.
  - (* LConsumerTurn *) apply QI_consumer_turn; auto.
  - (* LQueueLoop *) cbn [fst]. apply QI_queue_loop_turn; auto.
  - (* LAutoDelete *)
    destruct (autodel s) as [|qn rest]; [exact H|].
    rewrite Hfx. cbn [negb].
    assert (H0 : QI (s <| autodel := rest |>)) by sq.
    destruct (get_queue _ qn) as [qu0|]; [|exact H0]. destruct (q_autodel qu0); [|exact H0].
    pose proof (QI_vhost_delete_queue _ qn true false H0) as Hd.
    destruct (vhost_delete_queue false (s <| autodel := rest |>) qn true false) as [[s1 e1] r1]. exact Hd.
  - (* LPersistTick *)
    cbn [fst]. apply fold_left_preserves.
    + intros s0 k H0. eapply allq_same_queues; [apply queues_store_confirm|exact H0].
    + sq.
  - (* LRelay *)
    destruct (relay s) as [|u rest]; [exact H|].
    destruct (get_msg _ u) as [m|]; cbn [fst]; [|sq].
    destruct (m_conf m) as [[[? ?] ?]|]; cbn [fst]; sq.
  - (* LConfirmTick *)
    destruct (get_chan s c h) as [ch|]; [|exact H]. destruct (negb _); [exact H|].
    destruct (ch_status ch); cbn [fst]; sq.
  - (* LSocketLoss *)
    pose proof (QI_conn_close cfg fx s c Hfx H) as Hc.
    destruct (conn_close cfg fx s c) as [s1 e1]. exact Hc.
  - (* LAccept *) destruct (get_conn s c); cbn [fst]; sq.
  - (* LBadMethod *)
    destruct (get_conn s c) as [cn0|]; [|exact H].
    destruct (negb _ && negb _)%bool; [apply QI_conn_close; auto|].
    apply QI_apply_err_st; auto. cbn [fst]. sq.
  - (* LHeartbeat *)
    destruct (get_conn s c); [|exact H]. destruct (h =? 0); [exact H|apply QI_conn_close; auto].
  - (* LRestart *)
    unfold restart. cbn [fst]. intros qn qu Hin. cbn [queues] in Hin. apply in_map_iff in Hin.
    destruct Hin as ([qn0 qu0] & E & _). inversion E; subst. unfold qinv, new_queue. cbn. repeat split; congruence.
Qed.

Lemma QI_init cfg : QI (init cfg).
Proof. intros qn qu Hin. simpl in Hin. contradiction. Qed.

Theorem QI_run cfg fx ls : forall s, fx_delete_checks_first fx = true -> QI s -> QI (fst (run cfg fx s ls)).
Proof.
  induction ls as [|l t IH]; intros s Hfx H; simpl; auto.
  pose proof (QI_step cfg fx s l Hfx H) as H1.
  destruct (step cfg fx s l) as [s1 e1]. cbn [fst] in H1.
  specialize (IH s1 Hfx H1). destruct (run cfg fx s1 t) as [s2 e2]. exact IH.
Qed.

(* every reachable state *)
Theorem queue_invariant_reachable cfg fx ls qn qu :
  fx_delete_checks_first fx = true ->
  get_queue (fst (run cfg fx (init cfg) ls)) qn = Some qu ->
  q_len qu = Z.of_nat (List.length (q_ready qu)) /\
  q_mready qu = Z.of_nat (List.length (q_ready qu)) /\
  (q_consumers qu <> [] -> q_wasconsumed qu = true) /\
  q_active qu = true.
Proof.
  intros Hfx Hg. exact (allq_get _ _ _ _ (QI_run cfg fx ls (init cfg) Hfx (QI_init cfg)) Hg).
Qed.
