(* Lemmas about Data/Reframe.v: re-cutting keeps every byte in order, respects the receiver's frame-max, produces no
   empty frame out of a non-empty one, and is the identity where the stored frame already fits or no limit applies. *)
From Coq Require Import List NArith Bool Lia ZifyN ZifyNat ZifyBool Arith.
Import ListNotations.
From GMQ Require Import Broker.gen.BrokerGen Data.Reframe.
Local Open Scope N_scope.

Definition sumN (l : list N) : N := fold_right N.add 0 l.

Lemma sumN_app l1 l2 : sumN (l1 ++ l2) = sumN l1 + sumN l2.
Proof. induction l1 as [|x l1 IH]; cbn [sumN fold_right app] in *; [reflexivity|]. fold (sumN (l1 ++ l2)) (sumN l1). rewrite IH. lia. Qed.

(* whatever the fuel, no byte is lost or invented *)
Lemma recut_loop_sum fuel : forall maxp len, sumN (recut_loop fuel maxp len) = len.
Proof.
  induction fuel as [|f IH]; intros maxp len; cbn [recut_loop].
  - cbn. lia.
  - destruct ((0 <? maxp) && (maxp <? len)) eqn:E.
    + cbn [sumN fold_right]. fold (sumN (recut_loop f maxp (len - maxp))). rewrite IH.
      apply andb_true_iff in E. destruct E as [_ E2]. apply N.ltb_lt in E2. lia.
    + cbn. lia.
Qed.

(* with enough fuel every piece respects the limit *)
Lemma recut_loop_bounded fuel : forall maxp len,
  0 < maxp -> len <= maxp * (N.of_nat fuel + 1) -> Forall (fun x => x <= maxp) (recut_loop fuel maxp len).
Proof.
  induction fuel as [|f IH]; intros maxp len Hp Hl; cbn [recut_loop].
  - constructor; [|constructor]. cbn in Hl. lia.
  - destruct ((0 <? maxp) && (maxp <? len)) eqn:E.
    + apply andb_true_iff in E. destruct E as [_ E2]. apply N.ltb_lt in E2.
      constructor; [lia|]. apply IH; [exact Hp|]. lia.
    + apply andb_false_iff in E. constructor; [|constructor].
      destruct E as [E|E]; [apply N.ltb_ge in E; lia | apply N.ltb_ge in E; exact E].
Qed.

Lemma recut_loop_positive fuel : forall maxp len, 0 < len -> Forall (fun x => 0 < x) (recut_loop fuel maxp len).
Proof.
  induction fuel as [|f IH]; intros maxp len Hl; cbn [recut_loop].
  - constructor; [exact Hl|constructor].
  - destruct ((0 <? maxp) && (maxp <? len)) eqn:E.
    + apply andb_true_iff in E. destruct E as [E1 E2]. apply N.ltb_lt in E1. apply N.ltb_lt in E2.
      constructor; [exact E1|]. apply IH. lia.
    + constructor; [exact Hl|constructor].
Qed.

Lemma recut_loop_fits fuel maxp len : maxp = 0 \/ len <= maxp -> recut_loop fuel maxp len = [len].
Proof.
  intros H. destruct fuel as [|f]; cbn [recut_loop]; [reflexivity|].
  destruct ((0 <? maxp) && (maxp <? len)) eqn:E; [|reflexivity].
  apply andb_true_iff in E. destruct E as [E1 E2]. apply N.ltb_lt in E1. apply N.ltb_lt in E2. lia.
Qed.

(* more fuel than needed changes nothing: the fuel of `recut` is not what stops the loop *)
Lemma recut_loop_more_fuel f1 : forall f2 maxp len,
  0 < maxp -> len <= maxp * (N.of_nat f1 + 1) -> (f1 <= f2)%nat -> recut_loop f2 maxp len = recut_loop f1 maxp len.
Proof.
  induction f1 as [|f1 IH]; intros f2 maxp len Hp Hl Hf.
  - cbn [recut_loop]. apply recut_loop_fits. right. cbn in Hl. lia.
  - destruct f2 as [|f2]; [lia|]. cbn [recut_loop].
    destruct ((0 <? maxp) && (maxp <? len)) eqn:E; [|reflexivity].
    apply andb_true_iff in E. destruct E as [_ E2]. apply N.ltb_lt in E2.
    f_equal. apply IH; [exact Hp| |lia]. lia.
Qed.

Lemma recut_fuel_enough maxp len : 0 < maxp -> len <= maxp * (N.of_nat (N.to_nat (len / maxp)) + 1).
Proof.
  intros Hp. rewrite N2Nat.id. pose proof (N.div_mod len maxp ltac:(lia)) as D.
  pose proof (N.mod_lt len maxp ltac:(lia)) as M. lia.
Qed.

Lemma recut_sum maxp len : sumN (recut maxp len) = len.
Proof. unfold recut. apply recut_loop_sum. Qed.

Lemma recut_bounded maxp len : 0 < maxp -> Forall (fun x => x <= maxp) (recut maxp len).
Proof.
  intros Hp. unfold recut. assert (E : (0 <? maxp) = true) by (apply N.ltb_lt; exact Hp). rewrite E.
  apply recut_loop_bounded; [exact Hp|]. apply recut_fuel_enough. exact Hp.
Qed.

Lemma recut_positive maxp len : 0 < len -> Forall (fun x => 0 < x) (recut maxp len).
Proof. intros H. unfold recut. apply recut_loop_positive. exact H. Qed.

Lemma recut_fits maxp len : maxp = 0 \/ len <= maxp -> recut maxp len = [len].
Proof. intros H. unfold recut. apply recut_loop_fits. exact H. Qed.

Lemma max_payload_spec fmax : reframe_guard < fmax -> reframe_overhead <= reframe_guard ->
  0 < max_payload fmax /\ wire_size (max_payload fmax) = fmax - reframe_overhead + 8.
Proof.
  intros Hg Ho. unfold max_payload, wire_size. assert (E : (reframe_guard <? fmax) = true) by (apply N.ltb_lt; exact Hg).
  rewrite E. split; lia.
Qed.

(* ---- whole messages *)
Lemma reframe_sum fmax stored : sumN (reframe fmax stored) = sumN stored.
Proof.
  unfold reframe. induction stored as [|x xs IH]; cbn [flat_map]; [reflexivity|].
  rewrite sumN_app, recut_sum, IH. reflexivity.
Qed.

Lemma Forall_flat_map {A B} (P : B -> Prop) (f : A -> list B) l : (forall a, In a l -> Forall P (f a)) -> Forall P (flat_map f l).
Proof.
  induction l as [|a l IH]; intros H; cbn [flat_map]; [constructor|].
  apply Forall_app. split; [apply H; left; reflexivity | apply IH; intros b Hb; apply H; right; exact Hb].
Qed.

Lemma reframe_within_frame_max fmax stored :
  reframe_guard < fmax -> reframe_overhead = 8 -> reframe_guard = 8 ->
  Forall (fun n => wire_size n <= fmax) (reframe fmax stored).
Proof.
  intros Hg Ho Hgd. unfold reframe. apply Forall_flat_map. intros len _.
  assert (Hp : 0 < max_payload fmax) by (apply max_payload_spec; lia).
  pose proof (recut_bounded (max_payload fmax) len Hp) as B.
  eapply Forall_impl; [|exact B]. intros n Hn. cbv beta in *. unfold wire_size.
  unfold max_payload in *. assert (E : (reframe_guard <? fmax) = true) by (apply N.ltb_lt; exact Hg). rewrite E in *. lia.
Qed.

Lemma reframe_no_empty_frames fmax stored : Forall (fun n => 0 < n) stored -> Forall (fun n => 0 < n) (reframe fmax stored).
Proof.
  intros H. unfold reframe. apply Forall_flat_map. intros len Hin. apply recut_positive.
  rewrite Forall_forall in H. apply H. exact Hin.
Qed.

(* a receiver whose limit every stored frame respects (same or larger frame-max than the publisher's), or that
   negotiated no limit of its own, gets the stored frames unchanged *)
Lemma reframe_identity fmax stored :
  (fmax <= reframe_guard \/ Forall (fun n => n <= max_payload fmax) stored) -> reframe fmax stored = stored.
Proof.
  intros H. unfold reframe. induction stored as [|x xs IH]; cbn [flat_map]; [reflexivity|].
  rewrite recut_fits.
  - cbn [app]. f_equal. apply IH. destruct H as [H|H]; [left; exact H|right; inversion H; assumption].
  - destruct H as [H|H].
    + left. unfold max_payload. assert (E : (reframe_guard <? fmax) = false) by (apply N.ltb_ge; exact H). rewrite E. reflexivity.
    + right. inversion H; assumption.
Qed.

(* ---- byte level: the pieces are the payload, in order *)
Lemma cut_bytes_concat {A} fuel : forall maxp (body : list A), concat (cut_bytes fuel maxp body) = body.
Proof.
  induction fuel as [|f IH]; intros maxp body; cbn [cut_bytes].
  - cbn. apply app_nil_r.
  - destruct (Nat.ltb 0 maxp && Nat.ltb maxp (length body)); cbn [concat].
    + rewrite IH. apply firstn_skipn.
    + apply app_nil_r.
Qed.

Lemma cut_bytes_lengths {A} fuel : forall maxp (body : list A),
  map (fun p => N.of_nat (length p)) (cut_bytes fuel maxp body) = recut_loop fuel (N.of_nat maxp) (N.of_nat (length body)).
Proof.
  induction fuel as [|f IH]; intros maxp body; cbn [cut_bytes recut_loop]; [reflexivity|].
  assert (E : (Nat.ltb 0 maxp && Nat.ltb maxp (length body)) = ((0 <? N.of_nat maxp) && (N.of_nat maxp <? N.of_nat (length body)))).
  { f_equal.
    - destruct (Nat.ltb_spec 0 maxp), (N.ltb_spec 0 (N.of_nat maxp)); try reflexivity; lia.
    - destruct (Nat.ltb_spec maxp (length body)), (N.ltb_spec (N.of_nat maxp) (N.of_nat (length body))); try reflexivity; lia. }
  rewrite <- E. destruct (Nat.ltb 0 maxp && Nat.ltb maxp (length body)) eqn:C; cbn [map]; [|reflexivity].
  apply andb_true_iff in C. destruct C as [_ C2]. apply Nat.ltb_lt in C2.
  rewrite IH. rewrite firstn_length, skipn_length. f_equal; [lia|]. f_equal. lia.
Qed.

(* ---- the statements of Props/C13_reframe.v in the form it closes them with `exact` *)
Lemma reframe_within_frame_max_gen fmax stored : 8 < fmax -> Forall (fun n => wire_size n <= fmax) (reframe fmax stored).
Proof. intros H. exact (reframe_within_frame_max fmax stored H eq_refl eq_refl). Qed.

Lemma cut_bytes_spec (fuel maxp : nat) (body : list N) :
  concat (cut_bytes fuel maxp body) = body /\
  map (fun p => N.of_nat (length p)) (cut_bytes fuel maxp body) = recut_loop fuel (N.of_nat maxp) (N.of_nat (length body)).
Proof. split; [exact (cut_bytes_concat fuel maxp body) | exact (cut_bytes_lengths fuel maxp body)]. Qed.

Lemma recut_fuel_is_enough maxp len f2 : 0 < maxp -> (N.to_nat (len / maxp) <= f2)%nat -> recut_loop f2 maxp len = recut maxp len.
Proof.
  intros Hp Hf. unfold recut. assert (E : (0 <? maxp) = true) by (apply N.ltb_lt; exact Hp). rewrite E.
  exact (recut_loop_more_fuel _ f2 maxp len Hp (recut_fuel_enough maxp len Hp) Hf).
Qed.
