(* C13: content-bearing methods are followed, on their channel, by their header and body frames with nothing in
   between - at the granularity of the model (one sender at a time per channel; see DESIGN.md for what is partial). *)
From Coq Require Import List String NArith ZArith Bool Lia.
From RecordUpdate Require Import RecordUpdate.
Import ListNotations.
From GMQ Require Import Broker.Model Proofs.BrokerFrames Proofs.BrokerChanInv.
Open Scope N_scope.

(* the content frames of a message: one header, then its body frames, all on the same channel, all of that message *)
Definition content_block (c h : N) (evs : list event) : Prop :=
  evs = [] \/ exists mid size pers body, evs = (c, h, SHeader mid size pers) :: map (fun l => (c, h, SBody mid l)) body.

Lemma content_frames_block s c h u : content_block c h (content_frames s c h u).
Proof. unfold content_block, content_frames. destruct (get_msg s u) as [m|]; [right; eauto|left; auto]. Qed.

(* ... whose body frames carry exactly the announced number of bytes when the message is complete *)
Definition msg_complete (m : msg) : Prop := m_hsize m = fold_left N.add (m_body m) 0.

Lemma content_frames_sizes s c h u m :
  get_msg s u = Some m -> msg_complete m ->
  content_frames s c h u = (c, h, SHeader (m_mid m) (m_hsize m) (m_pers m)) :: map (fun l => (c, h, SBody (m_mid m) l)) (m_body m) /\
  m_hsize m = fold_left N.add (m_body m) 0.
Proof. intros Hm Hc. unfold content_frames. rewrite Hm. auto. Qed.

(* a consumer turn emits nothing, or ONE basic.deliver immediately followed by the content frames of ONE message,
   everything on the consumer's channel *)
Theorem consumer_turn_emits_one_block cfg fx s c h tag :
  let evs := snd (consumer_turn cfg fx s c h tag) in
  evs = [] \/ exists d r ex k rest, evs = (c, h, SDeliver tag d r ex k) :: rest /\ content_block c h rest.
Proof.
  cbv zeta. unfold consumer_turn.
  destruct (get_chan s c h) as [ch|]; auto.
  destruct (find_consumer ch tag) as [cm|]; auto.
  destruct (negb (c_token cm)); auto.
  destruct (c_status cm); auto.
  all: match goal with |- context [get_queue ?st ?q] => destruct (get_queue st q) as [qu|]; auto end.
  all: destruct (negb (q_active qu)); auto.
  all: destruct (q_ready qu) as [|u rest]; auto.
  all: match goal with |- context [if c_noack ?cm0 then (Some [], []) else ?r] => destruct (if c_noack cm0 then (Some [], []) else r) as [okr ws] end.
  all: destruct okr; auto.
  all: match goal with |- context [wake_consumer ?st ?c0 ?h0 ?tag0] => destruct (wake_consumer st c0 h0 tag0) as [s9 b9] end.
  all: cbn [snd].
  all: match goal with |- match ?m with Some _ => _ | None => [] end = [] \/ _ => destruct m as [mm|]; auto end.
  all: right; cbn [out1 app]; do 5 eexists; split; [reflexivity|apply content_frames_block].
Qed.

(* basic.get: one get-ok followed by the content block, or get-empty, or a refusal with nothing emitted *)
Theorem get_emits_one_block cfg fx s c h q noack :
  let evs := snd (fst (handle_method cfg fx s c h (MGet q noack))) in
  evs = [] \/ evs = [(c, h, SGetEmpty)] \/
  exists d r ex k mc rest, evs = (c, h, SGetOk d r ex k mc) :: rest /\ content_block c h rest.
Proof.
  cbv zeta. unfold handle_method. destruct (get_chan s c h) as [ch|]; auto.
  unfold ok, refuse.
  destruct (queue_found s q) as [qu|]; auto.
  destruct (fx_excl_owner fx && locked qu c); auto.
  destruct (q_ready qu) as [|u rest]; auto.
  match goal with |- context [if noack then (Some [], []) else ?r] => destruct (if noack then (Some [], []) else r) as [okr ws] end.
  destruct okr; cbn [fst snd]; auto.
  match goal with |- match ?m with Some _ => _ | None => _ end = [] \/ _ => destruct m as [mm|] end.
  - right; right. cbn [out1 app]. do 6 eexists. split; [reflexivity|apply content_frames_block].
  - right; right. cbn [out1]. do 6 eexists. split; [reflexivity|left; reflexivity].
Qed.

(* publishing: the only frames a publish can emit on the publisher's channel are ONE basic.return with its content
   block (unroutable + mandatory, or unknown exchange) *)
Theorem publish_emits_at_most_one_return fx s c h u :
  let evs := snd (route_and_push fx s c h u) in
  evs = [] \/ exists code ex k rest, evs = (c, h, SReturn code ex k) :: rest /\ content_block c h rest.
Proof.
  cbv zeta. unfold route_and_push. destruct (get_msg s u) as [m|]; auto.
  destruct (alookup _ _ _) as [e|]; cbn [snd].
  - destruct (matched_queues _ _ _); cbn [snd]; auto.
    destruct (m_mand m); auto. right. cbn [out1 app]. do 4 eexists. split; [reflexivity|apply content_frames_block].
  - right. cbn [out1 app]. do 4 eexists. split; [reflexivity|apply content_frames_block].
Qed.

(* a confirm tick emits only basic.ack frames, one per queued confirm *)
Theorem confirm_tick_emits_acks cfg fx s c h :
  Forall (fun e => exists t, e = (c, h, SAck t false)) (snd (step cfg fx s (LConfirmTick c h))).
Proof.
  cbn [step]. destruct (get_chan s c h) as [ch|]; [|constructor]. destruct (negb _); [constructor|].
  destruct (ch_status ch); cbn [snd]; try constructor;
    (apply Forall_forall; intros e He; apply in_map_iff in He; destruct He as (t & Et & _); eauto).
Qed.

(* once the connection is gone nothing more is emitted for it by a teardown *)
Theorem teardown_ends_with_socket_close cfg fx s c cn :
  get_conn s c = Some cn -> exists evs, snd (conn_close cfg fx s c) = evs ++ [(c, 0, SConnGone)].
Proof.
  intros Ec. unfold conn_close. rewrite Ec. destruct (fold_left _ _ (_, [])) as [s2 e2]. cbn [snd]. eauto.
Qed.
