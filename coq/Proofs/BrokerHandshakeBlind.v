(* C10 over all label sequences, continued (Proofs/BrokerHandshakeAll.v): the labels that do not name a connection c
   do the same to the state with and without the record of an unopened c.  This file: the functions of the model up to the
   consumer turn; Proofs/BrokerHandshakeBlind2.v: the method handlers, the step function, and the theorem. *)
From Coq Require Import List String NArith ZArith Bool Lia Permutation.
From RecordUpdate Require Import RecordUpdate.
Import ListNotations.
From GMQ Require Import Broker.Model Proofs.BrokerFrames Proofs.BrokerTags Proofs.BrokerChanInv Proofs.BrokerRelease
  Proofs.BrokerHandshake Proofs.BrokerHeld Proofs.BrokerQueueInv Proofs.BrokerRestart Proofs.BrokerLedger Proofs.BrokerLedger2
  Proofs.BrokerConserveView Proofs.BrokerConserveOps Proofs.BrokerConserve Proofs.BrokerHandshakeAll.
Open Scope N_scope.

(* ------------------------------------------------------------------ *)
(* Part 11: the labels that do not name c are blind to the record of an unopened c: F (erase c s) = erase c (F s) for
   every function F of the model that a label not naming c runs *)
Definition erp {A} (c : N) (r : state * A) : state * A := (erase c (fst r), snd r).
Definition erp3 {A B} (c : N) (r : state * A * B) : state * A * B := (erase c (fst (fst r)), snd (fst r), snd r).

Lemma adel_aset_ne {V} (k k' : N) (v : V) l : k' <> k -> adel N.eqb k (aset N.eqb k' v l) = aset N.eqb k' v (adel N.eqb k l).
Proof.
  intros Hn. induction l as [|[k0 v0] t IH]; cbn.
  - destruct (k =? k') eqn:E; [apply N.eqb_eq in E; congruence|reflexivity].
  - destruct (k' =? k0) eqn:E1; cbn.
    + apply N.eqb_eq in E1. subst k0. destruct (k =? k') eqn:E2; [apply N.eqb_eq in E2; congruence|]. cbn. rewrite N.eqb_refl. reflexivity.
    + destruct (k =? k0) eqn:E2; cbn; [exact IH|]. rewrite E1, IH. reflexivity.
Qed.
Lemma adel_adel {V} (k k' : N) (l : list (N * V)) : adel N.eqb k (adel N.eqb k' l) = adel N.eqb k' (adel N.eqb k l).
Proof.
  induction l as [|[k0 v0] t IH]; cbn; auto.
  destruct (k' =? k0) eqn:E1; destruct (k =? k0) eqn:E2; cbn; rewrite ?E1, ?E2, ?IH; reflexivity.
Qed.

Section Erase.
Variable c : N.

Lemma get_queue_E s q : get_queue (erase c s) q = get_queue s q. Proof. reflexivity. Qed.
Lemma get_msg_E s u : get_msg (erase c s) u = get_msg s u. Proof. reflexivity. Qed.
Lemma msg_size_E s u : msg_size (erase c s) u = msg_size s u. Proof. reflexivity. Qed.
Lemma queue_found_E s q : queue_found (erase c s) q = queue_found s q. Proof. reflexivity. Qed.
Lemma qid_of_E s q : qid_of (erase c s) q = qid_of s q. Proof. reflexivity. Qed.
Lemma origin_queue_E s u : origin_queue (erase c s) u = origin_queue s u. Proof. reflexivity. Qed.
Lemma content_frames_E s c' h u : content_frames (erase c s) c' h u = content_frames s c' h u. Proof. reflexivity. Qed.
Lemma eff_tag_E s t : eff_tag (erase c s) t = eff_tag s t. Proof. reflexivity. Qed.
Lemma queues_E s : queues (erase c s) = queues s. Proof. reflexivity. Qed.
Lemma exchanges_E s : exchanges (erase c s) = exchanges s. Proof. reflexivity. Qed.
Lemma heap_E s : heap (erase c s) = heap s. Proof. reflexivity. Qed.
Lemma next_uid_E s : next_uid (erase c s) = next_uid s. Proof. reflexivity. Qed.
Lemma next_cid_E s : next_cid (erase c s) = next_cid s. Proof. reflexivity. Qed.
Lemma next_qid_E s : next_qid (erase c s) = next_qid s. Proof. reflexivity. Qed.
Lemma next_gen_E s : next_gen (erase c s) = next_gen s. Proof. reflexivity. Qed.
Lemma autodel_E s : autodel (erase c s) = autodel s. Proof. reflexivity. Qed.
Lemma relay_E s : relay (erase c s) = relay s. Proof. reflexivity. Qed.
Lemma st_add_E s : st_add (erase c s) = st_add s. Proof. reflexivity. Qed.
Lemma st_db_E s : st_db (erase c s) = st_db s. Proof. reflexivity. Qed.
Lemma st_del_E s : st_del (erase c s) = st_del s. Proof. reflexivity. Qed.

Lemma get_conn_E s c' : c' <> c -> get_conn (erase c s) c' = get_conn s c'.
Proof.
  intros Hn. unfold get_conn, erase. cbn. rewrite (alookup_adel N.eqb Neqb_spec).
  destruct (c' =? c) eqn:E; auto. apply N.eqb_eq in E. congruence.
Qed.
Lemma get_conn_E_self s : get_conn (erase c s) c = None.
Proof. unfold get_conn, erase. cbn. rewrite (alookup_adel N.eqb Neqb_spec), N.eqb_refl. reflexivity. Qed.
Lemma get_chan_E s c' h : c' <> c -> get_chan (erase c s) c' h = get_chan s c' h.
Proof. intros Hn. unfold get_chan. rewrite get_conn_E; auto. Qed.
Lemma get_chan_E_self s h : get_chan (erase c s) c h = None.
Proof. unfold get_chan. rewrite get_conn_E_self. reflexivity. Qed.
Lemma E_aset s c' x : c' <> c -> (erase c s) <| conns := aset N.eqb c' x (conns (erase c s)) |> = erase c (s <| conns := aset N.eqb c' x (conns s) |>).
Proof. intros Hn. unfold erase. cbn. rewrite adel_aset_ne; auto. Qed.
Lemma E_adel s c' : (erase c s) <| conns := adel N.eqb c' (conns (erase c s)) |> = erase c (s <| conns := adel N.eqb c' (conns s) |>).
Proof. unfold erase. cbn. rewrite adel_adel. reflexivity. Qed.

Lemma set_chan_E s c' h ch : c' <> c -> set_chan (erase c s) c' h ch = erase c (set_chan s c' h ch).
Proof. intros Hn. unfold set_chan. rewrite get_conn_E; auto. destruct (get_conn s c'); [apply E_aset; auto|reflexivity]. Qed.
Lemma upd_chan_E s c' h f : c' <> c -> upd_chan (erase c s) c' h f = erase c (upd_chan s c' h f).
Proof. intros Hn. unfold upd_chan. rewrite get_chan_E; auto. destruct (get_chan s c' h); [apply set_chan_E; auto|reflexivity]. Qed.
Lemma set_stage_E s c' st : c' <> c -> set_stage (erase c s) c' st = erase c (set_stage s c' st).
Proof. intros Hn. unfold set_stage. rewrite get_conn_E; auto. destruct (get_conn s c'); [apply E_aset; auto|reflexivity]. Qed.
Lemma ensure_chan_E s c' h : c' <> c -> ensure_chan (erase c s) c' h = erase c (ensure_chan s c' h).
Proof.
  intros Hn. unfold ensure_chan. rewrite get_conn_E; auto. destruct (get_conn s c'); [|reflexivity].
  destruct (alookup _ _ _); [reflexivity|apply E_aset; auto].
Qed.
Lemma set_queue_E s q v : set_queue (erase c s) q v = erase c (set_queue s q v). Proof. reflexivity. Qed.
Lemma upd_queue_E s q f : upd_queue (erase c s) q f = erase c (upd_queue s q f).
Proof. unfold upd_queue. rewrite get_queue_E. destruct (get_queue s q); reflexivity. Qed.
Lemma upd_msg_E s u f : upd_msg (erase c s) u f = erase c (upd_msg s u f).
Proof. unfold upd_msg. rewrite get_msg_E. destruct (get_msg s u); reflexivity. Qed.

Hint Rewrite get_queue_E get_msg_E msg_size_E queue_found_E qid_of_E origin_queue_E content_frames_E eff_tag_E
  queues_E exchanges_E heap_E next_uid_E next_cid_E next_qid_E next_gen_E autodel_E relay_E st_add_E st_db_E st_del_E
  set_queue_E upd_queue_E upd_msg_E : er.
Hint Rewrite get_conn_E get_chan_E set_chan_E upd_chan_E set_stage_E ensure_chan_E using assumption : er.

(* push the eraser outwards through the updates of fields other than conns *)
Ltac epush := repeat match goal with |- context [set ?p ?f (erase c ?st)] => change (set p f (erase c st)) with (erase c (set p f st)) end.
Ltac ego := repeat first [ progress autorewrite with er | progress epush | progress (unfold erp, erp3) | progress cbn [fst snd] ].
Ltac esplit := match goal with
  | |- context [match ?x with _ => _ end] => lazymatch x with context [erase] => fail | _ => destruct x eqn:? end
  | |- context [if ?b then _ else _] => lazymatch b with context [erase] => fail | _ => destruct b eqn:? end
  end.
Ltac esolve := ego; repeat (esplit; ego); try reflexivity.

Lemma store_writeback_E s qn u d : store_writeback (erase c s) qn u d = erase c (store_writeback s qn u d).
Proof. unfold store_writeback. esolve. Qed.
Lemma store_purge_E s qn : store_purge (erase c s) qn = erase c (store_purge s qn).
Proof. reflexivity. Qed.
Lemma queue_push_E s qn u : queue_push (erase c s) qn u = erase c (queue_push s qn u).
Proof. unfold queue_push. esolve. Qed.
Lemma queue_ackmsg_E s qn u : queue_ackmsg (erase c s) qn u = erase c (queue_ackmsg s qn u).
Proof. unfold queue_ackmsg. esolve. Qed.
Hint Rewrite store_writeback_E store_purge_E queue_push_E queue_ackmsg_E : er.
Lemma queue_requeue_E s qn u : queue_requeue (erase c s) qn u = erase c (queue_requeue s qn u).
Proof. unfold queue_requeue. esolve. Qed.
Lemma queue_remove_consumer_E s qn c' h tag : queue_remove_consumer (erase c s) qn c' h tag = erase c (queue_remove_consumer s qn c' h tag).
Proof. unfold queue_remove_consumer. esolve. Qed.
Hint Rewrite queue_requeue_E queue_remove_consumer_E : er.
Lemma chan_ackmsg_E s u : chan_ackmsg (erase c s) u = erase c (chan_ackmsg s u).
Proof. unfold chan_ackmsg. esolve. Qed.
Lemma chan_rejectmsg_E s u r : chan_rejectmsg (erase c s) u r = erase c (chan_rejectmsg s u r).
Proof. unfold chan_rejectmsg. esolve. Qed.
Lemma store_confirm_E s u : store_confirm (erase c s) u = erase c (store_confirm s u).
Proof. unfold store_confirm. esolve. Qed.
Hint Rewrite chan_ackmsg_E chan_rejectmsg_E store_confirm_E : er.

Lemma fold_E {A} (f : state -> A -> state) l : (forall s x, In x l -> f (erase c s) x = erase c (f s x)) ->
  forall s, fold_left f l (erase c s) = erase c (fold_left f l s).
Proof.
  induction l as [|a t IH]; intros Hf s; cbn; auto. rewrite Hf by (left; reflexivity). apply IH. intros s0 x Hx. apply Hf. right. exact Hx.
Qed.

Section EOther.
Variable c' : N.
Hypothesis Hn : c' <> c.

Lemma wake_consumer_E s h tag : wake_consumer (erase c s) c' h tag = erp c (wake_consumer s c' h tag).
Proof. unfold wake_consumer. esolve. Qed.
Lemma consumer_stop_E s h tag : consumer_stop (erase c s) c' h tag = erase c (consumer_stop s c' h tag).
Proof. unfold consumer_stop. esolve. Qed.
Lemma wake_all_E s h : wake_all_of_chan (erase c s) c' h = erase c (wake_all_of_chan s c' h).
Proof. unfold wake_all_of_chan. esolve. Qed.
Hint Rewrite wake_consumer_E consumer_stop_E wake_all_E : er.
Lemma wake_consumers_E cfg s h : wake_consumers cfg (erase c s) c' h = erase c (wake_consumers cfg s c' h).
Proof.
  unfold wake_consumers. ego. destruct (cfg_rabbit cfg); [reflexivity|]. destruct (get_conn _ c'); [|reflexivity].
  apply fold_E. intros s0 x _. destruct (fst x =? h); ego; reflexivity.
Qed.
Hint Rewrite wake_consumers_E : er.
Lemma E_set_qos s cn x : get_conn s c' = Some cn ->
  (erase c s) <| conns := aset N.eqb c' x (conns (erase c s)) |> = erase c (s <| conns := aset N.eqb c' x (conns s) |>).
Proof. intros _. apply E_aset. exact Hn. Qed.
Lemma dec_qos_E cfg s h u : dec_qos_and_consume_next cfg (erase c s) c' h u = erase c (dec_qos_and_consume_next cfg s c' h u).
Proof.
  unfold dec_qos_and_consume_next. ego. destruct (get_chan s c' h) as [ch|]; [|reflexivity].
  destruct (find_consumer ch (u_ctag u)); [destruct (cfg_rabbit cfg)|]; ego; try reflexivity.
  all: destruct (get_conn _ c'); [|ego; reflexivity]; rewrite E_aset by exact Hn; ego; reflexivity.
Qed.
Hint Rewrite dec_qos_E : er.
End EOther.

Lemma cancel_fold_E l : forall s evs, (forall x, In x l -> fst (fst x) <> c) ->
  fold_left (fun acc x => let '(s, evs) := acc in let '(s', e) := consumer_cancel s x in (s', evs ++ e)) l (erase c s, evs) =
  erp c (fold_left (fun acc x => let '(s, evs) := acc in let '(s', e) := consumer_cancel s x in (s', evs ++ e)) l (s, evs)).
Proof.
  induction l as [|[[c0 h] tag] t IH]; intros s evs Hl; [reflexivity|]. cbn [fold_left consumer_cancel].
  rewrite (consumer_stop_E c0 (Hl (c0, h, tag) (or_introl eq_refl))). apply IH. intros x Hx. apply Hl. right. exact Hx.
Qed.

Lemma vhost_delete_queue_E b s qn iu ie : noreg c s ->
  vhost_delete_queue b (erase c s) qn iu ie = erp3 c (vhost_delete_queue b s qn iu ie).
Proof.
  intros Hnr. unfold vhost_delete_queue. ego. destruct (get_queue s qn) as [qu|] eqn:Eq; [|reflexivity].
  destruct (_ || _); [destruct b; reflexivity|].
  rewrite (cancel_fold_E (q_consumers qu) s [] (allq_get _ _ _ _ Hnr Eq)).
  destruct (fold_left _ (q_consumers qu) (s, [])) as [s1 e1]. unfold erp. cbn [fst snd]. ego. destruct (q_durable qu); ego; reflexivity.
Qed.

Lemma delete_fold_E b l : forall s evs, noreg c s ->
  fold_left (fun acc qn => let '(s, evs) := acc in let '(s', e, _) := vhost_delete_queue b s qn false false in (s', evs ++ e)) l (erase c s, evs) =
  erp c (fold_left (fun acc qn => let '(s, evs) := acc in let '(s', e, _) := vhost_delete_queue b s qn false false in (s', evs ++ e)) l (s, evs)).
Proof.
  induction l as [|x t IH]; intros s evs Hnr; [reflexivity|]. cbn [fold_left].
  rewrite (vhost_delete_queue_E b s x false false Hnr).
  pose proof (RS_vhost_delete_queue _ (noregq_shrink c) b s x false false Hnr) as Hd.
  destruct (vhost_delete_queue b s x false false) as [[s1 e1] r1]. unfold erp3. cbn [fst snd] in *. apply IH. exact Hd.
Qed.

Lemma queue_loop_turn_E s qn : noreg c s -> queue_loop_turn (erase c s) qn = erase c (queue_loop_turn s qn).
Proof.
  intros Hnr. unfold queue_loop_turn. ego. destruct (get_queue s qn) as [qu|] eqn:Eq; [|reflexivity].
  destruct (negb _); [reflexivity|]. destruct (Nat.eqb _ 0); [reflexivity|]. ego.
  rewrite fold_E; [ego; reflexivity|]. intros s0 [[c0 h] tag] Hx.
  rewrite (wake_consumer_E c0 (allq_get _ _ _ _ Hnr Eq (c0, h, tag) Hx)). reflexivity.
Qed.

Lemma add_confirm_E s c' h t : c' <> c -> add_confirm (erase c s) c' h t = erase c (add_confirm s c' h t).
Proof. intros Hn. unfold add_confirm. esolve. Qed.

(* c has no channel other than channel 0 *)
Definition only0 (s : state) : Prop := forall h, h <> 0 -> get_chan s c h = None.
Lemma live_conf_E s m : only0 s -> (forall c2 h2 t, m_conf m = Some (c2, h2, t) -> h2 <> 0) -> live_conf (erase c s) m = live_conf s m.
Proof.
  intros Ho Hm. unfold live_conf. destruct (m_conf m) as [[[c2 h2] t]|] eqn:Ec; [|reflexivity].
  destruct (N.eq_dec c2 c) as [->|Hne]; [|rewrite get_chan_E; auto].
  rewrite get_chan_E_self, (Ho h2 (Hm c h2 t eq_refl)). reflexivity.
Qed.
Lemma only0_same s s' : get_conn s' c = get_conn s c -> only0 s -> only0 s'.
Proof. intros E H h Hh. unfold get_chan. rewrite E. apply H. exact Hh. Qed.
Lemma only0_quiet s : quiet s c -> only0 s.
Proof.
  intros Hq h Hh. destruct (get_chan s c h) as [ch|] eqn:E; auto. destruct (quiet_chan _ _ _ _ Hq E) as [-> _]. congruence.
Qed.

Section EOther2.
Variable c' : N.
Hypothesis Hn : c' <> c.
Hint Rewrite (wake_consumer_E c' Hn) (consumer_stop_E c' Hn) (wake_all_E c' Hn) (wake_consumers_E c' Hn) (dec_qos_E c' Hn) : er.
Hint Rewrite add_confirm_E using assumption : er.

Lemma handle_reject_E cfg s h tag mult requeue cls mth :
  handle_reject cfg (erase c s) c' h tag mult requeue cls mth = erp c (handle_reject cfg s c' h tag mult requeue cls mth).
Proof.
  unfold handle_reject. ego. destruct (get_chan s c' h) as [ch|]; [|reflexivity]. destruct mult.
  - rewrite fold_E by (intros; ego; reflexivity). rewrite fold_E by (intros; ego; reflexivity). reflexivity.
  - destruct (find _ _); ego; reflexivity.
Qed.
Lemma handle_ack_E cfg s h tag mult :
  handle_ack cfg (erase c s) c' h tag mult = erp c (handle_ack cfg s c' h tag mult).
Proof.
  unfold handle_ack. ego. destruct (get_chan s c' h) as [ch|]; [|reflexivity]. destruct mult.
  - rewrite fold_E by (intros; ego; reflexivity). rewrite fold_E by (intros; ego; reflexivity). reflexivity.
  - destruct (find _ _); ego; reflexivity.
Qed.
Hint Rewrite handle_reject_E handle_ack_E : er.
Lemma channel_close_E cfg s h : channel_close cfg (erase c s) c' h = erase c (channel_close cfg s c' h).
Proof.
  unfold channel_close. ego. destruct (get_chan s c' h) as [ch|]; [|reflexivity].
  rewrite fold_E by (intros; ego; reflexivity). ego. destruct (0 <? h); ego; reflexivity.
Qed.
Hint Rewrite channel_close_E : er.
Lemma window_list_E cfg s h cm : window_list cfg (erase c s) c' h cm = window_list cfg s c' h cm.
Proof. unfold window_list. ego. reflexivity. Qed.
Lemma store_windows_E cfg s h tag ws : store_windows cfg (erase c s) c' h tag ws = erase c (store_windows cfg s c' h tag ws).
Proof.
  unfold store_windows. destruct ws as [|w1 [|w2 [|]]]; try reflexivity. ego. destruct (cfg_rabbit cfg); ego; [reflexivity|].
  destruct (get_conn _ c'); [|reflexivity]. rewrite E_aset by exact Hn. reflexivity.
Qed.
Hint Rewrite window_list_E store_windows_E : er.

(* one binding at a time: [let x := a in G x] on both sides, a state (a = erase c a') or not (a = a') *)
Ltac ego0 := repeat first [ progress autorewrite with er | progress epush ].
Ltac psolve := ego0; try reflexivity; cbv zeta; ego0; try reflexivity; repeat (esplit; ego0); reflexivity.
Ltac peel := lazymatch goal with
  | |- (let x := ?a in @?G x) = erp c (let y := ?a' in @?G' y) =>
      first
      [ let H := fresh "Hp" in
        assert (H : a = erase c a') by psolve;
        let G1 := eval cbv beta in (G a) in let G2 := eval cbv beta in (G' a') in
        change (G1 = erp c G2); rewrite H; clear H;
        let s1 := fresh "s" in generalize a'; intro s1
      | let H := fresh "Hp" in
        assert (H : a = a') by psolve;
        let G1 := eval cbv beta in (G a) in let G2 := eval cbv beta in (G' a') in
        change (G1 = erp c G2); try rewrite H; clear H;
        let x1 := fresh "x" in generalize a'; intro x1 ]
  end.
Ltac leaf := unfold erp; cbn [fst snd]; reflexivity.

Lemma consumer_turn_E cfg fx s h tag : consumer_turn cfg fx (erase c s) c' h tag = erp c (consumer_turn cfg fx s c' h tag).
Proof.
  cbv beta delta [consumer_turn]. rewrite (get_chan_E s c' h Hn).
  destruct (get_chan s c' h) as [ch|]; [|reflexivity].
  destruct (find_consumer ch tag) as [cm|]; [|reflexivity].
  destruct (negb (c_token cm)); [reflexivity|]. cbv iota.
  peel.
  destruct (c_status cm); cbv iota; try leaf.
  all: rewrite get_queue_E; match goal with |- context [get_queue ?st ?q] => destruct (get_queue st q) as [qu|] end; cbv iota; [|leaf].
  all: destruct (negb (q_active qu)); cbv iota; [leaf|].
  all: destruct (q_ready qu) as [|u rest]; cbv iota; [leaf|].
  all: peel.
  all: ego0; match goal with |- context [if c_noack ?cm0 then (Some [], []) else ?r] => destruct (if c_noack cm0 then (Some [], []) else r) as [okr ws] end; cbv iota.
  all: peel.
  all: destruct okr; cbv iota; [|leaf].
  all: repeat peel.
  all: ego0; match goal with |- context [wake_consumer ?st ?c0 ?h0 ?tag0] => destruct (wake_consumer st c0 h0 tag0) as [s9 b9] end; leaf.
Qed.

(* the publish path reads confirm metas: they name no channel of c (channel 0 excluded by DI, the others by only0) *)
Definition PJ (s : state) : Prop := only0 s /\ DI s.
Lemma only0_set_chan s h ch : only0 s -> only0 (set_chan s c' h ch).
Proof.
  intros H. apply (only0_same s); auto. unfold set_chan. destruct (get_conn s c'); auto.
  unfold get_conn. cbn. rewrite (alookup_aset N.eqb Neqb_spec). destruct (c =? c') eqn:E; auto. apply N.eqb_eq in E. congruence.
Qed.
Lemma PJ_queue_push s qn u : PJ s -> PJ (queue_push s qn u).
Proof.
  intros [A B]. split; [|eapply DI_ceq; [apply ceq_queue_push|exact B]].
  apply (only0_same s); auto. unfold get_conn. rewrite (proj1 conns_queue_ops). reflexivity.
Qed.
Lemma PJ_add_confirm s h t : PJ s -> PJ (add_confirm s c' h t).
Proof.
  intros [A B]. split; [|eapply DI_ceq; [apply ceq_hn, hn_add_confirm|exact B]].
  unfold add_confirm. destruct (get_chan s c' h) as [ch|]; auto. destruct (negb _); auto.
  destruct (ch_status ch); auto; destruct t as [[[? ?] ?]|]; auto; apply only0_set_chan; auto.
Qed.
Lemma PJ_upd_msg s u f : (forall m, m_conf (f m) = m_conf m) -> PJ s -> PJ (upd_msg s u f).
Proof.
  intros Hf [A B]. split; [|eapply DI_ceq; [apply ceq_upd_msg; exact Hf|exact B]].
  apply (only0_same s); auto. unfold get_conn. rewrite conns_upd_msg. reflexivity.
Qed.
Lemma live_conf_PJ s u m : PJ s -> get_msg s u = Some m -> live_conf (erase c s) m = live_conf s m.
Proof. intros [A B] Hg. apply live_conf_E; auto. intros c2 h2 t E. eapply B; eauto. Qed.

Lemma push_one_E s h u pers hm qn : PJ s ->
  push_one (erase c s) c' h u pers hm qn = erase c (push_one s c' h u pers hm qn) /\ PJ (push_one s c' h u pers hm qn).
Proof.
  intros J. unfold push_one. ego. pose proof (PJ_queue_push s qn u J) as J1.
  destruct (get_msg (queue_push s qn u) u) as [m|] eqn:Em; [|auto].
  destruct (_ && _ && _)%bool; [|auto].
  rewrite (live_conf_PJ _ u m J1 Em). ego. split; [reflexivity|apply PJ_add_confirm; exact J1].
Qed.
Lemma push_fold_E h u pers hm qs : forall s, PJ s ->
  fold_left (fun s qn => push_one s c' h u pers hm qn) qs (erase c s) = erase c (fold_left (fun s qn => push_one s c' h u pers hm qn) qs s).
Proof.
  induction qs as [|q t IH]; intros s J; [reflexivity|]. cbn [fold_left].
  destruct (push_one_E s h u pers hm q J) as [E J1]. rewrite E. apply IH. exact J1.
Qed.
Lemma route_and_push_E fx s h u : PJ s -> route_and_push fx (erase c s) c' h u = erp c (route_and_push fx s c' h u).
Proof.
  intros J. unfold route_and_push. ego. destruct (get_msg s u) as [m|] eqn:Em; [|reflexivity].
  rewrite (live_conf_PJ s u m J Em).
  destruct (alookup _ _ _) as [ex|]; [|ego; reflexivity].
  destruct (matched_queues _ _ _) as [|q1 qs]; [ego; reflexivity|].
  match goal with |- context [if ?b then upd_msg _ _ _ else _] => destruct b end; ego; rewrite push_fold_E; try reflexivity; auto.
  apply PJ_upd_msg; auto.
Qed.
Lemma finish_publish_E fx s h u : PJ s -> finish_publish fx (erase c s) c' h u = erp c (finish_publish fx s c' h u).
Proof.
  intros J. unfold finish_publish. rewrite (route_and_push_E fx s h u J).
  destruct (route_and_push fx s c' h u) as [s1 e1]. unfold erp. cbn [fst snd]. destruct (fx_clear_current fx); ego; reflexivity.
Qed.

Lemma send_error_E s h e : send_error (erase c s) c' h e = erp c (send_error s c' h e).
Proof. destruct e; cbn [send_error]; ego; reflexivity. Qed.
Lemma apply_err_E s0 s1 h r : apply_err s0 c' h (erp3 c r) = erp c (apply_err s1 c' h r).
Proof.
  destruct r as [[s2 e2] [e|]]; unfold erp3, apply_err; cbn [fst snd]; [|reflexivity].
  rewrite send_error_E. destruct (send_error s2 c' h e) as [s3 e3]. reflexivity.
Qed.

Hint Rewrite E_aset using assumption : er.
Ltac leaf3 := unfold erp3, erp, ok, refuse; cbn [fst snd]; reflexivity.

Ltac peel3 := lazymatch goal with
  | |- (let x := ?a in @?G x) = erp3 c (let y := ?a' in @?G' y) =>
      first
      [ let H := fresh "Hp" in
        assert (H : a = erase c a') by psolve;
        let G1 := eval cbv beta in (G a) in let G2 := eval cbv beta in (G' a') in
        change (G1 = erp3 c G2); rewrite H; clear H;
        let s1 := fresh "s" in generalize a'; intro s1
      | let H := fresh "Hp" in
        assert (H : a = a') by psolve;
        let G1 := eval cbv beta in (G a) in let G2 := eval cbv beta in (G' a') in
        change (G1 = erp3 c G2); try rewrite H; clear H;
        let x1 := fresh "x" in generalize a'; intro x1 ]
  end.

Lemma handle_method_E cfg fx s h m : noreg c s ->
  handle_method cfg fx (erase c s) c' h m = erp3 c (handle_method cfg fx s c' h m).
Proof.
  intros Hnr. cbv beta delta [handle_method]. rewrite (get_chan_E s c' h Hn).
  destruct (get_chan s c' h) as [ch|] eqn:Hch; [|reflexivity].
  destruct m.
  16:{ (* basic.get *)
    ego0. destruct (queue_found s q) as [qu|]; cbv iota; [|leaf3].
    destruct (fx_excl_owner fx && locked qu c'); cbv iota; [leaf3|].
    destruct (q_ready qu) as [|u rest]; cbv iota; [leaf3|].
    peel3. peel3.
    match goal with |- context [if noack then (Some [], []) else ?r] => destruct (if noack then (Some [], []) else r) as [okr ws] end; cbv iota.
    peel3. destruct okr; cbv iota; [|leaf3].
    repeat peel3. leaf3. }
  11:{ (* queue.delete *)
    ego. destruct (queue_found s q); [|leaf3]. destruct (locked _ _); [leaf3|].
    rewrite (vhost_delete_queue_E (negb (fx_delete_checks_first fx)) s q ifunused ifempty Hnr).
    destruct (vhost_delete_queue _ s q ifunused ifempty) as [[s1 e1] r1]. unfold erp3. cbn [fst snd]. destruct r1; leaf3. }
  all: unfold ok, refuse; cbv zeta; ego.
  all: repeat (esplit; ego); unfold erp3; cbn [fst snd]; reflexivity.
Qed.

Lemma conn_close_E cfg fx s : noreg c s -> conn_close cfg fx (erase c s) c' = erp c (conn_close cfg fx s c').
Proof.
  intros Hnr. unfold conn_close. rewrite (get_conn_E s c' Hn). destruct (get_conn s c') as [cn|]; [|reflexivity].
  rewrite fold_E by (intros; apply channel_close_E).
  set (s1 := fold_left _ _ s).
  assert (H1 : noreg c s1).
  { subst s1. apply fold_left_preserves; auto. intros s0 h0 H0. apply RS_channel_close; auto. apply noregq_shrink. }
  clearbody s1. rewrite queues_E.
  rewrite (delete_fold_E (negb (fx_delete_checks_first fx)) _ s1 [] H1).
  destruct (fold_left _ _ (s1, [])) as [s2 e2]. unfold erp. cbn [fst snd]. rewrite E_adel. reflexivity.
Qed.
Lemma apply_err_st_E cfg fx opened s0 s1 h r : noreg c (fst (fst r)) ->
  apply_err_st cfg fx opened s0 c' h (erp3 c r) = erp c (apply_err_st cfg fx opened s1 c' h r).
Proof.
  intros Hnr. unfold apply_err_st. destruct opened; [apply apply_err_E|].
  replace (snd (erp3 c r)) with (snd r) by (destruct r as [[? ?] ?]; reflexivity).
  destruct (snd r) as [[| ]|] eqn:Er; try apply apply_err_E.
  rewrite (apply_err_E s0 s1 h r).
  assert (Hq : queues (fst (apply_err s1 c' h r)) = queues (fst (fst r))).
  { destruct r as [[s2 e2] e]. cbn [snd] in Er. subst e. reflexivity. }
  destruct (apply_err s1 c' h r) as [s2 e2]. unfold erp. cbn [fst snd] in *.
  rewrite (conn_close_E cfg fx s2 (noreg_same_queues _ _ _ Hq Hnr)). destruct (conn_close cfg fx s2 c') as [s3 e3]. reflexivity.
Qed.
Lemma refuse_E s e : refuse (erase c s) e = erp3 c (refuse s e). Proof. reflexivity. Qed.

Lemma step_generic_E cfg fx st s h m : fx_stage fx = true -> (cstage_eqb st StOpen = false -> h = 0) -> noreg c s ->
  step_generic cfg fx st (erase c s) c' h m = erp c (step_generic cfg fx st s c' h m).
Proof.
  intros Hst Hh Hnr. unfold step_generic. rewrite (get_chan_E s c' h Hn), Hst. cbn [andb].
  replace (chan_usable (erase c s) c' h) with (chan_usable s c' h) by (unfold chan_usable; rewrite (get_chan_E s c' h Hn); reflexivity).
  destruct (fx_discard_closing fx && _ && _)%bool; [reflexivity|].
  destruct (negb (Bool.eqb _ _)) eqn:E1; [rewrite refuse_E; apply apply_err_st_E; exact Hnr|].
  destruct (negb (stage_allows _ _)); [rewrite refuse_E; apply apply_err_st_E; exact Hnr|].
  destruct (_ && _ && _)%bool; [rewrite refuse_E; apply apply_err_E|].
  rewrite (handle_method_E cfg fx s h m Hnr).
  destruct (cstage_eqb st StOpen) eqn:Eo.
  - unfold apply_err_st. apply apply_err_E.
  - apply apply_err_st_E. apply noreg_handshake_method; [|exact Hnr]. rewrite (Hh eq_refl) in E1. cbn [N.eqb] in E1.
    destruct (is_conn_class m); [reflexivity|discriminate E1].
Qed.
End EOther2.

Lemma quiet_keep s s' : get_conn s' c = get_conn s c -> quiet s c -> quiet s' c.
Proof. intros E H cn Ec. apply H. rewrite <- E. exact Ec. Qed.

Lemma PJ_of s : quiet s c -> DI s -> PJ s.
Proof. intros Hq D. split; [apply only0_quiet; exact Hq|exact D]. Qed.

Theorem step_E cfg fx s l : fx_stage fx = true -> touches c l = false -> quiet s c -> noreg c s -> DI s ->
  step cfg fx (erase c s) l = erp c (step cfg fx s l).
Proof.
  intros Hst Ht Hq Hnr HD. destruct l; cbn [touches] in Ht; try discriminate;
    try (assert (Hn : c0 <> c) by (intros ->; rewrite N.eqb_refl in Ht; discriminate)).
  - (* LConnect *) cbn [step]. rewrite (get_conn_E s c0 Hn). destruct (get_conn s c0); [reflexivity|].
    unfold erp. cbn [fst snd]. rewrite (E_aset s c0 _ Hn). reflexivity.
  - (* LMethod *) cbn [step]. rewrite (get_conn_E s c0 Hn). destruct (get_conn s c0) as [cn0|]; [|reflexivity].
    destruct (negb _ && negb _)%bool eqn:E1; [apply conn_close_E; auto|].
    rewrite !(ensure_chan_E s c0 h Hn).
    assert (H0 : noreg c (ensure_chan s c0 h)) by (eapply noreg_same_queues; [apply queues_ensure_chan|exact Hnr]).
    assert (Hh : cstage_eqb (cn_stage cn0) StOpen = false -> h = 0).
    { intros E. rewrite E in E1. cbn [negb andb] in E1. apply Bool.negb_false_iff in E1. apply N.eqb_eq in E1. exact E1. }
    destruct m.
    all: try (apply (step_generic_E c0 Hn cfg fx (cn_stage cn0) (ensure_chan s c0 h) h); assumption).
    + destruct (fx_stage fx && negb (h =? 0)); [rewrite refuse_E; apply apply_err_E; exact Hn|].
      rewrite (conn_close_E c0 Hn cfg fx _ H0). destruct (conn_close cfg fx (ensure_chan s c0 h) c0) as [s1 e1]. reflexivity.
    + destruct (fx_stage fx && negb (h =? 0)); [rewrite refuse_E; apply apply_err_E; exact Hn|]. apply conn_close_E; auto.
  - (* LHeader *) cbn [step]. rewrite (get_conn_E s c0 Hn). destruct (get_conn s c0) as [cn0|] eqn:Ec0; [|reflexivity].
    destruct (negb (cstage_eqb (cn_stage cn0) StOpen) && negb (h =? 0))%bool; [apply conn_close_E; auto|].
    rewrite !(ensure_chan_E s c0 h Hn).
    assert (H0 : noreg c (ensure_chan s c0 h)) by (eapply noreg_same_queues; [apply queues_ensure_chan|exact Hnr]).
    assert (Hq0 : quiet (ensure_chan s c0 h) c) by (eapply quiet_keep; [apply (KQ_ensure_chan c s c0 h Hn Hq)|exact Hq]).
    assert (D0 : DI (ensure_chan s c0 h)) by (eapply DI_ceq; [apply ceq_hn, hn_ensure_chan|exact HD]).
    generalize dependent (ensure_chan s c0 h). intros s0 H0 Hq0 D0.
    rewrite (get_chan_E s0 c0 h Hn). destruct (get_chan s0 c0 h) as [ch|]; [|reflexivity].
    destruct (fx_discard_closing fx && match ch_status ch with ChClosing => true | _ => false end)%bool; [reflexivity|].
    destruct (ch_cur ch) as [u|]; [|rewrite refuse_E; apply apply_err_st_E; auto].
    rewrite get_msg_E. destruct (get_msg s0 u) as [m|]; [|reflexivity].
    destruct (m_has_header m); [rewrite refuse_E; apply apply_err_st_E; auto|].
    rewrite upd_msg_E. destruct (fx_empty_body fx && (size =? 0))%bool; [|reflexivity].
    apply finish_publish_E; auto. apply PJ_of; [eapply quiet_keep; [|exact Hq0]; unfold get_conn; rewrite conns_upd_msg; reflexivity|].
    eapply DI_ceq; [apply ceq_upd_msg; reflexivity|exact D0].
  - (* LBody *) cbn [step]. rewrite (get_conn_E s c0 Hn). destruct (get_conn s c0) as [cn0|] eqn:Ec0; [|reflexivity].
    destruct (negb (cstage_eqb (cn_stage cn0) StOpen) && negb (h =? 0))%bool; [apply conn_close_E; auto|].
    rewrite !(ensure_chan_E s c0 h Hn).
    assert (H0 : noreg c (ensure_chan s c0 h)) by (eapply noreg_same_queues; [apply queues_ensure_chan|exact Hnr]).
    assert (Hq0 : quiet (ensure_chan s c0 h) c) by (eapply quiet_keep; [apply (KQ_ensure_chan c s c0 h Hn Hq)|exact Hq]).
    assert (D0 : DI (ensure_chan s c0 h)) by (eapply DI_ceq; [apply ceq_hn, hn_ensure_chan|exact HD]).
    generalize dependent (ensure_chan s c0 h). intros s0 H0 Hq0 D0.
    rewrite (get_chan_E s0 c0 h Hn). destruct (get_chan s0 c0 h) as [ch|]; [|reflexivity].
    destruct (fx_discard_closing fx && match ch_status ch with ChClosing => true | _ => false end)%bool; [reflexivity|].
    destruct (ch_cur ch) as [u|]; [|rewrite refuse_E; apply apply_err_st_E; auto].
    rewrite get_msg_E. destruct (get_msg s0 u) as [m|]; [|reflexivity].
    destruct (negb (m_has_header m)); [rewrite refuse_E; apply apply_err_st_E; auto|].
    destruct (m_hsize m <? m_size m + len).
    { rewrite (upd_chan_E s0 c0 h _ Hn), refuse_E. apply apply_err_st_E; auto. cbn [fst]. eapply noreg_same_queues; [apply queues_upd_chan|exact H0]. }
    rewrite upd_msg_E. destruct (m_size m + len <? m_hsize m); [reflexivity|].
    apply finish_publish_E; auto. apply PJ_of; [eapply quiet_keep; [|exact Hq0]; unfold get_conn; rewrite conns_upd_msg; reflexivity|].
    eapply DI_ceq; [apply ceq_upd_msg; reflexivity|exact D0].
  - (* LConsumerTurn *) cbn [step]. destruct (N.eq_dec c0 c) as [->|Hn].
    + rewrite (consumer_turn_quiet _ _ _ _ _ _ Hq). unfold consumer_turn. rewrite get_chan_E_self. reflexivity.
    + apply consumer_turn_E; exact Hn.
  - (* LQueueLoop *) cbn [step]. rewrite queue_loop_turn_E by exact Hnr. reflexivity.
  - (* LAutoDelete *) cbn [step]. rewrite autodel_E. destruct (autodel s) as [|qn rest]; [reflexivity|].
    change ((erase c s) <| autodel := rest |>) with (erase c (s <| autodel := rest |>)).
    try (rewrite get_queue_E; destruct (get_queue _ qn) as [qu0|]; [|reflexivity]; destruct (q_autodel qu0); [|reflexivity]).
    match goal with |- context [vhost_delete_queue ?a (erase c ?b) ?d ?e ?f] =>
      let Hv := fresh "Hv" in
      pose proof (vhost_delete_queue_E a b d e f Hnr) as Hv;
      destruct (vhost_delete_queue a (erase c b) d e f) as [[s2 e2] r2];
      destruct (vhost_delete_queue a b d e f) as [[s1 e1] r1];
      unfold erp3 in Hv; cbn [fst snd] in Hv; inversion Hv; subst end. reflexivity.
  - (* LPersistTick *) cbn [step]. rewrite st_add_E, st_del_E, st_db_E.
    match goal with |- (fold_left ?F ?l ?st, _) = _ => match st with context [erase c s] =>
      match goal with |- (fold_left F l _, _) = erp c (fold_left F l ?st', _) => change st with (erase c st') end end end.
    rewrite fold_E by (intros; apply store_confirm_E). reflexivity.
  - (* LRelay *) cbn [step]. rewrite relay_E. destruct (relay s) as [|u rest]; [reflexivity|].
    change ((erase c s) <| relay := rest |>) with (erase c (s <| relay := rest |>)). rewrite get_msg_E.
    destruct (get_msg _ u) as [m|] eqn:Em; [|reflexivity]. destruct (m_conf m) as [[[c2 h2] t2]|] eqn:Ecf; [|reflexivity].
    assert (Hq1 : quiet (s <| relay := rest |>) c) by exact Hq.
    destruct (N.eq_dec c2 c) as [->|Hn2].
    + rewrite (add_confirm_quiet _ _ _ _ Hq1). unfold add_confirm. rewrite get_chan_E_self. reflexivity.
    + rewrite (live_conf_E (s <| relay := rest |>) m (only0_quiet _ Hq1)) by (intros a b d E; eapply HD; eauto).
      rewrite (add_confirm_E _ c2 h2 _ Hn2). reflexivity.
  - (* LConfirmTick *) cbn [step]. destruct (N.eq_dec c0 c) as [->|Hn].
    + rewrite get_chan_E_self. destruct (get_chan s c h) as [ch|] eqn:E; [|reflexivity].
      destruct (quiet_chan _ _ _ _ Hq E) as [-> ->]. reflexivity.
    + rewrite (get_chan_E s c0 h Hn). destruct (get_chan s c0 h) as [ch|]; [|reflexivity]. destruct (negb _); [reflexivity|].
      destruct (ch_status ch); rewrite (set_chan_E s c0 h _ Hn); reflexivity.
  - (* LSocketLoss *) cbn [step]. rewrite (conn_close_E c0 Hn cfg fx s Hnr). destruct (conn_close cfg fx s c0) as [s1 e1]. reflexivity.
  - (* LAccept *) cbn [step]. rewrite (get_conn_E s c0 Hn). destruct (get_conn s c0); [reflexivity|].
    unfold erp. cbn [fst snd]. rewrite (E_aset s c0 _ Hn). reflexivity.
  - (* LBadMethod *) cbn [step]. rewrite (get_conn_E s c0 Hn). destruct (get_conn s c0) as [cn0|]; [|reflexivity].
    destruct (negb _ && negb _)%bool; [apply conn_close_E; auto|].
    rewrite !(ensure_chan_E s c0 h Hn), refuse_E. apply apply_err_st_E; auto. cbn [fst]. eapply noreg_same_queues; [apply queues_ensure_chan|exact Hnr].
  - (* LHeartbeat *) cbn [step]. rewrite (get_conn_E s c0 Hn). destruct (get_conn s c0); [|reflexivity].
    destruct (h =? 0); [reflexivity|apply conn_close_E; auto].
Qed.
End Erase.

(* ------------------------------------------------------------------ *)
(* the gap of Part 9 closed: every label that does not name c is blind to the record of an unopened c *)
Theorem blind_step_holds cfg fx c : fx_stage fx = true -> blind_step cfg fx c.
Proof.
  intros Hst s l Ht U Hop. destruct (unopened_inv_UI s U c Hop) as (Hq & _ & Hnr). destruct U as (_ & _ & HD).
  rewrite (step_E c cfg fx s l Hst Ht Hq Hnr HD). split; reflexivity.
Qed.

(* (b) an unauthenticated connection is invisible: remove all its frames from any run along which it is never opened -
   the final states agree outside its own record, and so do the events not addressed to it *)
Theorem no_effect_before_open_interleaved cfg fx c ls :
  fx_stage fx = true -> fx_chan_open fx = true -> fx_closeok_releases fx = true -> fx_delete_checks_first fx = true ->
  never_open_from cfg fx c (init cfg) ls ->
  erase c (fst (run cfg fx (init cfg) ls)) = erase c (fst (run cfg fx (init cfg) (nf c ls))) /\
  world (fst (run cfg fx (init cfg) ls)) c = world (fst (run cfg fx (init cfg) (nf c ls))) c /\
  drop_to c (snd (run cfg fx (init cfg) ls)) = drop_to c (snd (run cfg fx (init cfg) (nf c ls))).
Proof.
  intros F1 F2 F3 F4. apply no_effect_before_open_interleaved_from_blind; auto. apply blind_step_holds; auto.
Qed.
