(* Obligations over the GENERATED tables (discharged by vm_compute on every run) and the
   generic theorems instantiated with them. *)
From Coq Require Import List String Arith NArith Bool Lia ZifyN ZifyNat ZifyBool.
Import ListNotations.
From GMQ Require Import Base.Bytes Codec.Desc Codec.Prim Codec.Value Codec.MethodCodec Codec.Header Codec.Frame Codec.Records
     Codec.SpecCheck Codec.Codec.
From GMQ Require Import Codec.Grammar.
From GMQ Require Import Codec.gen.MethodsGen Codec.gen.TagsGen Codec.gen.ConstGen Codec.gen.SpecGen Codec.gen.RecordsGen.
From GMQ Require Import Proofs.CodecPrimProofs Proofs.CodecValueProofs Proofs.CodecMethodProofs.
Open Scope N_scope.
Open Scope list_scope.

(* ---------- obligations on the regenerated tables ---------- *)
Lemma gen_all_methods_wf : forallb wf_desc all_methods = true.
Proof. vm_compute. reflexivity. Qed.

Lemma gen_dispatch_ok : dispatch_ok all_methods read_dispatch = true.
Proof. vm_compute. reflexivity. Qed.

Lemma gen_ids_fit : forallb (fun m => (m_class m <? 2 ^ 16) && (m_id m <? 2 ^ 16)) all_methods = true.
Proof. vm_compute. reflexivity. Qed.

Lemma gen_methods_from_source : forallb (fun m => negb (m_from_spec m)) all_methods = true.
Proof. vm_compute. reflexivity. Qed.

Lemma gen_tags_inverse : tags_ok rd_gen wr_gen D091 = true /\ tags_ok rd_gen wr_gen DRabbit = true.
Proof. split; vm_compute; reflexivity. Qed.

(* the field-value tag letters and layouts are those of the specifications (Codec/Grammar.v, written
   from the AMQP 0-9-1 grammar and RabbitMQ's errata, not from the code) *)
Lemma gen_tags_match_grammar :
  tags_match_grammar reader_091 writer_091 grammar_091 = true /\
  tags_match_grammar reader_rabbit writer_rabbit grammar_rabbit = true.
Proof. split; vm_compute; reflexivity. Qed.

Lemma gen_methods_match_spec : spec_available = true /\ methods_match_spec all_methods spec_methods = true.
Proof. split; vm_compute; reflexivity. Qed.

Lemma gen_props_match_spec : props_match_spec props_fields props_read props_write spec_basic_properties = true.
Proof. vm_compute. reflexivity. Qed.

Lemma gen_props_desc_wf : wf_props_desc props_fields props_read props_write = true.
Proof. vm_compute. reflexivity. Qed.

Lemma gen_consts_match_spec : consts_match_spec go_constants spec_constants spec_classes spec_methods = true.
Proof. vm_compute. reflexivity. Qed.

Lemma gen_frame_end : c_FrameEnd = 206 /\ c_FrameMethod = 1 /\ c_FrameHeader = 2 /\ c_FrameBody = 3 /\ c_FrameHeartbeat = 8.
Proof. repeat split; vm_compute; reflexivity. Qed.

(* ---------- instantiated theorems ---------- *)
Lemma gen_value_roundtrip : forall d v b rest,
  wf_value rd_gen wr_gen d v = true -> encode_value d v = Some b ->
  decode_value d (b ++ rest) = Ok (v, rest).
Proof.
  intros d v b rest Hwf Henc. unfold decode_value, dec_value_top.
  apply (value_roundtrip longstr_alloc rd_gen wr_gen v d b Hwf Henc).
  rewrite app_length. lia.
Qed.

Lemma gen_table_roundtrip : forall d t b rest,
  wf_table rd_gen wr_gen d t = true -> encode_table d t = Some b ->
  decode_table d (b ++ rest) = Ok (t, rest).
Proof. intros d t b rest Hwf Henc. exact (table_roundtrip longstr_alloc rd_gen wr_gen d t b rest Hwf Henc). Qed.

Lemma gen_method_roundtrip : forall d m vals,
  In m all_methods -> wf_method_vals d m vals = true ->
  exists b, encode_method_frame d m vals = Some b /\
            forall rest, decode_method_frame d (b ++ rest) = Ok (m_name m, vals, rest).
Proof.
  intros d m vals Hin Hv.
  apply (method_frame_roundtrip longstr_alloc rd_gen wr_gen d all_methods read_dispatch m vals); try assumption.
  - exact gen_dispatch_ok.
  - pose proof gen_ids_fit as H. rewrite forallb_forall in H. apply H. exact Hin.
  - pose proof gen_all_methods_wf as H. rewrite forallb_forall in H. apply H. exact Hin.
Qed.

(* the bytes a method is written as are the bytes the grammar prescribes:
   fields in grammar order, consecutive bits packed into one octet from bit 0 *)
Definition grammar_encode (d : dialect) (s : spec_method) (vals : list mval) : option bytes :=
  b <-? enc_items wr_gen d (spec_layout (sm_fields s)) (env_of (sm_fields s) vals) ;;
  Some (enc_short (sm_class s) ++ enc_short (sm_id s) ++ b).

Lemma list_rel_In : forall {A B} (r : A -> B -> bool) l1 l2 a, list_rel r l1 l2 = true -> In a l1 -> exists b, In b l2 /\ r a b = true.
Proof.
  intros A B r. induction l1 as [|x l1 IH]; intros l2 a H Hin; [destruct Hin|].
  destruct l2 as [|y l2]; [discriminate|]. cbn in H. apply andb_true_iff in H. destruct H as [H1 H2].
  destruct Hin as [E|Hin].
  - subst x. exists y. split; [left; reflexivity | exact H1].
  - destruct (IH l2 a H2 Hin) as [b [Hb Hr]]. exists b. split; [right; exact Hb | exact Hr].
Qed.

Lemma gen_encode_is_grammar : forall d m vals, In m all_methods ->
  exists s, In s spec_methods /\ sm_go_name s = m_name m /\
            encode_method_frame d m vals = grammar_encode d s vals.
Proof.
  intros d m vals Hin.
  destruct gen_methods_match_spec as [_ H].
  destruct (list_rel_In _ _ _ m H Hin) as [s [Hs Hm]].
  exists s. split; [exact Hs|].
  unfold method_matches in Hm.
  repeat (apply andb_true_iff in Hm; destruct Hm as [Hm ?]).
  apply String.eqb_eq in Hm. split; [symmetry; exact Hm|].
  apply N.eqb_eq in H4. apply N.eqb_eq in H3.
  apply (list_eqb_eq field_eqb) in H1.
  2:{ intros [a k] [a' k'] E. unfold field_eqb in E. cbn [fst snd] in E. apply andb_true_iff in E. destruct E as [E1 E2].
      apply String.eqb_eq in E1. apply fkind_eqb_eq in E2. congruence. }
  unfold read_layout, write_layout in H0.
  destruct (rlayout (m_read m)) as [[[|? ?] lr]|]; try discriminate.
  destruct (wlayout (m_write m)) as [[[?|] lw]|] eqn:Ew; try discriminate.
  apply andb_true_iff in H0. destruct H0 as [_ Hlw].
  apply (list_eqb_eq item_eqb item_eqb_eq) in Hlw.
  unfold encode_method_frame, enc_method_frame, enc_method, grammar_encode.
  rewrite (wlayout_sound wr_gen d _ _ _ Ew). rewrite Hlw, H1, H4, H3. reflexivity.
Qed.

(* ---------- content header, frame, storage records ---------- *)
From GMQ Require Import Proofs.CodecRecordProofs.

Lemma gen_header_roundtrip : forall d h, wf_header_gen d h = true ->
  exists b, encode_header d h = Some b /\ forall rest, decode_header d (b ++ rest) = Ok (h, rest).
Proof. intros d h H. exact (header_roundtrip longstr_alloc rd_gen wr_gen d props_fields props_read props_write h gen_props_desc_wf H). Qed.

Lemma gen_frame_roundtrip : forall f rest, wf_frame f = true -> decode_frame (encode_frame f ++ rest) = Ok (f, rest).
Proof. intros. apply frame_roundtrip. assumption. Qed.

(* Message.Marshal writes and Message.Unmarshal reads the delivery-count trailer (regenerated from amqp/types.go) *)
Lemma gen_message_trailer : message_trailer_written = true /\ message_trailer_read = true.
Proof. split; reflexivity. Qed.

Lemma gen_message_roundtrip : forall d m, wf_message_gen d m = true ->
  exists b, encode_message d m = Some b /\ forall rest, decode_message d (b ++ rest) = Ok (m, rest).
Proof.
  intros d m H. unfold wf_message_gen, encode_message, decode_message in *.
  destruct gen_message_trailer as [Ew Er]. rewrite Er. rewrite Ew in *.
  exact (message_roundtrip longstr_alloc frame_alloc c_FrameEnd rd_gen wr_gen d props_fields props_read props_write true m gen_props_desc_wf H).
Qed.

Lemma gen_message_legacy : forall d m, wf_message_legacy d m = true ->
  exists b, encode_message_legacy d m = Some b /\ forall rest, blen rest < 4 -> decode_message d (b ++ rest) = Ok (m, rest).
Proof.
  intros d m H. unfold wf_message_legacy, encode_message_legacy, decode_message in *.
  destruct gen_message_trailer as [_ Er]. rewrite Er.
  exact (message_legacy_record longstr_alloc frame_alloc c_FrameEnd rd_gen wr_gen d props_fields props_read props_write m gen_props_desc_wf H).
Qed.

Lemma gen_binding_roundtrip : forall d b, wf_binding_gen d b = true ->
  exists bs, encode_binding d b = Some bs /\ forall rest, decode_binding d (bs ++ rest) = Ok (b, rest).
Proof. intros d b H. exact (binding_roundtrip longstr_alloc rd_gen wr_gen d b H). Qed.

(* ---------- decoder part of C11 over the regenerated shapes ---------- *)
From GMQ Require Import Proofs.CodecTotalProofs.

(* what ReadLongstr / ReadFrame commit to a forged length is bounded by this constant (1 MiB);
   the code's own bound (maxPrealloc, 128 KiB) is regenerated into TagsGen.v *)
Definition alloc_bound : N := 2 ^ 20.

Lemma gen_alloc_shapes : exists c1 c2, longstr_alloc = AllocChunked c1 /\ frame_alloc = FrameChunked c2 /\
                                       c1 <= alloc_bound /\ c2 <= alloc_bound.
Proof. do 2 eexists. repeat split; try reflexivity; vm_compute; discriminate. Qed.

Lemma gen_decoders_safe : forall d bs,
  safe alloc_bound (decode_value d bs) /\ safe alloc_bound (decode_table d bs) /\ safe alloc_bound (decode_longstr bs) /\
  safe alloc_bound (decode_method_frame d bs) /\ safe alloc_bound (decode_header d bs) /\
  safe alloc_bound (decode_frame bs) /\ safe alloc_bound (decode_message d bs) /\
  safe alloc_bound (dec_queue bs) /\ safe alloc_bound (dec_exchange bs) /\ safe alloc_bound (decode_binding d bs) /\
  safe alloc_bound (dec_shortstr bs).
Proof.
  intros d bs. destruct gen_alloc_shapes as [c1 [c2 [E1 [E2 [H1 H2]]]]].
  unfold decode_value, decode_table, decode_longstr, decode_method_frame, decode_header, decode_frame, decode_message, decode_binding.
  rewrite E1, E2.
  repeat split.
  - apply (safe_mono c1 _ _ H1), safe_value_top.
  - apply (safe_mono c1 _ _ H1), safe_table.
  - apply (safe_mono c1 _ _ H1), safe_longstr.
  - apply (safe_mono c1 _ _ H1), safe_method_frame.
  - apply (safe_mono c1 _ _ H1), safe_header.
  - apply (safe_mono c2 _ _ H2), safe_frame.
  - apply safe_message; assumption.
  - apply safe_queue.
  - apply safe_exchange.
  - apply (safe_mono c1 _ _ H1), safe_binding.
  - apply safe_shortstr.
Qed.

(* ---------- the model's fuel is always enough ---------- *)
From GMQ Require Import Proofs.CodecFuelProofs.

Lemma gen_decoders_nofuel : forall d bs,
  decode_value d bs <> Fuel /\ decode_table d bs <> Fuel /\ decode_method_frame d bs <> Fuel /\ decode_header d bs <> Fuel /\
  decode_frame bs <> Fuel /\ decode_message d bs <> Fuel /\ decode_binding d bs <> Fuel.
Proof.
  intros d bs.
  unfold decode_value, decode_table, decode_method_frame, decode_header, decode_frame, decode_message, decode_binding.
  split; [exact (value_top_nofuel longstr_alloc rd_gen d bs)|].
  split; [exact (table_nofuel longstr_alloc rd_gen d bs)|].
  split; [exact (method_frame_nofuel longstr_alloc rd_gen d all_methods read_dispatch bs)|].
  split; [exact (header_nofuel longstr_alloc rd_gen d props_fields props_read bs)|].
  split; [exact (frame_nofuel frame_alloc c_FrameEnd bs)|].
  split; [exact (message_nofuel longstr_alloc rd_gen frame_alloc c_FrameEnd d props_fields props_read message_trailer_read bs)|].
  exact (binding_nofuel longstr_alloc rd_gen d bs).
Qed.
