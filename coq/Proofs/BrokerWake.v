(* C07: the wake-up mechanism.  Every event that can make a (queue, consumer) pair deliverable hands over a token. *)
From Coq Require Import List String NArith ZArith Bool Lia.
From RecordUpdate Require Import RecordUpdate.
Import ListNotations.
From GMQ Require Import Broker.Model Proofs.BrokerFrames Proofs.BrokerTags Proofs.BrokerChanInv.
Open Scope N_scope.

(* the consumer registered as (c,h,tag), if any *)
Definition consumer_at (s : state) (c h : N) (tag : string) : option consumer :=
  match get_chan s c h with Some ch => find_consumer ch tag | None => None end.

(* it is started and holds a wake-up token *)
Definition armed (s : state) (c h : N) (tag : string) : Prop :=
  match consumer_at s c h tag with Some cm => c_status cm = CStarted -> c_token cm = true | None => True end.

Lemma find_map_consumers (f : consumer -> consumer) l tag :
  (forall cm, c_tag (f cm) = c_tag cm) ->
  find (fun cm => seqb (c_tag cm) tag) (map f l) = option_map f (find (fun cm => seqb (c_tag cm) tag) l).
Proof.
  intros Hf. induction l as [|a l IH]; simpl; auto. rewrite Hf. destruct (seqb (c_tag a) tag); auto.
Qed.

Lemma consume_msg_tag cm : c_tag (fst (consume_msg cm)) = c_tag cm.
Proof. unfold consume_msg. destruct cm as [? ? ? ? [] [] ?]; reflexivity. Qed.
Lemma consume_msg_status cm : c_status (fst (consume_msg cm)) = c_status cm.
Proof. unfold consume_msg. destruct cm as [? ? ? ? [] [] ?]; reflexivity. Qed.
Lemma consume_msg_arms cm : c_status cm = CStarted -> c_token (fst (consume_msg cm)) = true.
Proof. unfold consume_msg. destruct cm as [? ? ? ? [] [] ?]; cbn; congruence. Qed.
Lemma consume_msg_mono cm : c_token cm = true -> c_token (fst (consume_msg cm)) = true.
Proof. unfold consume_msg. destruct cm as [? ? ? ? [] [] ?]; cbn; congruence. Qed.

(* waking every consumer of a channel arms each of them *)
Theorem wake_all_arms s c h tag : armed (wake_all_of_chan s c h) c h tag.
Proof.
  unfold armed, consumer_at, wake_all_of_chan, upd_chan.
  destruct (get_chan s c h) as [ch|] eqn:Ech.
  - rewrite get_chan_set_chan. pose proof (get_chan_conn _ _ _ _ Ech). destruct (get_conn s c); [|congruence].
    rewrite !N.eqb_refl. cbn. unfold find_consumer. cbn.
    rewrite (find_map_consumers (fun cm => fst (consume_msg cm))) by apply consume_msg_tag.
    destruct (find _ (ch_consumers ch)) as [cm|]; cbn; auto.
    rewrite consume_msg_status. apply consume_msg_arms.
  - rewrite Ech. auto.
Qed.

(* waking a consumer never disarms another one, nor changes anybody's status *)
Lemma consumer_at_wake_all s c0 h0 c h tag :
  consumer_at (wake_all_of_chan s c0 h0) c h tag =
  if (c =? c0) && (h =? h0) then option_map (fun cm => fst (consume_msg cm)) (consumer_at s c h tag) else consumer_at s c h tag.
Proof.
  unfold consumer_at, wake_all_of_chan, upd_chan. destruct (get_chan s c0 h0) as [ch0|] eqn:E0.
  - rewrite get_chan_set_chan. pose proof (get_chan_conn _ _ _ _ E0). destruct (get_conn s c0); [|congruence].
    destruct ((c =? c0) && (h =? h0)) eqn:Eb; auto.
    apply andb_prop in Eb. destruct Eb as [E1 E2]. apply N.eqb_eq in E1, E2. subst. rewrite E0. unfold find_consumer. cbn.
    apply find_map_consumers. apply consume_msg_tag.
  - destruct ((c =? c0) && (h =? h0)) eqn:Eb; auto.
    apply andb_prop in Eb. destruct Eb as [E1 E2]. apply N.eqb_eq in E1, E2. subst. rewrite E0. reflexivity.
Qed.

Lemma armed_wake_all_mono s c0 h0 c h tag : armed s c h tag -> armed (wake_all_of_chan s c0 h0) c h tag.
Proof.
  unfold armed. rewrite consumer_at_wake_all. destruct ((c =? c0) && (h =? h0)); auto.
  destruct (consumer_at s c h tag) as [cm|]; cbn; auto. rewrite consume_msg_status. intros H Hs. apply consume_msg_mono. auto.
Qed.

(* settling a delivery arms every consumer of its channel (and nobody is disarmed) *)
Theorem wake_consumers_arms_channel cfg s c h tag : armed (wake_consumers cfg s c h) c h tag.
Proof.
  unfold wake_consumers. pose proof (wake_all_arms s c h tag) as H0.
  destruct (cfg_rabbit cfg); auto. destruct (get_conn _ c) as [cn|]; auto.
  apply fold_left_preserves; auto. intros s0 x H1. destruct (fst x =? h); auto. apply armed_wake_all_mono; auto.
Qed.

Theorem settle_arms_channel cfg s c h u tag : get_chan s c h <> None -> armed (dec_qos_and_consume_next cfg s c h u) c h tag.
Proof.
  intros Hc. unfold dec_qos_and_consume_next. destruct (get_chan s c h); [|congruence]. apply wake_consumers_arms_channel.
Qed.

(* a push (and a requeue) raises the queue's call token *)
Theorem push_raises_call s qn u qu m :
  get_queue s qn = Some qu -> q_active qu = true -> get_msg s u = Some m ->
  exists qu', get_queue (queue_push s qn u) qn = Some qu' /\ q_call qu' = true.
Proof.
  intros Eq Ea Em. unfold queue_push. rewrite Eq, Em, Ea. cbn [negb].
  eexists. split.
  - unfold get_queue, set_queue. cbn. rewrite (alookup_aset seqb seqb_spec). rewrite (proj2 (seqb_spec qn qn) eq_refl). reflexivity.
  - unfold call_consumers. cbn. rewrite Ea. reflexivity.
Qed.

Theorem requeue_raises_call s qn u qu :
  get_queue s qn = Some qu -> q_active qu = true ->
  exists qu', get_queue (queue_requeue s qn u) qn = Some qu' /\ q_call qu' = true.
Proof.
  intros Eq Ea. unfold queue_requeue. rewrite Eq, Ea. cbn [negb].
  eexists. split.
  - unfold get_queue, set_queue. cbn. rewrite (alookup_aset seqb seqb_spec). rewrite (proj2 (seqb_spec qn qn) eq_refl). reflexivity.
  - unfold call_consumers. cbn. rewrite Ea. reflexivity.
Qed.

(* one consumer signalled: it is armed, nobody else is disarmed *)
Lemma consumer_at_wake s c0 h0 tag0 c h tag :
  consumer_at (fst (wake_consumer s c0 h0 tag0)) c h tag =
  if (c =? c0) && (h =? h0) && seqb tag tag0 then option_map (fun cm => fst (consume_msg cm)) (consumer_at s c h tag)
  else consumer_at s c h tag.
Proof.
  unfold wake_consumer. destruct (get_chan s c0 h0) as [ch0|] eqn:E0.
  2:{ cbn. destruct ((c =? c0) && (h =? h0)) eqn:Eb; cbn; auto. apply andb_prop in Eb. destruct Eb as [E1 E2].
      apply N.eqb_eq in E1, E2. subst. unfold consumer_at. rewrite E0. destruct (seqb tag tag0); auto. }
  destruct (find_consumer ch0 tag0) as [cm0|] eqn:Ef.
  2:{ cbn. destruct ((c =? c0) && (h =? h0)) eqn:Eb; cbn; auto. apply andb_prop in Eb. destruct Eb as [E1 E2].
      apply N.eqb_eq in E1, E2. subst. destruct (seqb tag tag0) eqn:Et; auto. apply seqb_spec in Et. subst.
      unfold consumer_at. rewrite E0, Ef. reflexivity. }
  destruct (consume_msg cm0) as [cm' okb] eqn:Ec. cbn [fst].
  assert (Htag0 : c_tag cm0 = tag0).
  { unfold find_consumer in Ef. apply find_some in Ef. destruct Ef as [_ Ef]. apply seqb_spec in Ef. auto. }
  assert (Hcm' : cm' = fst (consume_msg cm0)) by (rewrite Ec; auto).
  unfold consumer_at. rewrite get_chan_set_chan. pose proof (get_chan_conn _ _ _ _ E0). destruct (get_conn s c0); [|congruence].
  destruct ((c =? c0) && (h =? h0)) eqn:Eb; cbn [andb]; auto.
  apply andb_prop in Eb. destruct Eb as [E1 E2]. apply N.eqb_eq in E1, E2. subst c h. rewrite E0.
  subst cm'. unfold find_consumer, upd_consumer. cbn.
  rewrite (find_map_consumers (fun cm => if seqb (c_tag cm) tag0 then fst (consume_msg cm0) else cm)).
  2:{ intros cm. destruct (seqb (c_tag cm) tag0) eqn:Et; auto. apply seqb_spec in Et. rewrite consume_msg_tag. congruence. }
  destruct (seqb tag tag0) eqn:Et.
  - apply seqb_spec in Et. subst tag. unfold find_consumer in Ef. rewrite Ef. cbn.
    rewrite Htag0, (proj2 (seqb_spec _ _) eq_refl). reflexivity.
  - destruct (find _ (ch_consumers ch0)) as [cm|] eqn:Ef2; cbn; auto.
    apply find_some in Ef2. destruct Ef2 as [_ Ef2]. apply seqb_spec in Ef2.
    destruct (seqb (c_tag cm) tag0) eqn:Et2; auto. apply seqb_spec in Et2. assert (Heq : tag = tag0) by congruence. rewrite Heq in Et. rewrite (proj2 (seqb_spec tag0 tag0) eq_refl) in Et. discriminate.
Qed.

Theorem wake_consumer_arms s c h tag : armed (fst (wake_consumer s c h tag)) c h tag.
Proof.
  unfold armed. rewrite consumer_at_wake, !N.eqb_refl, (proj2 (seqb_spec _ _) eq_refl). cbn.
  destruct (consumer_at s c h tag) as [cm|]; cbn; auto. rewrite consume_msg_status. apply consume_msg_arms.
Qed.

Lemma armed_wake_mono s c0 h0 tag0 c h tag : armed s c h tag -> armed (fst (wake_consumer s c0 h0 tag0)) c h tag.
Proof.
  unfold armed. rewrite consumer_at_wake. destruct ((c =? c0) && (h =? h0) && seqb tag tag0); auto.
  destruct (consumer_at s c h tag) as [cm|]; cbn; auto. rewrite consume_msg_status. intros H Hs. apply consume_msg_mono; auto.
Qed.

Lemma fold_wake_arms l : forall s c h tag,
  In (c, h, tag) l \/ armed s c h tag ->
  armed (fold_left (fun s (x : N * N * string) => let '(c, h, tag) := x in fst (wake_consumer s c h tag)) l s) c h tag.
Proof.
  induction l as [|[[c0 h0] t0] l IH]; intros s c h tag H; cbn [fold_left].
  - destruct H as [[]|H]; auto.
  - apply IH. destruct H as [[H|H]|H]; auto.
    + inversion H; subst. right. apply wake_consumer_arms.
    + right. apply armed_wake_mono; auto.
Qed.

Lemma consumer_at_conns s s' c h tag : conns s' = conns s -> consumer_at s' c h tag = consumer_at s c h tag.
Proof. intros E. unfold consumer_at, get_chan, get_conn. rewrite E. reflexivity. Qed.

(* the queue loop, when called, signals every consumer of the queue *)
Theorem queue_loop_wakes_all s qn qu c h tag :
  get_queue s qn = Some qu -> q_call qu = true -> In (c, h, tag) (q_consumers qu) ->
  armed (queue_loop_turn s qn) c h tag.
Proof.
  intros Eq Ec Hin. unfold queue_loop_turn. rewrite Eq, Ec. cbn [negb].
  destruct (Nat.eqb (List.length (q_consumers qu)) 0) eqn:En.
  { apply Nat.eqb_eq in En. destruct (q_consumers qu); [destruct Hin | discriminate]. }
  match goal with |- armed (upd_queue ?s0 _ _) _ _ _ => set (s1 := s0) end.
  unfold armed. replace (consumer_at (upd_queue s1 qn (fun qu0 => qu0 <| q_rr := Nat.modulo (S (q_rr qu0)) (List.length (q_consumers qu)) |>)) c h tag) with (consumer_at s1 c h tag).
  2:{ symmetry. apply consumer_at_conns. unfold upd_queue. destruct (get_queue s1 qn); reflexivity. }
  apply fold_wake_arms. left. exact Hin.
Qed.

(* a consumer that delivered is armed again: it will look at the queue once more *)
Theorem delivery_rearms cfg fx s c h tag s' evs :
  consumer_turn cfg fx s c h tag = (s', evs) -> evs <> [] -> armed s' c h tag.
Proof.
  unfold consumer_turn. intros H Hne.
  repeat match type of H with
  | (match ?x with _ => _ end) = _ => destruct x eqn:?
  | (if ?x then _ else _) = _ => destruct x eqn:?
  | (let '(_, _) := ?x in _) = _ => destruct x eqn:?
  | (_, []) = (_, _) => inversion H; subst; congruence
  end.
  all: try (inversion H; subst; congruence).
  all: inversion H; subst; clear H.
  all: match goal with E : wake_consumer ?s0 ?c0 ?h0 ?t0 = (?s1, _) |- armed ?s1 _ _ _ =>
         replace s1 with (fst (wake_consumer s0 c0 h0 t0)) by (rewrite E; reflexivity); apply wake_consumer_arms end.
Qed.

Lemma find_app_none {A} (f : A -> bool) l x : find f l = None -> find f (l ++ [x]) = if f x then Some x else None.
Proof. induction l as [|a l IH]; cbn; auto. destruct (f a); [discriminate | auto]. Qed.

Lemma armed_set_chan_new s c h ch cm tag :
  get_conn s c <> None -> find_consumer ch tag = None -> c_tag cm = tag -> c_token cm = true ->
  armed (set_chan s c h (ch <| ch_consumers ::= fun l => l ++ [cm] |>)) c h tag.
Proof.
  intros Hc Hf Ht Hk. unfold armed, consumer_at. rewrite get_chan_set_chan. destruct (get_conn s c); [|congruence].
  rewrite !N.eqb_refl. cbn. unfold find_consumer in *. cbn. rewrite find_app_none by assumption.
  rewrite Ht, (proj2 (seqb_spec _ _) eq_refl). auto.
Qed.

(* a new consumer starts armed *)
Theorem consume_arms cfg fx s c h q tag noack excl nowait s' evs :
  handle_method cfg fx s c h (MConsume q tag noack excl nowait) = (s', evs, None) ->
  get_chan s c h <> None -> armed s' c h (eff_tag s tag).
Proof.
  unfold handle_method. intros H Hc. destruct (get_chan s c h) as [ch|] eqn:Ech; [|congruence].
  pose proof (get_chan_conn _ _ _ _ Ech) as Hcc.
  unfold refuse, ok in H. cbv zeta in H. set (t := eff_tag s tag) in *.
  repeat match type of H with
  | (match ?x with _ => _ end) = _ => destruct x eqn:?
  | (if ?x then _ else _) = _ => destruct x eqn:?
  end; try discriminate.
  all: inversion H; subst; clear H.
  all: match goal with |- context [if seqb ?x ?y then _ else _] => destruct (seqb x y) end.
  all: apply armed_set_chan_new; [exact Hcc | assumption | reflexivity | reflexivity].
Qed.

(* channel.flow(true) arms every consumer that is not stopped *)
Theorem flow_on_arms cfg fx s c h s' evs ch tag :
  get_chan s c h = Some ch -> ch_flow ch = false ->
  handle_method cfg fx s c h (MChannelFlow true) = (s', evs, None) ->
  match consumer_at s' c h tag with
  | Some cm => c_status cm <> CStopped -> c_status cm = CStarted /\ c_token cm = true
  | None => True
  end.
Proof.
  intros Ech Ef H. unfold handle_method in H. rewrite Ech, Ef in H. cbn in H. unfold ok in H. inversion H; subst; clear H.
  unfold consumer_at. rewrite get_chan_set_chan. pose proof (get_chan_conn _ _ _ _ Ech) as Hcc. destruct (get_conn s c); [|congruence].
  rewrite !N.eqb_refl. cbn. unfold find_consumer. cbn.
  rewrite find_map_consumers.
  2:{ intros cm. cbv beta. destruct cm as [? ? ? ? [] [] ?]; reflexivity. }
  destruct (find _ (ch_consumers ch)) as [cm|]; cbn; auto.
  destruct cm as [? ? ? ? [] [] ?]; cbn; intuition congruence.
Qed.

(* the message heap is not touched by the bookkeeping of a delivery *)
Lemma heap_set_chan s c h ch : heap (set_chan s c h ch) = heap s.
Proof. unfold set_chan. destruct (get_conn s c); reflexivity. Qed.
Lemma heap_upd_chan s c h f : heap (upd_chan s c h f) = heap s.
Proof. unfold upd_chan. destruct (get_chan s c h); auto. apply heap_set_chan. Qed.
Lemma heap_upd_queue s q f : heap (upd_queue s q f) = heap s.
Proof. unfold upd_queue. destruct (get_queue s q); reflexivity. Qed.
Lemma heap_queue_ackmsg s q u : heap (queue_ackmsg s q u) = heap s.
Proof.
  unfold queue_ackmsg. destruct (get_queue s q); auto. destruct (get_msg s u); auto. destruct (negb _); auto.
  destruct (_ && _); reflexivity.
Qed.
Lemma heap_store_windows cfg s c h tag ws : heap (store_windows cfg s c h tag ws) = heap s.
Proof.
  unfold store_windows. destruct ws as [|w1 [|w2 [|]]]; auto. destruct (cfg_rabbit cfg).
  - rewrite !heap_upd_chan. reflexivity.
  - destruct (get_conn _ c); cbn; rewrite ?heap_upd_chan; reflexivity.
Qed.

(* progress: an armed consumer whose queue has a waiting head that its windows admit delivers it on its next turn *)
Theorem armed_turn_delivers cfg fx s c h tag ch cm qu u rest m :
  get_chan s c h = Some ch -> find_consumer ch tag = Some cm ->
  c_token cm = true -> c_status cm = CStarted ->
  get_queue s (c_queue cm) = Some qu -> q_active qu = true -> q_ready qu = u :: rest ->
  get_msg s u = Some m ->
  (c_noack cm = true \/ exists ws, fst (reserve (cfg_rollback cfg) (window_list cfg s c h cm) (msg_size s u mod two32)) = Some ws) ->
  exists d r, In (c, h, SDeliver tag d r (m_ex m) (m_key m)) (snd (consumer_turn cfg fx s c h tag)).
Proof.
  intros Ech Ef Et Es Eq Ea Er Em Hadm. unfold consumer_turn. rewrite Ech, Ef, Et, Es. cbn [negb].
  set (s0 := set_chan s c h _).
  assert (Hq0 : get_queue s0 (c_queue cm) = Some qu).
  { unfold s0, set_chan, get_queue. destruct (get_conn s c); auto. }
  assert (Hm0 : forall x, msg_size s0 x = msg_size s x).
  { intros x. unfold msg_size, get_msg, s0. rewrite heap_set_chan. reflexivity. }
  rewrite Hq0, Ea, Er. cbn [negb]. rewrite Hm0.
  assert (Hw : window_list cfg s0 c h cm = window_list cfg s c h cm).
  { unfold window_list, s0. rewrite get_chan_set_chan, Ech. pose proof (get_chan_conn _ _ _ _ Ech) as Hc.
    unfold set_chan. destruct (get_conn s c) as [cn|] eqn:Ecn; [|congruence]. rewrite !N.eqb_refl. cbn [andb].
    unfold get_conn. cbn. rewrite (alookup_aset N.eqb Neqb_spec), N.eqb_refl. reflexivity. }
  rewrite Hw.
  assert (Hok : exists okws, (if c_noack cm then (Some [], []) else reserve (cfg_rollback cfg) (window_list cfg s c h cm) (msg_size s u mod two32)) = (Some (fst okws), snd okws)).
  { destruct Hadm as [Hn|[ws Hr]].
    - rewrite Hn. exists ([], []). reflexivity.
    - destruct (c_noack cm); [exists ([], []); reflexivity|].
      destruct (reserve _ _ _) as [okr ws']. cbn in Hr. subst. exists (ws, ws'). reflexivity. }
  destruct Hok as [[ok1 ws1] Hok]. rewrite Hok. cbn [fst snd].
  match goal with |- context [wake_consumer ?st ?c0 ?h0 ?tag0] => destruct (wake_consumer st c0 h0 tag0) as [s9 b9] end.
  cbn [snd].
  match goal with |- context [match get_msg ?st u with Some _ => _ | None => _ end] =>
    assert (Hg : get_msg st u = Some m) end.
  { rewrite <- Em. unfold get_msg. f_equal.
    destruct (c_noack cm); destruct (fx_noack_total_once fx); unfold s0;
      repeat first [ rewrite heap_upd_queue | rewrite heap_upd_chan | rewrite heap_queue_ackmsg | rewrite heap_store_windows
                   | rewrite heap_set_chan
                   | match goal with |- context [heap (@set ?a ?b ?cc ?dd ?ee ?st)] => change (heap (@set a b cc dd ee st)) with (heap st) end ];
      reflexivity. }
  rewrite Hg. cbn [out1 app]. eexists _, _. left. reflexivity.
Qed.

(* the broker is idle only when no wake-up token is pending: neither a queue call nor a consumer token *)
Theorem quiescent_no_pending_wake s :
  quiescent s = true ->
  (forall qn qu, In (qn, qu) (queues s) -> q_call qu = false) /\
  (forall c cn h ch cm, In (c, cn) (conns s) -> In (h, ch) (cn_chans cn) -> In cm (ch_consumers ch) -> c_token cm = false).
Proof.
  unfold quiescent. destruct (enabled_internal s) eqn:E; [|discriminate]. intros _.
  unfold enabled_internal in E. apply app_eq_nil in E. destruct E as [E1 E]. apply app_eq_nil in E. destruct E as [E2 _].
  split.
  - intros qn qu Hin. destruct (q_call qu) eqn:Ec; auto.
    assert (Hf : In (qn, qu) (filter (fun kv => q_call (snd kv)) (queues s))) by (apply filter_In; auto).
    apply (in_map (fun kv => LQueueLoop (fst kv))) in Hf. rewrite E1 in Hf. destruct Hf.
  - intros c cn h ch cm H1 H2 H3. destruct (c_token cm) eqn:Ec; auto.
    assert (Hf : In (LConsumerTurn c h (c_tag cm))
      (flat_map (fun ckv => flat_map (fun hkv => map (fun cm => LConsumerTurn (fst ckv) (fst hkv) (c_tag cm)) (filter c_token (ch_consumers (snd hkv)))) (cn_chans (snd ckv))) (conns s))).
    { apply in_flat_map. exists (c, cn). split; auto. apply in_flat_map. exists (h, ch). split; auto.
      cbn [fst snd]. apply (in_map (fun cm0 => LConsumerTurn c h (c_tag cm0))). apply filter_In. auto. }
    rewrite E2 in Hf. destruct Hf.
Qed.
