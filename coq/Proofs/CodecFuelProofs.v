(* The recursion fuel of the decoders (fuel = input length + 1) is always enough: no decoder ever
   returns Fuel, on any byte list.  So the outcomes of the model are Ok / Err / Panic / Alloc only. *)
From Coq Require Import List Arith NArith Bool Lia ZifyN ZifyNat ZifyBool.
Import ListNotations.
From GMQ Require Import Base.Bytes Codec.Desc Codec.Prim Codec.Value Codec.MethodCodec Codec.Header Codec.Frame Codec.Records.
From GMQ Require Import Proofs.CodecPrimProofs Proofs.CodecValueProofs.
Open Scope N_scope.
Open Scope list_scope.

Definition nofuel {A} (r : result A) : Prop := r <> Fuel.

Lemma nofuel_bind : forall {A B} (r : result A) (f : A -> result B),
  nofuel r -> (forall a, r = Ok a -> nofuel (f a)) -> nofuel (bind r f).
Proof. intros A B r f Hr Hf. destruct r; cbn [bind]; unfold nofuel in *; try congruence. apply Hf. reflexivity. Qed.

Lemma nofuel_fixed : forall k bs, nofuel (dec_fixed k bs).
Proof. intros. unfold dec_fixed, nofuel. destruct (take k bs) as [[? ?]|]; discriminate. Qed.
Lemma nofuel_shortstr : forall bs, nofuel (dec_shortstr bs).
Proof.
  intros. unfold dec_shortstr. apply nofuel_bind; [apply nofuel_fixed|]. intros x _.
  unfold nofuel. destruct (takeN (fst x) (snd x)) as [[? ?]|]; discriminate.
Qed.
Lemma nofuel_longstr : forall st bs, nofuel (dec_longstr st bs).
Proof.
  intros. unfold dec_longstr. apply nofuel_bind; [apply nofuel_fixed|]. intros x _.
  unfold nofuel. destruct (takeN (fst x) (snd x)) as [[? ?]|]; discriminate.
Qed.

(* how much each primitive consumes *)
Lemma fixed_len : forall k bs n r, dec_fixed k bs = Ok (n, r) -> (length r + k = length bs)%nat.
Proof.
  intros k bs n r H. unfold dec_fixed in H. destruct (take k bs) as [[h r']|] eqn:E; [|discriminate].
  inversion H; subst. apply take_length in E. destruct E as [E1 E2]. subst bs. rewrite app_length. lia.
Qed.
Lemma takeN_len : forall n bs h r, takeN n bs = Some (h, r) -> (length r + length h = length bs)%nat.
Proof.
  intros n bs h r H. unfold takeN in H. destruct (blen bs <? n); [discriminate|].
  apply take_length in H. destruct H as [_ E]. subst bs. rewrite app_length. lia.
Qed.
Lemma shortstr_len : forall bs s r, dec_shortstr bs = Ok (s, r) -> (length r + length s + 1 = length bs)%nat.
Proof.
  intros bs s r H. unfold dec_shortstr in H.
  destruct (dec_octet bs) as [[n r0]| | | |] eqn:E; cbn [bind fst snd] in H; try discriminate.
  apply fixed_len in E. destruct (takeN n r0) as [[s' r']|] eqn:T; [|discriminate]. inversion H; subst.
  apply takeN_len in T. lia.
Qed.
Lemma longstr_len : forall st bs s r, dec_longstr st bs = Ok (s, r) -> (length r + length s + 4 = length bs)%nat.
Proof.
  intros st bs s r H. unfold dec_longstr in H.
  destruct (dec_long bs) as [[n r0]| | | |] eqn:E; cbn [bind fst snd] in H; try discriminate.
  apply fixed_len in E. destruct (takeN n r0) as [[s' r']|] eqn:T; [|discriminate]. inversion H; subst.
  apply takeN_len in T. lia.
Qed.

Section Fuel.
  Variable st : alloc_style.
  Variable rd : dialect -> list reader_row.

  (* a decoded value has consumed at least its tag *)
  Lemma value_consumes : forall f d bs v r, dec_value st rd f d bs = Ok (v, r) -> (length r < length bs)%nat.
  Proof.
    intros f d bs v r H. destruct f as [|f]; [discriminate|]. rewrite dec_value_S in H. cbv zeta in H.
    destruct (dec_octet bs) as [[tag r0]| | | |] eqn:E; cbn [bind fst snd] in H; try discriminate.
    apply fixed_len in E.
    destruct (lookup_reader (rd d) tag) as [row|]; [|discriminate].
    assert (G : forall res : result (fval * bytes),
               (forall v' r', res = Ok (v', r') -> (length r' <= length r0)%nat) ->
               (if rr_inverted row
                then match res with
                     | Ok (_, r') => Ok (VNil, r')
                     | Err => Ok (zero_of (rr_type row) (rr_wire row), rest_after_failure st (rr_wire row) r0)
                     | other => other
                     end
                else res) = Ok (v, r) -> (length r <= length r0)%nat).
    { intros res Hres Hr. destruct (rr_inverted row).
      - destruct res as [[v' r']| | | |]; try discriminate.
        + inversion Hr; subst. apply (Hres v' r). reflexivity.
        + inversion Hr; subst. unfold rest_after_failure.
          destruct (rr_wire row); cbn [length]; try lia;
            (destruct (dec_longstr st r0) as [[s r']| | | |] eqn:L; cbn [length]; try lia; apply longstr_len in L; lia).
      - apply (Hres v r). exact Hr. }
    assert (X : (length r <= length r0)%nat); [|lia].
    eapply G; [|exact H]. clear G H. intros v' r' H.
    destruct (rr_wire row).
    - destruct (dec_octet r0) as [[y ry]| | | |] eqn:Y; cbn [bind fst snd] in H; try discriminate. inversion H; subst. apply fixed_len in Y. lia.
    - destruct (dec_fixed nbytes r0) as [[y ry]| | | |] eqn:Y; cbn [bind fst snd] in H; try discriminate. inversion H; subst. apply fixed_len in Y. lia.
    - destruct (dec_fixed 1 r0) as [[y ry]| | | |] eqn:Y; cbn [bind fst snd] in H; try discriminate.
      destruct (dec_fixed 4 ry) as [[z rz]| | | |] eqn:Z; cbn [bind fst snd] in H; try discriminate. inversion H; subst.
      apply fixed_len in Y. apply fixed_len in Z. lia.
    - destruct (dec_shortstr r0) as [[y ry]| | | |] eqn:Y; cbn [bind fst snd] in H; try discriminate. inversion H; subst. apply shortstr_len in Y. lia.
    - destruct (dec_longstr st r0) as [[y ry]| | | |] eqn:Y; cbn [bind fst snd] in H; try discriminate. inversion H; subst. apply longstr_len in Y. lia.
    - destruct (dec_timestamp r0) as [[y ry]| | | |] eqn:Y; cbn [bind fst snd] in H; try discriminate. inversion H; subst. apply fixed_len in Y. lia.
    - destruct (dec_longstr st r0) as [[y ry]| | | |] eqn:Y; cbn [bind fst snd] in H; try discriminate.
      destruct (dec_arr st rd f d0 y) as [l| | | |]; cbn [bind fst snd] in H; try discriminate. inversion H; subst. apply longstr_len in Y. lia.
    - destruct (dec_longstr st r0) as [[y ry]| | | |] eqn:Y; cbn [bind fst snd] in H; try discriminate.
      destruct (dec_titems st rd f d0 y) as [l| | | |]; cbn [bind fst snd] in H; try discriminate. inversion H; subst. apply longstr_len in Y. lia.
    - inversion H; subst. lia.
  Qed.

  Lemma values_nofuel : forall f,
    (forall d bs, (length bs < f)%nat -> nofuel (dec_value st rd f d bs)) /\
    (forall d data, (length data + 1 < f)%nat -> nofuel (dec_arr st rd f d data)) /\
    (forall d data, (length data < f)%nat -> nofuel (dec_titems st rd f d data)).
  Proof.
    induction f as [|f [IHv [IHa IHt]]]; [repeat split; intros; lia|].
    repeat split; intros d bs Hlen.
    - cbn [dec_value]. cbv zeta. apply nofuel_bind; [apply nofuel_fixed|]. intros [tag r0] E. cbn [fst snd].
      apply fixed_len in E.
      destruct (lookup_reader (rd d) tag) as [row|]; [|discriminate].
      assert (G : forall res : result (fval * bytes), nofuel res ->
                 nofuel (if rr_inverted row
                         then match res with
                              | Ok (_, r') => Ok (VNil, r')
                              | Err => Ok (zero_of (rr_type row) (rr_wire row), rest_after_failure st (rr_wire row) r0)
                              | other => other
                              end
                         else res)).
      { intros res Hres. destruct (rr_inverted row); [|exact Hres].
        destruct res as [[? ?]| | | |]; unfold nofuel in *; try discriminate. congruence. }
      apply G. clear G.
      destruct (rr_wire row).
      + apply nofuel_bind; [apply nofuel_fixed | intros; discriminate].
      + apply nofuel_bind; [apply nofuel_fixed | intros; discriminate].
      + apply nofuel_bind; [apply nofuel_fixed | intros]. apply nofuel_bind; [apply nofuel_fixed | intros; discriminate].
      + apply nofuel_bind; [apply nofuel_shortstr | intros; discriminate].
      + apply nofuel_bind; [apply nofuel_longstr | intros; discriminate].
      + apply nofuel_bind; [apply nofuel_fixed | intros; discriminate].
      + apply nofuel_bind; [apply nofuel_longstr | intros [y ry] Y]. cbn [fst snd]. apply longstr_len in Y.
        apply nofuel_bind; [apply IHa; lia | intros; discriminate].
      + apply nofuel_bind; [apply nofuel_longstr | intros [y ry] Y]. cbn [fst snd]. apply longstr_len in Y.
        apply nofuel_bind; [apply IHt; lia | intros; discriminate].
      + discriminate.
    - cbn [dec_arr]. destruct bs as [|b0 bs']; [discriminate|].
      apply nofuel_bind; [apply IHv; lia | intros [v r] E]. cbn [fst snd]. apply value_consumes in E.
      apply nofuel_bind; [apply IHa; lia | intros; discriminate].
    - cbn [dec_titems]. destruct bs as [|b0 bs']; [discriminate|].
      apply nofuel_bind; [apply nofuel_shortstr | intros [k r1] K]. cbn [fst snd]. apply shortstr_len in K.
      apply nofuel_bind; [apply IHv; lia | intros [v r2] E]. cbn [fst snd]. apply value_consumes in E.
      apply nofuel_bind; [apply IHt; lia | intros; discriminate].
  Qed.

  Lemma value_top_nofuel : forall d bs, nofuel (dec_value_top st rd d bs).
  Proof. intros. unfold dec_value_top. apply (proj1 (values_nofuel _)). lia. Qed.

  Lemma table_nofuel : forall d bs, nofuel (dec_table st rd d bs).
  Proof.
    intros. unfold dec_table, dec_table_fuel. apply nofuel_bind; [apply nofuel_longstr | intros [y ry] Y]. cbn [fst snd].
    apply longstr_len in Y. apply nofuel_bind; [apply (proj2 (proj2 (values_nofuel _))); lia | intros; discriminate].
  Qed.

  Lemma field_nofuel : forall d k bs, nofuel (dec_field st rd d k bs).
  Proof.
    intros d k bs. destruct k; cbn [dec_field]; try discriminate;
      (apply nofuel_bind; [| intros; discriminate]);
      try apply nofuel_fixed; try apply nofuel_shortstr; try apply nofuel_longstr; apply table_nofuel.
  Qed.

  Lemma steps_nofuel : forall d steps bits e bs, nofuel (dec_steps st rd d steps bits e bs).
  Proof.
    intros d. induction steps as [|s steps IH]; intros bits e bs; cbn [dec_steps]; [discriminate|].
    destruct s.
    - apply nofuel_bind; [apply field_nofuel | intros; apply IH].
    - apply nofuel_bind; [apply nofuel_fixed | intros; apply IH].
    - apply IH.
  Qed.

  Lemma method_frame_nofuel : forall d methods dispatch bs, nofuel (dec_method_frame st rd d methods dispatch bs).
  Proof.
    intros. unfold dec_method_frame. apply nofuel_bind; [apply nofuel_fixed | intros c _].
    apply nofuel_bind; [apply nofuel_fixed | intros i _].
    destruct (dispatch_lookup dispatch (fst c) (fst i)); [|discriminate].
    destruct (find_method methods s); [|discriminate].
    apply nofuel_bind; [|intros; discriminate].
    unfold dec_method. apply nofuel_bind; [apply steps_nofuel | intros; discriminate].
  Qed.

  Lemma props_nofuel : forall d rows flags e bs, nofuel (dec_props st rd d rows flags e bs).
  Proof.
    intros d. induction rows as [|r rows IH]; intros flags e bs; cbn [dec_props]; [discriminate|].
    destruct (N.testbit flags (pr_bit r)); [|apply IH].
    apply nofuel_bind; [apply field_nofuel | intros; apply IH].
  Qed.

  Lemma header_nofuel : forall d pf pr bs, nofuel (dec_header st rd d pf pr bs).
  Proof.
    intros. unfold dec_header. destruct (take 14 bs) as [[fixed r]|]; [|discriminate].
    apply nofuel_bind; [apply nofuel_fixed | intros].
    apply nofuel_bind; [apply nofuel_fixed | intros].
    apply nofuel_bind; [apply nofuel_fixed | intros].
    apply nofuel_bind; [apply nofuel_fixed | intros].
    apply nofuel_bind; [apply props_nofuel | intros; discriminate].
  Qed.

  Lemma binding_nofuel : forall d bs, nofuel (dec_binding st rd d bs).
  Proof.
    intros. unfold dec_binding. apply nofuel_bind; [apply nofuel_shortstr | intros].
    apply nofuel_bind; [apply nofuel_shortstr | intros]. apply nofuel_bind; [apply nofuel_shortstr | intros].
    apply nofuel_bind; [apply table_nofuel | intros]. apply nofuel_bind; [apply nofuel_fixed | intros; discriminate].
  Qed.

  (* frames and the body loop of a stored message *)
  Lemma frame_nofuel : forall fa fe bs, nofuel (dec_frame fa fe bs).
  Proof.
    intros. unfold dec_frame. apply nofuel_bind; [apply nofuel_fixed | intros t _].
    apply nofuel_bind; [apply nofuel_fixed | intros c _].
    apply nofuel_bind; [apply nofuel_fixed | intros s _].
    assert (F : nofuel (match takeN (fst s) (snd s) with
                        | Some (p, e :: r') => if e =? fe then Ok ({| f_type := fst t; f_channel := fst c; f_payload := p |}, r') else Err
                        | _ => Err
                        end)).
    { destruct (takeN (fst s) (snd s)) as [[p [|e r']]|]; try discriminate. destruct (e =? fe); discriminate. }
    destruct fa.
    - destruct (blen (snd s) <? (fst s + 1) mod 2 ^ 32); [discriminate|].
      destruct (fst s =? 2 ^ 32 - 1); [discriminate | exact F].
    - destruct (blen (snd s) <? fst s + 1); [discriminate | exact F].
  Qed.

  Lemma frame_consumes : forall fa fe bs f r, dec_frame fa fe bs = Ok (f, r) -> (length r < length bs)%nat.
  Proof.
    intros fa fe bs f r H. unfold dec_frame in H.
    destruct (dec_octet bs) as [[t r0]| | | |] eqn:E; cbn [bind fst snd] in H; try discriminate.
    apply fixed_len in E.
    destruct (dec_short r0) as [[c r1]| | | |] eqn:E1; cbn [bind fst snd] in H; try discriminate. apply fixed_len in E1.
    destruct (dec_long r1) as [[s r2]| | | |] eqn:E2; cbn [bind fst snd] in H; try discriminate. apply fixed_len in E2.
    assert (F : match takeN s r2 with
                | Some (p, e :: r') => if e =? fe then Ok ({| f_type := t; f_channel := c; f_payload := p |}, r') else Err
                | _ => Err
                end = Ok (f, r) -> (length r <= length r2)%nat).
    { intros X. destruct (takeN s r2) as [[p [|e r']]|] eqn:T; try discriminate.
      destruct (e =? fe); [|discriminate]. inversion X; subst. apply takeN_len in T. cbn [length] in T. lia. }
    destruct fa.
    - destruct (blen r2 <? (s + 1) mod 2 ^ 32); [discriminate|].
      destruct (s =? 2 ^ 32 - 1); [discriminate|]. apply F in H. lia.
    - destruct (blen r2 <? s + 1); [discriminate|]. apply F in H. lia.
  Qed.

  Lemma body_nofuel : forall fa fe fuel have want bs, (length bs < fuel)%nat -> nofuel (dec_body fa fe fuel have want bs).
  Proof.
    intros fa fe. induction fuel as [|f IH]; intros have want bs Hlen; [lia|]. cbn [dec_body].
    destruct (have <? want); [|discriminate].
    apply nofuel_bind; [apply frame_nofuel | intros [fr r] E]. cbn [fst snd]. apply frame_consumes in E.
    apply nofuel_bind; [apply IH; lia | intros; discriminate].
  Qed.

  Lemma message_nofuel : forall fa fe d pf pr tr bs, nofuel (dec_message st fa fe rd d pf pr tr bs).
  Proof.
    intros. unfold dec_message. apply nofuel_bind.
    - unfold dec_message_core. apply nofuel_bind; [apply nofuel_fixed | intros].
      apply nofuel_bind; [apply header_nofuel | intros].
      apply nofuel_bind; [apply nofuel_shortstr | intros].
      apply nofuel_bind; [apply nofuel_shortstr | intros].
      apply nofuel_bind; [apply body_nofuel; lia | intros; discriminate].
    - intros x _. destruct (tr && (4 <=? blen (snd x))); [|discriminate].
      apply nofuel_bind; [apply nofuel_fixed | intros; discriminate].
  Qed.
End Fuel.
