(* C14 / C20 over whole histories: the registry link between a queue's consumer registry (q_consumers) and the consumer
   records of the channels, and "no trace of the dead".  (Counts: Proofs/BrokerCountsInv.v; auto-delete: Proofs/BrokerAutoDelete.v.)

   Part 0  a dispatcher "every label keeps I" (R_step) for a state predicate I that the broker's compound operations keep
           (the dispatcher of BrokerLedger2.v asks for I (set_queue s qn qu') for ANY qu' with the same ready list, and for
           I after the removal of ANY connection - neither holds of a predicate that reads the registries);
   Part 1  views: REG (the registry of a queue name), CV (tag, queue, stopped? of the records of a channel), and the
           relation vsim "same registries, same records up to channels without records";
   Part 2  RL, the registry link, kept by every label (QR_step) when all queues in the table are active (QI, which needs
           fx_delete_checks_first: registry_link_refuted), true initially, hence in every reachable state
           (registry_link_reachable);
   Part 3  no trace of the dead: entries of registries, owners of exclusive queues (from Inv, BrokerConserve.v), live
           confirmations, closed channels; a connection that is gone is referred to by nothing. *)
From Coq Require Import List String NArith ZArith Bool Lia ZifyBool ZifyN Permutation.
From RecordUpdate Require Import RecordUpdate.
Import ListNotations.
From GMQ Require Import Broker.Model Proofs.BrokerFrames Proofs.BrokerTags Proofs.BrokerChanInv Proofs.BrokerQueueInv
  Proofs.BrokerHeld Proofs.BrokerRelease Proofs.BrokerRestart Proofs.BrokerConserveView Proofs.BrokerConserveOps Proofs.BrokerConserve.
Open Scope N_scope.

(* ------------------------------------------------------------------ *)
(* Part 0: the dispatcher *)
(* what the frame checks guarantee when a method reaches its handler, as far as the repairs are switched on *)
Definition guardf (fx : fixes) (s : state) (c h : N) (m : meth) : Prop :=
  (fx_stage fx = true -> Bool.eqb (is_conn_class m) (h =? 0) = true) /\
  (fx_chan_open fx = true ->
   negb (is_conn_class m) && negb (chan_usable s c h) && negb (match m with MChannelOpen => true | _ => false end) = false).

Section Dispatch.
Variables (cfg : config) (fx : fixes).
Variable I : state -> Prop.
Hypothesis I_conn_close : forall s c, I s -> I (fst (conn_close cfg fx s c)).
Hypothesis I_closing : forall s c h, I s -> I (upd_chan s c h (fun ch => ch <| ch_status := ChClosing |>)).
Hypothesis I_ensure : forall s c h, I s -> I (ensure_chan s c h).
Hypothesis I_cur : forall s c h, I s -> I (upd_chan s c h (fun ch => ch <| ch_cur := None |>)).
Hypothesis I_add_confirm : forall s c h t, I s -> I (add_confirm s c h t).
Hypothesis I_newconn : forall s c st, get_conn s c = None -> I s ->
  I (s <| conns := aset N.eqb c {| cn_chans := [(0, channel0 <| ch_status := ChNew |>)]; cn_qos := qos0; cn_stage := st |} (conns s) |>).
Hypothesis I_restart : forall s, I s -> I (fst (restart cfg s)).
Hypothesis I_tick : forall s c h ch, get_chan s c h = Some ch -> I s ->
  I (set_chan s c h (ch <| ch_ticker := false |>)) /\ I (set_chan s c h (ch <| ch_confirmq := [] |>)).
Hypothesis I_push : forall s qn u, I s -> I (queue_push s qn u).
Hypothesis I_upd_msg : forall s u f, I s -> I (upd_msg s u f).
Hypothesis I_qloop : forall s qn, I s -> I (queue_loop_turn s qn).
Hypothesis I_autodelete : forall s, I s -> I (fst (step cfg fx s LAutoDelete)).
Hypothesis I_relay : forall s rest, I s -> I (s <| relay := rest |>).
Hypothesis I_persist : forall s, I s -> I (fst (step cfg fx s LPersistTick)).

Lemma R_send_error s c h e : I s -> I (fst (send_error s c h e)).
Proof. intros H. destruct e; cbn [send_error fst]; auto. Qed.

Lemma R_apply_err s c h r : I (fst (fst r)) -> I (fst (apply_err s c h r)).
Proof.
  destruct r as [[s1 e1] [e|]]; cbn [fst]; auto.
  intros H. unfold apply_err. pose proof (R_send_error s1 c h e H) as Hs.
  destruct (send_error s1 c h e) as [s2 e2]. exact Hs.
Qed.

Lemma R_apply_err_st opened s c h r : I (fst (fst r)) -> I (fst (apply_err_st cfg fx opened s c h r)).
Proof.
  intros H. unfold apply_err_st. destruct opened; [apply R_apply_err; auto|].
  destruct (snd r) as [[| ]|]; try (apply R_apply_err; auto).
  pose proof (R_apply_err s c h r H) as H1. destruct (apply_err s c h r) as [s1 e1]. cbn [fst] in H1.
  pose proof (I_conn_close s1 c H1) as H2. destruct (conn_close cfg fx s1 c) as [s2 e2]. exact H2.
Qed.

Lemma R_route_and_push s c h u : I s -> I (fst (route_and_push fx s c h u)).
Proof.
  intros H. unfold route_and_push. destruct (get_msg s u) as [m|]; auto.
  destruct (alookup _ _ _) as [ex|]; cbn [fst]; [|apply I_add_confirm; auto].
  destruct (matched_queues _ _ _) as [|q1 qs]; cbn [fst]; [apply I_add_confirm; auto|].
  apply fold_left_preserves.
  - intros s0 qn H0. unfold push_one. pose proof (I_push s0 qn u H0) as H1.
    destruct (get_msg (queue_push s0 qn u) u); [|exact H1]. destruct (_ && _)%bool; [|exact H1]. apply I_add_confirm; exact H1.
  - destruct (_ && _)%bool; auto.
Qed.

Lemma R_finish_publish s c h u : I s -> I (fst (finish_publish fx s c h u)).
Proof.
  intros H. unfold finish_publish. pose proof (R_route_and_push s c h u H) as H1.
  destruct (route_and_push fx s c h u) as [s1 e1]. cbn [fst] in *. destruct (fx_clear_current fx); auto.
Qed.

Lemma R_generic st s c h m : (guardf fx s c h m -> I s -> I (fst (fst (handle_method cfg fx s c h m)))) -> I s ->
  I (fst (let opened := cstage_eqb st StOpen in
          let closing := match get_chan s c h with Some ch => match ch_status ch with ChClosing => true | _ => false end | None => false end in
          if fx_discard_closing fx && closing && negb (is_chan_close m) then (s, [])
          else if fx_stage fx && negb (Bool.eqb (is_conn_class m) (h =? 0))
               then apply_err_st cfg fx opened s c h (refuse s (ConnErr CommandInvalid (fst (meth_ids m)) (snd (meth_ids m))))
               else if fx_stage fx && negb (stage_allows st m)
                    then apply_err_st cfg fx opened s c h (refuse s (ConnErr CommandInvalid (fst (meth_ids m)) (snd (meth_ids m))))
                    else if fx_chan_open fx && negb (is_conn_class m) && negb (chan_usable s c h) && negb (match m with MChannelOpen => true | _ => false end)
                         then apply_err s c h (refuse s (ConnErr ChannelErr (fst (meth_ids m)) (snd (meth_ids m))))
                         else apply_err_st cfg fx opened s c h (handle_method cfg fx s c h m))).
Proof.
  intros Hm H. cbv zeta.
  destruct (fx_discard_closing fx && _ && _)%bool; [exact H|].
  destruct (fx_stage fx && negb (Bool.eqb _ _))%bool eqn:E1; [apply R_apply_err_st; exact H|].
  destruct (fx_stage fx && negb (stage_allows _ _))%bool; [apply R_apply_err_st; exact H|].
  destruct (_ && _ && _ && _)%bool eqn:E2; [apply R_apply_err; exact H|].
  apply R_apply_err_st. apply Hm; [|exact H]. split.
  - intros F. rewrite F in E1. cbn [andb] in E1. apply Bool.negb_false_iff in E1. exact E1.
  - intros F. rewrite F in E2. cbn [andb] in E2. exact E2.
Qed.

Theorem R_step s l :
  (forall c h m, guardf fx (ensure_chan s c h) c h m -> I (ensure_chan s c h) -> I (fst (fst (handle_method cfg fx (ensure_chan s c h) c h m)))) ->
  (forall c h tag, I s -> I (fst (consumer_turn cfg fx s c h tag))) ->
  I s -> I (fst (step cfg fx s l)).
Proof.
  intros I_method I_turn H. destruct l.
  2:{ (* LMethod *) cbn [step].
    destruct (get_conn s c) as [cn0|]; [|exact H].
    destruct (negb _ && negb _)%bool; [apply I_conn_close; auto|].
    pose proof (I_ensure s c h H) as H0.
    destruct m.
    all: try (apply (R_generic (cn_stage cn0) (ensure_chan s c h) c h); [apply I_method|exact H0]).
    + destruct (fx_stage fx && negb (h =? 0)); [apply R_apply_err; exact H0|].
      pose proof (I_conn_close _ c H0) as Hc.
      destruct (conn_close cfg fx (ensure_chan s c h) c) as [s1 e1]. exact Hc.
    + destruct (fx_stage fx && negb (h =? 0)); [apply R_apply_err; exact H0|]. apply I_conn_close; auto. }
  7:{ (* LPersistTick *) apply I_persist. exact H. }
  all: cbn [step].
  - (* LConnect *) destruct (get_conn s c) eqn:Ec; cbn [fst]; auto.
  - (* LHeader *)
    destruct (get_conn s c) as [cn0|]; [|exact H].
    destruct (negb _ && negb _)%bool; [apply I_conn_close; auto|].
    pose proof (I_ensure s c h H) as H0.
    destruct (get_chan _ c h) as [ch|] eqn:Ech; [|exact H0].
    destruct (_ && _)%bool; [exact H0|].
    destruct (ch_cur ch) as [u|] eqn:Ecur; [|apply R_apply_err_st; auto].
    destruct (get_msg _ u) as [m|] eqn:Em; [|exact H0].
    destruct (m_has_header m) eqn:Ehh; [apply R_apply_err_st; auto|].
    destruct (fx_empty_body fx && (size =? 0))%bool eqn:Ee; [|apply I_upd_msg; exact H0].
    apply R_finish_publish; auto.
  - (* LBody *)
    destruct (get_conn s c) as [cn0|]; [|exact H].
    destruct (negb _ && negb _)%bool; [apply I_conn_close; auto|].
    pose proof (I_ensure s c h H) as H0.
    destruct (get_chan _ c h) as [ch|] eqn:Ech; [|exact H0].
    destruct (_ && _)%bool; [exact H0|].
    destruct (ch_cur ch) as [u|] eqn:Ecur; [|apply R_apply_err_st; auto].
    destruct (get_msg _ u) as [m|] eqn:Em; [|exact H0].
    destruct (negb (m_has_header m)) eqn:Ehh; [apply R_apply_err_st; auto|].
    destruct (m_hsize m <? m_size m + len) eqn:Elt; [apply R_apply_err_st; cbn [fst]; apply I_cur; auto|].
    destruct (m_size m + len <? m_hsize m) eqn:Elt2; [apply I_upd_msg; exact H0|apply R_finish_publish; auto].
  - apply I_turn. exact H.
  - cbn [fst]. apply I_qloop; auto.
  - exact (I_autodelete s H).
  - destruct (relay s) as [|u rest]; [exact H|].
    pose proof (I_relay s rest H) as H0.
    destruct (get_msg _ u) as [m|]; cbn [fst]; auto.
    destruct (m_conf m) as [[[? ?] ?]|]; cbn [fst]; auto.
  - destruct (get_chan s c h) as [ch|] eqn:Ech; [|exact H]. destruct (negb (ch_ticker ch)); [exact H|].
    destruct (I_tick s c h ch Ech H) as [T1 T2].
    destruct (ch_status ch); cbn [fst]; auto.
  - pose proof (I_conn_close s c H) as Hc.
    destruct (conn_close cfg fx s c) as [s1 e1]. exact Hc.
  - (* LAccept *) destruct (get_conn s c) eqn:Ec; cbn [fst]; auto.
  - (* LBadMethod *)
    destruct (get_conn s c) as [cn0|]; [|exact H].
    destruct (negb _ && negb _)%bool; [apply I_conn_close; auto|].
    apply R_apply_err_st; cbn [fst]. apply I_ensure; auto.
  - (* LHeartbeat *)
    destruct (get_conn s c); [|exact H]. destruct (h =? 0); [exact H|apply I_conn_close; auto].
  - (* LRestart *) apply I_restart. exact H.
Qed.

Theorem R_run ls :
  (forall s c h m, guardf fx s c h m -> I s -> I (fst (fst (handle_method cfg fx s c h m)))) ->
  (forall s c h tag, I s -> I (fst (consumer_turn cfg fx s c h tag))) ->
  forall s, I s -> I (fst (run cfg fx s ls)).
Proof.
  intros Hm Ht. induction ls as [|l t IH]; intros s H; cbn [run fst]; auto.
  pose proof (R_step s l (fun c h m => Hm _ c h m) (fun c h tag => Ht s c h tag) H) as H1. destruct (step cfg fx s l) as [s1 e1]. cbn [fst] in H1.
  specialize (IH s1 H1). destruct (run cfg fx s1 t) as [s2 e2]. exact IH.
Qed.
End Dispatch.

(* ------------------------------------------------------------------ *)
(* Part 1: views *)
Definition stopped (cm : consumer) : bool := match c_status cm with CStopped => true | _ => false end.
Definition cvw (ch : channel) : list (string * string * bool) := map (fun cm => (c_tag cm, c_queue cm, stopped cm)) (ch_consumers ch).
Definition CV (s : state) (c h : N) : option (list (string * string * bool)) := option_map cvw (get_chan s c h).
Definition REG (s : state) (qn : string) : option (list (N * N * string)) := option_map q_consumers (get_queue s qn).
Definition nilish {A} (o : option (list A)) : Prop := o = None \/ o = Some [].
Definition vsim (s s' : state) : Prop :=
  (forall qn, REG s' qn = REG s qn) /\ (forall c h, CV s' c h = CV s c h \/ (nilish (CV s c h) /\ nilish (CV s' c h))).

Lemma vsim_refl s : vsim s s.
Proof. split; intros; auto. Qed.
Lemma vsim_trans s1 s2 s3 : vsim s1 s2 -> vsim s2 s3 -> vsim s1 s3.
Proof.
  intros [A1 B1] [A2 B2]. split; [intros; rewrite A2; apply A1|].
  intros c h. destruct (B1 c h) as [E1|[N1 N1']], (B2 c h) as [E2|[N2 N2']].
  - left. congruence.
  - right. rewrite <- E1. auto.
  - right. rewrite E2. auto.
  - right. auto.
Qed.
Lemma vsim_same s s' : queues s' = queues s -> conns s' = conns s -> vsim s s'.
Proof.
  intros Eq Ec. split; [intros; unfold REG, get_queue; rewrite Eq; reflexivity|].
  intros c h. left. unfold CV. rewrite (get_chan_same_conns _ _ _ _ Ec). reflexivity.
Qed.
Lemma vsim_chans s s' : queues s' = queues s -> (forall c h, get_chan s' c h = get_chan s c h) -> vsim s s'.
Proof.
  intros Eq Ec. split; [intros; unfold REG, get_queue; rewrite Eq; reflexivity|].
  intros c h. left. unfold CV. rewrite Ec. reflexivity.
Qed.

Lemma CV_set_chan s c h ch c' h' :
  CV (set_chan s c h ch) c' h' =
  match get_conn s c with Some _ => if (c' =? c) && (h' =? h) then Some (cvw ch) else CV s c' h' | None => CV s c' h' end.
Proof. unfold CV. rewrite get_chan_set_chan. destruct (get_conn s c); [|reflexivity]. destruct (_ && _)%bool; reflexivity. Qed.

Lemma both_eq c h c' h' : (c' =? c) && (h' =? h) = true -> c' = c /\ h' = h.
Proof. intros E. apply andb_prop in E. destruct E as [E1 E2]. apply N.eqb_eq in E1, E2. auto. Qed.

Lemma vsim_set_chan s c h ch ch' : get_chan s c h = Some ch -> cvw ch' = cvw ch -> vsim s (set_chan s c h ch').
Proof.
  intros Eg Ev. split; [intros; unfold REG, get_queue; rewrite queues_set_chan; reflexivity|].
  intros c' h'. left. rewrite CV_set_chan. destruct (get_conn s c); [|reflexivity].
  destruct ((c' =? c) && (h' =? h)) eqn:Eb; [|reflexivity]. apply both_eq in Eb. destruct Eb; subst.
  unfold CV. rewrite Eg. cbn. congruence.
Qed.
Lemma vsim_upd_chan s c h f : (forall ch, cvw (f ch) = cvw ch) -> vsim s (upd_chan s c h f).
Proof. intros Hf. unfold upd_chan. destruct (get_chan s c h) as [ch|] eqn:E; [|apply vsim_refl]. eapply vsim_set_chan; eauto. Qed.

Lemma get_queue_set_queue' s q v q' : get_queue (set_queue s q v) q' = if seqb q' q then Some v else get_queue s q'.
Proof. unfold get_queue, set_queue. cbn. apply (alookup_aset seqb seqb_spec). Qed.
Lemma REG_set_queue s q v q' : REG (set_queue s q v) q' = if seqb q' q then Some (q_consumers v) else REG s q'.
Proof. unfold REG. rewrite get_queue_set_queue'. destruct (seqb q' q); reflexivity. Qed.
Lemma vsim_set_queue s q qu qu' : get_queue s q = Some qu -> q_consumers qu' = q_consumers qu -> vsim s (set_queue s q qu').
Proof.
  intros Eg Ev. split; [|intros; left; reflexivity].
  intros q'. rewrite REG_set_queue. destruct (seqb q' q) eqn:E; [|reflexivity]. apply seqb_spec in E. subst.
  unfold REG. rewrite Eg. cbn. congruence.
Qed.
Lemma vsim_upd_queue s q f : (forall qu, q_consumers (f qu) = q_consumers qu) -> vsim s (upd_queue s q f).
Proof. intros Hf. unfold upd_queue. destruct (get_queue s q) as [qu|] eqn:E; [|apply vsim_refl]. eapply vsim_set_queue; eauto. Qed.

Lemma vsim_conn_qos s c cn f : get_conn s c = Some cn -> vsim s (s <| conns := aset N.eqb c (cn <| cn_qos ::= f |>) (conns s) |>).
Proof. intros Ec. apply vsim_chans; [reflexivity|]. intros. apply get_chan_set_conn_qos. exact Ec. Qed.
Lemma vsim_set_stage s c st : vsim s (set_stage s c st).
Proof. apply vsim_chans; [apply queues_set_stage|]. intros. apply get_chan_set_stage. Qed.
Lemma vsim_upd_msg s u f : vsim s (upd_msg s u f).
Proof. apply vsim_same; [apply queues_upd_msg|apply conns_upd_msg]. Qed.

Lemma cvw_upd_consumer ch tag f :
  (forall cm, c_tag (f cm) = c_tag cm /\ c_queue (f cm) = c_queue cm /\ stopped (f cm) = stopped cm) -> cvw (upd_consumer ch tag f) = cvw ch.
Proof.
  intros Hf. unfold cvw, upd_consumer. cbn. rewrite map_map. apply map_ext. intros cm.
  destruct (seqb (c_tag cm) tag); [|reflexivity]. destruct (Hf cm) as (A & B & C). congruence.
Qed.
Lemma cvw_map ch f :
  (forall cm, c_tag (f cm) = c_tag cm /\ c_queue (f cm) = c_queue cm /\ stopped (f cm) = stopped cm) ->
  cvw (ch <| ch_consumers ::= map f |>) = cvw ch.
Proof. intros Hf. unfold cvw. cbn. rewrite map_map. apply map_ext. intros cm. destruct (Hf cm) as (A & B & C). congruence. Qed.
Lemma consume_msg_same cm : c_tag (fst (consume_msg cm)) = c_tag cm /\ c_queue (fst (consume_msg cm)) = c_queue cm /\ stopped (fst (consume_msg cm)) = stopped cm.
Proof.
  unfold consume_msg, stopped. destruct (c_status cm) eqn:E; cbn [fst]; rewrite ?E; auto.
  destruct (c_token cm); cbn [fst]; rewrite ?E; auto. cbn. rewrite E. auto.
Qed.
Lemma q_consumers_popped rest qu : q_consumers (popped rest qu) = q_consumers qu.
Proof. apply popped_keeps. Qed.

(* peeling the outermost update off the target state *)
Ltac vpeel :=
  match goal with
  | |- vsim ?s ?s => apply vsim_refl
  | H : vsim ?s ?s1 |- vsim ?s ?s1 => exact H
  | |- vsim _ (upd_chan ?s1 _ _ _) => apply (vsim_trans _ s1); [|apply vsim_upd_chan; intros; first [reflexivity|apply cvw_upd_consumer; intros; auto|apply cvw_map; intros; auto]]
  | |- vsim _ (upd_queue ?s1 _ _) => apply (vsim_trans _ s1); [|apply vsim_upd_queue; intros; first [reflexivity|apply q_consumers_popped]]
  | |- vsim _ (upd_msg ?s1 _ _) => apply (vsim_trans _ s1); [|apply vsim_upd_msg]
  | |- vsim _ (set_stage ?s1 _ _) => apply (vsim_trans _ s1); [|apply vsim_set_stage]
  | |- vsim _ (if ?b then _ else _) => destruct b eqn:?
  | |- vsim _ (match ?x with _ => _ end) => destruct x eqn:?
  | |- vsim _ (@set state _ _ _ _ ?s1) => apply (vsim_trans _ s1); [|apply vsim_same; reflexivity]
  end.

Lemma vsim_fold {A} (f : state -> A -> state) l : (forall s a, vsim s (f s a)) -> forall s, vsim s (fold_left f l s).
Proof.
  intros Hf. induction l as [|a t IH]; intros s; cbn; [apply vsim_refl|].
  eapply vsim_trans; [apply Hf|apply IH].
Qed.

Lemma vsim_store_writeback s qn u d : vsim s (store_writeback s qn u d).
Proof. unfold store_writeback. repeat vpeel. Qed.
Lemma vsim_store_purge s qn : vsim s (store_purge s qn).
Proof. unfold store_purge. apply vsim_same; reflexivity. Qed.

Lemma vsim_queue_push s qn u : vsim s (queue_push s qn u).
Proof.
  unfold queue_push. destruct (get_queue s qn) as [qu|] eqn:Eq; [|apply vsim_refl]. destruct (get_msg s u) as [m|]; [|apply vsim_refl].
  destruct (negb _); [apply vsim_refl|]. cbv zeta.
  match goal with |- vsim _ (set_queue ?s1 _ _) => apply (vsim_trans _ s1) end.
  - repeat vpeel.
  - apply (vsim_set_queue _ _ qu).
    + match goal with |- get_queue ?s1 _ = _ => replace (get_queue s1 qn) with (get_queue s qn); [exact Eq|] end.
      unfold get_queue. destruct (_ && _)%bool; [reflexivity|]. destruct (m_conf m); [rewrite queues_upd_msg|]; reflexivity.
    + unfold call_consumers. destruct (q_active _); reflexivity.
Qed.

Lemma vsim_queue_ackmsg s qn u : vsim s (queue_ackmsg s qn u).
Proof.
  unfold queue_ackmsg. destruct (get_queue s qn) as [qu|] eqn:Eq; [|apply vsim_refl]. destruct (get_msg s u) as [m|]; [|apply vsim_refl].
  destruct (negb _); [apply vsim_refl|]. cbv zeta.
  match goal with |- vsim _ (set_queue ?s1 _ _) => apply (vsim_trans _ s1) end.
  - repeat vpeel.
  - apply (vsim_set_queue _ _ qu); [|reflexivity].
    unfold get_queue in *. destruct (_ && _)%bool; exact Eq.
Qed.

Lemma vsim_queue_requeue s qn u : vsim s (queue_requeue s qn u).
Proof.
  unfold queue_requeue. destruct (get_queue s qn) as [qu|] eqn:Eq; [|apply vsim_refl].
  destruct (negb _); [apply vsim_refl|]. cbv zeta.
  match goal with |- vsim _ (set_queue ?s1 _ _) => apply (vsim_trans _ s1) end.
  - repeat vpeel. apply vsim_store_writeback.
  - apply (vsim_set_queue _ _ qu).
    + unfold get_queue in *. cbn. rewrite queues_upd_msg. rewrite (proj1 (proj2 (store_writeback_frame _ _ _ _))). exact Eq.
    + unfold call_consumers. destruct (q_active _); reflexivity.
Qed.

Lemma vsim_chan_ackmsg s u : vsim s (chan_ackmsg s u).
Proof. unfold chan_ackmsg. destruct (origin_queue s u); [apply vsim_queue_ackmsg|repeat vpeel]. Qed.
Lemma vsim_chan_rejectmsg s u r : vsim s (chan_rejectmsg s u r).
Proof.
  unfold chan_rejectmsg. destruct (origin_queue s u); [|repeat vpeel].
  destruct r; [apply vsim_queue_requeue|apply vsim_queue_ackmsg].
Qed.

Lemma vsim_wake_all s c h : vsim s (wake_all_of_chan s c h).
Proof. unfold wake_all_of_chan. apply vsim_upd_chan. intros ch. apply cvw_map. intros cm. apply consume_msg_same. Qed.
Lemma vsim_wake_consumers cfg s c h : vsim s (wake_consumers cfg s c h).
Proof.
  unfold wake_consumers. destruct (cfg_rabbit cfg); [apply vsim_wake_all|].
  destruct (get_conn _ c); [|apply vsim_wake_all].
  eapply vsim_trans; [apply vsim_wake_all|]. apply vsim_fold. intros s0 a. destruct (fst a =? h); [apply vsim_refl|apply vsim_wake_all].
Qed.

Lemma vsim_dec_qos cfg s c h u : vsim s (dec_qos_and_consume_next cfg s c h u).
Proof.
  unfold dec_qos_and_consume_next. destruct (get_chan s c h) as [ch|]; [|apply vsim_refl].
  eapply vsim_trans; [|apply vsim_wake_consumers].
  destruct (find_consumer ch (u_ctag u)).
  - destruct (cfg_rabbit cfg); [repeat vpeel|].
    destruct (get_conn _ c) eqn:Ec; [|repeat vpeel].
    eapply vsim_trans; [|apply vsim_conn_qos; exact Ec]. repeat vpeel.
  - destruct (get_conn _ c) eqn:Ec; [|repeat vpeel].
    eapply vsim_trans; [|apply vsim_conn_qos; exact Ec]. repeat vpeel.
Qed.

Lemma cvw_del ch tag : cvw (del_unacked ch tag) = cvw ch.
Proof. reflexivity. Qed.

Lemma vsim_handle_reject cfg s c h tag mult requeue cls mth : vsim s (fst (handle_reject cfg s c h tag mult requeue cls mth)).
Proof.
  unfold handle_reject. destruct (get_chan s c h) as [ch|]; [|apply vsim_refl].
  destruct mult.
  - cbn [fst]. eapply vsim_trans; [|apply vsim_fold; intros; apply vsim_dec_qos].
    apply vsim_fold. intros s0 a. eapply vsim_trans; [|apply vsim_chan_rejectmsg]. apply vsim_upd_chan. reflexivity.
  - destruct (find _ _); cbn [fst]; [|apply vsim_refl].
    eapply vsim_trans; [|apply vsim_dec_qos]. eapply vsim_trans; [|apply vsim_chan_rejectmsg]. apply vsim_upd_chan. reflexivity.
Qed.
Lemma vsim_handle_ack cfg s c h tag mult : vsim s (fst (handle_ack cfg s c h tag mult)).
Proof.
  unfold handle_ack. destruct (get_chan s c h) as [ch|]; [|apply vsim_refl].
  destruct mult.
  - cbn [fst]. eapply vsim_trans; [|apply vsim_fold; intros; apply vsim_dec_qos].
    apply vsim_fold. intros s0 a. eapply vsim_trans; [|apply vsim_chan_ackmsg]. apply vsim_upd_chan. reflexivity.
  - destruct (find _ _); cbn [fst]; [|apply vsim_refl].
    eapply vsim_trans; [|apply vsim_dec_qos]. eapply vsim_trans; [|apply vsim_chan_ackmsg]. apply vsim_upd_chan. reflexivity.
Qed.

Lemma vsim_add_confirm s c h t : vsim s (add_confirm s c h t).
Proof.
  unfold add_confirm. destruct (get_chan s c h) as [ch|] eqn:E; [|apply vsim_refl]. destruct (negb _); [apply vsim_refl|].
  destruct (ch_status ch); try apply vsim_refl; destruct t as [[[? ?] ?]|]; try apply vsim_refl; (eapply vsim_set_chan; [exact E|reflexivity]).
Qed.

Lemma vsim_store_confirm s u : vsim s (store_confirm s u).
Proof. apply vsim_same; [apply queues_store_confirm|apply conns_store_confirm]. Qed.

Lemma nilish_nil {A} : nilish (Some (@nil A)). Proof. right. reflexivity. Qed.
Lemma nilish_none {A} : nilish (@None (list A)). Proof. left. reflexivity. Qed.

Lemma vsim_ensure s c h : vsim s (ensure_chan s c h).
Proof.
  unfold ensure_chan. destruct (get_conn s c) as [cn|] eqn:Ec; [|apply vsim_refl].
  destruct (alookup N.eqb h (cn_chans cn)) eqn:Eh; [apply vsim_refl|].
  split; [reflexivity|]. intros c' h'. unfold CV, get_chan, get_conn in *. cbn.
  rewrite (alookup_aset N.eqb Neqb_spec). destruct (c' =? c) eqn:E1; [|left; reflexivity].
  apply N.eqb_eq in E1. subst. rewrite Ec. cbn. rewrite (alookup_aset N.eqb Neqb_spec).
  destruct (h' =? h) eqn:E2; [|left; reflexivity]. apply N.eqb_eq in E2. subst. rewrite Eh. right. split; [apply nilish_none|apply nilish_nil].
Qed.

Lemma vsim_newconn s c st : get_conn s c = None ->
  vsim s (s <| conns := aset N.eqb c {| cn_chans := [(0, channel0 <| ch_status := ChNew |>)]; cn_qos := qos0; cn_stage := st |} (conns s) |>).
Proof.
  intros Ec. split; [reflexivity|]. intros c' h'. unfold CV, get_chan, get_conn in *. cbn.
  rewrite (alookup_aset N.eqb Neqb_spec). destruct (c' =? c) eqn:E1; [|left; reflexivity].
  apply N.eqb_eq in E1. subst. rewrite Ec. right. split; [apply nilish_none|].
  cbn. destruct (h' =? 0); [apply nilish_nil|apply nilish_none].
Qed.

(* a connection all of whose channels are without records can go *)
Lemma vsim_delconn s c : (forall h, nilish (CV s c h)) -> vsim s (s <| conns := adel N.eqb c (conns s) |>).
Proof.
  intros Hn. split; [reflexivity|]. intros c' h'.
  assert (X : CV (s <| conns := adel N.eqb c (conns s) |>) c' h' = if c' =? c then None else CV s c' h')
    by (unfold CV; rewrite get_chan_del_conn; destruct (c' =? c); reflexivity).
  rewrite X. clear X.
  destruct (c' =? c) eqn:E; [|left; reflexivity]. apply N.eqb_eq in E. subst. right. split; [apply Hn|apply nilish_none].
Qed.

(* ------------------------------------------------------------------ *)
(* Part 2: the registry link *)
Definition tagof (x : string * string * bool) : string := fst (fst x).
Record RL (s : state) : Prop := {
  rl_fwd : forall qn l c h tag, REG s qn = Some l -> In (c, h, tag) l -> exists v, CV s c h = Some v /\ In (tag, qn, false) v;
  rl_bwd : forall c h v tag qn, CV s c h = Some v -> In (tag, qn, false) v -> exists l, REG s qn = Some l /\ In (c, h, tag) l;
  rl_nd : forall qn l, REG s qn = Some l -> NoDup l;
  rl_tu : forall c h v, CV s c h = Some v -> NoDup (map tagof v) }.

Lemma nilish_some_in {A} (v : list A) x : nilish (Some v) -> In x v -> False.
Proof. intros [E|E]; [discriminate|]. inversion E. subst. intros []. Qed.

Lemma RL_vsim s s' : vsim s s' -> RL s -> RL s'.
Proof.
  intros [Hq Hc] [F B Nd T]. split.
  - intros qn l c h tag Hr Hin. rewrite Hq in Hr. destruct (F _ _ _ _ _ Hr Hin) as (v & Hv & Hi).
    destruct (Hc c h) as [E|[N1 N2]]; [exists v; rewrite E; auto|].
    rewrite Hv in N1. exfalso. eapply nilish_some_in; eauto.
  - intros c h v tag qn Hv Hin. destruct (Hc c h) as [E|[N1 N2]].
    + rewrite E in Hv. destruct (B _ _ _ _ _ Hv Hin) as (l & Hl & Hi). exists l. rewrite Hq. auto.
    + rewrite Hv in N2. exfalso. eapply nilish_some_in; eauto.
  - intros qn l Hr. rewrite Hq in Hr. eauto.
  - intros c h v Hv. destruct (Hc c h) as [E|[N1 N2]]; [rewrite E in Hv; eauto|].
    rewrite Hv in N2. destruct N2 as [X|X]; [discriminate|]. inversion X. constructor.
Qed.

Definition pent (c h : N) (tag : string) (x : N * N * string) : bool := (fst (fst x) =? c) && (snd (fst x) =? h) && seqb (snd x) tag.
Lemma pent_true c h tag x : pent c h tag x = true <-> x = (c, h, tag).
Proof.
  destruct x as [[c' h'] t']. unfold pent. cbn. split.
  - intros E. apply andb_prop in E. destruct E as [E E3]. apply andb_prop in E. destruct E as [E1 E2].
    apply N.eqb_eq in E1, E2. apply seqb_spec in E3. congruence.
  - intros E. inversion E. subst. rewrite !N.eqb_refl. cbn. apply seqb_spec. reflexivity.
Qed.

Lemma in_remove_first {A} (p : A -> bool) l y : In y (remove_first p l) -> In y l.
Proof. induction l as [|a t IH]; cbn; auto. destruct (p a); cbn; intuition. Qed.
Lemma in_remove_first_keep {A} (p : A -> bool) l y : In y l -> p y = false -> In y (remove_first p l).
Proof.
  induction l as [|a t IH]; cbn; auto. intros [->|Hin] Hp.
  - rewrite Hp. left. reflexivity.
  - destruct (p a); [exact Hin|right; auto].
Qed.
Lemma NoDup_remove_first {A} (p : A -> bool) l : NoDup l -> NoDup (remove_first p l).
Proof.
  induction l as [|a t IH]; cbn; auto. intros Hn. inversion Hn; subst. destruct (p a); auto.
  constructor; auto. intros Hi. apply in_remove_first in Hi. contradiction.
Qed.
Lemma in_remove_first_not {A} (p : A -> bool) l y : NoDup l -> (forall a b, p a = true -> p b = true -> a = b) ->
  In y (remove_first p l) -> p y = false.
Proof.
  intros Hn Hu. induction l as [|a t IH]; cbn; [intros []|]. inversion Hn; subst.
  destruct (p a) eqn:Ea.
  - intros Hi. destruct (p y) eqn:Ey; auto. assert (a = y) by (apply Hu; auto). subst. contradiction.
  - intros [->|Hi]; auto.
Qed.

Lemma REG_qrc s qn c h tag q' :
  REG (queue_remove_consumer s qn c h tag) q' = if seqb q' qn then option_map (remove_first (pent c h tag)) (REG s qn) else REG s q'.
Proof.
  unfold queue_remove_consumer. destruct (get_queue s qn) as [qu|] eqn:Eq.
  - cbv zeta.
    match goal with |- REG (if ?b then set autodel ?f ?s1 else ?s2) _ = _ =>
      assert (X : REG (if b then set autodel f s1 else s2) q' = REG s2 q') by (destruct b; reflexivity); rewrite X; clear X end.
    rewrite REG_set_queue. unfold REG at 2. rewrite Eq. cbn [option_map].
    destruct (seqb q' qn); [|reflexivity]. f_equal.
    destruct (Nat.eqb _ 0); reflexivity.
  - unfold REG at 2. rewrite Eq. cbn. destruct (seqb q' qn) eqn:E; [|reflexivity]. apply seqb_spec in E. subst. unfold REG. rewrite Eq. reflexivity.
Qed.
Lemma CV_qrc s qn c h tag c' h' : CV (queue_remove_consumer s qn c h tag) c' h' = CV s c' h'.
Proof. unfold CV. rewrite (get_chan_same_conns _ _ _ _ (proj2 (proj2 (proj2 conns_queue_ops)) s qn c h tag)). reflexivity. Qed.

Definition stopit (tag : string) (x : string * string * bool) : string * string * bool :=
  if seqb (tagof x) tag then (tagof x, snd (fst x), true) else x.
Lemma cvw_stop ch tag : cvw (upd_consumer ch tag (fun cm => cm <| c_status := CStopped |>)) = map (stopit tag) (cvw ch).
Proof.
  unfold cvw, upd_consumer. cbn. rewrite !map_map. apply map_ext. intros cm. unfold stopit, tagof. cbn.
  destruct (seqb (c_tag cm) tag); reflexivity.
Qed.
Lemma tagof_stopit tag v : map tagof (map (stopit tag) v) = map tagof v.
Proof. rewrite map_map. apply map_ext. intros [[t q] b]. unfold stopit, tagof. cbn. destruct (seqb t tag); reflexivity. Qed.

Lemma find_consumer_cvw ch tag cm : find_consumer ch tag = Some cm -> In (tag, c_queue cm, stopped cm) (cvw ch).
Proof.
  intros Hf. apply find_some in Hf. destruct Hf as [Hin Ht]. apply seqb_spec in Ht. subst tag.
  unfold cvw. apply in_map_iff. exists cm. auto.
Qed.

Lemma nodup_tag_unique v t q b q' b' : NoDup (map tagof v) -> In (t, q, b) v -> In (t, q', b') v -> q = q' /\ b = b'.
Proof.
  induction v as [|x r IH]; cbn; [intros _ []|]. intros Hn. inversion Hn as [|? ? Hni Hnr]; subst.
  intros [E1|G1] [E2|G2]; subst.
  - inversion E2. auto.
  - exfalso. apply Hni. apply in_map_iff. exists (t, q', b'). auto.
  - exfalso. apply Hni. apply in_map_iff. exists (t, q, b). auto.
  - auto.
Qed.

Lemma stopped_false cm : stopped cm = false <-> c_status cm <> CStopped.
Proof. unfold stopped. destruct (c_status cm); split; congruence. Qed.

(* what Consumer.Stop does to the views *)
Lemma consumer_stop_views s c h tag :
  (get_chan s c h = None /\ consumer_stop s c h tag = s) \/
  (exists ch, get_chan s c h = Some ch /\ find_consumer ch tag = None /\ consumer_stop s c h tag = s) \/
  (exists ch cm, get_chan s c h = Some ch /\ find_consumer ch tag = Some cm /\ stopped cm = true /\ consumer_stop s c h tag = s) \/
  exists ch cm, get_chan s c h = Some ch /\ find_consumer ch tag = Some cm /\ stopped cm = false /\
    (forall c' h', CV (consumer_stop s c h tag) c' h' = if (c' =? c) && (h' =? h) then Some (map (stopit tag) (cvw ch)) else CV s c' h') /\
    (forall q', REG (consumer_stop s c h tag) q' = if seqb q' (c_queue cm) then option_map (remove_first (pent c h tag)) (REG s (c_queue cm)) else REG s q').
Proof.
  unfold consumer_stop. destruct (get_chan s c h) as [ch|] eqn:Ech; [|left; auto].
  destruct (find_consumer ch tag) as [cm|] eqn:Ef; [|right; left; exists ch; auto].
  destruct (c_status cm) eqn:Es; [|right; right; left; exists ch, cm; unfold stopped; rewrite Es; auto|]; right; right; right; exists ch, cm;
    (split; [reflexivity|]; split; [exact Ef|]; split; [unfold stopped; rewrite Es; reflexivity|]; split).
  all: try (intros c' h'; rewrite CV_qrc, CV_set_chan; pose proof (get_chan_conn _ _ _ _ Ech) as Hc;
            destruct (get_conn s c); [|congruence]; rewrite cvw_stop; reflexivity).
  all: intros q'; rewrite REG_qrc; unfold REG; unfold get_queue; rewrite !queues_set_chan; reflexivity.
Qed.

Lemma RL_consumer_stop s c h tag : RL s -> RL (consumer_stop s c h tag).
Proof.
  intros H. destruct (consumer_stop_views s c h tag) as [[_ E]|[(ch & _ & _ & E)|[(ch & cm & _ & _ & _ & E)|(ch & cm & Ech & Ef & Est & HC & HR)]]];
    try (rewrite E; exact H).
  set (s' := consumer_stop s c h tag) in *. clearbody s'.
  destruct H as [F B Nd T].
  assert (Hv : CV s c h = Some (cvw ch)) by (unfold CV; rewrite Ech; reflexivity).
  pose proof (find_consumer_cvw _ _ _ Ef) as Hcm. rewrite Est in Hcm.
  pose proof (T _ _ _ Hv) as Tv.
  set (q0 := c_queue cm) in *.
  assert (Pu : forall a b, pent c h tag a = true -> pent c h tag b = true -> a = b)
    by (intros a b Ha Hb; apply pent_true in Ha, Hb; congruence).
  split.
  - (* fwd *) intros qn l' c0 h0 t0 Hr Hin. rewrite HR in Hr.
    assert (Hl : exists l, REG s qn = Some l /\ In (c0,h0,t0) l /\ (qn = q0 -> (c0,h0,t0) <> (c,h,tag))).
    { destruct (seqb qn q0) eqn:Eq.
      - apply seqb_spec in Eq. subst qn. destruct (REG s q0) as [l|] eqn:El; [|discriminate]. cbn in Hr. inversion Hr; subst l'.
        exists l. split; [reflexivity|]. split; [eapply in_remove_first; eauto|].
        intros _ Ex. pose proof (in_remove_first_not _ _ _ (Nd _ _ El) Pu Hin) as Hp. rewrite Ex in Hp.
        rewrite (proj2 (pent_true c h tag _) eq_refl) in Hp. discriminate.
      - exists l'. split; auto. split; auto. intros ->. rewrite (proj2 (seqb_spec _ _) eq_refl) in Eq. discriminate. }
    destruct Hl as (l & Hl & Hi & Hne).
    destruct (F _ _ _ _ _ Hl Hi) as (v0 & Hv0 & Hi0).
    rewrite HC. destruct ((c0 =? c) && (h0 =? h)) eqn:Eb.
    + apply both_eq in Eb. destruct Eb; subst c0 h0. rewrite Hv in Hv0. inversion Hv0; subst v0.
      eexists; split; [reflexivity|]. apply in_map_iff. exists (t0, qn, false). split; auto.
      unfold stopit, tagof. cbn. destruct (seqb t0 tag) eqn:Et; auto.
      apply seqb_spec in Et. subst t0. exfalso.
      destruct (nodup_tag_unique _ _ _ _ _ _ Tv Hi0 Hcm) as [Eq _]. apply (Hne Eq). reflexivity.
    + exists v0. auto.
  - (* bwd *) intros c0 h0 v0 t0 qn Hv0 Hin. rewrite HC in Hv0.
    assert (Hx : exists v1, CV s c0 h0 = Some v1 /\ In (t0,qn,false) v1 /\ ((c0,h0) = (c,h) -> t0 <> tag)).
    { destruct ((c0 =? c) && (h0 =? h)) eqn:Eb.
      - apply both_eq in Eb. destruct Eb; subst c0 h0. inversion Hv0; subst v0. exists (cvw ch). split; auto.
        apply in_map_iff in Hin. destruct Hin as (x & Hx & Hin). unfold stopit in Hx.
        destruct (seqb (tagof x) tag) eqn:Et; [inversion Hx|].
        subst x. split; auto. intros _ ->. unfold tagof in Et. cbn in Et. rewrite (proj2 (seqb_spec _ _) eq_refl) in Et. discriminate.
      - exists v0. split; auto. split; auto. intros E. inversion E; subst. rewrite !N.eqb_refl in Eb. discriminate. }
    destruct Hx as (v1 & Hv1 & Hi1 & Hne).
    destruct (B _ _ _ _ _ Hv1 Hi1) as (l & Hl & Hi).
    rewrite HR. destruct (seqb qn q0) eqn:Eq.
    + apply seqb_spec in Eq. subst qn. rewrite Hl. cbn. eexists; split; [reflexivity|].
      apply in_remove_first_keep; auto. destruct (pent c h tag (c0,h0,t0)) eqn:Ep; auto.
      apply pent_true in Ep. inversion Ep; subst. exfalso. apply Hne; reflexivity.
    + exists l. auto.
  - intros qn l' Hr. rewrite HR in Hr. destruct (seqb qn q0); [|eauto].
    destruct (REG s q0) as [l|] eqn:El; [|discriminate]. cbn in Hr. inversion Hr. apply NoDup_remove_first. eauto.
  - intros c0 h0 v0 Hv0. rewrite HC in Hv0. destruct ((c0 =? c) && (h0 =? h)); [|eauto].
    inversion Hv0. rewrite tagof_stopit. exact Tv.
Qed.

Lemma find_consumer_none_cvw ch tag : find_consumer ch tag = None -> forall q b, ~ In (tag, q, b) (cvw ch).
Proof.
  intros Hf q b Hin. unfold cvw in Hin. apply in_map_iff in Hin. destruct Hin as (cm & E & Hin). inversion E; subst.
  pose proof (find_none _ _ Hf cm Hin) as X. cbn in X. rewrite (proj2 (seqb_spec _ _) eq_refl) in X. discriminate.
Qed.

(* after Consumer.Stop no record of that tag is left running on the channel *)
Lemma stop_stops s c h tag : RL s -> forall v q, CV (consumer_stop s c h tag) c h = Some v -> ~ In (tag, q, false) v.
Proof.
  intros H v q Hv Hin.
  destruct (consumer_stop_views s c h tag) as [[En E]|[(ch & Ech & Ef & E)|[(ch & cm & Ech & Ef & Est & E)|(ch & cm & Ech & Ef & Est & HC & HR)]]].
  - rewrite E in Hv. unfold CV in Hv. rewrite En in Hv. discriminate.
  - rewrite E in Hv. unfold CV in Hv. rewrite Ech in Hv. inversion Hv; subst. eapply find_consumer_none_cvw; eauto.
  - rewrite E in Hv. assert (Hv' := Hv). unfold CV in Hv. rewrite Ech in Hv. inversion Hv; subst.
    pose proof (find_consumer_cvw _ _ _ Ef) as Hcm. rewrite Est in Hcm.
    destruct (nodup_tag_unique _ _ _ _ _ _ (rl_tu _ H _ _ _ Hv') Hin Hcm) as [_ X]. discriminate.
  - rewrite HC, !N.eqb_refl in Hv. cbn in Hv. inversion Hv; subst. apply in_map_iff in Hin. destruct Hin as ([[t q1] b] & Ex & _).
    unfold stopit, tagof in Ex. cbn in Ex. destruct (seqb t tag) eqn:Et; inversion Ex; subst.
    rewrite (proj2 (seqb_spec _ _) eq_refl) in Et. discriminate.
Qed.

(* Consumer.Stop never starts a record and never adds an entry *)
Lemma cs_cv_mono s c h tag c' h' v1 : CV (consumer_stop s c h tag) c' h' = Some v1 ->
  exists v, CV s c' h' = Some v /\ forall t q, In (t, q, false) v1 -> In (t, q, false) v.
Proof.
  intros Hv.
  destruct (consumer_stop_views s c h tag) as [[En E]|[(ch & Ech & Ef & E)|[(ch & cm & Ech & Ef & Est & E)|(ch & cm & Ech & Ef & Est & HC & HR)]]];
    try (rewrite E in Hv; exists v1; auto).
  rewrite HC in Hv. destruct ((c' =? c) && (h' =? h)) eqn:Eb; [|exists v1; auto].
  apply both_eq in Eb. destruct Eb; subst. inversion Hv; subst. exists (cvw ch). split; [unfold CV; rewrite Ech; reflexivity|].
  intros t q Hin. apply in_map_iff in Hin. destruct Hin as (x & Ex & Hin). unfold stopit in Ex. destruct (seqb (tagof x) tag); [inversion Ex|subst; auto].
Qed.
Lemma cs_reg_mono s c h tag q l1 : REG (consumer_stop s c h tag) q = Some l1 -> exists l, REG s q = Some l /\ forall x, In x l1 -> In x l.
Proof.
  intros Hv.
  destruct (consumer_stop_views s c h tag) as [[En E]|[(ch & Ech & Ef & E)|[(ch & cm & Ech & Ef & Est & E)|(ch & cm & Ech & Ef & Est & HC & HR)]]];
    try (rewrite E in Hv; exists l1; auto).
  rewrite HR in Hv. destruct (seqb q (c_queue cm)) eqn:Eq; [|exists l1; auto].
  apply seqb_spec in Eq. subst q. destruct (REG s (c_queue cm)) as [l|]; [|discriminate]. cbn in Hv. inversion Hv; subst.
  exists l. split; auto. intros x. apply in_remove_first.
Qed.

Definition Gone (s : state) (x : N * N * string) : Prop := forall q l, REG s q = Some l -> ~ In x l.
Definition NSGone (s : state) (c h : N) (t : string) : Prop := forall v q, CV s c h = Some v -> ~ In (t, q, false) v.

Lemma Gone_stop_mono s c h tag x : Gone s x -> Gone (consumer_stop s c h tag) x.
Proof. intros G q l1 Hr Hin. destruct (cs_reg_mono _ _ _ _ _ _ Hr) as (l & Hl & Hi). apply (G q l Hl). auto. Qed.
Lemma NSGone_stop_mono s c h tag c' h' t : NSGone s c' h' t -> NSGone (consumer_stop s c h tag) c' h' t.
Proof. intros G v1 q Hv Hin. destruct (cs_cv_mono _ _ _ _ _ _ _ Hv) as (v & Hv0 & Hi). apply (G v q Hv0). auto. Qed.
Lemma Gone_after_stop s c h tag : RL s -> Gone (consumer_stop s c h tag) (c, h, tag).
Proof.
  intros H q l Hr Hin. pose proof (RL_consumer_stop s c h tag H) as H1.
  destruct (rl_fwd _ H1 _ _ _ _ _ Hr Hin) as (v & Hv & Hi). exact (stop_stops s c h tag H v q Hv Hi).
Qed.

Lemma RL_stop_fold c h (l : list consumer) : forall s, RL s ->
  RL (fold_left (fun s cm => consumer_stop s c h (c_tag cm)) l s) /\
  forall t, (In t (map c_tag l) \/ NSGone s c h t) -> NSGone (fold_left (fun s cm => consumer_stop s c h (c_tag cm)) l s) c h t.
Proof.
  induction l as [|cm r IH]; intros s H; cbn [fold_left map].
  - split; auto. intros t [[]|G]; exact G.
  - destruct (IH (consumer_stop s c h (c_tag cm)) (RL_consumer_stop _ _ _ _ H)) as [A B]. split; auto.
    intros t [[E|Hin]|G]; apply B; auto.
    + right. subst t. intros v q. apply stop_stops. exact H.
    + right. apply NSGone_stop_mono. exact G.
Qed.

Lemma RL_cancel_fold (l : list (N * N * string)) : forall s evs, RL s ->
  let s' := fst (fold_left (fun acc x => let '(s, evs) := acc in let '(s', e) := consumer_cancel s x in (s', evs ++ e)) l (s, evs)) in
  RL s' /\ forall x, (In x l \/ Gone s x) -> Gone s' x.
Proof.
  induction l as [|[[c h] tag] r IH]; intros s evs H; cbn [fold_left].
  - split; auto. intros x [[]|G]; exact G.
  - cbn [consumer_cancel]. destruct (IH (consumer_stop s c h tag) (evs ++ out1 c h (SCancel tag)) (RL_consumer_stop _ _ _ _ H)) as [A B]. split; auto.
    intros x [[E|Hin]|G]; apply B; auto.
    + right. subst x. apply Gone_after_stop. exact H.
    + right. apply Gone_stop_mono. exact G.
Qed.

(* one channel's records change, nothing that runs is added or removed *)
Lemma RL_chan_change s s' c h v v' :
  (forall qn, REG s' qn = REG s qn) -> (forall c' h', (c' =? c) && (h' =? h) = false -> CV s' c' h' = CV s c' h') ->
  CV s c h = Some v -> CV s' c h = Some v' -> (forall t q, In (t, q, false) v' <-> In (t, q, false) v) -> NoDup (map tagof v') ->
  RL s -> RL s'.
Proof.
  intros Hq Hc Hv Hv' Hiff Hnd [F B Nd T]. split.
  - intros qn l c0 h0 tag Hr Hin. rewrite Hq in Hr. destruct (F _ _ _ _ _ Hr Hin) as (v0 & Hv0 & Hi).
    destruct ((c0 =? c) && (h0 =? h)) eqn:Eb; [|exists v0; rewrite Hc; auto].
    apply both_eq in Eb. destruct Eb; subst. rewrite Hv in Hv0. inversion Hv0; subst. exists v'. split; auto. apply Hiff. exact Hi.
  - intros c0 h0 v0 tag qn Hv0 Hin. rewrite Hq.
    destruct ((c0 =? c) && (h0 =? h)) eqn:Eb; [|rewrite Hc in Hv0; eauto].
    apply both_eq in Eb. destruct Eb; subst. rewrite Hv' in Hv0. inversion Hv0; subst. apply Hiff in Hin. eauto.
  - intros qn l Hr. rewrite Hq in Hr. eauto.
  - intros c0 h0 v0 Hv0. destruct ((c0 =? c) && (h0 =? h)) eqn:Eb; [|rewrite Hc in Hv0; eauto].
    apply both_eq in Eb. destruct Eb; subst. rewrite Hv' in Hv0. inversion Hv0; subst. exact Hnd.
Qed.

Lemma CV_upd_chan s c h f c' h' :
  CV (upd_chan s c h f) c' h' = if (c' =? c) && (h' =? h) then option_map (fun ch => cvw (f ch)) (get_chan s c h) else CV s c' h'.
Proof.
  unfold upd_chan. destruct (get_chan s c h) as [ch|] eqn:E.
  - rewrite CV_set_chan. pose proof (get_chan_conn _ _ _ _ E). destruct (get_conn s c); [|congruence]. reflexivity.
  - destruct ((c' =? c) && (h' =? h)) eqn:Eb; auto. apply both_eq in Eb. destruct Eb; subst. unfold CV. rewrite E. reflexivity.
Qed.
Lemma REG_upd_chan s c h f q : REG (upd_chan s c h f) q = REG s q.
Proof. unfold REG, get_queue. rewrite queues_upd_chan. reflexivity. Qed.

Lemma consumer_stop_keeps_chan s c h tag c' h' : get_chan s c' h' <> None -> get_chan (consumer_stop s c h tag) c' h' <> None.
Proof.
  intros Hn. assert (X : CV (consumer_stop s c h tag) c' h' <> None).
  { destruct (consumer_stop_views s c h tag) as [[En E]|[(ch & Ech & Ef & E)|[(ch & cm & Ech & Ef & Est & E)|(ch & cm & Ech & Ef & Est & HC & HR)]]];
      try (rewrite E; unfold CV; destruct (get_chan s c' h'); [discriminate|congruence]).
    rewrite HC. destruct (_ && _)%bool; [discriminate|]. unfold CV. destruct (get_chan s c' h'); [discriminate|congruence]. }
  unfold CV in X. destruct (get_chan (consumer_stop s c h tag) c' h'); [discriminate|]. exfalso. apply X. reflexivity.
Qed.

Lemma stop_fold_mono c h (l : list consumer) : forall s v1 t q,
  CV (fold_left (fun s cm => consumer_stop s c h (c_tag cm)) l s) c h = Some v1 -> In (t, q, false) v1 ->
  exists v, CV s c h = Some v /\ In (t, q, false) v.
Proof.
  induction l as [|cm r IH]; intros s v1 t q Hv1 Hin; cbn [fold_left] in *; [eauto|].
  destruct (IH _ _ _ _ Hv1 Hin) as (v2 & Hv2 & Hi2).
  destruct (cs_cv_mono _ _ _ _ _ _ _ Hv2) as (v & Hv & Hi). eauto.
Qed.

Theorem RL_channel_close cfg s c h : RL s -> RL (channel_close cfg s c h).
Proof.
  intros H. unfold channel_close. destruct (get_chan s c h) as [ch|] eqn:Ech; [|exact H].
  destruct (RL_stop_fold c h (ch_consumers ch) s H) as [H1 G1].
  set (s1 := fold_left _ (ch_consumers ch) s) in *.
  assert (Hex : get_chan s1 c h <> None).
  { subst s1. apply fold_left_preserves; [intros; apply consumer_stop_keeps_chan; auto|congruence]. }
  destruct (get_chan s1 c h) as [ch1|] eqn:Ech1; [|congruence].
  assert (Hv1 : CV s1 c h = Some (cvw ch1)) by (unfold CV; rewrite Ech1; reflexivity).
  assert (Hns : forall t q, ~ In (t, q, false) (cvw ch1)).
  { intros t q Hin.
    assert (Hm : exists v, CV s c h = Some v /\ In (t, q, false) v) by (eapply stop_fold_mono; eauto).
    destruct Hm as (v & Hv & Hi). unfold CV in Hv. rewrite Ech in Hv. inversion Hv; subst v.
    assert (Ht : In t (map c_tag (ch_consumers ch))).
    { unfold cvw in Hi. apply in_map_iff in Hi. destruct Hi as (cm & E & Hi). inversion E; subst. apply in_map. exact Hi. }
    exact (G1 t (or_introl Ht) _ q Hv1 Hin). }
  assert (H2 : RL (upd_chan s1 c h (fun ch => ch <| ch_consumers := [] |>))).
  { apply (RL_chan_change s1 _ c h (cvw ch1) []); auto.
    - intros. apply REG_upd_chan.
    - intros c' h' Eb. rewrite CV_upd_chan, Eb. reflexivity.
    - rewrite CV_upd_chan, !N.eqb_refl, Ech1. reflexivity.
    - intros t q. split; [intros []|]. intros Hi. exfalso. eapply Hns; eauto.
    - constructor. }
  eapply RL_vsim; [|exact H2]. apply vsim_trans with (s2 := if 0 <? h then fst (handle_reject cfg (upd_chan s1 c h (fun ch => ch <| ch_consumers := [] |>)) c h 0 true true 60 120) else upd_chan s1 c h (fun ch => ch <| ch_consumers := [] |>)).
  - destruct (0 <? h); [apply vsim_handle_reject|apply vsim_refl].
  - apply vsim_upd_chan. reflexivity.
Qed.

Lemma get_queue_del' s qn q : get_queue (s <| queues := adel seqb qn (queues s) |>) q = if seqb q qn then None else get_queue s q.
Proof. unfold get_queue. cbn. apply (alookup_adel seqb seqb_spec). Qed.

Lemma cancel_fold_reg_mono (l : list (N * N * string)) : forall s evs q l1,
  REG (fst (fold_left (fun acc x => let '(s, evs) := acc in let '(s', e) := consumer_cancel s x in (s', evs ++ e)) l (s, evs))) q = Some l1 ->
  exists l0, REG s q = Some l0 /\ forall x, In x l1 -> In x l0.
Proof.
  induction l as [|[[c h] tag] r IH]; intros s evs q l1 Hr; cbn [fold_left] in *; [eauto|].
  cbn [consumer_cancel] in Hr. destruct (IH _ _ _ _ Hr) as (l2 & Hl2 & Hi2).
  destruct (cs_reg_mono _ _ _ _ _ _ Hl2) as (l0 & Hl0 & Hi0). eauto.
Qed.
Lemma cancel_fold_cv (l : list (N * N * string)) : forall s evs c h,
  CV (fst (fold_left (fun acc x => let '(s, evs) := acc in let '(s', e) := consumer_cancel s x in (s', evs ++ e)) l (s, evs))) c h = None <-> CV s c h = None.
Proof.
  induction l as [|[[c0 h0] tag] r IH]; intros s evs c h; cbn [fold_left]; [reflexivity|].
  cbn [consumer_cancel]. rewrite IH. unfold CV.
  pose proof (consumer_stop_keeps_chan s c0 h0 tag c h) as K.
  destruct (get_chan s c h) eqn:E1, (get_chan (consumer_stop s c0 h0 tag) c h) eqn:E2; cbn; split; try congruence.
  - intros _. exfalso. apply K; congruence.
  - intros _. exfalso. destruct (cs_cv_mono s c0 h0 tag c h (cvw c1)) as (v & Hv & _); [unfold CV; rewrite E2; reflexivity|].
    unfold CV in Hv. rewrite E1 in Hv. discriminate.
Qed.

Theorem RL_vhost_delete_queue b s qn iu ie : RL s -> RL (fst (fst (vhost_delete_queue b s qn iu ie))).
Proof.
  intros H. unfold vhost_delete_queue. destruct (get_queue s qn) as [qu|] eqn:Eq; [|exact H].
  destruct (_ || _).
  - cbn [fst]. destruct b; [|exact H]. eapply RL_vsim; [|exact H]. eapply vsim_set_queue; eauto.
  - destruct (RL_cancel_fold (q_consumers qu) s [] H) as [H1 G1].
    pose proof (cancel_fold_reg_mono (q_consumers qu) s [] qn) as M1.
    destruct (fold_left _ (q_consumers qu) (s, [])) as [s1 e1]. cbn [fst] in *.
    (* the registry of qn is empty now *)
    assert (Hreg : forall l, REG s1 qn = Some l -> l = []).
    { intros l Hl. destruct l as [|x r]; auto. exfalso.
      destruct (M1 _ Hl) as (l0 & Hl0 & Hi0). unfold REG in Hl0. rewrite Eq in Hl0. inversion Hl0; subst l0.
      apply (G1 x (or_introl (Hi0 x (or_introl eq_refl))) qn _ Hl). left. reflexivity. }
    set (s2 := (if q_durable qu then store_purge s1 qn else s1) <| srv_total ::= fun z => (z - q_len qu)%Z |> <| srv_ready ::= fun z => (z - q_len qu)%Z |>
                 <| exchanges ::= map (fun kv => (fst kv, remove_queue_bindings (snd kv) qn)) |>).
    assert (V2 : vsim s1 s2) by (subst s2; apply vsim_same; destruct (q_durable qu); reflexivity).
    pose proof (RL_vsim _ _ V2 H1) as H2.
    assert (Hreg2 : forall l, REG s2 qn = Some l -> l = []) by (intros l; rewrite (proj1 V2); apply Hreg).
    change (RL (s2 <| queues := adel seqb qn (queues s2) |>)).
    clearbody s2. clear - H2 Hreg2.
    assert (ER : forall q, REG (s2 <| queues := adel seqb qn (queues s2) |>) q = if seqb q qn then None else REG s2 q)
      by (intros q; unfold REG; rewrite get_queue_del'; destruct (seqb q qn); reflexivity).
    destruct H2 as [F B Nd T]. split.
    + intros q l c h tag Hr Hin. rewrite ER in Hr. destruct (seqb q qn); [discriminate|]. exact (F _ _ _ _ _ Hr Hin).
    + intros c h v tag q Hv Hin. destruct (B _ _ _ _ _ Hv Hin) as (l & Hl & Hi). rewrite ER.
      destruct (seqb q qn) eqn:E; [|eauto]. apply seqb_spec in E. subst q. rewrite (Hreg2 _ Hl) in Hi. destruct Hi.
    + intros q l Hr. rewrite ER in Hr. destruct (seqb q qn); [discriminate|]. eauto.
    + exact T.
Qed.

(* channels without records stay without records *)
Lemma nilish_vsim s s' c h : vsim s s' -> nilish (CV s c h) -> nilish (CV s' c h).
Proof. intros [_ Hc] Hn. destruct (Hc c h) as [E|[_ N2]]; [rewrite E; exact Hn|exact N2]. Qed.
Lemma nilish_map {A B} (f : A -> B) o : nilish o -> nilish (option_map (map f) o).
Proof. intros [E|E]; rewrite E; [left|right]; reflexivity. Qed.
Lemma nilish_stop s c0 h0 t c h : nilish (CV s c h) -> nilish (CV (consumer_stop s c0 h0 t) c h).
Proof.
  intros Hn.
  destruct (consumer_stop_views s c0 h0 t) as [[En E]|[(ch & Ech & Ef & E)|[(ch & cm & Ech & Ef & Est & E)|(ch & cm & Ech & Ef & Est & HC & HR)]]];
    try (rewrite E; exact Hn).
  rewrite HC. destruct ((c =? c0) && (h =? h0)) eqn:Eb; [|exact Hn]. apply both_eq in Eb. destruct Eb; subst.
  unfold CV in Hn. rewrite Ech in Hn. cbn in Hn. destruct Hn as [X|X]; [discriminate|]. inversion X as [Y]. rewrite Y. right. reflexivity.
Qed.
Lemma nilish_channel_close cfg s c0 h0 c h :
  nilish (CV s c h) \/ (c = c0 /\ h = h0) -> nilish (CV (channel_close cfg s c0 h0) c h).
Proof.
  intros Hn. unfold channel_close. destruct (get_chan s c0 h0) as [ch|] eqn:Ech.
  2:{ destruct Hn as [Hn|[-> ->]]; [exact Hn|]. unfold CV. rewrite Ech. left. reflexivity. }
  set (s1 := fold_left _ (ch_consumers ch) s).
  assert (H1 : nilish (CV s1 c h) \/ (c = c0 /\ h = h0)).
  { destruct Hn as [Hn|Hn]; [left|right; exact Hn]. subst s1. apply fold_left_preserves; auto. intros. apply nilish_stop. auto. }
  clearbody s1.
  assert (H2 : nilish (CV (upd_chan s1 c0 h0 (fun ch => ch <| ch_consumers := [] |>)) c h)).
  { rewrite CV_upd_chan. destruct ((c =? c0) && (h =? h0)) eqn:Eb.
    - destruct (get_chan s1 c0 h0); [right|left]; reflexivity.
    - destruct H1 as [H1|[-> ->]]; [exact H1|]. rewrite !N.eqb_refl in Eb. discriminate. }
  eapply nilish_vsim; [|exact H2].
  apply vsim_trans with (s2 := if 0 <? h0 then fst (handle_reject cfg (upd_chan s1 c0 h0 (fun ch => ch <| ch_consumers := [] |>)) c0 h0 0 true true 60 120) else upd_chan s1 c0 h0 (fun ch => ch <| ch_consumers := [] |>)).
  - destruct (0 <? h0); [apply vsim_handle_reject|apply vsim_refl].
  - apply vsim_upd_chan. reflexivity.
Qed.
Lemma nilish_cancel_fold (l : list (N * N * string)) c h : forall s evs, nilish (CV s c h) ->
  nilish (CV (fst (fold_left (fun acc x => let '(s, evs) := acc in let '(s', e) := consumer_cancel s x in (s', evs ++ e)) l (s, evs))) c h).
Proof.
  induction l as [|[[c0 h0] tag] r IH]; intros s evs Hn; cbn [fold_left]; [exact Hn|].
  cbn [consumer_cancel]. apply IH. apply nilish_stop. exact Hn.
Qed.
Lemma nilish_vdq b s qn iu ie c h : nilish (CV s c h) -> nilish (CV (fst (fst (vhost_delete_queue b s qn iu ie))) c h).
Proof.
  intros Hn. unfold vhost_delete_queue. destruct (get_queue s qn) as [qu|] eqn:Eq; [|exact Hn].
  destruct (_ || _).
  - cbn [fst]. destruct b; exact Hn.
  - pose proof (nilish_cancel_fold (q_consumers qu) c h s [] Hn) as H1.
    destruct (fold_left _ (q_consumers qu) (s, [])) as [s1 e1]. cbn [fst] in *.
    unfold CV in *. erewrite get_chan_same_conns; [exact H1|]. destruct (q_durable qu); reflexivity.
Qed.

Theorem RL_conn_close cfg fx s c : RL s -> RL (fst (conn_close cfg fx s c)).
Proof.
  intros H. unfold conn_close. destruct (get_conn s c) as [cn|] eqn:Ec; [|exact H].
  set (ids := sort_desc_N (map fst (cn_chans cn))).
  assert (Hids : forall h, get_chan s c h <> None -> In h ids).
  { intros h Hg. unfold get_chan in Hg. rewrite Ec in Hg. destruct (alookup N.eqb h (cn_chans cn)) as [ch|] eqn:Eh; [|congruence].
    apply (alookup_in N.eqb Neqb_spec) in Eh. apply (Permutation_in _ (Permutation_sym (sort_desc_N_perm _))).
    apply in_map_iff. exists (h, ch). auto. }
  assert (X : RL (fold_left (fun s h => channel_close cfg s c h) ids s) /\
              forall h, (In h ids \/ nilish (CV s c h)) -> nilish (CV (fold_left (fun s h => channel_close cfg s c h) ids s) c h)).
  { clear Hids. generalize ids. intros l. revert s H Ec. induction l as [|h0 r IH]; intros s H Ec; cbn [fold_left].
    - split; auto. intros h [[]|Hn]; exact Hn.
    - assert (Ec1 : get_conn (channel_close cfg s c h0) c = Some cn \/ True) by (right; exact I).
      pose proof (RL_channel_close cfg s c h0 H) as H1.
      assert (IH' : RL (fold_left (fun s h => channel_close cfg s c h) r (channel_close cfg s c h0)) /\
                    forall h, (In h r \/ nilish (CV (channel_close cfg s c h0) c h)) ->
                              nilish (CV (fold_left (fun s h => channel_close cfg s c h) r (channel_close cfg s c h0)) c h)).
      { clear IH Ec Ec1 H. revert H1. generalize (channel_close cfg s c h0). induction r as [|h1 r' IHr]; intros s0 H0; cbn [fold_left].
        - split; auto. intros h [[]|Hn]; exact Hn.
        - destruct (IHr (channel_close cfg s0 c h1) (RL_channel_close cfg s0 c h1 H0)) as [A B]. split; auto.
          intros h [[E|Hin]|Hn]; apply B; auto.
          + right. apply nilish_channel_close. right. auto.
          + right. apply nilish_channel_close. left. exact Hn. }
      destruct IH' as [A B]. split; auto.
      intros h [[E|Hin]|Hn]; apply B; auto.
      + right. apply nilish_channel_close. right. auto.
      + right. apply nilish_channel_close. left. exact Hn. }
  destruct X as [H1 N1].
  assert (N1' : forall h, nilish (CV (fold_left (fun s h => channel_close cfg s c h) ids s) c h)).
  { intros h. apply N1. destruct (get_chan s c h) eqn:E; [left; apply Hids; congruence|right; unfold CV; rewrite E; left; reflexivity]. }
  clear N1 Hids. set (s1 := fold_left _ ids s) in *. clearbody s1.
  set (owned := map fst (filter _ (queues s1))). clearbody owned.
  assert (X : RL (fst (fold_left (fun acc qn => let '(s, evs) := acc in
                                             let '(s', e, _) := vhost_delete_queue (negb (fx_delete_checks_first fx)) s qn false false in
                                             (s', evs ++ e)) owned (s1, []))) /\
              forall h, nilish (CV (fst (fold_left (fun acc qn => let '(s, evs) := acc in
                                             let '(s', e, _) := vhost_delete_queue (negb (fx_delete_checks_first fx)) s qn false false in
                                             (s', evs ++ e)) owned (s1, []))) c h)).
  { generalize (@nil event). revert s1 H1 N1'. induction owned as [|qn r IH]; intros s1 H1 N1 evs; cbn [fold_left fst]; [auto|].
    pose proof (RL_vhost_delete_queue (negb (fx_delete_checks_first fx)) s1 qn false false H1) as H2.
    pose proof (fun h => nilish_vdq (negb (fx_delete_checks_first fx)) s1 qn false false c h (N1 h)) as N2.
    destruct (vhost_delete_queue _ s1 qn false false) as [[s2 e2] r2]. cbn [fst] in *. apply IH; auto. }
  destruct X as [H2 N2]. destruct (fold_left _ owned (s1, [])) as [s2 e2]. cbn [fst] in *.
  eapply RL_vsim; [|exact H2]. apply vsim_delconn. exact N2.
Qed.

Lemma vsim_wake s c h tag : RL s -> vsim s (fst (wake_consumer s c h tag)).
Proof.
  intros H. unfold wake_consumer. destruct (get_chan s c h) as [ch|] eqn:E; [|apply vsim_refl].
  destruct (find_consumer ch tag) as [cm|] eqn:Ef; [|apply vsim_refl]. destruct (consume_msg cm) as [cm' b] eqn:Ec. cbn [fst].
  eapply vsim_set_chan; [exact E|].
  assert (Hv : CV s c h = Some (cvw ch)) by (unfold CV; rewrite E; reflexivity).
  pose proof (rl_tu _ H _ _ _ Hv) as Tv.
  pose proof (consume_msg_same cm) as Hs. rewrite Ec in Hs. cbn [fst] in Hs. destruct Hs as (S1 & S2 & S3).
  pose proof (find_consumer_cvw _ _ _ Ef) as Hcm.
  unfold cvw, upd_consumer. cbn. rewrite map_map. apply map_ext_in. intros x Hx.
  destruct (seqb (c_tag x) tag) eqn:Et; [|reflexivity]. apply seqb_spec in Et.
  assert (Hx' : In (tag, c_queue x, stopped x) (cvw ch)) by (unfold cvw; apply in_map_iff; exists x; rewrite Et; auto).
  destruct (nodup_tag_unique _ _ _ _ _ _ Tv Hx' Hcm) as [Q1 Q2].
  pose proof (find_some _ _ Ef) as [_ Etc]. apply seqb_spec in Etc. cbv beta. rewrite Et. cbv beta. congruence.
Qed.
Lemma RL_wake s c h tag : RL s -> RL (fst (wake_consumer s c h tag)).
Proof. intros H. eapply RL_vsim; [apply vsim_wake; exact H|exact H]. Qed.

Lemma RL_queue_loop_turn s qn : RL s -> RL (queue_loop_turn s qn).
Proof.
  intros H. unfold queue_loop_turn. destruct (get_queue s qn) as [qu|] eqn:Eq; auto. destruct (negb (q_call qu)); auto.
  assert (H1 : RL (set_queue s qn (qu <| q_call := false |>))) by (eapply RL_vsim; [eapply vsim_set_queue; eauto|exact H]).
  destruct (Nat.eqb _ 0); [exact H1|].
  set (s2 := fold_left _ (q_consumers qu) _).
  assert (H2 : RL s2) by (subst s2; apply fold_left_preserves; auto; intros s0 [[c h] tag] H0; apply RL_wake; auto).
  clearbody s2. eapply RL_vsim; [|exact H2]. apply vsim_upd_queue. reflexivity.
Qed.

Lemma vsim_store_windows cfg s c h tag ws : vsim s (store_windows cfg s c h tag ws).
Proof.
  unfold store_windows. destruct ws as [|w1 [|w2 [|]]]; try apply vsim_refl.
  destruct (cfg_rabbit cfg); [repeat vpeel|].
  destruct (get_conn _ c) eqn:Ec; [|repeat vpeel].
  eapply vsim_trans; [|apply (vsim_conn_qos _ _ _ (fun _ => w2)); exact Ec]. repeat vpeel.
Qed.

Definition turn_rest (cfg : config) (fx : fixes) (s : state) (c h : N) (tag : string) (cm : consumer) : state * list event :=
        match get_queue s (c_queue cm) with
        | None => (s, [])
        | Some qu =>
          if negb (q_active qu) then (s, []) else
          match q_ready qu with
          | [] => (s, [])
          | u :: rest =>
            let size := msg_size s u mod two32 in
            let '(ok, ws) := if c_noack cm then (Some [], []) else reserve (cfg_rollback cfg) (window_list cfg s c h cm) size in
            let s := if c_noack cm then s else store_windows cfg s c h tag ws in
            match ok with
            | None => (s, [])
            | Some _ =>
              let s := upd_queue s (c_queue cm) (popped rest) in
              let s := if c_noack cm then queue_ackmsg s (c_queue cm) u else s in
              let dtag := match get_chan s c h with Some ch => ch_dtag ch + 1 | None => 0 end in
              let s := upd_chan s c h (fun ch => ch <| ch_dtag := dtag |>) in
              let s := if c_noack cm then s
                       else upd_chan s c h (fun ch => ch <| ch_unacked ::= fun l => l ++ [{| u_tag := dtag; u_ctag := tag; u_queue := c_queue cm; u_qid := qid_of s (c_queue cm); u_msg := u |}] |>) in
              let s := if c_noack cm
                       then (if fx_noack_total_once fx
                             then upd_queue (s <| srv_unacked ::= Z.succ |>) (c_queue cm) (fun qu => qu <| q_munacked ::= Z.succ |>)
                             else upd_queue (s <| srv_total ::= Z.pred |>) (c_queue cm) (fun qu => qu <| q_mtotal ::= Z.pred |>))
                       else upd_queue (s <| srv_unacked ::= Z.succ |>) (c_queue cm) (fun qu => qu <| q_munacked ::= Z.succ |>) in
              let s := s <| srv_ready ::= Z.pred |> in
              let m := get_msg s u in
              let evs := match m with
                         | Some m => out1 c h (SDeliver tag dtag (redelivered_flag (fx_redelivered fx) (m_dc m)) (m_ex m) (m_key m))
                                     ++ content_frames s c h u
                         | None => []
                         end in
              let '(s, _) := wake_consumer s c h tag in
              (s, evs)
            end
          end
        end.

Lemma consumer_turn_eq cfg fx s c h tag :
  consumer_turn cfg fx s c h tag =
  match get_chan s c h with
  | None => (s, [])
  | Some ch =>
    match find_consumer ch tag with
    | None => (s, [])
    | Some cm =>
      if negb (c_token cm) then (s, []) else
      let s := set_chan s c h (upd_consumer ch tag (fun cm => cm <| c_token := false |>)) in
      match c_status cm with
      | CStopped => (s, [])
      | _ => turn_rest cfg fx s c h tag cm
      end
    end
  end.
Proof. unfold consumer_turn, turn_rest. destruct (get_chan s c h); [|reflexivity]. destruct (find_consumer c0 tag) as [cm|]; [|reflexivity].
  destruct (negb (c_token cm)); [reflexivity|]. destruct (c_status cm); reflexivity. Qed.

Lemma RL_turn_rest cfg fx s s0 c h tag cm : RL s -> vsim s s0 -> RL (fst (turn_rest cfg fx s0 c h tag cm)).
Proof.
  intros H V0. unfold turn_rest.
  destruct (get_queue s0 (c_queue cm)) as [qu|]; [|eapply RL_vsim; eauto].
  destruct (negb (q_active qu)); [eapply RL_vsim; eauto|].
  destruct (q_ready qu) as [|u rest]; [eapply RL_vsim; eauto|].
  match goal with |- context [if c_noack cm then (Some [], []) else ?r] => destruct (if c_noack cm then (Some [], []) else r) as [ok ws] end.
  set (s1 := if c_noack cm then s0 else store_windows cfg s0 c h tag ws).
  assert (V1 : vsim s s1) by (subst s1; destruct (c_noack cm); [exact V0|eapply vsim_trans; [exact V0|apply vsim_store_windows]]).
  clearbody s1; destruct ok; [|eapply RL_vsim; eauto].
  match goal with |- RL (fst (let '(s2, _) := wake_consumer ?st c h tag in _)) =>
         assert (V2 : vsim s st); [|pose proof (RL_wake st c h tag (RL_vsim _ _ V2 H)) as H2; destruct (wake_consumer st c h tag) as [s3 b3]; exact H2] end.
  apply (vsim_trans _ s1); [exact V1|].
  destruct (c_noack cm); repeat first [apply vsim_queue_ackmsg | vpeel | (eapply vsim_trans; [|apply vsim_queue_ackmsg])].
Qed.

Theorem RL_consumer_turn cfg fx s c h tag : RL s -> RL (fst (consumer_turn cfg fx s c h tag)).
Proof.
  intros H. rewrite consumer_turn_eq. destruct (get_chan s c h) as [ch|] eqn:Ech; [|exact H].
  destruct (find_consumer ch tag) as [cm|] eqn:Ef; [|exact H]. destruct (negb (c_token cm)); [exact H|].
  cbv zeta. set (s0 := set_chan s c h _).
  assert (V0 : vsim s s0) by (eapply vsim_set_chan; [exact Ech|]; apply cvw_upd_consumer; intros; auto).
  clearbody s0.
  destruct (c_status cm); [eapply RL_turn_rest; eauto|eapply RL_vsim; eauto|eapply RL_turn_rest; eauto].
Qed.

(* a consumer is added: one entry, one running record *)
Lemma RL_add s s' q c h tag l v :
  REG s q = Some l -> CV s c h = Some v -> ~ In tag (map tagof v) ->
  (forall q', REG s' q' = if seqb q' q then Some (l ++ [(c, h, tag)]) else REG s q') ->
  (forall c' h', CV s' c' h' = if (c' =? c) && (h' =? h) then Some (v ++ [(tag, q, false)]) else CV s c' h') ->
  RL s -> RL s'.
Proof.
  intros Hl Hv Hnt HR HC [F B Nd T]. split.
  - intros qn l' c0 h0 t0 Hr Hin. rewrite HR in Hr. rewrite HC.
    assert (X : (qn = q /\ c0 = c /\ h0 = h /\ t0 = tag) \/ exists l0, REG s qn = Some l0 /\ In (c0, h0, t0) l0).
    { destruct (seqb qn q) eqn:Eq; [|right; eauto]. apply seqb_spec in Eq. subst qn. inversion Hr; subst l'.
      apply in_app_or in Hin. destruct Hin as [Hin|[E|[]]]; [right; eauto|]. inversion E; subst. left; auto. }
    destruct X as [(-> & -> & -> & ->)|(l0 & Hl0 & Hi0)].
    + rewrite !N.eqb_refl. cbn. eexists; split; [reflexivity|]. apply in_or_app. right. left. reflexivity.
    + destruct (F _ _ _ _ _ Hl0 Hi0) as (v0 & Hv0 & Hi). destruct ((c0 =? c) && (h0 =? h)) eqn:Eb; [|eauto].
      apply both_eq in Eb. destruct Eb; subst. rewrite Hv in Hv0. inversion Hv0; subst. eexists; split; [reflexivity|]. apply in_or_app. auto.
  - intros c0 h0 v0 t0 qn Hv0 Hin. rewrite HC in Hv0. rewrite HR.
    assert (X : (qn = q /\ c0 = c /\ h0 = h /\ t0 = tag) \/ exists v1, CV s c0 h0 = Some v1 /\ In (t0, qn, false) v1).
    { destruct ((c0 =? c) && (h0 =? h)) eqn:Eb; [|right; eauto]. apply both_eq in Eb. destruct Eb; subst. inversion Hv0; subst v0.
      apply in_app_or in Hin. destruct Hin as [Hin|[E|[]]]; [right; eauto|]. inversion E; subst. left; auto. }
    destruct X as [(-> & -> & -> & ->)|(v1 & Hv1 & Hi1)].
    + rewrite (proj2 (seqb_spec _ _) eq_refl). eexists; split; [reflexivity|]. apply in_or_app. right. left. reflexivity.
    + destruct (B _ _ _ _ _ Hv1 Hi1) as (l0 & Hl0 & Hi). destruct (seqb qn q) eqn:Eq; [|eauto].
      apply seqb_spec in Eq. subst. rewrite Hl in Hl0. inversion Hl0; subst. eexists; split; [reflexivity|]. apply in_or_app. auto.
  - intros qn l' Hr. rewrite HR in Hr. destruct (seqb qn q); [|eauto]. inversion Hr; subst.
    apply NoDup_snoc; [eauto|]. intros Hin. destruct (F _ _ _ _ _ Hl Hin) as (v0 & Hv0 & Hi). rewrite Hv in Hv0. inversion Hv0; subst.
    apply Hnt. apply in_map_iff. exists (tag, q, false). auto.
  - intros c0 h0 v0 Hv0. rewrite HC in Hv0. destruct ((c0 =? c) && (h0 =? h)); [|eauto]. inversion Hv0; subst.
    rewrite map_app. cbn. apply NoDup_snoc; [eauto|exact Hnt].
Qed.

(* a queue is declared under a name no queue has *)
Lemma RL_newq s s' name :
  REG s name = None -> (forall q', REG s' q' = if seqb q' name then Some [] else REG s q') -> (forall c h, CV s' c h = CV s c h) ->
  RL s -> RL s'.
Proof.
  intros Hn HR HC [F B Nd T]. split.
  - intros qn l c h tag Hr Hin. rewrite HR in Hr. rewrite HC. destruct (seqb qn name); [inversion Hr; subst; destruct Hin|eauto].
  - intros c h v tag qn Hv Hin. rewrite HC in Hv. destruct (B _ _ _ _ _ Hv Hin) as (l & Hl & Hi). rewrite HR.
    destruct (seqb qn name) eqn:E; [|eauto]. apply seqb_spec in E. subst. congruence.
  - intros qn l Hr. rewrite HR in Hr. destruct (seqb qn name); [inversion Hr; constructor|eauto].
  - intros c h v Hv. rewrite HC in Hv. eauto.
Qed.

Lemma queue_found_none s name : QI s -> queue_found s name = None -> get_queue s name = None.
Proof.
  intros Hq Hf. unfold queue_found in Hf. destruct (get_queue s name) as [qu|] eqn:E; [|reflexivity].
  pose proof (allq_get _ _ _ _ Hq E) as (_ & _ & _ & Ha). rewrite Ha in Hf. discriminate.
Qed.

Lemma find_consumer_none_tag ch tag : find_consumer ch tag = None -> ~ In tag (map tagof (cvw ch)).
Proof.
  intros Hf Hin. apply in_map_iff in Hin. destruct Hin as ([[t q] b] & E & Hin). unfold tagof in E. cbn in E. subst t.
  eapply find_consumer_none_cvw; eauto.
Qed.

Theorem RL_handle_method cfg fx s c h m : QI s -> RL s -> RL (fst (fst (handle_method cfg fx s c h m))).
Proof.
  intros Hq H. unfold handle_method. destruct (get_chan s c h) as [ch|] eqn:Ech; [|exact H].
  assert (Hv : CV s c h = Some (cvw ch)) by (unfold CV; rewrite Ech; reflexivity).
  destruct m; unfold ok, refuse.
  - (* MChannelOpen *) destruct (ch_status ch); cbn [fst]; try exact H; (eapply RL_vsim; [|exact H]; eapply vsim_set_chan; [exact Ech|]).
    all: try reflexivity. destruct (fx_reopen_resets fx); reflexivity.
  - cbn [fst]. apply RL_channel_close. exact H.
  - cbn [fst]. destruct (fx_closeok_releases fx); [apply RL_channel_close; exact H|].
    eapply RL_vsim; [|exact H]. eapply vsim_set_chan; [exact Ech|reflexivity].
  - (* MChannelFlow *) cbn [fst]. destruct (Bool.eqb _ _); [exact H|].
    eapply RL_vsim; [|exact H]. destruct a; (eapply vsim_set_chan; [exact Ech|]);
      (unfold cvw; cbn; rewrite map_map; apply map_ext; intros cm; unfold stopped, consume_msg; destruct (c_status cm) eqn:Es; cbn; rewrite ?Es; try reflexivity).
    all: destruct (c_token cm); reflexivity.
  - (* MExDeclare *) destruct (extype_of type); [|exact H].
    repeat match goal with |- context [if ?b then _ else _] => destruct b end; cbn [fst]; auto.
    all: repeat match goal with |- context [match ?x with _ => _ end] => destruct x end; cbn [fst]; auto.
    all: try (eapply RL_vsim; [|exact H]; apply vsim_same; reflexivity).
  - destruct (fx_not_impl fx); exact H.
  - (* MQDeclare *) destruct (seqb name ""); [exact H|].
    destruct (queue_found s name) as [qu|] eqn:Ef.
    + repeat match goal with |- context [if ?b then _ else _] => destruct b end; cbn [fst]; auto.
    + destruct passive; [destruct nowait; exact H|]. cbn [fst].
      apply (RL_newq s _ name); auto.
      * unfold REG. rewrite (queue_found_none _ _ Hq Ef). reflexivity.
      * intros q'. unfold REG, get_queue. cbn. rewrite (alookup_aset seqb seqb_spec). destruct (seqb q' name); reflexivity.
  - (* MQBind *) destruct (alookup _ _ _); [|exact H]. destruct (seqb ex ""); [exact H|].
    destruct (queue_found s q); [|exact H]. destruct (locked _ _); [exact H|]. destruct (bad_xmatch _); [exact H|]. destruct (extype_eqb _ ExTopic && bad_pattern _)%bool; [exact H|]. cbn [fst].
    eapply RL_vsim; [|exact H]; apply vsim_same; reflexivity.
  - destruct (alookup _ _ _); [|exact H]. destruct (queue_found s q); [|exact H]. destruct (locked _ _); [exact H|]. destruct (bad_xmatch _); [exact H|]. destruct (extype_eqb _ ExTopic && bad_pattern _)%bool; [exact H|]. cbn [fst].
    eapply RL_vsim; [|exact H]; apply vsim_same; reflexivity.
  - (* MQPurge *)
    destruct (queue_found s q) as [qu|] eqn:Ef; [|exact H]. apply queue_found_get in Ef. destruct (locked _ _); [exact H|]. cbn [fst].
    eapply RL_vsim; [|exact H].
    match goal with |- vsim _ (set_queue ?s1 _ _) => apply (vsim_trans _ s1) end.
    + apply vsim_same; destruct (q_durable qu); reflexivity.
    + apply (vsim_set_queue _ _ qu); [|reflexivity]. unfold get_queue in *. destruct (q_durable qu); exact Ef.
  - (* MQDelete *) destruct (queue_found s q); [|exact H]. destruct (locked _ _); [exact H|].
    pose proof (RL_vhost_delete_queue (negb (fx_delete_checks_first fx)) s q ifunused ifempty H) as Hd.
    destruct (vhost_delete_queue _ s q ifunused ifempty) as [[s1 e1] r1]. cbn [fst] in *. destruct r1; exact Hd.
  - (* MQos *)
    cbn [fst]. eapply RL_vsim; [|exact H]. eapply vsim_trans; [|apply vsim_wake_consumers].
    destruct (cfg_rabbit cfg); [destruct glob; (eapply vsim_set_chan; [exact Ech|reflexivity])|].
    destruct glob; [|eapply vsim_set_chan; [exact Ech|reflexivity]]. destruct (get_conn s c) eqn:Ec; [|apply vsim_refl]. apply vsim_conn_qos; auto.
  - (* MPublish *)
    destruct imm; [exact H|]. destruct (alookup _ _ _); [|exact H].
    eapply RL_vsim; [|exact H].
    destruct (ch_confirm ch); cbn [fst];
      (match goal with |- vsim _ (set_chan ?s1 _ _ _) => apply (vsim_trans _ s1); [apply vsim_same; reflexivity|] end);
      (eapply vsim_set_chan; [erewrite get_chan_same_conns; [exact Ech|reflexivity]|reflexivity]).
  - (* MConsume *)
    destruct (queue_found s q) as [qu|] eqn:Eqf; [|exact H]. apply queue_found_get in Eqf.
    destruct (fx_excl_owner fx && locked qu c); [exact H|].
    destruct (find_consumer ch _) eqn:Efc; [exact H|].
    destruct (_ && _)%bool; cbn [fst].
    + eapply RL_vsim; [|exact H]. eapply vsim_set_queue; [exact Eqf|reflexivity].
    + assert (Hl : REG s q = Some (q_consumers qu)) by (unfold REG; rewrite Eqf; reflexivity).
      apply (RL_add s _ q c h (eff_tag s tag) _ _ Hl Hv (find_consumer_none_tag _ _ Efc)); auto.
      * intros q'. unfold REG, get_queue. rewrite queues_set_chan.
        assert (X : forall st, alookup seqb q' (queues (if seqb tag "" then st <| next_gen ::= N.succ |> else st)) = alookup seqb q' (queues st))
          by (intros; destruct (seqb tag ""); reflexivity).
        rewrite X. cbn. rewrite (alookup_aset seqb seqb_spec). destruct (seqb q' q); [|reflexivity].
        cbn. unfold call_consumers. destruct excl; cbn; destruct (q_active qu); reflexivity.
      * intros c' h'. rewrite CV_set_chan.
        assert (X : forall st, get_conn (if seqb tag "" then st <| next_gen ::= N.succ |> else st) c = get_conn st c)
          by (intros; destruct (seqb tag ""); reflexivity).
        rewrite X. unfold get_conn at 1. cbn. fold (get_conn s c). pose proof (get_chan_conn _ _ _ _ Ech) as Hc. destruct (get_conn s c); [|congruence].
        destruct ((c' =? c) && (h' =? h)); [unfold cvw; cbn; rewrite map_app; reflexivity|].
        unfold CV. erewrite get_chan_same_conns; [reflexivity|]. destruct (seqb tag ""); reflexivity.
  - (* MCancel *)
    destruct (find_consumer ch tag) eqn:Efc; [|exact H]. cbn [fst].
    eapply RL_vsim; [apply vsim_upd_chan; intros; reflexivity|].
    pose proof (RL_consumer_stop s c h tag H) as H1.
    pose proof (stop_stops s c h tag H) as Hs.
    assert (Hex : get_chan (consumer_stop s c h tag) c h <> None) by (apply consumer_stop_keeps_chan; congruence).
    set (s1 := consumer_stop s c h tag) in *. clearbody s1.
    destruct (get_chan s1 c h) as [ch1|] eqn:Ech1; [|congruence].
    assert (Hv1 : CV s1 c h = Some (cvw ch1)) by (unfold CV; rewrite Ech1; reflexivity).
    apply (RL_chan_change s1 _ c h (cvw ch1) (filter (fun x => negb (seqb (tagof x) tag)) (cvw ch1))); auto.
    + intros. apply REG_upd_chan.
    + intros c' h' Eb. rewrite CV_upd_chan, Eb. reflexivity.
    + rewrite CV_upd_chan, !N.eqb_refl, Ech1. cbn. f_equal. unfold cvw. cbn.
      generalize (ch_consumers ch1). intros l. induction l as [|x r IH]; cbn; auto. unfold tagof at 1. cbn. destruct (seqb (c_tag x) tag); cbn; rewrite IH; reflexivity.
    + intros t q0. rewrite filter_In. split; [tauto|]. intros Hi. split; auto. unfold tagof. cbn.
      destruct (seqb t tag) eqn:Et; auto. apply seqb_spec in Et. subst t. exfalso. eapply Hs; eauto.
    + apply NoDup_map_filter. exact (rl_tu _ H1 _ _ _ Hv1).
  - (* MGet *)
    destruct (queue_found s q) as [qu|] eqn:Eqf; [|exact H]. apply queue_found_get in Eqf.
    destruct (fx_excl_owner fx && locked qu c); [exact H|].
    destruct (q_ready qu) as [|u rest] eqn:Erd; [exact H|].
    match goal with |- context [if noack then (Some [], []) else ?r] => destruct (if noack then (Some [], []) else r) as [okr ws] end.
    set (s1 := match ws with [w1; w2] => _ | _ => s end).
    assert (V1 : vsim s s1).
    { subst s1. destruct ws as [|w1 [|w2 [|]]]; try apply vsim_refl.
      assert (V0 : vsim s (set_chan s c h (ch <| ch_qos := w1 |>))) by (eapply vsim_set_chan; [exact Ech|reflexivity]).
      destruct (get_conn _ c) eqn:Ec; [|exact V0]. eapply vsim_trans; [exact V0|]. apply (vsim_conn_qos _ _ _ (fun _ => w2)). exact Ec. }
    clearbody s1. eapply RL_vsim; [|exact H].
    destruct okr; cbn [fst]; [|exact V1].
    apply (vsim_trans _ s1); [exact V1|].
    destruct noack; repeat first [apply vsim_queue_ackmsg | vpeel | (eapply vsim_trans; [|apply vsim_queue_ackmsg])].
  - pose proof (vsim_handle_ack cfg s c h tag mult) as Ha.
    destruct (handle_ack cfg s c h tag mult) as [s1 e1]. eapply RL_vsim; eauto.
  - pose proof (vsim_handle_reject cfg s c h tag mult requeue 60 120) as Ha.
    destruct (handle_reject cfg s c h tag mult requeue 60 120) as [s1 e1]. eapply RL_vsim; eauto.
  - pose proof (vsim_handle_reject cfg s c h tag false requeue 60 90) as Ha.
    destruct (handle_reject cfg s c h tag false requeue 60 90) as [s1 e1]. eapply RL_vsim; eauto.
  - exact H.
  - cbn [fst]. eapply RL_vsim; [|exact H]. eapply vsim_set_chan; [exact Ech|reflexivity].
  - destruct (fx_not_impl fx); exact H.
  - exact H.
  - exact H.
  - destruct good; [cbn [fst]|exact H]. eapply RL_vsim; [apply vsim_set_stage|exact H].
  - destruct within; [cbn [fst]|exact H]. eapply RL_vsim; [apply vsim_set_stage|exact H].
  - destruct vhost_ok; [cbn [fst]|exact H]. eapply RL_vsim; [apply vsim_set_stage|exact H].
Qed.

Lemma RL_restart cfg s : RL (fst (restart cfg s)).
Proof.
  assert (HR : forall qn l, REG (fst (restart cfg s)) qn = Some l -> l = []).
  { intros qn l Hr. unfold REG in Hr. destruct (get_queue _ qn) as [qu|] eqn:E; [|discriminate]. inversion Hr; subst.
    apply (alookup_in seqb seqb_spec) in E. unfold restart in E. cbn [fst queues] in E. apply in_map_iff in E.
    destruct E as ([qn0 qu0] & E & _). inversion E; subst. reflexivity. }
  assert (HC : forall c h, CV (fst (restart cfg s)) c h = None) by reflexivity.
  split.
  - intros qn l c h tag Hr Hin. rewrite (HR _ _ Hr) in Hin. destruct Hin.
  - intros c h v tag qn Hv. rewrite HC in Hv. discriminate.
  - intros qn l Hr. rewrite (HR _ _ Hr). constructor.
  - intros c h v Hv. rewrite HC in Hv. discriminate.
Qed.

Lemma RL_init cfg : RL (init cfg).
Proof. split; intros; try discriminate. Qed.

Definition QR (s : state) : Prop := QI s /\ RL s.

Section QRStep.
Variables (cfg : config) (fx : fixes).
Hypothesis Hdc : fx_delete_checks_first fx = true.

Theorem QR_step s l : QR s -> QR (fst (step cfg fx s l)).
Proof.
  assert (Hm : forall c h m, guardf fx (ensure_chan s c h) c h m -> QR (ensure_chan s c h) -> QR (fst (fst (handle_method cfg fx (ensure_chan s c h) c h m))))
    by (intros c h m _ [A B]; split; [apply QI_handle_method; auto|apply RL_handle_method; auto]).
  assert (Ht : forall c h tag, QR s -> QR (fst (consumer_turn cfg fx s c h tag)))
    by (intros c h tag [A B]; split; [apply QI_consumer_turn; auto|apply RL_consumer_turn; auto]).
  revert Hm Ht. apply (R_step cfg fx QR); clear s l.
  - intros s c [A B]. split; [apply QI_conn_close; auto|apply RL_conn_close; auto].
  - intros s c h [A B]. split; [sq|eapply RL_vsim; [apply vsim_upd_chan; reflexivity|exact B]].
  - intros s c h [A B]. split; [sq|eapply RL_vsim; [apply vsim_ensure|exact B]].
  - intros s c h [A B]. split; [sq|eapply RL_vsim; [apply vsim_upd_chan; reflexivity|exact B]].
  - intros s c h t [A B]. split; [sq|eapply RL_vsim; [apply vsim_add_confirm|exact B]].
  - intros s c st Ec [A B]. split; [sq|eapply RL_vsim; [apply vsim_newconn; exact Ec|exact B]].
  - intros s [A B]. split; [exact (QI_step cfg fx s LRestart Hdc A)|apply RL_restart].
  - intros s c h ch Ech [A B]. split; (split; [sq|eapply RL_vsim; [eapply vsim_set_chan; [exact Ech|reflexivity]|exact B]]).
  - intros s qn u [A B]. split; [apply QI_queue_push; auto|eapply RL_vsim; [apply vsim_queue_push|exact B]].
  - intros s u f [A B]. split; [sq|eapply RL_vsim; [apply vsim_upd_msg|exact B]].
  - intros s qn [A B]. split; [apply QI_queue_loop_turn; auto|apply RL_queue_loop_turn; auto].
  - intros s [A B]. split; [exact (QI_step cfg fx s LAutoDelete Hdc A)|]. cbn [step].
    destruct (autodel s) as [|qn rest]; [exact B|].
    assert (B0 : RL (s <| autodel := rest |>)) by (apply (RL_vsim s); [apply vsim_same; reflexivity|exact B]).
    destruct (get_queue _ qn) as [qu0|]; [|exact B0]. destruct (q_autodel qu0); [|exact B0].
    pose proof (RL_vhost_delete_queue (negb (fx_delete_checks_first fx)) _ qn true false B0) as Hd.
    destruct (vhost_delete_queue _ (s <| autodel := rest |>) qn true false) as [[s1 e1] r1]. exact Hd.
  - intros s rest [A B]. split; [sq|apply (RL_vsim s); [apply vsim_same; reflexivity|exact B]].
  - intros s [A B]. split; [exact (QI_step cfg fx s LPersistTick Hdc A)|].
    cbn [step fst]. apply (RL_vsim s); [|exact B].
    match goal with |- vsim _ (fold_left _ _ ?s1) => apply (vsim_trans _ s1); [apply vsim_same; reflexivity|] end.
    apply vsim_fold. intros. apply vsim_store_confirm.
Qed.

Theorem QR_run ls : forall s, QR s -> QR (fst (run cfg fx s ls)).
Proof.
  induction ls as [|l t IH]; intros s H; cbn [run fst]; auto.
  pose proof (QR_step s l H) as H1. destruct (step cfg fx s l) as [s1 e1]. cbn [fst] in H1.
  specialize (IH s1 H1). destruct (run cfg fx s1 t) as [s2 e2]. exact IH.
Qed.
End QRStep.

Lemma QR_init cfg : QR (init cfg).
Proof. split; [apply QI_init|apply RL_init]. Qed.

Theorem RL_reachable cfg fx ls : fx_delete_checks_first fx = true -> RL (fst (run cfg fx (init cfg) ls)).
Proof. intros Hdc. apply (QR_run cfg fx Hdc ls (init cfg) (QR_init cfg)). Qed.

(* the link in terms of the records *)
Theorem registry_link_reachable cfg fx ls :
  fx_delete_checks_first fx = true ->
  let s := fst (run cfg fx (init cfg) ls) in
  (forall qn qu c h tag, get_queue s qn = Some qu ->
     (In (c, h, tag) (q_consumers qu) <->
      exists ch cm, get_chan s c h = Some ch /\ In cm (ch_consumers ch) /\ c_tag cm = tag /\ c_queue cm = qn /\ c_status cm <> CStopped)) /\
  (forall c h ch cm, get_chan s c h = Some ch -> In cm (ch_consumers ch) -> c_status cm <> CStopped ->
     exists qu, get_queue s (c_queue cm) = Some qu /\ In (c, h, c_tag cm) (q_consumers qu)) /\
  (forall qn qu, get_queue s qn = Some qu -> NoDup (q_consumers qu)) /\
  (forall c h ch, get_chan s c h = Some ch -> NoDup (map c_tag (ch_consumers ch))).
Proof.
  intros Hdc s. pose proof (RL_reachable cfg fx ls Hdc) as [F B Nd T]. fold s in F, B, Nd, T.
  assert (Bk : forall c h ch cm, get_chan s c h = Some ch -> In cm (ch_consumers ch) -> c_status cm <> CStopped ->
     exists qu, get_queue s (c_queue cm) = Some qu /\ In (c, h, c_tag cm) (q_consumers qu)).
  { intros c h ch cm Hg Hin Hst.
    destruct (B c h (cvw ch) (c_tag cm) (c_queue cm)) as (l & Hl & Hi).
    - unfold CV. rewrite Hg. reflexivity.
    - unfold cvw. apply in_map_iff. exists cm. split; auto. rewrite (proj2 (stopped_false cm) Hst). reflexivity.
    - unfold REG in Hl. destruct (get_queue s (c_queue cm)) as [qu|]; [|discriminate]. inversion Hl; subst. eauto. }
  split; [|split; [exact Bk|split]].
  - intros qn qu c h tag Hq. split.
    + intros Hin. destruct (F qn (q_consumers qu) c h tag) as (v & Hv & Hi); [unfold REG; rewrite Hq; reflexivity|exact Hin|].
      unfold CV in Hv. destruct (get_chan s c h) as [ch|]; [|discriminate]. inversion Hv; subst.
      unfold cvw in Hi. apply in_map_iff in Hi. destruct Hi as (cm & E & Hi). inversion E. exists ch, cm.
      repeat split; auto. apply stopped_false. congruence.
    + intros (ch & cm & Hg & Hi & <- & <- & Hst). destruct (Bk _ _ _ _ Hg Hi Hst) as (qu' & Hq' & Hi'). congruence.
  - intros qn qu Hq. apply (Nd qn). unfold REG. rewrite Hq. reflexivity.
  - intros c h ch Hg. pose proof (T c h (cvw ch)) as X. unfold CV in X. rewrite Hg in X. specialize (X eq_refl).
    unfold cvw in X. rewrite map_map in X. exact X.
Qed.

(* no orphan entries, under the one repair the link needs *)
Theorem registry_entries_alive_reachable cfg fx ls :
  fx_delete_checks_first fx = true ->
  let s := fst (run cfg fx (init cfg) ls) in
  forall qn qu c h tag, get_queue s qn = Some qu -> In (c, h, tag) (q_consumers qu) -> get_conn s c <> None /\ get_chan s c h <> None.
Proof.
  intros Hdc s qn qu c h tag Hq Hin. pose proof (registry_link_reachable cfg fx ls Hdc) as (L1 & _). fold s in L1.
  apply (L1 _ _ _ _ _ Hq) in Hin. destruct Hin as (ch & cm & Hg & _). split; [eapply get_chan_conn; eauto|congruence].
Qed.

(* ------------------------------------------------------------------ *)
(* Part 3: no trace of the dead *)
Section NoTrace.
Variables (cfg : config) (fx : fixes).
Hypothesis Hst : fx_stage fx = true.
Hypothesis Hco : fx_chan_open fx = true.
Hypothesis Hcr : fx_closeok_releases fx = true.
Hypothesis Hdc : fx_delete_checks_first fx = true.

Lemma Inv_reachable ls : Inv (fst (run cfg fx (init cfg) ls)).
Proof. apply Inv_run; auto. apply Inv_init. Qed.

(* every reference the state holds is to a connection / channel that exists *)
Theorem no_dangling_reference_reachable ls :
  let s := fst (run cfg fx (init cfg) ls) in
  (forall qn qu c h tag, get_queue s qn = Some qu -> In (c, h, tag) (q_consumers qu) -> get_conn s c <> None /\ get_chan s c h <> None) /\
  (forall qn qu, get_queue s qn = Some qu -> q_excl qu = true -> conn_opened s (q_owner qu) = true) /\
  (forall u m c h t, get_msg s u = Some m -> live_conf s m = Some (c, h, t) -> get_conn s c <> None /\ get_chan s c h <> None) /\
  (forall c h ch, get_chan s c h = Some ch -> ch_status ch = ChClosed \/ h = 0 -> ch_consumers ch = [] /\ ch_unacked ch = []).
Proof.
  intros s. pose proof (registry_link_reachable cfg fx ls Hdc) as (L1 & _). fold s in L1.
  pose proof (Inv_reachable ls) as [V _]. fold s in V. unfold VI in V.
  split; [|split; [|split]].
  - intros qn qu c h tag Hq Hin. apply (L1 _ _ _ _ _ Hq) in Hin. destruct Hin as (ch & cm & Hg & _).
    split; [eapply get_chan_conn; eauto|congruence].
  - intros qn qu Hq He. rewrite <- opened_cv. apply (vi_owner _ _ _ V qn (qproj qu)); [|exact He].
    unfold qv, vmap. apply in_map_iff. exists (qn, qu). split; [reflexivity|]. eapply alookup_in; [apply seqb_spec|exact Hq].
  - intros u m c h t _ Hl. unfold live_conf in Hl. destruct (m_conf m) as [[[c0 h0] t0]|]; [|discriminate].
    destruct (get_chan s c0 h0) as [ch|] eqn:E; [|discriminate]. destruct (ch_inst ch =? m_inst m); [|discriminate]. inversion Hl; subst.
    split; [eapply get_chan_conn; eauto|congruence].
  - intros c h ch Hg Hcl.
    pose proof (cv_get_cv s c h) as X. rewrite Hg in X. cbn in X. destruct (cv_get_in _ _ _ _ X) as (st & chs & H1 & H2).
    unfold cproj in H2.
    destruct (vi_cz _ _ _ V c st chs h _ _ H1 H2) as [A B].
    + destruct Hcl as [Hcl|Hcl]; [right; cbn; rewrite Hcl; reflexivity|left; exact Hcl].
    + split; [|exact A]. cbn in B. destruct (ch_consumers ch); [reflexivity|discriminate].
Qed.

(* hence nothing in the state refers to a connection that is gone *)
Theorem dead_connection_leaves_no_trace ls c :
  let s := fst (run cfg fx (init cfg) ls) in
  get_conn s c = None ->
  (forall h, get_chan s c h = None) /\
  (forall qn qu h tag, get_queue s qn = Some qu -> ~ In (c, h, tag) (q_consumers qu)) /\
  (forall qn qu, get_queue s qn = Some qu -> q_excl qu = true -> q_owner qu <> c) /\
  (forall u m h t, get_msg s u = Some m -> live_conf s m <> Some (c, h, t)).
Proof.
  intros s Hc. destruct (no_dangling_reference_reachable ls) as (A & B & C & _). fold s in A, B, C.
  split; [|split; [|split]].
  - intros h. unfold get_chan. rewrite Hc. reflexivity.
  - intros qn qu h tag Hq Hin. destruct (A _ _ _ _ _ Hq Hin) as [X _]. contradiction.
  - intros qn qu Hq He E. pose proof (B _ _ Hq He) as X. unfold conn_opened in X. rewrite E, Hc in X. discriminate.
  - intros u m h t Hm Hl. destruct (C _ _ _ _ _ Hm Hl) as [X _]. contradiction.
Qed.

(* the instance C14 asks for: whatever way the connection ends *)
Theorem connection_end_leaves_no_trace ls c :
  let s' := fst (run cfg fx (init cfg) (ls ++ [LSocketLoss c])) in
  get_conn s' c = None /\
  (forall h, get_chan s' c h = None) /\
  (forall qn qu h tag, get_queue s' qn = Some qu -> ~ In (c, h, tag) (q_consumers qu)) /\
  (forall qn qu, get_queue s' qn = Some qu -> q_excl qu = true -> q_owner qu <> c) /\
  (forall u m h t, get_msg s' u = Some m -> live_conf s' m <> Some (c, h, t)).
Proof.
  intros s'.
  assert (Hc : get_conn s' c = None).
  { subst s'. generalize (init cfg). induction ls as [|l r IH]; intros s0; cbn [app run].
    - rewrite socket_loss_is_conn_close. pose proof (conn_close_forgets cfg fx s0 c) as X. destruct (conn_close cfg fx s0 c) as [s1 e1]. exact X.
    - destruct (step cfg fx s0 l) as [s1 e1]. specialize (IH s1). destruct (run cfg fx s1 (r ++ [LSocketLoss c])) as [s2 e2]. exact IH. }
  split; [exact Hc|]. exact (dead_connection_leaves_no_trace (ls ++ [LSocketLoss c]) c Hc).
Qed.

(* a closed channel has no consumer in any registry *)
Theorem closed_channel_leaves_no_trace ls c h ch :
  let s := fst (run cfg fx (init cfg) ls) in
  get_chan s c h = Some ch -> ch_status ch = ChClosed \/ h = 0 ->
  ch_consumers ch = [] /\ ch_unacked ch = [] /\
  (forall qn qu tag, get_queue s qn = Some qu -> ~ In (c, h, tag) (q_consumers qu)).
Proof.
  intros s Hg Hcl. destruct (no_dangling_reference_reachable ls) as (_ & _ & _ & D). fold s in D.
  destruct (D _ _ _ Hg Hcl) as [A B]. split; auto. split; auto.
  intros qn qu tag Hq Hin. pose proof (registry_link_reachable cfg fx ls Hdc) as (L1 & _). fold s in L1.
  apply (L1 _ _ _ _ _ Hq) in Hin. destruct Hin as (ch' & cm & Hg' & Hi & _). rewrite Hg in Hg'. inversion Hg'; subst. rewrite A in Hi. destruct Hi.
Qed.
End NoTrace.

(* fx_delete_checks_first is needed: without it a refused queue.delete leaves the queue inactive, the next queue.declare
   of the name replaces the record, and the consumer that was started on it is in no registry *)
Definition fx_no_delete_checks : fixes :=
  {| fx_direct_all := true; fx_redelivered := true; fx_delete_checks_first := false; fx_noack_total_once := true;
     fx_get_count := true; fx_closeok_releases := true; fx_excl_owner := true; fx_clear_current := true; fx_not_impl := true;
     fx_empty_body := true; fx_discard_closing := true; fx_nowait := true; fx_stage := true; fx_reopen_resets := true; fx_chan_open := true |}.
Example registry_link_refuted :
  let cfg := {| cfg_rabbit := true; cfg_rollback := true; cfg_release_first := false |} in
  let s := fst (run cfg fx_no_delete_checks (init cfg)
            [LConnect 1; LConnect 2; LMethod 1 1 MChannelOpen; LMethod 2 1 MChannelOpen;
             LMethod 1 1 (MQDeclare "q" false false false false false); LMethod 1 1 (MConsume "q" "t" false false false);
             LMethod 2 1 (MQDelete "q" true false false); LMethod 1 1 (MQDeclare "q" false false false false false)]) in
  option_map q_consumers (get_queue s "q") = Some [] /\
  option_map (fun ch => map (fun cm => (c_tag cm, c_queue cm, c_status cm)) (ch_consumers ch)) (get_chan s 1 1) = Some [("t", "q", CStarted)]%string.
Proof. vm_compute. split; reflexivity. Qed.
