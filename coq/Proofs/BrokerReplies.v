(* C18: every synchronous request gets exactly one reply of the right kind on its own channel - or, flagged no-wait,
   none; a refused request gets no reply from the handler (the single close frame then comes from send_error). *)
From Coq Require Import List String NArith ZArith Bool Lia.
From RecordUpdate Require Import RecordUpdate.
Import ListNotations.
From GMQ Require Import Broker.Model Proofs.BrokerFrames Proofs.BrokerRefusal.
Open Scope N_scope.

Inductive rkind := KChannelOpenOk | KChannelCloseOk | KFlowOk | KExDeclareOk | KQDeclareOk | KBindOk | KUnbindOk | KPurgeOk
                 | KDeleteOk | KQosOk | KConsumeOk | KCancelOk | KGetOk | KGetEmpty | KConfirmSelectOk | KConnCloseOk
                 | KConnTune | KConnOpenOk.

(* the reply frames (everything that answers a request; deliveries, returns, content frames, broker-sent basic.cancel,
   confirms and close frames are not replies) *)
Definition reply_kind (f : sframe) : option rkind :=
  match f with
  | SChannelOpenOk => Some KChannelOpenOk | SChannelCloseOk => Some KChannelCloseOk | SChannelFlowOk _ => Some KFlowOk
  | SExDeclareOk => Some KExDeclareOk | SQDeclareOk _ _ _ => Some KQDeclareOk | SQBindOk => Some KBindOk | SQUnbindOk => Some KUnbindOk
  | SQPurgeOk _ => Some KPurgeOk | SQDeleteOk _ => Some KDeleteOk | SQosOk => Some KQosOk | SConsumeOk _ => Some KConsumeOk
  | SCancelOk _ => Some KCancelOk | SGetOk _ _ _ _ _ => Some KGetOk | SGetEmpty => Some KGetEmpty
  | SConfirmSelectOk => Some KConfirmSelectOk | SConnCloseOk => Some KConnCloseOk
  | SConnTune => Some KConnTune | SConnOpenOk => Some KConnOpenOk
  | _ => None
  end.

Fixpoint replies (evs : list event) : list (N * N * rkind) :=
  match evs with
  | [] => []
  | (c, h, f) :: t => match reply_kind f with Some k => (c, h, k) :: replies t | None => replies t end
  end.

Lemma replies_app a b : replies (a ++ b) = replies a ++ replies b.
Proof. induction a as [|[[c h] f] t IH]; simpl; auto. destruct (reply_kind f); simpl; rewrite IH; reflexivity. Qed.

(* what a method must be answered with when it is accepted *)
Definition expected (m : meth) : list rkind :=
  match m with
  | MChannelOpen => [KChannelOpenOk] | MChannelClose => [KChannelCloseOk] | MChannelCloseOk => [] | MChannelFlow _ => [KFlowOk]
  | MExDeclare _ _ _ _ _ _ nowait => if nowait then [] else [KExDeclareOk]
  | MExDelete _ _ _ => []
  | MQDeclare _ _ _ _ _ nowait => if nowait then [] else [KQDeclareOk]
  | MQBind _ _ _ _ nowait => if nowait then [] else [KBindOk]
  | MQUnbind _ _ _ _ => [KUnbindOk]
  | MQPurge _ nowait => if nowait then [] else [KPurgeOk]
  | MQDelete _ _ _ nowait => if nowait then [] else [KDeleteOk]
  | MQos _ _ _ => [KQosOk]
  | MPublish _ _ _ _ => []
  | MConsume _ _ _ _ nowait => if nowait then [] else [KConsumeOk]
  | MCancel _ nowait => if nowait then [] else [KCancelOk]
  | MGet _ _ => [KGetOk]      (* or get-empty: see the theorem *)
  | MAck _ _ | MNack _ _ _ | MReject _ _ => []
  | MRecover _ => []
  | MConfirmSelect nowait => if nowait then [] else [KConfirmSelectOk]
  | MTxSelect => []
  | MConnClose => [KConnCloseOk] | MConnCloseOk => []
  | MStartOk _ => [KConnTune] | MTuneOk _ => [] | MConnOpen _ => [KConnOpenOk]
  end.

Lemma replies_content s c h u : replies (content_frames s c h u) = [].
Proof.
  unfold content_frames. destruct (get_msg s u) as [m|]; auto. simpl.
  induction (m_body m); simpl; auto.
Qed.

Lemma replies_cancel_fold l : forall s evs,
  replies (snd (fold_left (fun acc x => let '(s, evs) := acc in let '(s', e) := consumer_cancel s x in (s', evs ++ e)) l (s, evs)))
  = replies evs.
Proof.
  induction l as [|[[c h] tag] t IH]; intros s evs; simpl; auto.
  rewrite IH. rewrite replies_app. simpl. rewrite app_nil_r. reflexivity.
Qed.

Lemma replies_vhost_delete b s qn iu ie : replies (snd (fst (vhost_delete_queue b s qn iu ie))) = [].
Proof.
  unfold vhost_delete_queue. destruct (get_queue s qn) as [qu|]; auto. destruct (_ || _); auto.
  pose proof (replies_cancel_fold (q_consumers qu) s []) as Hf.
  destruct (fold_left _ (q_consumers qu) (s, [])) as [s1 e1]. cbn [fst snd] in *. exact Hf.
Qed.

Theorem one_reply cfg fx s c h m s' evs e :
  fx_nowait fx = true ->
  get_chan s c h <> None ->
  handle_method cfg fx s c h m = (s', evs, e) ->
  match e with
  | Some _ => evs = []
  | None => replies evs = map (fun k => (c, h, k)) (expected m) \/
            (exists q noack, m = MGet q noack /\ replies evs = [(c, h, KGetEmpty)])
  end.
Proof.
  intros Hnw Hc H. unfold handle_method in H.
  destruct (get_chan s c h) as [ch|] eqn:Hch; [|congruence].
  destruct m; unfold ok, refuse in H; rewrite ?Hnw in H; cbn [andb] in H.
  all: try (repeat break_match_hyp H; inversion H; subst; cbn; auto; fail).
  - (* MQDelete *)
    repeat break_match_hyp H; try (inversion H; subst; auto; fail).
    all: inversion H; subst.
    all: match goal with Hd : vhost_delete_queue ?b ?st ?q ?iu ?ie = (_, ?l, _) |- _ =>
           pose proof (replies_vhost_delete b st q iu ie) as Hr; rewrite Hd in Hr; cbn [fst snd] in Hr end.
    all: left; rewrite replies_app, Hr; cbn; reflexivity.
  - (* MGet *)
    repeat break_match_hyp H; inversion H; subst; cbn; auto.
    all: try (right; eauto; fail).
    all: try (left; unfold out1; cbn; rewrite replies_content; reflexivity).
    all: try (right; do 2 eexists; split; reflexivity).
  - (* MAck *) destruct (handle_ack cfg s c h tag mult) as [s1 e1]. inversion H; subst. destruct e; auto.
  - (* MNack *) destruct (handle_reject cfg s c h tag mult requeue 60 120) as [s1 e1]. inversion H; subst. destruct e; auto.
  - (* MReject *) destruct (handle_reject cfg s c h tag false requeue 60 90) as [s1 e1]. inversion H; subst. destruct e; auto.
Qed.

(* unsupported methods are refused, not ignored *)
Theorem unsupported_refused cfg fx s c h :
  fx_not_impl fx = true -> get_chan s c h <> None ->
  handle_method cfg fx s c h MTxSelect = (s, [], Some (ConnErr NotImplemented 90 10)) /\
  (forall r, handle_method cfg fx s c h (MRecover r) = (s, [], Some (ConnErr NotImplemented 60 110))) /\
  (forall n iu nw, handle_method cfg fx s c h (MExDelete n iu nw) = (s, [], Some (ChanErr NotImplemented 40 20))).
Proof.
  intros Hf Hc. unfold handle_method. destruct (get_chan s c h); [|congruence]. rewrite Hf. repeat split.
Qed.

(* replies of a run are the per-step replies in step order: a channel's frames are handled one at a time *)
Theorem replies_in_request_order cfg fx ls : forall s,
  replies (snd (run cfg fx s ls)) =
  flat_map (fun x => x) ((fix go s ls := match ls with [] => [] | l :: t => replies (snd (step cfg fx s l)) :: go (fst (step cfg fx s l)) t end) s ls).
Proof.
  induction ls as [|l t IH]; intros s; simpl; auto.
  destruct (step cfg fx s l) as [s1 e1] eqn:Es. specialize (IH s1). destruct (run cfg fx s1 t) as [s2 e2]. cbn [snd fst] in *.
  rewrite replies_app, IH. reflexivity.
Qed.
