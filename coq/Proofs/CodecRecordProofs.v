(* Round trips of frames, content headers (every flag subset) and the four storage records. *)
From Coq Require Import List String Arith NArith Bool Lia ZifyN ZifyNat ZifyBool.
Import ListNotations.
From GMQ Require Import Base.Bytes Codec.Desc Codec.Prim Codec.Value Codec.MethodCodec Codec.Header Codec.Frame Codec.Records.
From GMQ Require Import Proofs.CodecPrimProofs Proofs.CodecValueProofs Proofs.CodecMethodProofs.
Open Scope N_scope.
Open Scope list_scope.

Ltac norm_pows :=
  change (2 ^ 8) with 256 in *; change (2 ^ 16) with 65536 in *;
  change (2 ^ 32) with 4294967296 in *; change (2 ^ 64) with 18446744073709551616 in *.

(* ---------- frames ---------- *)
Theorem frame_roundtrip : forall fa fe f rest, wf_frame f = true ->
  dec_frame fa fe (enc_frame fe f ++ rest) = Ok (f, rest).
Proof.
  intros fa fe [t c p] rest H. unfold wf_frame in H. cbn [f_type f_channel f_payload] in H.
  apply andb_true_iff in H. destruct H as [H Hp]. apply andb_true_iff in H. destruct H as [Ht Hc].
  apply N.ltb_lt in Ht. apply N.ltb_lt in Hc. apply N.ltb_lt in Hp.
  unfold dec_frame, enc_frame, enc_longstr. cbn [f_type f_channel f_payload].
  repeat rewrite <- app_assoc.
  rewrite dec_octet_enc by exact Ht. cbn [bind fst snd].
  rewrite dec_short_enc by exact Hc. cbn [bind fst snd].
  unfold dec_long. rewrite dec_fixed_enc by (apply N.lt_trans with (2 ^ 32 - 1); [exact Hp | reflexivity]). cbn [bind fst snd].
  norm_pows.
  assert (Hfin : match takeN (blen p) (p ++ [fe] ++ rest) with
                 | Some (p0, e :: r') => if e =? fe then Ok ({| f_type := t; f_channel := c; f_payload := p0 |}, r') else Err
                 | _ => Err
                 end = Ok ({| f_type := t; f_channel := c; f_payload := p |}, rest)).
  { rewrite takeN_app. cbn [app]. rewrite N.eqb_refl. reflexivity. }
  assert (Hlen : blen (p ++ [fe] ++ rest) = blen p + 1 + blen rest).
  { repeat rewrite blen_app. change (blen [fe]) with 1. lia. }
  destruct fa as [|cap].
  - rewrite N.mod_small by lia. rewrite Hlen.
    destruct (N.ltb_spec (blen p + 1 + blen rest) (blen p + 1)) as [L|L]; [lia|].
    destruct (N.eqb_spec (blen p) (4294967296 - 1)) as [E|E]; [lia|]. exact Hfin.
  - rewrite Hlen. destruct (N.ltb_spec (blen p + 1 + blen rest) (blen p + 1)) as [L|L]; [lia|]. exact Hfin.
Qed.

Lemma enc_frame_length : forall fe f, (1 <= List.length (enc_frame fe f))%nat.
Proof. intros. unfold enc_frame, enc_octet. rewrite app_length, length_be_enc. lia. Qed.

(* ---------- queue, exchange ---------- *)
Theorem queue_roundtrip : forall q rest, wf_queue q = true -> dec_queue (enc_queue q ++ rest) = Ok (q, rest).
Proof.
  intros [n a] rest H. unfold wf_queue in H. cbn [q_name] in H. apply N.ltb_lt in H.
  unfold dec_queue, enc_queue. cbn [q_name q_autodelete]. rewrite <- app_assoc.
  rewrite dec_shortstr_enc by exact H. cbn [bind fst snd].
  rewrite dec_octet_enc by (destruct a; reflexivity). cbn [bind fst snd]. destruct a; reflexivity.
Qed.

Theorem exchange_roundtrip : forall e rest, wf_exchange e = true -> dec_exchange (enc_exchange e ++ rest) = Ok (e, rest).
Proof.
  intros [n t] rest H. unfold wf_exchange in H. cbn [ex_name ex_type] in H.
  apply andb_true_iff in H. destruct H as [Hn Ht]. apply N.ltb_lt in Hn. apply N.ltb_lt in Ht.
  unfold dec_exchange, enc_exchange. cbn [ex_name ex_type]. rewrite <- app_assoc.
  rewrite dec_shortstr_enc by exact Hn. cbn [bind fst snd].
  rewrite dec_octet_enc by exact Ht. reflexivity.
Qed.

Section RecordRT.
  Variable st : alloc_style.
  Variable fa : frame_alloc_style.
  Variable fe : N.
  Variable rd : dialect -> list reader_row.
  Variable wr : dialect -> list writer_row.
  Variable d : dialect.

  (* ---------- binding ---------- *)
  Theorem binding_roundtrip : forall b, wf_binding rd wr d b = true ->
    exists bs, enc_binding wr d b = Some bs /\ forall rest, dec_binding st rd d (bs ++ rest) = Ok (b, rest).
  Proof.
    intros [q e k a t] H. unfold wf_binding in H. cbn [b_queue b_exchange b_rk b_args] in H.
    apply andb_true_iff in H. destruct H as [H Ha]. apply andb_true_iff in H. destruct H as [H Hk].
    apply andb_true_iff in H. destruct H as [Hq He].
    apply N.ltb_lt in Hq. apply N.ltb_lt in He. apply N.ltb_lt in Hk.
    destruct (field_enc_some rd wr d KTable (MTab a) Ha) as [ab Eab]; [discriminate|]. cbn [enc_field] in Eab.
    exists (enc_shortstr q ++ enc_shortstr e ++ enc_shortstr k ++ ab ++ enc_octet (if t then 1 else 0)).
    split; [unfold enc_binding; cbn [b_queue b_exchange b_rk b_args b_topic]; rewrite Eab; reflexivity|].
    intros rest. unfold dec_binding. repeat rewrite <- app_assoc.
    rewrite dec_shortstr_enc by exact Hq. cbn [bind fst snd].
    rewrite dec_shortstr_enc by exact He. cbn [bind fst snd].
    rewrite dec_shortstr_enc by exact Hk. cbn [bind fst snd].
    rewrite (table_roundtrip st rd wr d a ab _ Ha Eab). cbn [bind fst snd].
    rewrite dec_octet_enc by (destruct t; reflexivity). cbn [bind fst snd]. destruct t; reflexivity.
  Qed.

  (* ---------- content header ---------- *)
  Variable pf : list (string * fkind).
  Variable pr : list prop_row.
  Variable pw : list prop_row.

  Definition present (src : env) (r : prop_row) : bool :=
    match env_get src (pr_name r) with Some _ => true | None => false end.

  Definition row_wf (src : env) (r : prop_row) : Prop :=
    pr_kind r <> KBit /\
    (env_get src (pr_name r) = None \/ exists v, env_get src (pr_name r) = Some v /\ wf_mval rd wr d (pr_kind r) v = true).

  Lemma existsb_unique : forall {A} (key : A -> N) (val : A -> bool) l a0, In a0 l -> N_nodup (map key l) = true ->
    existsb (fun a => (key a =? key a0) && val a) l = val a0.
  Proof.
    intros A key val. induction l as [|q l IH]; intros a0 Hin Hnd; [destruct Hin|].
    cbn [map N_nodup] in Hnd. apply andb_true_iff in Hnd. destruct Hnd as [Hq Hnd]. apply negb_true_iff in Hq.
    cbn [existsb]. destruct Hin as [E|Hin].
    - subst q. rewrite N.eqb_refl. cbn [andb].
      assert (T : existsb (fun a => (key a =? key a0) && val a) l = false).
      { apply not_true_is_false. intros C. apply existsb_exists in C. destruct C as [p [Hp C]].
        apply andb_true_iff in C. destruct C as [C _]. apply N.eqb_eq in C.
        assert (X : existsb (N.eqb (key a0)) (map key l) = true).
        { apply existsb_exists. exists (key p). split; [apply in_map; exact Hp | apply N.eqb_eq; congruence]. }
        congruence. }
      rewrite T, orb_false_r. reflexivity.
    - assert (T : (key q =? key a0) = false).
      { apply not_true_is_false. intros C. apply N.eqb_eq in C.
        assert (X : existsb (N.eqb (key q)) (map key l) = true).
        { apply existsb_exists. exists (key a0). split; [apply in_map; exact Hin | apply N.eqb_eq; exact C]. }
        congruence. }
      rewrite T. cbn [andb orb]. apply IH; assumption.
  Qed.

  Lemma props_rt : forall src rows, Forall (row_wf src) rows ->
    exists fl body, enc_props wr d rows src = Some (fl, body) /\
      (forall j, N.testbit fl j = existsb (fun r => (pr_bit r =? j) && present src r) rows) /\
      forall FL e0 rest, (forall r, In r rows -> N.testbit FL (pr_bit r) = present src r) ->
        exists e', dec_props st rd d rows FL e0 (body ++ rest) = Ok (e', rest) /\
                   forall m, env_get e' m = if mem m (map pr_name (filter (present src) rows)) then env_get src m else env_get e0 m.
  Proof.
    intros src rows HF. induction HF as [|r rows Hr HF IH].
    - exists 0, []. split; [reflexivity|]. split; [intros; apply N.bits_0|].
      intros FL e0 rest _. exists e0. split; reflexivity.
    - destruct IH as [fl [body [Eenc [Hbits Hdec]]]]. destruct Hr as [Hk Hv].
      destruct Hv as [Hnone|[v [Hv Hwf]]].
      + exists fl, body. split; [cbn [enc_props]; rewrite Eenc; cbn [obind]; rewrite Hnone; reflexivity|].
        assert (Hp : present src r = false) by (unfold present; rewrite Hnone; reflexivity).
        split; [intros j; cbn [existsb]; rewrite Hp, andb_false_r; cbn [orb]; apply Hbits|].
        intros FL e0 rest HFL. cbn [dec_props]. rewrite (HFL r (or_introl eq_refl)), Hp.
        destruct (Hdec FL e0 rest (fun r' Hr' => HFL r' (or_intror Hr'))) as [e' [Hd He]].
        exists e'. split; [exact Hd|]. intros m. rewrite He. cbn [filter]. rewrite Hp. reflexivity.
      + destruct (field_enc_some rd wr d _ v Hwf Hk) as [a Ea].
        exists (N.lor (N.shiftl 1 (pr_bit r)) fl), (a ++ body).
        split; [cbn [enc_props]; rewrite Eenc; cbn [obind]; rewrite Hv, Ea; reflexivity|].
        assert (Hp : present src r = true) by (unfold present; rewrite Hv; reflexivity).
        split; [intros j; cbn [existsb]; rewrite N.lor_spec, testbit_one_shl, Hp, andb_true_r, Hbits; reflexivity|].
        intros FL e0 rest HFL. cbn [dec_props]. rewrite (HFL r (or_introl eq_refl)), Hp.
        rewrite <- app_assoc. rewrite (field_rt st rd wr d _ v a (body ++ rest) Hwf Ea). cbn [bind fst snd].
        destruct (Hdec FL (env_set e0 (pr_name r) v) rest (fun r' Hr' => HFL r' (or_intror Hr'))) as [e' [Hd He]].
        exists e'. split; [exact Hd|]. intros m. rewrite He. cbn [filter]. rewrite Hp. cbn [map]. unfold mem. cbn [existsb].
        fold (mem m (map pr_name (filter (present src) rows))).
        destruct (mem m (map pr_name (filter (present src) rows))); [rewrite orb_true_r; reflexivity|]. rewrite orb_false_r.
        rewrite env_get_set. rewrite String.eqb_sym.
        destruct (String.eqb_spec m (pr_name r)) as [E|E]; [subst m; symmetry; exact Hv | reflexivity].
  Qed.

  Lemma high_bits_false_lt : forall a n, (forall j, n <= j -> N.testbit a j = false) -> a < 2 ^ n.
  Proof.
    intros a n H. assert (E : a mod 2 ^ n = a).
    { apply N.bits_inj. intros j. destruct (N.lt_ge_cases j n) as [L|L].
      - apply N.mod_pow2_bits_low. exact L.
      - rewrite N.mod_pow2_bits_high by exact L. symmetry. apply H. exact L. }
    rewrite <- E. apply N.mod_lt. apply N.pow_nonzero. discriminate.
  Qed.

  (* what the struct fields give the environment *)
  Lemma env_of_props_notin : forall fields ps n, existsb (String.eqb n) (map fst fields) = false -> env_get (env_of_props fields ps) n = None.
  Proof.
    induction fields as [|[fn fk] fields IH]; intros ps n H; [destruct ps; reflexivity|].
    cbn [map fst existsb] in H. apply orb_false_iff in H. destruct H as [H1 H2].
    destruct ps as [|[v|] ps]; cbn [env_of_props]; [reflexivity| |apply IH; exact H2].
    cbn [env_get fst]. rewrite String.eqb_sym, H1. apply IH. exact H2.
  Qed.

  Lemma env_of_props_get : forall fields ps n k,
    str_nodup (map fst fields) = true -> wf_props rd wr d fields ps = true -> field_in fields n k = true ->
    env_get (env_of_props fields ps) n = None \/
    exists v, env_get (env_of_props fields ps) n = Some v /\ wf_mval rd wr d k v = true.
  Proof.
    induction fields as [|[fn fk] fields IH]; intros ps n k Hnd Hwf Hin; [discriminate|].
    destruct ps as [|p ps]; [discriminate|].
    cbn [wf_props fst snd] in Hwf. apply andb_true_iff in Hwf. destruct Hwf as [Hv Hwf].
    cbn [map fst str_nodup] in Hnd. apply andb_true_iff in Hnd. destruct Hnd as [Hfn Hnd]. apply negb_true_iff in Hfn.
    unfold field_in in Hin. cbn [existsb fst snd] in Hin.
    destruct (String.eqb_spec fn n) as [E|E].
    - subst fn. cbn [andb] in Hin. apply orb_true_iff in Hin. destruct Hin as [Hk|Hin].
      + apply fkind_eqb_eq in Hk. subst fk. destruct p as [v|]; cbn [env_of_props].
        * right. exists v. cbn [env_get fst]. rewrite String.eqb_refl. split; [reflexivity | exact Hv].
        * left. apply env_of_props_notin. exact Hfn.
      + exfalso. apply existsb_exists in Hin. destruct Hin as [[gn gk] [Hg Hgk]]. cbn [fst snd] in Hgk.
        apply andb_true_iff in Hgk. destruct Hgk as [Hgn _]. apply String.eqb_eq in Hgn. subst gn.
        assert (X : existsb (String.eqb n) (map fst fields) = true).
        { apply existsb_exists. exists n. split; [change n with (fst (n, gk)); apply in_map; exact Hg | apply String.eqb_refl]. }
        congruence.
    - cbn [andb orb] in Hin.
      assert (T : forall tl, env_get ((fn, tl) :: env_of_props fields ps) n = env_get (env_of_props fields ps) n).
      { intros tl. cbn [env_get]. destruct (String.eqb_spec fn n); [contradiction | reflexivity]. }
      destruct p as [v|]; cbn [env_of_props]; [rewrite T|]; apply (IH ps n k Hnd Hwf Hin).
  Qed.

  Lemma props_of_env_src : forall fields ps e,
    str_nodup (map fst fields) = true -> wf_props rd wr d fields ps = true ->
    (forall f, In f fields -> env_get e (fst f) = env_get (env_of_props fields ps) (fst f)) ->
    map (fun f => env_get e (fst f)) fields = ps.
  Proof.
    induction fields as [|[fn fk] fields IH]; intros ps e Hnd Hwf He; destruct ps as [|p ps]; try discriminate; [reflexivity|].
    cbn [wf_props fst snd] in Hwf. apply andb_true_iff in Hwf. destruct Hwf as [Hv Hwf].
    cbn [map fst str_nodup] in Hnd. apply andb_true_iff in Hnd. destruct Hnd as [Hfn Hnd]. apply negb_true_iff in Hfn.
    cbn [map fst]. f_equal.
    - pose proof (He (fn, fk) (or_introl eq_refl)) as H0. cbn [fst] in H0. rewrite H0.
      destruct p as [v|]; cbn [env_of_props].
      + cbn [env_get]. rewrite String.eqb_refl. reflexivity.
      + apply env_of_props_notin. exact Hfn.
    - apply IH; [exact Hnd | exact Hwf |].
      intros f Hf. rewrite (He f (or_intror Hf)).
      assert (X : String.eqb fn (fst f) = false).
      { apply not_true_is_false. intros C. apply String.eqb_eq in C.
        assert (Y : existsb (String.eqb fn) (map fst fields) = true).
        { apply existsb_exists. exists (fst f). split; [apply in_map; exact Hf | apply String.eqb_eq; exact C]. }
        congruence. }
      destruct p as [v|]; cbn [env_of_props]; [cbn [env_get fst]; rewrite X|]; reflexivity.
  Qed.

  Lemma prop_row_eqb_eq : forall a b, prop_row_eqb a b = true -> a = b.
  Proof.
    intros [[b1 n1] k1] [[b2 n2] k2] H. unfold prop_row_eqb, pr_bit, pr_name, pr_kind in H. cbn [fst snd] in H.
    apply andb_true_iff in H. destruct H as [H Hk]. apply andb_true_iff in H. destruct H as [Hb Hn].
    apply N.eqb_eq in Hb. apply String.eqb_eq in Hn. apply fkind_eqb_eq in Hk. congruence.
  Qed.

  Theorem header_roundtrip : forall h,
    wf_props_desc pf pr pw = true -> wf_header rd wr d pf h = true ->
    exists b, enc_header wr d pf pw h = Some b /\ forall rest, dec_header st rd d pf pr (b ++ rest) = Ok (h, rest).
  Proof.
    intros [c w s ps] Hd Hh. unfold wf_props_desc in Hd.
    apply andb_true_iff in Hd. destruct Hd as [Hd Hcov].
    apply andb_true_iff in Hd. destruct Hd as [Hd Hndf].
    apply andb_true_iff in Hd. destruct Hd as [Hd Hndn].
    apply andb_true_iff in Hd. destruct Hd as [Hd Hndb].
    apply andb_true_iff in Hd. destruct Hd as [Heq Hrows].
    apply (list_eqb_eq prop_row_eqb prop_row_eqb_eq) in Heq. subst pw.
    unfold wf_header in Hh. cbn [h_class h_weight h_body_size h_props] in Hh.
    apply andb_true_iff in Hh. destruct Hh as [Hh Hps]. apply andb_true_iff in Hh. destruct Hh as [Hh Hs].
    apply andb_true_iff in Hh. destruct Hh as [Hc Hw].
    apply N.ltb_lt in Hc. apply N.ltb_lt in Hw. apply N.ltb_lt in Hs.
    set (src := env_of_props pf ps).
    rewrite forallb_forall in Hrows.
    assert (HF : Forall (row_wf src) pr).
    { apply Forall_forall. intros r Hr. specialize (Hrows r Hr).
      apply andb_true_iff in Hrows. destruct Hrows as [Hrows Hin]. apply andb_true_iff in Hrows. destruct Hrows as [_ Hk].
      apply negb_true_iff in Hk. split; [intros C; rewrite C in Hk; discriminate|].
      apply (env_of_props_get pf ps _ _ Hndf Hps Hin). }
    destruct (props_rt src pr HF) as [fl [body [Eenc [Hbits Hdec]]]].
    assert (Hfl : fl < 2 ^ 16).
    { apply high_bits_false_lt. intros j Hj. rewrite Hbits. apply not_true_is_false. intros C.
      apply existsb_exists in C. destruct C as [r [Hr C]]. apply andb_true_iff in C. destruct C as [C _]. apply N.eqb_eq in C.
      specialize (Hrows r Hr). apply andb_true_iff in Hrows. destruct Hrows as [Hrows _].
      apply andb_true_iff in Hrows. destruct Hrows as [Hb _]. apply N.ltb_lt in Hb. lia. }
    exists (enc_short c ++ enc_short w ++ enc_longlong s ++ enc_short fl ++ body).
    split; [unfold enc_header; cbn [h_class h_weight h_body_size h_props]; fold src; rewrite Eenc; reflexivity|].
    intros rest. unfold dec_header.
    set (fixed := enc_short c ++ enc_short w ++ enc_longlong s ++ enc_short fl ++ []).
    assert (Efix : (enc_short c ++ enc_short w ++ enc_longlong s ++ enc_short fl ++ body) ++ rest = fixed ++ (body ++ rest)).
    { unfold fixed. repeat rewrite <- app_assoc. reflexivity. }
    assert (Lfix : List.length fixed = 14%nat).
    { unfold fixed, enc_short, enc_longlong. repeat rewrite app_length. repeat rewrite length_be_enc. reflexivity. }
    rewrite Efix. rewrite <- Lfix. rewrite take_app. unfold fixed.
    rewrite dec_short_enc by exact Hc. cbn [bind fst snd].
    rewrite dec_short_enc by exact Hw. cbn [bind fst snd].
    rewrite dec_longlong_enc by exact Hs. cbn [bind fst snd].
    rewrite dec_short_enc by exact Hfl. cbn [bind fst snd].
    assert (HFL : forall r, In r pr -> N.testbit fl (pr_bit r) = present src r).
    { intros r Hr. rewrite Hbits. apply (existsb_unique pr_bit (present src) pr r Hr Hndb). }
    destruct (Hdec fl [] rest HFL) as [e' [Hd' He']]. rewrite Hd'. cbn [bind fst snd]. do 2 f_equal.
    f_equal. unfold props_of_env. apply props_of_env_src; [exact Hndf | exact Hps |].
    intros f Hf. rewrite He'. fold src.
    rewrite forallb_forall in Hcov. specialize (Hcov f Hf).
    apply existsb_exists in Hcov. destruct Hcov as [r [Hr Hname]]. apply String.eqb_eq in Hname.
    destruct (env_get src (fst f)) as [v|] eqn:Ev.
    - assert (M : mem (fst f) (map pr_name (filter (present src) pr)) = true).
      { apply existsb_exists. exists (pr_name r). split; [|rewrite Hname; apply String.eqb_refl].
        apply in_map. apply filter_In. split; [exact Hr|]. unfold present. rewrite Hname, Ev. reflexivity. }
      rewrite M. reflexivity.
    - assert (M : mem (fst f) (map pr_name (filter (present src) pr)) = false).
      { apply not_true_is_false. intros C. apply existsb_exists in C. destruct C as [n [Hn C]]. apply String.eqb_eq in C. subst n.
        apply in_map_iff in Hn. destruct Hn as [r' [Hn' Hr']]. apply filter_In in Hr'. destruct Hr' as [_ Hp].
        unfold present in Hp. rewrite Hn', Ev in Hp. discriminate. }
      rewrite M. reflexivity.
  Qed.

  (* ---------- stored message ---------- *)
  Definition last_nonempty (fs : list frame) : bool :=
    match rev fs with [] => true | l :: _ => 0 <? blen (f_payload l) end.

  Lemma last_nonempty_tail : forall f fs, fs <> [] -> last_nonempty (f :: fs) = true -> last_nonempty fs = true.
  Proof.
    intros f fs Hne H. unfold last_nonempty in *. cbn [rev] in H.
    destruct (rev fs) as [|l t] eqn:E.
    - exfalso. apply Hne. rewrite <- (rev_involutive fs), E. reflexivity.
    - cbn [app] in H. exact H.
  Qed.

  Lemma last_nonempty_total : forall fs, fs <> [] -> last_nonempty fs = true -> 0 < body_total fs.
  Proof.
    induction fs as [|f fs IH]; intros Hne H; [contradiction|].
    unfold body_total. cbn [fold_right]. fold (body_total fs).
    destruct fs as [|g fs'].
    - unfold last_nonempty in H. cbn [rev app] in H. apply N.ltb_lt in H. unfold body_total. cbn [fold_right]. lia.
    - assert (0 < body_total (g :: fs')) by (apply IH; [discriminate | apply (last_nonempty_tail f); [discriminate | exact H]]). lia.
  Qed.

  Lemma body_rt : forall fs have want fuel rest,
    Forall (fun f => wf_frame f = true) fs -> last_nonempty fs = true -> have + body_total fs = want ->
    (List.length fs < fuel)%nat ->
    dec_body fa fe fuel have want (flat_map (enc_frame fe) fs ++ rest) = Ok (fs, rest).
  Proof.
    induction fs as [|f fs IH]; intros have want fuel rest HF Hl Ht Hfuel; (destruct fuel as [|fuel]; [cbn [List.length] in Hfuel; lia|]); cbn [dec_body].
    - unfold body_total in Ht. cbn [fold_right] in Ht.
      destruct (N.ltb_spec have want) as [L|L]; [lia|]. reflexivity.
    - assert (P : 0 < body_total (f :: fs)) by (apply last_nonempty_total; [discriminate | exact Hl]).
      destruct (N.ltb_spec have want) as [L|L]; [|lia].
      cbn [flat_map]. rewrite <- app_assoc.
      pose proof (Forall_inv HF) as Hf. pose proof (Forall_inv_tail HF) as HF'. cbv beta in Hf.
      rewrite (frame_roundtrip fa fe f _ Hf). cbn [bind fst snd].
      unfold body_total in Ht. cbn [fold_right] in Ht. fold (body_total fs) in Ht.
      rewrite (IH (have + blen (f_payload f)) want fuel rest HF').
      + reflexivity.
      + destruct fs as [|g fs']; [reflexivity | apply (last_nonempty_tail f); [discriminate | exact Hl]].
      + lia.
      + cbn [List.length] in *. lia.
  Qed.

  Lemma flat_map_length_ge : forall fs, (List.length fs <= List.length (flat_map (enc_frame fe) fs))%nat.
  Proof.
    induction fs as [|f fs IH]; [reflexivity|]. cbn [flat_map List.length]. rewrite app_length.
    pose proof (enc_frame_length fe f). lia.
  Qed.

  Lemma message_core_roundtrip : forall m,
    wf_props_desc pf pr pw = true -> wf_message_core rd wr d pf m = true ->
    exists b, enc_message_core fe wr d pf pw m = Some b /\
              forall rest, dec_message_core st fa fe rd d pf pr (b ++ rest) = Ok (with_count m 0, rest).
  Proof.
    intros [i h ex rk body cnt] Hd Hm. unfold wf_message_core in Hm. cbn [msg_id msg_header msg_exchange msg_rk msg_body] in Hm.
    apply andb_true_iff in Hm. destruct Hm as [Hm Hlast]. apply andb_true_iff in Hm. destruct Hm as [Hm Htot].
    apply andb_true_iff in Hm. destruct Hm as [Hm Hfr]. apply andb_true_iff in Hm. destruct Hm as [Hm Hrk].
    apply andb_true_iff in Hm. destruct Hm as [Hm Hex]. apply andb_true_iff in Hm. destruct Hm as [Hi Hh].
    apply N.ltb_lt in Hi. apply N.ltb_lt in Hex. apply N.ltb_lt in Hrk. apply N.eqb_eq in Htot.
    destruct (header_roundtrip h Hd Hh) as [hb [Ehb Hhdec]].
    exists (enc_longlong i ++ hb ++ enc_shortstr ex ++ enc_shortstr rk ++ flat_map (enc_frame fe) body).
    split; [unfold enc_message_core; cbn [msg_id msg_header msg_exchange msg_rk msg_body]; rewrite Ehb; reflexivity|].
    intros rest. unfold dec_message_core. repeat rewrite <- app_assoc.
    rewrite dec_longlong_enc by exact Hi. cbn [bind fst snd].
    rewrite Hhdec. cbn [bind fst snd].
    rewrite dec_shortstr_enc by exact Hex. cbn [bind fst snd].
    rewrite dec_shortstr_enc by exact Hrk. cbn [bind fst snd].
    rewrite body_rt.
    - reflexivity.
    - apply Forall_forall. intros f Hf. rewrite forallb_forall in Hfr. apply Hfr. exact Hf.
    - exact Hlast.
    - rewrite N.add_0_l. exact Htot.
    - rewrite app_length. pose proof (flat_map_length_ge body). lia.
  Qed.

  Lemma with_count_id : forall m c, with_count (with_count m 0) c = with_count m c.
  Proof. intros. reflexivity. Qed.
  Lemma with_count_self : forall m, with_count m (msg_count m) = m.
  Proof. intros []. reflexivity. Qed.

  (* writer and reader of the same version (both with the delivery-count trailer, or both without):
     the stored record comes back, delivery count included *)
  Theorem message_roundtrip : forall t m,
    wf_props_desc pf pr pw = true -> wf_message rd wr d pf t m = true ->
    exists b, enc_message fe wr d pf pw t m = Some b /\
              forall rest, dec_message st fa fe rd d pf pr t (b ++ rest) = Ok (m, rest).
  Proof.
    intros t m Hd Hm. unfold wf_message in Hm. apply andb_true_iff in Hm. destruct Hm as [Hcore Hc].
    destruct (message_core_roundtrip m Hd Hcore) as [b [Eb Hdec]].
    exists (b ++ (if t then enc_long (msg_count m) else [])).
    split; [unfold enc_message; rewrite Eb; reflexivity|].
    intros rest. unfold dec_message. rewrite <- app_assoc. rewrite Hdec. cbn [bind fst snd].
    destruct t; cbn [andb].
    - apply N.ltb_lt in Hc.
      assert (L : (4 <=? blen (enc_long (msg_count m) ++ rest)) = true).
      { apply N.leb_le. rewrite blen_app. unfold blen at 1, enc_long. rewrite length_be_enc. lia. }
      rewrite L. rewrite dec_long_enc by exact Hc. cbn [bind fst snd].
      rewrite with_count_id, with_count_self. reflexivity.
    - apply N.eqb_eq in Hc. cbn [app]. rewrite <- Hc. rewrite with_count_self. reflexivity.
  Qed.

  (* backward compatibility: a record written WITHOUT the trailer (by the code before it existed) is read by the
     code that expects it as the same message with delivery count 0, whenever fewer than 4 bytes follow *)
  Theorem message_legacy_record : forall m,
    wf_props_desc pf pr pw = true -> wf_message rd wr d pf false m = true ->
    exists b, enc_message fe wr d pf pw false m = Some b /\
              forall rest, blen rest < 4 -> dec_message st fa fe rd d pf pr true (b ++ rest) = Ok (m, rest).
  Proof.
    intros m Hd Hm. unfold wf_message in Hm. apply andb_true_iff in Hm. destruct Hm as [Hcore Hc]. apply N.eqb_eq in Hc.
    destruct (message_core_roundtrip m Hd Hcore) as [b [Eb Hdec]].
    exists (b ++ []). split; [unfold enc_message; rewrite Eb; reflexivity|].
    intros rest Hr. unfold dec_message. rewrite app_nil_r. rewrite Hdec. cbn [bind fst snd andb].
    destruct (N.leb_spec 4 (blen rest)) as [L|L]; [lia|].
    rewrite <- Hc. rewrite with_count_self. reflexivity.
  Qed.
End RecordRT.
