(* The "view" of a broker state that conservation (C01) depends on: for every queue its identity, ownership and waiting
   messages; for every connection its handshake stage and, per channel, whether it is closed and its unsettled
   deliveries; the queue-id counter.  Every primitive of Broker/Model.v is described by what it does to the view. *)
From Coq Require Import List String NArith ZArith Bool Lia ZifyBool ZifyN Permutation.
From RecordUpdate Require Import RecordUpdate.
Import ListNotations.
From GMQ Require Import Broker.Model Proofs.BrokerFrames Proofs.BrokerTags Proofs.BrokerChanInv Proofs.BrokerQueueInv
  Proofs.BrokerReady Proofs.BrokerHeld.
Open Scope N_scope.

(* ------------------------------------------------------------------ *)
(* association lists under a value map *)
Definition vmap {K A B} (g : A -> B) (l : list (K * A)) : list (K * B) := map (fun kv => (fst kv, g (snd kv))) l.
Global Arguments vmap : simpl never.

Section VMap.
  Context {K A B : Type} (keqb : K -> K -> bool) (g : A -> B).
  Lemma alookup_vmap k (l : list (K * A)) : alookup keqb k (vmap g l) = option_map g (alookup keqb k l).
  Proof. unfold vmap. induction l as [|[k0 v0] t IH]; cbn; auto. destruct (keqb k k0); auto. Qed.
  Lemma vmap_aset k v (l : list (K * A)) : vmap g (aset keqb k v l) = aset keqb k (g v) (vmap g l).
  Proof. unfold vmap. induction l as [|[k0 v0] t IH]; cbn; auto. destruct (keqb k k0); cbn; auto. f_equal. exact IH. Qed.
  Lemma vmap_adel k (l : list (K * A)) : vmap g (adel keqb k l) = adel keqb k (vmap g l).
  Proof. unfold vmap. induction l as [|[k0 v0] t IH]; cbn; auto. destruct (keqb k k0); cbn; auto. f_equal. exact IH. Qed.
  Lemma keys_vmap (l : list (K * A)) : map fst (vmap g l) = map fst l.
  Proof. unfold vmap. rewrite map_map. reflexivity. Qed.
End VMap.

Section ASet.
  Context {K V : Type} (keqb : K -> K -> bool).
  Hypothesis keqb_spec : forall a b, keqb a b = true <-> a = b.
  Lemma aset_same k (v : V) l : alookup keqb k l = Some v -> aset keqb k v l = l.
  Proof.
    induction l as [|[k0 v0] t IH]; cbn; [discriminate|].
    destruct (keqb k k0) eqn:E.
    - intros H. inversion H; subst. apply keqb_spec in E. subst. reflexivity.
    - intros H. f_equal. auto.
  Qed.
  Lemma aset_aset k (v v' : V) l : aset keqb k v' (aset keqb k v l) = aset keqb k v' l.
  Proof.
    induction l as [|[k0 v0] t IH]; cbn.
    - rewrite (proj2 (keqb_spec k k) eq_refl). reflexivity.
    - destruct (keqb k k0) eqn:E; cbn.
      + rewrite (proj2 (keqb_spec k k) eq_refl). reflexivity.
      + rewrite E. f_equal. exact IH.
  Qed.
  (* the entry of an existing key is replaced in place *)
  Lemma aset_split k (v0 v : V) l : alookup keqb k l = Some v0 ->
    exists l1 l2, l = l1 ++ (k, v0) :: l2 /\ aset keqb k v l = l1 ++ (k, v) :: l2 /\ alookup keqb k l1 = None.
  Proof.
    induction l as [|[k0 x0] t IH]; cbn; [discriminate|].
    destruct (keqb k k0) eqn:E.
    - intros H. inversion H; subst. apply keqb_spec in E. subst. exists [], t. auto.
    - intros H. destruct (IH H) as (l1 & l2 & E1 & E2 & E3). exists ((k0, x0) :: l1), l2. cbn. rewrite E, E1 at 1.
      rewrite E2. auto.
  Qed.
  Lemma aset_fresh k (v : V) l : alookup keqb k l = None -> aset keqb k v l = l ++ [(k, v)].
  Proof.
    induction l as [|[k0 x0] t IH]; cbn; auto. destruct (keqb k k0); [discriminate|]. intros H. f_equal. auto.
  Qed.
  Lemma alookup_none_notin k (l : list (K * V)) : alookup keqb k l = None <-> ~ In k (map fst l).
  Proof.
    induction l as [|[k0 x0] t IH]; cbn; [tauto|]. destruct (keqb k k0) eqn:E.
    - apply keqb_spec in E. subst. split; [discriminate|tauto].
    - rewrite IH. split; [|tauto]. intros H [H1|H1]; auto. subst. rewrite (proj2 (keqb_spec k k) eq_refl) in E. discriminate.
  Qed.
  Lemma keys_aset k (v : V) l : map fst (aset keqb k v l) = if alookup keqb k l then map fst l else map fst l ++ [k].
  Proof.
    induction l as [|[k0 x0] t IH]; cbn; auto. destruct (keqb k k0) eqn:E; cbn.
    - apply keqb_spec in E. subst. reflexivity.
    - rewrite IH. destruct (alookup keqb k t); reflexivity.
  Qed.
  Lemma nodup_in_alookup k (v : V) l : NoDup (map fst l) -> In (k, v) l -> alookup keqb k l = Some v.
  Proof.
    induction l as [|[k0 x0] t IH]; cbn; [tauto|]. intros Hnd [H|H].
    - inversion H; subst. rewrite (proj2 (keqb_spec k k) eq_refl). reflexivity.
    - inversion Hnd; subst. destruct (keqb k k0) eqn:E; auto.
      apply keqb_spec in E. subst. exfalso. apply H2. apply (in_map fst) in H. exact H.
  Qed.
  Lemma adel_notin k (l : list (K * V)) : ~ In k (map fst (adel keqb k l)).
  Proof.
    induction l as [|[k0 x0] t IH]; cbn; auto. destruct (keqb k k0) eqn:E; auto. cbn. intros [H|H]; auto.
    subst. rewrite (proj2 (keqb_spec k k) eq_refl) in E. discriminate.
  Qed.
  Lemma adel_filter k (l : list (K * V)) : adel keqb k l = filter (fun kv => negb (keqb k (fst kv))) l.
  Proof. induction l as [|[k0 x0] t IH]; cbn; auto. destruct (keqb k k0); cbn; auto. f_equal. exact IH. Qed.
  Lemma adel_none k (l : list (K * V)) : alookup keqb k l = None -> adel keqb k l = l.
  Proof. induction l as [|[k0 x0] t IH]; cbn; auto. destruct (keqb k k0); [discriminate|]. intros H. f_equal. auto. Qed.
End ASet.

(* ------------------------------------------------------------------ *)
(* the view *)
Record qp := { p_id : N; p_excl : bool; p_owner : N; p_active : bool; p_ready : list N }.
Definition qproj (qu : queue) : qp :=
  {| p_id := q_id qu; p_excl := q_excl qu; p_owner := q_owner qu; p_active := q_active qu; p_ready := q_ready qu |}.
Definition qview := list (string * qp).
Definition qv (s : state) : qview := vmap qproj (queues s).

Definition is_closed (st : chstatus) : bool := match st with ChClosed => true | _ => false end.
(* per channel: (closed?, has a consumer?), unsettled deliveries *)
Definition has_cons (l : list consumer) : bool := match l with [] => false | _ => true end.
Definition cp := ((bool * bool) * list unacked)%type.
Definition cproj (ch : channel) : cp := ((is_closed (ch_status ch), has_cons (ch_consumers ch)), ch_unacked ch).
Lemma has_cons_map (f : consumer -> consumer) l : has_cons (map f l) = has_cons l.
Proof. destruct l; reflexivity. Qed.
Ltac cpr := first [ reflexivity | unfold cproj, upd_consumer; cbn; rewrite ?has_cons_map; reflexivity ].
Definition np := (cstage * list (N * cp))%type.
Definition nproj (cn : conn) : np := (cn_stage cn, vmap cproj (cn_chans cn)).
Definition cview := list (N * np).
Definition cv (s : state) : cview := vmap nproj (conns s).

Definition view (s : state) : cview * qview * N := (cv s, qv s, next_qid s).

Lemma view_eq s s' : cv s' = cv s -> qv s' = qv s -> next_qid s' = next_qid s -> view s' = view s.
Proof. unfold view. intros -> -> ->. reflexivity. Qed.
Lemma view_inv s s' : view s' = view s -> cv s' = cv s /\ qv s' = qv s /\ next_qid s' = next_qid s.
Proof. unfold view. intros H. inversion H. auto. Qed.
Lemma view_same s s' : conns s' = conns s -> queues s' = queues s -> next_qid s' = next_qid s -> view s' = view s.
Proof. unfold view, cv, qv. intros -> -> ->. reflexivity. Qed.

(* setting one channel's projection *)
Definition cv_set (c h : N) (x : cp) (v : cview) : cview :=
  match alookup N.eqb c v with
  | Some (st, chs) => aset N.eqb c (st, aset N.eqb h x chs) v
  | None => v
  end.
Definition cv_get (v : cview) (c h : N) : option cp :=
  match alookup N.eqb c v with Some (_, chs) => alookup N.eqb h chs | None => None end.

Lemma cv_get_cv s c h : cv_get (cv s) c h = option_map cproj (get_chan s c h).
Proof.
  unfold cv_get, cv, get_chan, get_conn. rewrite alookup_vmap. destruct (alookup N.eqb c (conns s)) as [cn|]; cbn; auto.
  apply alookup_vmap.
Qed.

Lemma cv_set_same c h x v : cv_get v c h = Some x -> cv_set c h x v = v.
Proof.
  unfold cv_get, cv_set. destruct (alookup N.eqb c v) as [[st chs]|] eqn:E; auto. intros H.
  rewrite (aset_same N.eqb Neqb_spec _ _ _ H). apply (aset_same N.eqb Neqb_spec). exact E.
Qed.
Lemma cv_set_set c h x y v : cv_set c h y (cv_set c h x v) = cv_set c h y v.
Proof.
  unfold cv_set. destruct (alookup N.eqb c v) as [[st chs]|] eqn:E; [|rewrite E; reflexivity].
  rewrite (alookup_aset N.eqb Neqb_spec), N.eqb_refl. rewrite (aset_aset N.eqb Neqb_spec). rewrite (aset_aset N.eqb Neqb_spec).
  reflexivity.
Qed.
Lemma cv_get_set c h x v c' h' :
  cv_get (cv_set c h x v) c' h' = match alookup N.eqb c v with
                                  | Some _ => if (c' =? c) && (h' =? h) then Some x else cv_get v c' h'
                                  | None => cv_get v c' h'
                                  end.
Proof.
  unfold cv_get, cv_set. destruct (alookup N.eqb c v) as [[st chs]|] eqn:E; auto.
  rewrite (alookup_aset N.eqb Neqb_spec). destruct (c' =? c) eqn:E1; cbn; auto.
  rewrite (alookup_aset N.eqb Neqb_spec). apply N.eqb_eq in E1. subst. rewrite E. destruct (h' =? h); reflexivity.
Qed.

(* ---- primitives ---- *)
Lemma next_qid_set_chan s c h ch : next_qid (set_chan s c h ch) = next_qid s.
Proof. unfold set_chan. destruct (get_conn s c); reflexivity. Qed.
Lemma next_qid_upd_chan s c h f : next_qid (upd_chan s c h f) = next_qid s.
Proof. unfold upd_chan. destruct (get_chan s c h); [apply next_qid_set_chan|reflexivity]. Qed.
Lemma next_qid_upd_msg s u f : next_qid (upd_msg s u f) = next_qid s.
Proof. unfold upd_msg. destruct (get_msg s u); reflexivity. Qed.
Lemma next_qid_upd_queue s q f : next_qid (upd_queue s q f) = next_qid s.
Proof. unfold upd_queue. destruct (get_queue s q); reflexivity. Qed.

Lemma cv_set_chan s c h ch : cv (set_chan s c h ch) = cv_set c h (cproj ch) (cv s).
Proof.
  unfold set_chan, cv_set, cv, get_conn. rewrite alookup_vmap. destruct (alookup N.eqb c (conns s)) as [cn|]; cbn; auto.
  rewrite vmap_aset. unfold nproj at 1. cbn. rewrite vmap_aset. reflexivity.
Qed.
Lemma qv_set_chan s c h ch : qv (set_chan s c h ch) = qv s.
Proof. unfold qv. rewrite queues_set_chan. reflexivity. Qed.
Lemma qv_upd_chan s c h f : qv (upd_chan s c h f) = qv s.
Proof. unfold qv. rewrite queues_upd_chan. reflexivity. Qed.
Lemma cv_upd_chan s c h f :
  cv (upd_chan s c h f) = match get_chan s c h with Some ch => cv_set c h (cproj (f ch)) (cv s) | None => cv s end.
Proof. unfold upd_chan. destruct (get_chan s c h); [apply cv_set_chan|reflexivity]. Qed.

Lemma qv_set_queue s q qu : qv (set_queue s q qu) = aset seqb q (qproj qu) (qv s).
Proof. unfold qv, set_queue. cbn. apply vmap_aset. Qed.
Lemma qv_get s q : alookup seqb q (qv s) = option_map qproj (get_queue s q).
Proof. unfold qv, get_queue. apply alookup_vmap. Qed.

(* view-preserving updates *)
Lemma view_set_chan_same s c h ch ch' : get_chan s c h = Some ch -> cproj ch' = cproj ch -> view (set_chan s c h ch') = view s.
Proof.
  intros Hg Hp. apply view_eq; [|apply qv_set_chan|apply next_qid_set_chan].
  rewrite cv_set_chan. apply cv_set_same. rewrite cv_get_cv, Hg. cbn. congruence.
Qed.
Lemma view_upd_chan_same s c h f : (forall ch, cproj (f ch) = cproj ch) -> view (upd_chan s c h f) = view s.
Proof. intros Hf. unfold upd_chan. destruct (get_chan s c h) eqn:E; auto. eapply view_set_chan_same; eauto. Qed.
Lemma view_set_queue_same s q qu qu' : get_queue s q = Some qu -> qproj qu' = qproj qu -> view (set_queue s q qu') = view s.
Proof.
  intros Hg Hp. apply view_eq; try reflexivity. rewrite qv_set_queue. apply (aset_same seqb seqb_spec).
  rewrite qv_get, Hg. cbn. congruence.
Qed.
Lemma view_upd_queue_same s q f : (forall qu, qproj (f qu) = qproj qu) -> view (upd_queue s q f) = view s.
Proof. intros Hf. unfold upd_queue. destruct (get_queue s q) eqn:E; auto. eapply view_set_queue_same; eauto. Qed.
Lemma view_upd_msg s u f : view (upd_msg s u f) = view s.
Proof. apply view_same; [apply conns_upd_msg|apply queues_upd_msg|apply next_qid_upd_msg]. Qed.
Lemma view_set_conn_qos s c cn f : get_conn s c = Some cn ->
  view (s <| conns := aset N.eqb c (cn <| cn_qos ::= f |>) (conns s) |>) = view s.
Proof.
  intros E. apply view_eq; try reflexivity. unfold cv. cbn. rewrite vmap_aset. apply (aset_same N.eqb Neqb_spec).
  rewrite alookup_vmap. unfold get_conn in E. rewrite E. reflexivity.
Qed.
Lemma view_set_conn_qos' s c cn w : get_conn s c = Some cn ->
  view (s <| conns := aset N.eqb c (cn <| cn_qos := w |>) (conns s) |>) = view s.
Proof.
  intros E. apply view_eq; try reflexivity. unfold cv. cbn. rewrite vmap_aset. apply (aset_same N.eqb Neqb_spec).
  rewrite alookup_vmap. unfold get_conn in E. rewrite E. reflexivity.
Qed.

(* get_chan / get_queue read the view only as far as the projections go; they are stable under view-preserving steps in
   the sense needed below *)
Lemma get_chan_proj s s' c h : cv s' = cv s -> option_map cproj (get_chan s' c h) = option_map cproj (get_chan s c h).
Proof. intros E. rewrite <- !cv_get_cv, E. reflexivity. Qed.
Lemma get_queue_proj s s' q : qv s' = qv s -> option_map qproj (get_queue s' q) = option_map qproj (get_queue s q).
Proof. intros E. rewrite <- !qv_get, E. reflexivity. Qed.

(* ------------------------------------------------------------------ *)
(* helpers that keep the whole view *)
Ltac vtrans x := transitivity (view x).

Lemma view_wake_consumer s c h tag : view (fst (wake_consumer s c h tag)) = view s.
Proof.
  unfold wake_consumer. destruct (get_chan s c h) as [ch|] eqn:E; auto. destruct (find_consumer ch tag); auto.
  destruct (consume_msg _). cbn [fst]. (eapply view_set_chan_same; [eauto|cpr]).
Qed.
Lemma view_wake_all s c h : view (wake_all_of_chan s c h) = view s.
Proof. unfold wake_all_of_chan. apply view_upd_chan_same. intros; cpr. Qed.
Lemma view_fold {A} (f : state -> A -> state) l : (forall s a, view (f s a) = view s) -> forall s, view (fold_left f l s) = view s.
Proof. intros Hf. induction l as [|a t IH]; intros s; cbn; auto. rewrite IH. apply Hf. Qed.
Lemma view_wake_consumers cfg s c h : view (wake_consumers cfg s c h) = view s.
Proof.
  unfold wake_consumers. destruct (cfg_rabbit cfg); [apply view_wake_all|].
  destruct (get_conn _ c); [|apply view_wake_all]. rewrite view_fold; [apply view_wake_all|].
  intros s0 a. destruct (fst a =? h); auto. apply view_wake_all.
Qed.
Lemma view_dec_qos cfg s c h u : view (dec_qos_and_consume_next cfg s c h u) = view s.
Proof.
  unfold dec_qos_and_consume_next. destruct (get_chan s c h) as [ch|]; auto. rewrite view_wake_consumers.
  destruct (find_consumer ch (u_ctag u)).
  - destruct (cfg_rabbit cfg).
    + rewrite view_upd_chan_same by (intros; cpr). apply view_upd_chan_same. intros; cpr.
    + destruct (get_conn _ c) eqn:Ec.
      * rewrite (view_set_conn_qos _ _ _ _ Ec). apply view_upd_chan_same. intros; cpr.
      * apply view_upd_chan_same. intros; cpr.
  - destruct (get_conn _ c) eqn:Ec.
    + rewrite (view_set_conn_qos _ _ _ _ Ec). apply view_upd_chan_same. intros; cpr.
    + apply view_upd_chan_same. intros; cpr.
Qed.
Lemma view_fold_dec cfg c h sel s : view (fold_left (fun s u => dec_qos_and_consume_next cfg s c h u) sel s) = view s.
Proof. apply view_fold. intros. apply view_dec_qos. Qed.

Lemma view_queue_ackmsg s qn u : view (queue_ackmsg s qn u) = view s.
Proof.
  unfold queue_ackmsg. destruct (get_queue s qn) as [qu|] eqn:Eq; auto. destruct (get_msg s u); auto.
  destruct (negb _); auto.
  match goal with |- view (set_queue ?st _ _) = _ => vtrans st end.
  - apply (view_set_queue_same _ _ qu); [|reflexivity]. destruct (_ && _); exact Eq.
  - destruct (_ && _); reflexivity.
Qed.
Lemma view_chan_ackmsg s u : view (chan_ackmsg s u) = view s.
Proof. unfold chan_ackmsg. destruct (origin_queue s u); [apply view_queue_ackmsg|reflexivity]. Qed.

Lemma view_queue_remove_consumer s qn c h tag : view (queue_remove_consumer s qn c h tag) = view s.
Proof.
  unfold queue_remove_consumer. destruct (get_queue s qn) as [qu|] eqn:Eq; auto.
  match goal with |- view (if ?b then ?a <| autodel ::= _ |> else _) = _ => assert (Ha : view a = view s) end.
  { eapply view_set_queue_same; eauto. destruct (Nat.eqb _ 0); reflexivity. }
  match goal with |- view (if ?b then _ else _) = _ => destruct b end; auto.
Qed.
Lemma view_consumer_stop s c h tag : view (consumer_stop s c h tag) = view s.
Proof.
  unfold consumer_stop. destruct (get_chan s c h) as [ch|] eqn:E; auto. destruct (find_consumer ch tag) as [cm|]; auto.
  destruct (c_status cm); auto; rewrite view_queue_remove_consumer; (eapply view_set_chan_same; [eauto|cpr]).
Qed.
Lemma view_store_windows cfg s c h tag ws : view (store_windows cfg s c h tag ws) = view s.
Proof.
  unfold store_windows. destruct ws as [|w1 [|w2 [|]]]; auto. destruct (cfg_rabbit cfg).
  - rewrite view_upd_chan_same by (intros; cpr). apply view_upd_chan_same. intros; cpr.
  - destruct (get_conn _ c) eqn:Ec.
    + rewrite (view_set_conn_qos' _ _ _ _ Ec). apply view_upd_chan_same. intros; cpr.
    + apply view_upd_chan_same. intros; cpr.
Qed.
Lemma view_add_confirm s c h t : view (add_confirm s c h t) = view s.
Proof.
  unfold add_confirm. destruct (get_chan s c h) as [ch|] eqn:E; auto. destruct (negb _); auto.
  destruct (ch_status ch); auto; destruct t as [[[? ?] ?]|]; auto; (eapply view_set_chan_same; [eauto|cpr]).
Qed.
Lemma view_store_confirm s u : view (store_confirm s u) = view s.
Proof. apply view_same; [apply conns_store_confirm|apply queues_store_confirm|].
  unfold store_confirm. destruct (get_msg s u) as [m|]; auto. destruct (m_conf m); auto.
  destruct (_ =? _)%Z; cbn; apply next_qid_upd_msg.
Qed.
Lemma view_store_writeback s qn u d : view (store_writeback s qn u d) = view s.
Proof. unfold store_writeback. destruct (_ && _ && _); reflexivity. Qed.
Lemma view_queue_loop_turn s qn : view (queue_loop_turn s qn) = view s.
Proof.
  unfold queue_loop_turn. destruct (get_queue s qn) as [qu|] eqn:Eq; auto. destruct (negb _); auto.
  assert (H1 : view (set_queue s qn (qu <| q_call := false |>)) = view s) by (eapply view_set_queue_same; eauto).
  destruct (Nat.eqb _ 0); auto. rewrite view_upd_queue_same by reflexivity.
  rewrite view_fold; auto. intros s0 [[c h] tag]. apply view_wake_consumer.
Qed.

(* ------------------------------------------------------------------ *)
(* what a queue object holds, read off the view *)
Definition au (v : cview) : list unacked := flat_map (fun e => flat_map (fun he => snd (snd he)) (snd (snd e))) v.
Definition rdy (v : qview) (qid : N) : list N := flat_map (fun e => if p_id (snd e) =? qid then p_ready (snd e) else []) v.
Definition from (qid : N) (u : unacked) : bool := u_qid u =? qid.
Definition msgs_from (qid : N) (l : list unacked) : list N := map u_msg (filter (from qid) l).
Definition una (v : cview) (qid : N) : list N := msgs_from qid (au v).
Definition alive (v : qview) (qid : N) : bool := existsb (fun e => p_id (snd e) =? qid) v.

Lemma flat_map_vmap {K A B X} (g : A -> B) (f : K * B -> list X) (l : list (K * A)) :
  flat_map f (vmap g l) = flat_map (fun kv => f (fst kv, g (snd kv))) l.
Proof. unfold vmap. induction l as [|a t IH]; cbn; auto. rewrite IH. reflexivity. Qed.

Lemma all_unacked_cv s : all_unacked s = au (cv s).
Proof.
  unfold all_unacked, au, cv. rewrite flat_map_vmap. apply flat_map_ext. intros [c cn]. cbn.
  unfold chan_unacked_all. rewrite flat_map_vmap. reflexivity.
Qed.
Lemma ready_of_qv s qid : ready_of s qid = rdy (qv s) qid.
Proof. unfold ready_of, rdy, qv. rewrite flat_map_vmap. reflexivity. Qed.
Lemma unacked_of_cv s qid : unacked_of s qid = una (cv s) qid.
Proof. unfold unacked_of, una, msgs_from, from. rewrite all_unacked_cv. reflexivity. Qed.
Lemma held_view s qid : held s qid = rdy (qv s) qid ++ una (cv s) qid.
Proof. unfold held. rewrite ready_of_qv, unacked_of_cv. reflexivity. Qed.
Lemma queue_alive_qv s qid : queue_alive s qid = alive (qv s) qid.
Proof. unfold queue_alive, alive, qv, vmap. induction (queues s) as [|a t IH]; cbn; auto. rewrite IH. reflexivity. Qed.

Lemma held_same_view s s' qid : view s' = view s -> held s' qid = held s qid.
Proof. intros H. apply view_inv in H. destruct H as (A & B & _). rewrite !held_view, A, B. reflexivity. Qed.

Lemma msgs_from_app qid l1 l2 : msgs_from qid (l1 ++ l2) = msgs_from qid l1 ++ msgs_from qid l2.
Proof. unfold msgs_from. rewrite filter_app, map_app. reflexivity. Qed.

(* replacing the value of an existing key replaces its contribution in place *)
Lemma flat_map_aset_split {K V X} (keqb : K -> K -> bool) (spec : forall a b, keqb a b = true <-> a = b)
      (g : V -> list X) k v0 v (l : list (K * V)) :
  alookup keqb k l = Some v0 ->
  exists A B, flat_map (fun e => g (snd e)) l = A ++ g v0 ++ B /\
              flat_map (fun e => g (snd e)) (aset keqb k v l) = A ++ g v ++ B.
Proof.
  intros H. destruct (aset_split keqb spec k v0 v l H) as (l1 & l2 & E1 & E2 & _).
  exists (flat_map (fun e => g (snd e)) l1), (flat_map (fun e => g (snd e)) l2).
  rewrite E2. rewrite E1 at 1. rewrite !flat_map_app. cbn. auto.
Qed.

Lemma au_cv_set c h x0 x v : cv_get v c h = Some x0 ->
  exists A B, au v = A ++ snd x0 ++ B /\ au (cv_set c h x v) = A ++ snd x ++ B.
Proof.
  unfold cv_get, cv_set, au. destruct (alookup N.eqb c v) as [[st chs]|] eqn:Ec; [|discriminate]. intros Eh.
  destruct (flat_map_aset_split N.eqb Neqb_spec (fun n : np => flat_map (fun he : N * cp => snd (snd he)) (snd n))
              c (st, chs) (st, aset N.eqb h x chs) v Ec) as (A1 & B1 & E1 & E2).
  destruct (flat_map_aset_split N.eqb Neqb_spec (fun p : cp => snd p) h x0 x chs Eh) as (A2 & B2 & E3 & E4).
  cbv beta in E1, E2, E3, E4. cbn [snd] in E1, E2. rewrite E3 in E1. rewrite E4 in E2.
  exists (A1 ++ A2), (B2 ++ B1). split.
  - etransitivity; [exact E1|]. rewrite <- !app_assoc. reflexivity.
  - etransitivity; [exact E2|]. rewrite <- !app_assoc. reflexivity.
Qed.

Lemma una_cv_set c h x0 x v qid : cv_get v c h = Some x0 ->
  exists A B, una v qid = A ++ msgs_from qid (snd x0) ++ B /\ una (cv_set c h x v) qid = A ++ msgs_from qid (snd x) ++ B.
Proof.
  intros H. destruct (au_cv_set c h x0 x v H) as (A & B & E1 & E2). unfold una. rewrite E1, E2.
  exists (msgs_from qid A), (msgs_from qid B). rewrite !msgs_from_app. auto.
Qed.

Definition qcontrib (qid : N) (p : qp) : list N := if p_id p =? qid then p_ready p else [].
Lemma rdy_aset q p0 p v qid : alookup seqb q v = Some p0 ->
  exists A B, rdy v qid = A ++ qcontrib qid p0 ++ B /\ rdy (aset seqb q p v) qid = A ++ qcontrib qid p ++ B.
Proof. intros H. exact (flat_map_aset_split seqb seqb_spec (qcontrib qid) q p0 p v H). Qed.

Lemma rdy_fresh q p v qid : alookup seqb q v = None -> rdy (aset seqb q p v) qid = rdy v qid ++ qcontrib qid p.
Proof. intros H. rewrite (aset_fresh seqb q p v H). unfold rdy. rewrite flat_map_app. cbn. rewrite app_nil_r. reflexivity. Qed.

(* updating the record of an existing queue *)
Definition qv_upd (q : string) (f : qp -> qp) (v : qview) : qview :=
  match alookup seqb q v with Some p => aset seqb q (f p) v | None => v end.

Lemma qv_upd_id q f v : (forall p, alookup seqb q v = Some p -> f p = p) -> qv_upd q f v = v.
Proof. unfold qv_upd. intros H. destruct (alookup seqb q v) eqn:E; auto. rewrite H by reflexivity. apply (aset_same seqb seqb_spec). exact E. Qed.

Lemma qv_upd_queue s q f g : (forall qu, qproj (f qu) = g (qproj qu)) -> qv (upd_queue s q f) = qv_upd q g (qv s).
Proof.
  intros H. unfold upd_queue, qv_upd. rewrite qv_get. destruct (get_queue s q) as [qu|]; cbn; auto.
  rewrite qv_set_queue, H. reflexivity.
Qed.
Lemma cv_upd_queue s q f : cv (upd_queue s q f) = cv s.
Proof. unfold cv. rewrite conns_upd_queue. reflexivity. Qed.

Definition p_set_ready (l : list N) (p : qp) : qp :=
  {| p_id := p_id p; p_excl := p_excl p; p_owner := p_owner p; p_active := p_active p; p_ready := l |}.
Definition p_push (u : N) (p : qp) : qp := if p_active p then p_set_ready (p_ready p ++ [u]) p else p.
Definition p_requeue (u : N) (p : qp) : qp := if p_active p then p_set_ready (u :: p_ready p) p else p.

Lemma qproj_popped rest qu : qproj (popped rest qu) = p_set_ready rest (qproj qu).
Proof. destruct (popped_call rest qu) as [b ->]. reflexivity. Qed.

Lemma qv_queue_push s qn u : get_msg s u <> None -> qv (queue_push s qn u) = qv_upd qn (p_push u) (qv s).
Proof.
  intros Hm. unfold queue_push, qv_upd. rewrite qv_get. destruct (get_queue s qn) as [qu|] eqn:Eq; cbn; auto.
  destruct (get_msg s u) as [m|]; [|congruence].
  unfold p_push. cbn. destruct (q_active qu) eqn:Ea; cbn.
  - rewrite qv_set_queue. unfold call_consumers. cbn. rewrite Ea. cbn. f_equal.
    destruct (q_durable qu && m_pers m); [reflexivity|]. destruct (m_conf m); [|reflexivity]. cbn.
    unfold qv. rewrite queues_upd_msg. reflexivity.
  - symmetry. apply (aset_same seqb seqb_spec). rewrite qv_get, Eq. destruct qu; reflexivity.
Qed.
Lemma cv_queue_push s qn u : cv (queue_push s qn u) = cv s.
Proof. unfold cv. rewrite (proj1 conns_queue_ops). reflexivity. Qed.
Lemma next_qid_queue_push s qn u : next_qid (queue_push s qn u) = next_qid s.
Proof.
  unfold queue_push. destruct (get_queue s qn) as [qu|]; auto. destruct (get_msg s u) as [m|]; auto. destruct (negb _); auto.
  unfold set_queue. destruct (_ && _); [reflexivity|]. destruct (m_conf m); [|reflexivity].
  cbn. rewrite next_qid_upd_msg. reflexivity.
Qed.

Lemma qv_queue_requeue s qn u : qv (queue_requeue s qn u) = qv_upd qn (p_requeue u) (qv s).
Proof.
  unfold queue_requeue, qv_upd. rewrite qv_get. destruct (get_queue s qn) as [qu|] eqn:Eq; cbn; auto.
  unfold p_requeue. cbn. destruct (q_active qu) eqn:Ea; cbn.
  - rewrite qv_set_queue. unfold call_consumers. cbn. rewrite Ea. cbn. f_equal.
    unfold qv. cbn. rewrite queues_upd_msg. destruct (store_writeback_frame s qn u (q_durable qu)) as (_ & -> & _). reflexivity.
  - symmetry. apply (aset_same seqb seqb_spec). rewrite qv_get, Eq. destruct qu; reflexivity.
Qed.
Lemma cv_queue_requeue s qn u : cv (queue_requeue s qn u) = cv s.
Proof. unfold cv. rewrite (proj1 (proj2 (proj2 conns_queue_ops))). reflexivity. Qed.
Lemma next_qid_queue_requeue s qn u : next_qid (queue_requeue s qn u) = next_qid s.
Proof.
  unfold queue_requeue. destruct (get_queue s qn) as [qu|]; auto. destruct (negb _); auto. cbn.
  rewrite next_qid_upd_msg. unfold store_writeback. destruct (_ && _ && _); reflexivity.
Qed.
