(* C01, conservation: per queue object, published-and-routed = settled + purged + deleted + still held,
   as multisets of message identities, for every label of the broker LTS and along every run. *)
From Coq Require Import List String NArith ZArith Bool Lia ZifyBool ZifyN Permutation.
From RecordUpdate Require Import RecordUpdate.
Import ListNotations.
From GMQ Require Import Broker.Model Proofs.BrokerFrames Proofs.BrokerTags Proofs.BrokerChanInv Proofs.BrokerQueueInv
  Proofs.BrokerReady Proofs.BrokerRelease Proofs.BrokerHeld Proofs.BrokerConserveView Proofs.BrokerConserveOps.
Open Scope N_scope.

(* ================================================================== *)
(* What a step places into / releases from the queue object qid: functions of the pre-state and the label. *)

(* the deliveries a basic.ack / nack / reject names: one tag, or every outstanding tag up to it *)
Definition covers (tag : N) (mult : bool) (l : list unacked) : list unacked :=
  if mult then filter (covered tag) l
  else match find (fun u => u_tag u =? tag) l with Some u => [u] | None => [] end.

(* closing channel (c,h) puts its deliveries back; those whose queue object is gone are dropped *)
Definition close_released (s : state) (c h qid : N) : list N :=
  if (0 <? h) && negb (queue_alive s qid) then msgs_from qid (U s c h) else [].

(* ending connection c: its channels close, its exclusive queues are deleted.  For a queue object that is gone, or is
   an exclusive queue of c, everything waiting and everything c had out is released; otherwise nothing is *)
Definition owned_by (c qid : N) (kq : string * queue) : bool :=
  q_excl (snd kq) && (q_owner (snd kq) =? c) && (q_id (snd kq) =? qid).
Definition conn_released (s : state) (c qid : N) : list N :=
  match get_conn s c with
  | None => []
  | Some cn =>
    if negb (queue_alive s qid) || existsb (owned_by c qid) (queues s)
    then ready_of s qid ++ msgs_from qid (chan_unacked_all cn) else []
  end.

Definition delete_refused (qu : queue) (ifunused ifempty : bool) : bool :=
  (ifunused && negb (Nat.eqb (List.length (q_consumers qu)) 0)) || (ifempty && negb (Nat.eqb (List.length (q_ready qu)) 0)).

(* the waiting messages of queue q, if q is the queue object qid *)
Definition ready_if (qu : queue) (qid : N) : list N := if q_id qu =? qid then q_ready qu else [].
Definition head_if (qu : queue) (qid : N) : list N := if q_id qu =? qid then firstn 1 (q_ready qu) else [].

Definition method_released (fx : fixes) (s : state) (c h : N) (m : meth) (qid : N) : list N :=
  match m with
  | MAck tag mult => msgs_from qid (covers tag mult (U s c h))
  | MNack tag mult requeue => if requeue && queue_alive s qid then [] else msgs_from qid (covers tag mult (U s c h))
  | MReject tag requeue => if requeue && queue_alive s qid then [] else msgs_from qid (covers tag false (U s c h))
  | MGet q true =>
    match queue_found s q with
    | Some qu => if fx_excl_owner fx && locked qu c then [] else head_if qu qid
    | None => []
    end
  | MQPurge q _ =>
    match queue_found s q with
    | Some qu => if locked qu c then [] else ready_if qu qid
    | None => []
    end
  | MQDelete q ifunused ifempty _ =>
    match queue_found s q with
    | Some qu => if locked qu c || delete_refused qu ifunused ifempty then [] else ready_if qu qid
    | None => []
    end
  | MChannelClose => close_released s c h qid
  | MChannelCloseOk => if fx_closeok_releases fx then close_released s c h qid else []
  | _ => []
  end.

(* the checks of the frame dispatcher (step, LMethod) that come before the method handler *)
Definition dispatched (fx : fixes) (s : state) (c h : N) (m : meth) : bool :=
  match get_conn s c with
  | None => false
  | Some cn =>
    let closing := match get_chan s c h with Some ch => match ch_status ch with ChClosing => true | _ => false end | None => false end in
    negb (fx_discard_closing fx && closing && negb (is_chan_close m)) &&
    negb (fx_stage fx && negb (Bool.eqb (is_conn_class m) (h =? 0))) &&
    negb (fx_stage fx && negb (stage_allows (cn_stage cn) m)) &&
    negb (fx_chan_open fx && negb (is_conn_class m) && negb (chan_usable s c h) && negb (match m with MChannelOpen => true | _ => false end))
  end.

(* a consumer turn delivers the head of its queue; in no-ack mode the message is settled by the delivery *)
Definition turn_released (s : state) (c h : N) (tag : string) (qid : N) : list N :=
  match get_chan s c h with
  | None => []
  | Some ch =>
    match find_consumer ch tag with
    | None => []
    | Some cm =>
      if c_token cm && c_noack cm && negb (match c_status cm with CStopped => true | _ => false end)
      then match queue_found s (c_queue cm) with Some qu => head_if qu qid | None => [] end
      else []
    end
  end.

Definition released (cfg : config) (fx : fixes) (s : state) (l : label) (qid : N) : list N :=
  match l with
  | LMethod c h m =>
    if conn_opened s c then
      let s0 := ensure_chan s c h in
      match m with
      | MConnClose | MConnCloseOk => if fx_stage fx && negb (h =? 0) then [] else conn_released s0 c qid
      | _ => if dispatched fx s0 c h m then method_released fx s0 c h m qid else []
      end
    else []
  | LConsumerTurn c h tag => turn_released s c h tag qid
  | LAutoDelete =>
    match autodel s with
    | [] => []
    | qn :: _ => match get_queue s qn with Some qu => ready_if qu qid | None => [] end
    end
  | LSocketLoss c => conn_released s c qid
  | LHeartbeat c h => if h =? 0 then [] else conn_released s c qid
  | LRestart => held s qid
  | _ => []
  end.

(* routing of the complete message u: once into every matched queue *)
Definition routed (fx : fixes) (s : state) (u : N) (qid : N) : list N :=
  match get_msg s u with
  | None => []
  | Some m =>
    match alookup seqb (m_ex m) (exchanges s) with
    | None => []
    | Some ex =>
      flat_map (fun qn => match get_queue s qn with Some qu => if q_id qu =? qid then [u] else [] | None => [] end)
               (matched_queues (negb (fx_direct_all fx)) ex (m_key m))
    end
  end.

(* the content frame is accepted for the message being assembled on channel (c,h) *)
Definition current (fx : fixes) (s : state) (c h : N) : option (N * msg) :=
  match get_conn s c with
  | None => None
  | Some cn =>
    if negb (cstage_eqb (cn_stage cn) StOpen) && negb (h =? 0) then None else
    match get_chan s c h with
    | None => None
    | Some ch =>
      if fx_discard_closing fx && (match ch_status ch with ChClosing => true | _ => false end) then None else
      match ch_cur ch with
      | None => None
      | Some u => match get_msg s u with Some m => Some (u, m) | None => None end
      end
    end
  end.

(* what a restart recovers from the store *)
Definition recovered (s : state) (qid : N) : list N :=
  flat_map (fun kq => if q_durable (snd kq) && (q_id (snd kq) =? qid) then stored_of s (fst kq) else []) (queues s).

Definition placed (cfg : config) (fx : fixes) (s : state) (l : label) (qid : N) : list N :=
  match l with
  | LHeader c h mid size pers =>
    match current fx s c h with
    | Some (u, m) => if negb (m_has_header m) && fx_empty_body fx && (size =? 0) then routed fx s u qid else []
    | None => []
    end
  | LBody c h len =>
    match current fx s c h with
    | Some (u, m) => if m_has_header m && negb (m_hsize m <? m_size m + len) && negb (m_size m + len <? m_hsize m)
                     then routed fx s u qid else []
    | None => []
    end
  | LRestart => recovered s qid
  | _ => []
  end.

(* ================================================================== *)
(* invariants *)
Definition VI (s : state) : Prop := VInv (cv s) (qv s) (next_qid s).
Definition Inv (s : state) : Prop := VI s /\ CI s.

(* s' is a good successor of s: the view invariant holds again, and per queue object held' + rel = held + pl *)
Definition Good (s s' : state) (rel pl : N -> list N) : Prop :=
  VI s' /\ forall qid, Permutation (held s' qid ++ rel qid) (held s qid ++ pl qid).
Definition nil1 : N -> list N := fun _ => [].

Lemma VI_view s s' : view s' = view s -> VI s -> VI s'.
Proof. intros H. apply view_inv in H. destruct H as (A & B & C). unfold VI. rewrite A, B, C. auto. Qed.

Lemma Good_frame s s' : view s' = view s -> VI s -> Good s s' nil1 nil1.
Proof. intros H Hi. split; [eapply VI_view; eauto|]. intros qid. rewrite (held_same_view _ _ _ H). reflexivity. Qed.

Lemma Good_trans s s1 s2 r1 p1 r2 p2 :
  Good s s1 r1 p1 -> Good s1 s2 r2 p2 -> Good s s2 (fun q => r2 q ++ r1 q) (fun q => p1 q ++ p2 q).
Proof.
  intros [_ H1] [I2 H2]. split; auto. intros qid. specialize (H1 qid). specialize (H2 qid).
  transitivity ((held s2 qid ++ r2 qid) ++ r1 qid); [rewrite app_assoc; reflexivity|].
  rewrite H2. transitivity (p2 qid ++ (held s1 qid ++ r1 qid)).
  { rewrite <- app_assoc. apply Permutation_app_swap_app. }
  rewrite H1. rewrite Permutation_app_comm. rewrite <- app_assoc. reflexivity.
Qed.
Lemma Good_ext s s' r p r' p' : (forall q, Permutation (r q) (r' q)) -> (forall q, Permutation (p q) (p' q)) -> Good s s' r p -> Good s s' r' p'.
Proof. intros Hr Hp [I H]. split; auto. intros qid. rewrite <- Hr, <- Hp. apply H. Qed.
Lemma Good_then_frame s s1 s2 r p : Good s s1 r p -> view s2 = view s1 -> Good s s2 r p.
Proof.
  intros H E. pose proof (Good_trans _ _ _ _ _ _ _ H (Good_frame _ _ E (proj1 H))) as G.
  eapply Good_ext; [| |exact G]; intros q; unfold nil1; cbn; rewrite ?app_nil_r; reflexivity.
Qed.
Lemma Good_frame_then s s1 s2 r p : view s1 = view s -> VI s -> Good s1 s2 r p -> Good s s2 r p.
Proof.
  intros E Hi H. pose proof (Good_trans _ _ _ _ _ _ _ (Good_frame _ _ E Hi) H) as G.
  eapply Good_ext; [| |exact G]; intros q; unfold nil1; cbn; rewrite ?app_nil_r; reflexivity.
Qed.

Lemma Good_of_views s s' (r p : N -> list N) :
  VI s' ->
  (forall qid, Permutation (rdy (qv s') qid ++ una (cv s') qid ++ r qid) (rdy (qv s) qid ++ una (cv s) qid ++ p qid)) ->
  Good s s' r p.
Proof. intros I H. split; auto. intros qid. rewrite !held_view. rewrite <- !app_assoc. apply H. Qed.

Definition cflags (ch : channel) : bool * bool := (is_closed (ch_status ch), has_cons (ch_consumers ch)).
Lemma cv_get_chan s c h ch : get_chan s c h = Some ch -> cv_get (cv s) c h = Some (cflags ch, ch_unacked ch).
Proof. intros H. rewrite cv_get_cv, H. reflexivity. Qed.
Lemma U_get s c h ch : get_chan s c h = Some ch -> U s c h = ch_unacked ch.
Proof. unfold U. intros ->. reflexivity. Qed.

(* ================================================================== *)
(* ack / nack / reject *)
Lemma view_fold_dec_qv cfg c h sel s : qv (fold_left (fun s u => dec_qos_and_consume_next cfg s c h u) sel s) = qv s.
Proof. destruct (view_inv _ _ (view_fold_dec cfg c h sel s)) as (_ & B & _). exact B. Qed.
Lemma view_fold_dec_nq cfg c h sel s : next_qid (fold_left (fun s u => dec_qos_and_consume_next cfg s c h u) sel s) = next_qid s.
Proof. destruct (view_inv _ _ (view_fold_dec cfg c h sel s)) as (_ & _ & C). exact C. Qed.
Lemma view_fold_dec_cv cfg c h sel s : cv (fold_left (fun s u => dec_qos_and_consume_next cfg s c h u) sel s) = cv s.
Proof. destruct (view_inv _ _ (view_fold_dec cfg c h sel s)) as (A & _ & _). exact A. Qed.
Lemma cv_del_upd s c h t : cv (upd_chan s c h (fun ch => del_unacked ch t)) = cv_del c h t (cv s).
Proof.
  rewrite cv_upd_chan. unfold cv_del. rewrite cv_get_cv. destruct (get_chan s c h) as [ch|]; reflexivity.
Qed.

Lemma ack_fold_view c h sel : forall s,
  let s' := fold_left (fun s u => chan_ackmsg (upd_chan s c h (fun ch => del_unacked ch (u_tag u))) u) sel s in
  cv s' = fold_left (fun v u => cv_del c h (u_tag u) v) sel (cv s) /\ qv s' = qv s /\ next_qid s' = next_qid s.
Proof.
  induction sel as [|u t IH]; intros s; cbn [fold_left]; auto.
  destruct (IH (chan_ackmsg (upd_chan s c h (fun ch => del_unacked ch (u_tag u))) u)) as (A & B & C).
  destruct (view_inv _ _ (view_chan_ackmsg (upd_chan s c h (fun ch => del_unacked ch (u_tag u))) u)) as (A1 & B1 & C1).
  cbv zeta. rewrite A, B, C, A1, B1, C1. rewrite cv_del_upd, qv_upd_chan, next_qid_upd_chan. auto.
Qed.

Lemma qv_chan_rejectmsg s u rqf : qv (chan_rejectmsg s u rqf) = if rqf then rq u (qv s) else qv s.
Proof.
  unfold chan_rejectmsg, origin_queue, rq. rewrite qv_get. destruct (get_queue s (u_queue u)) as [qu|] eqn:Eq; cbn.
  - change (p_id (qproj qu)) with (q_id qu). destruct (q_id qu =? u_qid u).
    + destruct rqf.
      * rewrite qv_queue_requeue. unfold qv_upd. rewrite qv_get, Eq. reflexivity.
      * destruct (view_inv _ _ (view_queue_ackmsg s (u_queue u) (u_msg u))) as (_ & B & _). exact B.
    + destruct rqf; reflexivity.
  - destruct rqf; reflexivity.
Qed.
Lemma cv_chan_rejectmsg s u rqf : cv (chan_rejectmsg s u rqf) = cv s.
Proof.
  unfold chan_rejectmsg. destruct (origin_queue s u); [|reflexivity]. destruct rqf; [apply cv_queue_requeue|].
  destruct (view_inv _ _ (view_queue_ackmsg s (u_queue u) (u_msg u))) as (A & _ & _). exact A.
Qed.
Lemma next_qid_chan_rejectmsg s u rqf : next_qid (chan_rejectmsg s u rqf) = next_qid s.
Proof.
  unfold chan_rejectmsg. destruct (origin_queue s u); [|reflexivity]. destruct rqf; [apply next_qid_queue_requeue|].
  destruct (view_inv _ _ (view_queue_ackmsg s (u_queue u) (u_msg u))) as (_ & _ & C). exact C.
Qed.

Lemma reject_fold_view c h rqf sel : forall s,
  let s' := fold_left (fun s u => chan_rejectmsg (upd_chan s c h (fun ch => del_unacked ch (u_tag u))) u rqf) sel s in
  cv s' = fold_left (fun v u => cv_del c h (u_tag u) v) sel (cv s) /\
  qv s' = (if rqf then fold_left (fun v u => rq u v) sel (qv s) else qv s) /\ next_qid s' = next_qid s.
Proof.
  induction sel as [|u t IH]; intros s; cbn [fold_left]; [destruct rqf; auto|].
  destruct (IH (chan_rejectmsg (upd_chan s c h (fun ch => del_unacked ch (u_tag u))) u rqf)) as (A & B & C).
  cbv zeta. rewrite A, B, C. rewrite cv_chan_rejectmsg, qv_chan_rejectmsg, next_qid_chan_rejectmsg.
  rewrite cv_del_upd, qv_upd_chan, next_qid_upd_chan. destruct rqf; auto.
Qed.

(* the part of the unsettled list an ack / nack / reject leaves *)
Lemma covers_split tag (mult : bool) l : NoDup (map u_tag l) ->
  let keep := if mult then filter (fun u => negb (covered tag u)) l
              else match find (fun u => u_tag u =? tag) l with Some _ => filter (fun x => negb (u_tag x =? tag)) l | None => l end in
  Permutation l (keep ++ covers tag mult l) /\ incl keep l.
Proof.
  intros Hnd. unfold covers. destruct mult.
  - split; [rewrite Permutation_app_comm; apply perm_filter_split|]. intros x Hx. apply filter_In in Hx. tauto.
  - destruct (find (fun u => u_tag u =? tag) l) as [u|] eqn:Ef.
    + split; [|intros x Hx; apply filter_In in Hx; tauto].
      assert (E : filter (fun x => u_tag x =? tag) l = [u]).
      { clear -Hnd Ef. induction l as [|a t IH]; cbn in *; [discriminate|]. inversion Hnd as [|? ? Hni Hnd']; subst.
        destruct (u_tag a =? tag) eqn:E.
        - inversion Ef; subst. f_equal. apply N.eqb_eq in E.
          clear -Hni E. induction t as [|b r IHr]; cbn in *; auto. destruct (u_tag b =? tag) eqn:E2.
          + apply N.eqb_eq in E2. exfalso. apply Hni. left. congruence.
          + apply IHr. tauto.
        - apply IH; auto. }
      rewrite <- E. rewrite (perm_filter_split (fun x => u_tag x =? tag) l) at 1. apply Permutation_app_comm.
    + split; [rewrite app_nil_r; reflexivity|apply incl_refl].
Qed.

(* the unsettled list of channel (c,h) shrinks to [keep]; the deliveries [sel] that leave it are put back (if their queue
   object still exists) or not *)
Lemma incl_nil_eq {A} (l : list A) : incl l [] -> l = [].
Proof. destruct l; auto. intros H. destruct (H a (or_introl eq_refl)). Qed.

(* the unsettled list shrinks; the flags either stay, or the new flags are fine for the new list *)
Lemma VI_shrink s c h ch keep b cw' :
  VI s -> get_chan s c h = Some ch -> incl keep (ch_unacked ch) ->
  (b = cflags ch \/ (h = 0 \/ fst b = true -> keep = [] /\ snd b = false)) ->
  cw' = cv_set c h (b, keep) (cv s) -> VInv cw' (qv s) (next_qid s).
Proof.
  intros V Hg Hin Hb ->. pose proof (cv_get_chan _ _ _ _ Hg) as Hcg.
  eapply VInv_cv_set; eauto.
  - intros u Hu. apply (vi_uq _ _ _ V). eapply cv_get_au; eauto.
  - destruct Hb as [->|Hb]; auto. intros H0. destruct (cv_get_in _ _ _ _ Hcg) as (st & chs & H1 & H2).
    destruct (vi_cz _ _ _ V _ _ _ _ _ _ H1 H2 H0) as [Hz Hz2]. split; auto. apply incl_nil_eq. rewrite <- Hz. exact Hin.
Qed.

Lemma Good_settle s s' c h ch keep sel (rqf : bool) :
  VI s -> get_chan s c h = Some ch ->
  cv s' = cv_set c h (cflags ch, keep) (cv s) ->
  qv s' = (if rqf then fold_left (fun v u => rq u v) sel (qv s) else qv s) -> next_qid s' = next_qid s ->
  Permutation (ch_unacked ch) (keep ++ sel) -> incl keep (ch_unacked ch) ->
  Good s s' (fun qid => if rqf && queue_alive s qid then [] else msgs_from qid sel) nil1.
Proof.
  intros V Hg Ec Eq En Hp Hin. pose proof (cv_get_chan _ _ _ _ Hg) as Hcg.
  assert (V1 : VInv (cv s') (qv s) (next_qid s)).
  { eapply VI_shrink; eauto. }
  apply Good_of_views.
  - unfold VI. rewrite En, Eq. destruct rqf; auto. eapply VInv_qshape; [apply qshape_rq_fold|exact V1].
  - intros qid. unfold nil1.
    assert (Hu : Permutation (una (cv s) qid ++ []) (una (cv s') qid ++ msgs_from qid sel)).
    { rewrite Ec. eapply una_set_perm; eauto. rewrite app_nil_r, <- msgs_from_app. apply msgs_from_perm. exact Hp. }
    rewrite queue_alive_qv. destruct rqf; cbn [andb].
    + assert (Hr := rdy_rq_fold sel qid (qv s) (vi_active _ _ _ V)). rewrite <- Eq in Hr.
      rewrite (msgs_from_origin (cv s) (qv s) (next_qid s)) in Hr; auto.
      2:{ intros u Hu'. eapply cv_get_au; eauto. eapply Permutation_in; [symmetry; exact Hp|]. apply in_or_app. auto. }
      destruct (alive (qv s) qid); perm_lia.
    + rewrite Eq. perm_lia.
Qed.

Lemma covered_eq tag l : filter (fun u => (tag =? 0) || (u_tag u <=? tag)) l = filter (covered tag) l.
Proof. reflexivity. Qed.

Lemma covers_nil tag mult : covers tag mult [] = [].
Proof. destruct mult; reflexivity. Qed.

Lemma Good_nil_rel s s' (r : N -> list N) : (forall q, r q = []) -> Good s s' nil1 nil1 -> Good s s' r nil1.
Proof. intros H G. eapply Good_ext; [| |exact G]; intros q; unfold nil1; rewrite ?H; reflexivity. Qed.

Lemma Good_handle_ack cfg s c h tag mult :
  Inv s -> Good s (fst (handle_ack cfg s c h tag mult)) (fun qid => msgs_from qid (covers tag mult (U s c h))) nil1.
Proof.
  intros [V Hci]. unfold handle_ack, U. destruct (get_chan s c h) as [ch|] eqn:Ech.
  2:{ apply Good_nil_rel; [intros; rewrite covers_nil; reflexivity|]. apply Good_frame; auto. }
  pose proof (Hci _ _ _ Ech) as [Hnd _]. destruct (covers_split tag mult _ Hnd) as [Hp Hin].
  pose proof (cv_get_chan _ _ _ _ Ech) as Hcg.
  apply (Good_settle s _ c h ch _ (covers tag mult (ch_unacked ch)) false V Ech) with (4 := Hp) (5 := Hin).
  - destruct mult.
    + cbn [fst]. destruct (view_inv _ _ (view_fold_dec cfg c h (filter (fun u => (tag =? 0) || (u_tag u <=? tag)) (ch_unacked ch))
         (fold_left (fun s u => chan_ackmsg (upd_chan s c h (fun ch => del_unacked ch (u_tag u))) u)
                    (filter (fun u => (tag =? 0) || (u_tag u <=? tag)) (ch_unacked ch)) s))) as (A & _ & _).
      rewrite A. destruct (ack_fold_view c h (filter (fun u => (tag =? 0) || (u_tag u <=? tag)) (ch_unacked ch)) s) as (A1 & _ & _).
      rewrite A1. rewrite (cv_del_fold _ _ _ _ _ _ Hcg). rewrite covered_eq. rewrite (keep_not_selected (covered tag)) by exact Hnd. reflexivity.
    + destruct (find _ (ch_unacked ch)) as [u|] eqn:Ef; cbn [fst].
      * destruct (view_inv _ _ (view_dec_qos cfg (chan_ackmsg (upd_chan s c h (fun ch => del_unacked ch tag)) u) c h u)) as (A & _ & _).
        rewrite A. destruct (view_inv _ _ (view_chan_ackmsg (upd_chan s c h (fun ch => del_unacked ch tag)) u)) as (A1 & _ & _).
        rewrite A1, cv_del_upd. unfold cv_del. rewrite Hcg. reflexivity.
      * symmetry. apply cv_set_same. exact Hcg.
  - destruct mult.
    + cbn [fst]. rewrite view_fold_dec_qv. destruct (ack_fold_view c h (filter (fun u => (tag =? 0) || (u_tag u <=? tag)) (ch_unacked ch)) s) as (_ & B & _). exact B.
    + destruct (find _ (ch_unacked ch)) as [u|]; cbn [fst]; auto.
      destruct (view_inv _ _ (view_dec_qos cfg (chan_ackmsg (upd_chan s c h (fun ch => del_unacked ch tag)) u) c h u)) as (_ & B & _).
      rewrite B. destruct (view_inv _ _ (view_chan_ackmsg (upd_chan s c h (fun ch => del_unacked ch tag)) u)) as (_ & B1 & _).
      rewrite B1. apply qv_upd_chan.
  - destruct mult.
    + cbn [fst]. rewrite view_fold_dec_nq. destruct (ack_fold_view c h (filter (fun u => (tag =? 0) || (u_tag u <=? tag)) (ch_unacked ch)) s) as (_ & _ & C). exact C.
    + destruct (find _ (ch_unacked ch)) as [u|]; cbn [fst]; auto.
      destruct (view_inv _ _ (view_dec_qos cfg (chan_ackmsg (upd_chan s c h (fun ch => del_unacked ch tag)) u) c h u)) as (_ & _ & C).
      rewrite C. destruct (view_inv _ _ (view_chan_ackmsg (upd_chan s c h (fun ch => del_unacked ch tag)) u)) as (_ & _ & C1).
      rewrite C1. apply next_qid_upd_chan.
Qed.

Lemma perm_filter {A} (p : A -> bool) l l' : Permutation l l' -> Permutation (filter p l) (filter p l').
Proof.
  intros H. induction H; cbn; auto.
  - destruct (p x); auto.
  - destruct (p x), (p y); auto. constructor.
  - etransitivity; eauto.
Qed.

Lemma Good_handle_reject cfg s c h tag mult rqf cls mth :
  Inv s ->
  Good s (fst (handle_reject cfg s c h tag mult rqf cls mth))
       (fun qid => if rqf && queue_alive s qid then [] else msgs_from qid (covers tag mult (U s c h))) nil1.
Proof.
  intros [V Hci]. unfold handle_reject, U. destruct (get_chan s c h) as [ch|] eqn:Ech.
  2:{ apply Good_nil_rel; [intros; rewrite covers_nil; destruct (_ && _); reflexivity|]. apply Good_frame; auto. }
  pose proof (Hci _ _ _ Ech) as [Hnd _]. destruct (covers_split tag mult _ Hnd) as [Hp Hin].
  pose proof (cv_get_chan _ _ _ _ Ech) as Hcg.
  destruct mult.
  - cbn [fst]. set (sel := filter (fun u => (tag =? 0) || (u_tag u <=? tag)) (sort_desc (ch_unacked ch))).
    assert (Hsel : Permutation sel (covers tag true (ch_unacked ch))).
    { subst sel. unfold covers. rewrite covered_eq. apply perm_filter. apply sort_desc_permutation. }
    eapply Good_ext; [| intros q; reflexivity |].
    { intros q. instantiate (1 := fun q => if rqf && queue_alive s q then [] else msgs_from q sel). cbv beta.
      destruct (rqf && queue_alive s q); [reflexivity|]. apply msgs_from_perm. exact Hsel. }
    destruct (reject_fold_view c h rqf sel s) as (A & B & C).
    eapply (Good_settle s _ c h ch _ sel rqf V Ech).
    + rewrite view_fold_dec_cv, A. rewrite (cv_del_fold _ _ _ _ _ _ Hcg).
      replace (keep_not (map u_tag sel) (ch_unacked ch)) with (filter (fun u => negb (covered tag u)) (ch_unacked ch)); [reflexivity|].
      rewrite <- (keep_not_selected (covered tag)) by exact Hnd. apply keep_not_ext. intros t. subst sel. rewrite !in_map_iff.
      split; intros (u & Et & Hu); exists u; split; auto; apply filter_In in Hu; apply filter_In; destruct Hu as [Hu Hpu];
        (split; [apply sort_desc_perm; auto|exact Hpu]).
    + rewrite view_fold_dec_qv. exact B.
    + rewrite view_fold_dec_nq. exact C.
    + rewrite Hsel. exact Hp.
    + exact Hin.
  - destruct (find _ (ch_unacked ch)) as [u|] eqn:Ef; cbn [fst].
    + unfold covers in *. rewrite Ef in *.
      eapply (Good_settle s _ c h ch _ [u] rqf V Ech); [| | |exact Hp|exact Hin].
      * destruct (view_inv _ _ (view_dec_qos cfg (chan_rejectmsg (upd_chan s c h (fun ch => del_unacked ch tag)) u rqf) c h u)) as (A & _ & _).
        rewrite A, cv_chan_rejectmsg, cv_del_upd. unfold cv_del. rewrite Hcg. reflexivity.
      * destruct (view_inv _ _ (view_dec_qos cfg (chan_rejectmsg (upd_chan s c h (fun ch => del_unacked ch tag)) u rqf) c h u)) as (_ & B & _).
        rewrite B, qv_chan_rejectmsg, qv_upd_chan. destruct rqf; reflexivity.
      * destruct (view_inv _ _ (view_dec_qos cfg (chan_rejectmsg (upd_chan s c h (fun ch => del_unacked ch tag)) u rqf) c h u)) as (_ & _ & C).
        rewrite C, next_qid_chan_rejectmsg. apply next_qid_upd_chan.
    + apply Good_nil_rel; [|apply Good_frame; auto]. intros q. unfold covers. rewrite Ef. destruct (_ && _); reflexivity.
Qed.

(* ================================================================== *)
(* channel close *)
Lemma U_view s s' c h : cv s' = cv s -> U s' c h = U s c h.
Proof.
  intros E. pose proof (get_chan_proj s s' c h E) as H. unfold U.
  destruct (get_chan s' c h), (get_chan s c h); cbn in H; try discriminate; auto. inversion H. auto.
Qed.
Lemma alive_view s s' qid : qv s' = qv s -> queue_alive s' qid = queue_alive s qid.
Proof. intros E. rewrite !queue_alive_qv, E. reflexivity. Qed.

(* a change of the status of channel (c,h); if the channel becomes closed it must hold nothing *)
(* an update of channel (c,h) that keeps its unsettled list *)
Lemma Good_set_flags s c h ch ch' :
  VI s -> get_chan s c h = Some ch -> ch_unacked ch' = ch_unacked ch ->
  (cflags ch' = cflags ch \/ (h = 0 \/ is_closed (ch_status ch') = true -> ch_unacked ch = [] /\ ch_consumers ch' = [])) ->
  Good s (set_chan s c h ch') nil1 nil1.
Proof.
  intros V Ech Eu Hc. pose proof (cv_get_chan _ _ _ _ Ech) as Hcg.
  assert (Ec : cv (set_chan s c h ch') = cv_set c h (cflags ch', ch_unacked ch) (cv s)).
  { rewrite cv_set_chan. unfold cproj. rewrite Eu. reflexivity. }
  apply Good_of_views.
  - unfold VI. rewrite Ec, qv_set_chan, next_qid_set_chan.
    apply (VI_shrink s c h ch (ch_unacked ch) (cflags ch') _ V Ech (incl_refl _)); [|reflexivity].
    destruct Hc as [Hc|Hc]; [left; exact Hc|right]. intros H0. destruct (Hc H0) as [A B]. split; auto. cbn. rewrite B. reflexivity.
  - intros qid. rewrite qv_set_chan, Ec. unfold nil1.
    assert (Hu : Permutation (una (cv s) qid ++ []) (una (cv_set c h (cflags ch', ch_unacked ch) (cv s)) qid ++ [])).
    { eapply una_set_perm; eauto. }
    perm_lia.
Qed.
Lemma Good_set_status s c h st :
  VI s -> (is_closed st = true -> forall ch, get_chan s c h = Some ch -> ch_unacked ch = [] /\ ch_consumers ch = []) ->
  Good s (upd_chan s c h (fun ch => ch <| ch_status := st |>)) nil1 nil1.
Proof.
  intros V Hc. unfold upd_chan. destruct (get_chan s c h) as [ch|] eqn:Ech; [|apply Good_frame; auto].
  apply (Good_set_flags s c h ch); auto.
  destruct (is_closed st) eqn:Es.
  - right. intros _. destruct (Hc eq_refl _ eq_refl) as (A & B). auto.
  - pose proof (cv_get_chan _ _ _ _ Ech) as Hcg. destruct (cv_get_in _ _ _ _ Hcg) as (st0 & chs & H1 & H2).
    destruct (is_closed (ch_status ch)) eqn:Es0.
    + right. cbn. intros _. destruct (vi_cz _ _ _ V _ _ _ _ _ _ H1 H2) as [A B]; [right; cbn; exact Es0|].
      split; auto. cbn in B. destruct (ch_consumers ch); [reflexivity|discriminate].
    + left. unfold cflags. cbn. rewrite Es, Es0. reflexivity.
Qed.

Lemma Good_clear_consumers s c h : VI s -> Good s (upd_chan s c h (fun ch => ch <| ch_consumers := [] |>)) nil1 nil1.
Proof.
  intros V. unfold upd_chan. destruct (get_chan s c h) as [ch|] eqn:Ech; [|apply Good_frame; auto].
  apply (Good_set_flags s c h ch); auto. right. cbn. intros H0. split; auto.
  pose proof (cv_get_chan _ _ _ _ Ech) as Hcg. destruct (cv_get_in _ _ _ _ Hcg) as (st0 & chs & H1 & H2).
  exact (proj1 (vi_cz _ _ _ V _ _ _ _ _ _ H1 H2 H0)).
Qed.

Lemma filter_covered0 l : filter (covered 0) l = l.
Proof. induction l as [|a t IH]; cbn; [|rewrite IH]; reflexivity. Qed.

Lemma CI_close_prefix s c h ch :
  CI s -> CI (upd_chan (fold_left (fun s cm => consumer_stop s c h (c_tag cm)) (ch_consumers ch) s) c h (fun ch => ch <| ch_consumers := [] |>)).
Proof.
  intros H. apply allch_upd_chan; [intros ch0 Hc0; eapply chinvp_set; [..|exact Hc0]; reflexivity|].
  apply fold_left_preserves; auto. intros; apply CI_consumer_stop; auto.
Qed.

Lemma Good_channel_close cfg s c h : Inv s -> Good s (channel_close cfg s c h) (close_released s c h) nil1.
Proof.
  intros [V Hci]. unfold channel_close, close_released. destruct (get_chan s c h) as [ch|] eqn:Ech.
  2:{ apply Good_nil_rel; [|apply Good_frame; auto]. intros q. unfold U. rewrite Ech. destruct (_ && _); reflexivity. }
  set (s1 := fold_left (fun s cm => consumer_stop s c h (c_tag cm)) (ch_consumers ch) s).
  assert (E1 : view s1 = view s) by (subst s1; apply view_fold; intros; apply view_consumer_stop).
  assert (V1 : VI s1) by (eapply VI_view; eauto).
  destruct (view_inv _ _ E1) as (Ec1 & Eq1 & En1).
  set (s2 := upd_chan s1 c h (fun ch => ch <| ch_consumers := [] |>)).
  assert (C2 : CI s2) by (apply CI_close_prefix; auto).
  assert (G2 : Good s1 s2 nil1 nil1) by (apply Good_clear_consumers; auto).
  assert (Ue : U s2 c h = U s c h) by (subst s2; rewrite U_upd_chan_keep by reflexivity; apply U_view; exact Ec1).
  assert (Eq2 : qv s2 = qv s) by (subst s2; rewrite qv_upd_chan; exact Eq1).
  assert (E2 : allch (emptyat c h) s2).
  { subst s2. intros c' h' ch0 Hg Hc Hh. subst. unfold upd_chan in Hg.
    destruct (get_chan s1 c h) as [ch1|] eqn:Eg1; [|congruence].
    rewrite get_chan_set_chan in Hg. pose proof (get_chan_conn _ _ _ _ Eg1) as Hcn.
    destruct (get_conn s1 c); [|congruence]. rewrite !N.eqb_refl in Hg. cbn in Hg. inversion Hg; subst. reflexivity. }
  clearbody s2. clearbody s1.
  eapply Good_frame_then; [exact E1|exact V|].
  destruct (0 <? h) eqn:Eh; cbn [andb].
  - pose proof (Good_handle_reject cfg s2 c h 0 true true 60 120 (conj (proj1 G2) C2)) as G.
    pose proof (E_handle_reject c h cfg s2 c h 0 true true 60 120 E2) as E3.
    destruct (handle_reject cfg s2 c h 0 true true 60 120) as [s3 e3] eqn:Er. cbn [fst] in *.
    assert (U3 : U s3 c h = []).
    { assert (Hnd : NoDup (map u_tag (U s2 c h))).
      { unfold U. destruct (get_chan s2 c h) as [ch2|] eqn:E; [exact (proj1 (C2 _ _ _ E))|constructor]. }
      destruct (reject_multiple_exact _ _ _ _ _ _ _ _ _ _ Er Hnd) as (_ & Eu & _). rewrite Eu.
      clear. induction (U s2 c h) as [|a t IH]; cbn; auto. }
    assert (G4 : Good s3 (upd_chan s3 c h (fun ch => ch <| ch_status := ChClosed |>)) nil1 nil1).
    { apply Good_set_status; [exact (proj1 G)|]. intros _ ch3 Eg3. split; [rewrite <- (U_get _ _ _ _ Eg3); exact U3|].
      exact (E3 _ _ _ Eg3 eq_refl eq_refl). }
    eapply Good_ext; [| |exact (Good_trans _ _ _ _ _ _ _ G2 (Good_trans _ _ _ _ _ _ _ G G4))].
    + intros q. unfold nil1. cbn [app andb]. rewrite app_nil_r. unfold covers. rewrite filter_covered0, Ue, (alive_view _ _ _ Eq2).
      destruct (queue_alive s q); reflexivity.
    + intros q. reflexivity.
  - assert (G4 : Good s2 (upd_chan s2 c h (fun ch => ch <| ch_status := ChClosed |>)) nil1 nil1).
    { apply Good_set_status; [exact (proj1 G2)|]. intros _ ch3 Eg3. split; [|exact (E2 _ _ _ Eg3 eq_refl eq_refl)].
      apply N.ltb_ge in Eh. assert (h = 0) by lia. subst h.
      pose proof (cv_get_chan _ _ _ _ Eg3) as Hcg. destruct (cv_get_in _ _ _ _ Hcg) as (st & chs & H1 & H2).
      exact (proj1 (vi_cz _ _ _ (proj1 G2) _ _ _ _ _ _ H1 H2 (or_introl eq_refl))). }
    eapply Good_ext; [| |exact (Good_trans _ _ _ _ _ _ _ G2 G4)]; intros q; reflexivity.
Qed.

(* ================================================================== *)
(* deliveries *)
Lemma qv_of_view s s' : view s' = view s -> qv s' = qv s.
Proof. intros H. apply view_inv in H. tauto. Qed.
Lemma cv_of_view s s' : view s' = view s -> cv s' = cv s.
Proof. intros H. apply view_inv in H. tauto. Qed.
Lemma nq_of_view s s' : view s' = view s -> next_qid s' = next_qid s.
Proof. intros H. apply view_inv in H. tauto. Qed.

Ltac strip_set :=
  repeat match goal with
         | |- context [qv (@set state ?T ?proj ?H ?f ?x)] => change (qv (@set state T proj H f x)) with (qv x)
         | |- context [cv (@set state ?T ?proj ?H ?f ?x)] => change (cv (@set state T proj H f x)) with (cv x)
         | |- context [next_qid (@set state ?T ?proj ?H ?f ?x)] => change (next_qid (@set state T proj H f x)) with (next_qid x)
         end.

Lemma qids_unique (v : qview) n p n' p' : NoDup (qids v) -> In (n, p) v -> In (n', p') v -> p_id p = p_id p' -> n = n'.
Proof.
  unfold qids. induction v as [|[k x] t IH]; cbn; [tauto|]. intros Hnd H1 H2 E. inversion Hnd; subst.
  destruct H1 as [H1|H1], H2 as [H2|H2].
  - congruence.
  - inversion H1; subst. exfalso. apply H3. rewrite E. apply (in_map (fun e => p_id (snd e)) _ _ H2).
  - inversion H2; subst. exfalso. apply H3. rewrite <- E. apply (in_map (fun e => p_id (snd e)) _ _ H1).
  - eauto.
Qed.

Lemma qv_in s q qu : get_queue s q = Some qu -> In (q, qproj qu) (qv s).
Proof. intros H. eapply alookup_in; [apply seqb_spec|]. rewrite qv_get, H. reflexivity. Qed.

Lemma Good_deliver s s' c h q qu u rest (noack : bool) :
  VI s -> get_queue s q = Some qu -> q_ready qu = u :: rest ->
  qv s' = qv_upd q (p_set_ready rest) (qv s) -> next_qid s' = next_qid s ->
  (if noack then cv s' = cv s
   else exists ch nu, get_chan s c h = Some ch /\ cv s' = cv_set c h (cflags ch, ch_unacked ch ++ [nu]) (cv s) /\
                      u_qid nu = q_id qu /\ u_queue nu = q /\ u_msg nu = u /\ h <> 0 /\ is_closed (ch_status ch) = false) ->
  Good s s' (fun qid => if noack then head_if qu qid else []) nil1.
Proof.
  intros V Hq Hr Eq En Hc. pose proof (qv_in _ _ _ Hq) as Hqin.
  assert (Hql : alookup seqb q (qv s) = Some (qproj qu)) by (rewrite qv_get, Hq; reflexivity).
  assert (V1 : VInv (cv s) (qv s') (next_qid s')).
  { rewrite En, Eq. eapply VInv_qshape; [|exact V]. apply qshape_qv_upd. intros p. apply p_set_ready_shape. }
  assert (Hrd : forall qid, Permutation (rdy (qv s') qid ++ head_if qu qid) (rdy (qv s) qid ++ [])).
  { intros qid. rewrite Eq. eapply rdy_upd_perm; eauto. unfold qcontrib, head_if. cbn. rewrite Hr.
    destruct (q_id qu =? qid); cbn; perm_lia. }
  destruct noack.
  - apply Good_of_views; [unfold VI; rewrite Hc; exact V1|]. intros qid. specialize (Hrd qid). rewrite Hc. unfold nil1. perm_lia.
  - destruct Hc as (ch & nu & Ech & Ec & E1 & E2 & E3 & Hh & Hcl). pose proof (cv_get_chan _ _ _ _ Ech) as Hcg.
    apply Good_of_views.
    + unfold VI. rewrite Ec. eapply VInv_cv_set; eauto.
      * intros x Hx. apply in_app_or in Hx. destruct Hx as [Hx|[<-|[]]].
        -- apply (vi_uq _ _ _ V1). eapply cv_get_au; eauto.
        -- split.
           ++ rewrite E1, En. apply (vi_qbound _ _ _ V _ _ Hqin).
           ++ intros n p Hin Hid. rewrite E2.
              assert (Hin' : exists p0, In (n, p0) (qv s) /\ p_id p0 = p_id p).
              { rewrite Eq in Hin. destruct (qshape_in (qv s) _ n p (qshape_qv_upd q (p_set_ready rest) (qv s) (fun p => p_set_ready_shape rest p)) Hin) as (p0 & H0 & I & _). eauto. }
              destruct Hin' as (p0 & H0 & I). apply (qids_unique (qv s) n p0 q (qproj qu) (vi_qids _ _ _ V) H0 Hqin). cbn. congruence.
      * cbn. intros [H0|H0]; [contradiction|congruence].
    + intros qid. specialize (Hrd qid). rewrite Ec. unfold nil1.
      assert (Hu : Permutation (una (cv s) qid ++ (if q_id qu =? qid then [u] else [])) (una (cv_set c h (cflags ch, ch_unacked ch ++ [nu]) (cv s)) qid ++ [])).
      { eapply una_set_perm; eauto. rewrite msgs_from_app, app_nil_r. apply Permutation_app_head.
        rewrite msgs_from_cons. unfold from. rewrite E1, E3. cbn. rewrite app_nil_r. reflexivity. }
      unfold head_if in Hrd. rewrite Hr in Hrd. cbn in Hrd. destruct (q_id qu =? qid); perm_lia.
Qed.

Lemma qv_metric s q f : (forall qu, qproj (f qu) = qproj qu) -> qv (upd_queue s q f) = qv s.
Proof. intros H. apply qv_of_view. apply view_upd_queue_same. exact H. Qed.
Lemma cv_upd_chan_same s c h f : (forall ch, cproj (f ch) = cproj ch) -> cv (upd_chan s c h f) = cv s.
Proof. intros H. apply cv_of_view. apply view_upd_chan_same. exact H. Qed.
Lemma get_chan_upd_chan_same s c h f ch : get_chan s c h = Some ch -> get_chan (upd_chan s c h f) c h = Some (f ch).
Proof.
  intros E. unfold upd_chan. rewrite E. rewrite get_chan_set_chan. pose proof (get_chan_conn _ _ _ _ E) as Hc.
  destruct (get_conn s c); [|congruence]. rewrite !N.eqb_refl. reflexivity.
Qed.
Lemma cv_append s c h ch d nu : get_chan s c h = Some ch ->
  cv (upd_chan (upd_chan s c h (fun ch => ch <| ch_dtag := d |>)) c h (fun ch => ch <| ch_unacked ::= fun l => l ++ [nu] |>))
  = cv_set c h (cflags ch, ch_unacked ch ++ [nu]) (cv s).
Proof.
  intros E. rewrite cv_upd_chan. rewrite (get_chan_upd_chan_same _ _ _ _ _ E). rewrite cv_upd_chan_same by reflexivity. reflexivity.
Qed.
Lemma qid_of_proj s s' q : qv s' = qv s -> qid_of s' q = qid_of s q.
Proof.
  intros E. pose proof (get_queue_proj s s' q E) as H. unfold qid_of.
  destruct (get_queue s' q), (get_queue s q); cbn in H; try discriminate; auto. inversion H. auto.
Qed.
Lemma qid_of_shape s s' q : qshape (qv s') = qshape (qv s) -> qid_of s' q = qid_of s q.
Proof.
  intros E. pose proof (qshape_alookup _ _ q E) as H. rewrite !qv_get in H. unfold qid_of.
  destruct (get_queue s' q), (get_queue s q); cbn in H; try discriminate; auto. inversion H. auto.
Qed.
Lemma get_chan_upd_queue s q f c h : get_chan (upd_queue s q f) c h = get_chan s c h.
Proof. apply get_chan_same_conns. apply conns_upd_queue. Qed.
Ltac qvn := repeat first [ progress strip_set | rewrite qv_upd_chan | rewrite qv_set_chan | rewrite qv_metric by reflexivity
                         | rewrite (qv_of_view _ _ (view_queue_ackmsg _ _ _)) ].
Ltac nqn := repeat first [ progress strip_set | rewrite next_qid_upd_chan | rewrite next_qid_set_chan | rewrite next_qid_upd_queue
                         | rewrite (nq_of_view _ _ (view_queue_ackmsg _ _ _)) ].
Ltac cvn := repeat first [ progress strip_set | rewrite cv_upd_queue | rewrite cv_upd_chan_same by (intros; cpr)
                         | rewrite (cv_of_view _ _ (view_queue_ackmsg _ _ _)) ].

Lemma find_consumer_has ch tag cm : find_consumer ch tag = Some cm -> has_cons (ch_consumers ch) = true.
Proof. unfold find_consumer. destruct (ch_consumers ch); [discriminate|reflexivity]. Qed.

Lemma live_channel s c h ch : VI s -> get_chan s c h = Some ch -> has_cons (ch_consumers ch) = true ->
  h <> 0 /\ is_closed (ch_status ch) = false.
Proof.
  intros V Ech Hc. pose proof (cv_get_chan _ _ _ _ Ech) as Hcg. destruct (cv_get_in _ _ _ _ Hcg) as (st & chs & H1 & H2).
  pose proof (vi_cz _ _ _ V _ _ _ _ _ _ H1 H2) as Hz. cbn in Hz. split.
  - intros H0. destruct (Hz (or_introl H0)). congruence.
  - destruct (is_closed (ch_status ch)); auto. destruct (Hz (or_intror eq_refl)). congruence.
Qed.

Lemma queue_found_some s q qu : get_queue s q = Some qu -> q_active qu = true -> queue_found s q = Some qu.
Proof. unfold queue_found. intros -> ->. reflexivity. Qed.

Lemma Good_consumer_turn cfg fx s c h tag :
  VI s -> Good s (fst (consumer_turn cfg fx s c h tag)) (turn_released s c h tag) nil1.
Proof.
  intros V. unfold consumer_turn, turn_released.
  destruct (get_chan s c h) as [ch|] eqn:Ech; [|apply Good_frame; auto].
  destruct (find_consumer ch tag) as [cm|] eqn:Efc; [|apply Good_frame; auto].
  destruct (c_token cm) eqn:Etok; cbn [negb andb]; [|apply Good_frame; auto].
  destruct (live_channel _ _ _ _ V Ech (find_consumer_has _ _ _ Efc)) as [Hh Hcl].
  set (s0 := set_chan s c h _).
  assert (E0 : view s0 = view s) by (subst s0; eapply view_set_chan_same; [eauto|cpr]).
  assert (Q0 : forall q, get_queue s0 q = get_queue s q) by (intros; subst s0; apply get_queue_same_queues; apply queues_set_chan).
  assert (Ech0 : exists ch0, get_chan s0 c h = Some ch0 /\ cflags ch0 = cflags ch /\ ch_unacked ch0 = ch_unacked ch).
  { subst s0. rewrite get_chan_set_chan. pose proof (get_chan_conn _ _ _ _ Ech) as Hc. destruct (get_conn s c); [|congruence].
    rewrite !N.eqb_refl. cbn. eexists. split; [reflexivity|]. split; [unfold cflags, upd_consumer; cbn; rewrite has_cons_map|]; reflexivity. }
  destruct Ech0 as (ch0 & Ech0 & Ef0 & Eu0).
  clearbody s0.
  destruct (c_status cm) eqn:Est; cbn [negb andb]; try (apply Good_nil_rel; [intros; destruct (c_noack cm); reflexivity|apply Good_frame; auto]).
  all: rewrite Q0; unfold queue_found.
  all: destruct (get_queue s (c_queue cm)) as [qu|] eqn:Eq; [|apply Good_nil_rel; [intros; destruct (c_noack cm); reflexivity|apply Good_frame; auto]].
  all: destruct (q_active qu) eqn:Ea; cbn [negb]; [|apply Good_nil_rel; [intros; destruct (c_noack cm); reflexivity|apply Good_frame; auto]].
  all: destruct (q_ready qu) as [|u rest] eqn:Er; [apply Good_nil_rel; [intros; unfold head_if; rewrite Er; destruct (c_noack cm), (q_id qu =? _); reflexivity|apply Good_frame; auto]|].
  all: match goal with |- context [if c_noack ?cm0 then (Some [], []) else ?r] => destruct (if c_noack cm0 then (Some [], []) else r) as [okr ws] eqn:Eres end.
  all: set (s1 := if c_noack cm then s0 else store_windows cfg s0 c h tag ws).
  all: assert (E1 : view s1 = view s) by (subst s1; destruct (c_noack cm); [exact E0|rewrite view_store_windows; exact E0]).
  all: destruct okr as [okl|]; cbn [fst].
  all: try (apply Good_nil_rel; [intros; destruct (c_noack cm); [discriminate|reflexivity]|apply Good_frame; auto]; fail).
  all: match goal with |- context [wake_consumer ?st ?c0 ?h0 ?tag0] => set (s8 := st); destruct (wake_consumer s8 c0 h0 tag0) as [s9 b9] eqn:Ew;
         apply fst_pair in Ew; cbn [fst]; subst s9 end.
  all: eapply Good_then_frame; [|apply view_wake_consumer].
  all: assert (Q1 : qv s1 = qv s) by (apply qv_of_view; exact E1).
  all: assert (C1 : cv s1 = cv s) by (apply cv_of_view; exact E1).
  all: assert (N1 : next_qid s1 = next_qid s) by (apply nq_of_view; exact E1).
  all: assert (Ech1 : get_chan s1 c h = Some ch0 \/ exists ch1, get_chan s1 c h = Some ch1 /\ cflags ch1 = cflags ch /\ ch_unacked ch1 = ch_unacked ch).
  all: try (right; pose proof (get_chan_proj s s1 c h C1) as Hp; rewrite Ech in Hp; destruct (get_chan s1 c h) as [ch1|]; [|discriminate];
            cbn in Hp; inversion Hp; eexists; split; [reflexivity|]; unfold cflags; split; congruence).
  all: assert (Ech1' : exists ch1, get_chan s1 c h = Some ch1 /\ cflags ch1 = cflags ch /\ ch_unacked ch1 = ch_unacked ch) by (destruct Ech1 as [H|H]; eauto).
  all: clear Ech1; destruct Ech1' as (ch1 & Ech1 & Ef1 & Eu1).
  all: clearbody s1.
  all: subst s8; destruct (c_noack cm) eqn:Ena; cbn [andb].
  all: match goal with
       | H : c_noack _ = true |- _ => apply (Good_deliver s _ c h (c_queue cm) qu u rest true V Eq Er)
       | H : c_noack _ = false |- _ => apply (Good_deliver s _ c h (c_queue cm) qu u rest false V Eq Er)
       end.
  (* ready lists *)
  all: try (destruct (fx_noack_total_once fx); qvn; rewrite (qv_upd_queue _ _ _ (p_set_ready rest)) by (intros; apply qproj_popped); rewrite Q1; reflexivity).
  all: try (destruct (fx_noack_total_once fx); nqn; exact N1).
  all: try (destruct (fx_noack_total_once fx); cvn; exact C1).
  all: exists ch; eexists; split; [exact Ech|]; split;
         [strip_set; rewrite cv_upd_queue; strip_set;
          rewrite (cv_append _ c h ch1) by (rewrite get_chan_upd_queue; exact Ech1);
          rewrite cv_upd_queue, C1, Ef1, Eu1; reflexivity|].
  all: split; [|split; [reflexivity|split; [reflexivity|split; [exact Hh|exact Hcl]]]].
  all: cbn [u_qid]; rewrite (qid_of_shape s); [unfold qid_of; rewrite Eq; reflexivity|].
  all: rewrite qv_upd_chan, (qv_upd_queue _ _ _ (p_set_ready rest)) by (intros; apply qproj_popped).
  all: rewrite (qshape_qv_upd _ _ _ (fun p => p_set_ready_shape rest p)), Q1; reflexivity.
Qed.

(* ================================================================== *)
(* method handlers that keep the view *)
Definition frame_meth (m : meth) : bool :=
  match m with
  | MChannelFlow _ | MExDeclare _ _ _ _ _ _ _ | MExDelete _ _ _ | MQBind _ _ _ _ _ | MQUnbind _ _ _ _ | MQos _ _ _
  | MPublish _ _ _ _ | MRecover _ | MConfirmSelect _ | MTxSelect | MConnClose | MConnCloseOk => true
  | _ => false
  end.

Lemma view_handle_method_frame cfg fx s c h m : frame_meth m = true -> view (fst (fst (handle_method cfg fx s c h m))) = view s.
Proof.
  intros Hm. unfold handle_method. destruct (get_chan s c h) as [ch|] eqn:Hch; [|reflexivity].
  destruct m; try discriminate; unfold ok, refuse.
  - (* flow *) cbn [fst]. destruct (Bool.eqb _ _); auto. destruct a; (eapply view_set_chan_same; [eauto|cpr]).
  - (* ex declare *) destruct (extype_of type); [|reflexivity].
    repeat match goal with |- context [if ?b then _ else _] => destruct b end; cbn [fst]; auto.
    all: repeat match goal with |- context [match ?x with _ => _ end] => destruct x end; cbn [fst]; auto.
  - destruct (fx_not_impl fx); reflexivity.
  - (* bind *) destruct (alookup _ _ _); [|reflexivity]. destruct (seqb ex ""); [reflexivity|].
    destruct (queue_found s q); [|reflexivity]. destruct (locked _ _); [reflexivity|]. destruct (bad_xmatch _); reflexivity.
  - destruct (alookup _ _ _); [|reflexivity]. destruct (queue_found s q); [|reflexivity]. destruct (locked _ _); [reflexivity|]. destruct (bad_xmatch _); reflexivity.
  - (* qos *) cbn [fst]. rewrite view_wake_consumers. destruct (cfg_rabbit cfg); [destruct glob; (eapply view_set_chan_same; [eauto|cpr])|].
    destruct glob; [|eapply view_set_chan_same; [eauto|cpr]]. destruct (get_conn s c) eqn:Ec; auto. apply view_set_conn_qos; auto.
  - (* publish *) destruct imm; [reflexivity|]. destruct (alookup _ _ _); [|reflexivity].
    destruct (ch_confirm ch); cbn [fst].
    + match goal with |- view (set_chan ?st _ _ _) = _ => transitivity (view st); [|reflexivity] end.
      eapply view_set_chan_same; [exact Hch|cpr].
    + match goal with |- view (set_chan ?st _ _ _) = _ => transitivity (view st); [|reflexivity] end.
      eapply view_set_chan_same; [exact Hch|cpr].
  - reflexivity.
  - cbn [fst]. eapply view_set_chan_same; [eauto|cpr].
  - destruct (fx_not_impl fx); reflexivity.
  - reflexivity.
  - reflexivity.
Qed.

(* ================================================================== *)
(* channel.open, basic.consume, basic.cancel, queue.declare, queue.purge *)
Lemma cz_at s c h ch : VI s -> get_chan s c h = Some ch -> h = 0 \/ is_closed (ch_status ch) = true ->
  ch_unacked ch = [] /\ ch_consumers ch = [].
Proof.
  intros V Ech H. pose proof (cv_get_chan _ _ _ _ Ech) as Hcg. destruct (cv_get_in _ _ _ _ Hcg) as (st & chs & H1 & H2).
  destruct (vi_cz _ _ _ V _ _ _ _ _ _ H1 H2 H) as [A B]. split; auto. cbn in B. destruct (ch_consumers ch); [reflexivity|discriminate].
Qed.

Lemma Good_status_open s c h ch ch' :
  VI s -> get_chan s c h = Some ch -> ch_unacked ch' = ch_unacked ch -> ch_consumers ch' = ch_consumers ch ->
  is_closed (ch_status ch') = false -> Good s (set_chan s c h ch') nil1 nil1.
Proof.
  intros V Ech Eu Ec Hs. apply (Good_set_flags s c h ch); auto. right. intros [H0|H0]; [|congruence].
  destruct (cz_at _ _ _ _ V Ech (or_introl H0)) as [A B]. split; auto. congruence.
Qed.

Lemma Good_channel_open cfg fx s c h :
  VI s -> Good s (fst (fst (handle_method cfg fx s c h MChannelOpen))) nil1 nil1.
Proof.
  intros V. unfold handle_method. destruct (get_chan s c h) as [ch|] eqn:Ech; [|apply Good_frame; auto].
  destruct (ch_status ch) eqn:Es; unfold ok, refuse; cbn [fst]; try (apply Good_frame; auto; fail).
  - apply (Good_status_open s c h ch); auto.
  - apply (Good_status_open s c h ch); auto.
  - destruct (cz_at _ _ _ _ V Ech (or_intror (f_equal is_closed Es))) as [A B].
    apply (Good_status_open s c h ch); auto; destruct (fx_reopen_resets fx); cbn; auto.
Qed.

Lemma opened_cv s c : opened (cv s) c = conn_opened s c.
Proof. unfold opened, conn_opened, cv, get_conn. rewrite alookup_vmap. destruct (alookup N.eqb c (conns s)); reflexivity. Qed.

Lemma queue_found_none s q : VI s -> queue_found s q = None -> get_queue s q = None.
Proof.
  intros V H. unfold queue_found in H. destruct (get_queue s q) as [qu|] eqn:E; auto.
  pose proof (vi_active _ _ _ V _ _ (qv_in _ _ _ E)) as Ha. cbn in Ha. rewrite Ha in H. discriminate.
Qed.

Lemma Good_queue_declare cfg fx s c h name dur excl ad passive nowait :
  VI s -> conn_opened s c = true ->
  Good s (fst (fst (handle_method cfg fx s c h (MQDeclare name dur excl ad passive nowait)))) nil1 nil1.
Proof.
  intros V Hop. unfold handle_method. destruct (get_chan s c h) as [ch|] eqn:Ech; [|apply Good_frame; auto].
  unfold ok, refuse. destruct (seqb name ""); [apply Good_frame; auto|].
  destruct (queue_found s name) as [qu|] eqn:Ef.
  - repeat match goal with |- context [if ?b then _ else _] => destruct b end; cbn [fst]; apply Good_frame; auto.
  - destruct passive; [destruct nowait; apply Good_frame; auto|]. cbn [fst].
    pose proof (queue_found_none _ _ V Ef) as Eg.
    assert (Hl : alookup seqb name (qv s) = None) by (rewrite qv_get, Eg; reflexivity).
    apply Good_of_views.
    + unfold VI. strip_set. rewrite qv_set_queue. strip_set. cbn [next_qid set]. 
      change (cv (set_queue (s <| next_qid ::= N.succ |>) name (new_queue (next_qid s) c dur excl ad))) with (cv s).
      change (next_qid (set_queue (s <| next_qid ::= N.succ |>) name (new_queue (next_qid s) c dur excl ad))) with (N.succ (next_qid s)).
      apply VInv_new_queue; auto. cbn. intros _. rewrite opened_cv. exact Hop.
    + intros qid. strip_set. rewrite qv_set_queue. strip_set.
      change (cv (set_queue (s <| next_qid ::= N.succ |>) name (new_queue (next_qid s) c dur excl ad))) with (cv s).
      rewrite (rdy_fresh _ _ _ _ Hl). unfold qcontrib, nil1. cbn. destruct (next_qid s =? qid); perm_lia.
Qed.

Lemma Good_consume cfg fx s c h q tag0 noack excl nowait :
  VI s -> h <> 0 -> (forall ch, get_chan s c h = Some ch -> is_closed (ch_status ch) = false) ->
  Good s (fst (fst (handle_method cfg fx s c h (MConsume q tag0 noack excl nowait)))) nil1 nil1.
Proof.
  intros V Hh Hcl. unfold handle_method. destruct (get_chan s c h) as [ch|] eqn:Ech; [|apply Good_frame; auto].
  unfold ok, refuse. destruct (queue_found s q) as [qu|] eqn:Ef; [|apply Good_frame; auto].
  apply queue_found_get in Ef.
  destruct (fx_excl_owner fx && locked qu c); [apply Good_frame; auto|].
  destruct (find_consumer ch _); [apply Good_frame; auto|].
  destruct (_ && _)%bool; cbn [fst].
  - apply Good_frame; auto. eapply view_set_queue_same; eauto.
  - match goal with |- Good _ (set_chan ?st _ _ ?ch') _ _ => set (s1 := st); set (ch1 := ch') end.
    assert (E1 : view s1 = view s).
    { subst s1. destruct (seqb tag0 ""%string); (transitivity (view (set_queue s q (call_consumers
         ((if excl then qu <| q_wasconsumed := true |> <| q_cexcl := true |> else qu <| q_wasconsumed := true |>) <| q_consumers ::= (fun l => l ++ [(c, h, eff_tag s tag0)]) |>))));
        [reflexivity|eapply view_set_queue_same; [eauto|destruct excl; unfold call_consumers; cbn; destruct (q_active qu); reflexivity]]). }
    eapply Good_frame_then; [exact E1|exact V|].
    assert (Ech1 : exists ch0, get_chan s1 c h = Some ch0 /\ ch_unacked ch0 = ch_unacked ch /\ is_closed (ch_status ch0) = false).
    { pose proof (get_chan_proj s s1 c h (cv_of_view _ _ E1)) as Hp. rewrite Ech in Hp. destruct (get_chan s1 c h) as [ch0|]; [|discriminate].
      cbn in Hp. inversion Hp. eexists; split; [reflexivity|]. split; auto. rewrite H0. apply (Hcl _ eq_refl). }
    destruct Ech1 as (ch0 & Ech1 & Eu1 & Ec1).
    apply (Good_set_flags s1 c h ch0); [eapply VI_view; eauto|exact Ech1|subst ch1; cbn; auto|].
    right. subst ch1. cbn. intros [H0|H0]; [contradiction|]. rewrite (Hcl _ eq_refl) in H0. discriminate.
Qed.

Lemma Good_upd_flags s c h f :
  VI s -> (forall ch, ch_unacked (f ch) = ch_unacked ch) -> (forall ch, ch_status (f ch) = ch_status ch) ->
  (forall ch, ch_consumers ch = [] -> ch_consumers (f ch) = []) ->
  Good s (upd_chan s c h f) nil1 nil1.
Proof.
  intros V Hu Hs Hc. unfold upd_chan. destruct (get_chan s c h) as [ch|] eqn:Ech; [|apply Good_frame; auto].
  apply (Good_set_flags s c h ch); auto. right. rewrite Hs. intros H0. destruct (cz_at _ _ _ _ V Ech H0) as [A B]. auto.
Qed.

Lemma uq_ok_orphan qw nq tag u : uq_ok qw nq u -> uq_ok qw nq (orphan tag u).
Proof. unfold uq_ok. destruct (orphan_fields tag u) as (_ & _ & -> & ->). auto. Qed.

Lemma Good_orphan s c h tag : VI s -> Good s (upd_chan s c h (fun ch => ch <| ch_unacked ::= map (orphan tag) |>)) nil1 nil1.
Proof.
  intros V. unfold upd_chan. destruct (get_chan s c h) as [ch|] eqn:Ech; [|apply Good_frame; auto].
  pose proof (cv_get_chan _ _ _ _ Ech) as Hcg.
  assert (Ec : cv (set_chan s c h (ch <| ch_unacked ::= map (orphan tag) |>)) = cv_set c h (cflags ch, map (orphan tag) (ch_unacked ch)) (cv s))
    by (rewrite cv_set_chan; reflexivity).
  apply Good_of_views.
  - unfold VI. rewrite Ec, qv_set_chan, next_qid_set_chan. eapply VInv_cv_set; eauto.
    + intros u Hu. apply in_map_iff in Hu. destruct Hu as (u0 & <- & Hu0). apply uq_ok_orphan. apply (vi_uq _ _ _ V). eapply cv_get_au; eauto.
    + intros H0. destruct (cv_get_in _ _ _ _ Hcg) as (st & chs & H1 & H2). destruct (vi_cz _ _ _ V _ _ _ _ _ _ H1 H2 H0) as [A B].
      rewrite A. auto.
  - intros qid. rewrite qv_set_chan, Ec. unfold nil1.
    assert (Hu : Permutation (una (cv s) qid ++ []) (una (cv_set c h (cflags ch, map (orphan tag) (ch_unacked ch)) (cv s)) qid ++ [])).
    { eapply una_set_perm; eauto. rewrite msgs_from_orphan. reflexivity. }
    perm_lia.
Qed.

Lemma Good2 s s1 s2 : Good s s1 nil1 nil1 -> Good s1 s2 nil1 nil1 -> Good s s2 nil1 nil1.
Proof. intros A B. eapply Good_ext; [| |exact (Good_trans _ _ _ _ _ _ _ A B)]; intros q; reflexivity. Qed.

Lemma Good_cancel cfg fx s c h tag nowait :
  VI s -> Good s (fst (fst (handle_method cfg fx s c h (MCancel tag nowait)))) nil1 nil1.
Proof.
  intros V. unfold handle_method. destruct (get_chan s c h) as [ch|] eqn:Ech; [|apply Good_frame; auto].
  unfold ok, refuse. destruct (find_consumer ch tag); [|apply Good_frame; auto]. cbn [fst].
  set (s1 := consumer_stop s c h tag).
  assert (E1 : view s1 = view s) by apply view_consumer_stop.
  assert (V1 : VI s1) by (eapply VI_view; eauto).
  set (s2 := upd_chan s1 c h (fun ch => ch <| ch_consumers ::= filter (fun cm => negb (seqb (c_tag cm) tag)) |>)).
  assert (G12 : Good s1 s2 nil1 nil1).
  { apply Good_upd_flags; [exact V1|reflexivity|reflexivity|]. intros ch0 H. cbn. rewrite H. reflexivity. }
  pose proof (Good_orphan s2 c h tag (proj1 G12)) as G23.
  eapply Good_frame_then; [exact E1|exact V|]. exact (Good2 _ _ _ G12 G23).
Qed.

Lemma Good_purge cfg fx s c h q nowait :
  VI s -> Good s (fst (fst (handle_method cfg fx s c h (MQPurge q nowait))))
               (fun qid => if match get_chan s c h with Some _ => true | None => false end
                           then method_released fx s c h (MQPurge q nowait) qid else []) nil1.
Proof.
  intros V. unfold handle_method, method_released. destruct (get_chan s c h) as [ch|] eqn:Ech; [|apply Good_frame; auto].
  unfold ok, refuse. destruct (queue_found s q) as [qu|] eqn:Ef; [|apply Good_frame; auto].
  apply queue_found_get in Ef. destruct (locked qu c); [apply Good_frame; auto|]. cbn [fst].
  assert (Hl : alookup seqb q (qv s) = Some (qproj qu)) by (rewrite qv_get, Ef; reflexivity).
  match goal with |- Good _ (set_queue ?st _ ?qu') _ _ => assert (Eq : qv (set_queue st q qu') = qv_upd q (p_set_ready []) (qv s)) end.
  { rewrite qv_set_queue. unfold qv_upd. destruct (q_durable qu); strip_set; rewrite Hl; reflexivity. }
  match goal with |- Good _ ?st _ _ => assert (Ec : cv st = cv s) by (destruct (q_durable qu); reflexivity);
                                       assert (En : next_qid st = next_qid s) by (destruct (q_durable qu); reflexivity) end.
  apply Good_of_views.
  - unfold VI. rewrite Eq, Ec, En. eapply VInv_qshape; [apply qshape_qv_upd; intros p; apply p_set_ready_shape|exact V].
  - intros qid. rewrite Eq, Ec. unfold nil1.
    assert (Hr : Permutation (rdy (qv_upd q (p_set_ready []) (qv s)) qid ++ ready_if qu qid) (rdy (qv s) qid ++ [])).
    { eapply rdy_upd_perm; eauto. unfold qcontrib, ready_if. cbn. destruct (q_id qu =? qid); perm_lia. }
    perm_lia.
Qed.

(* ================================================================== *)
(* new channels and connections, error replies, publishing *)
Lemma Good_ensure_chan s c h :
  VI s -> (forall cn, get_conn s c = Some cn -> cn_stage cn <> StOpen -> h = 0) -> Good s (ensure_chan s c h) nil1 nil1.
Proof.
  intros V Hq. unfold ensure_chan. destruct (get_conn s c) as [cn|] eqn:Ec; [|apply Good_frame; auto].
  destruct (alookup N.eqb h (cn_chans cn)) eqn:Eh; [apply Good_frame; auto|].
  change (s <| conns := aset N.eqb c (cn <| cn_chans := aset N.eqb h channel0 (cn_chans cn) |>) (conns s) |>)
    with (match Some cn with Some cn => s <| conns := aset N.eqb c (cn <| cn_chans := aset N.eqb h channel0 (cn_chans cn) |>) (conns s) |> | None => s end).
  rewrite <- Ec. fold (set_chan s c h channel0).
  assert (Ec1 : alookup N.eqb c (cv s) = Some (nproj cn)) by (unfold cv; rewrite alookup_vmap; unfold get_conn in Ec; rewrite Ec; reflexivity).
  assert (Eh1 : alookup N.eqb h (vmap cproj (cn_chans cn)) = None) by (rewrite alookup_vmap, Eh; reflexivity).
  apply Good_of_views.
  - unfold VI. rewrite cv_set_chan, qv_set_chan, next_qid_set_chan. change (cproj channel0) with cp0.
    eapply VInv_cv_add; eauto.
  - intros qid. rewrite cv_set_chan, qv_set_chan. change (cproj channel0) with cp0. unfold una.
    rewrite (au_cv_add _ _ _ _ _ Ec1 Eh1). reflexivity.
Qed.

Lemma Good_new_conn s c cn :
  VI s -> get_conn s c = None -> cn_chans cn = [(0, channel0 <| ch_status := ChNew |>)] ->
  Good s (s <| conns := aset N.eqb c cn (conns s) |>) nil1 nil1.
Proof.
  intros V Ec Ech.
  assert (Ev : cv (s <| conns := aset N.eqb c cn (conns s) |>) = aset N.eqb c (cn_stage cn, [(0, cp0)]) (cv s)).
  { unfold cv. cbn. rewrite vmap_aset. unfold nproj at 1. rewrite Ech. reflexivity. }
  assert (Ec1 : alookup N.eqb c (cv s) = None) by (unfold cv; rewrite alookup_vmap; unfold get_conn in Ec; rewrite Ec; reflexivity).
  apply Good_of_views.
  - unfold VI. rewrite Ev. apply VInv_new_conn; auto.
  - intros qid. rewrite Ev. unfold una. rewrite (aset_fresh N.eqb c _ _ Ec1), au_app. cbn. rewrite !app_nil_r. reflexivity.
Qed.

Lemma Good_apply_err s s0 c h r rel pl : Good s (fst (fst r)) rel pl -> Good s (fst (apply_err s0 c h r)) rel pl.
Proof.
  destruct r as [[s1 e1] [e|]]; cbn [fst]; auto. intros G. unfold apply_err.
  destruct e; cbn [send_error]; cbn [fst]; auto.
  pose proof (Good_set_status s1 c h ChClosing (proj1 G) (fun H => ltac:(discriminate))) as G2.
  eapply Good_ext; [| |exact (Good_trans _ _ _ _ _ _ _ G G2)]; intros q; unfold nil1; rewrite ?app_nil_r; reflexivity.
Qed.

Lemma push_fold_view c h u pers meta qs : forall s, get_msg s u <> None ->
  let s' := fold_left (fun s qn => push_one s c h u pers meta qn) qs s in
  qv s' = push_all u qs (qv s) /\ cv s' = cv s /\ next_qid s' = next_qid s.
Proof.
  induction qs as [|qn t IH]; intros s Hm; cbn [fold_left]; [unfold push_all; cbn; auto|].
  assert (H1 : view (push_one s c h u pers meta qn) = (cv s, qv_upd qn (p_push u) (qv s), next_qid s) /\ get_msg (push_one s c h u pers meta qn) u <> None).
  { unfold push_one. pose proof (get_msg_queue_push s qn u u Hm) as Hq.
    destruct (get_msg (queue_push s qn u) u) as [m|] eqn:Em; [|congruence].
    assert (Hv : view (queue_push s qn u) = (cv s, qv_upd qn (p_push u) (qv s), next_qid s)).
    { unfold view. rewrite cv_queue_push, (qv_queue_push _ _ _ Hm), next_qid_queue_push. reflexivity. }
    destruct (meta && _ && _)%bool; [|split; [exact Hv|congruence]].
    split; [rewrite view_add_confirm; exact Hv|rewrite get_msg_add_confirm; congruence]. }
  destruct H1 as [Hv Hm1]. destruct (IH _ Hm1) as (A & B & C). cbv zeta. rewrite A, B, C.
  unfold view in Hv. inversion Hv as [[E1 E2 E3]]. rewrite E1, E2, E3. auto.
Qed.

Lemma Good_finish_publish fx s c h u m :
  VI s -> get_msg s u = Some m -> Good s (fst (finish_publish fx s c h u)) nil1 (routed fx s u).
Proof.
  intros V Hm. unfold finish_publish.
  assert (G : Good s (fst (route_and_push fx s c h u)) nil1 (routed fx s u)).
  { unfold route_and_push, routed. rewrite Hm. destruct (alookup seqb (m_ex m) (exchanges s)) as [ex|]; cbn [fst].
    2:{ apply Good_frame; auto. apply view_add_confirm. }
    destruct (matched_queues (negb (fx_direct_all fx)) ex (m_key m)) as [|q1 qs'] eqn:Eqs; cbn [fst].
    { apply Good_frame; auto. apply view_add_confirm. }
    match goal with |- context [fold_left _ _ ?st] => set (s0 := st) end.
    assert (E0 : view s0 = view s) by (subst s0; match goal with |- view (if ?b then _ else _) = _ => destruct b end; auto; apply view_upd_msg).
    assert (M0 : get_msg s0 u <> None).
    { subst s0. match goal with |- get_msg (if ?b then _ else _) u <> _ => destruct b end; [|congruence]. apply get_msg_upd_msg_some. congruence. }
    destruct (push_fold_view c h u (m_pers m) (match m_conf m with Some _ => true | None => false end) (q1 :: qs') s0 M0) as (A & B & C).
    cbv zeta in A, B, C. destruct (view_inv _ _ E0) as (B0 & A0 & C0).
    apply Good_of_views.
    - unfold VI. rewrite A, B, C, A0, B0, C0. eapply VInv_qshape; [apply qshape_push_all|exact V].
    - intros qid. rewrite A, B, A0, B0. unfold nil1.
      pose proof (rdy_push_all u qid (q1 :: qs') (qv s) (vi_active _ _ _ V)) as Hr.
      assert (Ef : flat_map (pushed (qv s) u qid) (q1 :: qs') =
                   flat_map (fun qn => match get_queue s qn with Some qu => if q_id qu =? qid then [u] else [] | None => [] end) (q1 :: qs')).
      { apply flat_map_ext. intros qn. unfold pushed. rewrite qv_get. destruct (get_queue s qn); reflexivity. }
      rewrite Ef in Hr. perm_lia. }
  destruct (route_and_push fx s c h u) as [s1 e1]. cbn [fst] in *.
  destruct (fx_clear_current fx); auto. eapply Good_then_frame; [exact G|]. apply view_upd_chan_same. intros; cpr.
Qed.

(* ================================================================== *)
(* the labels covered by the per-step theorem *)
Definition covered_meth (m : meth) : bool :=
  match m with
  | MConnClose | MConnCloseOk | MGet _ _ | MQDelete _ _ _ _ | MStartOk _ | MTuneOk _ | MConnOpen _ => false
  | _ => true
  end.
Definition covered (s : state) (l : label) : Prop :=
  match l with
  | LMethod c h m => (get_conn s c = None \/ conn_opened s c = true) /\ covered_meth m = true
  | LConsumerTurn _ _ _ | LQueueLoop _ | LPersistTick | LRelay | LConfirmTick _ _ | LConnect _ => True
  | _ => False
  end.

Lemma ensure_chan_some s c h cn : get_conn s c = Some cn -> exists ch, get_chan (ensure_chan s c h) c h = Some ch.
Proof.
  intros Ec. unfold ensure_chan. rewrite Ec. destruct (alookup N.eqb h (cn_chans cn)) as [ch|] eqn:Eh.
  - exists ch. unfold get_chan. rewrite Ec. exact Eh.
  - exists channel0. unfold get_chan, get_conn. cbn. rewrite (alookup_aset N.eqb Neqb_spec), N.eqb_refl. cbn.
    rewrite (alookup_aset N.eqb Neqb_spec), N.eqb_refl. reflexivity.
Qed.
Lemma ensure_chan_conn s c h cn : get_conn s c = Some cn -> exists cn', get_conn (ensure_chan s c h) c = Some cn' /\ cn_stage cn' = cn_stage cn.
Proof.
  intros Ec. unfold ensure_chan. rewrite Ec. destruct (alookup N.eqb h (cn_chans cn)); [eauto|].
  unfold get_conn. cbn. rewrite (alookup_aset N.eqb Neqb_spec), N.eqb_refl. eexists. split; reflexivity.
Qed.

Lemma Good_handle_method cfg fx s c h m ch :
  fx_stage fx = true -> fx_chan_open fx = true -> fx_closeok_releases fx = true ->
  Inv s -> conn_opened s c = true -> get_chan s c h = Some ch -> covered_meth m = true -> dispatched fx s c h m = true ->
  Good s (fst (fst (handle_method cfg fx s c h m))) (method_released fx s c h m) nil1.
Proof.
  intros F1 F2 F3 [V Hci] Hop Ech Hcov Hd.
  destruct (frame_meth m) eqn:Hf.
  { apply Good_nil_rel; [intros q; destruct m; try discriminate; reflexivity|]. apply Good_frame; auto. apply view_handle_method_frame; auto. }
  destruct m; try discriminate.
  - apply Good_channel_open; auto.
  - unfold handle_method. rewrite Ech. unfold ok. cbn [fst]. apply Good_channel_close. split; auto.
  - unfold handle_method, method_released. rewrite Ech, F3. unfold ok. cbn [fst]. apply Good_channel_close. split; auto.
  - apply Good_queue_declare; auto.
  - pose proof (Good_purge cfg fx s c h q nowait V) as G. rewrite Ech in G. exact G.
  - apply Good_consume; auto.
    + unfold dispatched in Hd. destruct (get_conn s c); [|discriminate]. rewrite F1 in Hd. cbn in Hd.
      intros ->. cbn in Hd. rewrite !andb_false_r in Hd. cbn in Hd. rewrite ?andb_false_r in Hd. discriminate.
    + intros ch0 E0. rewrite Ech in E0. inversion E0; subst ch0. unfold dispatched in Hd. destruct (get_conn s c); [|discriminate].
      rewrite F2 in Hd. unfold chan_usable in Hd. rewrite Ech in Hd. destruct (ch_status ch); cbn in *; auto.
      rewrite !andb_false_r in Hd. discriminate.
  - apply Good_cancel; auto.
  - unfold handle_method. rewrite Ech. pose proof (Good_handle_ack cfg s c h tag mult (conj V Hci)) as G.
    destruct (handle_ack cfg s c h tag mult) as [s1 e1]. exact G.
  - unfold handle_method. rewrite Ech. pose proof (Good_handle_reject cfg s c h tag mult requeue 60 120 (conj V Hci)) as G.
    destruct (handle_reject cfg s c h tag mult requeue 60 120) as [s1 e1]. exact G.
  - unfold handle_method. rewrite Ech. pose proof (Good_handle_reject cfg s c h tag false requeue 60 90 (conj V Hci)) as G.
    destruct (handle_reject cfg s c h tag false requeue 60 90) as [s1 e1]. exact G.
Qed.

Lemma method_dispatch cfg fx s c h m cn0 :
  get_conn s c = Some cn0 -> cstage_eqb (cn_stage cn0) StOpen = true ->
  match m with MConnClose | MConnCloseOk => False | _ => True end ->
  fst (step cfg fx s (LMethod c h m)) =
  if dispatched fx (ensure_chan s c h) c h m
  then fst (apply_err (ensure_chan s c h) c h (handle_method cfg fx (ensure_chan s c h) c h m)) else ensure_chan s c h.
Proof.
  intros Ec Hop Hm. cbn [step]. rewrite Ec, Hop. cbn [negb andb].
  destruct (ensure_chan_conn s c h cn0 Ec) as (cn' & Ec' & Es'). unfold dispatched. rewrite Ec', Es'.
  set (s0 := ensure_chan s c h) in *. set (X := handle_method cfg fx s0 c h m).
  assert (HX : fst (apply_err_st cfg fx true s0 c h X) = fst (apply_err s0 c h X)) by reflexivity.
  clearbody X.
  destruct m; try contradiction; cbv zeta.
  all: destruct (fx_discard_closing fx && _ && negb (is_chan_close _))%bool; [reflexivity|].
  all: destruct (fx_stage fx && negb (Bool.eqb _ _))%bool; [reflexivity|].
  all: destruct (fx_stage fx && negb (stage_allows _ _))%bool; [reflexivity|].
  all: destruct (fx_chan_open fx && negb _ && negb (chan_usable _ _ _) && negb _)%bool; [reflexivity|].
  all: exact HX.
Qed.

Lemma released_method cfg fx s c h m qid : covered_meth m = true -> conn_opened s c = true ->
  released cfg fx s (LMethod c h m) qid =
  if dispatched fx (ensure_chan s c h) c h m then method_released fx (ensure_chan s c h) c h m qid else [].
Proof. intros Hc Hop. unfold released. rewrite Hop. destruct m; try discriminate; reflexivity. Qed.

Lemma conn_opened_stage s c cn : get_conn s c = Some cn -> conn_opened s c = cstage_eqb (cn_stage cn) StOpen.
Proof. unfold conn_opened. intros ->. reflexivity. Qed.

Section Step.
Variables (cfg : config) (fx : fixes).
Hypotheses (F1 : fx_stage fx = true) (F2 : fx_chan_open fx = true) (F3 : fx_closeok_releases fx = true).

Theorem step_good_partial s l :
  Inv s -> covered s l -> Good s (fst (step cfg fx s l)) (released cfg fx s l) (placed cfg fx s l).
Proof.
  intros [V Hci] Hcov. destruct l; cbn [covered] in Hcov; try contradiction.
  - (* LConnect *) cbn [step released placed]. destruct (get_conn s c) eqn:Ec; cbn [fst]; [apply Good_frame; auto|].
    apply Good_new_conn; auto.
  - (* LMethod *)
    destruct Hcov as [Hc Hm]. destruct (get_conn s c) as [cn0|] eqn:Ec.
    2:{ cbn [step]. rewrite Ec. cbn [fst]. apply Good_nil_rel; [|apply Good_frame; auto].
        intros q. unfold released, conn_opened. rewrite Ec. reflexivity. }
    destruct Hc as [Hc|Hop]; [discriminate|].
    pose proof Hop as Hst. rewrite (conn_opened_stage _ _ _ Ec) in Hst.
    rewrite (method_dispatch cfg fx s c h m cn0 Ec Hst) by (destruct m; try discriminate; exact I).
    assert (G0 : Good s (ensure_chan s c h) nil1 nil1).
    { apply Good_ensure_chan; auto. intros cn E Hs. rewrite Ec in E. inversion E; subst. destruct (cn_stage cn); try discriminate. congruence. }
    apply (Good_ext s _ (fun q => if dispatched fx (ensure_chan s c h) c h m then method_released fx (ensure_chan s c h) c h m q else []) nil1);
      [intros q; rewrite (released_method cfg fx s c h m q Hm Hop); reflexivity|intros q; reflexivity|].
    destruct (dispatched fx (ensure_chan s c h) c h m) eqn:Hd; [|exact G0].
    apply Good_apply_err.
    destruct (ensure_chan_some s c h cn0 Ec) as (ch0 & Ech0). destruct (ensure_chan_conn s c h cn0 Ec) as (cn' & Ec' & Es').
    assert (Hop0 : conn_opened (ensure_chan s c h) c = true) by (rewrite (conn_opened_stage _ _ _ Ec'), Es'; exact Hst).
    pose proof (Good_handle_method cfg fx (ensure_chan s c h) c h m ch0 F1 F2 F3 (conj (proj1 G0) (CI_ensure_chan _ _ _ Hci)) Hop0 Ech0 Hm Hd) as G1.
    eapply Good_ext; [| |exact (Good_trans _ _ _ _ _ _ _ G0 G1)]; intros q; unfold nil1; rewrite ?app_nil_r; reflexivity.
  - (* LConsumerTurn *) cbn [step released placed]. apply Good_consumer_turn; auto.
  - (* LQueueLoop *) cbn [step released placed fst]. apply Good_frame; auto. apply view_queue_loop_turn.
  - (* LPersistTick *) cbn [step released placed fst]. apply Good_frame; auto. rewrite view_fold; [reflexivity|]. intros; apply view_store_confirm.
  - (* LRelay *) cbn [step released placed]. destruct (relay s) as [|u rest]; [apply Good_frame; auto|].
    destruct (get_msg _ u) as [m|]; cbn [fst]; [|apply Good_frame; auto].
    destruct (m_conf m) as [[[? ?] ?]|]; cbn [fst]; apply Good_frame; auto. rewrite view_add_confirm. reflexivity.
  - (* LConfirmTick *) cbn [step released placed]. destruct (get_chan s c h) as [ch|] eqn:Ech; [|apply Good_frame; auto].
    destruct (negb _); [apply Good_frame; auto|].
    destruct (ch_status ch); cbn [fst]; apply Good_frame; auto; (eapply view_set_chan_same; [eauto|cpr]).
Qed.
End Step.

(* ================================================================== *)
(* the invariant is inductive over covered labels and holds initially; runs *)
Lemma Inv_init cfg : Inv (init cfg).
Proof.
  split; [|apply CI_init]. unfold VI. cbn. constructor; cbn; try (intros; contradiction); constructor.
Qed.

Theorem Inv_step_partial cfg fx s l :
  fx_stage fx = true -> fx_chan_open fx = true -> fx_closeok_releases fx = true ->
  Inv s -> covered s l -> Inv (fst (step cfg fx s l)).
Proof. intros F1 F2 F3 I C. split; [exact (proj1 (step_good_partial cfg fx F1 F2 F3 s l I C))|apply CI_step; exact (proj2 I)]. Qed.

Theorem step_conserves_partial cfg fx s l qid :
  fx_stage fx = true -> fx_chan_open fx = true -> fx_closeok_releases fx = true ->
  Inv s -> covered s l ->
  Permutation (held (fst (step cfg fx s l)) qid ++ released cfg fx s l qid) (held s qid ++ placed cfg fx s l qid).
Proof. intros F1 F2 F3 I C. exact (proj2 (step_good_partial cfg fx F1 F2 F3 s l I C) qid). Qed.

Fixpoint all_released cfg fx s ls qid : list N :=
  match ls with [] => [] | l :: t => released cfg fx s l qid ++ all_released cfg fx (fst (step cfg fx s l)) t qid end.
Fixpoint all_placed cfg fx s ls qid : list N :=
  match ls with [] => [] | l :: t => placed cfg fx s l qid ++ all_placed cfg fx (fst (step cfg fx s l)) t qid end.
Fixpoint all_covered cfg fx s ls : Prop :=
  match ls with [] => True | l :: t => covered s l /\ all_covered cfg fx (fst (step cfg fx s l)) t end.

Theorem run_conserves_from cfg fx ls : forall s qid,
  fx_stage fx = true -> fx_chan_open fx = true -> fx_closeok_releases fx = true ->
  Inv s -> all_covered cfg fx s ls ->
  Permutation (held (fst (run cfg fx s ls)) qid ++ all_released cfg fx s ls qid) (held s qid ++ all_placed cfg fx s ls qid).
Proof.
  induction ls as [|l t IH]; intros s qid F1 F2 F3 I C; cbn [run all_released all_placed fst].
  - reflexivity.
  - destruct C as [C1 C2]. pose proof (step_conserves_partial cfg fx s l qid F1 F2 F3 I C1) as H1.
    pose proof (Inv_step_partial cfg fx s l F1 F2 F3 I C1) as I1.
    specialize (IH (fst (step cfg fx s l)) qid F1 F2 F3 I1 C2).
    destruct (step cfg fx s l) as [s1 e1]. cbn [fst] in *. destruct (run cfg fx s1 t) as [s2 e2]. cbn [fst] in *. perm_lia.
Qed.

Theorem run_conserves_partial cfg fx ls qid :
  fx_stage fx = true -> fx_chan_open fx = true -> fx_closeok_releases fx = true ->
  all_covered cfg fx (init cfg) ls ->
  Permutation (held (fst (run cfg fx (init cfg) ls)) qid ++ all_released cfg fx (init cfg) ls qid) (all_placed cfg fx (init cfg) ls qid).
Proof. intros F1 F2 F3 C. exact (run_conserves_from cfg fx ls (init cfg) qid F1 F2 F3 (Inv_init cfg) C). Qed.

Corollary nothing_vanishes_in_between_partial cfg fx s l qid u :
  fx_stage fx = true -> fx_chan_open fx = true -> fx_closeok_releases fx = true ->
  Inv s -> covered s l -> released cfg fx s l qid = [] ->
  In u (held s qid) -> In u (held (fst (step cfg fx s l)) qid).
Proof.
  intros F1 F2 F3 I C Hr Hin. pose proof (step_conserves_partial cfg fx s l qid F1 F2 F3 I C) as H. rewrite Hr, app_nil_r in H.
  eapply Permutation_in; [symmetry; exact H|]. apply in_or_app. auto.
Qed.

(* labels that release nothing, syntactically *)
Definition settling_meth (m : meth) : bool :=
  match m with
  | MAck _ _ | MNack _ _ false | MReject _ false | MGet _ true | MQPurge _ _ | MQDelete _ _ _ _
  | MChannelClose | MChannelCloseOk | MNack _ _ true | MReject _ true | MConnClose | MConnCloseOk => true
  | _ => false
  end.
Lemma released_nil_method cfg fx s c h m qid : settling_meth m = false -> released cfg fx s (LMethod c h m) qid = [].
Proof.
  intros H. unfold released. destruct (conn_opened s c); [|reflexivity].
  destruct m; try discriminate; try (destruct (dispatched _ _ _ _ _); reflexivity).
  all: try (destruct requeue; discriminate).
  all: destruct noack; [discriminate|]; destruct (dispatched _ _ _ _ _); reflexivity.
Qed.
Lemma queue_alive_ensure s c h qid : queue_alive (ensure_chan s c h) qid = queue_alive s qid.
Proof. unfold queue_alive. rewrite queues_ensure_chan. reflexivity. Qed.
Lemma released_nil_requeue cfg fx s c h tag mult qid : queue_alive s qid = true ->
  released cfg fx s (LMethod c h (MNack tag mult true)) qid = [] /\ released cfg fx s (LMethod c h (MReject tag true)) qid = [] /\
  released cfg fx s (LMethod c h MChannelClose) qid = [].
Proof.
  intros Ha. unfold released. destruct (conn_opened s c); [|auto].
  repeat split; destruct (dispatched _ _ _ _ _); auto; unfold method_released, close_released; rewrite queue_alive_ensure, Ha; cbn; rewrite ?andb_false_r; reflexivity.
Qed.
Lemma released_nil_internal cfg fx s l qid :
  match l with LQueueLoop _ | LPersistTick | LRelay | LConfirmTick _ _ | LConnect _ | LAccept _ | LBadMethod _ _ | LHeader _ _ _ _ _ | LBody _ _ _ => True | _ => False end ->
  released cfg fx s l qid = [].
Proof. destruct l; try contradiction; reflexivity. Qed.
