(* C01, conservation: per queue object, published-and-routed = settled + purged + deleted + still held,
   as multisets of message identities, for every label of the broker LTS and along every run. *)
From Coq Require Import List String NArith ZArith Bool Lia ZifyBool ZifyN Permutation.
From RecordUpdate Require Import RecordUpdate.
Import ListNotations.
From GMQ Require Import Broker.Model Proofs.BrokerFrames Proofs.BrokerTags Proofs.BrokerChanInv Proofs.BrokerQueueInv
  Proofs.BrokerReady Proofs.BrokerRelease Proofs.BrokerRestart Proofs.BrokerHeld Proofs.BrokerConserveView Proofs.BrokerConserveOps.
Open Scope N_scope.

(* ================================================================== *)
(* What a step places into / releases from the queue object qid: functions of the pre-state and the label. *)

(* the deliveries a basic.ack / nack / reject names: one tag, or every outstanding tag up to it *)
Definition covers (tag : N) (mult : bool) (l : list unacked) : list unacked :=
  if mult then filter (covered tag) l
  else match find (fun u => u_tag u =? tag) l with Some u => [u] | None => [] end.

(* closing channel (c,h) puts its deliveries back; those whose queue object is gone are dropped *)
Definition close_released (s : state) (c h qid : N) : list N :=
  if (0 <? h) && negb (queue_alive s qid) then msgs_from qid (U s c h) else [].

(* ending connection c: its channels close, its exclusive queues are deleted.  For a queue object that is gone, or is
   an exclusive queue of c, everything waiting and everything c had out is released; otherwise nothing is *)
Definition owned_by (c qid : N) (kq : string * queue) : bool :=
  q_excl (snd kq) && (q_owner (snd kq) =? c) && (q_id (snd kq) =? qid).
Definition conn_released (s : state) (c qid : N) : list N :=
  match get_conn s c with
  | None => []
  | Some cn =>
    if negb (queue_alive s qid) || existsb (owned_by c qid) (queues s)
    then ready_of s qid ++ msgs_from qid (chan_unacked_all cn) else []
  end.

Definition delete_refused (qu : queue) (ifunused ifempty : bool) : bool :=
  (ifunused && negb (Nat.eqb (List.length (q_consumers qu)) 0)) || (ifempty && negb (Nat.eqb (List.length (q_ready qu)) 0)).

(* the waiting messages of queue q, if q is the queue object qid *)
Definition ready_if (qu : queue) (qid : N) : list N := if q_id qu =? qid then q_ready qu else [].
Definition head_if (qu : queue) (qid : N) : list N := if q_id qu =? qid then firstn 1 (q_ready qu) else [].

Definition method_released (fx : fixes) (s : state) (c h : N) (m : meth) (qid : N) : list N :=
  match m with
  | MAck tag mult => msgs_from qid (covers tag mult (U s c h))
  | MNack tag mult requeue => if requeue && queue_alive s qid then [] else msgs_from qid (covers tag mult (U s c h))
  | MReject tag requeue => if requeue && queue_alive s qid then [] else msgs_from qid (covers tag false (U s c h))
  | MGet q true =>
    match queue_found s q with
    | Some qu => if fx_excl_owner fx && locked qu c then [] else head_if qu qid
    | None => []
    end
  | MQPurge q _ =>
    match queue_found s q with
    | Some qu => if locked qu c then [] else ready_if qu qid
    | None => []
    end
  | MQDelete q ifunused ifempty _ =>
    match queue_found s q with
    | Some qu => if locked qu c || delete_refused qu ifunused ifempty then [] else ready_if qu qid
    | None => []
    end
  | MChannelClose => close_released s c h qid
  | MChannelCloseOk => if fx_closeok_releases fx then close_released s c h qid else []
  | _ => []
  end.

(* the checks of the frame dispatcher (step, LMethod) that come before the method handler *)
Definition dispatched (fx : fixes) (s : state) (c h : N) (m : meth) : bool :=
  match get_conn s c with
  | None => false
  | Some cn =>
    let closing := match get_chan s c h with Some ch => match ch_status ch with ChClosing => true | _ => false end | None => false end in
    negb (fx_discard_closing fx && closing && negb (is_chan_close m)) &&
    negb (fx_stage fx && negb (Bool.eqb (is_conn_class m) (h =? 0))) &&
    negb (fx_stage fx && negb (stage_allows (cn_stage cn) m)) &&
    negb (fx_chan_open fx && negb (is_conn_class m) && negb (chan_usable s c h) && negb (match m with MChannelOpen => true | _ => false end))
  end.

(* a consumer turn delivers the head of its queue; in no-ack mode the message is settled by the delivery *)
Definition turn_released (s : state) (c h : N) (tag : string) (qid : N) : list N :=
  match get_chan s c h with
  | None => []
  | Some ch =>
    match find_consumer ch tag with
    | None => []
    | Some cm =>
      if c_token cm && c_noack cm && negb (match c_status cm with CStopped => true | _ => false end)
      then match queue_found s (c_queue cm) with Some qu => head_if qu qid | None => [] end
      else []
    end
  end.

(* the auto-delete turn takes the first name of the list; the queue of that name is deleted - and what waits there
   released - only if it is (still) an auto-delete queue and the delete is not refused by if-unused (it has no consumer);
   a name whose queue is gone, is not auto-delete, or has consumers again is dropped and nothing is released *)
Definition autodelete_released (s : state) (qid : N) : list N :=
  match autodel s with
  | [] => []
  | qn :: _ =>
    match get_queue s qn with
    | Some qu => if q_autodel qu && negb (delete_refused qu true false) then ready_if qu qid else []
    | None => []
    end
  end.

Definition released (cfg : config) (fx : fixes) (s : state) (l : label) (qid : N) : list N :=
  match l with
  | LMethod c h m =>
    if conn_opened s c then
      let s0 := ensure_chan s c h in
      match m with
      | MConnClose | MConnCloseOk => if fx_stage fx && negb (h =? 0) then [] else conn_released s0 c qid
      | _ => if dispatched fx s0 c h m then method_released fx s0 c h m qid else []
      end
    else []
  | LConsumerTurn c h tag => turn_released s c h tag qid
  | LAutoDelete => autodelete_released s qid
  | LSocketLoss c => conn_released s c qid
  | LHeartbeat c h => if h =? 0 then [] else conn_released s c qid
  | LRestart => held s qid
  | _ => []
  end.

(* routing of the complete message u: once into every matched queue *)
Definition routed (fx : fixes) (s : state) (u : N) (qid : N) : list N :=
  match get_msg s u with
  | None => []
  | Some m =>
    match alookup seqb (m_ex m) (exchanges s) with
    | None => []
    | Some ex =>
      flat_map (fun qn => match get_queue s qn with Some qu => if q_id qu =? qid then [u] else [] | None => [] end)
               (matched_queues (negb (fx_direct_all fx)) ex (m_key m))
    end
  end.

(* the content frame is accepted for the message being assembled on channel (c,h) *)
Definition current (fx : fixes) (s : state) (c h : N) : option (N * msg) :=
  match get_conn s c with
  | None => None
  | Some cn =>
    if negb (cstage_eqb (cn_stage cn) StOpen) && negb (h =? 0) then None else
    match get_chan s c h with
    | None => None
    | Some ch =>
      if fx_discard_closing fx && (match ch_status ch with ChClosing => true | _ => false end) then None else
      match ch_cur ch with
      | None => None
      | Some u => match get_msg s u with Some m => Some (u, m) | None => None end
      end
    end
  end.

(* what a restart recovers from the store *)
Definition recovered (s : state) (qid : N) : list N :=
  flat_map (fun kq => if q_durable (snd kq) && (q_id (snd kq) =? qid) then stored_of s (fst kq) else []) (queues s).

Definition placed (cfg : config) (fx : fixes) (s : state) (l : label) (qid : N) : list N :=
  match l with
  | LHeader c h mid size pers =>
    match current fx s c h with
    | Some (u, m) => if negb (m_has_header m) && fx_empty_body fx && (size =? 0) then routed fx s u qid else []
    | None => []
    end
  | LBody c h len =>
    match current fx s c h with
    | Some (u, m) => if m_has_header m && negb (m_hsize m <? m_size m + len) && negb (m_size m + len <? m_hsize m)
                     then routed fx s u qid else []
    | None => []
    end
  | LRestart => recovered s qid
  | _ => []
  end.

(* ================================================================== *)
(* invariants *)
Definition VI (s : state) : Prop := VInv (cv s) (qv s) (next_qid s).
Definition Inv (s : state) : Prop := VI s /\ CI s.

(* s' is a good successor of s: the view invariant holds again, and per queue object held' + rel = held + pl *)
Definition Good (s s' : state) (rel pl : N -> list N) : Prop :=
  VI s' /\ forall qid, Permutation (held s' qid ++ rel qid) (held s qid ++ pl qid).
Definition nil1 : N -> list N := fun _ => [].

Lemma VI_view s s' : view s' = view s -> VI s -> VI s'.
Proof. intros H. apply view_inv in H. destruct H as (A & B & C). unfold VI. rewrite A, B, C. auto. Qed.

Lemma Good_frame s s' : view s' = view s -> VI s -> Good s s' nil1 nil1.
Proof. intros H Hi. split; [eapply VI_view; eauto|]. intros qid. rewrite (held_same_view _ _ _ H). reflexivity. Qed.

Lemma Good_trans s s1 s2 r1 p1 r2 p2 :
  Good s s1 r1 p1 -> Good s1 s2 r2 p2 -> Good s s2 (fun q => r2 q ++ r1 q) (fun q => p1 q ++ p2 q).
Proof.
  intros [_ H1] [I2 H2]. split; auto. intros qid. specialize (H1 qid). specialize (H2 qid).
  transitivity ((held s2 qid ++ r2 qid) ++ r1 qid); [rewrite app_assoc; reflexivity|].
  rewrite H2. transitivity (p2 qid ++ (held s1 qid ++ r1 qid)).
  { rewrite <- app_assoc. apply Permutation_app_swap_app. }
  rewrite H1. rewrite Permutation_app_comm. rewrite <- app_assoc. reflexivity.
Qed.
Lemma Good_ext s s' r p r' p' : (forall q, Permutation (r q) (r' q)) -> (forall q, Permutation (p q) (p' q)) -> Good s s' r p -> Good s s' r' p'.
Proof. intros Hr Hp [I H]. split; auto. intros qid. rewrite <- Hr, <- Hp. apply H. Qed.
Lemma Good_then_frame s s1 s2 r p : Good s s1 r p -> view s2 = view s1 -> Good s s2 r p.
Proof.
  intros H E. pose proof (Good_trans _ _ _ _ _ _ _ H (Good_frame _ _ E (proj1 H))) as G.
  eapply Good_ext; [| |exact G]; intros q; unfold nil1; cbn; rewrite ?app_nil_r; reflexivity.
Qed.
Lemma Good_frame_then s s1 s2 r p : view s1 = view s -> VI s -> Good s1 s2 r p -> Good s s2 r p.
Proof.
  intros E Hi H. pose proof (Good_trans _ _ _ _ _ _ _ (Good_frame _ _ E Hi) H) as G.
  eapply Good_ext; [| |exact G]; intros q; unfold nil1; cbn; rewrite ?app_nil_r; reflexivity.
Qed.

Lemma Good_of_views s s' (r p : N -> list N) :
  VI s' ->
  (forall qid, Permutation (rdy (qv s') qid ++ una (cv s') qid ++ r qid) (rdy (qv s) qid ++ una (cv s) qid ++ p qid)) ->
  Good s s' r p.
Proof. intros I H. split; auto. intros qid. rewrite !held_view. rewrite <- !app_assoc. apply H. Qed.

Definition cflags (ch : channel) : bool * bool := (is_closed (ch_status ch), has_cons (ch_consumers ch)).
Lemma cv_get_chan s c h ch : get_chan s c h = Some ch -> cv_get (cv s) c h = Some (cflags ch, ch_unacked ch).
Proof. intros H. rewrite cv_get_cv, H. reflexivity. Qed.
Lemma U_get s c h ch : get_chan s c h = Some ch -> U s c h = ch_unacked ch.
Proof. unfold U. intros ->. reflexivity. Qed.

(* ================================================================== *)
(* ack / nack / reject *)
Lemma view_fold_dec_qv cfg c h sel s : qv (fold_left (fun s u => dec_qos_and_consume_next cfg s c h u) sel s) = qv s.
Proof. destruct (view_inv _ _ (view_fold_dec cfg c h sel s)) as (_ & B & _). exact B. Qed.
Lemma view_fold_dec_nq cfg c h sel s : next_qid (fold_left (fun s u => dec_qos_and_consume_next cfg s c h u) sel s) = next_qid s.
Proof. destruct (view_inv _ _ (view_fold_dec cfg c h sel s)) as (_ & _ & C). exact C. Qed.
Lemma view_fold_dec_cv cfg c h sel s : cv (fold_left (fun s u => dec_qos_and_consume_next cfg s c h u) sel s) = cv s.
Proof. destruct (view_inv _ _ (view_fold_dec cfg c h sel s)) as (A & _ & _). exact A. Qed.
Lemma cv_del_upd s c h t : cv (upd_chan s c h (fun ch => del_unacked ch t)) = cv_del c h t (cv s).
Proof.
  rewrite cv_upd_chan. unfold cv_del. rewrite cv_get_cv. destruct (get_chan s c h) as [ch|]; reflexivity.
Qed.

Lemma ack_fold_view c h sel : forall s,
  let s' := fold_left (fun s u => chan_ackmsg (upd_chan s c h (fun ch => del_unacked ch (u_tag u))) u) sel s in
  cv s' = fold_left (fun v u => cv_del c h (u_tag u) v) sel (cv s) /\ qv s' = qv s /\ next_qid s' = next_qid s.
Proof.
  induction sel as [|u t IH]; intros s; cbn [fold_left]; auto.
  destruct (IH (chan_ackmsg (upd_chan s c h (fun ch => del_unacked ch (u_tag u))) u)) as (A & B & C).
  destruct (view_inv _ _ (view_chan_ackmsg (upd_chan s c h (fun ch => del_unacked ch (u_tag u))) u)) as (A1 & B1 & C1).
  cbv zeta. rewrite A, B, C, A1, B1, C1. rewrite cv_del_upd, qv_upd_chan, next_qid_upd_chan. auto.
Qed.

Lemma qv_chan_rejectmsg s u rqf : qv (chan_rejectmsg s u rqf) = if rqf then rq u (qv s) else qv s.
Proof.
  unfold chan_rejectmsg, origin_queue, rq. rewrite qv_get. destruct (get_queue s (u_queue u)) as [qu|] eqn:Eq; cbn.
  - change (p_id (qproj qu)) with (q_id qu). destruct (q_id qu =? u_qid u).
    + destruct rqf.
      * rewrite qv_queue_requeue. unfold qv_upd. rewrite qv_get, Eq. reflexivity.
      * destruct (view_inv _ _ (view_queue_ackmsg s (u_queue u) (u_msg u))) as (_ & B & _). exact B.
    + destruct rqf; reflexivity.
  - destruct rqf; reflexivity.
Qed.
Lemma cv_chan_rejectmsg s u rqf : cv (chan_rejectmsg s u rqf) = cv s.
Proof.
  unfold chan_rejectmsg. destruct (origin_queue s u); [|reflexivity]. destruct rqf; [apply cv_queue_requeue|].
  destruct (view_inv _ _ (view_queue_ackmsg s (u_queue u) (u_msg u))) as (A & _ & _). exact A.
Qed.
Lemma next_qid_chan_rejectmsg s u rqf : next_qid (chan_rejectmsg s u rqf) = next_qid s.
Proof.
  unfold chan_rejectmsg. destruct (origin_queue s u); [|reflexivity]. destruct rqf; [apply next_qid_queue_requeue|].
  destruct (view_inv _ _ (view_queue_ackmsg s (u_queue u) (u_msg u))) as (_ & _ & C). exact C.
Qed.

Lemma reject_fold_view c h rqf sel : forall s,
  let s' := fold_left (fun s u => chan_rejectmsg (upd_chan s c h (fun ch => del_unacked ch (u_tag u))) u rqf) sel s in
  cv s' = fold_left (fun v u => cv_del c h (u_tag u) v) sel (cv s) /\
  qv s' = (if rqf then fold_left (fun v u => rq u v) sel (qv s) else qv s) /\ next_qid s' = next_qid s.
Proof.
  induction sel as [|u t IH]; intros s; cbn [fold_left]; [destruct rqf; auto|].
  destruct (IH (chan_rejectmsg (upd_chan s c h (fun ch => del_unacked ch (u_tag u))) u rqf)) as (A & B & C).
  cbv zeta. rewrite A, B, C. rewrite cv_chan_rejectmsg, qv_chan_rejectmsg, next_qid_chan_rejectmsg.
  rewrite cv_del_upd, qv_upd_chan, next_qid_upd_chan. destruct rqf; auto.
Qed.

(* the part of the unsettled list an ack / nack / reject leaves *)
Lemma covers_split tag (mult : bool) l : NoDup (map u_tag l) ->
  let keep := if mult then filter (fun u => negb (covered tag u)) l
              else match find (fun u => u_tag u =? tag) l with Some _ => filter (fun x => negb (u_tag x =? tag)) l | None => l end in
  Permutation l (keep ++ covers tag mult l) /\ incl keep l.
Proof.
  intros Hnd. unfold covers. destruct mult.
  - split; [rewrite Permutation_app_comm; apply perm_filter_split|]. intros x Hx. apply filter_In in Hx. tauto.
  - destruct (find (fun u => u_tag u =? tag) l) as [u|] eqn:Ef.
    + split; [|intros x Hx; apply filter_In in Hx; tauto].
      assert (E : filter (fun x => u_tag x =? tag) l = [u]).
      { clear -Hnd Ef. induction l as [|a t IH]; cbn in *; [discriminate|]. inversion Hnd as [|? ? Hni Hnd']; subst.
        destruct (u_tag a =? tag) eqn:E.
        - inversion Ef; subst. f_equal. apply N.eqb_eq in E.
          clear -Hni E. induction t as [|b r IHr]; cbn in *; auto. destruct (u_tag b =? tag) eqn:E2.
          + apply N.eqb_eq in E2. exfalso. apply Hni. left. congruence.
          + apply IHr. tauto.
        - apply IH; auto. }
      rewrite <- E. rewrite (perm_filter_split (fun x => u_tag x =? tag) l) at 1. apply Permutation_app_comm.
    + split; [rewrite app_nil_r; reflexivity|apply incl_refl].
Qed.

(* the unsettled list of channel (c,h) shrinks to [keep]; the deliveries [sel] that leave it are put back (if their queue
   object still exists) or not *)
Lemma incl_nil_eq {A} (l : list A) : incl l [] -> l = [].
Proof. destruct l; auto. intros H. destruct (H a (or_introl eq_refl)). Qed.

(* the unsettled list shrinks; the flags either stay, or the new flags are fine for the new list *)
Lemma VI_shrink s c h ch keep b cw' :
  VI s -> get_chan s c h = Some ch -> incl keep (ch_unacked ch) ->
  (b = cflags ch \/ (h = 0 \/ fst b = true -> keep = [] /\ snd b = false)) ->
  cw' = cv_set c h (b, keep) (cv s) -> VInv cw' (qv s) (next_qid s).
Proof.
  intros V Hg Hin Hb ->. pose proof (cv_get_chan _ _ _ _ Hg) as Hcg.
  eapply VInv_cv_set; eauto.
  - intros u Hu. apply (vi_uq _ _ _ V). eapply cv_get_au; eauto.
  - destruct Hb as [->|Hb]; auto. intros H0. destruct (cv_get_in _ _ _ _ Hcg) as (st & chs & H1 & H2).
    destruct (vi_cz _ _ _ V _ _ _ _ _ _ H1 H2 H0) as [Hz Hz2]. split; auto. apply incl_nil_eq. rewrite <- Hz. exact Hin.
Qed.

Lemma Good_settle s s' c h ch keep sel (rqf : bool) :
  VI s -> get_chan s c h = Some ch ->
  cv s' = cv_set c h (cflags ch, keep) (cv s) ->
  qv s' = (if rqf then fold_left (fun v u => rq u v) sel (qv s) else qv s) -> next_qid s' = next_qid s ->
  Permutation (ch_unacked ch) (keep ++ sel) -> incl keep (ch_unacked ch) ->
  Good s s' (fun qid => if rqf && queue_alive s qid then [] else msgs_from qid sel) nil1.
Proof.
  intros V Hg Ec Eq En Hp Hin. pose proof (cv_get_chan _ _ _ _ Hg) as Hcg.
  assert (V1 : VInv (cv s') (qv s) (next_qid s)).
  { eapply VI_shrink; eauto. }
  apply Good_of_views.
  - unfold VI. rewrite En, Eq. destruct rqf; auto. eapply VInv_qshape; [apply qshape_rq_fold|exact V1].
  - intros qid. unfold nil1.
    assert (Hu : Permutation (una (cv s) qid ++ []) (una (cv s') qid ++ msgs_from qid sel)).
    { rewrite Ec. eapply una_set_perm; eauto. rewrite app_nil_r, <- msgs_from_app. apply msgs_from_perm. exact Hp. }
    rewrite queue_alive_qv. destruct rqf; cbn [andb].
    + assert (Hr := rdy_rq_fold sel qid (qv s) (vi_active _ _ _ V)). rewrite <- Eq in Hr.
      rewrite (msgs_from_origin (cv s) (qv s) (next_qid s)) in Hr; auto.
      2:{ intros u Hu'. eapply cv_get_au; eauto. eapply Permutation_in; [symmetry; exact Hp|]. apply in_or_app. auto. }
      destruct (alive (qv s) qid); perm_lia.
    + rewrite Eq. perm_lia.
Qed.

Lemma covered_eq tag l : filter (fun u => (tag =? 0) || (u_tag u <=? tag)) l = filter (covered tag) l.
Proof. reflexivity. Qed.

Lemma covers_nil tag mult : covers tag mult [] = [].
Proof. destruct mult; reflexivity. Qed.

Lemma Good_nil_rel s s' (r : N -> list N) : (forall q, r q = []) -> Good s s' nil1 nil1 -> Good s s' r nil1.
Proof. intros H G. eapply Good_ext; [| |exact G]; intros q; unfold nil1; rewrite ?H; reflexivity. Qed.

Lemma Good_handle_ack cfg s c h tag mult :
  Inv s -> Good s (fst (handle_ack cfg s c h tag mult)) (fun qid => msgs_from qid (covers tag mult (U s c h))) nil1.
Proof.
  intros [V Hci]. unfold handle_ack, U. destruct (get_chan s c h) as [ch|] eqn:Ech.
  2:{ apply Good_nil_rel; [intros; rewrite covers_nil; reflexivity|]. apply Good_frame; auto. }
  pose proof (Hci _ _ _ Ech) as [Hnd _]. destruct (covers_split tag mult _ Hnd) as [Hp Hin].
  pose proof (cv_get_chan _ _ _ _ Ech) as Hcg.
  apply (Good_settle s _ c h ch _ (covers tag mult (ch_unacked ch)) false V Ech) with (4 := Hp) (5 := Hin).
  - destruct mult.
    + cbn [fst]. destruct (view_inv _ _ (view_fold_dec cfg c h (filter (fun u => (tag =? 0) || (u_tag u <=? tag)) (ch_unacked ch))
         (fold_left (fun s u => chan_ackmsg (upd_chan s c h (fun ch => del_unacked ch (u_tag u))) u)
                    (filter (fun u => (tag =? 0) || (u_tag u <=? tag)) (ch_unacked ch)) s))) as (A & _ & _).
      rewrite A. destruct (ack_fold_view c h (filter (fun u => (tag =? 0) || (u_tag u <=? tag)) (ch_unacked ch)) s) as (A1 & _ & _).
      rewrite A1. rewrite (cv_del_fold _ _ _ _ _ _ Hcg). rewrite covered_eq. rewrite (keep_not_selected (covered tag)) by exact Hnd. reflexivity.
    + destruct (find _ (ch_unacked ch)) as [u|] eqn:Ef; cbn [fst].
      * destruct (view_inv _ _ (view_dec_qos cfg (chan_ackmsg (upd_chan s c h (fun ch => del_unacked ch tag)) u) c h u)) as (A & _ & _).
        rewrite A. destruct (view_inv _ _ (view_chan_ackmsg (upd_chan s c h (fun ch => del_unacked ch tag)) u)) as (A1 & _ & _).
        rewrite A1, cv_del_upd. unfold cv_del. rewrite Hcg. reflexivity.
      * symmetry. apply cv_set_same. exact Hcg.
  - destruct mult.
    + cbn [fst]. rewrite view_fold_dec_qv. destruct (ack_fold_view c h (filter (fun u => (tag =? 0) || (u_tag u <=? tag)) (ch_unacked ch)) s) as (_ & B & _). exact B.
    + destruct (find _ (ch_unacked ch)) as [u|]; cbn [fst]; auto.
      destruct (view_inv _ _ (view_dec_qos cfg (chan_ackmsg (upd_chan s c h (fun ch => del_unacked ch tag)) u) c h u)) as (_ & B & _).
      rewrite B. destruct (view_inv _ _ (view_chan_ackmsg (upd_chan s c h (fun ch => del_unacked ch tag)) u)) as (_ & B1 & _).
      rewrite B1. apply qv_upd_chan.
  - destruct mult.
    + cbn [fst]. rewrite view_fold_dec_nq. destruct (ack_fold_view c h (filter (fun u => (tag =? 0) || (u_tag u <=? tag)) (ch_unacked ch)) s) as (_ & _ & C). exact C.
    + destruct (find _ (ch_unacked ch)) as [u|]; cbn [fst]; auto.
      destruct (view_inv _ _ (view_dec_qos cfg (chan_ackmsg (upd_chan s c h (fun ch => del_unacked ch tag)) u) c h u)) as (_ & _ & C).
      rewrite C. destruct (view_inv _ _ (view_chan_ackmsg (upd_chan s c h (fun ch => del_unacked ch tag)) u)) as (_ & _ & C1).
      rewrite C1. apply next_qid_upd_chan.
Qed.

Lemma perm_filter {A} (p : A -> bool) l l' : Permutation l l' -> Permutation (filter p l) (filter p l').
Proof.
  intros H. induction H; cbn; auto.
  - destruct (p x); auto.
  - destruct (p x), (p y); auto. constructor.
  - etransitivity; eauto.
Qed.

Lemma Good_handle_reject cfg s c h tag mult rqf cls mth :
  Inv s ->
  Good s (fst (handle_reject cfg s c h tag mult rqf cls mth))
       (fun qid => if rqf && queue_alive s qid then [] else msgs_from qid (covers tag mult (U s c h))) nil1.
Proof.
  intros [V Hci]. unfold handle_reject, U. destruct (get_chan s c h) as [ch|] eqn:Ech.
  2:{ apply Good_nil_rel; [intros; rewrite covers_nil; destruct (_ && _); reflexivity|]. apply Good_frame; auto. }
  pose proof (Hci _ _ _ Ech) as [Hnd _]. destruct (covers_split tag mult _ Hnd) as [Hp Hin].
  pose proof (cv_get_chan _ _ _ _ Ech) as Hcg.
  destruct mult.
  - cbn [fst]. set (sel := filter (fun u => (tag =? 0) || (u_tag u <=? tag)) (sort_desc (ch_unacked ch))).
    assert (Hsel : Permutation sel (covers tag true (ch_unacked ch))).
    { subst sel. unfold covers. rewrite covered_eq. apply perm_filter. apply sort_desc_permutation. }
    eapply Good_ext; [| intros q; reflexivity |].
    { intros q. instantiate (1 := fun q => if rqf && queue_alive s q then [] else msgs_from q sel). cbv beta.
      destruct (rqf && queue_alive s q); [reflexivity|]. apply msgs_from_perm. exact Hsel. }
    destruct (reject_fold_view c h rqf sel s) as (A & B & C).
    eapply (Good_settle s _ c h ch _ sel rqf V Ech).
    + rewrite view_fold_dec_cv, A. rewrite (cv_del_fold _ _ _ _ _ _ Hcg).
      replace (keep_not (map u_tag sel) (ch_unacked ch)) with (filter (fun u => negb (covered tag u)) (ch_unacked ch)); [reflexivity|].
      rewrite <- (keep_not_selected (covered tag)) by exact Hnd. apply keep_not_ext. intros t. subst sel. rewrite !in_map_iff.
      split; intros (u & Et & Hu); exists u; split; auto; apply filter_In in Hu; apply filter_In; destruct Hu as [Hu Hpu];
        (split; [apply sort_desc_perm; auto|exact Hpu]).
    + rewrite view_fold_dec_qv. exact B.
    + rewrite view_fold_dec_nq. exact C.
    + rewrite Hsel. exact Hp.
    + exact Hin.
  - destruct (find _ (ch_unacked ch)) as [u|] eqn:Ef; cbn [fst].
    + unfold covers in *. rewrite Ef in *.
      eapply (Good_settle s _ c h ch _ [u] rqf V Ech); [| | |exact Hp|exact Hin].
      * destruct (view_inv _ _ (view_dec_qos cfg (chan_rejectmsg (upd_chan s c h (fun ch => del_unacked ch tag)) u rqf) c h u)) as (A & _ & _).
        rewrite A, cv_chan_rejectmsg, cv_del_upd. unfold cv_del. rewrite Hcg. reflexivity.
      * destruct (view_inv _ _ (view_dec_qos cfg (chan_rejectmsg (upd_chan s c h (fun ch => del_unacked ch tag)) u rqf) c h u)) as (_ & B & _).
        rewrite B, qv_chan_rejectmsg, qv_upd_chan. destruct rqf; reflexivity.
      * destruct (view_inv _ _ (view_dec_qos cfg (chan_rejectmsg (upd_chan s c h (fun ch => del_unacked ch tag)) u rqf) c h u)) as (_ & _ & C).
        rewrite C, next_qid_chan_rejectmsg. apply next_qid_upd_chan.
    + apply Good_nil_rel; [|apply Good_frame; auto]. intros q. unfold covers. rewrite Ef. destruct (_ && _); reflexivity.
Qed.

(* ================================================================== *)
(* channel close *)
Lemma U_view s s' c h : cv s' = cv s -> U s' c h = U s c h.
Proof.
  intros E. pose proof (get_chan_proj s s' c h E) as H. unfold U.
  destruct (get_chan s' c h), (get_chan s c h); cbn in H; try discriminate; auto. inversion H. auto.
Qed.
Lemma alive_view s s' qid : qv s' = qv s -> queue_alive s' qid = queue_alive s qid.
Proof. intros E. rewrite !queue_alive_qv, E. reflexivity. Qed.

(* a change of the status of channel (c,h); if the channel becomes closed it must hold nothing *)
(* an update of channel (c,h) that keeps its unsettled list *)
Lemma Good_set_flags s c h ch ch' :
  VI s -> get_chan s c h = Some ch -> ch_unacked ch' = ch_unacked ch ->
  (cflags ch' = cflags ch \/ (h = 0 \/ is_closed (ch_status ch') = true -> ch_unacked ch = [] /\ ch_consumers ch' = [])) ->
  Good s (set_chan s c h ch') nil1 nil1.
Proof.
  intros V Ech Eu Hc. pose proof (cv_get_chan _ _ _ _ Ech) as Hcg.
  assert (Ec : cv (set_chan s c h ch') = cv_set c h (cflags ch', ch_unacked ch) (cv s)).
  { rewrite cv_set_chan. unfold cproj. rewrite Eu. reflexivity. }
  apply Good_of_views.
  - unfold VI. rewrite Ec, qv_set_chan, next_qid_set_chan.
    apply (VI_shrink s c h ch (ch_unacked ch) (cflags ch') _ V Ech (incl_refl _)); [|reflexivity].
    destruct Hc as [Hc|Hc]; [left; exact Hc|right]. intros H0. destruct (Hc H0) as [A B]. split; auto. cbn. rewrite B. reflexivity.
  - intros qid. rewrite qv_set_chan, Ec. unfold nil1.
    assert (Hu : Permutation (una (cv s) qid ++ []) (una (cv_set c h (cflags ch', ch_unacked ch) (cv s)) qid ++ [])).
    { eapply una_set_perm; eauto. }
    perm_lia.
Qed.
Lemma Good_set_status s c h st :
  VI s -> (is_closed st = true -> forall ch, get_chan s c h = Some ch -> ch_unacked ch = [] /\ ch_consumers ch = []) ->
  Good s (upd_chan s c h (fun ch => ch <| ch_status := st |>)) nil1 nil1.
Proof.
  intros V Hc. unfold upd_chan. destruct (get_chan s c h) as [ch|] eqn:Ech; [|apply Good_frame; auto].
  apply (Good_set_flags s c h ch); auto.
  destruct (is_closed st) eqn:Es.
  - right. intros _. destruct (Hc eq_refl _ eq_refl) as (A & B). auto.
  - pose proof (cv_get_chan _ _ _ _ Ech) as Hcg. destruct (cv_get_in _ _ _ _ Hcg) as (st0 & chs & H1 & H2).
    destruct (is_closed (ch_status ch)) eqn:Es0.
    + right. cbn. intros _. destruct (vi_cz _ _ _ V _ _ _ _ _ _ H1 H2) as [A B]; [right; cbn; exact Es0|].
      split; auto. cbn in B. destruct (ch_consumers ch); [reflexivity|discriminate].
    + left. unfold cflags. cbn. rewrite Es, Es0. reflexivity.
Qed.

(* channel.close: the status becomes Closed and the message being assembled is dropped (not a held message) *)
Lemma Good_set_status_cur s c h st :
  VI s -> (is_closed st = true -> forall ch, get_chan s c h = Some ch -> ch_unacked ch = [] /\ ch_consumers ch = []) ->
  Good s (upd_chan s c h (fun ch => ch <| ch_status := st |> <| ch_cur := None |>)) nil1 nil1.
Proof.
  intros V Hc. unfold upd_chan. destruct (get_chan s c h) as [ch|] eqn:Ech; [|apply Good_frame; auto].
  apply (Good_set_flags s c h ch); auto.
  destruct (is_closed st) eqn:Es.
  - right. intros _. destruct (Hc eq_refl _ eq_refl) as (A & B). auto.
  - pose proof (cv_get_chan _ _ _ _ Ech) as Hcg. destruct (cv_get_in _ _ _ _ Hcg) as (st0 & chs & H1 & H2).
    destruct (is_closed (ch_status ch)) eqn:Es0.
    + right. cbn. intros _. destruct (vi_cz _ _ _ V _ _ _ _ _ _ H1 H2) as [A B]; [right; cbn; exact Es0|].
      split; auto. cbn in B. destruct (ch_consumers ch); [reflexivity|discriminate].
    + left. unfold cflags. cbn. rewrite Es, Es0. reflexivity.
Qed.

Lemma Good_clear_consumers s c h : VI s -> Good s (upd_chan s c h (fun ch => ch <| ch_consumers := [] |>)) nil1 nil1.
Proof.
  intros V. unfold upd_chan. destruct (get_chan s c h) as [ch|] eqn:Ech; [|apply Good_frame; auto].
  apply (Good_set_flags s c h ch); auto. right. cbn. intros H0. split; auto.
  pose proof (cv_get_chan _ _ _ _ Ech) as Hcg. destruct (cv_get_in _ _ _ _ Hcg) as (st0 & chs & H1 & H2).
  exact (proj1 (vi_cz _ _ _ V _ _ _ _ _ _ H1 H2 H0)).
Qed.

Lemma filter_covered0 l : filter (covered 0) l = l.
Proof. induction l as [|a t IH]; cbn; [|rewrite IH]; reflexivity. Qed.

Lemma CI_close_prefix s c h ch :
  CI s -> CI (upd_chan (fold_left (fun s cm => consumer_stop s c h (c_tag cm)) (ch_consumers ch) s) c h (fun ch => ch <| ch_consumers := [] |>)).
Proof.
  intros H. apply allch_upd_chan; [intros ch0 Hc0; eapply chinvp_set; [..|exact Hc0]; reflexivity|].
  apply fold_left_preserves; auto. intros; apply CI_consumer_stop; auto.
Qed.

Lemma Good_channel_close cfg s c h : Inv s -> Good s (channel_close cfg s c h) (close_released s c h) nil1.
Proof.
  intros [V Hci]. unfold channel_close, close_released. destruct (get_chan s c h) as [ch|] eqn:Ech.
  2:{ apply Good_nil_rel; [|apply Good_frame; auto]. intros q. unfold U. rewrite Ech. destruct (_ && _); reflexivity. }
  set (s1 := fold_left (fun s cm => consumer_stop s c h (c_tag cm)) (ch_consumers ch) s).
  assert (E1 : view s1 = view s) by (subst s1; apply view_fold; intros; apply view_consumer_stop).
  assert (V1 : VI s1) by (eapply VI_view; eauto).
  destruct (view_inv _ _ E1) as (Ec1 & Eq1 & En1).
  set (s2 := upd_chan s1 c h (fun ch => ch <| ch_consumers := [] |>)).
  assert (C2 : CI s2) by (apply CI_close_prefix; auto).
  assert (G2 : Good s1 s2 nil1 nil1) by (apply Good_clear_consumers; auto).
  assert (Ue : U s2 c h = U s c h) by (subst s2; rewrite U_upd_chan_keep by reflexivity; apply U_view; exact Ec1).
  assert (Eq2 : qv s2 = qv s) by (subst s2; rewrite qv_upd_chan; exact Eq1).
  assert (E2 : allch (emptyat c h) s2).
  { subst s2. intros c' h' ch0 Hg Hc Hh. subst. unfold upd_chan in Hg.
    destruct (get_chan s1 c h) as [ch1|] eqn:Eg1; [|congruence].
    rewrite get_chan_set_chan in Hg. pose proof (get_chan_conn _ _ _ _ Eg1) as Hcn.
    destruct (get_conn s1 c); [|congruence]. rewrite !N.eqb_refl in Hg. cbn in Hg. inversion Hg; subst. reflexivity. }
  clearbody s2. clearbody s1.
  eapply Good_frame_then; [exact E1|exact V|].
  destruct (0 <? h) eqn:Eh; cbn [andb].
  - pose proof (Good_handle_reject cfg s2 c h 0 true true 60 120 (conj (proj1 G2) C2)) as G.
    pose proof (E_handle_reject c h cfg s2 c h 0 true true 60 120 E2) as E3.
    destruct (handle_reject cfg s2 c h 0 true true 60 120) as [s3 e3] eqn:Er. cbn [fst] in *.
    assert (U3 : U s3 c h = []).
    { assert (Hnd : NoDup (map u_tag (U s2 c h))).
      { unfold U. destruct (get_chan s2 c h) as [ch2|] eqn:E; [exact (proj1 (C2 _ _ _ E))|constructor]. }
      destruct (reject_multiple_exact _ _ _ _ _ _ _ _ _ _ Er Hnd) as (_ & Eu & _). rewrite Eu.
      clear. induction (U s2 c h) as [|a t IH]; cbn; auto. }
    assert (G4 : Good s3 (upd_chan s3 c h (fun ch => ch <| ch_status := ChClosed |> <| ch_cur := None |>)) nil1 nil1).
    { apply Good_set_status_cur; [exact (proj1 G)|]. intros _ ch3 Eg3. split; [rewrite <- (U_get _ _ _ _ Eg3); exact U3|].
      exact (E3 _ _ _ Eg3 eq_refl eq_refl). }
    eapply Good_ext; [| |exact (Good_trans _ _ _ _ _ _ _ G2 (Good_trans _ _ _ _ _ _ _ G G4))].
    + intros q. unfold nil1. cbn [app andb]. rewrite app_nil_r. unfold covers. rewrite filter_covered0, Ue, (alive_view _ _ _ Eq2).
      destruct (queue_alive s q); reflexivity.
    + intros q. reflexivity.
  - assert (G4 : Good s2 (upd_chan s2 c h (fun ch => ch <| ch_status := ChClosed |> <| ch_cur := None |>)) nil1 nil1).
    { apply Good_set_status_cur; [exact (proj1 G2)|]. intros _ ch3 Eg3. split; [|exact (E2 _ _ _ Eg3 eq_refl eq_refl)].
      apply N.ltb_ge in Eh. assert (h = 0) by lia. subst h.
      pose proof (cv_get_chan _ _ _ _ Eg3) as Hcg. destruct (cv_get_in _ _ _ _ Hcg) as (st & chs & H1 & H2).
      exact (proj1 (vi_cz _ _ _ (proj1 G2) _ _ _ _ _ _ H1 H2 (or_introl eq_refl))). }
    eapply Good_ext; [| |exact (Good_trans _ _ _ _ _ _ _ G2 G4)]; intros q; reflexivity.
Qed.

(* ================================================================== *)
(* deliveries *)
Lemma qv_of_view s s' : view s' = view s -> qv s' = qv s.
Proof. intros H. apply view_inv in H. tauto. Qed.
Lemma cv_of_view s s' : view s' = view s -> cv s' = cv s.
Proof. intros H. apply view_inv in H. tauto. Qed.
Lemma nq_of_view s s' : view s' = view s -> next_qid s' = next_qid s.
Proof. intros H. apply view_inv in H. tauto. Qed.

Ltac strip_set :=
  repeat match goal with
         | |- context [qv (@set state ?T ?proj ?H ?f ?x)] => change (qv (@set state T proj H f x)) with (qv x)
         | |- context [cv (@set state ?T ?proj ?H ?f ?x)] => change (cv (@set state T proj H f x)) with (cv x)
         | |- context [next_qid (@set state ?T ?proj ?H ?f ?x)] => change (next_qid (@set state T proj H f x)) with (next_qid x)
         end.

Lemma qids_unique (v : qview) n p n' p' : NoDup (qids v) -> In (n, p) v -> In (n', p') v -> p_id p = p_id p' -> n = n'.
Proof.
  unfold qids. induction v as [|[k x] t IH]; cbn; [tauto|]. intros Hnd H1 H2 E. inversion Hnd; subst.
  destruct H1 as [H1|H1], H2 as [H2|H2].
  - congruence.
  - inversion H1; subst. exfalso. apply H3. rewrite E. apply (in_map (fun e => p_id (snd e)) _ _ H2).
  - inversion H2; subst. exfalso. apply H3. rewrite <- E. apply (in_map (fun e => p_id (snd e)) _ _ H1).
  - eauto.
Qed.

Lemma qv_in s q qu : get_queue s q = Some qu -> In (q, qproj qu) (qv s).
Proof. intros H. eapply alookup_in; [apply seqb_spec|]. rewrite qv_get, H. reflexivity. Qed.

Lemma Good_deliver s s' c h q qu u rest (noack : bool) :
  VI s -> get_queue s q = Some qu -> q_ready qu = u :: rest ->
  qv s' = qv_upd q (p_set_ready rest) (qv s) -> next_qid s' = next_qid s ->
  (if noack then cv s' = cv s
   else exists ch nu, get_chan s c h = Some ch /\ cv s' = cv_set c h (cflags ch, ch_unacked ch ++ [nu]) (cv s) /\
                      u_qid nu = q_id qu /\ u_queue nu = q /\ u_msg nu = u /\ h <> 0 /\ is_closed (ch_status ch) = false) ->
  Good s s' (fun qid => if noack then head_if qu qid else []) nil1.
Proof.
  intros V Hq Hr Eq En Hc. pose proof (qv_in _ _ _ Hq) as Hqin.
  assert (Hql : alookup seqb q (qv s) = Some (qproj qu)) by (rewrite qv_get, Hq; reflexivity).
  assert (V1 : VInv (cv s) (qv s') (next_qid s')).
  { rewrite En, Eq. eapply VInv_qshape; [|exact V]. apply qshape_qv_upd. intros p. apply p_set_ready_shape. }
  assert (Hrd : forall qid, Permutation (rdy (qv s') qid ++ head_if qu qid) (rdy (qv s) qid ++ [])).
  { intros qid. rewrite Eq. eapply rdy_upd_perm; eauto. unfold qcontrib, head_if. cbn. rewrite Hr.
    destruct (q_id qu =? qid); cbn; perm_lia. }
  destruct noack.
  - apply Good_of_views; [unfold VI; rewrite Hc; exact V1|]. intros qid. specialize (Hrd qid). rewrite Hc. unfold nil1. perm_lia.
  - destruct Hc as (ch & nu & Ech & Ec & E1 & E2 & E3 & Hh & Hcl). pose proof (cv_get_chan _ _ _ _ Ech) as Hcg.
    apply Good_of_views.
    + unfold VI. rewrite Ec. eapply VInv_cv_set; eauto.
      * intros x Hx. apply in_app_or in Hx. destruct Hx as [Hx|[<-|[]]].
        -- apply (vi_uq _ _ _ V1). eapply cv_get_au; eauto.
        -- split.
           ++ rewrite E1, En. apply (vi_qbound _ _ _ V _ _ Hqin).
           ++ intros n p Hin Hid. rewrite E2.
              assert (Hin' : exists p0, In (n, p0) (qv s) /\ p_id p0 = p_id p).
              { rewrite Eq in Hin. destruct (qshape_in (qv s) _ n p (qshape_qv_upd q (p_set_ready rest) (qv s) (fun p => p_set_ready_shape rest p)) Hin) as (p0 & H0 & I & _). eauto. }
              destruct Hin' as (p0 & H0 & I). apply (qids_unique (qv s) n p0 q (qproj qu) (vi_qids _ _ _ V) H0 Hqin). cbn. congruence.
      * cbn. intros [H0|H0]; [contradiction|congruence].
    + intros qid. specialize (Hrd qid). rewrite Ec. unfold nil1.
      assert (Hu : Permutation (una (cv s) qid ++ (if q_id qu =? qid then [u] else [])) (una (cv_set c h (cflags ch, ch_unacked ch ++ [nu]) (cv s)) qid ++ [])).
      { eapply una_set_perm; eauto. rewrite msgs_from_app, app_nil_r. apply Permutation_app_head.
        rewrite msgs_from_cons. unfold from. rewrite E1, E3. cbn. rewrite app_nil_r. reflexivity. }
      unfold head_if in Hrd. rewrite Hr in Hrd. cbn in Hrd. destruct (q_id qu =? qid); perm_lia.
Qed.

Lemma qv_metric s q f : (forall qu, qproj (f qu) = qproj qu) -> qv (upd_queue s q f) = qv s.
Proof. intros H. apply qv_of_view. apply view_upd_queue_same. exact H. Qed.
Lemma cv_upd_chan_same s c h f : (forall ch, cproj (f ch) = cproj ch) -> cv (upd_chan s c h f) = cv s.
Proof. intros H. apply cv_of_view. apply view_upd_chan_same. exact H. Qed.
Lemma get_chan_upd_chan_same s c h f ch : get_chan s c h = Some ch -> get_chan (upd_chan s c h f) c h = Some (f ch).
Proof.
  intros E. unfold upd_chan. rewrite E. rewrite get_chan_set_chan. pose proof (get_chan_conn _ _ _ _ E) as Hc.
  destruct (get_conn s c); [|congruence]. rewrite !N.eqb_refl. reflexivity.
Qed.
Lemma cv_append s c h ch d nu : get_chan s c h = Some ch ->
  cv (upd_chan (upd_chan s c h (fun ch => ch <| ch_dtag := d |>)) c h (fun ch => ch <| ch_unacked ::= fun l => l ++ [nu] |>))
  = cv_set c h (cflags ch, ch_unacked ch ++ [nu]) (cv s).
Proof.
  intros E. rewrite cv_upd_chan. rewrite (get_chan_upd_chan_same _ _ _ _ _ E). rewrite cv_upd_chan_same by reflexivity. reflexivity.
Qed.
Lemma qid_of_proj s s' q : qv s' = qv s -> qid_of s' q = qid_of s q.
Proof.
  intros E. pose proof (get_queue_proj s s' q E) as H. unfold qid_of.
  destruct (get_queue s' q), (get_queue s q); cbn in H; try discriminate; auto. inversion H. auto.
Qed.
Lemma qid_of_shape s s' q : qshape (qv s') = qshape (qv s) -> qid_of s' q = qid_of s q.
Proof.
  intros E. pose proof (qshape_alookup _ _ q E) as H. rewrite !qv_get in H. unfold qid_of.
  destruct (get_queue s' q), (get_queue s q); cbn in H; try discriminate; auto. inversion H. auto.
Qed.
Lemma get_chan_upd_queue s q f c h : get_chan (upd_queue s q f) c h = get_chan s c h.
Proof. apply get_chan_same_conns. apply conns_upd_queue. Qed.
Ltac qvn := repeat first [ progress strip_set | rewrite qv_upd_chan | rewrite qv_set_chan | rewrite qv_metric by reflexivity
                         | rewrite (qv_of_view _ _ (view_queue_ackmsg _ _ _)) ].
Ltac nqn := repeat first [ progress strip_set | rewrite next_qid_upd_chan | rewrite next_qid_set_chan | rewrite next_qid_upd_queue
                         | rewrite (nq_of_view _ _ (view_queue_ackmsg _ _ _)) ].
Ltac cvn := repeat first [ progress strip_set | rewrite cv_upd_queue | rewrite cv_upd_chan_same by (intros; cpr)
                         | rewrite (cv_of_view _ _ (view_queue_ackmsg _ _ _)) ].

Lemma find_consumer_has ch tag cm : find_consumer ch tag = Some cm -> has_cons (ch_consumers ch) = true.
Proof. unfold find_consumer. destruct (ch_consumers ch); [discriminate|reflexivity]. Qed.

Lemma live_channel s c h ch : VI s -> get_chan s c h = Some ch -> has_cons (ch_consumers ch) = true ->
  h <> 0 /\ is_closed (ch_status ch) = false.
Proof.
  intros V Ech Hc. pose proof (cv_get_chan _ _ _ _ Ech) as Hcg. destruct (cv_get_in _ _ _ _ Hcg) as (st & chs & H1 & H2).
  pose proof (vi_cz _ _ _ V _ _ _ _ _ _ H1 H2) as Hz. cbn in Hz. split.
  - intros H0. destruct (Hz (or_introl H0)). congruence.
  - destruct (is_closed (ch_status ch)); auto. destruct (Hz (or_intror eq_refl)). congruence.
Qed.

Lemma queue_found_some s q qu : get_queue s q = Some qu -> q_active qu = true -> queue_found s q = Some qu.
Proof. unfold queue_found. intros -> ->. reflexivity. Qed.

Lemma Good_consumer_turn cfg fx s c h tag :
  VI s -> Good s (fst (consumer_turn cfg fx s c h tag)) (turn_released s c h tag) nil1.
Proof.
  intros V. unfold consumer_turn, turn_released.
  destruct (get_chan s c h) as [ch|] eqn:Ech; [|apply Good_frame; auto].
  destruct (find_consumer ch tag) as [cm|] eqn:Efc; [|apply Good_frame; auto].
  destruct (c_token cm) eqn:Etok; cbn [negb andb]; [|apply Good_frame; auto].
  destruct (live_channel _ _ _ _ V Ech (find_consumer_has _ _ _ Efc)) as [Hh Hcl].
  set (s0 := set_chan s c h _).
  assert (E0 : view s0 = view s) by (subst s0; eapply view_set_chan_same; [eauto|cpr]).
  assert (Q0 : forall q, get_queue s0 q = get_queue s q) by (intros; subst s0; apply get_queue_same_queues; apply queues_set_chan).
  assert (Ech0 : exists ch0, get_chan s0 c h = Some ch0 /\ cflags ch0 = cflags ch /\ ch_unacked ch0 = ch_unacked ch).
  { subst s0. rewrite get_chan_set_chan. pose proof (get_chan_conn _ _ _ _ Ech) as Hc. destruct (get_conn s c); [|congruence].
    rewrite !N.eqb_refl. cbn. eexists. split; [reflexivity|]. split; [unfold cflags, upd_consumer; cbn; rewrite has_cons_map|]; reflexivity. }
  destruct Ech0 as (ch0 & Ech0 & Ef0 & Eu0).
  clearbody s0.
  destruct (c_status cm) eqn:Est; cbn [negb andb]; try (apply Good_nil_rel; [intros; destruct (c_noack cm); reflexivity|apply Good_frame; auto]).
  all: rewrite Q0; unfold queue_found.
  all: destruct (get_queue s (c_queue cm)) as [qu|] eqn:Eq; [|apply Good_nil_rel; [intros; destruct (c_noack cm); reflexivity|apply Good_frame; auto]].
  all: destruct (q_active qu) eqn:Ea; cbn [negb]; [|apply Good_nil_rel; [intros; destruct (c_noack cm); reflexivity|apply Good_frame; auto]].
  all: destruct (q_ready qu) as [|u rest] eqn:Er; [apply Good_nil_rel; [intros; unfold head_if; rewrite Er; destruct (c_noack cm), (q_id qu =? _); reflexivity|apply Good_frame; auto]|].
  all: match goal with |- context [if c_noack ?cm0 then (Some [], []) else ?r] => destruct (if c_noack cm0 then (Some [], []) else r) as [okr ws] eqn:Eres end.
  all: set (s1 := if c_noack cm then s0 else store_windows cfg s0 c h tag ws).
  all: assert (E1 : view s1 = view s) by (subst s1; destruct (c_noack cm); [exact E0|rewrite view_store_windows; exact E0]).
  all: destruct okr as [okl|]; cbn [fst].
  all: try (apply Good_nil_rel; [intros; destruct (c_noack cm); [discriminate|reflexivity]|apply Good_frame; auto]; fail).
  all: match goal with |- context [wake_consumer ?st ?c0 ?h0 ?tag0] => set (s8 := st); destruct (wake_consumer s8 c0 h0 tag0) as [s9 b9] eqn:Ew;
         apply fst_pair in Ew; cbn [fst]; subst s9 end.
  all: eapply Good_then_frame; [|apply view_wake_consumer].
  all: assert (Q1 : qv s1 = qv s) by (apply qv_of_view; exact E1).
  all: assert (C1 : cv s1 = cv s) by (apply cv_of_view; exact E1).
  all: assert (N1 : next_qid s1 = next_qid s) by (apply nq_of_view; exact E1).
  all: assert (Ech1 : get_chan s1 c h = Some ch0 \/ exists ch1, get_chan s1 c h = Some ch1 /\ cflags ch1 = cflags ch /\ ch_unacked ch1 = ch_unacked ch).
  all: try (right; pose proof (get_chan_proj s s1 c h C1) as Hp; rewrite Ech in Hp; destruct (get_chan s1 c h) as [ch1|]; [|discriminate];
            cbn in Hp; inversion Hp; eexists; split; [reflexivity|]; unfold cflags; split; congruence).
  all: assert (Ech1' : exists ch1, get_chan s1 c h = Some ch1 /\ cflags ch1 = cflags ch /\ ch_unacked ch1 = ch_unacked ch) by (destruct Ech1 as [H|H]; eauto).
  all: clear Ech1; destruct Ech1' as (ch1 & Ech1 & Ef1 & Eu1).
  all: clearbody s1.
  all: subst s8; destruct (c_noack cm) eqn:Ena; cbn [andb].
  all: match goal with
       | H : c_noack _ = true |- _ => apply (Good_deliver s _ c h (c_queue cm) qu u rest true V Eq Er)
       | H : c_noack _ = false |- _ => apply (Good_deliver s _ c h (c_queue cm) qu u rest false V Eq Er)
       end.
  (* ready lists *)
  all: try (destruct (fx_noack_total_once fx); qvn; rewrite (qv_upd_queue _ _ _ (p_set_ready rest)) by (intros; apply qproj_popped); rewrite Q1; reflexivity).
  all: try (destruct (fx_noack_total_once fx); nqn; exact N1).
  all: try (destruct (fx_noack_total_once fx); cvn; exact C1).
  all: exists ch; eexists; split; [exact Ech|]; split;
         [strip_set; rewrite cv_upd_queue; strip_set;
          rewrite (cv_append _ c h ch1) by (rewrite get_chan_upd_queue; exact Ech1);
          rewrite cv_upd_queue, C1, Ef1, Eu1; reflexivity|].
  all: split; [|split; [reflexivity|split; [reflexivity|split; [exact Hh|exact Hcl]]]].
  all: cbn [u_qid]; rewrite (qid_of_shape s); [unfold qid_of; rewrite Eq; reflexivity|].
  all: rewrite qv_upd_chan, (qv_upd_queue _ _ _ (p_set_ready rest)) by (intros; apply qproj_popped).
  all: rewrite (qshape_qv_upd _ _ _ (fun p => p_set_ready_shape rest p)), Q1; reflexivity.
Qed.

(* ================================================================== *)
(* method handlers that keep the view *)
Definition frame_meth (m : meth) : bool :=
  match m with
  | MChannelFlow _ | MExDeclare _ _ _ _ _ _ _ | MExDelete _ _ _ | MQBind _ _ _ _ _ | MQUnbind _ _ _ _ | MQos _ _ _
  | MPublish _ _ _ _ | MRecover _ | MConfirmSelect _ | MTxSelect | MConnClose | MConnCloseOk => true
  | _ => false
  end.

Lemma view_handle_method_frame cfg fx s c h m : frame_meth m = true -> view (fst (fst (handle_method cfg fx s c h m))) = view s.
Proof.
  intros Hm. unfold handle_method. destruct (get_chan s c h) as [ch|] eqn:Hch; [|reflexivity].
  destruct m; try discriminate; unfold ok, refuse.
  - (* flow *) cbn [fst]. destruct (Bool.eqb _ _); auto. destruct a; (eapply view_set_chan_same; [eauto|cpr]).
  - (* ex declare *) destruct (extype_of type); [|reflexivity].
    repeat match goal with |- context [if ?b then _ else _] => destruct b end; cbn [fst]; auto.
    all: repeat match goal with |- context [match ?x with _ => _ end] => destruct x end; cbn [fst]; auto.
  - destruct (fx_not_impl fx); reflexivity.
  - (* bind *) destruct (alookup _ _ _); [|reflexivity]. destruct (seqb ex ""); [reflexivity|].
    destruct (queue_found s q); [|reflexivity]. destruct (locked _ _); [reflexivity|]. destruct (bad_xmatch _); [reflexivity|]. destruct (extype_eqb _ ExTopic && bad_pattern _)%bool; reflexivity.
  - destruct (alookup _ _ _); [|reflexivity]. destruct (queue_found s q); [|reflexivity]. destruct (locked _ _); [reflexivity|]. destruct (bad_xmatch _); [reflexivity|]. destruct (extype_eqb _ ExTopic && bad_pattern _)%bool; reflexivity.
  - (* qos *) cbn [fst]. rewrite view_wake_consumers. destruct (cfg_rabbit cfg); [destruct glob; (eapply view_set_chan_same; [eauto|cpr])|].
    destruct glob; [|eapply view_set_chan_same; [eauto|cpr]]. destruct (get_conn s c) eqn:Ec; auto. apply view_set_conn_qos; auto.
  - (* publish *) destruct imm; [reflexivity|]. destruct (alookup _ _ _); [|reflexivity].
    destruct (ch_confirm ch); cbn [fst].
    + match goal with |- view (set_chan ?st _ _ _) = _ => transitivity (view st); [|reflexivity] end.
      eapply view_set_chan_same; [exact Hch|cpr].
    + match goal with |- view (set_chan ?st _ _ _) = _ => transitivity (view st); [|reflexivity] end.
      eapply view_set_chan_same; [exact Hch|cpr].
  - reflexivity.
  - cbn [fst]. eapply view_set_chan_same; [eauto|cpr].
  - destruct (fx_not_impl fx); reflexivity.
  - reflexivity.
  - reflexivity.
Qed.

(* ================================================================== *)
(* channel.open, basic.consume, basic.cancel, queue.declare, queue.purge *)
Lemma cz_at s c h ch : VI s -> get_chan s c h = Some ch -> h = 0 \/ is_closed (ch_status ch) = true ->
  ch_unacked ch = [] /\ ch_consumers ch = [].
Proof.
  intros V Ech H. pose proof (cv_get_chan _ _ _ _ Ech) as Hcg. destruct (cv_get_in _ _ _ _ Hcg) as (st & chs & H1 & H2).
  destruct (vi_cz _ _ _ V _ _ _ _ _ _ H1 H2 H) as [A B]. split; auto. cbn in B. destruct (ch_consumers ch); [reflexivity|discriminate].
Qed.

Lemma Good_status_open s c h ch ch' :
  VI s -> get_chan s c h = Some ch -> ch_unacked ch' = ch_unacked ch -> ch_consumers ch' = ch_consumers ch ->
  is_closed (ch_status ch') = false -> Good s (set_chan s c h ch') nil1 nil1.
Proof.
  intros V Ech Eu Ec Hs. apply (Good_set_flags s c h ch); auto. right. intros [H0|H0]; [|congruence].
  destruct (cz_at _ _ _ _ V Ech (or_introl H0)) as [A B]. split; auto. congruence.
Qed.

Lemma Good_channel_open cfg fx s c h :
  VI s -> Good s (fst (fst (handle_method cfg fx s c h MChannelOpen))) nil1 nil1.
Proof.
  intros V. unfold handle_method. destruct (get_chan s c h) as [ch|] eqn:Ech; [|apply Good_frame; auto].
  destruct (ch_status ch) eqn:Es; unfold ok, refuse; cbn [fst]; try (apply Good_frame; auto; fail).
  - apply (Good_status_open s c h ch); auto.
  - apply (Good_status_open s c h ch); auto.
  - destruct (cz_at _ _ _ _ V Ech (or_intror (f_equal is_closed Es))) as [A B].
    apply (Good_status_open s c h ch); auto; destruct (fx_reopen_resets fx); cbn; auto.
Qed.

Lemma opened_cv s c : opened (cv s) c = conn_opened s c.
Proof. unfold opened, conn_opened, cv, get_conn. rewrite alookup_vmap. destruct (alookup N.eqb c (conns s)); reflexivity. Qed.

Lemma queue_found_none s q : VI s -> queue_found s q = None -> get_queue s q = None.
Proof.
  intros V H. unfold queue_found in H. destruct (get_queue s q) as [qu|] eqn:E; auto.
  pose proof (vi_active _ _ _ V _ _ (qv_in _ _ _ E)) as Ha. cbn in Ha. rewrite Ha in H. discriminate.
Qed.

Lemma Good_queue_declare cfg fx s c h name dur excl ad passive nowait :
  VI s -> conn_opened s c = true ->
  Good s (fst (fst (handle_method cfg fx s c h (MQDeclare name dur excl ad passive nowait)))) nil1 nil1.
Proof.
  intros V Hop. unfold handle_method. destruct (get_chan s c h) as [ch|] eqn:Ech; [|apply Good_frame; auto].
  unfold ok, refuse. destruct (seqb name ""); [apply Good_frame; auto|].
  destruct (queue_found s name) as [qu|] eqn:Ef.
  - repeat match goal with |- context [if ?b then _ else _] => destruct b end; cbn [fst]; apply Good_frame; auto.
  - destruct passive; [destruct nowait; apply Good_frame; auto|]. cbn [fst].
    pose proof (queue_found_none _ _ V Ef) as Eg.
    assert (Hl : alookup seqb name (qv s) = None) by (rewrite qv_get, Eg; reflexivity).
    apply Good_of_views.
    + unfold VI. strip_set. rewrite qv_set_queue. strip_set. cbn [next_qid set]. 
      change (cv (set_queue (s <| next_qid ::= N.succ |>) name (new_queue (next_qid s) c dur excl ad))) with (cv s).
      change (next_qid (set_queue (s <| next_qid ::= N.succ |>) name (new_queue (next_qid s) c dur excl ad))) with (N.succ (next_qid s)).
      apply VInv_new_queue; auto. cbn. intros _. rewrite opened_cv. exact Hop.
    + intros qid. strip_set. rewrite qv_set_queue. strip_set.
      change (cv (set_queue (s <| next_qid ::= N.succ |>) name (new_queue (next_qid s) c dur excl ad))) with (cv s).
      rewrite (rdy_fresh _ _ _ _ Hl). unfold qcontrib, nil1. cbn. destruct (next_qid s =? qid); perm_lia.
Qed.

Lemma Good_consume cfg fx s c h q tag0 noack excl nowait :
  VI s -> h <> 0 -> (forall ch, get_chan s c h = Some ch -> is_closed (ch_status ch) = false) ->
  Good s (fst (fst (handle_method cfg fx s c h (MConsume q tag0 noack excl nowait)))) nil1 nil1.
Proof.
  intros V Hh Hcl. unfold handle_method. destruct (get_chan s c h) as [ch|] eqn:Ech; [|apply Good_frame; auto].
  unfold ok, refuse. destruct (queue_found s q) as [qu|] eqn:Ef; [|apply Good_frame; auto].
  apply queue_found_get in Ef.
  destruct (fx_excl_owner fx && locked qu c); [apply Good_frame; auto|].
  destruct (find_consumer ch _); [apply Good_frame; auto|].
  destruct (_ && _)%bool; cbn [fst].
  - apply Good_frame; auto. eapply view_set_queue_same; eauto.
  - match goal with |- Good _ (set_chan ?st _ _ ?ch') _ _ => set (s1 := st); set (ch1 := ch') end.
    assert (E1 : view s1 = view s).
    { subst s1. destruct (seqb tag0 ""%string); (transitivity (view (set_queue s q (call_consumers
         ((if excl then qu <| q_wasconsumed := true |> <| q_cexcl := true |> else qu <| q_wasconsumed := true |>) <| q_consumers ::= (fun l => l ++ [(c, h, eff_tag s tag0)]) |>))));
        [reflexivity|eapply view_set_queue_same; [eauto|destruct excl; unfold call_consumers; cbn; destruct (q_active qu); reflexivity]]). }
    eapply Good_frame_then; [exact E1|exact V|].
    assert (Ech1 : exists ch0, get_chan s1 c h = Some ch0 /\ ch_unacked ch0 = ch_unacked ch /\ is_closed (ch_status ch0) = false).
    { pose proof (get_chan_proj s s1 c h (cv_of_view _ _ E1)) as Hp. rewrite Ech in Hp. destruct (get_chan s1 c h) as [ch0|]; [|discriminate].
      cbn in Hp. inversion Hp. eexists; split; [reflexivity|]. split; auto. rewrite H0. apply (Hcl _ eq_refl). }
    destruct Ech1 as (ch0 & Ech1 & Eu1 & Ec1).
    apply (Good_set_flags s1 c h ch0); [eapply VI_view; eauto|exact Ech1|subst ch1; cbn; auto|].
    right. subst ch1. cbn. intros [H0|H0]; [contradiction|]. rewrite (Hcl _ eq_refl) in H0. discriminate.
Qed.

Lemma Good_upd_flags s c h f :
  VI s -> (forall ch, ch_unacked (f ch) = ch_unacked ch) -> (forall ch, ch_status (f ch) = ch_status ch) ->
  (forall ch, ch_consumers ch = [] -> ch_consumers (f ch) = []) ->
  Good s (upd_chan s c h f) nil1 nil1.
Proof.
  intros V Hu Hs Hc. unfold upd_chan. destruct (get_chan s c h) as [ch|] eqn:Ech; [|apply Good_frame; auto].
  apply (Good_set_flags s c h ch); auto. right. rewrite Hs. intros H0. destruct (cz_at _ _ _ _ V Ech H0) as [A B]. auto.
Qed.

Lemma uq_ok_orphan qw nq tag u : uq_ok qw nq u -> uq_ok qw nq (orphan tag u).
Proof. unfold uq_ok. destruct (orphan_fields tag u) as (_ & _ & -> & ->). auto. Qed.

Lemma Good_orphan s c h tag : VI s -> Good s (upd_chan s c h (fun ch => ch <| ch_unacked ::= map (orphan tag) |>)) nil1 nil1.
Proof.
  intros V. unfold upd_chan. destruct (get_chan s c h) as [ch|] eqn:Ech; [|apply Good_frame; auto].
  pose proof (cv_get_chan _ _ _ _ Ech) as Hcg.
  assert (Ec : cv (set_chan s c h (ch <| ch_unacked ::= map (orphan tag) |>)) = cv_set c h (cflags ch, map (orphan tag) (ch_unacked ch)) (cv s))
    by (rewrite cv_set_chan; reflexivity).
  apply Good_of_views.
  - unfold VI. rewrite Ec, qv_set_chan, next_qid_set_chan. eapply VInv_cv_set; eauto.
    + intros u Hu. apply in_map_iff in Hu. destruct Hu as (u0 & <- & Hu0). apply uq_ok_orphan. apply (vi_uq _ _ _ V). eapply cv_get_au; eauto.
    + intros H0. destruct (cv_get_in _ _ _ _ Hcg) as (st & chs & H1 & H2). destruct (vi_cz _ _ _ V _ _ _ _ _ _ H1 H2 H0) as [A B].
      rewrite A. auto.
  - intros qid. rewrite qv_set_chan, Ec. unfold nil1.
    assert (Hu : Permutation (una (cv s) qid ++ []) (una (cv_set c h (cflags ch, map (orphan tag) (ch_unacked ch)) (cv s)) qid ++ [])).
    { eapply una_set_perm; eauto. rewrite msgs_from_orphan. reflexivity. }
    perm_lia.
Qed.

Lemma Good2 s s1 s2 : Good s s1 nil1 nil1 -> Good s1 s2 nil1 nil1 -> Good s s2 nil1 nil1.
Proof. intros A B. eapply Good_ext; [| |exact (Good_trans _ _ _ _ _ _ _ A B)]; intros q; reflexivity. Qed.

Lemma Good_cancel cfg fx s c h tag nowait :
  VI s -> Good s (fst (fst (handle_method cfg fx s c h (MCancel tag nowait)))) nil1 nil1.
Proof.
  intros V. unfold handle_method. destruct (get_chan s c h) as [ch|] eqn:Ech; [|apply Good_frame; auto].
  unfold ok, refuse. destruct (find_consumer ch tag); [|apply Good_frame; auto]. cbn [fst].
  set (s1 := consumer_stop s c h tag).
  assert (E1 : view s1 = view s) by apply view_consumer_stop.
  assert (V1 : VI s1) by (eapply VI_view; eauto).
  set (s2 := upd_chan s1 c h (fun ch => ch <| ch_consumers ::= filter (fun cm => negb (seqb (c_tag cm) tag)) |>)).
  assert (G12 : Good s1 s2 nil1 nil1).
  { apply Good_upd_flags; [exact V1|reflexivity|reflexivity|]. intros ch0 H. cbn. rewrite H. reflexivity. }
  pose proof (Good_orphan s2 c h tag (proj1 G12)) as G23.
  eapply Good_frame_then; [exact E1|exact V|]. exact (Good2 _ _ _ G12 G23).
Qed.

Lemma Good_purge cfg fx s c h q nowait :
  VI s -> Good s (fst (fst (handle_method cfg fx s c h (MQPurge q nowait))))
               (fun qid => if match get_chan s c h with Some _ => true | None => false end
                           then method_released fx s c h (MQPurge q nowait) qid else []) nil1.
Proof.
  intros V. unfold handle_method, method_released. destruct (get_chan s c h) as [ch|] eqn:Ech; [|apply Good_frame; auto].
  unfold ok, refuse. destruct (queue_found s q) as [qu|] eqn:Ef; [|apply Good_frame; auto].
  apply queue_found_get in Ef. destruct (locked qu c); [apply Good_frame; auto|]. cbn [fst].
  assert (Hl : alookup seqb q (qv s) = Some (qproj qu)) by (rewrite qv_get, Ef; reflexivity).
  match goal with |- Good _ (set_queue ?st _ ?qu') _ _ => assert (Eq : qv (set_queue st q qu') = qv_upd q (p_set_ready []) (qv s)) end.
  { rewrite qv_set_queue. unfold qv_upd. destruct (q_durable qu); strip_set; rewrite Hl; reflexivity. }
  match goal with |- Good _ ?st _ _ => assert (Ec : cv st = cv s) by (destruct (q_durable qu); reflexivity);
                                       assert (En : next_qid st = next_qid s) by (destruct (q_durable qu); reflexivity) end.
  apply Good_of_views.
  - unfold VI. rewrite Eq, Ec, En. eapply VInv_qshape; [apply qshape_qv_upd; intros p; apply p_set_ready_shape|exact V].
  - intros qid. rewrite Eq, Ec. unfold nil1.
    assert (Hr : Permutation (rdy (qv_upd q (p_set_ready []) (qv s)) qid ++ ready_if qu qid) (rdy (qv s) qid ++ [])).
    { eapply rdy_upd_perm; eauto. unfold qcontrib, ready_if. cbn. destruct (q_id qu =? qid); perm_lia. }
    perm_lia.
Qed.

(* ================================================================== *)
(* new channels and connections, error replies, publishing *)
Lemma Good_ensure_chan s c h :
  VI s -> (forall cn, get_conn s c = Some cn -> cn_stage cn <> StOpen -> h = 0) -> Good s (ensure_chan s c h) nil1 nil1.
Proof.
  intros V Hq. unfold ensure_chan. destruct (get_conn s c) as [cn|] eqn:Ec; [|apply Good_frame; auto].
  destruct (alookup N.eqb h (cn_chans cn)) eqn:Eh; [apply Good_frame; auto|].
  change (s <| conns := aset N.eqb c (cn <| cn_chans := aset N.eqb h channel0 (cn_chans cn) |>) (conns s) |>)
    with (match Some cn with Some cn => s <| conns := aset N.eqb c (cn <| cn_chans := aset N.eqb h channel0 (cn_chans cn) |>) (conns s) |> | None => s end).
  rewrite <- Ec. fold (set_chan s c h channel0).
  assert (Ec1 : alookup N.eqb c (cv s) = Some (nproj cn)) by (unfold cv; rewrite alookup_vmap; unfold get_conn in Ec; rewrite Ec; reflexivity).
  assert (Eh1 : alookup N.eqb h (vmap cproj (cn_chans cn)) = None) by (rewrite alookup_vmap, Eh; reflexivity).
  apply Good_of_views.
  - unfold VI. rewrite cv_set_chan, qv_set_chan, next_qid_set_chan. change (cproj channel0) with cp0.
    eapply VInv_cv_add; eauto.
  - intros qid. rewrite cv_set_chan, qv_set_chan. change (cproj channel0) with cp0. unfold una.
    rewrite (au_cv_add _ _ _ _ _ Ec1 Eh1). reflexivity.
Qed.

Lemma Good_new_conn s c cn :
  VI s -> get_conn s c = None -> cn_chans cn = [(0, channel0 <| ch_status := ChNew |>)] ->
  Good s (s <| conns := aset N.eqb c cn (conns s) |>) nil1 nil1.
Proof.
  intros V Ec Ech.
  assert (Ev : cv (s <| conns := aset N.eqb c cn (conns s) |>) = aset N.eqb c (cn_stage cn, [(0, cp0)]) (cv s)).
  { unfold cv. cbn. rewrite vmap_aset. unfold nproj at 1. rewrite Ech. reflexivity. }
  assert (Ec1 : alookup N.eqb c (cv s) = None) by (unfold cv; rewrite alookup_vmap; unfold get_conn in Ec; rewrite Ec; reflexivity).
  apply Good_of_views.
  - unfold VI. rewrite Ev. apply VInv_new_conn; auto.
  - intros qid. rewrite Ev. unfold una. rewrite (aset_fresh N.eqb c _ _ Ec1), au_app. cbn. rewrite !app_nil_r. reflexivity.
Qed.

Lemma Good_apply_err s s0 c h r rel pl : Good s (fst (fst r)) rel pl -> Good s (fst (apply_err s0 c h r)) rel pl.
Proof.
  destruct r as [[s1 e1] [e|]]; cbn [fst]; auto. intros G. unfold apply_err.
  destruct e; cbn [send_error]; cbn [fst]; auto.
  pose proof (Good_set_status s1 c h ChClosing (proj1 G) (fun H => ltac:(discriminate))) as G2.
  eapply Good_ext; [| |exact (Good_trans _ _ _ _ _ _ _ G G2)]; intros q; unfold nil1; rewrite ?app_nil_r; reflexivity.
Qed.

Lemma push_fold_view c h u pers meta qs : forall s, get_msg s u <> None ->
  let s' := fold_left (fun s qn => push_one s c h u pers meta qn) qs s in
  qv s' = push_all u qs (qv s) /\ cv s' = cv s /\ next_qid s' = next_qid s.
Proof.
  induction qs as [|qn t IH]; intros s Hm; cbn [fold_left]; [unfold push_all; cbn; auto|].
  assert (H1 : view (push_one s c h u pers meta qn) = (cv s, qv_upd qn (p_push u) (qv s), next_qid s) /\ get_msg (push_one s c h u pers meta qn) u <> None).
  { unfold push_one. pose proof (get_msg_queue_push s qn u u Hm) as Hq.
    destruct (get_msg (queue_push s qn u) u) as [m|] eqn:Em; [|congruence].
    assert (Hv : view (queue_push s qn u) = (cv s, qv_upd qn (p_push u) (qv s), next_qid s)).
    { unfold view. rewrite cv_queue_push, (qv_queue_push _ _ _ Hm), next_qid_queue_push. reflexivity. }
    destruct (meta && _ && _)%bool; [|split; [exact Hv|congruence]].
    split; [rewrite view_add_confirm; exact Hv|rewrite get_msg_add_confirm; congruence]. }
  destruct H1 as [Hv Hm1]. destruct (IH _ Hm1) as (A & B & C). cbv zeta. rewrite A, B, C.
  unfold view in Hv. inversion Hv as [[E1 E2 E3]]. rewrite E1, E2, E3. auto.
Qed.

Lemma Good_finish_publish fx s c h u m :
  VI s -> get_msg s u = Some m -> Good s (fst (finish_publish fx s c h u)) nil1 (routed fx s u).
Proof.
  intros V Hm. unfold finish_publish.
  assert (G : Good s (fst (route_and_push fx s c h u)) nil1 (routed fx s u)).
  { unfold route_and_push, routed. rewrite Hm. destruct (alookup seqb (m_ex m) (exchanges s)) as [ex|]; cbn [fst].
    2:{ apply Good_frame; auto. apply view_add_confirm. }
    destruct (matched_queues (negb (fx_direct_all fx)) ex (m_key m)) as [|q1 qs'] eqn:Eqs; cbn [fst].
    { apply Good_frame; auto. apply view_add_confirm. }
    match goal with |- context [fold_left _ _ ?st] => set (s0 := st) end.
    assert (E0 : view s0 = view s) by (subst s0; match goal with |- view (if ?b then _ else _) = _ => destruct b end; auto; apply view_upd_msg).
    assert (M0 : get_msg s0 u <> None).
    { subst s0. match goal with |- get_msg (if ?b then _ else _) u <> _ => destruct b end; [|congruence]. apply get_msg_upd_msg_some. congruence. }
    destruct (push_fold_view c h u (m_pers m) (match m_conf m with Some _ => true | None => false end) (q1 :: qs') s0 M0) as (A & B & C).
    cbv zeta in A, B, C. destruct (view_inv _ _ E0) as (B0 & A0 & C0).
    apply Good_of_views.
    - unfold VI. rewrite A, B, C, A0, B0, C0. eapply VInv_qshape; [apply qshape_push_all|exact V].
    - intros qid. rewrite A, B, A0, B0. unfold nil1.
      pose proof (rdy_push_all u qid (q1 :: qs') (qv s) (vi_active _ _ _ V)) as Hr.
      assert (Ef : flat_map (pushed (qv s) u qid) (q1 :: qs') =
                   flat_map (fun qn => match get_queue s qn with Some qu => if q_id qu =? qid then [u] else [] | None => [] end) (q1 :: qs')).
      { apply flat_map_ext. intros qn. unfold pushed. rewrite qv_get. destruct (get_queue s qn); reflexivity. }
      rewrite Ef in Hr. perm_lia. }
  destruct (route_and_push fx s c h u) as [s1 e1]. cbn [fst] in *.
  destruct (fx_clear_current fx); auto. eapply Good_then_frame; [exact G|]. apply view_upd_chan_same. intros; cpr.
Qed.


(* ================================================================== *)
(* content frames *)
Lemma conn_opened_stage s c cn : get_conn s c = Some cn -> conn_opened s c = cstage_eqb (cn_stage cn) StOpen.
Proof. unfold conn_opened. intros ->. reflexivity. Qed.
Lemma ensure_chan_id s c h ch : get_chan s c h = Some ch -> ensure_chan s c h = s.
Proof.
  unfold get_chan, ensure_chan. destruct (get_conn s c) as [cn|]; [|discriminate]. intros ->. reflexivity.
Qed.
Lemma ensure_chan_new s c h cn : get_conn s c = Some cn -> get_chan s c h = None -> get_chan (ensure_chan s c h) c h = Some channel0.
Proof.
  intros Ec Eh. unfold get_chan in Eh. rewrite Ec in Eh. unfold ensure_chan. rewrite Ec, Eh.
  unfold get_chan, get_conn. cbn. rewrite (alookup_aset N.eqb Neqb_spec), N.eqb_refl. cbn.
  rewrite (alookup_aset N.eqb Neqb_spec), N.eqb_refl. reflexivity.
Qed.
Lemma get_msg_upd_msg_same s u f m : get_msg s u = Some m -> get_msg (upd_msg s u f) u = Some (f m).
Proof. intros E. unfold upd_msg. rewrite E. unfold get_msg. cbn. rewrite (alookup_aset N.eqb Neqb_spec), N.eqb_refl. reflexivity. Qed.
Lemma exchanges_upd_msg s u f : exchanges (upd_msg s u f) = exchanges s.
Proof. unfold upd_msg. destruct (get_msg s u); reflexivity. Qed.

Lemma routed_ext fx s s' u m m' qid :
  get_msg s u = Some m -> get_msg s' u = Some m' -> m_ex m' = m_ex m -> m_key m' = m_key m ->
  exchanges s' = exchanges s -> queues s' = queues s -> routed fx s' u qid = routed fx s u qid.
Proof.
  intros E E' X K Ex Q. unfold routed. rewrite E, E', X, K, Ex. destruct (alookup seqb (m_ex m) (exchanges s)); auto.
  apply flat_map_ext. intros qn. rewrite (get_queue_same_queues _ _ qn Q). reflexivity.
Qed.

Lemma Good_publish_after fx s c h u m f :
  VI s -> get_msg s u = Some m -> m_ex (f m) = m_ex m -> m_key (f m) = m_key m ->
  Good s (fst (finish_publish fx (upd_msg s u f) c h u)) nil1 (routed fx s u).
Proof.
  intros V Hm X K.
  pose proof (Good_finish_publish fx (upd_msg s u f) c h u (f m) (VI_view _ _ (view_upd_msg s u f) V) (get_msg_upd_msg_same _ _ f _ Hm)) as G.
  eapply Good_frame_then; [apply (view_upd_msg s u f)|exact V|].
  eapply Good_ext; [intros q; reflexivity| |exact G].
  intros q. rewrite (routed_ext fx s (upd_msg s u f) u m (f m) q Hm (get_msg_upd_msg_same _ _ f _ Hm) X K (exchanges_upd_msg _ _ _) (queues_upd_msg _ _ _)).
  reflexivity.
Qed.

Lemma Good_header_opened cfg fx s c h mid size pers cn0 :
  VI s -> get_conn s c = Some cn0 -> cstage_eqb (cn_stage cn0) StOpen = true ->
  Good s (fst (step cfg fx s (LHeader c h mid size pers))) nil1 (placed cfg fx s (LHeader c h mid size pers)).
Proof.
  intros V Ec Hop. cbn [step]. unfold placed, current. rewrite Ec, Hop. cbn [negb andb].
  assert (G0 : Good s (ensure_chan s c h) nil1 nil1).
  { apply Good_ensure_chan; auto. intros cn E Hs. rewrite Ec in E. inversion E; subst. destruct (cn_stage cn); try discriminate. congruence. }
  destruct (get_chan s c h) as [ch|] eqn:Ech.
  - rewrite (ensure_chan_id _ _ _ _ Ech), Ech.
    destruct (fx_discard_closing fx && _)%bool; [apply Good_frame; auto|].
    destruct (ch_cur ch) as [u|]; [|apply Good_frame; auto].
    destruct (get_msg s u) as [m|] eqn:Em; [|apply Good_frame; auto].
    destruct (m_has_header m); cbn [negb andb]; [apply Good_frame; auto|].
    destruct (fx_empty_body fx && (size =? 0))%bool.
    + apply (Good_publish_after fx s c h u m); auto.
    + cbn [fst]. apply Good_frame; auto. apply view_upd_msg.
  - rewrite (ensure_chan_new _ _ _ _ Ec Ech). cbn [ch_status channel0 ch_cur]. rewrite andb_false_r. exact G0.
Qed.

Lemma Good_body_opened cfg fx s c h len cn0 :
  VI s -> get_conn s c = Some cn0 -> cstage_eqb (cn_stage cn0) StOpen = true ->
  Good s (fst (step cfg fx s (LBody c h len))) nil1 (placed cfg fx s (LBody c h len)).
Proof.
  intros V Ec Hop. cbn [step]. unfold placed, current. rewrite Ec, Hop. cbn [negb andb].
  assert (G0 : Good s (ensure_chan s c h) nil1 nil1).
  { apply Good_ensure_chan; auto. intros cn E Hs. rewrite Ec in E. inversion E; subst. destruct (cn_stage cn); try discriminate. congruence. }
  destruct (get_chan s c h) as [ch|] eqn:Ech.
  - rewrite (ensure_chan_id _ _ _ _ Ech), Ech.
    destruct (fx_discard_closing fx && _)%bool; [apply Good_frame; auto|].
    destruct (ch_cur ch) as [u|]; [|apply Good_frame; auto].
    destruct (get_msg s u) as [m|] eqn:Em; [|apply Good_frame; auto].
    destruct (m_has_header m); cbn [negb andb]; [|apply Good_frame; auto].
    destruct (m_hsize m <? m_size m + len); cbn [negb andb].
    { apply Good_frame; auto. cbn. apply view_upd_chan_same. intros; cpr. }
    destruct (m_size m + len <? m_hsize m); cbn [negb].
    + cbn [fst]. apply Good_frame; auto. apply view_upd_msg.
    + apply (Good_publish_after fx s c h u m); auto.
  - rewrite (ensure_chan_new _ _ _ _ Ec Ech). cbn [ch_status channel0 ch_cur]. rewrite andb_false_r. exact G0.
Qed.

(* ================================================================== *)
(* queue.delete, auto-delete *)
Lemma view_cancel_fold l : forall s evs,
  view (fst (fold_left (fun acc x => let '(s, evs) := acc in let '(s', e) := consumer_cancel s x in (s', evs ++ e)) l (s, evs))) = view s.
Proof.
  induction l as [|[[c h] tag] t IH]; intros s evs; cbn [fold_left]; auto. cbn [consumer_cancel]. rewrite IH. apply view_consumer_stop.
Qed.

Definition delete_released (s : state) (q : string) (iu ie : bool) (qid : N) : list N :=
  match get_queue s q with
  | Some qu => if delete_refused qu iu ie then [] else ready_if qu qid
  | None => []
  end.

Lemma Good_vhost_delete s q iu ie :
  VI s -> Good s (fst (fst (vhost_delete_queue false s q iu ie))) (delete_released s q iu ie) nil1.
Proof.
  intros V. unfold vhost_delete_queue, delete_released. destruct (get_queue s q) as [qu|] eqn:Eq; [|apply Good_frame; auto].
  fold (delete_refused qu iu ie). destruct (delete_refused qu iu ie); [apply Good_frame; auto|].
  pose proof (view_cancel_fold (q_consumers qu) s []) as E1.
  destruct (fold_left _ (q_consumers qu) (s, [])) as [s1 e1]. cbn [fst] in *.
  destruct (view_inv _ _ E1) as (A & B & C).
  match goal with |- Good _ ?st _ _ =>
    assert (Eqv : qv st = adel seqb q (qv s)) by (unfold qv at 1; destruct (q_durable qu); cbn; rewrite vmap_adel; fold (qv s1); rewrite B; reflexivity);
    assert (Ecv : cv st = cv s) by (destruct (q_durable qu); cbn; exact A);
    assert (Enq : next_qid st = next_qid s) by (destruct (q_durable qu); cbn; exact C)
  end.
  assert (Hl : alookup seqb q (qv s) = Some (qproj qu)) by (rewrite qv_get, Eq; reflexivity).
  apply Good_of_views.
  - unfold VI. rewrite Eqv, Ecv, Enq. apply VInv_adel. exact V.
  - intros qid. rewrite Eqv, Ecv. unfold nil1.
    pose proof (rdy_adel (qv s) q (qproj qu) qid (vi_qkeys _ _ _ V) Hl) as Hr. unfold qcontrib in Hr. cbn in Hr.
    unfold ready_if. perm_lia.
Qed.

Lemma Good_queue_delete cfg fx s c h q iu ie nowait ch :
  fx_delete_checks_first fx = true -> VI s -> get_chan s c h = Some ch ->
  Good s (fst (fst (handle_method cfg fx s c h (MQDelete q iu ie nowait)))) (method_released fx s c h (MQDelete q iu ie nowait)) nil1.
Proof.
  intros F V Ech. unfold handle_method, method_released. rewrite Ech. unfold ok, refuse.
  destruct (queue_found s q) as [qu|] eqn:Ef; [|apply Good_frame; auto].
  pose proof (queue_found_get _ _ _ Ef) as Eg.
  destruct (locked qu c); cbn [orb]; [apply Good_frame; auto|]. rewrite F. cbn [negb].
  pose proof (Good_vhost_delete s q iu ie V) as G. unfold delete_released in G. rewrite Eg in G.
  destruct (vhost_delete_queue false s q iu ie) as [[s1 e1] r1]. cbn [fst] in *. destruct r1; exact G.
Qed.

Lemma Good_autodelete cfg fx s :
  fx_delete_checks_first fx = true -> VI s -> Good s (fst (step cfg fx s LAutoDelete)) (released cfg fx s LAutoDelete) nil1.
Proof.
  intros F V.
  apply (Good_ext s _ (autodelete_released s) nil1); [intros; reflexivity|intros; reflexivity|].
  unfold autodelete_released. cbn [step]. destruct (autodel s) as [|qn rest]; [apply Good_frame; auto|]. rewrite F. cbn [negb].
  assert (E0 : view (s <| autodel := rest |>) = view s) by reflexivity.
  change (get_queue (s <| autodel := rest |>) qn) with (get_queue s qn).
  pose proof (Good_vhost_delete (s <| autodel := rest |>) qn true false (VI_view _ _ E0 V)) as G.
  unfold delete_released in G. change (get_queue (s <| autodel := rest |>) qn) with (get_queue s qn) in G.
  destruct (get_queue s qn) as [qu|]; [|apply Good_frame; auto].
  destruct (q_autodel qu); cbn [andb]; [|apply Good_frame; auto].
  destruct (vhost_delete_queue false (s <| autodel := rest |>) qn true false) as [[s1 e1] r1]. cbn [fst] in *.
  eapply Good_frame_then; [exact E0|exact V|]. eapply Good_ext; [| |exact G]; intros q; [|reflexivity].
  destruct (delete_refused qu true false); reflexivity.
Qed.

(* ================================================================== *)
(* basic.get *)
Lemma Good_get cfg fx s c h q noack ch :
  VI s -> get_chan s c h = Some ch -> h <> 0 -> is_closed (ch_status ch) = false ->
  Good s (fst (fst (handle_method cfg fx s c h (MGet q noack)))) (method_released fx s c h (MGet q noack)) nil1.
Proof.
  intros V Ech Hh Hcl. unfold handle_method, method_released. rewrite Ech. unfold ok, refuse.
  destruct (queue_found s q) as [qu|] eqn:Ef; [|apply Good_nil_rel; [intros; destruct noack; reflexivity|apply Good_frame; auto]].
  pose proof (queue_found_get _ _ _ Ef) as Eq.
  destruct (fx_excl_owner fx && locked qu c); [apply Good_nil_rel; [intros; destruct noack; reflexivity|apply Good_frame; auto]|].
  destruct (q_ready qu) as [|u rest] eqn:Er.
  { apply Good_nil_rel; [intros q0; unfold head_if; rewrite Er; destruct noack, (q_id qu =? q0); reflexivity|apply Good_frame; auto]. }
  match goal with |- context [if noack then (Some [], []) else ?r] => destruct (if noack then (Some [], []) else r) as [okr ws] eqn:Eres end.
  set (s1 := match ws with [w1; w2] => _ | _ => s end).
  assert (E1 : view s1 = view s).
  { subst s1. destruct ws as [|w1 [|w2 [|]]]; auto. destruct (get_conn (set_chan s c h (ch <| ch_qos := w1 |>)) c) eqn:Ec.
    - rewrite (view_set_conn_qos' _ _ _ _ Ec). eapply view_set_chan_same; [eauto|cpr].
    - eapply view_set_chan_same; [eauto|cpr]. }
  assert (Q1 : qv s1 = qv s) by (apply qv_of_view; exact E1).
  assert (C1 : cv s1 = cv s) by (apply cv_of_view; exact E1).
  assert (N1 : next_qid s1 = next_qid s) by (apply nq_of_view; exact E1).
  assert (Ech1 : exists ch1, get_chan s1 c h = Some ch1 /\ cflags ch1 = cflags ch /\ ch_unacked ch1 = ch_unacked ch).
  { pose proof (get_chan_proj s s1 c h C1) as Hp; rewrite Ech in Hp; destruct (get_chan s1 c h) as [ch1|]; [|discriminate].
    cbn in Hp; inversion Hp; eexists; split; [reflexivity|]; unfold cflags; split; congruence. }
  destruct Ech1 as (ch1 & Ech1 & Ef1 & Eu1).
  clearbody s1.
  destruct okr as [okl|]; cbn [fst].
  2:{ apply Good_nil_rel; [intros; destruct noack; [discriminate|reflexivity]|apply Good_frame; auto]. }
  destruct noack.
  - apply (Good_deliver s _ c h q qu u rest true V Eq Er).
    + destruct (fx_noack_total_once fx); qvn; rewrite (qv_upd_queue _ _ _ (p_set_ready rest)) by (intros; apply qproj_popped); rewrite Q1; reflexivity.
    + destruct (fx_noack_total_once fx); nqn; exact N1.
    + destruct (fx_noack_total_once fx); cvn; exact C1.
  - apply (Good_deliver s _ c h q qu u rest false V Eq Er).
    + qvn. rewrite (qv_upd_queue _ _ _ (p_set_ready rest)) by (intros; apply qproj_popped). rewrite Q1. reflexivity.
    + nqn. exact N1.
    + exists ch; eexists; split; [exact Ech|]; split;
         [strip_set; rewrite cv_upd_queue; strip_set;
          rewrite (cv_append _ c h ch1) by (rewrite get_chan_upd_queue; exact Ech1);
          rewrite cv_upd_queue, C1, Ef1, Eu1; reflexivity|].
      split; [|split; [reflexivity|split; [reflexivity|split; [exact Hh|exact Hcl]]]].
      cbn [u_qid]. rewrite (qid_of_shape s); [unfold qid_of; rewrite Eq; reflexivity|].
      rewrite qv_upd_chan, (qv_upd_queue _ _ _ (p_set_ready rest)) by (intros; apply qproj_popped).
      rewrite (qshape_qv_upd _ _ _ (fun p => p_set_ready_shape rest p)), Q1; reflexivity.
Qed.

(* ================================================================== *)
(* closing a channel, as an equation on views *)
Lemma get_chan_of_cv s c h x : cv_get (cv s) c h = Some x -> exists ch, get_chan s c h = Some ch /\ cproj ch = x.
Proof. rewrite cv_get_cv. destruct (get_chan s c h); cbn; [intros H; inversion H; eauto|discriminate]. Qed.

Definition cp_closed : cp := ((true, false), []).

Lemma keep_not_all ts l : (forall u, In u l -> In (u_tag u) ts) -> keep_not ts l = [].
Proof.
  intros H. unfold keep_not. induction l as [|u t IH]; cbn; auto.
  assert (E : existsb (N.eqb (u_tag u)) ts = true) by (apply existsb_exists; exists (u_tag u); split; [apply H; left; reflexivity|apply N.eqb_refl]).
  rewrite E. cbn. apply IH. intros x Hx. apply H. right. exact Hx.
Qed.

Lemma channel_close_view cfg s c h ch : VI s -> get_chan s c h = Some ch ->
  cv (channel_close cfg s c h) = cv_set c h cp_closed (cv s) /\
  qv (channel_close cfg s c h) = fold_left (fun v u => rq u v) (sort_desc (ch_unacked ch)) (qv s) /\
  next_qid (channel_close cfg s c h) = next_qid s.
Proof.
  intros V Ech. unfold channel_close. rewrite Ech.
  set (s1 := fold_left (fun s cm => consumer_stop s c h (c_tag cm)) (ch_consumers ch) s).
  assert (E1 : view s1 = view s) by (subst s1; apply view_fold; intros; apply view_consumer_stop).
  destruct (view_inv _ _ E1) as (Ec1 & Eq1 & En1).
  pose proof (cv_get_chan _ _ _ _ Ech) as Hcg.
  assert (Hg1 : cv_get (cv s1) c h = Some (cflags ch, ch_unacked ch)) by (rewrite Ec1; exact Hcg).
  destruct (get_chan_of_cv _ _ _ _ Hg1) as (ch1 & Ech1 & Ep1). unfold cproj in Ep1. inversion Ep1 as [[Es1 Ehc1 Eu1]].
  clearbody s1.
  set (s2 := upd_chan s1 c h (fun ch => ch <| ch_consumers := [] |>)).
  assert (Ech2 : get_chan s2 c h = Some (ch1 <| ch_consumers := [] |>)) by (subst s2; apply get_chan_upd_chan_same; exact Ech1).
  assert (Ec2 : cv s2 = cv_set c h ((is_closed (ch_status ch), false), ch_unacked ch) (cv s)).
  { subst s2. rewrite cv_upd_chan, Ech1, Ec1. unfold cproj. cbn. rewrite Es1, Eu1. reflexivity. }
  assert (Eq2 : qv s2 = qv s) by (subst s2; rewrite qv_upd_chan; exact Eq1).
  assert (En2 : next_qid s2 = next_qid s) by (subst s2; rewrite next_qid_upd_chan; exact En1).
  assert (Hg2 : cv_get (cv s2) c h = Some ((is_closed (ch_status ch), false), ch_unacked ch)) by (rewrite Ec2; eapply cv_get_set_same; eauto).
  clearbody s2.
  destruct (0 <? h) eqn:Eh.
  - unfold handle_reject. rewrite Ech2. cbn [fst]. cbn [ch_unacked set]. change (ch_unacked (ch1 <| ch_consumers := [] |>)) with (ch_unacked ch1). rewrite Eu1.
    rewrite covered_eq, filter_covered0.
    set (sel := sort_desc (ch_unacked ch)).
    destruct (reject_fold_view c h true sel s2) as (A & B & C). cbv zeta in A, B, C.
    set (s3 := fold_left (fun s u => dec_qos_and_consume_next cfg s c h u) sel _).
    assert (Ec3 : cv s3 = cv_set c h ((is_closed (ch_status ch), false), []) (cv s2)).
    { subst s3. rewrite view_fold_dec_cv, A. rewrite (cv_del_fold _ _ _ _ _ _ Hg2). f_equal. f_equal.
      apply keep_not_all. intros u Hu. subst sel. apply in_map. apply sort_desc_perm. exact Hu. }
    assert (Eq3 : qv s3 = fold_left (fun v u => rq u v) sel (qv s)) by (subst s3; rewrite view_fold_dec_qv, B, Eq2; reflexivity).
    assert (En3 : next_qid s3 = next_qid s) by (subst s3; rewrite view_fold_dec_nq, C; exact En2).
    assert (Hg3 : cv_get (cv s3) c h = Some ((is_closed (ch_status ch), false), [])) by (rewrite Ec3; eapply cv_get_set_same; eauto).
    destruct (get_chan_of_cv _ _ _ _ Hg3) as (ch3 & Ech3 & Ep3). unfold cproj in Ep3. inversion Ep3 as [[Es3 Ehc3 Eu3]].
    clearbody s3. split; [|split].
    + rewrite cv_upd_chan, Ech3, Ec3, Ec2, !cv_set_set. unfold cproj, cp_closed. cbn. rewrite Ehc3, Eu3. reflexivity.
    + rewrite qv_upd_chan. exact Eq3.
    + rewrite next_qid_upd_chan. exact En3.
  - apply N.ltb_ge in Eh. assert (h = 0) by lia. subst h.
    destruct (cz_at _ _ _ _ V Ech (or_introl eq_refl)) as [Hu Hc]. rewrite Hu in *. rewrite ?Eu1. cbn [sort_desc fold_right fold_left].
    destruct (get_chan_of_cv _ _ _ _ Hg2) as (ch3 & Ech3 & Ep3). unfold cproj in Ep3. inversion Ep3 as [[Es3 Ehc3 Eu3]].
    split; [|split].
    + rewrite cv_upd_chan, Ech3, Ec2, !cv_set_set. unfold cproj, cp_closed. cbn. rewrite Ehc3, Eu3. reflexivity.
    + rewrite qv_upd_chan, Eq2. reflexivity.
    + rewrite next_qid_upd_chan. exact En2.
Qed.

(* ================================================================== *)
(* ending a connection *)
Definition chan_l (v : cview) (c h : N) : list unacked := match cv_get v c h with Some (_, l) => l | None => [] end.

Lemma flat_map_ext_in' {A B} (f g : A -> list B) l : (forall x, In x l -> f x = g x) -> flat_map f l = flat_map g l.
Proof. induction l as [|a t IH]; intros H; cbn; auto. rewrite (H a (or_introl eq_refl)), IH; auto. intros x Hx. apply H. right. exact Hx. Qed.
Lemma flat_map_map' {A B C} (g : A -> B) (f : B -> list C) l : flat_map f (map g l) = flat_map (fun x => f (g x)) l.
Proof. induction l as [|a t IH]; cbn; auto. rewrite IH. reflexivity. Qed.

Lemma close_fold_view cfg c ids : forall s, Inv s -> NoDup ids -> (forall h, In h ids -> cv_get (cv s) c h <> None) ->
  let s' := fold_left (fun s h => channel_close cfg s c h) ids s in
  Inv s' /\ cv s' = fold_left (fun v h => cv_set c h cp_closed v) ids (cv s) /\
  qv s' = fold_left (fun v u => rq u v) (flat_map (fun h => sort_desc (chan_l (cv s) c h)) ids) (qv s) /\
  next_qid s' = next_qid s.
Proof.
  induction ids as [|h t IH]; intros s I Hnd Hex; cbn [fold_left flat_map]; [auto|].
  inversion Hnd as [|? ? Hni Hnd']; subst.
  destruct (cv_get (cv s) c h) as [x|] eqn:Eg; [|exfalso; apply (Hex h (or_introl eq_refl)); exact Eg].
  destruct (get_chan_of_cv _ _ _ _ Eg) as (ch & Ech & Ep).
  destruct (channel_close_view cfg s c h ch (proj1 I) Ech) as (A & B & C).
  assert (I1 : Inv (channel_close cfg s c h)) by (split; [exact (proj1 (Good_channel_close cfg s c h I))|apply CI_channel_close; exact (proj2 I)]).
  assert (Hget : forall h', h' <> h -> cv_get (cv (channel_close cfg s c h)) c h' = cv_get (cv s) c h').
  { intros h' Hne. rewrite A, cv_get_set. destruct (cv_get_some_conn _ _ _ _ Eg) as (e & ->). rewrite N.eqb_refl. cbn.
    destruct (h' =? h) eqn:E; auto. apply N.eqb_eq in E. contradiction. }
  destruct (IH (channel_close cfg s c h) I1 Hnd') as (I' & A' & B' & C').
  { intros h' Hin. rewrite Hget; [apply Hex; right; exact Hin|]. intros ->. contradiction. }
  cbv zeta in *. split; [exact I'|]. split; [rewrite A', A; reflexivity|]. split; [|rewrite C'; exact C].
  rewrite B', B. rewrite fold_left_app. f_equal.
  - apply flat_map_ext_in'. intros h' Hin. unfold chan_l. rewrite Hget; auto. intros ->. contradiction.
  - f_equal. f_equal. unfold chan_l. rewrite Eg. rewrite <- Ep. reflexivity.
Qed.

Lemma vhost_delete_view s q :
  cv (fst (fst (vhost_delete_queue false s q false false))) = cv s /\
  qv (fst (fst (vhost_delete_queue false s q false false))) = adel seqb q (qv s) /\
  next_qid (fst (fst (vhost_delete_queue false s q false false))) = next_qid s.
Proof.
  unfold vhost_delete_queue. destruct (get_queue s q) as [qu|] eqn:Eq.
  - cbn [andb orb]. pose proof (view_cancel_fold (q_consumers qu) s []) as E1.
    destruct (fold_left _ (q_consumers qu) (s, [])) as [s1 e1]. cbn [fst] in *. destruct (view_inv _ _ E1) as (A & B & C).
    split; [destruct (q_durable qu); cbn; exact A|]. split; [|destruct (q_durable qu); cbn; exact C].
    unfold qv at 1. destruct (q_durable qu); cbn; rewrite vmap_adel; fold (qv s1); rewrite B; reflexivity.
  - cbn [fst]. split; auto. split; auto. symmetry. apply adel_none. rewrite qv_get, Eq. reflexivity.
Qed.

Lemma delete_fold_view l : forall s evs,
  let s' := fst (fold_left (fun acc qn => let '(s, evs) := acc in
                                          let '(s', e, _) := vhost_delete_queue false s qn false false in (s', evs ++ e)) l (s, evs)) in
  cv s' = cv s /\ qv s' = fold_left (fun v qn => adel seqb qn v) l (qv s) /\ next_qid s' = next_qid s.
Proof.
  induction l as [|qn t IH]; intros s evs; cbn [fold_left]; [auto|].
  destruct (vhost_delete_view s qn) as (A & B & C).
  destruct (vhost_delete_queue false s qn false false) as [[s1 e1] r1]. cbn [fst] in *.
  destruct (IH s1 (evs ++ e1)) as (A' & B' & C'). cbv zeta in *. rewrite A', B', C', A, B, C. auto.
Qed.

Lemma adel_fold_cv_set c x ids : forall v : cview, adel N.eqb c (fold_left (fun v h => cv_set c h x v) ids v) = adel N.eqb c v.
Proof. induction ids as [|h t IH]; intros v; cbn; auto. rewrite IH. apply adel_cv_set. Qed.

Definition Pown (c : N) (e : string * qp) : bool := p_excl (snd e) && (p_owner (snd e) =? c).

Lemma owned_qv c (l : list (string * queue)) :
  map fst (filter (fun kv => q_excl (snd kv) && (q_owner (snd kv) =? c)) l) = map fst (filter (Pown c) (vmap qproj l)).
Proof.
  unfold vmap. induction l as [|[k qu] t IH]; cbn; auto. unfold Pown at 1. cbn. destruct (q_excl qu && (q_owner qu =? c)); cbn; rewrite IH; reflexivity.
Qed.
Lemma owned_by_qv c qid (l : list (string * queue)) :
  existsb (owned_by c qid) l = existsb (fun e => Pown c e && (p_id (snd e) =? qid)) (vmap qproj l).
Proof. unfold vmap. induction l as [|[k qu] t IH]; cbn; auto. rewrite IH. reflexivity. Qed.

Lemma alive_filter_false (f : string * qp -> bool) (v : qview) qid : alive v qid = false -> alive (filter f v) qid = false.
Proof.
  unfold alive. induction v as [|e t IH]; cbn; auto. intros H. apply orb_false_iff in H. destruct H as [H1 H2].
  destruct (f e); cbn; rewrite ?H1; auto.
Qed.

Lemma Good_conn_close cfg fx s c :
  fx_delete_checks_first fx = true -> Inv s -> Good s (fst (conn_close cfg fx s c)) (conn_released s c) nil1.
Proof.
  intros F I. pose proof (proj1 I) as V. unfold conn_close, conn_released.
  destruct (get_conn s c) as [cn|] eqn:Ec; [|apply Good_frame; auto].
  assert (Ecv : alookup N.eqb c (cv s) = Some (nproj cn)) by (unfold cv; rewrite alookup_vmap; unfold get_conn in Ec; rewrite Ec; reflexivity).
  assert (Hinc : In (c, nproj cn) (cv s)) by (eapply alookup_in; eauto; apply Neqb_spec).
  assert (Hkeys : NoDup (map fst (cn_chans cn))).
  { pose proof (vi_hkeys _ _ _ V c (cn_stage cn) (vmap cproj (cn_chans cn)) Hinc) as H. rewrite keys_vmap in H. exact H. }
  set (ids := sort_desc_N (map fst (cn_chans cn))).
  assert (Hperm : Permutation ids (map fst (cn_chans cn))) by apply sort_desc_N_perm.
  assert (Hnd : NoDup ids) by (eapply Permutation_NoDup; [symmetry; exact Hperm|exact Hkeys]).
  assert (Hcg : forall kh, In kh (cn_chans cn) -> cv_get (cv s) c (fst kh) = Some (cproj (snd kh))).
  { intros [h ch] Hin. unfold cv_get. rewrite Ecv. cbn. rewrite alookup_vmap.
    rewrite (nodup_in_alookup N.eqb Neqb_spec _ _ _ Hkeys Hin). reflexivity. }
  assert (Hex : forall h, In h ids -> cv_get (cv s) c h <> None).
  { intros h Hin. apply (Permutation_in _ Hperm) in Hin. apply in_map_iff in Hin. destruct Hin as (kh & <- & Hkh). rewrite (Hcg _ Hkh). discriminate. }
  destruct (close_fold_view cfg c ids s I Hnd Hex) as (I1 & A1 & B1 & C1). cbv zeta in *.
  set (s1 := fold_left (fun s h => channel_close cfg s c h) ids s) in *. clearbody s1.
  rewrite F. cbn [negb]. rewrite owned_qv. fold (qv s1).
  set (owned := map fst (filter (Pown c) (qv s1))).
  destruct (delete_fold_view owned s1 []) as (A2 & B2 & C2). cbv zeta in *.
  destruct (fold_left _ owned (s1, [])) as [s2 e2]. cbn [fst] in *.
  pose proof (proj1 I1) as V1. unfold VI in V1.
  assert (B2' : qv s2 = filter (fun e => negb (Pown c e)) (qv s1)).
  { rewrite B2, fold_adel_filter. apply filter_ext_in. intros e He. f_equal. apply names_of_filter; auto. exact (vi_qkeys _ _ _ V1). }
  assert (Hsh : qshape (qv s1) = qshape (qv s)) by (rewrite B1; apply qshape_rq_fold).
  assert (Ecv3 : cv (s2 <| conns := adel N.eqb c (conns s2) |>) = adel N.eqb c (cv s)).
  { unfold cv at 1. cbn. rewrite vmap_adel. fold (cv s2). rewrite A2, A1. apply adel_fold_cv_set. }
  apply Good_of_views.
  - unfold VI. rewrite Ecv3. change (qv (s2 <| conns := adel N.eqb c (conns s2) |>)) with (qv s2).
    change (next_qid (s2 <| conns := adel N.eqb c (conns s2) |>)) with (next_qid s2). rewrite C2, C1.
    rewrite <- (adel_fold_cv_set c cp_closed ids (cv s)), <- A1. apply VInv_adel_conn.
    + rewrite B2. apply VInv_fold_adel. rewrite <- C1. exact V1.
    + intros n p Hin He. rewrite B2' in Hin. apply filter_In in Hin. destruct Hin as [_ Hf]. unfold Pown in Hf. cbn in Hf. rewrite He in Hf. cbn in Hf.
      intros E. rewrite E, N.eqb_refl in Hf. discriminate.
  - intros qid. rewrite Ecv3. change (qv (s2 <| conns := adel N.eqb c (conns s2) |>)) with (qv s2). unfold nil1.
    set (M := msgs_from qid (chan_unacked_all cn)).
    assert (U1 : Permutation (una (cv s) qid) (una (adel N.eqb c (cv s)) qid ++ M)).
    { unfold una, M. rewrite <- msgs_from_app. apply msgs_from_perm.
      replace (chan_unacked_all cn) with (conn_au (nproj cn)); [apply au_adel; [exact (vi_ckeys _ _ _ V)|exact Ecv]|].
      unfold conn_au, nproj, chan_unacked_all. cbn [snd]. rewrite flat_map_vmap. reflexivity. }
    set (D := flat_map (fun h => sort_desc (chan_l (cv s) c h)) ids) in *.
    assert (HD : Permutation D (chan_unacked_all cn)).
    { unfold D. etransitivity; [apply Permutation_flat_map; exact Hperm|]. rewrite flat_map_map'. unfold chan_unacked_all.
      apply perm_flat_map_ext_in. intros kh Hkh. unfold chan_l. rewrite (Hcg _ Hkh). cbn. apply sort_desc_permutation. }
    assert (HDin : forall u, In u D -> In u (au (cv s))).
    { intros u Hu. apply (Permutation_in _ HD) in Hu. unfold chan_unacked_all in Hu. apply in_flat_map in Hu. destruct Hu as (kh & Hkh & Hu).
      eapply (cv_get_au (cv s) c (fst kh)); [exact (Hcg _ Hkh)|exact Hu]. }
    assert (R1 : Permutation (rdy (qv s1) qid) ((if alive (qv s) qid then M else []) ++ rdy (qv s) qid)).
    { rewrite B1. rewrite (rdy_rq_fold D qid (qv s) (vi_active _ _ _ V)).
      rewrite (msgs_from_origin (cv s) (qv s) (next_qid s) D qid V HDin). destruct (alive (qv s) qid); [|reflexivity].
      apply Permutation_app_tail. apply msgs_from_perm. exact HD. }
    rewrite queue_alive_qv, owned_by_qv. fold (qv s).
    assert (Eown : existsb (fun e => Pown c e && (p_id (snd e) =? qid)) (qv s) = existsb (fun e => Pown c e && (p_id (snd e) =? qid)) (qv s1)).
    { symmetry. exact (existsb_shape (qv s) (qv s1) (fun t => let '(i, ex, o, a) := t in ex && (o =? c) && (i =? qid)) Hsh). }
    rewrite Eown. rewrite B2'.
    destruct (alive (qv s) qid) eqn:Ea; cbn [negb orb].
    + destruct (existsb (fun e => Pown c e && (p_id (snd e) =? qid)) (qv s1)) eqn:Eo.
      * apply existsb_exists in Eo. destruct Eo as ([n p] & Hin & Hp). apply andb_prop in Hp. destruct Hp as [Hp1 Hp2]. apply N.eqb_eq in Hp2. cbn in Hp2.
        rewrite (rdy_filter_gone _ (qv s1) n p qid (vi_qids _ _ _ V1) Hin Hp2) by (rewrite Hp1; reflexivity).
        rewrite ready_of_qv. perm_lia.
      * rewrite rdy_filter_other; [perm_lia|]. intros e He Hf Hid. apply Bool.negb_false_iff in Hf.
        assert (existsb (fun e => Pown c e && (p_id (snd e) =? qid)) (qv s1) = true); [|congruence].
        apply existsb_exists. exists e. split; auto. rewrite Hf. apply N.eqb_eq. exact Hid.
    + assert (E0 : rdy (qv s) qid = []) by (apply alive_false_rdy; exact Ea).
      assert (E2 : rdy (filter (fun e => negb (Pown c e)) (qv s1)) qid = []).
      { apply alive_false_rdy. apply alive_filter_false. rewrite (alive_shape _ _ qid Hsh). exact Ea. }
      rewrite E2, ready_of_qv, E0. perm_lia.
Qed.

(* ================================================================== *)
(* connections that have not completed the handshake *)
Lemma conn_stage_cv s c cn : get_conn s c = Some cn -> alookup N.eqb c (cv s) = Some (nproj cn).
Proof. intros Ec. unfold cv. rewrite alookup_vmap. unfold get_conn in Ec. rewrite Ec. reflexivity. Qed.

Lemma unopened_empty s c cn : VI s -> get_conn s c = Some cn -> cstage_eqb (cn_stage cn) StOpen = false -> chan_unacked_all cn = [].
Proof.
  intros V Ec Hs. pose proof (conn_stage_cv _ _ _ Ec) as Ecv.
  assert (Hin : In (c, nproj cn) (cv s)) by (eapply alookup_in; eauto; apply Neqb_spec).
  assert (Hne : cn_stage cn <> StOpen) by (intros E; rewrite E in Hs; discriminate).
  unfold chan_unacked_all. 
  assert (H : forall kh, In kh (cn_chans cn) -> ch_unacked (snd kh) = []).
  { intros [h ch] Hk. assert (Hk' : In (h, cproj ch) (vmap cproj (cn_chans cn))) by (unfold vmap; apply in_map_iff; exists (h, ch); auto).
    pose proof (vi_quiet _ _ _ V c _ _ Hin Hne h _ Hk') as H0. unfold cproj in Hk'.
    exact (proj1 (vi_cz _ _ _ V c _ _ h _ _ Hin Hk' (or_introl H0))). }
  induction (cn_chans cn) as [|kh t IH]; cbn; auto. rewrite (H kh (or_introl eq_refl)). cbn. apply IH. intros x Hx. apply H. right. exact Hx.
Qed.

Lemma conn_released_unopened s c qid : VI s -> conn_opened s c = false -> conn_released s c qid = [].
Proof.
  intros V Hop. unfold conn_released. destruct (get_conn s c) as [cn|] eqn:Ec; auto.
  rewrite (conn_opened_stage _ _ _ Ec) in Hop. rewrite (unopened_empty _ _ _ V Ec Hop). cbn [msgs_from map filter]. unfold msgs_from. cbn.
  assert (Eo : existsb (owned_by c qid) (queues s) = false).
  { apply Bool.not_true_is_false. intros Hx. apply existsb_exists in Hx. destruct Hx as ([n qu] & Hin & Hp). unfold owned_by in Hp. cbn in Hp.
    apply andb_prop in Hp. destruct Hp as [Hp _]. apply andb_prop in Hp. destruct Hp as [He Ho]. apply N.eqb_eq in Ho.
    assert (Hq : In (n, qproj qu) (qv s)) by (unfold qv, vmap; apply in_map_iff; exists (n, qu); auto).
    pose proof (vi_owner _ _ _ V _ _ Hq He) as H. cbn in H. rewrite Ho, opened_cv, (conn_opened_stage _ _ _ Ec) in H. congruence. }
  rewrite Eo. destruct (queue_alive s qid) eqn:Ea; cbn; auto.
  rewrite ready_of_qv, app_nil_r. apply alive_false_rdy. rewrite <- queue_alive_qv. exact Ea.
Qed.

Lemma VInv_set_stage cw qw nq c st st' chs :
  VInv cw qw nq -> alookup N.eqb c cw = Some (st, chs) -> st <> StOpen -> VInv (aset N.eqb c (st', chs) cw) qw nq.
Proof.
  intros [A1 A2 A3 A4 A5 A6 A7 A8 A9 A10] Ec Hst.
  assert (Hin : In (c, (st, chs)) cw) by (eapply alookup_in; eauto; apply Neqb_spec).
  assert (Hnew : forall c' s' chs', In (c', (s', chs')) (aset N.eqb c (st', chs) cw) -> In (c', (s', chs')) cw \/ (c' = c /\ chs' = chs)).
  { intros c' s' chs' H. apply in_aset in H. destruct H as [H|H]; auto. inversion H; subst. auto. }
  assert (Hau : au (aset N.eqb c (st', chs) cw) = au cw).
  { destruct (flat_map_aset_split N.eqb Neqb_spec (fun n : np => flat_map (fun he : N * cp => snd (snd he)) (snd n)) c (st, chs) (st', chs) cw Ec) as (A & B & E1 & E2).
    unfold au. etransitivity; [exact E2|]. symmetry. exact E1. }
  constructor; auto.
  - rewrite (keys_aset N.eqb Neqb_spec), Ec. exact A1.
  - intros c' s' chs' H. apply Hnew in H. destruct H as [H|[-> ->]]; eauto.
  - intros u Hu. rewrite Hau in Hu. auto.
  - intros c' s' chs' H Hs h x Hx. apply Hnew in H. destruct H as [H|[-> ->]]; eauto.
  - intros n p Hp He. pose proof (A8 n p Hp He) as Ho. unfold opened in *. rewrite (alookup_aset N.eqb Neqb_spec).
    destruct (p_owner p =? c) eqn:E; auto. apply N.eqb_eq in E. rewrite E, Ec in Ho. destruct st; try discriminate. congruence.
  - intros c' s' chs' h b l H Hx. apply Hnew in H. destruct H as [H|[-> ->]]; eauto.
Qed.

Lemma Good_set_stage s c st' cn : VI s -> get_conn s c = Some cn -> cstage_eqb (cn_stage cn) StOpen = false ->
  Good s (set_stage s c st') nil1 nil1.
Proof.
  intros V Ec Hs. unfold set_stage. rewrite Ec. pose proof (conn_stage_cv _ _ _ Ec) as Ecv.
  assert (Ev : cv (s <| conns := aset N.eqb c (cn <| cn_stage := st' |>) (conns s) |>) = aset N.eqb c (st', vmap cproj (cn_chans cn)) (cv s)).
  { unfold cv. cbn. rewrite vmap_aset. reflexivity. }
  assert (Hne : cn_stage cn <> StOpen) by (intros E; rewrite E in Hs; discriminate).
  apply Good_of_views.
  - unfold VI. rewrite Ev. eapply VInv_set_stage; eauto.
  - intros qid. rewrite Ev. unfold una.
    destruct (flat_map_aset_split N.eqb Neqb_spec (fun n : np => flat_map (fun he : N * cp => snd (snd he)) (snd n)) c (nproj cn) (st', vmap cproj (cn_chans cn)) (cv s) Ecv) as (A & B & E1 & E2).
    assert (Hau : au (aset N.eqb c (st', vmap cproj (cn_chans cn)) (cv s)) = au (cv s)) by (unfold au; etransitivity; [exact E2|symmetry; exact E1]).
    rewrite Hau. reflexivity.
Qed.

(* an error on the connection: the connection is dropped if it has not completed the handshake *)
Lemma apply_err_st_conn cfg fx opened s0 c h s1 a b d :
  fst (apply_err_st cfg fx opened s0 c h (refuse s1 (ConnErr a b d))) = if opened then s1 else fst (conn_close cfg fx s1 c).
Proof. unfold apply_err_st, refuse, apply_err. cbn. destruct opened; cbn; auto. destruct (conn_close cfg fx s1 c); reflexivity. Qed.

Lemma Good_drop_unopened cfg fx s c :
  fx_delete_checks_first fx = true -> Inv s -> conn_opened s c = false -> Good s (fst (conn_close cfg fx s c)) nil1 nil1.
Proof.
  intros F I Hop. apply (Good_ext s _ (conn_released s c) nil1); [|intros; reflexivity|apply Good_conn_close; auto].
  intros q. rewrite (conn_released_unopened s c q (proj1 I) Hop). reflexivity.
Qed.

Lemma Good_err_st cfg fx (opened : bool) s0 c h s1 a b d :
  fx_delete_checks_first fx = true -> Inv s1 -> (opened = false -> conn_opened s1 c = false) ->
  Good s1 (fst (apply_err_st cfg fx opened s0 c h (refuse s1 (ConnErr a b d)))) nil1 nil1.
Proof.
  intros F I Hop. rewrite apply_err_st_conn. destruct opened; [apply Good_frame; [reflexivity|exact (proj1 I)]|].
  apply Good_drop_unopened; auto.
Qed.
(* ================================================================== *)
(* the methods handled by the first dispatch lemma (the others follow in Good_handle_method_all) *)
Definition covered_meth (m : meth) : bool :=
  match m with
  | MConnClose | MConnCloseOk | MGet _ _ | MQDelete _ _ _ _ | MStartOk _ | MTuneOk _ | MConnOpen _ => false
  | _ => true
  end.
Lemma ensure_chan_some s c h cn : get_conn s c = Some cn -> exists ch, get_chan (ensure_chan s c h) c h = Some ch.
Proof.
  intros Ec. unfold ensure_chan. rewrite Ec. destruct (alookup N.eqb h (cn_chans cn)) as [ch|] eqn:Eh.
  - exists ch. unfold get_chan. rewrite Ec. exact Eh.
  - exists channel0. unfold get_chan, get_conn. cbn. rewrite (alookup_aset N.eqb Neqb_spec), N.eqb_refl. cbn.
    rewrite (alookup_aset N.eqb Neqb_spec), N.eqb_refl. reflexivity.
Qed.
Lemma ensure_chan_conn s c h cn : get_conn s c = Some cn -> exists cn', get_conn (ensure_chan s c h) c = Some cn' /\ cn_stage cn' = cn_stage cn.
Proof.
  intros Ec. unfold ensure_chan. rewrite Ec. destruct (alookup N.eqb h (cn_chans cn)); [eauto|].
  unfold get_conn. cbn. rewrite (alookup_aset N.eqb Neqb_spec), N.eqb_refl. eexists. split; reflexivity.
Qed.

Lemma Good_handle_method cfg fx s c h m ch :
  fx_stage fx = true -> fx_chan_open fx = true -> fx_closeok_releases fx = true ->
  Inv s -> conn_opened s c = true -> get_chan s c h = Some ch -> covered_meth m = true -> dispatched fx s c h m = true ->
  Good s (fst (fst (handle_method cfg fx s c h m))) (method_released fx s c h m) nil1.
Proof.
  intros F1 F2 F3 [V Hci] Hop Ech Hcov Hd.
  destruct (frame_meth m) eqn:Hf.
  { apply Good_nil_rel; [intros q; destruct m; try discriminate; reflexivity|]. apply Good_frame; auto. apply view_handle_method_frame; auto. }
  destruct m; try discriminate.
  - apply Good_channel_open; auto.
  - unfold handle_method. rewrite Ech. unfold ok. cbn [fst]. apply Good_channel_close. split; auto.
  - unfold handle_method, method_released. rewrite Ech, F3. unfold ok. cbn [fst]. apply Good_channel_close. split; auto.
  - apply Good_queue_declare; auto.
  - pose proof (Good_purge cfg fx s c h q nowait V) as G. rewrite Ech in G. exact G.
  - apply Good_consume; auto.
    + unfold dispatched in Hd. destruct (get_conn s c); [|discriminate]. rewrite F1 in Hd. cbn in Hd.
      intros ->. cbn in Hd. rewrite !andb_false_r in Hd. cbn in Hd. rewrite ?andb_false_r in Hd. discriminate.
    + intros ch0 E0. rewrite Ech in E0. inversion E0; subst ch0. unfold dispatched in Hd. destruct (get_conn s c); [|discriminate].
      rewrite F2 in Hd. unfold chan_usable in Hd. rewrite Ech in Hd. destruct (ch_status ch); cbn in *; auto.
      rewrite !andb_false_r in Hd. discriminate.
  - apply Good_cancel; auto.
  - unfold handle_method. rewrite Ech. pose proof (Good_handle_ack cfg s c h tag mult (conj V Hci)) as G.
    destruct (handle_ack cfg s c h tag mult) as [s1 e1]. exact G.
  - unfold handle_method. rewrite Ech. pose proof (Good_handle_reject cfg s c h tag mult requeue 60 120 (conj V Hci)) as G.
    destruct (handle_reject cfg s c h tag mult requeue 60 120) as [s1 e1]. exact G.
  - unfold handle_method. rewrite Ech. pose proof (Good_handle_reject cfg s c h tag false requeue 60 90 (conj V Hci)) as G.
    destruct (handle_reject cfg s c h tag false requeue 60 90) as [s1 e1]. exact G.
Qed.

Lemma method_dispatch cfg fx s c h m cn0 :
  get_conn s c = Some cn0 -> cstage_eqb (cn_stage cn0) StOpen = true ->
  match m with MConnClose | MConnCloseOk => False | _ => True end ->
  fst (step cfg fx s (LMethod c h m)) =
  if dispatched fx (ensure_chan s c h) c h m
  then fst (apply_err (ensure_chan s c h) c h (handle_method cfg fx (ensure_chan s c h) c h m)) else ensure_chan s c h.
Proof.
  intros Ec Hop Hm. cbn [step]. rewrite Ec, Hop. cbn [negb andb].
  destruct (ensure_chan_conn s c h cn0 Ec) as (cn' & Ec' & Es'). unfold dispatched. rewrite Ec', Es'.
  set (s0 := ensure_chan s c h) in *. set (X := handle_method cfg fx s0 c h m).
  assert (HX : fst (apply_err_st cfg fx true s0 c h X) = fst (apply_err s0 c h X)) by reflexivity.
  clearbody X.
  destruct m; try contradiction; cbv zeta.
  all: destruct (fx_discard_closing fx && _ && negb (is_chan_close _))%bool; [reflexivity|].
  all: destruct (fx_stage fx && negb (Bool.eqb _ _))%bool; [reflexivity|].
  all: destruct (fx_stage fx && negb (stage_allows _ _))%bool; [reflexivity|].
  all: destruct (fx_chan_open fx && negb _ && negb (chan_usable _ _ _) && negb _)%bool; [reflexivity|].
  all: exact HX.
Qed.


(* ================================================================== *)
(* every method, once dispatched on an opened connection *)
Lemma Good_handle_method_all cfg fx s c h m ch :
  fx_stage fx = true -> fx_chan_open fx = true -> fx_closeok_releases fx = true -> fx_delete_checks_first fx = true ->
  Inv s -> conn_opened s c = true -> get_chan s c h = Some ch -> dispatched fx s c h m = true ->
  Good s (fst (fst (handle_method cfg fx s c h m))) (method_released fx s c h m) nil1.
Proof.
  intros F1 F2 F3 F4 I Hop Ech Hd.
  destruct (covered_meth m) eqn:Hc; [apply (Good_handle_method cfg fx s c h m ch); auto|].
  pose proof (proj1 I) as V.
  destruct m; try discriminate.
  - (* queue.delete *) apply (Good_queue_delete cfg fx s c h q ifunused ifempty nowait ch); auto.
  - (* basic.get *) apply (Good_get cfg fx s c h q noack ch); auto.
    + unfold dispatched in Hd. destruct (get_conn s c); [|discriminate]. rewrite F1 in Hd. cbn in Hd.
      intros ->. cbn in Hd. rewrite !andb_false_r in Hd. cbn in Hd. rewrite ?andb_false_r in Hd. discriminate.
    + unfold dispatched in Hd. destruct (get_conn s c); [|discriminate].
      rewrite F2 in Hd. unfold chan_usable in Hd. rewrite Ech in Hd. destruct (ch_status ch); cbn in *; auto.
      rewrite !andb_false_r in Hd. discriminate.
  - apply Good_frame; auto. apply view_handle_method_frame. reflexivity.
  - apply Good_frame; auto. apply view_handle_method_frame. reflexivity.
  - exfalso. unfold dispatched in Hd. destruct (get_conn s c) as [cn|] eqn:Ec; [|discriminate]. rewrite (conn_opened_stage _ _ _ Ec) in Hop.
    rewrite F1 in Hd. cbn [stage_allows] in Hd. destruct (cn_stage cn); try discriminate. cbn in Hd. rewrite !andb_false_r in Hd. discriminate.
  - exfalso. unfold dispatched in Hd. destruct (get_conn s c) as [cn|] eqn:Ec; [|discriminate]. rewrite (conn_opened_stage _ _ _ Ec) in Hop.
    rewrite F1 in Hd. cbn [stage_allows] in Hd. destruct (cn_stage cn); try discriminate. cbn in Hd. rewrite !andb_false_r in Hd. discriminate.
  - exfalso. unfold dispatched in Hd. destruct (get_conn s c) as [cn|] eqn:Ec; [|discriminate]. rewrite (conn_opened_stage _ _ _ Ec) in Hop.
    rewrite F1 in Hd. cbn [stage_allows] in Hd. destruct (cn_stage cn); try discriminate. cbn in Hd. rewrite !andb_false_r in Hd. discriminate.
Qed.

Lemma method_unopened cfg fx s c m cn0 :
  fx_stage fx = true -> get_conn s c = Some cn0 -> cstage_eqb (cn_stage cn0) StOpen = false ->
  fst (step cfg fx s (LMethod c 0 m)) = ensure_chan s c 0 \/
  fst (step cfg fx s (LMethod c 0 m)) = fst (conn_close cfg fx (ensure_chan s c 0) c) \/
  exists st, fst (step cfg fx s (LMethod c 0 m)) = set_stage (ensure_chan s c 0) c st.
Proof.
  intros F1 Ec Hs. cbn [step]. rewrite Ec, Hs. cbn [negb N.eqb andb].
  destruct (ensure_chan_some s c 0 cn0 Ec) as (ch0 & Ech0).
  set (s0 := ensure_chan s c 0) in *.
  assert (Hconn : forall a b d, fst (apply_err_st cfg fx false s0 c 0 (refuse s0 (ConnErr a b d))) = fst (conn_close cfg fx s0 c))
    by (intros; apply apply_err_st_conn).
  destruct m;
    try (rewrite F1; cbn [negb N.eqb andb]; right; left; try reflexivity; destruct (conn_close cfg fx s0 c); reflexivity).
  all: cbv zeta.
  all: destruct (fx_discard_closing fx && _ && negb (is_chan_close _))%bool; [left; reflexivity|].
  all: rewrite F1.
  all: try (cbn [is_conn_class meth_ids fst]; change (20 =? 10) with false; change (40 =? 10) with false; change (50 =? 10) with false;
            change (60 =? 10) with false; change (85 =? 10) with false; change (90 =? 10) with false; change (0 =? 0) with true;
            cbn [Bool.eqb negb andb]; right; left; apply Hconn).
  all: cbn [is_conn_class meth_ids fst]; change (10 =? 10) with true; change (0 =? 0) with true; cbn [Bool.eqb negb andb].
  all: destruct (stage_allows _ _); cbn [negb]; [|right; left; apply Hconn].
  all: rewrite ?andb_false_r; cbn [andb].
  all: unfold handle_method; rewrite Ech0; unfold ok, refuse.
  all: try destruct good; try destruct within; try destruct vhost_ok.
  all: try (right; left; apply Hconn).
  all: right; right; eexists; unfold apply_err_st; cbn; reflexivity.
Qed.

(* ================================================================== *)
(* content frames on any connection *)
Lemma conn_opened_view s s' c : cv s' = cv s -> conn_opened s' c = conn_opened s c.
Proof. intros E. rewrite <- !opened_cv, E. reflexivity. Qed.

Lemma conn_opened_ensure s c h c' : conn_opened (ensure_chan s c h) c' = conn_opened s c'.
Proof.
  unfold ensure_chan. destruct (get_conn s c) as [cn|] eqn:Ec; auto. destruct (alookup N.eqb h (cn_chans cn)); auto.
  unfold conn_opened, get_conn in *. cbn. rewrite (alookup_aset N.eqb Neqb_spec). destruct (c' =? c) eqn:E; auto.
  apply N.eqb_eq in E. subst. rewrite Ec. reflexivity.
Qed.

Lemma Good_ensure s c h cn0 : VI s -> get_conn s c = Some cn0 -> negb (cstage_eqb (cn_stage cn0) StOpen) && negb (h =? 0) = false ->
  Good s (ensure_chan s c h) nil1 nil1.
Proof.
  intros V Ec Hg. apply Good_ensure_chan; auto. intros cn E Hs. rewrite Ec in E. inversion E; subst.
  destruct (cstage_eqb (cn_stage cn) StOpen) eqn:E1; [destruct (cn_stage cn); try discriminate; congruence|].
  cbn in Hg. apply Bool.negb_false_iff in Hg. apply N.eqb_eq in Hg. exact Hg.
Qed.

Lemma Good_header cfg fx s c h mid size pers :
  fx_delete_checks_first fx = true -> Inv s ->
  Good s (fst (step cfg fx s (LHeader c h mid size pers))) nil1 (placed cfg fx s (LHeader c h mid size pers)).
Proof.
  intros F I. pose proof (proj1 I) as V. cbn [step]. unfold placed, current. destruct (get_conn s c) as [cn0|] eqn:Ec; [|apply Good_frame; auto].
  set (op := cstage_eqb (cn_stage cn0) StOpen).
  assert (Hop : op = false -> conn_opened s c = false) by (intros E; rewrite (conn_opened_stage _ _ _ Ec); exact E).
  destruct (negb op && negb (h =? 0)) eqn:Eg.
  { apply Good_drop_unopened; auto. apply Hop. destruct op; [discriminate|reflexivity]. }
  pose proof (Good_ensure s c h cn0 V Ec Eg) as G0.
  destruct (get_chan s c h) as [ch|] eqn:Ech.
  - rewrite (ensure_chan_id _ _ _ _ Ech), Ech.
    destruct (fx_discard_closing fx && _)%bool; [apply Good_frame; auto|].
    destruct (ch_cur ch) as [u|]; [|apply Good_err_st; auto].
    destruct (get_msg s u) as [m|] eqn:Em; [|apply Good_frame; auto].
    destruct (m_has_header m); cbn [negb andb]; [apply Good_err_st; auto|].
    destruct (fx_empty_body fx && (size =? 0))%bool.
    + apply (Good_publish_after fx s c h u m); auto.
    + cbn [fst]. apply Good_frame; auto. apply view_upd_msg.
  - rewrite (ensure_chan_new _ _ _ _ Ec Ech). cbn [ch_status channel0 ch_cur]. rewrite andb_false_r.
    eapply Good2; [exact G0|]. apply Good_err_st; auto.
    + split; [exact (proj1 G0)|apply CI_ensure_chan; exact (proj2 I)].
    + intros E. rewrite conn_opened_ensure. auto.
Qed.

Lemma Good_body cfg fx s c h len :
  fx_delete_checks_first fx = true -> Inv s ->
  Good s (fst (step cfg fx s (LBody c h len))) nil1 (placed cfg fx s (LBody c h len)).
Proof.
  intros F I. pose proof (proj1 I) as V. cbn [step]. unfold placed, current. destruct (get_conn s c) as [cn0|] eqn:Ec; [|apply Good_frame; auto].
  set (op := cstage_eqb (cn_stage cn0) StOpen).
  assert (Hop : op = false -> conn_opened s c = false) by (intros E; rewrite (conn_opened_stage _ _ _ Ec); exact E).
  destruct (negb op && negb (h =? 0)) eqn:Eg.
  { apply Good_drop_unopened; auto. apply Hop. destruct op; [discriminate|reflexivity]. }
  pose proof (Good_ensure s c h cn0 V Ec Eg) as G0.
  destruct (get_chan s c h) as [ch|] eqn:Ech.
  - rewrite (ensure_chan_id _ _ _ _ Ech), Ech.
    destruct (fx_discard_closing fx && _)%bool; [apply Good_frame; auto|].
    destruct (ch_cur ch) as [u|]; [|apply Good_err_st; auto].
    destruct (get_msg s u) as [m|] eqn:Em; [|apply Good_frame; auto].
    destruct (m_has_header m); cbn [negb andb]; [|apply Good_err_st; auto].
    destruct (m_hsize m <? m_size m + len); cbn [negb andb].
    { assert (E1 : view (upd_chan s c h (fun ch => ch <| ch_cur := None |>)) = view s) by (apply view_upd_chan_same; intros; cpr).
      eapply Good2; [apply Good_frame; [exact E1|exact V]|]. apply Good_err_st; auto.
      - split; [eapply VI_view; eauto|]. apply allch_upd_chan; [intros ch0 Hc0; eapply chinvp_set; [..|exact Hc0]; reflexivity|exact (proj2 I)].
      - intros E. rewrite (conn_opened_view _ _ c (cv_of_view _ _ E1)). auto. }
    destruct (m_size m + len <? m_hsize m); cbn [negb].
    + cbn [fst]. apply Good_frame; auto. apply view_upd_msg.
    + apply (Good_publish_after fx s c h u m); auto.
  - rewrite (ensure_chan_new _ _ _ _ Ec Ech). cbn [ch_status channel0 ch_cur]. rewrite andb_false_r.
    eapply Good2; [exact G0|]. apply Good_err_st; auto.
    + split; [exact (proj1 G0)|apply CI_ensure_chan; exact (proj2 I)].
    + intros E. rewrite conn_opened_ensure. auto.
Qed.

(* ================================================================== *)
(* restart *)
Lemma qids_qv s : qids (qv s) = map (fun kq => q_id (snd kq)) (queues s).
Proof. unfold qids, qv, vmap. rewrite map_map. reflexivity. Qed.

Lemma rdy_recovered s qid (l : list (string * queue)) :
  rdy (map (fun kv : string * queue => (fst kv, {| p_id := q_id (snd kv); p_excl := false; p_owner := 0; p_active := true; p_ready := stored_of s (fst kv) |}))
           (filter (fun kv : string * queue => q_durable (snd kv)) l)) qid
  = flat_map (fun kq => if q_durable (snd kq) && (q_id (snd kq) =? qid) then stored_of s (fst kq) else []) l.
Proof.
  unfold rdy. induction l as [|kq t IH]; cbn; auto. destruct (q_durable (snd kq)); cbn; rewrite IH; reflexivity.
Qed.

Lemma Good_restart cfg s : VI s -> Good s (fst (restart cfg s)) (held s) (recovered s).
Proof.
  intros V. unfold restart. cbn [fst].
  set (rqf := fun kv : string * queue => (fst kv, new_queue (q_id (snd kv)) 0 true false (q_autodel (snd kv))
               <| q_ready := stored_of s (fst kv) |> <| q_len := Z.of_nat (List.length (stored_of s (fst kv))) |>
               <| q_mready := Z.of_nat (List.length (stored_of s (fst kv))) |> <| q_mtotal := Z.of_nat (List.length (stored_of s (fst kv))) |>)).
  set (durq := filter (fun kv : string * queue => q_durable (snd kv)) (queues s)).
  match goal with |- Good _ ?st _ _ => set (s' := st) end.
  assert (Eq : qv s' = map (fun kv => (fst kv, {| p_id := q_id (snd kv); p_excl := false; p_owner := 0; p_active := true; p_ready := stored_of s (fst kv) |})) durq).
  { subst s'. unfold qv, vmap. cbn [queues]. fold durq. rewrite map_map. reflexivity. }
  assert (Ec : cv s' = []) by reflexivity.
  assert (En : next_qid s' = next_qid s) by reflexivity.
  split.
  - unfold VI. rewrite Ec, Eq, En. constructor; cbn; try (intros; contradiction); try constructor.
    + rewrite map_map. cbn. subst durq. pose proof (vi_qkeys _ _ _ V) as H. unfold qv in H. rewrite keys_vmap in H.
      apply NoDup_map_filter. exact H.
    + unfold qids. rewrite map_map. cbn. subst durq. pose proof (vi_qids _ _ _ V) as H. rewrite qids_qv in H.
      apply NoDup_map_filter. exact H.
    + intros n p Hin. apply in_map_iff in Hin. destruct Hin as ([k qu] & E & Hk). cbn in E. inversion E; subst n p. cbn.
      subst durq. apply filter_In in Hk. destruct Hk as [Hk _].
      apply (vi_qbound _ _ _ V k (qproj qu)). unfold qv, vmap. apply in_map_iff. exists (k, qu). auto.
    + intros n p Hin He. apply in_map_iff in Hin. destruct Hin as ([k qu] & E & Hk). inversion E; subst. discriminate.
    + intros n p Hin. apply in_map_iff in Hin. destruct Hin as ([k qu] & E & Hk). inversion E; subst. reflexivity.
  - intros qid. rewrite (held_view s'), Ec, Eq. unfold una. cbn [au flat_map msgs_from map filter]. rewrite app_nil_r.
    assert (Er : rdy (map (fun kv : string * queue => (fst kv, {| p_id := q_id (snd kv); p_excl := false; p_owner := 0; p_active := true; p_ready := stored_of s (fst kv) |})) durq) qid
                 = recovered s qid).
    { subst durq. apply rdy_recovered. }
    rewrite Er. apply Permutation_app_comm.
Qed.

(* ================================================================== *)
(* every label *)
Lemma released_method_any cfg fx s c h m qid :
  match m with MConnClose | MConnCloseOk => False | _ => True end -> conn_opened s c = true ->
  released cfg fx s (LMethod c h m) qid =
  if dispatched fx (ensure_chan s c h) c h m then method_released fx (ensure_chan s c h) c h m qid else [].
Proof. intros Hc Hop. unfold released. rewrite Hop. destruct m; try contradiction; reflexivity. Qed.

Lemma released_unopened cfg fx s c h m qid : conn_opened s c = false -> released cfg fx s (LMethod c h m) qid = [].
Proof. intros Hop. unfold released. rewrite Hop. reflexivity. Qed.

Section Step.
Variables (cfg : config) (fx : fixes).
Hypotheses (F1 : fx_stage fx = true) (F2 : fx_chan_open fx = true) (F3 : fx_closeok_releases fx = true)
           (F4 : fx_delete_checks_first fx = true).

Lemma Good_method_opened s c h m cn0 :
  Inv s -> get_conn s c = Some cn0 -> cstage_eqb (cn_stage cn0) StOpen = true ->
  Good s (fst (step cfg fx s (LMethod c h m))) (released cfg fx s (LMethod c h m)) nil1.
Proof.
  intros [V Hci] Ec Hst. assert (Hop : conn_opened s c = true) by (rewrite (conn_opened_stage _ _ _ Ec); exact Hst).
  assert (G0 : Good s (ensure_chan s c h) nil1 nil1) by (apply (Good_ensure s c h cn0); auto; rewrite Hst; reflexivity).
  assert (I0 : Inv (ensure_chan s c h)) by (split; [exact (proj1 G0)|apply CI_ensure_chan; exact Hci]).
  assert (Hcc : forall (b : bool), Good s (if b then ensure_chan s c h else fst (conn_close cfg fx (ensure_chan s c h) c))
                  (fun qid => if b then [] else conn_released (ensure_chan s c h) c qid) nil1).
  { intros [|]; [exact G0|]. pose proof (Good_conn_close cfg fx (ensure_chan s c h) c F4 I0) as G1.
    eapply Good_ext; [| |exact (Good_trans _ _ _ _ _ _ _ G0 G1)]; intros q; unfold nil1; rewrite ?app_nil_r; reflexivity. }
  assert (Hm : match m with MConnClose | MConnCloseOk => False | _ => True end \/ m = MConnClose \/ m = MConnCloseOk)
    by (destruct m; auto).
  destruct Hm as [Hm|[->| ->]].
  - rewrite (method_dispatch cfg fx s c h m cn0 Ec Hst Hm).
    apply (Good_ext s _ (fun q => if dispatched fx (ensure_chan s c h) c h m then method_released fx (ensure_chan s c h) c h m q else []) nil1);
      [intros q; rewrite (released_method_any cfg fx s c h m q Hm Hop); reflexivity|intros q; reflexivity|].
    destruct (dispatched fx (ensure_chan s c h) c h m) eqn:Hd; [|exact G0].
    apply Good_apply_err.
    destruct (ensure_chan_some s c h cn0 Ec) as (ch0 & Ech0).
    assert (Hop0 : conn_opened (ensure_chan s c h) c = true) by (rewrite conn_opened_ensure; exact Hop).
    pose proof (Good_handle_method_all cfg fx (ensure_chan s c h) c h m ch0 F1 F2 F3 F4 I0 Hop0 Ech0 Hd) as G1.
    eapply Good_ext; [| |exact (Good_trans _ _ _ _ _ _ _ G0 G1)]; intros q; unfold nil1; rewrite ?app_nil_r; reflexivity.
  - (* connection.close *)
    cbn [step]. rewrite Ec, Hst. cbn [negb andb].
    apply (Good_ext s _ (fun qid => if fx_stage fx && negb (h =? 0) then [] else conn_released (ensure_chan s c h) c qid) nil1);
      [intros q; unfold released; rewrite Hop; reflexivity|intros q; reflexivity|].
    specialize (Hcc (fx_stage fx && negb (h =? 0))%bool). destruct (fx_stage fx && negb (h =? 0))%bool; [exact Hcc|].
    destruct (conn_close cfg fx (ensure_chan s c h) c) as [s1 e1]. exact Hcc.
  - (* connection.close-ok *)
    cbn [step]. rewrite Ec, Hst. cbn [negb andb].
    apply (Good_ext s _ (fun qid => if fx_stage fx && negb (h =? 0) then [] else conn_released (ensure_chan s c h) c qid) nil1);
      [intros q; unfold released; rewrite Hop; reflexivity|intros q; reflexivity|].
    specialize (Hcc (fx_stage fx && negb (h =? 0))%bool). destruct (fx_stage fx && negb (h =? 0))%bool; exact Hcc.
Qed.

Lemma Good_method_unopened s c h m cn0 :
  Inv s -> get_conn s c = Some cn0 -> cstage_eqb (cn_stage cn0) StOpen = false ->
  Good s (fst (step cfg fx s (LMethod c h m))) nil1 nil1.
Proof.
  intros I Ec Hst. pose proof (proj1 I) as V.
  assert (Hop : conn_opened s c = false) by (rewrite (conn_opened_stage _ _ _ Ec); exact Hst).
  destruct (h =? 0) eqn:Eh.
  - apply N.eqb_eq in Eh. subst h.
    assert (G0 : Good s (ensure_chan s c 0) nil1 nil1) by (apply (Good_ensure s c 0 cn0); auto; rewrite Hst; reflexivity).
    assert (I0 : Inv (ensure_chan s c 0)) by (split; [exact (proj1 G0)|apply CI_ensure_chan; exact (proj2 I)]).
    assert (Hop0 : conn_opened (ensure_chan s c 0) c = false) by (rewrite conn_opened_ensure; exact Hop).
    destruct (method_unopened cfg fx s c m cn0 F1 Ec Hst) as [E|[E|(st & E)]]; rewrite E.
    + exact G0.
    + eapply Good2; [exact G0|]. apply Good_drop_unopened; auto.
    + destruct (ensure_chan_conn s c 0 cn0 Ec) as (cn' & Ec' & Es').
      eapply Good2; [exact G0|]. apply (Good_set_stage _ c st cn'); [exact (proj1 G0)|exact Ec'|rewrite Es'; exact Hst].
  - cbn [step]. rewrite Ec, Hst, Eh. cbn [negb andb]. apply Good_drop_unopened; auto.
Qed.

Theorem step_good s l : Inv s -> Good s (fst (step cfg fx s l)) (released cfg fx s l) (placed cfg fx s l).
Proof.
  intros I. pose proof I as [V Hci]. destruct l.
  - (* LConnect *) cbn [step released placed]. destruct (get_conn s c) eqn:Ec; cbn [fst]; [apply Good_frame; auto|].
    apply Good_new_conn; auto.
  - (* LMethod *)
    destruct (get_conn s c) as [cn0|] eqn:Ec.
    2:{ cbn [step]. rewrite Ec. cbn [fst]. apply Good_nil_rel; [|apply Good_frame; auto].
        intros q. apply released_unopened. unfold conn_opened. rewrite Ec. reflexivity. }
    destruct (cstage_eqb (cn_stage cn0) StOpen) eqn:Hst.
    + apply (Good_method_opened s c h m cn0); auto.
    + apply Good_nil_rel; [|apply (Good_method_unopened s c h m cn0); auto].
      intros q. apply released_unopened. rewrite (conn_opened_stage _ _ _ Ec). exact Hst.
  - (* LHeader *) exact (Good_header cfg fx s c h mid size pers F4 I).
  - (* LBody *) exact (Good_body cfg fx s c h len F4 I).
  - (* LConsumerTurn *) cbn [step released placed]. apply Good_consumer_turn; auto.
  - (* LQueueLoop *) cbn [step released placed fst]. apply Good_frame; auto. apply view_queue_loop_turn.
  - (* LAutoDelete *) exact (Good_autodelete cfg fx s F4 V).
  - (* LPersistTick *) cbn [step released placed fst]. apply Good_frame; auto. rewrite view_fold; [reflexivity|]. intros; apply view_store_confirm.
  - (* LRelay *) cbn [step released placed]. destruct (relay s) as [|u rest]; [apply Good_frame; auto|].
    destruct (get_msg _ u) as [m|]; cbn [fst]; [|apply Good_frame; auto].
    destruct (m_conf m) as [[[? ?] ?]|]; cbn [fst]; apply Good_frame; auto. rewrite view_add_confirm. reflexivity.
  - (* LConfirmTick *) cbn [step released placed]. destruct (get_chan s c h) as [ch|] eqn:Ech; [|apply Good_frame; auto].
    destruct (negb _); [apply Good_frame; auto|].
    destruct (ch_status ch); cbn [fst]; apply Good_frame; auto; (eapply view_set_chan_same; [eauto|cpr]).
  - (* LSocketLoss *) cbn [step]. pose proof (Good_conn_close cfg fx s c F4 I) as G.
    destruct (conn_close cfg fx s c) as [s1 e1]. exact G.
  - (* LAccept *) cbn [step released placed]. destruct (get_conn s c) eqn:Ec; cbn [fst]; [apply Good_frame; auto|].
    apply Good_new_conn; auto.
  - (* LBadMethod *)
    cbn [step]. destruct (get_conn s c) as [cn0|] eqn:Ec; [|apply Good_frame; auto].
    set (op := cstage_eqb (cn_stage cn0) StOpen).
    assert (Hop : op = false -> conn_opened s c = false) by (intros E; rewrite (conn_opened_stage _ _ _ Ec); exact E).
    destruct (negb op && negb (h =? 0)) eqn:Eg.
    { apply Good_drop_unopened; auto. apply Hop. destruct op; [discriminate|reflexivity]. }
    pose proof (Good_ensure s c h cn0 V Ec Eg) as G0.
    eapply Good2; [exact G0|]. apply Good_err_st; auto.
    + split; [exact (proj1 G0)|apply CI_ensure_chan; exact Hci].
    + intros E. rewrite conn_opened_ensure. auto.
  - (* LHeartbeat *)
    apply (Good_ext s _ (fun qid => if h =? 0 then [] else conn_released s c qid) nil1); [intros; reflexivity|intros; reflexivity|].
    cbn [step]. destruct (get_conn s c) eqn:Ec.
    + destruct (h =? 0); [apply Good_frame; auto|]. apply Good_conn_close; auto.
    + cbn [fst]. apply Good_nil_rel; [|apply Good_frame; auto]. intros q. destruct (h =? 0); auto. unfold conn_released. rewrite Ec. reflexivity.
  - (* LRestart *) exact (Good_restart cfg s V).
Qed.
End Step.

(* ================================================================== *)
(* the invariant is inductive and holds initially; the per-step and per-run theorems *)
Lemma Inv_init cfg : Inv (init cfg).
Proof.
  split; [|apply CI_init]. unfold VI. cbn. constructor; cbn; try (intros; contradiction); constructor.
Qed.

Theorem Inv_step cfg fx s l :
  fx_stage fx = true -> fx_chan_open fx = true -> fx_closeok_releases fx = true -> fx_delete_checks_first fx = true ->
  Inv s -> Inv (fst (step cfg fx s l)).
Proof. intros F1 F2 F3 F4 I. split; [exact (proj1 (step_good cfg fx F1 F2 F3 F4 s l I))|apply CI_step; exact (proj2 I)]. Qed.

Theorem Inv_run cfg fx ls : forall s,
  fx_stage fx = true -> fx_chan_open fx = true -> fx_closeok_releases fx = true -> fx_delete_checks_first fx = true ->
  Inv s -> Inv (fst (run cfg fx s ls)).
Proof.
  induction ls as [|l t IH]; intros s F1 F2 F3 F4 I; cbn [run]; auto.
  pose proof (Inv_step cfg fx s l F1 F2 F3 F4 I) as I1. specialize (IH (fst (step cfg fx s l)) F1 F2 F3 F4 I1).
  destruct (step cfg fx s l) as [s1 e1]. cbn [fst] in *. destruct (run cfg fx s1 t) as [s2 e2]. exact IH.
Qed.

Theorem step_conserves cfg fx s l qid :
  fx_stage fx = true -> fx_chan_open fx = true -> fx_closeok_releases fx = true -> fx_delete_checks_first fx = true ->
  Inv s ->
  Permutation (held (fst (step cfg fx s l)) qid ++ released cfg fx s l qid) (held s qid ++ placed cfg fx s l qid).
Proof. intros F1 F2 F3 F4 I. exact (proj2 (step_good cfg fx F1 F2 F3 F4 s l I) qid). Qed.

Fixpoint all_released cfg fx s ls qid : list N :=
  match ls with [] => [] | l :: t => released cfg fx s l qid ++ all_released cfg fx (fst (step cfg fx s l)) t qid end.
Fixpoint all_placed cfg fx s ls qid : list N :=
  match ls with [] => [] | l :: t => placed cfg fx s l qid ++ all_placed cfg fx (fst (step cfg fx s l)) t qid end.

Theorem run_conserves_from cfg fx ls : forall s qid,
  fx_stage fx = true -> fx_chan_open fx = true -> fx_closeok_releases fx = true -> fx_delete_checks_first fx = true ->
  Inv s ->
  Permutation (held (fst (run cfg fx s ls)) qid ++ all_released cfg fx s ls qid) (held s qid ++ all_placed cfg fx s ls qid).
Proof.
  induction ls as [|l t IH]; intros s qid F1 F2 F3 F4 I; cbn [run all_released all_placed fst].
  - reflexivity.
  - pose proof (step_conserves cfg fx s l qid F1 F2 F3 F4 I) as H1.
    pose proof (Inv_step cfg fx s l F1 F2 F3 F4 I) as I1.
    specialize (IH (fst (step cfg fx s l)) qid F1 F2 F3 F4 I1).
    destruct (step cfg fx s l) as [s1 e1]. cbn [fst] in *. destruct (run cfg fx s1 t) as [s2 e2]. cbn [fst] in *. perm_lia.
Qed.

Theorem run_conserves cfg fx ls qid :
  fx_stage fx = true -> fx_chan_open fx = true -> fx_closeok_releases fx = true -> fx_delete_checks_first fx = true ->
  Permutation (held (fst (run cfg fx (init cfg) ls)) qid ++ all_released cfg fx (init cfg) ls qid) (all_placed cfg fx (init cfg) ls qid).
Proof. intros F1 F2 F3 F4. exact (run_conserves_from cfg fx ls (init cfg) qid F1 F2 F3 F4 (Inv_init cfg)). Qed.

(* ================================================================== *)
(* nothing vanishes in between: the labels that release something from a queue object that is still there afterwards *)
Definition settling (l : label) : bool :=
  match l with
  | LMethod _ _ (MAck _ _) | LMethod _ _ (MNack _ _ false) | LMethod _ _ (MReject _ false) | LMethod _ _ (MGet _ true)
  | LMethod _ _ (MQPurge _ _) | LConsumerTurn _ _ _ | LRestart => true
  | _ => false
  end.

Lemma alive_apply_err s0 c h r qid : queue_alive (fst (apply_err s0 c h r)) qid = queue_alive (fst (fst r)) qid.
Proof.
  destruct r as [[s1 e1] [e|]]; cbn [fst]; auto. unfold apply_err.
  pose proof (queues_send_error s1 c h e) as Hq. destruct (send_error s1 c h e) as [s2 e2]. cbn [fst] in *.
  unfold queue_alive. rewrite Hq. reflexivity.
Qed.

Lemma alive_qshape s s' qid : qshape (qv s') = qshape (qv s) -> queue_alive s' qid = queue_alive s qid.
Proof. intros E. rewrite !queue_alive_qv. apply alive_shape. exact E. Qed.

Lemma qshape_handle_reject cfg s c h tag mult rqf cls mth :
  qshape (qv (fst (handle_reject cfg s c h tag mult rqf cls mth))) = qshape (qv s).
Proof.
  unfold handle_reject. destruct (get_chan s c h) as [ch|]; auto. destruct mult.
  - cbn [fst]. rewrite view_fold_dec_qv.
    destruct (reject_fold_view c h rqf (filter (fun u => (tag =? 0) || (u_tag u <=? tag)) (sort_desc (ch_unacked ch))) s) as (_ & B & _).
    cbv zeta in B. rewrite B. destruct rqf; auto. apply qshape_rq_fold.
  - destruct (find _ (ch_unacked ch)) as [u|]; cbn [fst]; auto.
    rewrite (qv_of_view _ _ (view_dec_qos cfg _ c h u)), qv_chan_rejectmsg, qv_upd_chan. destruct rqf; auto. apply qshape_rq.
Qed.

Lemma qshape_channel_close cfg s c h : VI s -> qshape (qv (channel_close cfg s c h)) = qshape (qv s).
Proof.
  intros V. destruct (get_chan s c h) as [ch|] eqn:Ech.
  - destruct (channel_close_view cfg s c h ch V Ech) as (_ & B & _). rewrite B. apply qshape_rq_fold.
  - unfold channel_close. rewrite Ech. reflexivity.
Qed.

Lemma delete_kills s q qu qid : VI s -> get_queue s q = Some qu -> q_id qu = qid -> alive (adel seqb q (qv s)) qid = false.
Proof.
  intros V Eq Hid. apply Bool.not_true_is_false. intros Ha. apply alive_in in Ha. destruct Ha as (n & p & Hin & Hp).
  pose proof (in_adel seqb q _ _ Hin) as Hin0.
  assert (n = q) by (apply (qids_unique (qv s) n p q (qproj qu) (vi_qids _ _ _ V) Hin0 (qv_in _ _ _ Eq)); cbn; congruence). subst n.
  apply (adel_notin seqb seqb_spec q (qv s)). apply (in_map fst) in Hin. exact Hin.
Qed.

Lemma vhost_delete_qv s q iu ie :
  qv (fst (fst (vhost_delete_queue false s q iu ie))) =
  match get_queue s q with Some qu => if delete_refused qu iu ie then qv s else adel seqb q (qv s) | None => qv s end.
Proof.
  unfold vhost_delete_queue. destruct (get_queue s q) as [qu|] eqn:Eq; [|reflexivity].
  fold (delete_refused qu iu ie). destruct (delete_refused qu iu ie); [reflexivity|].
  pose proof (view_cancel_fold (q_consumers qu) s []) as E1.
  destruct (fold_left _ (q_consumers qu) (s, [])) as [s1 e1]. cbn [fst] in *. destruct (view_inv _ _ E1) as (A & B & C).
  unfold qv at 1. destruct (q_durable qu); cbn; rewrite vmap_adel; fold (qv s1); rewrite B; reflexivity.
Qed.

Lemma conn_close_qv cfg fx s c cn :
  fx_delete_checks_first fx = true -> Inv s -> get_conn s c = Some cn ->
  exists v1 : qview, qshape v1 = qshape (qv s) /\ qv (fst (conn_close cfg fx s c)) = filter (fun e => negb (Pown c e)) v1.
Proof.
  intros F I Ec. pose proof (proj1 I) as V. unfold conn_close. rewrite Ec.
  pose proof (conn_stage_cv _ _ _ Ec) as Ecv.
  assert (Hinc : In (c, nproj cn) (cv s)) by (eapply alookup_in; eauto; apply Neqb_spec).
  assert (Hkeys : NoDup (map fst (cn_chans cn))).
  { pose proof (vi_hkeys _ _ _ V c (cn_stage cn) (vmap cproj (cn_chans cn)) Hinc) as H. rewrite keys_vmap in H. exact H. }
  set (ids := sort_desc_N (map fst (cn_chans cn))).
  assert (Hperm : Permutation ids (map fst (cn_chans cn))) by apply sort_desc_N_perm.
  assert (Hnd : NoDup ids) by (eapply Permutation_NoDup; [symmetry; exact Hperm|exact Hkeys]).
  assert (Hex : forall h, In h ids -> cv_get (cv s) c h <> None).
  { intros h Hin. apply (Permutation_in _ Hperm) in Hin. apply in_map_iff in Hin. destruct Hin as ([h0 ch0] & <- & Hkh).
    unfold cv_get. rewrite Ecv. cbn. rewrite alookup_vmap. rewrite (nodup_in_alookup N.eqb Neqb_spec _ _ _ Hkeys Hkh). discriminate. }
  destruct (close_fold_view cfg c ids s I Hnd Hex) as (I1 & A1 & B1 & C1). cbv zeta in *.
  set (s1 := fold_left (fun s h => channel_close cfg s c h) ids s) in *. clearbody s1.
  rewrite F. cbn [negb]. rewrite owned_qv. fold (qv s1).
  set (owned := map fst (filter (Pown c) (qv s1))).
  destruct (delete_fold_view owned s1 []) as (A2 & B2 & C2). cbv zeta in *.
  destruct (fold_left _ owned (s1, [])) as [s2 e2]. cbn [fst] in *.
  exists (qv s1). split; [rewrite B1; apply qshape_rq_fold|].
  change (qv (s2 <| conns := adel N.eqb c (conns s2) |>)) with (qv s2).
  rewrite B2, fold_adel_filter. apply filter_ext_in. intros e He. f_equal. apply names_of_filter; auto.
  exact (vi_qkeys _ _ _ (proj1 I1)).
Qed.

Lemma conn_released_nil_alive cfg fx s c qid :
  fx_delete_checks_first fx = true -> Inv s -> queue_alive (fst (conn_close cfg fx s c)) qid = true -> conn_released s c qid = [].
Proof.
  intros F I Ha. pose proof (proj1 I) as V. unfold conn_released. destruct (get_conn s c) as [cn|] eqn:Ec; auto.
  destruct (conn_close_qv cfg fx s c cn F I Ec) as (v1 & Hsh & Eq).
  rewrite queue_alive_qv, Eq in Ha. apply alive_in in Ha. destruct Ha as (n & p & Hin & Hid).
  apply filter_In in Hin. destruct Hin as [Hin Hf].
  assert (Ha1 : alive (qv s) qid = true) by (rewrite <- (alive_shape _ _ qid Hsh); apply alive_in; eauto).
  assert (K1 : NoDup (map fst v1)) by (rewrite qshape_keys, Hsh, <- qshape_keys; exact (vi_qkeys _ _ _ V)).
  assert (K2 : NoDup (qids v1)) by (rewrite qshape_qids, Hsh, <- qshape_qids; exact (vi_qids _ _ _ V)).
  assert (Eo : existsb (owned_by c qid) (queues s) = false).
  { rewrite owned_by_qv. fold (qv s).
    assert (Eown : existsb (fun e => Pown c e && (p_id (snd e) =? qid)) (qv s) = existsb (fun e => Pown c e && (p_id (snd e) =? qid)) v1).
    { symmetry. exact (existsb_shape (qv s) v1 (fun t => let '(i, ex, o, a) := t in ex && (o =? c) && (i =? qid)) Hsh). }
    rewrite Eown. apply Bool.not_true_is_false. intros Hx. apply existsb_exists in Hx. destruct Hx as ([n' p'] & Hin' & Hp).
    apply andb_prop in Hp. destruct Hp as [Hp1 Hp2]. apply N.eqb_eq in Hp2. cbn in Hp1, Hp2.
    assert (n' = n) by (apply (qids_unique v1 n' p' n p K2 Hin' Hin); congruence). subst n'.
    pose proof (nodup_in_alookup seqb seqb_spec _ _ _ K1 Hin) as L1. pose proof (nodup_in_alookup seqb seqb_spec _ _ _ K1 Hin') as L2.
    assert (p' = p) by congruence. subst p'. cbv beta in Hf. apply Bool.negb_true_iff in Hf. unfold Pown in *. cbn in *. congruence. }
  rewrite queue_alive_qv, Ha1, Eo. reflexivity.
Qed.

Section Vanish.
Variables (cfg : config) (fx : fixes).
Hypotheses (F1 : fx_stage fx = true) (F2 : fx_chan_open fx = true) (F3 : fx_closeok_releases fx = true)
           (F4 : fx_delete_checks_first fx = true).

Lemma method_released_nil_alive s c h m ch qid :
  VI s -> get_chan s c h = Some ch -> settling (LMethod c h m) = false ->
  match m with MConnClose | MConnCloseOk => False | _ => True end ->
  queue_alive (fst (fst (handle_method cfg fx s c h m))) qid = true -> method_released fx s c h m qid = [].
Proof.
  intros V Ech Hs Hm Ha. destruct m; try discriminate; try contradiction; try reflexivity.
  - (* channel.close *) unfold handle_method in Ha. rewrite Ech in Ha. unfold ok in Ha. cbn [fst] in Ha.
    rewrite (alive_qshape _ _ qid (qshape_channel_close cfg s c h V)) in Ha. unfold method_released, close_released. rewrite Ha.
    rewrite andb_false_r. reflexivity.
  - (* channel.close-ok *) unfold handle_method in Ha. rewrite Ech, F3 in Ha. unfold ok in Ha. cbn [fst] in Ha.
    rewrite (alive_qshape _ _ qid (qshape_channel_close cfg s c h V)) in Ha. unfold method_released, close_released. rewrite Ha, F3.
    rewrite andb_false_r. reflexivity.
  - (* queue.delete *) unfold method_released. unfold handle_method in Ha. rewrite Ech in Ha. unfold ok, refuse in Ha.
    destruct (queue_found s q) as [qu|] eqn:Ef; auto. pose proof (queue_found_get _ _ _ Ef) as Eg.
    destruct (locked qu c); cbn [orb]; auto. destruct (delete_refused qu ifunused ifempty) eqn:Er; auto.
    unfold ready_if. destruct (q_id qu =? qid) eqn:Ei; auto. apply N.eqb_eq in Ei. exfalso.
    rewrite F4 in Ha. cbn [negb] in Ha. pose proof (vhost_delete_qv s q ifunused ifempty) as Hq. rewrite Eg, Er in Hq.
    destruct (vhost_delete_queue false s q ifunused ifempty) as [[s1 e1] r1]. cbn [fst] in *.
    assert (Ha' : queue_alive s1 qid = true) by (destruct r1; exact Ha).
    rewrite queue_alive_qv, Hq, (delete_kills s q qu qid V Eg Ei) in Ha'. discriminate.
  - (* basic.get, ack mode *) destruct noack; [discriminate|reflexivity].
  - (* nack *) destruct requeue; [|discriminate]. unfold handle_method in Ha. rewrite Ech in Ha.
    pose proof (qshape_handle_reject cfg s c h tag mult true 60 120) as Hq.
    destruct (handle_reject cfg s c h tag mult true 60 120) as [s1 e1]. cbn [fst] in *.
    rewrite (alive_qshape _ _ qid Hq) in Ha. unfold method_released. rewrite Ha. reflexivity.
  - (* reject *) destruct requeue; [|discriminate]. unfold handle_method in Ha. rewrite Ech in Ha.
    pose proof (qshape_handle_reject cfg s c h tag false true 60 90) as Hq.
    destruct (handle_reject cfg s c h tag false true 60 90) as [s1 e1]. cbn [fst] in *.
    rewrite (alive_qshape _ _ qid Hq) in Ha. unfold method_released. rewrite Ha. reflexivity.
Qed.

Theorem released_nil_alive s l qid :
  Inv s -> settling l = false -> queue_alive (fst (step cfg fx s l)) qid = true -> released cfg fx s l qid = [].
Proof.
  intros I Hs Ha. pose proof I as [V Hci]. destruct l; try discriminate; try reflexivity.
  - (* LMethod *)
    destruct (conn_opened s c) eqn:Hop; [|apply released_unopened; exact Hop].
    unfold conn_opened in Hop. destruct (get_conn s c) as [cn0|] eqn:Ec; [|discriminate].
    assert (Hop' : conn_opened s c = true) by (unfold conn_opened; rewrite Ec; exact Hop).
    assert (G0 : Good s (ensure_chan s c h) nil1 nil1) by (apply (Good_ensure s c h cn0); auto; rewrite Hop; reflexivity).
    assert (I0 : Inv (ensure_chan s c h)) by (split; [exact (proj1 G0)|apply CI_ensure_chan; exact Hci]).
    assert (Hm : match m with MConnClose | MConnCloseOk => False | _ => True end \/ m = MConnClose \/ m = MConnCloseOk)
      by (destruct m; auto).
    destruct Hm as [Hm|[->| ->]].
    + rewrite (released_method_any cfg fx s c h m qid Hm Hop').
      rewrite (method_dispatch cfg fx s c h m cn0 Ec Hop Hm) in Ha.
      destruct (dispatched fx (ensure_chan s c h) c h m); auto.
      rewrite alive_apply_err in Ha. destruct (ensure_chan_some s c h cn0 Ec) as (ch0 & Ech0).
      apply (method_released_nil_alive (ensure_chan s c h) c h m ch0 qid (proj1 I0) Ech0 Hs Hm Ha).
    + unfold released. rewrite Hop'. cbn [step] in Ha. rewrite Ec, Hop in Ha. cbn [negb andb] in Ha.
      destruct (fx_stage fx && negb (h =? 0))%bool; auto.
      apply (conn_released_nil_alive cfg fx _ c qid F4 I0). destruct (conn_close cfg fx (ensure_chan s c h) c) as [s1 e1]. exact Ha.
    + unfold released. rewrite Hop'. cbn [step] in Ha. rewrite Ec, Hop in Ha. cbn [negb andb] in Ha.
      destruct (fx_stage fx && negb (h =? 0))%bool; auto.
      apply (conn_released_nil_alive cfg fx _ c qid F4 I0). exact Ha.
  - (* LAutoDelete *)
    cbn [released]. unfold autodelete_released. cbn [step] in Ha. destruct (autodel s) as [|qn rest]; auto. rewrite F4 in Ha. cbn [negb] in Ha.
    change (get_queue (s <| autodel := rest |>) qn) with (get_queue s qn) in Ha.
    destruct (get_queue s qn) as [qu|] eqn:Eq; auto.
    destruct (q_autodel qu); cbn [andb]; auto. destruct (delete_refused qu true false) eqn:Er; cbn [negb]; auto.
    unfold ready_if. destruct (q_id qu =? qid) eqn:Ei; auto. apply N.eqb_eq in Ei. exfalso.
    pose proof (vhost_delete_qv (s <| autodel := rest |>) qn true false) as Hq.
    change (get_queue (s <| autodel := rest |>) qn) with (get_queue s qn) in Hq. rewrite Eq, Er in Hq.
    change (qv (s <| autodel := rest |>)) with (qv s) in Hq.
    destruct (vhost_delete_queue false (s <| autodel := rest |>) qn true false) as [[s1 e1] r1]. cbn [fst] in *.
    rewrite queue_alive_qv, Hq, (delete_kills s qn qu qid V Eq Ei) in Ha. discriminate.
  - (* LSocketLoss *) cbn [released]. apply (conn_released_nil_alive cfg fx s c qid F4 I). cbn [step] in Ha.
    destruct (conn_close cfg fx s c) as [s1 e1]. exact Ha.
  - (* LHeartbeat *) cbn [released]. destruct (h =? 0) eqn:Eh; auto. apply (conn_released_nil_alive cfg fx s c qid F4 I).
    cbn [step] in Ha. destruct (get_conn s c) eqn:Ec; [rewrite Eh in Ha; exact Ha|].
    unfold conn_close. rewrite Ec. exact Ha.
Qed.

Corollary nothing_vanishes_in_between s l qid u :
  Inv s -> settling l = false -> In u (held s qid) -> queue_alive (fst (step cfg fx s l)) qid = true ->
  In u (held (fst (step cfg fx s l)) qid).
Proof.
  intros I Hs Hin Ha. pose proof (step_conserves cfg fx s l qid F1 F2 F3 F4 I) as H.
  rewrite (released_nil_alive s l qid I Hs Ha), app_nil_r in H.
  eapply Permutation_in; [symmetry; exact H|]. apply in_or_app. auto.
Qed.
End Vanish.

(* a consumer turn of an ack-mode consumer releases nothing either *)
Lemma turn_released_ack s c h tag ch cm qid :
  get_chan s c h = Some ch -> find_consumer ch tag = Some cm -> c_noack cm = false -> forall cfg fx, released cfg fx s (LConsumerTurn c h tag) qid = [].
Proof. intros E1 E2 E3 cfg fx. cbn [released]. unfold turn_released. rewrite E1, E2, E3. rewrite andb_false_r. reflexivity. Qed.
